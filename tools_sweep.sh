#!/bin/sh
# unchanged-tree sweep: tools_sweep.sh <tier> <parallel> <seed>...   (run from a /verif checkout; builds first)
tier=$1; par=$2; shift 2
./check --setup > sweep-setup.log 2>&1 || { echo "setup failed"; tail -20 sweep-setup.log; exit 2; }
mkdir -p sweep
for s in "$@"; do
  ls checks.d | sed 's/.json//' | xargs -P "$par" -I{} sh -c "VERIF_SEED=$s ./check {} --tier $tier > sweep/{}-$s.out 2> sweep/{}-$s.err; echo \"{} seed=$s rc=\$? \$(grep -c VIOLATION sweep/{}-$s.out) violations; \$(tail -1 sweep/{}-$s.out | cut -c1-160)\""
done
echo SWEEP-DONE
