#!/usr/bin/env python3
"""Run the repository's test suite (guard OFF, no build tags) and compare the passing set with
/root/.vp/BASELINE.json stable_pass.  usage: tools_baseline.py [repo_dir]   exit 0 iff every stable test passes."""
import json, os, subprocess, sys
repo = sys.argv[1] if len(sys.argv) > 1 else "/repo"
env = dict(os.environ, GOFLAGS="-mod=mod", GOPROXY="off", GOSUMDB="off", GOTOOLCHAIN="local")
p = subprocess.run(["go", "test", "-json", "-vet=off", "-count=1", "-timeout", "25m", "./..."], cwd=repo, env=env,
                   stdout=subprocess.PIPE, stderr=subprocess.STDOUT, text=True)
passed = set()
for l in p.stdout.split("\n"):
    if not l.startswith("{"):
        continue
    try:
        e = json.loads(l)
    except Exception:
        continue
    if e.get("Action") == "pass" and e.get("Test"):
        passed.add("%s::%s" % (e["Package"], e["Test"]))
base = json.load(open("/root/.vp/BASELINE.json"))
stable = set(base["stable_pass"])
missing = sorted(stable - passed)
print("stable baseline tests: %d, passing now: %d, stable tests not passing: %d" % (len(stable), len(stable & passed), len(missing)))
for m in missing[:40]:
    print("  MISSING", m)
sys.exit(1 if missing else 0)
