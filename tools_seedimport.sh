#!/bin/sh
# tools_seedimport.sh <out-dir-suffix e.g. c15b> <prop-lower e.g. c15> <first-number>
src=/tmp/seed-out-$1; p=$2; k=$3
for n in 1 2 3; do
  [ -d $src/$n ] || continue
  d=seeded/$p-$k; mkdir -p $d
  cp $src/$n/patch.diff $src/$n/meta.json $d/
  cp $src/$n/zz_*_test.go $d/demo_test.go
  echo $d; k=$((k+1))
done
