#!/usr/bin/env python3
"""Run the registered checks against the seeded defects kept under /verif/seeded/<id>/.

  tools_seeded.py [--verify-demo] [id ...]

For each seeded/<id>/ (patch.diff, meta.json {property, demo_path, ...}, demo file): apply the patch to /repo, run
./check <property> (quick; thorough with --thorough), undo the patch, record whether a VIOLATION was reported and
whether it came with a concrete replay. With --verify-demo also confirm that the demonstration fails with the
patch and passes without it, and that the package's own tests still pass with the patch. /repo must be clean.
Results are appended to seeded/RESULTS.md."""
import glob, json, os, subprocess, sys, shutil, time
ROOT = os.path.dirname(os.path.abspath(__file__))
REPO = "/repo"          # replaced by a scratch worktree in main() unless --in-place
WT = "/tmp/verif-seeded-wt-%d" % os.getpid()
ENV = dict(os.environ, GOFLAGS="-mod=mod", GOPROXY="off", GOSUMDB="off", GOTOOLCHAIN="local")

def sh(cmd, cwd=None, timeout=3600):
    p = subprocess.run(cmd, cwd=cwd, env=ENV, stdout=subprocess.PIPE, stderr=subprocess.STDOUT, text=True, timeout=timeout)
    return p.returncode, p.stdout

import re
BASE = None
def stable_in(pkgdir):
    """stable baseline tests of the package at pkgdir (repo-relative)"""
    global BASE
    if BASE is None:
        BASE = json.load(open("/root/.vp/BASELINE.json"))["stable_pass"]
    pref = "github.com/linuxboot/fiano/" + pkgdir.strip("./") + "::"
    return {t for t in BASE if t.startswith(pref)}

def passing(pkg, run=None):
    cmd = ["go", "test", "-json", "-vet=off", "-count=1", pkg]
    if run:
        cmd[5:5] = ["-run", run]
    rc, out = sh(cmd, cwd=REPO)
    ok, bad = set(), set()
    for l in out.split("\n"):
        if l.startswith("{"):
            try:
                e = json.loads(l)
            except Exception:
                continue
            if e.get("Test"):
                if e.get("Action") == "pass":
                    ok.add("%s::%s" % (e["Package"], e["Test"]))
                elif e.get("Action") == "fail":
                    bad.add("%s::%s" % (e["Package"], e["Test"]))
    built = "[build failed]" not in out and "[setup failed]" not in out
    return ok, bad, built

def demo_names(path):
    return sorted(set(re.findall(r"^func (Test\w+)\(", open(path).read(), flags=re.M)))

def run_demo(demo_src, dst, pkg):
    shutil.copyfile(demo_src, dst)
    try:
        names = demo_names(demo_src)
        ok, bad, built = passing(pkg, "^(" + "|".join(names) + ")$")
        return ("fails" if (bad or not built) else "passes"), names
    finally:
        os.remove(dst)

def clean():
    rc, out = sh(["git", "status", "--porcelain"], cwd=REPO)
    return all(l.strip() == "" or l.strip().endswith("integration/roms/OVMF.rom") for l in out.split("\n"))

def main():
    args = sys.argv[1:]
    verify = "--verify-demo" in args
    tier = "thorough" if "--thorough" in args else "quick"
    ids = [a for a in args if not a.startswith("--")]
    dirs = sorted(glob.glob(os.path.join(ROOT, "seeded", "*", "")))
    rows = []
    global REPO
    if "--in-place" not in args:
        # work on a scratch worktree of /repo's HEAD (other jobs may be using /repo); the checks follow VERIF_REPO
        sh(["git", "-C", "/repo", "worktree", "remove", "--force", WT])
        rc, out = sh(["git", "-C", "/repo", "worktree", "add", "--detach", WT, "HEAD"])
        if rc != 0:
            print("cannot create worktree:", out); return 2
        REPO = WT
        ENV["VERIF_REPO"] = WT
    try:
        return run_all(dirs, ids, verify, tier, rows)
    finally:
        if REPO == WT:
            sh(["git", "-C", "/repo", "worktree", "remove", "--force", WT])
            sh(["git", "-C", "/repo", "worktree", "prune"])


def run_all(dirs, ids, verify, tier, rows):
    for d in dirs:
        sid = os.path.basename(os.path.dirname(d))
        if ids and sid not in ids:
            continue
        if not os.path.exists(os.path.join(d, "meta.json")):
            continue
        meta = json.load(open(os.path.join(d, "meta.json")))
        prop = meta["property"]
        if not clean():
            print("/repo is not clean; aborting"); return 2
        rc, out = sh(["git", "apply", os.path.join(d, "patch.diff")], cwd=REPO)
        if rc != 0:
            rows.append((sid, prop, "patch does not apply: " + out[:200], "", "")); continue
        demo_res = ""
        try:
            if verify and meta.get("demo_path"):
                demo_src = os.path.join(d, meta.get("demo_file", "demo_test.go"))
                dst = os.path.join(REPO, meta["demo_path"])
                pkgdir = os.path.dirname(meta["demo_path"])
                pkg = "./" + pkgdir
                ok, bad, built = passing(pkg)
                lost = stable_in(pkgdir) - ok
                r_with, names = run_demo(demo_src, dst, pkg)
                demo_res = "builds=%s stable-tests-lost-with-patch=%d demo-with-patch=%s" % (built, len(lost), r_with)
            t0 = time.time()
            # the run rewrites evidence/<prop>.json with what it saw on the *patched* tree: keep the committed one
            ev = os.path.join(ROOT, "evidence", prop + ".json")
            ev_keep = open(ev).read() if os.path.exists(ev) else None
            try:
                rc_c, o_c = sh([os.path.join(ROOT, "check"), prop, "--tier", tier], cwd=ROOT)
            finally:
                if ev_keep is not None:
                    open(ev, "w").write(ev_keep)
            replays = [l.split("replay=")[1].split()[0] for l in o_c.split("\n") if l.startswith("VIOLATION") and "replay=" in l]
            for rp in replays[:1]:
                try:
                    shutil.copyfile(rp, os.path.join(d, "replay-%s.json" % tier))
                except OSError:
                    pass
            viol = [l for l in o_c.split("\n") if l.startswith("VIOLATION")]
            verdict = "MISSED"
            if viol:
                verdict = "caught (concrete replay)" if any("no-failing-input-found" not in v for v in viol) else "caught (no-failing-input-found)"
            rows.append((sid, prop, verdict, "%.0fs" % (time.time() - t0), demo_res))
        finally:
            sh(["git", "apply", "-R", os.path.join(d, "patch.diff")], cwd=REPO)
        if verify and meta.get("demo_path"):
            demo_src = os.path.join(d, meta.get("demo_file", "demo_test.go"))
            dst = os.path.join(REPO, meta["demo_path"])
            r_without, _ = run_demo(demo_src, dst, "./" + os.path.dirname(meta["demo_path"]))
            rows[-1] = rows[-1][:4] + (rows[-1][4] + " demo-without-patch=%s" % r_without,)
        if not clean():
            print("WARNING: /repo not clean after", sid)
    with open(os.path.join(ROOT, "seeded", "RESULTS.md"), "a") as f:
        f.write("\n## run %s tier=%s\n\n| seeded | property | verdict | time | demo |\n|---|---|---|---|---|\n" % (time.strftime("%Y-%m-%d %H:%M"), tier))
        for r in rows:
            f.write("| %s | %s | %s | %s | %s |\n" % r)
            print(" | ".join(r))
    return 0

if __name__ == "__main__":
    sys.exit(main())
