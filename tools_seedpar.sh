#!/bin/sh
# tools_seedpar.sh <parallel> <id>... : run tools_seeded.py on the given seeded ids in <parallel> scratch copies of /verif
# (each copy has its own Gen/ and lake build, so patched worktrees do not collide); rows are appended to seeded/RESULTS.md
# and the concrete replays copied back to seeded/<id>/replay-quick.json. Copies are removed at the end.
par=$1; shift
root=$(cd "$(dirname "$0")" && pwd)
i=0
for id in "$@"; do eval "g$((i % par))=\"\$g$((i % par)) $id\""; i=$((i+1)); done
k=0
while [ $k -lt $par ]; do
  eval "ids=\$g$k"
  if [ -n "$ids" ]; then
    ( d=/tmp/vseed-$k; rm -rf $d; mkdir -p $d; rsync -a --exclude .git "$root"/ $d/verif/
      cd $d/verif && python3 tools_seeded.py $ids > /tmp/vseed-$k.log 2>&1
      for id in $ids; do [ -f seeded/$id/replay-quick.json ] && cp seeded/$id/replay-quick.json "$root"/seeded/$id/; done ) &
  fi
  k=$((k+1))
done
wait
{ echo; echo "## run $(date '+%Y-%m-%d %H:%M') tier=quick (parallel copies)"; echo; echo "| seeded | property | verdict | time | demo |"; echo "|---|---|---|---|---|"
  cat /tmp/vseed-*.log | grep '^c[0-9]' | sort -t- -k1,1 -k2,2n | sed 's/^/| /; s/$/ |/'; } >> "$root"/seeded/RESULTS.md
rm -rf /tmp/vseed-[0-9]*
echo SEEDPAR-DONE
