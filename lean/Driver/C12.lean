import Driver.Common
import FianoModel.TightenMe.Model

/-!
  Line protocol of the C12 driver.

    run <pol0> <ops> <imghex>      ops ∈ {T,S,R}*  (T = tighten_me, S = Assemble (save), R = re-parse the
                                   last saved image in a fresh process state)
      → "P=<class>[ <step>…]"      class ∈ ok | err | notflash | unmodelled ; processing stops at the first
                                   failing P/S/R; a failing T leaves the tree unchanged and continues
-/

open Fiano Fiano.TightenMe Driver

def hex64 (n : UInt64) : String := String.ofList (Nat.toDigits 16 n.toNat)

def showRef : Ref → String
  | .idx k => s!"i{k}"
  | .own fr => s!"o{fr.base}/{fr.limit}"

def showElem (e : Elem) : String :=
  (if e.isFV then "V" else "P") ++ s!"@{e.off}+{e.buf.length}#{hex64 (fnv1a e.buf)}"

def showRegion (r : Region) : String :=
  let hd := s!"{showRef r.ref}:{r.buf.length}:{hex64 (fnv1a r.buf)}"
  match r.body with
  | .raw => "R:" ++ hd
  | .me fpt free =>
    let n := match fpt with | none => "-" | some es => toString es.length
    s!"M:{hd}:fpt={n},free={free}"
  | .bios len els => s!"B:{hd}:len={len},els=" ++ ",".intercalate (els.map showElem)

def dump (pol : Nat) (f : Flash) : String :=
  let tbl := ",".intercalate (f.desc.regs.map (fun r => s!"{r.base}/{r.limit}"))
  s!"pol={pol};tbl={tbl};" ++ ";".intercalate (f.regions.map showRegion)

def showParseErr : Err → String
  | .notFlash => "notflash"
  | .unmodelled => "unmodelled"
  | _ => "err"

structure St where
  pol  : Nat
  tree : Flash
  last : Bytes     -- what R re-parses: the last saved image, else the input

def steps : List Char → St → List String → List String
  | [], _, acc => acc.reverse
  | 'T' :: ops, st, acc =>
    match tighten st.pol st.tree with
    | .ok t' => steps ops { st with tree := t' } (s!"T=ok:{dump st.pol t'}" :: acc)
    | .error _ => steps ops st (s!"T=err:{dump st.pol st.tree}" :: acc)
  | 'S' :: ops, st, acc =>
    match asmFlash st.pol st.tree with
    | .ok (t', pol') =>
      let sec := slice t'.buf t'.desc.regionStart regionSectionSize
      steps ops { pol := pol', tree := t', last := t'.buf }
        (s!"S=ok:{t'.buf.length}:{hex64 (fnv1a t'.buf)}:{toHex sec}" :: acc)
    | .error .unmodelled => ("S=unmodelled" :: acc).reverse
    | .error .panic => ("S=panic" :: acc).reverse
    | .error _ => ("S=err" :: acc).reverse
  | 'R' :: ops, st, acc =>
    match parseFlash poisoned st.last with
    | .ok (t', pol') => steps ops { st with pol := pol', tree := t' } (s!"R=ok:{dump pol' t'}" :: acc)
    | .error e => (s!"R={showParseErr e}" :: acc).reverse
  | _ :: _, _, _ => ["bad-op"]

def validOps (s : String) : Bool := s.toList.all (fun c => c == 'T' || c == 'S' || c == 'R')

def handle : List String → String
  | ["run", pol0, ops, img] =>
    match pol0.toNat?, parseHex img with
    | some p, some d =>
      if !validOps ops then "bad-op" else
      match parseFlash p d with
      | .error e => s!"P={showParseErr e}"
      | .ok (t, pol) =>
        " ".intercalate (steps ops.toList { pol := pol, tree := t, last := d } [s!"P=ok:{dump pol t}"])
    | _, _ => "bad-op"
  | _ => "bad-op"

def main : IO Unit := loop handle
