import Driver.Common
import FianoModel.TightenMe.Model
import FianoModel.TightenMe.Tree
import FianoModel.Uefi.EditDrv

/-!
  Line protocol of the C12 driver.

    run <pol0> <ops> <imghex>      ops ∈ {T,S,R}*  (T = tighten_me, S = Assemble (save), R = re-parse the
                                   last saved image in a fresh process state)
      → "P=<class>[ <step>…]"      class ∈ ok | err | notflash | unmodelled ; processing stops at the first
                                   failing P/S/R; a failing T leaves the tree unchanged and continues

    tsteps <imghex> <op>…          one `utk <image> <op>…` in a fresh process on the SHARED tree model
                                   (FianoModel/TightenMe/Tree.lean); <op> = `tighten` or an op word of
                                   FianoModel/Uefi/EditDrv.lean (if:… ip:… dxe:… rm:… rp:… pe:… save find:… …)
      → "cli:<errclass>" | "parse:<errclass>"
      | "<status> <d0> <s1>,<s2>,…"   exactly the `steps` answer of EditDrv: digest of the whole tree
                                   after every visitor ("<digest>/<fnv>:<len>" for save), "!<errclass>" for
                                   the visitor that failed
    ttree <k> <imghex> <op>…       → "ok <canonical dump of the tree after the first k visitors> free=<n>"
-/

open Fiano Fiano.TightenMe Driver

def hex64 (n : UInt64) : String := String.ofList (Nat.toDigits 16 n.toNat)

def showRef : Ref → String
  | .idx k => s!"i{k}"
  | .own fr => s!"o{fr.base}/{fr.limit}"

def showElem (e : Elem) : String :=
  (if e.isFV then "V" else "P") ++ s!"@{e.off}+{e.buf.length}#{hex64 (fnv1a e.buf)}"

def showRegion (r : Region) : String :=
  let hd := s!"{showRef r.ref}:{r.buf.length}:{hex64 (fnv1a r.buf)}"
  match r.body with
  | .raw => "R:" ++ hd
  | .me fpt free =>
    let n := match fpt with | none => "-" | some es => toString es.length
    s!"M:{hd}:fpt={n},free={free}"
  | .bios len els => s!"B:{hd}:len={len},els=" ++ ",".intercalate (els.map showElem)

def dump (pol : Nat) (f : Flash) : String :=
  let tbl := ",".intercalate (f.desc.regs.map (fun r => s!"{r.base}/{r.limit}"))
  s!"pol={pol};tbl={tbl};" ++ ";".intercalate (f.regions.map showRegion)

def showParseErr : Err → String
  | .notFlash => "notflash"
  | .unmodelled => "unmodelled"
  | _ => "err"

structure St where
  pol  : Nat
  tree : Flash
  last : Bytes     -- what R re-parses: the last saved image, else the input

def steps : List Char → St → List String → List String
  | [], _, acc => acc.reverse
  | 'T' :: ops, st, acc =>
    match tighten st.pol st.tree with
    | .ok t' => steps ops { st with tree := t' } (s!"T=ok:{dump st.pol t'}" :: acc)
    | .error _ => steps ops st (s!"T=err:{dump st.pol st.tree}" :: acc)
  | 'S' :: ops, st, acc =>
    match asmFlash st.pol st.tree with
    | .ok (t', pol') =>
      let sec := slice t'.buf t'.desc.regionStart regionSectionSize
      steps ops { pol := pol', tree := t', last := t'.buf }
        (s!"S=ok:{t'.buf.length}:{hex64 (fnv1a t'.buf)}:{toHex sec}" :: acc)
    | .error .unmodelled => ("S=unmodelled" :: acc).reverse
    | .error .panic => ("S=panic" :: acc).reverse
    | .error _ => ("S=err" :: acc).reverse
  | 'R' :: ops, st, acc =>
    match parseFlash poisoned st.last with
    | .ok (t', pol') => steps ops { st with pol := pol', tree := t' } (s!"R=ok:{dump pol' t'}" :: acc)
    | .error e => (s!"R={showParseErr e}" :: acc).reverse
  | _ :: _, _, _ => ["bad-op"]

def validOps (s : String) : Bool := s.toList.all (fun c => c == 'T' || c == 'S' || c == 'R')

/-! ### the tree-level run -/

namespace TreeDrv
open Fiano.Uefi (Op OpSpec St Run errName digestOf dumpText fnvOf joinWith)
open Fiano.TightenMe.T

def hooks : Uefi.Hooks := Uefi.EditDrv.hooks

/-- an op word: `tighten`, or one of the shared edit-op words -/
def parseWord (w : String) : Option (Option OpSpec) :=
  if w = "tighten" then some none else (Uefi.EditDrv.parseOp w).map some

/-- re-interleave: the i-th `none` is tighten_me, the others take the parsed visitors in order -/
def weave : List (Option OpSpec) → List Op → Option (List TOp)
  | [], [] => some []
  | none :: ws, ops => (weave ws ops).map (TOp.tighten :: ·)
  | some _ :: ws, o :: ops => (weave ws ops).map (TOp.op o :: ·)
  | _, _ => none

def isSave : TOp → Bool
  | .op .save => true
  | _ => false

def trace : List TOp → TRun → List String → String × List String × TRun
  | [], s, acc => ("ok", acc.reverse, s)
  | op :: ops, s, acc =>
    match stepT hooks op s with
    | .error e => (errName e, (("!" ++ errName e) :: acc).reverse, s)
    | .ok s' =>
      let d := digestOf s'.run.tree
      let rec_ := if isSave op then
          match s'.run.outs.getLast? with
          | some b => s!"{d}/{fnvOf b}:{b.length}"
          | none => d
        else d
      trace ops s' (rec_ :: acc)

def withRun (img : String) (ops : List String) (k : List TOp → TRun → String) : String :=
  match Uefi.EditDrv.parseHex img, ops.mapM parseWord with
  | some image, some words =>
    -- ParseCLI builds every visitor before the image is read; tighten_me's constructor does nothing
    match Uefi.cliParse hooks (words.filterMap id) {} with
    | .error e => "cli:" ++ errName e
    | .ok (vs, st) =>
      match weave words vs with
      | none => "bad-op"
      | some tops =>
        match parseT hooks image st with
        | .error e => "parse:" ++ errName e
        | .ok s => k tops s
  | _, _ => "bad-op"

def handle : List String → Option String
  | "tsteps" :: img :: ops => some <| withRun img ops fun ops s =>
    let (status, recs, _) := trace ops s []
    s!"{status} {digestOf s.run.tree} {if recs.isEmpty then "-" else joinWith "," recs}"
  | "ttree" :: k :: img :: ops =>
    match k.toNat? with
    | none => some "bad-op"
    | some k => some <| withRun img ops fun ops s =>
      let (_, _, s') := trace (ops.take k) s []
      s!"ok {dumpText s'.run.tree} free={s'.free}"
  | _ => none

end TreeDrv

def handle : List String → String
  | "tsteps" :: rest => (TreeDrv.handle ("tsteps" :: rest)).getD "bad-op"
  | "ttree" :: rest => (TreeDrv.handle ("ttree" :: rest)).getD "bad-op"
  | ["run", pol0, ops, img] =>
    match pol0.toNat?, parseHex img with
    | some p, some d =>
      if !validOps ops then "bad-op" else
      match parseFlash p d with
      | .error e => s!"P={showParseErr e}"
      | .ok (t, pol) =>
        " ".intercalate (steps ops.toList { pol := pol, tree := t, last := d } [s!"P=ok:{dump pol t}"])
    | _, _ => "bad-op"
  | _ => "bad-op"

def main : IO Unit := loop handle
