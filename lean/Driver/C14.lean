import Driver.Common
import FianoModel.Fit.Model
import FianoModel.Fit.Layout

/-!
  Line-protocol driver of the FIT model (property C14).

  wire formats
    hdr      address,size,reserved,version,tcv,checksum            (decimal)
    entry    kind,address,size,reserved,version,tcv,checksum,datahex
    entries  entry;entry;…   ("-" = empty list)
    image    g:<size>:<a>:<b>:<c>[/off=hex]*    byte i = (a*i + b + c*(i/256)) % 256, then patches
             x:<hex>[/off=hex]*
    json     key=value,…  value = n<dec> | t | f ; Version as  Version={maj=n1,min=n2}  written
             Version.maj=n1,Version.min=n2 … see `parseJObj`
-/

open Fiano Fiano.Fit Driver

def kinds : List Kind :=
  [.fitHeader, .microcode, .sacm, .diagACM, .biosStartup, .tpmPolicy, .biosPolicy, .txtPolicy,
   .keyManifest, .bootPolicy, .cseSecureBoot, .featurePolicy, .jmpDebug, .skip, .unknown]

def kindCode (k : Kind) : Nat := (kinds.findIdx? (· == k)).getD 99

def natBelow (s : String) (bound : Nat) : Option Nat :=
  match s.toNat? with
  | some n => if n < bound then some n else none
  | none => none

def parseHdrFields : List String → Option Hdr
  | [a, sz, r, v, t, c] => do
    pure { address := ← natBelow a (2 ^ 64), size := ← natBelow sz (2 ^ 24), reserved := ← natBelow r 256,
           version := ← natBelow v 65536, tcv := ← natBelow t 256, checksum := ← natBelow c 256 }
  | _ => none

def parseHdr (s : String) : Option Hdr := parseHdrFields (s.splitOn ",")

def parseHdrs (s : String) : Option (List Hdr) :=
  if s = "-" then some [] else (s.splitOn ";").mapM parseHdr

def parseEntry (s : String) : Option Entry :=
  match s.splitOn "," with
  | [k, a, sz, r, v, t, c, d] => do
    let kc ← k.toNat?
    let kind ← kinds[kc]?
    let h ← parseHdrFields [a, sz, r, v, t, c]
    pure { kind := kind, hdr := h, data := ← parseHex d }
  | _ => none

def parseEntries (s : String) : Option (List Entry) :=
  if s = "-" then some [] else (s.splitOn ";").mapM parseEntry

def showHdr (h : Hdr) : String :=
  s!"{h.address},{h.size},{h.reserved},{h.version},{h.tcv},{h.checksum}"

def showHdrs (hs : List Hdr) : String :=
  if hs.isEmpty then "-" else ";".intercalate (hs.map showHdr)

def showEntry (e : Entry) : String := s!"{kindCode e.kind},{showHdr e.hdr},{toHex e.data}"

def showEntries (es : List Entry) : String :=
  if es.isEmpty then "-" else ";".intercalate (es.map showEntry)

/-- read-back entries: data as length:digest -/
def showREntry (p : Entry × Bool) : String :=
  s!"{kindCode p.1.kind},{showHdr p.1.hdr},{p.1.data.length}:{fnv1a p.1.data},{if p.2 then 1 else 0}"

def showREntries (es : List (Entry × Bool)) : String :=
  if es.isEmpty then "-" else ";".intercalate (es.map showREntry)

def genImage (size a b c : Nat) : Bytes :=
  (List.range size).map (fun i => UInt8.ofNat ((a * i + b + c * (i / 256)) % 256))

def applyPatches (img : Bytes) : List String → Option Bytes
  | [] => some img
  | p :: ps =>
    match p.splitOn "=" with
    | [o, h] => do
      let off ← o.toNat?
      let d ← parseHex h
      if off + d.length ≤ img.length then applyPatches (splice img off d) ps else none
    | _ => none

def parseImage (s : String) : Option Bytes :=
  match s.splitOn "/" with
  | [] => none
  | base :: patches =>
    match base.splitOn ":" with
    | ["g", size, a, b, c] => do
      let img := genImage (← size.toNat?) (← a.toNat?) (← b.toNat?) (← c.toNat?)
      applyPatches img patches
    | ["x", h] => do applyPatches (← parseHex h) patches
    | _ => none

def parseJS (s : String) : Option JS :=
  if s = "t" then some (.bool true) else if s = "f" then some (.bool false)
  else if s.startsWith "n" then (s.drop 1).toNat?.map .num else none

/-- `K=v,K=v,V{k=v.k=v},…`  (an object-valued field is  Key{k=v.k=v}) -/
def parseJObj (s : String) : Option JObj :=
  if s = "-" then some [] else
  (s.splitOn ",").mapM (fun f =>
    if f.endsWith "}" then
      match (f.dropRight 1).splitOn "{" with
      | [k, inner] => do
        let fs ← (if inner = "" then some [] else (inner.splitOn ".").mapM (fun g =>
          match g.splitOn "=" with
          | [k', v] => do pure (k', ← parseJS v)
          | _ => none))
        pure (k, JV.obj fs)
      | _ => none
    else match f.splitOn "=" with
      | [k, v] => do pure (k, JV.s (← parseJS v))
      | _ => none)

def showJS : JS → String
  | .num n => s!"n{n}"
  | .bool true => "t"
  | .bool false => "f"

def showJObj (o : JObj) : String :=
  if o.isEmpty then "-" else
  ",".intercalate (o.map (fun (k, v) => match v with
    | .s x => s!"{k}={showJS x}"
    | .obj fs => k ++ "{" ++ ".".intercalate (fs.map (fun (k', x) => s!"{k'}={showJS x}")) ++ "}"))

def parseOptNat (s : String) (bound : Nat) : Option (Option Nat) :=
  if s = "_" then some none else (natBelow s bound).map some

def parseOptBool (s : String) : Option (Option Bool) :=
  if s = "_" then some none else if s = "t" then some (some true) else if s = "f" then some (some false) else none

/-- addressPointer,addressOffset,size,type,cv,checksum  ("_" = flag absent) -/
def parseRaw (s : String) : Option RawOpts :=
  match s.splitOn "," with
  | [ap, ao, sz, ty, cv, ck] => do
    pure { addressPointer := ← parseOptNat ap (2 ^ 64), addressOffset := ← parseOptNat ao (2 ^ 64),
           size := ← parseOptNat sz (2 ^ 32), type := ← parseOptNat ty 256, cv := ← parseOptBool cv,
           checksum := ← parseOptNat ck 256 }
  | _ => none

def showCmd : CmdRes → String
  | .ok f => s!"ok {f.length} {fnv1a f}"
  | .err => "fail"
  | .panic => "fail"

def okS (b : Bool) : String := if b then "ok" else "err"

def handle : List String → String
  | ["addr", size, x] =>
    match natBelow size (2 ^ 64), natBelow x (2 ^ 64) with
    | some n, some v => s!"{physOfOffset v n} {offsetOfPhys v n} {tailOffsetOfPhys v}"
    | _, _ => "bad-op"
  | ["range", len, s, e] =>
    match natBelow len (2 ^ 63), natBelow s (2 ^ 64), natBelow e (2 ^ 64) with
    | some l, some s, some e => okS (bytesRangeOK l s e)
    | _, _, _ => "bad-op"
  | ["hdrenc", h] =>
    match parseHdr h with
    | some h => s!"{toHex (encodeHdr h)} {calcChecksum h}"
    | none => "bad-op"
  | ["hdrdec", b] =>
    match parseHex b with
    | some b => if b.length = 16 then showHdr (decodeHdr b) else "bad-op"
    | none => "bad-op"
  | ["hdrwrite", b, h] =>
    match parseHex b, parseHdr h with
    | some b, some h => match hdrWrite b h with
      | some b' => s!"ok {toHex b'}"
      | none => "err"
    | _, _ => "bad-op"
  | ["tblwrite", b, hs] =>
    match parseHex b, parseHdrs hs with
    | some b, some hs =>
      let (n, b', ok) := tableWrite b 0 hs
      s!"{okS ok} {n} {toHex b'}"
    | _, _ => "bad-op"
  | ["parsetable", b] =>
    match parseHex b with
    | some b => match parseTable b with
      | some hs => s!"ok {showHdrs hs}"
      | none => "err"
    | none => "bad-op"
  | ["tojson", h] =>
    match parseHdr h with
    | some h => showJObj (toJSON h)
    | none => "bad-op"
  | ["fromjson", o] =>
    match parseJObj o with
    | some o => match fromJSON o with
      | .ok h => s!"ok {showHdr h}"
      | .error _ => "fail"
    | none => "bad-op"
  | ["recalc", es] =>
    match parseEntries es with
    | some es => match recalc es with
      | .ok es' => s!"ok {showEntries es'}"
      | .error _ => "fail"
    | none => "bad-op"
  | ["inject", img, tbl, es] =>
    match parseImage img, natBelow tbl (2 ^ 64), parseEntries es with
    | some img, some tbl, some es =>
      let (img', ok) := inject img es tbl
      let rd := match getEntries img' with
        | some rs => s!"ok {showREntries rs}"
        | none => "err"
      s!"{okS ok} {fnv1a img'} {rd}"
    | _, _, _ => "bad-op"
  | ["valid", n, tbl, es] =>
    match natBelow n (2 ^ 63), natBelow tbl (2 ^ 64), parseEntries es with
    | some n, some tbl, some es => if decide (ValidLayout n tbl es) then "true" else "false"
    | _, _, _ => "bad-op"
  | ["get", img] =>
    match parseImage img with
    | some img =>
      let tr := match tableRange img with
        | some (s, e) => s!"ok {s} {e}"
        | none => "err"
      let rd := match getEntries img with
        | some rs => s!"ok {showREntries rs}"
        | none => "err"
      s!"{tr} {rd}"
    | none => "bad-op"
  | ["cmdinit", img, off] =>
    match parseImage img, natBelow off (2 ^ 64) with
    | some f, some off =>
      let (f', ok) := cmdInit f off
      s!"{okS ok} {f'.length} {fnv1a f'}"
    | _, _ => "bad-op"
  | ["cmdadd", img, o] =>
    match parseImage img, parseRaw o with
    | some f, some o => showCmd (cmdAdd f o)
    | _, _ => "bad-op"
  | ["cmdset", img, idx, o] =>
    match parseImage img, natBelow idx 100000, parseRaw o with
    | some f, some i, some o => showCmd (cmdSet f i o)
    | _, _, _ => "bad-op"
  | ["cmdremove", img, idx] =>
    match parseImage img, natBelow idx (2 ^ 63) with
    | some f, some i => showCmd (cmdRemove f i)
    | _, _ => "bad-op"
  | _ => "bad-op"

def main : IO Unit := loop handle
