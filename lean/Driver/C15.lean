/-
  Model driver for C15 (manifest codecs).  The layouts are computed from the declarations
  regenerated from the Go sources (Gen/Manifest.lean) — nothing about a concrete structure is
  written here.

  requests (one line, words separated by spaces; T = qualified structure name, e.g. cbnt.Key):
    enc    T <val>   ->  ok <hex>                bytes WriteTo produces (Rehash included)
    rehash T <val>   ->  ok <val>                value after WriteTo
    dec    T <hex>   ->  ok <n> <val> | err      ReadFrom: bytes counted, value
    size   T <val>   ->  ok <n>                  TotalSize()
    offs   T <val>   ->  ok f=o,f=o,...          every <F>Offset()
    wt     T <val>   ->  ok true|false           well-typed (after Rehash)
  value syntax (no spaces):  123 | x<hex> | (v,v,...)      "x" alone = empty byte string, "()" = empty node
-/
import Driver.Common
import FianoModel.Manifest.Build
import FianoModel.Gen.Manifest

open Fiano Fiano.Manifest Driver

def src : Sources :=
  { decls := Fiano.Gen.Manifest.decls, countExprs := Fiano.Gen.Manifest.countExprs,
    helpers := Fiano.Gen.Manifest.rehashHelpers }

def strictOf (q : String) : Bool :=
  match Fiano.Gen.Manifest.codecs.find? (·.name == q) with
  | some c => match c.container with | some g => g.strictOrder | none => true
  | none => true

inductive Ty | s (S : SDef) | c (C : Container)

def tyTable : List (String × Ty) :=
  Fiano.Gen.Manifest.structNames.filterMap fun q =>
    match sdefOf src 8 q with
    | some S => some (q, .s S)
    | none => match containerOf src 8 q (strictOf q) with
      | some C => some (q, .c C)
      | none => none

def tyOf (q : String) : Option Ty := tyTable.lookup q

/-! value syntax -/

partial def showVal : Val → String
  | .num n => toString n
  | .bytes b => "x" ++ (if b.isEmpty then "" else toHex b)
  | .node vs => "(" ++ ",".intercalate (vs.map showVal) ++ ")"

def isDigit (c : Char) : Bool := '0' ≤ c ∧ c ≤ '9'
def isHexCh (c : Char) : Bool := (hexVal c).isSome

mutual
partial def parseVal : List Char → Option (Val × List Char)
  | '(' :: ')' :: rest => some (.node [], rest)
  | '(' :: rest => parseItems rest []
  | 'x' :: rest =>
    let h := rest.takeWhile isHexCh
    match parseHexChars h [] with
    | some b => some (.bytes b, rest.dropWhile isHexCh)
    | none => none
  | cs =>
    let d := cs.takeWhile isDigit
    if d.isEmpty then none else
    match (String.ofList d).toNat? with
    | some n => some (.num n, cs.dropWhile isDigit)
    | none => none
partial def parseItems (cs : List Char) (acc : List Val) : Option (Val × List Char) :=
  match parseVal cs with
  | none => none
  | some (v, ',' :: rest) => parseItems rest (v :: acc)
  | some (v, ')' :: rest) => some (.node (v :: acc).reverse, rest)
  | _ => none
end

def parseFields (s : String) : Option (List Val) :=
  match parseVal s.toList with
  | some (.node vs, []) => some vs
  | _ => none

def fieldNames : Layout → List String
  | .done => []
  | .num n _ r | .numV n _ r | .bytes n _ r | .dyn n _ r | .dynE n _ _ r | .sub n _ _ r | .list n _ _ _ r =>
    n :: fieldNames r

def showOffs (xs : List (String × Nat)) : String :=
  ",".intercalate (xs.map fun (f, o) => s!"{f}={o}")

def indexed {α} : List α → Nat → List (Nat × α)
  | [], _ => []
  | x :: xs, i => (i, x) :: indexed xs (i + 1)

def handle : List String → String
  | [op, q, arg] =>
    match tyOf q with
    | none => "bad-op"
    | some ty =>
      if op = "dec" then
        match parseHex arg with
        | none => "bad-op"
        | some b =>
          let res := match ty with
            | .s S => S.decode b
            | .c C => C.decode b
          match res with
          | .ok (vs, r) => s!"ok {b.length - r.length} {showVal (.node vs)}"
          | .error _ => "err"
      else
        match parseFields arg with
        | none => "bad-op"
        | some vs =>
          match op, ty with
          | "enc", .s S => s!"ok {toHex (S.encode vs)}"
          | "enc", .c C => s!"ok {toHex (C.encode vs)}"
          | "rehash", .s S => s!"ok {showVal (.node (S.rehash vs))}"
          | "rehash", .c C => s!"ok {showVal (.node (C.rehash vs))}"
          | "size", .s S => s!"ok {S.totalSize vs}"
          | "size", .c C => s!"ok {C.totalSize vs}"
          | "offs", .s S =>
            "ok " ++ showOffs ((fieldNames S.body).filterMap fun f => (offsetOf S.body vs f).map fun o => (f, o))
          | "offs", .c C =>
            "ok " ++ showOffs ((indexed C.slots 0).map fun (i, s) => (s.name, C.slotOffset vs i))
          | "wt", .s S => s!"ok {wt S.body [] (S.rehash vs)}"
          | "wt", .c C => s!"ok {C.wt (C.rehash vs)}"
          | _, _ => "bad-op"
  | _ => "bad-op"

def main : IO Unit := loop handle
