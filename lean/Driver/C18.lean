import Driver.Common
import FianoModel.Apcb.Spec

open Fiano Fiano.Apcb Driver

/-! wire syntax of an abstract blob (no spaces):
      groups := "-" | group(";"group)*
      group  := "T,"sig","ver","res","extrahex","types | "F,"sig","gid","sh","ver","res","rawhex
      types  := "-" | type("|"type)*
      type   := gid":"tid":"inst":"ctxT":"ctxF":"unit":"prio":"keySize":"keyPos":"board":"pairs
      pairs  := "-" | id"."val("+"id"."val)*          all numbers decimal -/

def parsePairs (s : String) : Option (List (Nat × Nat)) :=
  if s = "-" then some [] else
  (s.splitOn "+").mapM (fun p => match p.splitOn "." with
    | [i, v] => do pure (← i.toNat?, ← v.toNat?)
    | _ => none)

def parseType (s : String) : Option TypeE :=
  match s.splitOn ":" with
  | [gid, tid, inst, ct, cf, un, pr, ks, kp, bd, ps] => do
    pure { gid := ← gid.toNat?, tid := ← tid.toNat?, inst := ← inst.toNat?, ctxT := ← ct.toNat?,
           ctxF := ← cf.toNat?, unit := ← un.toNat?, prio := ← pr.toNat?, keySize := ← ks.toNat?,
           keyPos := ← kp.toNat?, board := ← bd.toNat?, pairs := ← parsePairs ps }
  | _ => none

def parseTypes (s : String) : Option (List TypeE) :=
  if s = "-" then some [] else (s.splitOn "|").mapM parseType

def parseGroup (s : String) : Option Group :=
  match s.splitOn "," with
  | ["T", sig, ver, res, extra, types] => do
    pure (.tokens (← sig.toNat?) (← ver.toNat?) (← res.toNat?) (← parseHex extra) (← parseTypes types))
  | ["F", sig, gid, sh, ver, res, raw] => do
    pure (.foreign (← sig.toNat?) (← gid.toNat?) (← sh.toNat?) (← ver.toNat?) (← res.toNat?) (← parseHex raw))
  | _ => none

def parseGroups (s : String) : Option (List Group) :=
  if s = "-" then some [] else (s.splitOn ";").mapM parseGroup

def parseApcb (pre post groups : String) : Option Apcb := do
  pure { pre := ← parseHex pre, post := ← parseHex post, groups := ← parseGroups groups }

def parseTok (id prio board tid val : String) : Option Tok := do
  pure { id := ← id.toNat?, prio := ← prio.toNat?, board := ← board.toNat?, tid := ← tid.toNat?, val := ← val.toNat? }

/-- buffers up to 256 bytes travel as hex, larger ones as length + FNV-1a digest -/
def showBuf (b : Bytes) : String :=
  if b.length ≤ 256 then toHex b else s!"fnv:{b.length}:{(fnv1a b).toNat}"

def showStatus : Status → String
  | .ok => "ok" | .err => "err" | .panic => "panic"

def showToks (ts : List LTok) : String :=
  let s := ",".intercalate (ts.map (fun t => s!"{t.id}:{t.prio}:{t.board}:{t.tid}:{t.val}"))
  if ts.length ≤ 40 then s!"{ts.length} [{s}]" else s!"{ts.length} fnv:{(fnv1a s.toUTF8.toList).toNat}"

def handle : List String → String
  | ["list", hex] =>
    match parseHex hex with
    | none => "bad-op"
    | some b => match listing b with
      | (ts, .ok) => s!"ok {showToks ts}"
      | (_, r) => showStatus r
  | ["upsert", id, prio, board, tid, val, hex] =>
    match parseTok id prio board tid val, parseHex hex with
    | some t, some b => match upsert t b with
      | (b', r) => s!"{showStatus r} {showBuf b'}"
    | _, _ => "bad-op"
  | ["ser", pre, post, groups, slack] =>
    match parseApcb pre post groups, parseHex slack with
    | some a, some s => showBuf (ser a ++ s)
    | _, _ => "bad-op"
  | ["abslist", pre, post, groups] =>
    match parseApcb pre post groups with
    | some a => match tokensOf a with
      | some ts => s!"ok {showToks ts}"
      | none => "err"
    | none => "bad-op"
  | ["specupsert", id, prio, board, tid, val, pre, post, groups, slack] =>
    match parseTok id prio board tid val, parseApcb pre post groups, parseHex slack with
    | some t, some a, some s => match specUpsert t a s with
      | (b', r) => s!"{showStatus r} {showBuf b'}"
    | _, _, _ => "bad-op"
  | _ => "bad-op"

def main : IO Unit := loop handle
