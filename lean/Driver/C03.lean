/-
  Driver of property C03 (an edit changes exactly what it names): the edit-operation model, observed
  after every visitor.  The protocol is documented in FianoModel/Uefi/EditDrv.lean.
-/
import Driver.Common
import FianoModel.Uefi.EditDrv

def main : IO Unit := Driver.loop Fiano.Uefi.EditDrv.handle
