/-
  Driver of property C03 (an edit changes exactly what it names): the edit-operation model, observed
  after every visitor.  The protocol is documented in FianoModel/Uefi/EditDrv.lean; selectors that are
  regular expressions arrive as match sets (FianoModel/Uefi/EditDrvSel.lean).
-/
import Driver.Common
import FianoModel.Uefi.EditDrvSel

def main : IO Unit := Driver.loop Fiano.Uefi.EditDrvSel.handle
