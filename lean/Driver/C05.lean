/-
  Driver for property C05: runs the Go-semantics (GoM) models of the UEFI parsers on one hostile input
  and reports the outcome class, plus the digest of the canonical tree dump (FianoModel/Uefi/Dump.lean,
  same text as harness/props/uefi/dump.go) when a tree is returned.

  Requests (one line; bytes as lower-case hex, "-" = empty):

    parse <z> <dd> <hex> <table>     uefi.Parse in a fresh process      → ok <digest> | <fault>
    fv    <z> <dd> <hex> <table>     uefi.NewFirmwareVolume(b, 0, false) → ok <digest> | <fault>
    file  <z> <dd> <hex> <table>     uefi.NewFile(b)                     → ok <digest> | ok nil | <fault>
    sec   <z> <dd> <hex> <table>     uefi.NewSection(b, 0)               → ok <digest> | <fault>
    nvar  <pol> <hex>                uefi.NewNVarStore(b), polarity byte → ok <fnv of the store text> | <fault>
    nvartext <pol> <hex>             same, the text itself (debugging)
    fpt   <hex>                      uefi.NewMEFPT(b)                    → ok <count> <mapStart> <fnv of fp.buf> | <fault>
    walk  <z> <dd> <hex> <table>     uefi.Parse, then the walker models  → parse:<fault> | ok validate=<class> extract=<class>
    meter <z> <dd> <hex> <table>     uefi.Parse                          → alloc=<bytes> decompressed=<bytes> (debugging / evidence)

    <z>     budget of nested decompressions (a tree that hit it answers `zbudget`)
    <dd>    uefi.DisableDecompression (0 | 1)
    <table> what the real decoders return: `-` or `codec:fnv:len=hex|!` joined by `,`
            (codec ∈ LZMA | LZMAX86 | ZLIB | BROTLI; fnv/len identify the decoder's input; `!` = decode error).
            A decoder input missing from the table answers `need-dec <codec> <hex input>`; the harness
            calls the real decoder, extends the table and asks again.
    <fault> err | panic <site> | fuel       (site: the Go expression, blanks replaced by `_`)
  Anything else → "bad-op".
-/
import Driver.Common
import FianoModel.Uefi.TotalWalk

open Fiano Fiano.Uefi Fiano.Uefi.Total Fiano.GoM Driver

abbrev Table := List (String × Option Bytes)

def parseTable (s : String) : Option Table :=
  if s = "-" then some [] else
  (s.splitOn ",").mapM (fun e =>
    match e.splitOn "=" with
    | [k, v] => if v = "!" then some (k, none) else (parseHex v).map (fun b => (k, some b))
    | _ => none)

def keyOf (codec : String) (b : Bytes) : String := s!"{codec}:{fnvOf b}:{b.length}"

def tableDecode (t : Table) (codec : String) (b : Bytes) : GoM (Option Bytes) :=
  match t.lookup (keyOf codec b) with
  | some (some out) => decodeG (fun _ => some out) b
  | some none => pure none
  | none => goPanic s!"need-dec {codec} {toHex b}"

def guidOf (l : List Nat) : Bytes := l.map UInt8.ofNat

def hooksOf (t : Table) (dd : Bool) : HooksG :=
  { codec := fun g =>
      if g = codecLZMA then some { name := "LZMA", decode := tableDecode t "LZMA" }
      else if g = codecLZMAX86 then some { name := "LZMAX86", decode := tableDecode t "LZMAX86" }
      else if g = codecZLIB then some { name := "ZLIB", decode := tableDecode t "ZLIB" }
      else if g = codecBROTLI then some { name := "BROTLI", skip := 16, decode := tableDecode t "BROTLI" }
      else none
    disableDecompression := dd
    nvar := nvarHook }

def siteName (s : String) : String := s.replace " " "_"

def faultName : Fault → String
  | .err => "err"
  | .panic s => if s.startsWith "need-dec " then s else "panic " ++ siteName s
  | .fuel => "fuel"

def withArgs (z dd hex tbl : String) (k : Nat → HooksG → Bytes → String) : String :=
  match z.toNat?, parseHex hex, parseTable tbl with
  | some z, some b, some t =>
    if dd = "0" then k z (hooksOf t false) b
    else if dd = "1" then k z (hooksOf t true) b
    else "bad-op"
  | _, _, _ => "bad-op"

def digestText (recs : List String) : String :=
  let text := joinWith " | " recs
  if (text.splitOn zBudgetTag).length > 1 then "zbudget"
  else "ok " ++ hex16 (Driver.fnv1a text.toUTF8.toList)

def handle : List String → String
  | ["parse", z, dd, hex, tbl] => withArgs z dd hex tbl fun z h b =>
    match parseG h z b {} with
    | .ok (t, _) => digestText (dumpTree t)
    | .error e => faultName e
  | ["parsetree", z, dd, hex, tbl] => withArgs z dd hex tbl fun z h b =>
    match parseG h z b {} with
    | .ok (t, _) => "ok " ++ dumpText t
    | .error e => faultName e
  | ["meter", z, dd, hex, tbl] => withArgs z dd hex tbl fun z h b =>
    match parseG h z b {} with
    | .ok (_, m) => s!"alloc={m.alloc} decompressed={m.decompressed}"
    | .error e => faultName e
  | ["fv", z, dd, hex, tbl] => withArgs z dd hex tbl fun z h b =>
    match newFvG h z b 0 false {} {} with
    | .ok ((v, _), _) => digestText (dumpFv v)
    | .error e => faultName e
  | ["file", z, dd, hex, tbl] => withArgs z dd hex tbl fun z h b =>
    match newFileG h z b {} {} with
    | .ok ((some f, _), _) => digestText (dumpFile f)
    | .ok ((none, _), _) => "ok nil"
    | .error e => faultName e
  | ["sec", z, dd, hex, tbl] => withArgs z dd hex tbl fun z h b =>
    match newSectionG h z b 0 {} {} with
    | .ok ((s, _), _) => digestText (dumpSection s)
    | .error e => faultName e
  | ["nvar", pol, hex] =>
    match pol.toNat?, parseHex hex with
    | some p, some b =>
      match newNvarStoreG (UInt8.ofNat p) b {} with
      | .ok (some t, _) => "ok " ++ hex16 (Driver.fnv1a t.toUTF8.toList)
      | .ok (none, _) => "err"
      | .error e => faultName e
    | _, _ => "bad-op"
  | ["nvartext", pol, hex] =>
    match pol.toNat?, parseHex hex with
    | some p, some b =>
      match newNvarStoreG (UInt8.ofNat p) b {} with
      | .ok (some t, _) => "ok " ++ t
      | .ok (none, _) => "err"
      | .error e => faultName e
    | _, _ => "bad-op"
  | ["fpt", hex] =>
    match parseHex hex with
    | some b =>
      match newMeFptG b {} with
      | .ok (f, _) => s!"ok {f.count} {f.mapStart} {fnvOf f.buf}"
      | .error e => faultName e
    | none => "bad-op"
  | ["walk", z, dd, hex, tbl] => withArgs z dd hex tbl fun z h b =>
    match parseG h z b {} with
    | .error e => "parse:" ++ faultName e
    | .ok (t, _) =>
      let v := match validateG t {} with
        | .ok _ => "ok"
        | .error e => faultName e
      let x := match extractG t {} with
        | .ok _ => "ok"
        | .error e => faultName e
      s!"ok validate={v} extract={x}"
  | _ => "bad-op"

def main : IO Unit := loop handle
