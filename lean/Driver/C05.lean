/-
  Driver for property C05: runs the Go-semantics (GoM) models of the UEFI parsers on one hostile input
  and reports the outcome class, plus the digest of the canonical tree dump (FianoModel/Uefi/Dump.lean,
  same text as harness/props/uefi/dump.go) when a tree is returned.

  Requests (one line; bytes as lower-case hex, "-" = empty):

    parse <z> <dd> <hex> <table>     uefi.Parse in a fresh process      → ok <digest> | <fault>
    fv    <z> <dd> <hex> <table>     uefi.NewFirmwareVolume(b, 0, false) → ok <digest> | <fault>
    file  <z> <dd> <hex> <table>     uefi.NewFile(b)                     → ok <digest> | ok nil | <fault>
    sec   <z> <dd> <hex> <table>     uefi.NewSection(b, 0)               → ok <digest> | <fault>
    nvar  <pol> <hex>                uefi.NewNVarStore(b), polarity byte → ok <fnv of the store text> | <fault>
    nvartext <pol> <hex>             same, the text itself (debugging)
    fpt   <hex>                      uefi.NewMEFPT(b)                    → ok <count> <mapStart> <fnv of fp.buf> | <fault>
    walk  <z> <dd> <hex> <table>     uefi.Parse, then the walker models  → parse:<fault> | ok validate=<class> extract=<class>
    meter <z> <dd> <hex> <table>     uefi.Parse                          → alloc=<bytes> decompressed=<bytes> (debugging / evidence)
    asm   <z> <dd> <hex> <table>     uefi.Parse, then (&visitors.Assemble{}).Run(tree) in the same process
                                     → parse:<fault> | ok <digest of the assembled tree> <fnv of its root buffer> | <fault>
                                     (<table> also holds what the real *encoders* return: `enc-<codec>:fnv:len=hex|!`;
                                      a missing entry answers `need-enc <codec> <hex input>`)
    asmmeter <z> <dd> <hex> <table>  the same run → alloc=<bytes charged by assembleG> (debugging / evidence)
    steps <z> <dd> <hex> <table>     the step meter of uefi.Parse (TotalSteps*.lean) → steps=<n> blk=<n> dec=<n> class=<ok|fault>
                                     (debugging / evidence; `steps ≤ 3·(|input|+dec)+17` is a theorem, `blk` is not linear)
    nvarwalk <pol> <hex>             uefi.NewNVarStore(b) as a tree of nodes, then Validate / Extract / Assemble over it
                                     → parse:<fault|err> | ok validate=<class> extract=<class> assemble=<class>[:<fnv of the store buffer>]
    multi <parts> <z> <dd> <hex> <table>   the answers of `parse`, `walk`, `asm` (parts: those words joined by ',') about
                                     one uefi.Parse, joined by " ; " (the harness asks once per case)
    asmrun <image-hex> <op>…         one `utk <image> <op>…` run (ops and answer as in FianoModel/Uefi/EditDrv.lean,
                                     request `run`), every `save` assembled by the Go-semantics model assembleG

    <z>     budget of nested decompressions (a tree that hit it answers `zbudget`)
    <dd>    uefi.DisableDecompression (0 | 1)
    <table> what the real decoders return: `-` or `codec:fnv:len=hex|!` joined by `,`
            (codec ∈ LZMA | LZMAX86 | ZLIB | BROTLI; fnv/len identify the decoder's input; `!` = decode error).
            A decoder input missing from the table answers `need-dec <codec> <hex input>`; the harness
            calls the real decoder, extends the table and asks again.
    <fault> err | panic <site> | fuel       (site: the Go expression, blanks replaced by `_`)
  Anything else → "bad-op".
-/
import Driver.Common
import FianoModel.Uefi.TotalWalk
import FianoModel.Uefi.TotalAsmEdit
import FianoModel.Uefi.EditDrv
import FianoModel.Uefi.TotalSteps

open Fiano Fiano.Uefi Fiano.Uefi.Total Fiano.GoM Driver

abbrev Table := List (String × Option Bytes)

def parseTable (s : String) : Option Table :=
  if s = "-" then some [] else
  (s.splitOn ",").mapM (fun e =>
    match e.splitOn "=" with
    | [k, v] => if v = "!" then some (k, none) else (parseHex v).map (fun b => (k, some b))
    | _ => none)

def keyOf (codec : String) (b : Bytes) : String := s!"{codec}:{fnvOf b}:{b.length}"

def tableDecode (t : Table) (codec : String) (b : Bytes) : GoM (Option Bytes) :=
  match t.lookup (keyOf codec b) with
  | some (some out) => decodeG (fun _ => some out) b
  | some none => pure none
  | none => goPanic s!"need-dec {codec} {toHex b}"

def guidOf (l : List Nat) : Bytes := l.map UInt8.ofNat

def hooksOf (t : Table) (dd : Bool) : HooksG :=
  { codec := fun g =>
      if g = codecLZMA then some { name := "LZMA", decode := tableDecode t "LZMA" }
      else if g = codecLZMAX86 then some { name := "LZMAX86", decode := tableDecode t "LZMAX86" }
      else if g = codecZLIB then some { name := "ZLIB", decode := tableDecode t "ZLIB" }
      else if g = codecBROTLI then some { name := "BROTLI", skip := 16, decode := tableDecode t "BROTLI" }
      else none
    disableDecompression := dd
    nvar := nvarHook }

/-- the real encoders' answers come from the same table, keys `enc-<codec>:…` -/
def tableEncode (t : Table) (codec : String) (b : Bytes) : GoM (Option Bytes) :=
  match t.lookup (keyOf ("enc-" ++ codec) b) with
  | some (some out) => do allocG out.length 1; pure (some out)
  | some none => pure none
  | none => goPanic s!"need-enc {codec} {toHex b}"

def asmHooksOf (t : Table) (pp : UInt8) : AsmHooksG :=
  { encoder := fun g =>
      if g = codecLZMA then some (tableEncode t "LZMA")
      else if g = codecLZMAX86 then some (tableEncode t "LZMAX86")
      else if g = codecZLIB then some (tableEncode t "ZLIB")
      else if g = codecBROTLI then some (tableEncode t "BROTLI")
      else none
    nvarAsm := nvAsmHookG pp }

def siteName (s : String) : String := s.replace " " "_"

def faultName : Fault → String
  | .err => "err"
  | .panic s => if s.startsWith "need-dec " || s.startsWith "need-enc " then s else "panic " ++ siteName s
  | .fuel => "fuel"

/-- status word of the C02 wire format -/
def statusName : Fault → String
  | .err => "err"
  | .panic s => if s.startsWith "log.Fatalf" then "fatal" else "panic"
  | .fuel => "fuel"

def classOf {α} : Except Fault α → String
  | .ok _ => "ok"
  | .error e => faultName e

/-- the `asmrun` request: ParseCLI, uefi.Parse (GoM model, no codecs: the images of the edit generators hold
    no compressed section and no NVAR store), then the visitors -/
def asmRun (img : String) (ops : List String) : String :=
  match EditDrv.parseHex img, ops.mapM EditDrv.parseOp with
  | some image, some specs =>
    match cliParse Hooks.none specs {} with
    | .error e => "cli:" ++ errName e
    | .ok (ops, st) =>
      match parseWithG {} 6 image st {} with
      | .error e => "parse:" ++ statusName e
      | .ok ((t, st'), _) =>
        let rec go : List Op → Run → String × Run
          | [], s => ("ok", s)
          | op :: ops, s =>
            match stepEditG (asmHooksOf [] st'.pol) op s {} with
            | .error e => (statusName e, s)
            | .ok (s', _) => go ops s'
        let (status, s) := go ops { tree := t, st := st' }
        s!"{status} {EditDrv.savedText s.outs}"
  | _, _ => "bad-op"

def withArgs (z dd hex tbl : String) (k : Nat → HooksG → Bytes → String) : String :=
  match z.toNat?, parseHex hex, parseTable tbl with
  | some z, some b, some t =>
    if dd = "0" then k z (hooksOf t false) b
    else if dd = "1" then k z (hooksOf t true) b
    else "bad-op"
  | _, _, _ => "bad-op"

def digestText (recs : List String) : String :=
  let text := joinWith " | " recs
  if (text.splitOn zBudgetTag).length > 1 then "zbudget"
  else "ok " ++ hex16 (Driver.fnv1a text.toUTF8.toList)

def handle : List String → String
  | ["parse", z, dd, hex, tbl] => withArgs z dd hex tbl fun z h b =>
    match parseG h z b {} with
    | .ok (t, _) => digestText (dumpTree t)
    | .error e => faultName e
  | ["parsetree", z, dd, hex, tbl] => withArgs z dd hex tbl fun z h b =>
    match parseG h z b {} with
    | .ok (t, _) => "ok " ++ dumpText t
    | .error e => faultName e
  | ["meter", z, dd, hex, tbl] => withArgs z dd hex tbl fun z h b =>
    match parseG h z b {} with
    | .ok (_, m) => s!"alloc={m.alloc} decompressed={m.decompressed}"
    | .error e => faultName e
  | ["fv", z, dd, hex, tbl] => withArgs z dd hex tbl fun z h b =>
    match newFvG h z b 0 false {} {} with
    | .ok ((v, _), _) => digestText (dumpFv v)
    | .error e => faultName e
  | ["file", z, dd, hex, tbl] => withArgs z dd hex tbl fun z h b =>
    match newFileG h z b {} {} with
    | .ok ((some f, _), _) => digestText (dumpFile f)
    | .ok ((none, _), _) => "ok nil"
    | .error e => faultName e
  | ["sec", z, dd, hex, tbl] => withArgs z dd hex tbl fun z h b =>
    match newSectionG h z b 0 {} {} with
    | .ok ((s, _), _) => digestText (dumpSection s)
    | .error e => faultName e
  | ["nvar", pol, hex] =>
    match pol.toNat?, parseHex hex with
    | some p, some b =>
      -- answered by the structured parser (TotalNvarWalk.lean); the text parser of TotalNvar.lean must agree
      let old := match newNvarStoreG (UInt8.ofNat p) b {} with
        | .ok (some t, _) => "ok " ++ hex16 (Driver.fnv1a t.toUTF8.toList)
        | .ok (none, _) => "err"
        | .error e => faultName e
      let new := match newNvarTreeG (UInt8.ofNat p) b {} with
        | .ok (some t, _) => "ok " ++ hex16 (Driver.fnv1a (nvDumpT t).toUTF8.toList)
        | .ok (none, _) => "err"
        | .error e => faultName e
      if old = new then new else s!"models-differ text={old} tree={new}"
    | _, _ => "bad-op"
  | ["nvarwalk", pol, hex] =>
    match pol.toNat?, parseHex hex with
    | some p, some b =>
      match newNvarTreeG (UInt8.ofNat p) b {} with
      | .ok (none, _) => "parse:err"
      | .error e => "parse:" ++ faultName e
      | .ok (some t, _) =>
        let v := classOf (validateNvTreeG t {})
        let x := classOf (extractNvTreeG t {})
        let a := match asmNvTreeG (UInt8.ofNat p) t {} with
          | .ok (t', _) => "ok:" ++ fnvOf t'.s.buf
          | .error e => faultName e
        s!"ok validate={v} extract={x} assemble={a}"
    | _, _ => "bad-op"
  | ["asm", z, dd, hex, tbl] => withArgs z dd hex tbl fun z h b =>
    match parseTable tbl with
    | none => "bad-op"
    | some t =>
      match parseWithG h z b {} {} with
      | .error e => "parse:" ++ faultName e
      | .ok ((tr, st), _) =>
        if ((dumpText tr).splitOn zBudgetTag).length > 1 then "zbudget" else
        match assembleG (asmHooksOf t st.pol) tr st {} with
        | .ok ((tr', _), _) => s!"ok {digestOf tr'} {fnvOf tr'.buf}"
        | .error e => faultName e
  | ["asmmeter", z, dd, hex, tbl] => withArgs z dd hex tbl fun z h b =>
    match parseTable tbl with
    | none => "bad-op"
    | some t =>
      match parseWithG h z b {} {} with
      | .error e => "parse:" ++ faultName e
      | .ok ((tr, st), _) =>
        match assembleG (asmHooksOf t st.pol) tr st {} with
        | .ok (_, m) => s!"alloc={m.alloc}"
        | .error e => faultName e
  | "asmrun" :: img :: ops => asmRun img ops
  | ["steps", z, dd, hex, tbl] => withArgs z dd hex tbl fun z h b =>
    let r := parseWithC h nvarHookCost z b {} {} {}
    match r.1 with
    | .error (.panic s) => if s.startsWith "need-dec " then s else
        s!"steps={r.2.steps} blk={r.2.blk} dec={r.2.dec} class=panic"
    | .error e => s!"steps={r.2.steps} blk={r.2.blk} dec={r.2.dec} class={faultName e}"
    | .ok _ => s!"steps={r.2.steps} blk={r.2.blk} dec={r.2.dec} class=ok"
  | ["multi", parts, z, dd, hex, tbl] => withArgs z dd hex tbl fun z h b =>
    -- several answers about one uefi.Parse (parsed once): parts ⊆ parse,walk,asm joined by ','
    match parseTable tbl with
    | none => "bad-op"
    | some t =>
      let ps := parts.splitOn ","
      if ps.any (fun p => p ≠ "parse" ∧ p ≠ "walk" ∧ p ≠ "asm") ∨ ps.isEmpty then "bad-op" else
      match parseWithG h z b {} {} with
      | .error e =>
        -- a decoder answer is missing: ask for it; otherwise every part reports the parse fault
        match e with
        | .panic s => if s.startsWith "need-dec " then s else
            joinWith " ; " (ps.map fun p => if p = "parse" then faultName e else "parse:" ++ faultName e)
        | _ => joinWith " ; " (ps.map fun p => if p = "parse" then faultName e else "parse:" ++ faultName e)
      | .ok ((tr, st), _) =>
        let answers := ps.map fun p =>
          if p = "parse" then digestText (dumpTree tr)
          else if p = "walk" then
            s!"ok validate={classOf (validateG tr {})} extract={classOf (extractG tr {})}"
          else
            if ((dumpText tr).splitOn zBudgetTag).length > 1 then "zbudget" else
            match assembleG (asmHooksOf t st.pol) tr st {} with
            | .ok ((tr', _), _) => s!"ok {digestOf tr'} {fnvOf tr'.buf}"
            | .error e => faultName e
        match answers.find? (fun a => a.startsWith "need-enc ") with
        | some a => a
        | none => joinWith " ; " answers
  | ["nvartext", pol, hex] =>
    match pol.toNat?, parseHex hex with
    | some p, some b =>
      match newNvarStoreG (UInt8.ofNat p) b {} with
      | .ok (some t, _) => "ok " ++ t
      | .ok (none, _) => "err"
      | .error e => faultName e
    | _, _ => "bad-op"
  | ["fpt", hex] =>
    match parseHex hex with
    | some b =>
      match newMeFptG b {} with
      | .ok (f, _) => s!"ok {f.count} {f.mapStart} {fnvOf f.buf}"
      | .error e => faultName e
    | none => "bad-op"
  | ["walk", z, dd, hex, tbl] => withArgs z dd hex tbl fun z h b =>
    match parseG h z b {} with
    | .error e => "parse:" ++ faultName e
    | .ok (t, _) =>
      let v := match validateG t {} with
        | .ok _ => "ok"
        | .error e => faultName e
      let x := match extractG t {} with
        | .ok _ => "ok"
        | .error e => faultName e
      s!"ok validate={v} extract={x}"
  | _ => "bad-op"

def main : IO Unit := loop handle
