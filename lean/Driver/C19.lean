import Driver.Common
import FianoModel.Cbfs.Model
import FianoModel.Cbfs.Spec

open Fiano Fiano.Cbfs Driver

/-! wire syntax (see harness/props/c19/wire.go)

  recs  = "-" | rec(";"rec)*
  rec   = namehex "," namePad "," type "," attrs "," datahex "," gap
  attrs = "-" | attr("+"attr)*          attr = tag ":" bodyhex
-/

def parseAttr (s : String) : Option Spec.Attr :=
  match s.splitOn ":" with
  | [t, b] => do pure { tag := ← t.toNat?, body := ← parseHex b }
  | _ => none

def parseAttrs (s : String) : Option (List Spec.Attr) :=
  if s = "-" then some [] else (s.splitOn "+").mapM parseAttr

def parseRec (s : String) : Option Spec.Rec :=
  match s.splitOn "," with
  | [n, p, t, a, d, g] => do
    pure { name := ← parseHex n, namePad := ← p.toNat?, type := ← t.toNat?, attrs := ← parseAttrs a,
           data := ← parseHex d, gap := ← g.toNat? }
  | _ => none

def parseRecs (s : String) : Option (List Spec.Rec) :=
  if s = "-" then some [] else (s.splitOn ";").mapM parseRec

def showNats (l : List Nat) : String :=
  if l.isEmpty then "-" else String.intercalate "/" (l.map toString)

def showSeg (s : Seg) : String :=
  let f := s.file
  s!"{toHex f.name},{f.type},{f.recordStart},{f.size},{f.attrOff},{f.subOff},{compression f},{(fnv1a f.attr).toNat},{(fnv1a f.fdata).toNat},{showNats s.extra}"

def showImage (r : Except Err Image) : String :=
  match r with
  | .error _ => "err"
  | .ok i => i.segs.foldl (fun acc s => acc ++ "|" ++ showSeg s)
      s!"ok {i.areaOff} {i.areaSize} {i.segs.length} {(fnv1a (writeFile i)).toNat}"

def showEntry (e : Entry) : String := s!"{toHex e.name},{e.type},{e.offset},{e.size},{e.comp}"

def handle : List String → String
  | ["list", img] =>
    match parseHex img with
    | none => "bad-op"
    | some d => showImage (newImage d)
  | ["serlist", pre, post, fill, recs] =>
    match parseHex pre, parseHex post, fill.toNat?, parseRecs recs with
    | some p, some q, some f, some rs =>
      if f ≥ 256 then "bad-op" else
      let img := Spec.ser { pre := p, recs := rs, fill := UInt8.ofNat f, post := q }
      s!"{(fnv1a img).toNat} {img.length} {showImage (newImage img)}"
    | _, _, _, _ => "bad-op"
  | ["entries", recs] =>
    -- the abstract listing of the reference grammar (Spec.entries), for the spec-side oracle
    match parseRecs recs with
    | some rs => (Spec.entries 0 rs).foldl (fun acc e => acc ++ "|" ++ showEntry e) s!"{rs.length}"
    | none => "bad-op"
  | ["findattr", attr, tag] =>
    match parseHex attr, tag.toNat? with
    | some a, some t =>
      let f : File := { size := 0, type := 0, attrOff := 0, subOff := 0, recordStart := 0, name := [],
                        attr := a, fdata := [] }
      match findAttribute f t with
      | none => s!"none {compression f}"
      | some b => s!"some {toHex b} {compression f}"
    | _, _ => "bad-op"
  | _ => "bad-op"

def main : IO Unit := loop handle
