import Driver.Common
import FianoModel.Cbfs.Model
import FianoModel.Cbfs.Spec
import FianoModel.Cbfs.Present
import FianoModel.Cbfs.Keep

open Fiano Fiano.Cbfs Driver

/-! wire syntax (see harness/props/c19/wire.go)

  recs  = "-" | rec(";"rec)*
  rec   = namehex "," namePad "," type "," attrs "," datahex "," gap
  attrs = "-" | attr("+"attr)*          attr = tag ":" bodyhex
-/

def parseAttr (s : String) : Option Spec.Attr :=
  match s.splitOn ":" with
  | [t, b] => do pure { tag := ← t.toNat?, body := ← parseHex b }
  | _ => none

def parseAttrs (s : String) : Option (List Spec.Attr) :=
  if s = "-" then some [] else (s.splitOn "+").mapM parseAttr

def parseRec (s : String) : Option Spec.Rec :=
  match s.splitOn "," with
  | [n, p, t, a, d, g] => do
    pure { name := ← parseHex n, namePad := ← p.toNat?, type := ← t.toNat?, attrs := ← parseAttrs a,
           data := ← parseHex d, gap := ← g.toNat? }
  | _ => none

def parseRecs (s : String) : Option (List Spec.Rec) :=
  if s = "-" then some [] else (s.splitOn ";").mapM parseRec

def showNats (l : List Nat) : String :=
  if l.isEmpty then "-" else String.intercalate "/" (l.map toString)

def showSeg (s : Seg) : String :=
  let f := s.file
  s!"{toHex f.name},{f.type},{f.recordStart},{f.size},{f.attrOff},{f.subOff},{compression f},{(fnv1a f.attr).toNat},{(fnv1a f.fdata).toNat},{showNats s.extra}"

def showImage (r : Except Err Image) : String :=
  match r with
  | .error _ => "err"
  | .ok i => i.segs.foldl (fun acc s => acc ++ "|" ++ showSeg s)
      s!"ok {i.areaOff} {i.areaSize} {i.segs.length} {(fnv1a (writeFile i)).toNat}"

def showEntry (e : Entry) : String := s!"{toHex e.name},{e.type},{e.offset},{e.size},{e.comp}"

def kv (k : String) (v : String) : String := k ++ "=" ++ v

def showJSeg (g : JSeg) : String :=
  "{" ++ String.intercalate "," (List.zipWith kv keysSegment
    [toHex g.type, toHex g.comp, toString g.offset, toString g.loadAddr, toString g.size, toString g.memSize]) ++ "}"

def showJRec (r : JRec) : String :=
  match r.segments with
  | none => "{" ++ String.intercalate "," (List.zipWith kv keysFile
      [toHex r.name, toString r.start, toString r.size, toHex r.type, toHex r.comp]) ++ "}"
  | some gs => "{" ++ String.intercalate "," (List.zipWith kv keysPayload
      [toHex r.name, toString r.start, toString r.size, toHex r.type,
       "[" ++ String.intercalate ";" (gs.map showJSeg) ++ "]", toHex r.comp]) ++ "}"

/-- `Image.Segs` is a nil slice when no record was found: encoding/json prints `null` -/
def showJImage (j : JImage) : String :=
  "{" ++ String.intercalate "," (List.zipWith kv keysImage
    [toString j.offset,
     if j.segments.isEmpty then "null" else "[" ++ String.intercalate ";" (j.segments.map showJRec) ++ "]"]) ++ "}"

/-- the requests about one image: (operation, image hex) -/
def splitImgReq : List String → Option (List String × String)
  | ["list", img] => some (["list"], img)
  | ["text", img] => some (["text"], img)
  | ["texthex", img] => some (["texthex"], img)
  | ["json", img] => some (["json"], img)
  | ["update", variant, img] => some (["update", variant], img)
  | ["remove", variant, name, img] => some (["remove", variant, name], img)
  | _ => none

/-- the leading word `keep` selects the model of the code as repaired by
    fixes/C19-update-empty-identity.diff (`newImageK`: empty-space records keep their bytes) -/
def splitVariant : List String → Bool × List String
  | "keep" :: rest => (true, rest)
  | ws => (false, ws)

def readImage (keep : Bool) (d : Bytes) : Except Err Image := if keep then newImageK d else newImage d

def showSegs (segs : List Seg) : String := segs.foldl (fun acc s => acc ++ "|" ++ showSeg s) s!"{segs.length}"

/-- answer to a request about one image, given what `newImage` returned for it -/
def answerImg (keep : Bool) (op : List String) (r : Except Err Image) : String :=
  match op with
  | ["remove", variant, name] =>
    -- Image.Remove(name) on the image as read, then Image.Update: error class of Remove, the record
    -- list afterwards, error class of Update, digest and length of Image.Data
    if variant ≠ "fix" ∧ variant ≠ "head" then "bad-op" else
    match parseHex name, r with
    | none, _ => "bad-op"
    | _, .error _ => "err"
    | some n, .ok i =>
      match removeSegs keep (variant = "fix") i.segs n with
      | .error .noRoom => "noroom"
      | .error .notFound => "notfound"
      | .error .permission => "permission"
      | .error .panic => "panic"
      | .ok segs =>
        let (out, e) := update { i with segs := segs }
        let es := match e with
          | none => "ok"
          | some .region => "region"
          | some .panic => "panic"
        s!"ok {showSegs segs} {es} {(fnv1a out).toNat} {out.length}"
  | ["list"] => showImage r
  | ["text"] =>
    -- Image.String(): digest and length of the text
    match r with
    | .error _ => "err"
    | .ok i => let t := textListing i; s!"{(fnv1a t).toNat} {t.length}"
  | ["texthex"] =>
    match r with
    | .error _ => "err"
    | .ok i => toHex (textListing i)
  | ["json"] =>
    -- Image.MarshalJSON: the ordered key / value structure handed to encoding/json
    match r with
    | .error _ => "err"
    | .ok i => showJImage (jsonListing i)
  | ["update", variant] =>
    -- Image.Update on the image as read: error class, digest and length of Image.Data afterwards
    if variant ≠ "fix" ∧ variant ≠ "head" then "bad-op" else
    match r with
    | .error _ => "err"
    | .ok i =>
      let (out, e) := if variant = "fix" then update i else updateHead i
      let es := match e with
        | none => "ok"
        | some .region => "region"
        | some .panic => "panic"
      s!"{es} {(fnv1a out).toNat} {out.length}"
  | _ => "bad-op"

/-- `serlist`: both sides build the image from the recipe; returns the image too (for the cache) -/
def serlist (keep : Bool) : List String → Option (Bytes × Except Err Image)
  | ["serlist", pre, post, fill, recs] =>
    match parseHex pre, parseHex post, fill.toNat?, parseRecs recs with
    | some p, some q, some f, some rs =>
      if f ≥ 256 then none else
      let img := Spec.ser { pre := p, recs := rs, fill := UInt8.ofNat f, post := q }
      some (img, readImage keep img)
    | _, _, _, _ => none
  | _ => none

def handleOther : List String → String
  | ["entries", recs] =>
    -- the abstract listing of the reference grammar (Spec.entries), for the spec-side oracle
    match parseRecs recs with
    | some rs => (Spec.entries 0 rs).foldl (fun acc e => acc ++ "|" ++ showEntry e) s!"{rs.length}"
    | none => "bad-op"
  | ["findattr", attr, tag] =>
    match parseHex attr, tag.toNat? with
    | some a, some t =>
      let f : File := { size := 0, type := 0, attrOff := 0, subOff := 0, recordStart := 0, name := [],
                        attr := a, fdata := [] }
      match findAttribute f t with
      | none => s!"none {compression f}"
      | some b => s!"some {toHex b} {compression f}"
    | _, _ => "bad-op"
  | ["runes", s] =>
    match parseHex s with
    | none => "bad-op"
    | some b => s!"{runeCount b} {toHex (coerceUTF8 b)}"
  | _ => "bad-op"

/-- the pure request handler (the specification of the driver) -/
def handle (ws0 : List String) : String :=
  let (keep, ws) := splitVariant ws0
  match splitImgReq ws with
  | some (op, hx) =>
    match parseHex hx with
    | none => "bad-op"
    | some d => answerImg keep op (readImage keep d)
  | none =>
    match ws with
    | "serlist" :: _ =>
      match serlist keep ws with
      | some (img, r) => s!"{(fnv1a img).toNat} {img.length} {showImage r}"
      | none => "bad-op"
    | _ => if keep then "bad-op" else handleOther ws

/-- `handle`, with the result of `newImage` for the last image kept: the harness asks several
    questions (list, text, json, update) about the same bytes in a row, and parsing dominates. The
    answers are those of `handle`. -/
partial def main : IO Unit := do
  let stdin ← IO.getStdin
  let stdout ← IO.getStdout
  let cache ← IO.mkRef (none : Option (Bool × String × Except Err Image))
  let rec go : IO Unit := do
    let line ← stdin.getLine
    if line.isEmpty then return ()
    let (keep, ws) := splitVariant (words line)
    let out ← match splitImgReq ws with
      | some (op, hx) => do
        let hit := match (← cache.get) with
          | some (kp, k, v) => if kp == keep && k == hx then some v else none
          | none => none
        match hit with
        | some r => pure (answerImg keep op r)
        | none =>
          match parseHex hx with
          | none => pure "bad-op"
          | some d =>
            let r := readImage keep d
            cache.set (some (keep, hx, r))
            pure (answerImg keep op r)
      | none =>
        match ws with
        | "serlist" :: _ =>
          match serlist keep ws with
          | some (img, r) =>
            cache.set (some (keep, toHex img, r))
            pure s!"{(fnv1a img).toNat} {img.length} {showImage r}"
          | none => pure "bad-op"
        | _ => pure (if keep then "bad-op" else handleOther ws)
    stdout.putStrLn out
    stdout.flush
    go
  go
