import Driver.Common
import FianoModel.Nvram.Model
import FianoModel.Nvram.Ops
import FianoModel.Nvram.Spec
import FianoModel.Nvram.SpecNested
import FianoModel.Nvram.Checksum

open Fiano Fiano.Nvram Driver

/-! wire format: see harness/props/c10/wire.go -/

def dropS (s : String) (n : Nat) : String := String.ofList (s.toList.drop n)

def showType : EType → String
  | .invalid => "I" | .invalidLink => "IL" | .link => "L" | .data => "D" | .full => "F"

def showOptNat : Option Nat → String
  | none => "-"
  | some n => toString n

def showEntry (pol : Nat) (v : NVar) : String :=
  -- a nested store that compaction emptied no longer shows in the bytes: flag only non-empty ones
  let nested := match nestedOf pol v with | some ns => (if ns.entries.isEmpty then "-" else "n") | none => "-"
  s!"{showType v.type},{toHex v.guid},{toHex v.name},{showOptNat v.guidIndex},{v.offset},{v.nextOffset},{v.dataOffset},{v.size},{v.next},{v.attrs},{fnv1a (content v)},{nested}"

def joinWith (sep : String) : List String → String
  | [] => "-"
  | x :: xs => xs.foldl (fun acc y => acc ++ sep ++ y) x

def showStore (pol : Nat) (s : Store) : String :=
  s!"ok {s.fso},{s.gso},{s.length},{fnv1a s.buf};G:{joinWith "." (s.guidStore.map toHex)};E:{joinWith "/" (s.entries.map (showEntry pol))}"

/-- the store with the nested stores of its entries, to any depth (fuel = nesting depth bound) -/
def showStoreDeep (pol : Nat) : Nat → Store → String
  | 0, _ => "fuel"
  | d + 1, s =>
    let ent (v : NVar) : String :=
      match nestedOf pol v with
      | some ns => if ns.entries.isEmpty then showEntry pol v else showEntry pol v ++ "{" ++ showStoreDeep pol d ns ++ "}"
      | none => showEntry pol v
    s!"ok {s.fso},{s.gso},{s.length},{fnv1a s.buf};G:{joinWith "." (s.guidStore.map toHex)};E:{joinWith "/" (s.entries.map ent)}"

def showErr : Err → String
  | .parse => "err" | .asm => "err" | .panic => "panic" | .fuel => "fuel"

/-- an operation word of the wire format -/
def parseOp (op : String) : Option StOp :=
  if op = "asm" then some .asm
  else if op = "compact" then some .compact
  else if op = "reparse" then some .reparse
  else if op.startsWith "inv:" then (parseHex (dropS op 4)).map StOp.inv
  else none

/-- run the ops on the in-memory store (`Nvram.runOps`, the function the op-sequence theorems of
    Props/C10.lean are about); one result per op; stops at the first failure -/
def runOps (pol : Nat) (sh : Store → String) (s : Store) (ops : List String) (acc : List String) :
    Option (List String) :=
  match ops.mapM parseOp with
  | none => none
  | some ops =>
    some (acc.reverse ++ (Nvram.runOps pol s ops).map (fun r =>
      match r with
      | .ok s' => sh s'
      | .error e => showErr e))

/-! recipes -/

open Fiano.Nvram.Spec in
def parseExt (s : String) : Option (Option Ext) :=
  if s = "-" then some none else
  match s.splitOn ":" with
  | [a, b] => do
    let a ← a.toNat?
    let b ← parseHex b
    pure (some { attrs := a, body := b })
  | _ => none

def parseNext (s : String) : Option (Option Nat) :=
  if s = "-" then some none else s.toNat?.map some

open Fiano.Nvram.Spec in
def parseGuidRef (s : String) : Option GuidRef :=
  if s.startsWith "i" then (dropS s 1).toNat?.map GuidRef.index
  else if s.startsWith "x" then (parseHex (dropS s 1)).map GuidRef.inline
  else none

open Fiano.Nvram.Spec in
def parseVarName (s : String) : Option VarName :=
  if s.startsWith "a" then (parseHex (dropS s 1)).map VarName.ascii
  else if s = "u" then some (VarName.ucs2 [])
  else if s.startsWith "u" then (((dropS s 1).splitOn ".").mapM (fun (x : String) => x.toNat?)).map VarName.ucs2
  else none

def bytesToString (b : Bytes) : String := String.ofList (b.map (fun c => Char.ofNat c.toNat))

open Fiano.Nvram.Spec in
/-- a value: hex bytes, or `n` + hex of the wire form of a nested recipe.  `fuel` bounds the
    nesting depth (the length of the text is plenty). -/
def parseRecipeN : Nat → String → Option NStore
  | 0, _ => none
  | fuel + 1, s =>
    let parseValue (v : String) : Option NValue :=
      if v.startsWith "n" then
        match parseHex (dropS v 1) with
        | some b => (parseRecipeN fuel (bytesToString b)).map NValue.store
        | none => none
      else (parseHex v).map NValue.raw
    -- a store value in an entry WITH an extended header: fiano reads content + extended header as the
    -- store; in the grammar that is a raw value (the bytes of the store), judged by `notStore`
    let extRaw (v : NValue) (x : Option Ext) : NValue :=
      match v, x with
      | .store s, some _ => .raw s.ser
      | v, _ => v
    let parseEntry (e : String) : Option NEntry :=
      match e.splitOn "," with
      | ["v", f, g, n, v, x, nx] => do
        let x ← parseExt x
        pure (NEntry.var (← f.toNat?) (← parseGuidRef g) (← parseVarName n) (extRaw (← parseValue v) x) x (← parseNext nx))
      | ["d", f, v, x, nx] => do
        let x ← parseExt x
        pure (NEntry.data (← f.toNat?) (extRaw (← parseValue v) x) x (← parseNext nx))
      | ["x", a, nx, b] => do
        pure (NEntry.dead (← a.toNat?) (← nx.toNat?) (← parseHex b))
      | _ => none
    match s.splitOn "~" with
    | [pol, free, gs, es] => do
      let pol ← pol.toNat?
      let free ← free.toNat?
      let gs ← if gs = "-" then some [] else (gs.splitOn ".").mapM parseHex
      let es ← if es = "-" then some [] else (es.splitOn ";").mapM parseEntry
      pure (NStore.mk pol es free gs)
    | _ => none

open Fiano.Nvram.Spec in
def parseRecipe (s : String) : Option NStore := parseRecipeN (s.length + 1) s

def insertSorted (x : String) : List String → List String
  | [] => [x]
  | y :: ys => if x < y then x :: y :: ys else y :: insertSorted x ys

def sortStrings (l : List String) : List String := l.foldl (fun acc x => insertSorted x acc) []

/-- sorted: the order of the live list is not part of the comparison with the generator -/
def showLive (l : List ((Bytes × Bytes) × Bytes)) : String :=
  joinWith "/" (sortStrings (l.map (fun kv => s!"{toHex kv.1.1},{toHex kv.1.2},{fnv1a kv.2}")))

mutual
  /-- sorted at every level, as `showLive` -/
  def showDeep : List (Spec.Key × Spec.AVal) → String
    | l => joinWith "/" (sortStrings (showDeepL l))
  def showDeepL : List (Spec.Key × Spec.AVal) → List String
    | [] => []
    | (k, v) :: rest => (s!"{toHex k.1},{toHex k.2}," ++ showAVal v) :: showDeepL rest
  def showAVal : Spec.AVal → String
    | .bytes b => s!"={b.length}:{fnv1a b}"
    | .vars l => "{" ++ showDeep l ++ "}"
end

def handle : List String → String
  | "run" :: pol :: img :: ops =>
    match pol.toNat?, parseHex img with
    | some pol, some b =>
      match parseStore pol b with
      | .error e => showErr e
      | .ok s =>
        match runOps pol (showStore pol) s ops [showStore pol s] with
        | some rs => joinWith " | " rs
        | none => "bad-op"
    | _, _ => "bad-op"
  | "rund" :: pol :: img :: ops =>
    -- as `run`, every store shown with its nested stores
    match pol.toNat?, parseHex img with
    | some pol, some b =>
      match parseStore pol b with
      | .error e => showErr e
      | .ok s =>
        match runOps pol (showStoreDeep pol (b.length + 1)) s ops [showStoreDeep pol (b.length + 1) s] with
        | some rs => joinWith " | " rs
        | none => "bad-op"
    | _, _ => "bad-op"
  | ["cksum", pol, img] =>
    -- what parseExtendedHeader reports per entry: stored checksum / expected checksum
    match pol.toNat?, parseHex img with
    | some pol, some b =>
      match parseStore pol b with
      | .error e => showErr e
      | .ok s =>
        joinWith "," ((storeChecksums s).map (fun c =>
          match c with
          | none => "-"
          | some (st, none) => s!"{st}/-"
          | some (st, some e) => s!"{st}/{e}"))
    | _, _ => "bad-op"
  | ["ser", r] =>
    match parseRecipe r with
    | some s => let b := s.ser; s!"{b.length} {fnv1a b}"
    | none => "bad-op"
  | ["wf", r] =>
    -- the four groups of hypotheses of the theorems, each at every nesting level
    match parseRecipe r with
    | some s =>
      let wf := Spec.wfN s
      let links := s.all (fun n => Spec.linksOk n.flat)
      let fits := s.all (fun n => Spec.fitsOk n.flat)
      let u := if wf && links then toString (s.all (fun n => Spec.uniqueKeys n.flat)) else "?"
      s!"wf={wf} links={links} fits={fits} uniq={u}"
    | none => "bad-op"
  | ["live", r] =>
    match parseRecipe r with
    | some s => showLive (Spec.live s.flat)
    | none => "bad-op"
  | ["livek", n, r] =>
    match parseHex n, parseRecipe r with
    | some n, some s => showLive (Spec.liveK (fun x => x == n) s.flat)
    | _, _ => "bad-op"
  | ["deep", r] =>
    -- the tree of current variables of the recursive grammar
    match parseRecipe r with
    | some s => showDeep s.deepLive
    | none => "bad-op"
  | ["ucs2dec", h] =>
    match parseHex h with
    | some b => toHex (ucs2ToUtf8 b)
    | none => "bad-op"
  | ["ucs2enc", h] =>
    match parseHex h with
    | some b => toHex (utf8ToUcs2 b)
    | none => "bad-op"
  | _ => "bad-op"

def main : IO Unit := loop handle
