import Driver.Common
import FianoModel.Crypto.Cbnt
import FianoModel.Crypto.Psb
import FianoModel.Crypto.SignedRangeModel
import FianoModel.Manifest.Build
import FianoModel.Gen.Manifest

/-!
  Line-protocol driver of the C16 model.

  The cryptographic primitives are parameters of the model.  On the wire they are *finite tables*
  computed by the harness with the real Go primitives (crypto/*, gmsm) on the inputs of the case
  and sent after the word `T`:

    h:<alg>:<fnv>:<len>:<digest>                               hash of the input with that FNV/length
    v:<sch>:<hf>:<n>:<e>:<fnv digest>:<fnv sig>:<siglen>:<0|1> rsa verify verdict
    s:<sch>:<hf>:<fnv digest>:<sig>                            rsa signature of the case's private key
    e:<fnv digest>:<len>:<r>:<s>                               ECDSA signature of the case's key
    m:<fnv msg>:<len>:<r>:<s>                                  SM2 signature of the case's key

  The model chooses which entry it looks up (which hash, which scheme, which decoded key, which
  bytes); a lookup that is not in the table yields the empty digest / `false` / `(0, 0)`.
-/

open Fiano Fiano.Crypto Driver

def natOfHexChars : List Char → Nat → Option Nat
  | [], acc => some acc
  | c :: cs, acc => match hexVal c with
    | some v => natOfHexChars cs (16 * acc + v)
    | none => none

def parseNatHex (s : String) : Option Nat := if s.isEmpty then none else natOfHexChars s.toList 0

def natHexDigits : Nat → Nat → List Char → List Char
  | 0, _, acc => acc
  | fuel + 1, n, acc => if n = 0 then acc else natHexDigits fuel (n / 16) (hexDigit (n % 16) :: acc)

def natHex (n : Nat) : String := if n = 0 then "0" else String.ofList (natHexDigits (Nat.log2 n / 4 + 2) n [])

def hex64 (x : UInt64) : String :=
  let s := natHex x.toNat
  String.ofList (List.replicate (16 - s.length) '0') ++ s

def fnvS (b : Bytes) : String := hex64 (fnv1a b)

structure Tables where
  h : List (Nat × String × Nat × Bytes) := []
  v : List (Nat × Nat × Nat × Nat × String × String × Nat × Bool) := []
  s : List (Nat × Nat × String × Bytes) := []
  e : List (String × Nat × Nat × Nat) := []
  m : List (String × Nat × Nat × Nat) := []

def parseEntry (t : Tables) (w : String) : Option Tables :=
  match w.splitOn ":" with
  | ["h", alg, f, len, dig] => do
    pure { t with h := (← alg.toNat?, f, ← len.toNat?, ← parseHex dig) :: t.h }
  | ["v", sch, hf, n, e, fd, fs, sl, r] => do
    pure { t with v := (← sch.toNat?, ← hf.toNat?, ← parseNatHex n, ← parseNatHex e, fd, fs, ← sl.toNat?, r == "1") :: t.v }
  | ["s", sch, hf, fd, sig] => do
    pure { t with s := (← sch.toNat?, ← hf.toNat?, fd, ← parseHex sig) :: t.s }
  | ["e", fd, len, r, s] => do
    pure { t with e := (fd, ← len.toNat?, ← parseNatHex r, ← parseNatHex s) :: t.e }
  | ["m", fd, len, r, s] => do
    pure { t with m := (fd, ← len.toNat?, ← parseNatHex r, ← parseNatHex s) :: t.m }
  | _ => none

def parseTables : List String → Option Tables
  | ws => ws.foldlM parseEntry {}

def schNum : RSAScheme → Nat | .pkcs1v15 => 0 | .pss => 1

def primsOf (t : Tables) : Prims where
  hash := fun a d =>
    match t.h.find? (fun x => x.1 == a && x.2.1 == fnvS d && x.2.2.1 == d.length) with
    | some x => x.2.2.2
    | none => []
  rsaVerify := fun sch hf k d s =>
    match t.v.find? (fun x => x.1 == schNum sch && x.2.1 == hf && x.2.2.1 == k.n && x.2.2.2.1 == k.e &&
        x.2.2.2.2.1 == fnvS d && x.2.2.2.2.2.1 == fnvS s && x.2.2.2.2.2.2.1 == s.length) with
    | some x => x.2.2.2.2.2.2.2
    | none => false

/-- the case's private keys are represented by their public parts -/
def signersOf (t : Tables) : Signers where
  RSAPriv := RSAPub
  rsaPub := id
  rsaSign := fun sch hf _ _ d =>
    match t.s.find? (fun x => x.1 == schNum sch && x.2.1 == hf && x.2.2.1 == fnvS d) with
    | some x => x.2.2.2
    | none => []
  ECPriv := ECPub
  ecPub := id
  ecSign := fun _ _ d =>
    match t.e.find? (fun x => x.1 == fnvS d && x.2.1 == d.length) with
    | some x => (x.2.2.1, x.2.2.2)
    | none => (0, 0)
  ecVerify := fun _ _ _ _ => false
  SM2Priv := ECPub
  sm2Pub := id
  sm2Sign := fun _ _ d =>
    match t.m.find? (fun x => x.1 == fnvS d && x.2.1 == d.length) with
    | some x => (x.2.2.1, x.2.2.2)
    | none => (0, 0)
  sm2Verify := fun _ _ _ _ => false

/-- split the request at the word `T` -/
def splitT (ws : List String) : List String × List String :=
  (ws.takeWhile (· ≠ "T"), (ws.dropWhile (· ≠ "T")).drop 1)

/-! ### cbnt / bg -/

open Fiano.Crypto.Cbnt in
def showPub : PubKey → String
  | .rsa k => s!"rsa {natHex k.n} {natHex k.e}"
  | .ecc k => s!"ecc {natHex k.x} {natHex k.y}"
  | .sm2 k => s!"sm2 {natHex k.x} {natHex k.y}"

open Fiano.Crypto.Cbnt in
def showSigData : SigData → String
  | .rsaPSS b => s!"pss {toHex b}"
  | .rsaSSA b => s!"ssa {toHex b}"
  | .ecdsa r s => s!"ecdsa {natHex r} {natHex s}"
  | .sm2 r s => s!"sm2 {natHex r} {natHex s}"

def showSig (m : Cbnt.Signature) : String :=
  s!"{m.sigScheme} {m.version} {m.keySize} {m.hashAlg} {toHex m.data}"

def showKS (ks : Cbnt.KeySignature) : String :=
  s!"{ks.version} {ks.key.keyAlg} {ks.key.version} {ks.key.keySize} {toHex ks.key.data} {showSig ks.sig}"

def okErr {ε α} : Except ε α → String
  | .ok _ => "ok"
  | .error _ => "err"

def cbntErr (e : Cbnt.Err) : String := if e = .panic then "panic" else "err"

def mkKey (alg size : Nat) (d : Bytes) : Cbnt.Key := { keyAlg := alg, version := 0x10, keySize := size, data := d }
def mkSig (scheme hashAlg : Nat) (d : Bytes) : Cbnt.Signature :=
  { sigScheme := scheme, version := 0x10, keySize := 0, hashAlg := hashAlg, data := d }
/-- the zero value of the Go struct -/
def sig0 : Cbnt.Signature := { sigScheme := 0, version := 0, keySize := 0, hashAlg := 0, data := [] }

def parseSigValue (kind a b : String) : Option Cbnt.SigData :=
  match kind with
  | "pss" => do pure (.rsaPSS (← parseHex a))
  | "ssa" => do pure (.rsaSSA (← parseHex a))
  | "ecdsa" => do pure (.ecdsa (← parseNatHex a) (← parseNatHex b))
  | "sm2" => do pure (.sm2 (← parseNatHex a) (← parseNatHex b))
  | _ => none

def parsePriv (S : Signers) (hR : S.RSAPriv = RSAPub) (hE : S.ECPriv = ECPub) (hM : S.SM2Priv = ECPub)
    (kind a b : String) : Option (Cbnt.PrivKey S) :=
  match kind with
  | "rsa" => do pure (.rsa (hR ▸ ({ n := ← parseNatHex a, e := ← parseNatHex b } : RSAPub)))
  | "ecdsa" => do pure (.ecdsa (hE ▸ ({ x := ← parseNatHex a, y := ← parseNatHex b } : ECPub)))
  | "sm2" => do pure (.sm2 (hM ▸ ({ x := ← parseNatHex a, y := ← parseNatHex b } : ECPub)))
  | _ => none

def parseKMHashes (s : String) : Option (List Cbnt.KMHash) :=
  if s = "-" then some [] else
  (s.splitOn ";").mapM (fun e => match e.splitOn "," with
    | [u, a, b] => do pure { usage := ← u.toNat?, hashAlg := ← a.toNat?, buf := ← parseHex b }
    | _ => none)

def parseSegs (s : String) : Option (List Cbnt.IBBSegment) :=
  if s = "-" then some [] else
  (s.splitOn ";").mapM (fun e => match e.splitOn "," with
    | [f, b, z] => do pure { flags := ← f.toNat?, base := ← b.toNat?, size := ← z.toNat? }
    | _ => none)

def parseDigest (s : String) : Option (Option (Nat × Bytes)) :=
  if s = "none" then some none else
  match s.splitOn "," with
  | [a, b] => do pure (some (← a.toNat?, ← parseHex b))
  | _ => none

def showRanges (rs : List (Nat × Nat)) : String :=
  if rs.isEmpty then "-" else ";".intercalate (rs.map (fun r => s!"{r.1},{r.2}"))

def parsePubKind : String → Option Cbnt.PubKind
  | "rsa" => some .rsa | "ecdsa" => some .ecdsa | "sm2" => some .sm2 | _ => none

/-- the manifest layouts, computed from the declarations regenerated from the Go sources (as Driver/C15 does) -/
def manifestSrc : Fiano.Manifest.Sources :=
  { decls := Fiano.Gen.Manifest.decls, countExprs := Fiano.Gen.Manifest.countExprs,
    helpers := Fiano.Gen.Manifest.rehashHelpers }

def manifestStrict (q : String) : Bool :=
  match Fiano.Gen.Manifest.codecs.find? (·.name == q) with
  | some c => match c.container with | some g => g.strictOrder | none => true
  | none => true

def showVerdict : Option (Except Cbnt.Err Unit) → String
  | none => "noparse"
  | some (.ok _) => "ok"
  | some (.error _) => "err"

def handleCbnt (req : List String) (t : Tables) : String :=
  let P := primsOf t
  let S := signersOf t
  match req with
  | ["hashsupp", "cbnt", a] => match a.toNat? with
    | some a => toString (Cbnt.hashSupported a)
    | none => "bad-op"
  | ["hashsupp", "bg", a] => match a.toNat? with
    | some a => toString (Cbnt.bgHashSupported a)
    | none => "bad-op"
  | ["pubkey", alg, size, d] =>
    match alg.toNat?, size.toNat?, parseHex d with
    | some alg, some size, some d => match Cbnt.pubKey (mkKey alg size d) with
      | .ok k => "ok " ++ showPub k
      | .error _ => "err"
    | _, _, _ => "bad-op"
  | ["bgpubkey", alg, size, d] =>
    match alg.toNat?, size.toNat?, parseHex d with
    | some alg, some size, some d => match Cbnt.Bg.pubKey (mkKey alg size d) with
      | .ok k => s!"ok rsa {natHex k.n} {natHex k.e}"
      | .error _ => "err"
    | _, _, _ => "bad-op"
  | ["sigdata", scheme, d] =>
    match scheme.toNat?, parseHex d with
    | some scheme, some d => match Cbnt.signatureData (mkSig scheme 0 d) with
      | .ok sd => "ok " ++ showSigData sd
      | .error _ => "err"
    | _, _ => "bad-op"
  | ["verify", kalg, ksize, kd, scheme, halg, sd, data] =>
    match kalg.toNat?, ksize.toNat?, parseHex kd, scheme.toNat?, halg.toNat?, parseHex sd, parseHex data with
    | some kalg, some ksize, some kd, some scheme, some halg, some sd, some data =>
      okErr (Cbnt.verify P { version := 0x10, key := mkKey kalg ksize kd, sig := mkSig scheme halg sd } data)
    | _, _, _, _, _, _, _ => "bad-op"
  | ["bgverify", kalg, ksize, kd, scheme, halg, sd, data] =>
    match kalg.toNat?, ksize.toNat?, parseHex kd, scheme.toNat?, halg.toNat?, parseHex sd, parseHex data with
    | some kalg, some ksize, some kd, some scheme, some halg, some sd, some data =>
      okErr (Cbnt.Bg.verify P { version := 0x10, key := mkKey kalg ksize kd, sig := mkSig scheme halg sd } data)
    | _, _, _, _, _, _, _ => "bad-op"
  | ["setsigdata", kind, a, b, halg] =>
    match parseSigValue kind a b, halg.toNat? with
    | some sd, some halg => match Cbnt.setSignatureByData sig0 sd halg with
      | .ok m => "ok " ++ showSig m
      | .error _ => "err"
    | _, _ => "bad-op"
  | ["fillsig", signAlgo, kind, raw, halg] =>
    match signAlgo.toNat?, parsePubKind kind, parseHex raw, halg.toNat? with
    | some signAlgo, some kind, some raw, some halg =>
      match Cbnt.fillSignature sig0 signAlgo kind raw halg with
      | .ok m => "ok " ++ showSig m
      | .error _ => "err"
    | _, _, _, _ => "bad-op"
  | ["setsig", kind, a, b, signAlgo, halg, data] =>
    match parsePriv S rfl rfl rfl kind a b, signAlgo.toNat?, halg.toNat?, parseHex data with
    | some priv, some signAlgo, some halg, some data =>
      match Cbnt.setSignature P S { version := 0, key := mkKey 0 0 [], sig := sig0 } signAlgo halg priv [] data with
      | .ok ks => "ok " ++ showKS ks
      | .error _ => "err"
    | _, _, _, _ => "bad-op"
  | ["bgsetsig", a, b, signAlgo, data] =>
    match parseNatHex a, parseNatHex b, signAlgo.toNat?, parseHex data with
    | some n, some e, some signAlgo, some data =>
      match Cbnt.Bg.setSignature P S { version := 0, key := mkKey 0 0 [], sig := sig0 } signAlgo
          (show S.RSAPriv from ({ n := n, e := e } : RSAPub)) [] data with
      | .ok ks => "ok " ++ showKS ks
      | .error _ => "err"
    | _, _, _, _ => "bad-op"
  | ["bpmkey", kalg, kd, entries] =>
    match kalg.toNat?, parseHex kd, parseKMHashes entries with
    | some kalg, some kd, some hs => match Cbnt.validateBPMKey P hs (mkKey kalg 0 kd) with
      | .ok _ => "ok"
      | .error e => cbntErr e
    | _, _, _ => "bad-op"
  | ["kmverify", b] =>
    match parseHex b, Fiano.Manifest.sdefOf manifestSrc 8 "cbntkey.Manifest" with
    | some b, some S => showVerdict (SignedRange.kmVerify P S b)
    | _, _ => "bad-op"
  | ["bpmverify", b] =>
    match parseHex b, Fiano.Manifest.containerOf manifestSrc 8 "cbntbootpolicy.Manifest"
        (manifestStrict "cbntbootpolicy.Manifest") with
    | some b, some C => showVerdict (SignedRange.bpmVerify P C b)
    | _, _ => "bad-op"
  | ["ibbranges", segs, size] =>
    match parseSegs segs, size.toNat? with
    | some segs, some size => showRanges (Cbnt.ibbRanges segs size)
    | _, _ => "bad-op"
  | ["ibb", flavour, digest, segs, fw] =>
    match parseDigest digest, parseSegs segs, parseHex fw with
    | some digest, some segs, some fw =>
      let supp := if flavour = "bg" then Cbnt.bgHashSupported else Cbnt.hashSupported
      if flavour ≠ "bg" ∧ flavour ≠ "cbnt" then "bad-op" else
      match Cbnt.validateIBB P supp digest segs fw with
      | .ok _ => "ok"
      | .error e => cbntErr e
    | _, _, _ => "bad-op"
  | _ => "bad-op"

/-! ### psb -/

def parseKeyType : String → Option Psb.KeyType
  | "root" => some .amdRoot | "db" => some .keyDB | "abl" => some .abl | "oem" => some .oem | _ => none

def showKeyType : Psb.KeyType → String
  | .amdRoot => "root" | .keyDB => "db" | .abl => "abl" | .oem => "oem"

/-- key sets travel as `type:rawtoken,…`; each token is parsed like `NewRootKey` does -/
def parseKeySet (s : String) : Option Psb.KeySet :=
  if s = "-" then some [] else
  (s.splitOn ",").foldlM (fun ks e => match e.splitOn ":" with
    | [t, raw] => do
      let t ← parseKeyType t
      let raw ← parseHex raw
      match Psb.newRootKey raw with
      | .ok k => match Psb.KeySet.addKey ks k t with
        | .ok ks' => some ks'
        | .error _ => none
      | .error _ => none
    | _ => none) []

def parseRange (s : String) : Option (Nat × Nat) :=
  match s.splitOn "," with
  | [a, b] => do pure (← a.toNat?, ← b.toNat?)
  | _ => none

def showPsbKey (k : Psb.Key) : String :=
  let g := match Psb.keyGet k with
    | .ok pk => s!"{natHex pk.n} {natHex pk.e}"
    | .error _ => "noget"
  let ln := if Psb.checkValid k then toString k.modulus.length else "?"
  s!"{toHex k.keyID} {ln} {g}"

/-- by type (root, db, abl, oem), ids sorted within a type — the Go map has no order -/
def showKeySet (ks : Psb.KeySet) : String :=
  let grp (t : Psb.KeyType) : List String :=
    let ids := (ks.filter (fun e => e.1 == t)).map (fun e => toHex e.2.keyID)
    (ids.toArray.qsort (· < ·)).toList.map (fun i => s!"{showKeyType t}:{i}")
  ",".intercalate (grp .amdRoot ++ grp .keyDB ++ grp .abl ++ grp .oem)

def handlePsb (req : List String) (t : Tables) : String :=
  let P := primsOf t
  match req with
  | ["rootkey", raw] => match parseHex raw with
    | some raw => match Psb.newRootKey raw with
      | .ok k => "ok " ++ showPsbKey k
      | .error _ => "err"
    | none => "bad-op"
  | ["dbkey", raw] => match parseHex raw with
    | some raw => match Psb.parseDBKey raw with
      | .ok (k, n) => s!"ok {n} " ++ showPsbKey k
      | .error _ => "err"
    | none => "bad-op"
  | ["signedblob", sig, data, keyraw] =>
    match parseHex sig, parseHex data, parseHex keyraw with
    | some sig, some data, some keyraw => match Psb.newRootKey keyraw with
      | .ok k => okErr (Psb.newSignedBlob P sig data k)
      | .error _ => "bad-op"
    | _, _, _ => "bad-op"
  | ["tokenkey", raw, ks] =>
    match parseHex raw, parseKeySet ks with
    | some raw, some ks => match Psb.newTokenKey P raw ks with
      | .ok k => "ok " ++ showPsbKey k
      | .error _ => "err"
    | _, _ => "bad-op"
  | ["blobranges", raw, ks] =>
    match parseHex raw, parseKeySet ks with
    | some raw, some ks => match Psb.parseHeader raw with
      | none => "err"
      | some h => match Psb.blobRanges h ks raw.length with
        | .ok r => s!"ok {r.signedEnd} {r.sigStart} {r.sigLen} {toHex r.key.keyID}"
        | .error _ => "err"
    | _, _ => "bad-op"
  | ["pspentry", img, off, len, ks] =>
    match parseHex img, off.toNat?, len.toNat?, parseKeySet ks with
    | some img, some off, some len, some ks => match Psb.validatePSPEntry P img ks off len with
      | .ok => "ok"
      | .invalid _ => "invalid"
      | .fail => "fail"
    | _, _, _, _ => "bad-op"
  | ["getkeys", root, db, abl, oem] =>
    match parseHex root, parseHex db, parseHex abl, (if oem = "none" then some none else (parseHex oem).map some) with
    | some root, some db, some abl, some oem =>
      -- the key set as Go leaves it: returned together with the error
      match Psb.getKeysAll P root db abl oem with
      | (ks, none) =>
        let o := match Psb.psbSignBIOSKey ks with
          | .ok k => "oem=" ++ toHex k.keyID
          | .error _ => "oem=err"
        s!"ok {showKeySet ks} {o}"
      | (ks, some _) => s!"err {showKeySet ks}"
    | _, _, _, _ => "bad-op"
  | ["rtmfull", img, level, rootR, dbR, ablR, oemR, rtm, sig, d1, dL] =>
    match parseHex img, level.toNat?, parseRange rootR, parseRange dbR, parseRange ablR,
      (if oemR = "none" then some none else (parseRange oemR).map some),
      parseRange rtm, parseRange sig, parseRange d1, parseRange dL with
    | some img, some level, some rootR, some dbR, some ablR, some oemR, some rtm, some sig, some d1, some dL =>
      match Psb.validateRTMFull P img level rootR dbR ablR oemR rtm sig d1 dL with
      | none => "fail"
      | some (.ok _, img') => s!"ok {fnvS img'}"
      | some (.error _, img') => s!"invalid {fnvS img'}"
    | _, _, _, _, _, _, _, _, _, _ => "bad-op"
  | ["rtm", img, level, rtm, sig, d1, dL, oemraw] =>
    match parseHex img, level.toNat?, parseRange rtm, parseRange sig, parseRange d1, parseRange dL, parseHex oemraw with
    | some img, some level, some rtm, some sig, some d1, some dL, some oemraw =>
      match Psb.parseKey oemraw with
      | .error _ => "bad-op"
      | .ok (oem, _) => match Psb.validateRTM P img level rtm sig d1 dL oem with
        | none => "fail"
        | some (.ok _, img') => s!"ok {fnvS img'}"
        | some (.error _, img') => s!"invalid {fnvS img'}"
    | _, _, _, _, _, _, _ => "bad-op"
  | _ => "bad-op"

def psbOps : List String :=
  ["rootkey", "dbkey", "signedblob", "tokenkey", "blobranges", "pspentry", "getkeys", "rtm", "rtmfull"]

def handle (ws : List String) : String :=
  let (req, tw) := splitT ws
  match parseTables tw with
  | none => "bad-op"
  | some t =>
    match req with
    | op :: _ => if psbOps.contains op then handlePsb req t else handleCbnt req t
    | [] => "bad-op"

def main : IO Unit := loop handle
