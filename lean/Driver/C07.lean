/-
  Driver for property C07 (extract to a directory, reassemble from it).

  Requests (one line; bytes as lower-case hex, "-" = empty):

    rt <image>
        uefi.Parse in a fresh process, `extract`, then the directory loaded and saved in a fresh process,
        and the direct save of the image.  Answer, one line:
          "parse:<errclass>"
          "ok ex=panic"                                       Extract faulted
          "ok ex=<n>:<fnv of listing> pd=<digest | errclass> ds=<fnv>:<len>:<digest after> | <errclass>
              direct=<fnv>:<len> | <errclass>"
        listing = the written files in writing order, one "<path> <len> <fnv>" per file, joined by ";"
        pd      = digest of the canonical dump (Uefi/Dump.lean) of the tree ParseDir builds
        ds      = digest of the bytes `utk DIR save` writes and of the tree after it
    listing <image>    → "ok <listing>"
    pdtree <image>     → "ok <canonical dump of the tree ParseDir builds>"
    edit <kind> <old> <new> <image>
        the same as `rt`, with summary.json edited before loading: every node of the kind whose value is
        <old> gets <new>.  kind ∈ guid (hex) | name (cp.cp…|-) | ver (<build>:<cp.cp…|->) | depex (op[:guid],…|-)
        Answer: "… ds=<…> mem=<fnv>:<len> | <errclass>" where mem = two Assemble passes over the parsed
        tree with the same edit applied in memory.
  <errclass> ∈ err | panic | fatal | hang | fuel.   Anything else → "bad-op".
-/
import Driver.Common
import FianoModel.Uefi.Dump
import FianoModel.Uefi.Extract

open Fiano Fiano.Uefi Driver

def hooks : Hooks := Hooks.none

def strOf (b : Bytes) : String := String.ofList (b.map (fun x => Char.ofNat x.toNat))

def listingOf (t : Tree) : String :=
  joinWith ";" ((extractDir t).map (fun (p, b) => s!"{strOf p} {b.length} {fnvOf b}"))

def fnvStr (s : String) : String := hex16 (Uefi.fnv1a s.toUTF8.toList)

def dsLine (d : Dir) (s : Tree) : String :=
  match parseDir d goJunk s with
  | .error e => errName e
  | .ok t =>
    match asmTreeWith hooks t {} with
    | .error e => errName e
    | .ok (t1, st1) =>
      match asmTreeWith hooks t1 { st1 with ffs3 := false } with
      | .error e => errName e
      | .ok (t2, _) => s!"{fnvOf t2.buf}:{t2.buf.length}:{digestOf t2}"

def bytesLine : Except Err Bytes → String
  | .error e => errName e
  | .ok b => s!"{fnvOf b}:{b.length}"

def rtLine (b : Bytes) (e : Option Edit) : String :=
  match parseWith hooks (defaultFuel b) b {} with
  | .error er => "parse:" ++ errName er
  | .ok (t, st) =>
    match extract t with
    | .error _ => "ok ex=panic"
    | .ok (d, s) =>
      let s' := match e with | some e => edit e s | none => s
      let pd := match parseDir d goJunk s' with
        | .ok t' => digestOf t'
        | .error er => errName er
      let last := match e with
        | none => "direct=" ++ bytesLine (asmWith hooks t st)
        | some e => "mem=" ++ bytesLine (asmTwice hooks (edit e t) st)
      s!"ok ex={d.length}:{fnvStr (listingOf t)} pd={pd} ds={dsLine d s'} {last}"

/-! parsing of the edit arguments -/

def parseNat? (s : String) : Option Nat := s.toNat?

def parseCps (s : String) : Option (List Nat) :=
  if s = "-" then some [] else (s.splitOn ".").mapM parseNat?

def parseOp (s : String) : Option DepOp :=
  match s.splitOn ":" with
  | [o] => (parseNat? o).map (fun n => ⟨n, none⟩)
  | [o, g] =>
    match parseNat? o, parseHex g with
    | some n, some gb => some ⟨n, some gb⟩
    | _, _ => none
  | _ => none

def parseOps (s : String) : Option (List DepOp) :=
  if s = "-" then some [] else (s.splitOn ",").mapM parseOp

def parseVer (s : String) : Option (Nat × List Nat) :=
  match s.splitOn ":" with
  | [b, v] =>
    match parseNat? b, parseCps v with
    | some n, some l => some (n, l)
    | _, _ => none
  | _ => none

def mkEdit (kind old new : String) : Option Edit :=
  match kind with
  | "guid" =>
    match parseHex old, parseHex new with
    | some a, some b => some { guid := fun g => if g = a then b else g }
    | _, _ => none
  | "name" =>
    match parseCps old, parseCps new with
    | some a, some b => some { name := fun n => if n = a then b else n }
    | _, _ => none
  | "ver" =>
    match parseVer old, parseVer new with
    | some a, some b => some { ver := fun v => if v = a then b else v }
    | _, _ => none
  | "depex" =>
    match parseOps old, parseOps new with
    | some a, some b => some { depex := fun d => if d = a then b else d }
    | _, _ => none
  | _ => none

def withBytes (s : String) (k : Bytes → String) : String :=
  match parseHex s with
  | some b => k b
  | none => "bad-op"

def handle : List String → String
  | ["rt", img] => withBytes img fun b => rtLine b none
  | ["edit", kind, old, new, img] =>
    match mkEdit kind old new with
    | none => "bad-op"
    | some e => withBytes img fun b => rtLine b (some e)
  | ["listing", img] => withBytes img fun b =>
    match parse hooks b with
    | .error e => errName e
    | .ok t => s!"ok {listingOf t}"
  | ["pdtree", img] => withBytes img fun b =>
    match parse hooks b with
    | .error e => errName e
    | .ok t =>
      match parseDir (extractDir t) goJunk (summaryOf t) with
      | .error e => errName e
      | .ok t' => s!"ok {dumpText t'}"
  | _ => "bad-op"

def main : IO Unit := loop handle
