/-
  Driver for property C07 (extract to a directory, reassemble from it).

  Requests (one line; bytes as lower-case hex, "-" = empty):

    rt <image>
        uefi.Parse in a fresh process, `extract`, then the directory loaded and saved in a fresh process,
        and the direct save of the image.  Answer, one line:
          "parse:<errclass>"
          "ok ex=panic"                                       Extract faulted
          "ok ex=<n>:<fnv of listing> pd=<digest | errclass> ds=<fnv>:<len>:<digest after> | <errclass>
              direct=<fnv>:<len> | <errclass>"
        listing = the written files in writing order, one "<path> <len> <fnv>" per file, joined by ";"
        pd      = digest of the canonical dump (Uefi/Dump.lean) of the tree ParseDir builds
        ds      = digest of the bytes `utk DIR save` writes and of the tree after it
    listing <image>    → "ok <listing>"
    pdtree <image>     → "ok <canonical dump of the tree ParseDir builds>"
    edit <kind> <old> <new> <image>
        the same as `rt`, with summary.json edited before loading: every node of the kind whose value is
        <old> gets <new>.  kind ∈ guid (hex) | name (cp.cp…|-) | ver (<build>:<cp.cp…|->) | depex (op[:guid],…|-)
        Answer: "… ds=<…> mem=<fnv>:<len> | <errclass>" where mem = two Assemble passes over the parsed
        tree with the same edit applied in memory.
    nvlisting <store>
        (follow-up wp-c07b) the NVAR store `store` — the body of the only file (RAW, NVAR GUID, index 0) of
        the only volume (offset 0) of a bare BIOS region, erase polarity 1 — parsed by C10's model and
        extracted by Uefi/ExtractNvar.lean.  Answer "err" (store not parsed) or "ok <n>:<fnv of listing>",
        listing as above over the raw path bytes.
    hyp <image>   |   hypedit <kind> <old> <new> <image>
        (follow-up wp-c07b) do the hypotheses of the round-trip theorems of Props/C07.lean hold of the parsed
        (resp. parsed and edited) tree?  "ok" when okTree, pwTree, TopPol and the side condition savedOkAll of the
        fixed-point theorem all evaluate to true, else "no:" followed by the names of those that do not (follow-up
        wp-c07c: also the parts of the side condition — d60Tree, restOkAll, at256Tree, sizeOkAll);
        "parse:<errclass>" when the image does not parse.
    nvdirsave <store>
        (follow-up wp-c07b) the store parsed by C10's model, extracted, loaded by ParseDir and assembled again,
        nested stores included (`asmDirStore`): "err" (not parsed, or the reassembly fails — e.g. a name that is not
        valid UTF-8, F-C07-1) or "ok <fnv>:<len>" of the store's bytes.
    nvimage <image>
        (follow-up wp-c07b) uefi.Parse with C10's `NewNVarStore` model as the NVAR parser (erase polarity 1),
        then `extract`: "parse:<errclass>" | "ok ex=panic" | "ok <n>:<fnv of listing>", the listing of ALL files
        written (volume headers, leaf files, the NVar arm's files) digested over the raw path bytes.
    nvrt direct|load|ds|hyp <image>
        (follow-up wp-c07c) the tree-level round trip WITH NVAR stores: uefi.Parse with C10's `NewNVarStore` /
        `asmStore` as NVAR hooks (`c10Hooks`, erase polarity 0xFF).  "parse:<errclass>", else
          direct  one Assemble pass over the parsed tree (`utk IMAGE save`): "<fnv>:<len>" | <errclass>
          load    extract, ParseDir, one Assemble pass under `c10DirHooks` (the loaded stores): the same form
          ds      extract, ParseDir, Assemble, Save (`extractSaveNv`): the same form
          hyp     "ok" when okNvTree, pwTree, TopPol, nvUtf8Tree hold of the parsed tree, else "no:<names>"
    mefpt <region> | mereload <region> | menames <region>
        (follow-up wp-c07c) the ME flash partition table of an ME region (Uefi/ExtractMe.lean):
          mefpt     `NewMERegion`: "nofpt" | "ok c=<count> s=<mapStart> n=<entries> e=<fnv of entry dump> f=<FreeSpaceOffset> b=<len(fpt.buf)>"
                    entry dump = "<name hex>:<owner hex>:<offset>:<length>:<r0>,<r1>,<r2>:<flags>" joined by ";"
          mereload  the same line for the region after extract, ParseDir (summary.json), Assemble; "err" when loading fails
          menames   the JSON text of every entry name, hex, joined by "," ("nofpt" without table)
  <errclass> ∈ err | panic | fatal | hang | fuel.   Anything else → "bad-op".
-/
import Driver.Common
import FianoModel.Uefi.Dump
import FianoModel.Uefi.Extract
import FianoModel.Uefi.ExtractNvar
import FianoModel.Uefi.FaithfulNvarHook
import FianoModel.Uefi.ExtractTwiceDefs
import FianoModel.Uefi.ExtractAsm
import FianoModel.Uefi.ExtractPathsBase
import FianoModel.Uefi.ExtractNvTreeDefs
import FianoModel.Uefi.ExtractMe
import FianoModel.Uefi.ExtractTwiceParsedDefs

open Fiano Fiano.Uefi Driver

def hooks : Hooks := Hooks.none

def strOf (b : Bytes) : String := String.ofList (b.map (fun x => Char.ofNat x.toNat))

def listingOf (t : Tree) : String :=
  joinWith ";" ((extractDir t).map (fun (p, b) => s!"{strOf p} {b.length} {fnvOf b}"))

def fnvStr (s : String) : String := hex16 (Uefi.fnv1a s.toUTF8.toList)

def dsLine (d : Dir) (s : Tree) : String :=
  match parseDir d goJunk s with
  | .error e => errName e
  | .ok t =>
    match asmTreeWith hooks t {} with
    | .error e => errName e
    | .ok (t1, st1) =>
      match asmTreeWith hooks t1 { st1 with ffs3 := false } with
      | .error e => errName e
      | .ok (t2, _) => s!"{fnvOf t2.buf}:{t2.buf.length}:{digestOf t2}"

def bytesLine : Except Err Bytes → String
  | .error e => errName e
  | .ok b => s!"{fnvOf b}:{b.length}"

def rtLine (b : Bytes) (e : Option Edit) : String :=
  match parseWith hooks (defaultFuel b) b {} with
  | .error er => "parse:" ++ errName er
  | .ok (t, st) =>
    match extract t with
    | .error _ => "ok ex=panic"
    | .ok (d, s) =>
      let s' := match e with | some e => edit e s | none => s
      let pd := match parseDir d goJunk s' with
        | .ok t' => digestOf t'
        | .error er => errName er
      let last := match e with
        | none => "direct=" ++ bytesLine (asmWith hooks t st)
        | some e => "mem=" ++ bytesLine (asmTwice hooks (edit e t) st)
      s!"ok ex={d.length}:{fnvStr (listingOf t)} pd={pd} ds={dsLine d s'} {last}"

/-! parsing of the edit arguments -/

def parseNat? (s : String) : Option Nat := s.toNat?

def parseCps (s : String) : Option (List Nat) :=
  if s = "-" then some [] else (s.splitOn ".").mapM parseNat?

def parseOp (s : String) : Option DepOp :=
  match s.splitOn ":" with
  | [o] => (parseNat? o).map (fun n => ⟨n, none⟩)
  | [o, g] =>
    match parseNat? o, parseHex g with
    | some n, some gb => some ⟨n, some gb⟩
    | _, _ => none
  | _ => none

def parseOps (s : String) : Option (List DepOp) :=
  if s = "-" then some [] else (s.splitOn ",").mapM parseOp

def parseVer (s : String) : Option (Nat × List Nat) :=
  match s.splitOn ":" with
  | [b, v] =>
    match parseNat? b, parseCps v with
    | some n, some l => some (n, l)
    | _, _ => none
  | _ => none

def mkEdit (kind old new : String) : Option Edit :=
  match kind with
  | "guid" =>
    match parseHex old, parseHex new with
    | some a, some b => some { guid := fun g => if g = a then b else g }
    | _, _ => none
  | "name" =>
    match parseCps old, parseCps new with
    | some a, some b => some { name := fun n => if n = a then b else n }
    | _, _ => none
  | "ver" =>
    match parseVer old, parseVer new with
    | some a, some b => some { ver := fun v => if v = a then b else v }
    | _, _ => none
  | "depex" =>
    match parseOps old, parseOps new with
    | some a, some b => some { depex := fun d => if d = a then b else d }
    | _, _ => none
  | _ => none

/-- the listing of the files written for an NVAR store, digested over raw bytes (names may hold any byte) -/
def nvListing (store : Bytes) : String :=
  match Nvram.parseStore 0xFF store with
  | .error _ => "err"
  | .ok s =>
    let es := nvEntries (Nvram.depthFuel s) 0xFF [nameBios, hexStr 0, guidStr guidNVAR, decStr 0] s.entries
    let lines : List Bytes := es.map (fun e => joinPath e.1 ++ (s!" {e.2.length} {fnvOf e.2}").toUTF8.toList)
    let txt : Bytes := match lines with
      | [] => []
      | l :: ls => ls.foldl (fun acc x => acc ++ (0x3b : UInt8) :: x) l
    s!"ok {es.length}:{hex16 (Uefi.fnv1a txt)}"

/-- the hypotheses of `extract_dirsave_eq_direct_save` / `extract_edit_dirsave_eq_direct`, evaluated -/
def hypLine (b : Bytes) (e : Option Edit) : String :=
  match parseWith hooks (defaultFuel b) b {} with
  | .error er => "parse:" ++ errName er
  | .ok (t, st) =>
    let t' := match e with | some e => edit e t | none => t
    let bad := (if okTree t then [] else ["okTree"]) ++ (if pwTree t then [] else ["pwTree"]) ++
      (if TopPol st.pol t then [] else ["TopPol"]) ++ (if savedOkAll hooks t' st then [] else ["savedOkAll"]) ++
      -- follow-up wp-c07c: which part of the side condition fails
      (if d60Tree t' then [] else ["d60Tree"]) ++ (if restOkAll hooks t' st then [] else ["restOkAll"]) ++
      (if at256Tree t' then [] else ["at256Tree"]) ++ (if sizeOkAll hooks t' st then [] else ["sizeOkAll"])
    if bad.isEmpty then "ok" else "no:" ++ joinWith "," bad

def nvDirSave (store : Bytes) : String :=
  match Nvram.parseStore 0xFF store with
  | .error _ => "err"
  | .ok s =>
    match asmDirStore 0xFF (Nvram.depthFuel s) s with
    | .error _ => "err"
    | .ok r => s!"ok {fnvOf r.buf}:{r.buf.length}"

def rawListing (es : List (Bytes × Bytes)) : String :=
  let lines : List Bytes := es.map (fun e => e.1 ++ (s!" {e.2.length} {fnvOf e.2}").toUTF8.toList)
  let txt : Bytes := match lines with
    | [] => []
    | l :: ls => ls.foldl (fun acc x => acc ++ (0x3b : UInt8) :: x) l
  s!"ok {es.length}:{hex16 (Uefi.fnv1a txt)}"

/-- the whole extraction of an image whose RAW files may carry NVAR stores -/
def nvImage (b : Bytes) : String :=
  match parseWith (nvHooks Hooks.none 0xFF) (defaultFuel b) b {} with
  | .error er => "parse:" ++ errName er
  | .ok (t, _) => if exFault t then "ok ex=panic" else rawListing (extractDir t)

/-- (follow-up wp-c07c) the tree-level round trip with NVAR stores -/
def nvRt (what : String) (b : Bytes) : String :=
  let hP := c10Hooks Hooks.none 0xFF
  match parseWith hP (defaultFuel b) b {} with
  | .error er => "parse:" ++ errName er
  | .ok (t, st) =>
    match what with
    | "direct" => bytesLine (asmWith hP t st)
    | "load" => bytesLine (extractLoadAsmNv Hooks.none 0xFF goJunk t)
    | "ds" => bytesLine (extractSaveNv Hooks.none 0xFF hP goJunk t)
    | "hyp" =>
      let bad := (if okNvTree t then [] else ["okNvTree"]) ++ (if pwTree t then [] else ["pwTree"]) ++
        (if TopPol st.pol t then [] else ["TopPol"]) ++ (if nvUtf8Tree 0xFF t then [] else ["nvUtf8Tree"])
      if bad.isEmpty then "ok" else "no:" ++ joinWith "," bad
    | _ => "bad-op"

/-- (follow-up wp-c07c) the ME partition table -/
def meEntryText (e : MeEntry) : String :=
  s!"{toHex e.name}:{toHex e.owner}:{e.offset}:{e.length}:{joinWith "," (e.reserved.map toString)}:{e.flags}"

def meLine (fpt : Option MeFpt) (free : Nat) : String :=
  match fpt with
  | none => "nofpt"
  | some p =>
    s!"ok c={p.count} s={p.mapStart} n={p.entries.length} e={fnvStr (joinWith ";" (p.entries.map meEntryText))} f={free} b={p.buf.length}"

def meOp (what : String) (b : Bytes) : String :=
  match what with
  | "mefpt" => let r := meNewRegion b; meLine r.fpt r.free
  | "mereload" =>
    match meRoundTrip [] b with
    | .error _ => "err"
    | .ok r => meLine r.fpt r.free
  | "menames" =>
    match (meNewRegion b).fpt with
    | none => "nofpt"
    | some p => "ok " ++ joinWith "," (p.entries.map (fun e => toHex (jsonName (meNameMarshal e.name))))
  | _ => "bad-op"

def withBytes (s : String) (k : Bytes → String) : String :=
  match parseHex s with
  | some b => k b
  | none => "bad-op"

def handle : List String → String
  | ["rt", img] => withBytes img fun b => rtLine b none
  | ["edit", kind, old, new, img] =>
    match mkEdit kind old new with
    | none => "bad-op"
    | some e => withBytes img fun b => rtLine b (some e)
  | ["listing", img] => withBytes img fun b =>
    match parse hooks b with
    | .error e => errName e
    | .ok t => s!"ok {listingOf t}"
  | ["nvlisting", st] => withBytes st nvListing
  | ["nvimage", img] => withBytes img nvImage
  | ["nvdirsave", st] => withBytes st nvDirSave
  | ["nvrt", what, img] => withBytes img (nvRt what)
  | ["mefpt", rg] => withBytes rg (meOp "mefpt")
  | ["mereload", rg] => withBytes rg (meOp "mereload")
  | ["menames", rg] => withBytes rg (meOp "menames")
  | ["hyp", img] => withBytes img fun b => hypLine b none
  | ["hypedit", kind, old, new, img] =>
    match mkEdit kind old new with
    | none => "bad-op"
    | some e => withBytes img fun b => hypLine b (some e)
  | ["pdtree", img] => withBytes img fun b =>
    match parse hooks b with
    | .error e => errName e
    | .ok t =>
      match parseDir (extractDir t) goJunk (summaryOf t) with
      | .error e => errName e
      | .ok t' => s!"ok {dumpText t'}"
  | _ => "bad-op"

def main : IO Unit := loop handle
