/-
  Driver for property C09 (validate): the UEFI core model's parser followed by the model of
  `visitors.Validate` (FianoModel/Uefi/Validate.lean).

  Requests (one line; bytes as lower-case hex, "-" = empty):

    validate <hex>            uefi.Parse in a fresh process, then Validate.Run
                                → "ok <number of errors>"  |  "parse:<errclass>"
    validatex <hex>           → "ok <n> <error codes, comma separated | ->"  (for people; not compared)
    muts <hex> <p:v,p:v,…>    for each pair: the image with byte p replaced by v, parsed and validated;
                                → "ok <one character per pair>"   character = digit min(errors, 9)
                                  | E (parser returned an error) | P (panic) | F (fatal) | H (hang) | U (fuel)
    img <recipe…>             a grammar image (FianoModel/Uefi/Recipe.lean)
                                → "ok ser=<fnv>:<len> wf=<0|1> sound=<0|1> spec=<errors of validate (Spec.tree i) | ->
                                   impl=<errors of validate (parse (ser i)) | parse:<errclass>>"
                                  (spec is printed only when wf=1)
    imgmuts <p:v,…> <recipe…> `muts` on the serialisation of a grammar image → "ok <characters>"
    paths <hex>               every volume / file a path of `locTree` reaches (FianoModel/Uefi/ValidateLoc.lean):
                                → "ok <path@offset:kind:length:regular, comma separated | ->"  |  "parse:err"
                                  path = numbers joined by ".", kind v (volume header, HeaderLen) | f (file, size)
    imgpaths <recipe…>        `paths` on the serialisation of a grammar image
    why <hex> <p:v,…>         what theorem c09_alter_detected_image says about each alteration (`verdictAt`):
                                → "ok <one character per pair>"   T the theorem applies (detection is proved;
                                  `verdictAt_T_detected`) | n no node protects the byte | = value unchanged |
                                  s signature byte of a top-level volume | z `_FVH` appears at an earlier scan
                                  probe | f free-space marker | g flash signature changes | r irregular volume
                                  on the path | d the unaltered image does not parse and validate cleanly
    imgwhy <p:v,…> <recipe…>  `why` on the serialisation of a grammar image
  <errclass> ∈ err | panic | fatal | hang | fuel.   Anything else → "bad-op".
-/
import Driver.Common
import FianoModel.Uefi.Dump
import FianoModel.Uefi.Recipe
import FianoModel.Uefi.ValidateSpec
import FianoModel.Uefi.ValidateLoc

open Fiano Fiano.Uefi Driver

def hooks : Hooks := Hooks.none

def withBytes (s : String) (k : Bytes → String) : String :=
  match parseHex s with
  | some b => k b
  | none => "bad-op"

def codeName (e : VErr) : String := (reprStr e).replace "Fiano.Uefi.VErr." ""

def validateLine (b : Bytes) : String :=
  match parseValidate hooks b with
  | .error e => "parse:" ++ errName e
  | .ok es => s!"{es.length}"

def mutChar (b : Bytes) : Char :=
  match parseValidate hooks b with
  | .error .err => 'E'
  | .error .panic => 'P'
  | .error .fatal => 'F'
  | .error .hang => 'H'
  | .error .fuel => 'U'
  | .ok es => Char.ofNat (48 + min es.length 9)

def parseMuts (s : String) : Option (List (Nat × Nat)) :=
  if s = "-" then some [] else
  (s.splitOn ",").mapM fun m =>
    match m.splitOn ":" with
    | [p, v] => do
      let pn ← p.toNat?
      let vn ← v.toNat?
      if vn < 256 then some (pn, vn) else none
    | _ => none

/-- replace byte `p` of an array copy -/
def mutsLine (b : Bytes) (ms : List (Nat × Nat)) : String :=
  let arr := b.toArray
  if ms.any (fun m => m.1 ≥ arr.size) then "bad-op" else
  "ok " ++ String.ofList (ms.map fun (p, v) => mutChar (arr.set! p (UInt8.ofNat v)).toList)

def imgLine (r : String) : String :=
  match Recipe.parseImg r with
  | none => "bad-op"
  | some i =>
    let b := Spec.ser i
    let w := Spec.wf i
    let sp := if w then toString (validate (Spec.tree i) (Spec.stOf i)).length else "-"
    s!"ok ser={fnvOf b}:{b.length} wf={if w then 1 else 0} sound={if Spec.sound i then 1 else 0} spec={sp} impl={validateLine b}"

def handle : List String → String
  | ["validate", img] => withBytes img fun b =>
    match parseValidate hooks b with
    | .error e => "parse:" ++ errName e
    | .ok es => s!"ok {es.length}"
  | ["validatex", img] => withBytes img fun b =>
    match parseValidate hooks b with
    | .error e => "parse:" ++ errName e
    | .ok es => s!"ok {es.length} {orDash (joinWith "," (es.map codeName))}"
  | ["muts", img, ms] => withBytes img fun b =>
    match parseMuts ms with
    | some l => mutsLine b l
    | none => "bad-op"
  | "img" :: rest => imgLine (" ".intercalate rest)
  | "imgmuts" :: ms :: rest =>
    match parseMuts ms, Recipe.parseImg (" ".intercalate rest) with
    | some l, some i => mutsLine (Spec.ser i) l
    | _, _ => "bad-op"
  | ["paths", img] => withBytes img fun b => Fiano.Uefi.C09.pathsLine b
  | "imgpaths" :: rest =>
    match Recipe.parseImg (" ".intercalate rest) with
    | some i => Fiano.Uefi.C09.pathsLine (Spec.ser i)
    | none => "bad-op"
  | ["why", img, ms] => withBytes img fun b =>
    match parseMuts ms with
    | some l => if l.any (fun m => m.1 ≥ b.length) then "bad-op" else Fiano.Uefi.C09.whyLine b l
    | none => "bad-op"
  | "imgwhy" :: ms :: rest =>
    match parseMuts ms, Recipe.parseImg (" ".intercalate rest) with
    | some l, some i =>
      let b := Spec.ser i
      if l.any (fun m => m.1 ≥ b.length) then "bad-op" else Fiano.Uefi.C09.whyLine b l
    | _, _ => "bad-op"
  | _ => "bad-op"

def main : IO Unit := loop handle
