import Driver.Common
import FianoModel.Dxe.Model
import FianoModel.Dxe.UnfixedModel

/-!
  Line protocol of the C11 model driver.

    clean  <pol> <blacklist> <image> hist <history>      repaired code (Dxe/Model.lean)
    clean  <pol> <blacklist> <image> mono <required>
    cleanu <pol> <blacklist> <image> hist <history>      code before the repair (Dxe/UnfixedModel.lean)

  pol        ff | 00 (erase polarity: pad GUID all-FF / all-00) | f0 (unset: CreatePadFile fails)
  blacklist  GUID classes `3,5` or `-`;   required likewise
  image      volumes separated by `/`, files by `,`, a file is `<guidclass>.<kind>` with kind
             d (DRIVER) p (PEIM) x (PAD) o (other); `-` = empty volume.  Tags are the running
             file index over the whole image.  A GUID class is an abstract GUID identity (the harness maps
             it to 16 concrete bytes); classes 255 / 0 are the pad-file GUIDs all-FF / all-00.
  history    letters a=(true,nil) r=(false,nil) R=(false,err) c=(false,Canceled) C=(true,Canceled)
             e=(true,err); `-` = empty.  After the end: r.

  answer     <ok|err|fuel|panic-index|panic-nil> rem=<classes> img=<image> n=<tests> tr=<letter:image;…>
             where a file of the answer image is t<tag> (the original object) or p<tag>.<class>
             (a pad file created in its place).
-/

open Fiano.Dxe Driver

def guidUnit : Nat := 0x01010101010101010101010101010101
def guidOfClass (c : Nat) : Nat := c * guidUnit
def classOfGuid (g : Nat) : Nat := g / guidUnit

def parseList (s : String) : Option (List Nat) :=
  if s = "-" then some [] else (s.splitOn ",").mapM (·.toNat?)

def parseKind : String → Option Kind
  | "d" => some .driver | "p" => some .peim | "x" => some .pad | "o" => some .other | _ => none

def parseFile (s : String) : Option (Nat × Kind) :=
  match s.splitOn "." with
  | [g, k] => do
    let g ← g.toNat?
    if g > 255 then none else
    pure (guidOfClass g, ← parseKind k)
  | _ => none

def parseVol (s : String) : Option (List (Nat × Kind)) :=
  if s = "-" then some [] else (s.splitOn ",").mapM parseFile

/-- assign the running index as tag -/
def tagVols : Nat → List (List (Nat × Kind)) → Image
  | _, [] => []
  | n, v :: rest =>
    (v.zipIdx.map (fun (gk, i) => ({ guid := gk.1, tag := n + i, kind := gk.2 } : FileId)))
      :: tagVols (n + v.length) rest

def parseImage (s : String) : Option Image := do
  let vs ← (s.splitOn "/").mapM parseVol
  pure (tagVols 0 vs)

def parseRes : Char → Option TestResult
  | 'a' => some ⟨true, .none⟩ | 'r' => some ⟨false, .none⟩ | 'R' => some ⟨false, .other⟩
  | 'c' => some ⟨false, .canceled⟩ | 'C' => some ⟨true, .canceled⟩ | 'e' => some ⟨true, .other⟩
  | _ => none

def showRes (r : TestResult) : String :=
  match r.ok, r.err with
  | true, .none => "a" | false, .none => "r" | false, .other => "R"
  | false, .canceled => "c" | true, .canceled => "C" | true, .other => "e"

def parseHist (s : String) : Option (List TestResult) :=
  if s = "-" then some [] else s.toList.mapM parseRes

def parsePol : String → Option (Option Nat)
  | "ff" => some (some (guidOfClass 255)) | "00" => some (some 0) | "f0" => some none | _ => none

def showFile (orig : List FileId) (f : FileId) : String :=
  if orig.contains f then s!"t{f.tag}" else s!"p{f.tag}.{classOfGuid f.guid}"

def showVol (orig : List FileId) (v : Volume) : String :=
  if v.isEmpty then "-" else ",".intercalate (v.map (showFile orig))

def showImage (orig : List FileId) (img : Image) : String := "/".intercalate (img.map (showVol orig))

def showNats (l : List Nat) : String :=
  if l.isEmpty then "-" else ",".intercalate (l.map (fun g => toString (classOfGuid g)))

def showStatus : Status → String
  | .ok => "ok" | .noDxes => "err" | .testErr => "err" | .removeErr => "err" | .fuel => "fuel"

def showOut (orig : Image) (status : String) (img : Image) (removals : List Nat)
    (trace : List (TestResult × Image)) : String :=
  let o := orig.flatten
  let tr := if trace.isEmpty then "-" else
    ";".intercalate (trace.map (fun e => showRes e.1 ++ ":" ++ showImage o e.2))
  s!"{status} rem={showNats removals} img={showImage o img} n={trace.length} tr={tr}"

def handle : List String → String
  | ["clean", pol, bl, img, mode, arg] =>
    match parsePol pol, parseList bl, parseImage img with
    | some pg, some bl, some im =>
      let cand := cliCand (bl.map guidOfClass)
      match mode with
      | "hist" =>
        match parseHist arg with
        | some h =>
          let (s, st) := clean pg cand histOracle h im
          showOut im (showStatus s) st.img st.removals (st.trace.map (fun e => (e.res, e.shown)))
        | none => "bad-op"
      | "mono" =>
        match parseList arg with
        | some req =>
          let (s, st) := clean pg cand (monoOracle (req.map guidOfClass)) () im
          showOut im (showStatus s) st.img st.removals (st.trace.map (fun e => (e.res, e.shown)))
        | none => "bad-op"
      | _ => "bad-op"
    | _, _, _ => "bad-op"
  | ["cleanu", pol, bl, img, "hist", arg] =>
    match parsePol pol, parseList bl, parseImage img, parseHist arg with
    | some pg, some bl, some im, some h =>
      let r := Unfixed.clean pg (cliCand (bl.map guidOfClass)) h im
      showOut im (Unfixed.showStatus r.status) r.img r.removals r.trace
    | _, _, _, _ => "bad-op"
  | ["cleanu-status", pol, bl, img, "hist", arg] =>
    match parsePol pol, parseList bl, parseImage img, parseHist arg with
    | some pg, some bl, some im, some h =>
      Unfixed.showStatus (Unfixed.clean pg (cliCand (bl.map guidOfClass)) h im).status
    | _, _, _, _ => "bad-op"
  | _ => "bad-op"

def main : IO Unit := loop handle
