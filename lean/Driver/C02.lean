/-
  Driver of property C02 (every written image is a valid image of the same size): the edit-operation
  model, the model of create-fv, and the independent reader.  The protocol is documented in
  FianoModel/Uefi/EditDrv.lean and FianoModel/Uefi/CreateFvDrv.lean.
-/
import Driver.Common
import FianoModel.Uefi.CreateFvDrv

def main : IO Unit := Driver.loop Fiano.Uefi.CreateFvDrv.handle
