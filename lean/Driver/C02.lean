/-
  Driver of property C02 (every written image is a valid image of the same size): the edit-operation
  model, the model of create-fv, nvram-compact on C10's model of the NVAR store, and the independent
  reader.  The protocol is documented in FianoModel/Uefi/EditDrv.lean, FianoModel/Uefi/CreateFvDrv.lean
  and FianoModel/Uefi/EditValidOpsDrv.lean.
-/
import Driver.Common
import FianoModel.Uefi.EditValidOpsDrv

def main : IO Unit := Driver.loop Fiano.Uefi.EditValidOpsDrv.handle
