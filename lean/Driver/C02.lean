/-
  Driver of property C02 (every written image is a valid image of the same size): the edit-operation
  model and the independent reader.  The protocol is documented in FianoModel/Uefi/EditDrv.lean.
-/
import Driver.Common
import FianoModel.Uefi.EditDrv

def main : IO Unit := Driver.loop Fiano.Uefi.EditDrv.handle
