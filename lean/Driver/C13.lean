import Driver.Common
import FianoModel.Fmap.Model

open Fiano Fiano.Fmap Driver

/-- map syntax on the wire:  vM,vm,base,size,namehex,nAreas,sighex[;off,size,namehex,flags]*  -/
def parseMap (s : String) : Option FMap := do
  let parts := s.splitOn ";"
  let hd ← parts.head?
  match hd.splitOn "," with
  | [vM, vm, base, size, name, n, sig] =>
    let h : Header := { sig := ← parseHex sig, verMajor := ← vM.toNat?, verMinor := ← vm.toNat?,
                        base := ← base.toNat?, size := ← size.toNat?, name := ← parseHex name,
                        nAreas := ← n.toNat? }
    let as ← parts.tail.mapM (fun a => match a.splitOn "," with
      | [o, sz, nm, fl] => do
        pure ({ offset := ← o.toNat?, size := ← sz.toNat?, name := ← parseHex nm, flags := ← fl.toNat? } : Area)
      | _ => none)
    pure { hdr := h, areas := as }
  | _ => none

def showMap (f : FMap) : String :=
  let h := f.hdr
  let hd := s!"{h.verMajor},{h.verMinor},{h.base},{h.size},{toHex h.name},{h.nAreas},{toHex h.sig}"
  f.areas.foldl (fun acc a => acc ++ s!";{a.offset},{a.size},{toHex a.name},{a.flags}") hd

def showErr : Err → String
  | .eof => "eof" | .sigNotFound => "notfound" | .multipleFound => "multiple"
  | .range => "range" | .tooLarge => "toolarge" | .io => "io"

def parseInt (s : String) : Option Int :=
  if s.startsWith "-" then (s.drop 1).toNat?.map (fun n => - (n : Int)) else s.toNat?.map (fun n => (n : Int))

def handle : List String → String
  | ["read", img] =>
    match parseHex img with
    | none => "bad-op"
    | some d => match read d with
      | .ok (f, s) => s!"ok {s} {showMap f}"
      | .error _ => "err"
  | ["write", img, start, m] =>
    match parseHex img, start.toNat?, parseMap m with
    | some d, some s, some f => match write d f s with
      | .ok d' => s!"ok {toHex d'}"
      | .error e => s!"err {showErr e}"
    | _, _, _ => "bad-op"
  | ["readarea", img, m, i] =>
    match parseHex img, parseMap m, parseInt i with
    | some d, some f, some i => match readArea f d i with
      | .ok (b, short) => s!"ok {toHex b} {short}"
      | .error e => s!"err {showErr e}"
    | _, _, _ => "bad-op"
  | ["writearea", img, m, i, data] =>
    match parseHex img, parseMap m, parseInt i, parseHex data with
    | some d, some f, some i, some x => match writeArea f d i x with
      | .ok d' => s!"ok {toHex d'}"
      | .error e => s!"err {showErr e}"
    | _, _, _, _ => "bad-op"
  | ["checksum", img, m] =>
    match parseHex img, parseMap m with
    | some d, some f => match checksum f d id with
      | .ok w => s!"ok {toHex w}"
      | .error e => s!"err {showErr e}"
    | _, _ => "bad-op"
  | _ => "bad-op"

def main : IO Unit := loop handle
