/-
  Driver for property C04 (the parsed tree accounts for every input byte, once).

  Requests (one line, words separated by spaces; bytes as lower-case hex, "-" = empty):

    parse <hex> <dd> c10 <codecs>       uefi.Parse in a fresh process
                                          → "ok <tree digest> <node count> <x digest>"  |  "<errclass>"
    parsetree <hex> <dd> c10 <codecs>   → "ok <canonical pre-order dump> || <extended dump>"   |  "<errclass>"
    nvar <pol> <hex>                    NewNVarStore under erase polarity <pol> (decimal)
                                          → "ok <store line>" | "err"
    mefpt <hex>                         NewMEFPT + FreeSpaceOffset → "<table line>"

  <errclass> ∈ err | panic | fatal | hang | fuel | pol-mismatch.  Dump format: FianoModel/Uefi/Dump.lean
  (= harness/props/uefi/dump.go); extended dump (NVAR stores, ME partition tables): FianoModel/Uefi/DumpC04.lean
  (= harness/props/c04/xdump.go); <x digest> is the FNV-1a of the extended dump.

  The configuration words are the parser's switches and the behaviour of the one part the UEFI core
  model still treats as a parameter, the decompressors:
    <dd>      0 | 1                  uefi.DisableDecompression
    c10       the NVAR hook is C10's model of NewNVarStore: the driver runs the model function `parseC10`
              (FaithfulNvarHook.lean).  The NVAR parser needs the erase polarity in force, which the parse
              itself fixes (first volume): `parseC10` parses under 0xFF, and when the parse ends with
              another polarity, parses again under that one; the answer is given only if the second run
              ends with the polarity it assumed, else "pol-mismatch".
    <codecs>  "-" | e,e,…            codec hook: e = <fnv1a-64 of the decoder's input>:<input length>:<out hex | !>
                                     ("!" = the decoder returned an error); an input that is not listed
                                     decodes to an error.  The codec *names* and GUIDs are the model's
                                     own (Spec.codecGuids, tied to pkg/compression by Uefi/Tie.lean).
  Anything else → "bad-op".
-/
import Driver.Common
import FianoModel.Uefi.Dump
import FianoModel.Uefi.Spec
import FianoModel.Uefi.DumpC04

open Fiano Fiano.Uefi Driver

structure CodecEntry where
  key : String          -- fnv:len of the input
  out : Option Bytes

def keyOf (b : Bytes) : String := s!"{fnvOf b}:{b.length}"

def parseCodecs (s : String) : Option (List CodecEntry) :=
  if s = "-" then some [] else
  (s.splitOn ",").mapM (fun e =>
    match e.splitOn ":" with
    | [f, l, o] =>
      if o = "!" then some ⟨f ++ ":" ++ l, none⟩
      else (parseHex o).map (fun b => ⟨f ++ ":" ++ l, some b⟩)
    | _ => none)

def codecNames : List String := ["BROTLI", "LZMA", "LZMAX86", "ZLIB"]

def lookupCodec (tbl : List CodecEntry) (x : Bytes) : Option Bytes :=
  let k := keyOf x
  match tbl.find? (fun e => e.key == k) with
  | some e => e.out
  | none => none

/-- hooks without NVAR parser (the caller wraps them with `nvHooks`) -/
def mkHooks (dd : Bool) (tbl : List CodecEntry) : Hooks :=
  { codec := fun g =>
      match (Spec.codecGuids.zip codecNames).find? (fun p => p.1 == g) with
      | some (_, name) => some { name := name, decode := lookupCodec tbl, encode := fun _ => none }
      | none => none
    disableDecompression := dd }

/-- `uefi.Parse` in a fresh process with C10's `NewNVarStore` as the NVAR hook: the model's `parseC10`
    (FaithfulNvarHook.lean; theorem `parse_c10_faithful` of Props/C04.lean is about exactly this function);
    `Sum.inl` = error class -/
def runC10 (h0 : Hooks) (b : Bytes) : Sum String (Tree × UInt8) :=
  match parseC10 h0 (defaultFuel b) b {} with
  | .ok r => .inr r
  | .error (some e) => .inl (errName e)
  | .error none => .inl "pol-mismatch"

def withArgs (img dd nv cs : String) (k : Bytes → Hooks → String) : String :=
  match parseHex img, parseCodecs cs with
  | some b, some c =>
    if nv ≠ "c10" then "bad-op"
    else if dd = "0" then k b (mkHooks false c)
    else if dd = "1" then k b (mkHooks true c)
    else "bad-op"
  | _, _ => "bad-op"

def handle : List String → String
  | ["parse", img, dd, nv, cs] => withArgs img dd nv cs fun b h =>
    match runC10 h b with
    | .inr (t, p) => s!"ok {digestOf t} {(dumpTree t).length} {DumpC04.xDigest p t}"
    | .inl e => e
  | ["parsetree", img, dd, nv, cs] => withArgs img dd nv cs fun b h =>
    match runC10 h b with
    | .inr (t, p) => s!"ok {dumpText t} || {DumpC04.xText p t}"
    | .inl e => e
  | ["nvar", pol, img] =>
    match pol.toNat?, parseHex img with
    | some p, some b =>
      if p ≥ 256 then "bad-op" else
      match Nvram.parseStore p b with
      | .ok s => "ok " ++ DumpC04.showStore p (s.length + 2) s
      | .error _ => "err"
    | _, _ => "bad-op"
  | ["mefpt", img] =>
    match parseHex img with
    | some b => DumpC04.showFpt b
    | none => "bad-op"
  | _ => "bad-op"

def main : IO Unit := loop handle
