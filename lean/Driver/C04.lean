/-
  Driver for property C04 (the parsed tree accounts for every input byte, once).

  Requests (one line, words separated by spaces; bytes as lower-case hex, "-" = empty):

    parse <hex> <dd> <nv> <codecs>       uefi.Parse in a fresh process
                                           → "ok <tree digest> <node count>"  |  "<errclass>"
    parsetree <hex> <dd> <nv> <codecs>   → "ok <canonical pre-order dump>"   |  "<errclass>"

  <errclass> ∈ err | panic | fatal | hang | fuel.  Dump format: FianoModel/Uefi/Dump.lean
  (= harness/props/uefi/dump.go).

  The three extra words are the parser's configuration and the behaviour of the parts the UEFI core
  model treats as parameters (`Hooks`), as observed by the harness on the implementation:
    <dd>      0 | 1                  uefi.DisableDecompression
    <nv>      "-" | k,k,…            NVAR hook: k = <fnv1a-64 of the body, 16 hex>:<body length> of every
                                     RAW/NVAR-GUID file body on which NewNVarStore succeeded
    <codecs>  "-" | e,e,…            codec hook: e = <fnv1a-64 of the decoder's input>:<input length>:<out hex | !>
                                     ("!" = the decoder returned an error); an input that is not listed
                                     decodes to an error.  The codec *names* and GUIDs are the model's
                                     own (Spec.codecGuids, tied to pkg/compression by Uefi/Tie.lean).
  Anything else → "bad-op".
-/
import Driver.Common
import FianoModel.Uefi.Dump
import FianoModel.Uefi.Spec

open Fiano Fiano.Uefi Driver

structure CodecEntry where
  key : String          -- fnv:len of the input
  out : Option Bytes

def keyOf (b : Bytes) : String := s!"{fnvOf b}:{b.length}"

def parseCodecs (s : String) : Option (List CodecEntry) :=
  if s = "-" then some [] else
  (s.splitOn ",").mapM (fun e =>
    match e.splitOn ":" with
    | [f, l, o] =>
      if o = "!" then some ⟨f ++ ":" ++ l, none⟩
      else (parseHex o).map (fun b => ⟨f ++ ":" ++ l, some b⟩)
    | _ => none)

def parseNv (s : String) : Option (List String) :=
  if s = "-" then some [] else
  (s.splitOn ",").mapM (fun e =>
    match e.splitOn ":" with
    | [f, l] => some (f ++ ":" ++ l)
    | _ => none)

def codecNames : List String := ["BROTLI", "LZMA", "LZMAX86", "ZLIB"]

def lookupCodec (tbl : List CodecEntry) (x : Bytes) : Option Bytes :=
  let k := keyOf x
  match tbl.find? (fun e => e.key == k) with
  | some e => e.out
  | none => none

def mkHooks (dd : Bool) (nv : List String) (tbl : List CodecEntry) : Hooks :=
  { codec := fun g =>
      match (Spec.codecGuids.zip codecNames).find? (fun p => p.1 == g) with
      | some (_, name) => some { name := name, decode := lookupCodec tbl, encode := fun _ => none }
      | none => none
    disableDecompression := dd
    nvarParse := fun body => if nv.contains (keyOf body) then some ⟨body, body.length⟩ else none }

def withArgs (img dd nv cs : String) (k : Bytes → Hooks → String) : String :=
  match parseHex img, parseNv nv, parseCodecs cs with
  | some b, some n, some c =>
    if dd = "0" then k b (mkHooks false n c)
    else if dd = "1" then k b (mkHooks true n c)
    else "bad-op"
  | _, _, _ => "bad-op"

def handle : List String → String
  | ["parse", img, dd, nv, cs] => withArgs img dd nv cs fun b h =>
    match parse h b with
    | .ok t => s!"ok {digestOf t} {(dumpTree t).length}"
    | .error e => errName e
  | ["parsetree", img, dd, nv, cs] => withArgs img dd nv cs fun b h =>
    match parse h b with
    | .ok t => s!"ok {dumpText t}"
    | .error e => errName e
  | _ => "bad-op"

def main : IO Unit := loop handle
