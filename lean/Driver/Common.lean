/-
  Shared line-protocol plumbing of the model drivers: one request line in, one answer line out.
  Bytes travel as lower-case hex ("-" = empty).  Core Lean only.
-/
import FianoModel.Base.Bytes

namespace Driver
open Fiano

def hexDigit (n : Nat) : Char :=
  if n < 10 then Char.ofNat (48 + n) else Char.ofNat (87 + n)

def toHex (b : Bytes) : String :=
  if b.isEmpty then "-" else
  String.ofList (b.foldr (fun x acc => hexDigit (x.toNat / 16) :: hexDigit (x.toNat % 16) :: acc) [])

def hexVal (c : Char) : Option Nat :=
  if '0' ≤ c ∧ c ≤ '9' then some (c.toNat - 48)
  else if 'a' ≤ c ∧ c ≤ 'f' then some (c.toNat - 87)
  else if 'A' ≤ c ∧ c ≤ 'F' then some (c.toNat - 55)
  else none

def parseHexChars : List Char → Bytes → Option Bytes
  | [], acc => some acc.reverse
  | [_], _ => none
  | a :: b :: rest, acc =>
    match hexVal a, hexVal b with
    | some x, some y => parseHexChars rest (UInt8.ofNat (16 * x + y) :: acc)
    | _, _ => none

def parseHex (s : String) : Option Bytes :=
  if s = "-" then some [] else parseHexChars s.toList []

def words (line : String) : List String :=
  (line.splitOn " ").filter (· ≠ "") |>.map (fun s => (s.replace "\n" "").replace "\r" "")
    |>.filter (· ≠ "")

/-- FNV-1a 64-bit digest, for large outputs -/
def fnv1a (b : Bytes) : UInt64 :=
  b.foldl (fun h x => (h ^^^ x.toUInt64) * 0x100000001b3) 0xcbf29ce484222325

partial def loop (handle : List String → String) : IO Unit := do
  let stdin ← IO.getStdin
  let stdout ← IO.getStdout
  let rec go : IO Unit := do
    let line ← stdin.getLine
    if line.isEmpty then return ()
    let out := handle (words line)
    stdout.putStrLn out
    stdout.flush
    go
  go

end Driver
