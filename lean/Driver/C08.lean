/-
  Model driver for C08 (pkg/compression): one request line in, one answer line out.

    conv <enc 0|1> <ip> <state> <hex>                      -> "<hex> <pos> <state>"
    enum <enc 0|1> <ip> <state> <len> <from> <count>       -> "<fnv64 decimal>"  digest over the
         results for the strings number from .. from+count-1 of the given length over the
         reduced alphabet (base-7 numbering, most significant digit first)
    rt   <ip> <state> <hex>                                -> decode(encode x): "<hex> <pos> <state>"
    bcjfnv <enc 0|1> <hex>                                 -> "<len> <fnv64>" of the filter output (ip 0, state 0)
    zlibhdr <n>                                            -> hex of the 256-byte ZLIB section header for a payload of n bytes
    zlibdec <hex>                                          -> "ok <payload len> <fnv64 payload>" | "err"   (framing checks of ZLIB.Decode)
    lzmapatch <hex> <n>                                    -> "ok <hex>" | "fault"   (size n patched into an .lzma stream)
    lzmahdr <n>                                            -> hex of the 13-byte .lzma header for n input bytes
-/
import Driver.Common
import FianoModel.Compress.X86
import FianoModel.Compress.Framing

open Fiano Fiano.Compress Driver

/-- reduced alphabet of the exhaustive enumeration (same order in harness/props/c08) -/
def alphabet : Array UInt8 := #[0x00, 0xFF, 0xE8, 0xE9, 0x7F, 0x80, 0x01]

/-- the `idx`-th string of length `len` (base-7 digits, most significant first) -/
def nthString (len idx : Nat) : Bytes :=
  let rec go : Nat → Nat → Bytes → Bytes
    | 0, _, acc => acc
    | k+1, n, acc => go k (n / 7) (alphabet[n % 7]! :: acc)
  go len idx []

def fnvStep (h : UInt64) (x : UInt8) : UInt64 := (h ^^^ x.toUInt64) * 0x100000001b3

def fnvResult (h : UInt64) (r : X86.Result) : UInt64 :=
  let h := r.data.foldl fnvStep h
  let h := fnvStep h r.pos.toUInt8
  let h := fnvStep h r.state.toUInt8
  fnvStep h 0xA5

def showResult (r : X86.Result) : String := s!"{toHex r.data} {r.pos} {r.state.toNat}"

def parseBool (s : String) : Option Bool := if s = "1" then some true else if s = "0" then some false else none

def parseU32 (s : String) : Option UInt32 := do
  let n ← s.toNat?
  if n < 4294967296 then some (UInt32.ofNat n) else none

def handle : List String → String
  | ["conv", enc, ip, st, hex] =>
    match parseBool enc, parseU32 ip, parseU32 st, parseHex hex with
    | some e, some ip, some st, some d => showResult (X86.x86Convert d ip st e)
    | _, _, _, _ => "bad-op"
  | ["rt", ip, st, hex] =>
    match parseU32 ip, parseU32 st, parseHex hex with
    | some ip, some st, some d =>
      showResult (X86.x86Convert (X86.x86Convert d ip st true).data ip st false)
    | _, _, _ => "bad-op"
  | ["enum", enc, ip, st, len, from_, count] =>
    match parseBool enc, parseU32 ip, parseU32 st, len.toNat?, from_.toNat?, count.toNat? with
    | some e, some ip, some st, some len, some lo, some cnt =>
      let h := (List.range cnt).foldl (fun h i => fnvResult h (X86.x86Convert (nthString len (lo + i)) ip st e))
        (0xcbf29ce484222325 : UInt64)
      toString h.toNat
    | _, _, _, _, _, _ => "bad-op"
  | ["bcjfnv", enc, hex] =>
    match parseBool enc, parseHex hex with
    | some e, some d =>
      let r := X86.x86Convert d 0 0 e
      s!"{r.data.length} {(fnv1a r.data).toNat}"
    | _, _ => "bad-op"
  | ["zlibhdr", n] =>
    match n.toNat? with
    | some n => toHex (zlibHeader n)
    | none => "bad-op"
  | ["zlibdec", hex] =>
    match parseHex hex with
    | some e => match zlibDecode stored e with
      | some p => s!"ok {p.length} {(fnv1a p).toNat}"
      | none => "err"
    | none => "bad-op"
  | ["lzmapatch", hex, n] =>
    match parseHex hex, n.toNat? with
    | some o, some n => match patchSize o n with
      | .ok b => s!"ok {toHex b}"
      | .err => "err"
      | .fault => "fault"
    | _, _ => "bad-op"
  | ["lzmahdr", n] =>
    match n.toNat? with
    | some n => toHex (lzmaHeader n)
    | none => "bad-op"
  | _ => "bad-op"

def main : IO Unit := loop handle
