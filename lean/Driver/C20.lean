/-
  drv_c20 — runs the GoM totality models on the inputs the harness gave to the real Go code.

    run <op> <hex> [args]        ->  ok | err | panic:<site> | fuel      (psb.pspbinary: err | reach | nokey | invalid;
                                      finer on success: fit.entries ok:<len|E per entry>, me.parse ok:legacy=..,n=..,
                                      microcode.parse ok:data=..,ext=.., psb.dbkeys ok:n=..)
    le <goAlloc> <op> <hex> [args] -> ok   when the model's final allocation meter is <= goAlloc
                                         (or the run ended in an error: `GoM` drops the meter then)
                                      model-alloc=<n> otherwise

  ops:  fmap.read <img> | fmap.readarea <img> <i> | fmap.writearea <img> <i> <n> | fmap.write <img> <start>
        microcode.parse <b> | me.parse <b> | fsp.header <b> | fit.entries <img> | fit.sacm <b>
        psb.rootkey <b> | psb.dbkeys <b> | psb.pspbinary <b> <keys>     keys = idhex:modbits:expbits,… or -
        psb.tokenkey <b> <sigLen|none> <ok|err>                          (signing key's modulus length; RSA verdict)
        zlib.decode <b> <ok|err> | brotli.decode <b> <ok|err>            (verdict of the third-party decoder)
        apcb.parse <b> -> ok:n=<tokens>  |  cbfs.image <img> -> ok:n=<records>
  Every model runs with the budget of the theorems, 64·|input| + 16 MiB.
-/
import Driver.Common
import FianoModel.Fmap.Total
import FianoModel.Microcode.Total
import FianoModel.Me.Total
import FianoModel.Fsp.Total
import FianoModel.Fit.Total
import FianoModel.Psb.Total
import FianoModel.Compression.Total
import FianoModel.Total.Apcb
import FianoModel.Total.Cbfs

open Fiano Fiano.GoM Driver

def budget (n : Nat) : Nat := 64 * n + 16777216

def outcome {α} (r : Except Fault (α × Meter)) (okClass : α → String := fun _ => "ok") : String × Nat :=
  match r with
  | .ok (a, m) => (okClass a, m.alloc)
  | .error .err => ("err", 0)
  | .error (.panic s) => ("panic:" ++ s.replace " " "_", 0)
  | .error .fuel => ("fuel", 0)

def parseInt (s : String) : Option Int :=
  if s.startsWith "-" then (s.drop 1).toNat?.map (fun n => - (n : Int)) else s.toNat?.map (fun n => (n : Int))

def parseKeys (s : String) : Option (List PsbTotal.KeyInfo) :=
  if s = "-" then some [] else
  (s.splitOn ",").mapM (fun k => match k.splitOn ":" with
    | [id, mb, eb] => do
      pure { id := ← parseHex id, modBits := ← mb.toNat?, expBits := ← eb.toNat? }
    | _ => none)

def parseVerdict (s : String) : Option (Bytes → Option Bytes) :=
  if s = "ok" then some (fun _ => some []) else if s = "err" then some (fun _ => none) else none

def exec : List String → Option (String × Nat)
  | ["fmap.read", h] => do
    let b ← parseHex h
    pure (outcome (Fmap.readG (budget b.length) b {}))
  | ["fmap.readarea", h, i] => do
    let b ← parseHex h
    let i ← parseInt i
    pure (outcome (Fmap.readThenAreaG (budget b.length) b i {}))
  | ["fmap.writearea", h, i, n] => do
    let b ← parseHex h
    let i ← parseInt i
    let n ← n.toNat?
    pure (outcome (Fmap.readThenWriteAreaG (budget b.length) b i (List.replicate n 0xa5) {}))
  | ["fmap.write", h, st] => do
    let b ← parseHex h
    let st ← st.toNat?
    -- Write seeks to int64(m.Start): a negative position is refused by the seeker
    if st ≥ 9223372036854775808 then
      pure (outcome ((do let _ ← Fmap.readG (budget b.length) b; GoM.err : GoM Bytes) {}))
    else pure (outcome (Fmap.readThenWriteG (budget b.length) b st {}))
  | ["microcode.parse", h] => do
    let b ← parseHex h
    pure (outcome (Microcode.parseG (budget b.length) b {})
      (fun p => s!"ok:data={p.data.length},ext={(p.ext.length - 20) / 12}"))
  | ["me.parse", h] => do
    let b ← parseHex h
    pure (outcome (Me.parseG (budget b.length) b {}) (fun p => s!"ok:legacy={p.legacy},n={p.partitions.length}"))
  | ["fsp.header", h] => do
    let b ← parseHex h
    pure (outcome (Fsp.newInfoHeaderG b {}))
  | ["fit.entries", h] => do
    let b ← parseHex h
    -- per entry: length of the attached data segment, or E when an error was recorded for it
    pure (outcome (FitTotal.getEntriesG (budget b.length) b {})
      (fun es => "ok:" ++ ",".intercalate (es.map (fun e => if e.2 then "E" else toString e.1.length))))
  | ["fit.sacm", h] => do
    let b ← parseHex h
    pure (outcome (FitTotal.parseSACMG (budget b.length) b {}))
  | ["psb.rootkey", h] => do
    let b ← parseHex h
    pure (outcome (PsbTotal.rootKeyG (budget b.length) b {}))
  | ["psb.tokenkey", h, sl, v] => do
    -- sl = modulus length of the signing key the key set holds for CertifyingKeyID ("none" = not found),
    -- v  = outcome of the RSA check (a parameter of the model: not byte parsing)
    let b ← parseHex h
    let sl ← if sl = "none" then some none else sl.toNat?.map some
    let v ← if v = "ok" then some "ok" else if v = "err" then some "err" else none
    pure (outcome (PsbTotal.tokenKeyG (budget b.length + sl.getD 0) sl b {}) (fun _ => v))
  | ["psb.dbkeys", h] => do
    let b ← parseHex h
    pure (outcome (PsbTotal.dbLoopG (budget b.length) (b.length + 1) b [] {}) (fun ids => s!"ok:n={ids.length}"))
  | ["psb.pspbinary", h, ks] => do
    let b ← parseHex h
    let ks ← parseKeys ks
    pure (outcome (PsbTotal.validateEntryG (budget b.length) ks b {})
      (fun v => match v with | .reach _ _ => "reach" | .nokey => "nokey" | .invalid => "invalid"))
  | ["apcb.parse", h] => do
    let b ← parseHex h
    pure (outcome (ApcbTotal.parseG (budget b.length) b {}) (fun n => s!"ok:n={n}"))
  | ["cbfs.image", h] => do
    let b ← parseHex h
    pure (outcome (CbfsTotal.newImageG (budget b.length) b {}) (fun n => s!"ok:n={n}"))
  | ["zlib.decode", h, v] => do
    let b ← parseHex h
    let dec ← parseVerdict v
    pure (outcome (CompressionTotal.zlibDecodeG dec b {}))
  | ["brotli.decode", h, v] => do
    let b ← parseHex h
    let dec ← parseVerdict v
    pure (outcome (CompressionTotal.brotliDecodeG dec b {}))
  | _ => none

def handle : List String → String
  | "run" :: rest =>
    match exec rest with
    | some (c, _) => c
    | none => "bad-op"
  | "le" :: g :: rest =>
    match g.toNat?, exec rest with
    | some g, some (_, a) => if a ≤ g then "ok" else s!"model-alloc={a}"
    | _, _ => "bad-op"
  | _ => "bad-op"

def main : IO Unit := loop handle
