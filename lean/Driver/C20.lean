/-
  drv_c20 — runs the GoM totality models on the inputs the harness gave to the real Go code.

    run <op> <hex> [args]        ->  ok | err | panic:<site> | fuel      (psb.pspbinary: err | reach | nokey | invalid;
                                      finer on success: fit.entries ok:<len|E per entry>, me.parse ok:legacy=..,n=..,
                                      microcode.parse ok:data=..,ext=.., psb.dbkeys ok:n=..)
    le <goAlloc> <op> <hex> [args] -> ok   when the model's final allocation meter is <= goAlloc
                                         (or the run ended in an error: `GoM` drops the meter then)
                                      model-alloc=<n> otherwise

  ops:  fmap.read <img> | fmap.readarea <img> <i> | fmap.writearea <img> <i> <n> | fmap.write <img> <start>
        microcode.parse <b> | me.parse <b> | fsp.header <b> | fit.entries <img> | fit.sacm <b>
        psb.rootkey <b> | psb.dbkeys <b> | psb.pspbinary <b> <keys>     keys = idhex:modbits:expbits,… or -
        psb.tokenkey <b> <sigLen|none> <ok|err>                          (signing key's modulus length; RSA verdict)
        zlib.decode <b> <ok|err> | brotli.decode <b> <ok|err>            (verdict of the third-party decoder)
        apcb.parse <b> -> ok:n=<tokens>  |  cbfs.image <img> -> ok:n=<records>
        manifest.read <T> <b> -> ok:n=<bytes counted by ReadFrom>        T = qualified name of one of the 33 generated
                                                                         structures (cbnt.Key, cbntbootpolicy.Manifest …);
                                                                         the layout is built from Gen/Manifest.lean
        manifest.chipset <b>  -> ok:n=<bytes counted> | err                 cbnt.ParseChipsetACModuleInformation
        manifest.memsize <T>  -> ok:<unsafe.Sizeof(T{})>                 (what make([]T, count) allocates per item)
        amd.firmware <region> <pre> <total> -> err | ok:efs=<off>;p1=<off>+<len>/<entries>;p2=…;b1=…;b2=…;x=<r,r,…>
              the region placed at `pre` in a zero image of `total` bytes (as harness/props/c20/ep_amd.go does);
              ParseAMDFirmware, then Extract / Patch of PSP types 0,0x12,0x50,0x0a and BIOS types 0x62,5,7 (instances 0,1)
              on both levels and GetEntries(0x12, 0x62) on the four directories: length | E (error) | S (patch skipped)
        fit.inject <img> <headersOffset> <0|1> -> err (GetEntries failed) | ok:<fnv> | err:<fnv>
              GetEntries, RecalculateHeaders when the flag is 1 (going on after its error), Inject into a copy of the
              image; <fnv> = FNV-1a (64 bit, decimal) of the image afterwards
        fit.record <b> -> v=E | v=<1|2>;km=<ok:n=..|err>;bpm=<ok:n=..|err>
              bgheader.DetectBGV, then ReadFrom of the key manifest and of the boot policy manifest of that version
        amd.getkeys <region> <total> <level> <ok|err> -> err (no EFS) | k:<ok|err>;r=<n|E>;rk=<ok|E|->;d=<n|E|->;v=<reach|nokey|invalid|E|->
              the region padded with zeros to `total` bytes; ParseAMDFirmware, GetKeys(level) with every signature
              check answering the given verdict (k), and the stages GetKeys is made of, each on its own: the root-key
              entry, NewRootKey, the key-database entry, newPSPBinary + getSignedBlob with the root key as key set
        amd.tables <b> -> t:<6 bits>    ParsePSP, ParseBIOS, FindPSP, FindBIOS, ParseEFS, FindEFS directly on the bytes
              the BIOS pre-check uses the regenerated constant Gen.AmdManifest.BIOSDirectoryTableEntrySize
  Every model runs with the budget of the theorems, 64·|input| + 16 MiB.
-/
import Driver.Common
import FianoModel.Fmap.Total
import FianoModel.Microcode.Total
import FianoModel.Me.Total
import FianoModel.Fsp.Total
import FianoModel.Fit.Total
import FianoModel.Psb.Total
import FianoModel.Compression.Total
import FianoModel.Total.Apcb
import FianoModel.Total.Cbfs
import FianoModel.Total.Manifest
import FianoModel.Manifest.Build
import FianoModel.Gen.Manifest
import FianoModel.Gen.C20MfCbnt
import FianoModel.Total.AmdEntries
import FianoModel.Total.AmdKeys
import FianoModel.Gen.AmdManifest
import FianoModel.Fit.TotalInject

open Fiano Fiano.GoM Driver

def budget (n : Nat) : Nat := 64 * n + 16777216

def outcome {α} (r : Except Fault (α × Meter)) (okClass : α → String := fun _ => "ok") : String × Nat :=
  match r with
  | .ok (a, m) => (okClass a, m.alloc)
  | .error .err => ("err", 0)
  | .error (.panic s) => ("panic:" ++ s.replace " " "_", 0)
  | .error .fuel => ("fuel", 0)

def parseInt (s : String) : Option Int :=
  if s.startsWith "-" then (s.drop 1).toNat?.map (fun n => - (n : Int)) else s.toNat?.map (fun n => (n : Int))

def parseKeys (s : String) : Option (List PsbTotal.KeyInfo) :=
  if s = "-" then some [] else
  (s.splitOn ",").mapM (fun k => match k.splitOn ":" with
    | [id, mb, eb] => do
      pure { id := ← parseHex id, modBits := ← mb.toNat?, expBits := ← eb.toNat? }
    | _ => none)

def parseVerdict (s : String) : Option (Bytes → Option Bytes) :=
  if s = "ok" then some (fun _ => some []) else if s = "err" then some (fun _ => none) else none

/-! the 33 manifest layouts, built from the regenerated declarations (as Driver/C15.lean does) -/

def mfSrc : Manifest.Sources :=
  { decls := Fiano.Gen.Manifest.decls, countExprs := Fiano.Gen.Manifest.countExprs,
    helpers := Fiano.Gen.Manifest.rehashHelpers }

def mfStrictOf (q : String) : Bool :=
  match Fiano.Gen.Manifest.codecs.find? (·.name == q) with
  | some c => match c.container with | some g => g.strictOrder | none => true
  | none => true

inductive MfTy | s (S : Manifest.SDef) | c (C : Manifest.Container)

def mfTable : List (String × MfTy) :=
  Fiano.Gen.Manifest.structNames.filterMap fun q =>
    match Manifest.sdefOf mfSrc 8 q with
    | some S => some (q, .s S)
    | none => match Manifest.containerOf mfSrc 8 q (mfStrictOf q) with
      | some C => some (q, .c C)
      | none => none

/-! pkg/amd/manifest + the entry functions of pkg/amd/psb -/

def amdC : Nat := Fiano.Gen.AmdManifest.BIOSDirectoryTableEntrySize

def amdImage (region : Bytes) (pre total : Nat) : Bytes :=
  let pre := if pre > 2097152 then 0 else pre
  let total := if total > 2097152 then 2097152 else total
  let total := if total < pre + region.length then pre + region.length else total
  List.replicate pre 0 ++ region ++ List.replicate (total - pre - region.length) 0

def showTab {α : Type} (r : Option (α × Amd.Range)) (n : α → Nat) : String :=
  match r with
  | none => "-"
  | some (t, rg) => s!"{rg.off}+{rg.len}/{n t}"

def showRes (r : Option Nat) : String :=
  match r with
  | none => "E"
  | some n => toString n

def patchLen (size : Nat) : Nat := if size > 1048576 then 16 else size

open AmdTotal in
/-- the pipeline of ep_amd.go `amd.firmware`, in its order -/
def amdPipelineG (B : Nat) (img : Bytes) : GoM String := do
  let fw ← discoverG amdC B img
  let mut out : List String := []
  for level in [1, 2] do
    for id in [0x00, 0x12, 0x50, 0x0a] do
      let r ← runOpG B img fw (.extractPSP level id)
      out := out ++ [showRes r]
      let e ← getPSPEntryG B fw level id
      match e with
      | none => out := out ++ ["S"]
      | some e =>
        let r ← runOpG B img fw (.patchPSP level id (List.replicate (patchLen e.size) 0))
        out := out ++ [showRes r]
    for id in [0x62, 0x05, 0x07] do
      for inst in [0, 1] do
        let r ← runOpG B img fw (.extractBIOS level id inst)
        out := out ++ [showRes r]
        let e ← getBIOSEntryG B fw level id inst
        match e with
        | none => out := out ++ ["S"]
        | some e =>
          let r ← runOpG B img fw (.patchBIOS level id inst (List.replicate (patchLen e.size) 0))
          out := out ++ [showRes r]
  for (bios, level) in [(false, 1), (false, 2), (true, 1), (true, 2)] do
    for id in [0x12, 0x62] do
      let r ← runOpG B img fw (if bios then .entriesBIOS level id else .entriesPSP level id)
      out := out ++ [showRes r]
  pure (s!"ok:efs={fw.efsRange.off};p1={showTab fw.psp1 (·.entries.length)};p2={showTab fw.psp2 (·.entries.length)};" ++
    s!"b1={showTab fw.bios1 (·.entries.length)};b2={showTab fw.bios2 (·.entries.length)};x=" ++ ",".intercalate out)

open AmdTotal in
def amdTablesG (B : Nat) (b : Bytes) : GoM String := do
  let bit (o : Bool) : String := if o then "1" else "0"
  let p ← parsePSPG B b
  let q ← parseBIOSG amdC B b
  let fp ← findPSPG B b
  let fb ← findBIOSG amdC B b
  -- ParseEmbeddedFirmwareStructure / FindEmbeddedFirmwareStructure end in `err`: run them on the side
  let pe : Bool := decide (Amd.efsSize ≤ b.length) && decide ((Amd.decodeEFS (b.take Amd.efsSize)).signature = Amd.efsSignature)
  let fe : Bool := match findEFSG b {} with | .ok _ => true | .error _ => false
  pure ("t:" ++ bit p.isSome ++ bit q.isSome ++ bit fp.isSome ++ bit fb.isSome ++ bit pe ++ bit fe)

def mfReadStr (q : String) (b : Bytes) : String × Nat :=
  match mfTable.lookup q with
  | some (.s S) => outcome (ManifestTotal.readG (budget b.length) S.body [] b {}) (fun p => s!"ok:n={b.length - p.2.length}")
  | some (.c C) => outcome (ManifestTotal.containerG (budget b.length) C b {}) (fun p => s!"ok:n={b.length - p.2.length}")
  | none => ("bad-type", 0)

open AmdTotal in
/-- the stages of `GetKeys`, each run on its own from the parsed firmware -/
def amdKeyStages (B : Nat) (img : Bytes) (fw : Amd.PSPFirmware) (level : Nat) : String :=
  let run {α : Type} (x : GoM α) : Option α := match x {} with | .ok (a, _) => some a | .error _ => none
  let r := (run (extractPSPEntryG B img fw 1 0x00)).join
  let rk := r.bind fun rb => run (PsbTotal.rootKeyG B rb)
  let d := if rk.isSome then (run (extractPSPEntryG B img fw level 0x50)).join else none
  let v : String := match rk, d with
    | some k, some data =>
      match PsbTotal.validateEntryG B [keyInfoOf (ksOfKey k)] data {} with
      | .ok (.reach _ _, _) => "reach"
      | .ok (.nokey, _) => "nokey"
      | .ok (.invalid, _) => "invalid"
      | .error _ => "E"
    | _, _ => "-"
  let showLen (o : Option Bytes) : String := match o with | some b => toString b.length | none => "E"
  s!"r={showLen r};rk={match r, rk with | none, _ => "-" | some _, some _ => "ok" | some _, none => "E"};" ++
  s!"d={if rk.isSome then showLen d else "-"};v={v}"

def exec : List String → Option (String × Nat)
  | ["amd.getkeys", h, total, level, v] => do
    let region ← parseHex h
    let total ← total.toNat?
    let level ← level.toNat?
    let verdict ← if v = "ok" then some true else if v = "err" then some false else none
    let img := region ++ List.replicate (total - region.length) 0
    let B := budget img.length
    match AmdTotal.discoverG amdC B img {} with
    | .error .err => pure ("err", 0)
    | .error (.panic s) => pure ("panic:" ++ s.replace " " "_", 0)
    | .error .fuel => pure ("fuel", 0)
    | .ok (fw, m1) =>
      let k := outcome (AmdTotal.getKeysG B (fun _ _ => verdict) img fw level m1)
      pure (s!"k:{k.1};" ++ amdKeyStages B img fw level, k.2)
  | ["fit.inject", h, off, rc] => do
    let b ← parseHex h
    let off ← off.toNat?
    let rc ← if rc = "1" then some true else if rc = "0" then some false else none
    pure (outcome (FitTotal.injectPipelineG (budget b.length) b off rc {})
      (fun r => (if r.2 then "ok:" else "err:") ++ toString (fnv1a r.1).toNat))
  | ["fit.record", h] => do
    let b ← parseHex h
    match FitTotal.detectBGVG b {} with
    | .ok (v, _) =>
      let (km, bpm) := if v = 1 then ("bgkey.Manifest", "bgbootpolicy.Manifest") else ("cbntkey.Manifest", "cbntbootpolicy.Manifest")
      let r1 := mfReadStr km b
      let r2 := mfReadStr bpm b
      pure (s!"v={v};km={r1.1};bpm={r2.1}", r1.2 + r2.2)
    | .error .err => pure ("v=E", 0)
    | .error (.panic s) => pure ("panic:" ++ s.replace " " "_", 0)
    | .error .fuel => pure ("fuel", 0)
  | ["amd.firmware", h, pre, total] => do
    let region ← parseHex h
    let pre ← pre.toNat?
    let total ← total.toNat?
    let img := amdImage region pre total
    pure (outcome (amdPipelineG (budget img.length) img {}) id)
  | ["amd.tables", h] => do
    let b ← parseHex h
    match AmdTotal.findEFSG b {} with
    | .error (.panic s) => pure ("panic:" ++ s.replace " " "_", 0)
    | _ => pure (outcome (amdTablesG (budget b.length) b {}) id)
  | ["manifest.read", q, h] => do
    let b ← parseHex h
    match ← mfTable.lookup q with
    | .s S => pure (outcome (ManifestTotal.readG (budget b.length) S.body [] b {})
        (fun p => s!"ok:n={b.length - p.2.length}"))
    | .c C => pure (outcome (ManifestTotal.containerG (budget b.length) C b {})
        (fun p => s!"ok:n={b.length - p.2.length}"))
  | ["manifest.chipset", h] => do
    let b ← parseHex h
    match ← mfTable.lookup "cbnt.ChipsetACModuleInformation" with
    | .s S => pure (outcome (ManifestTotal.parseChipsetG (budget b.length) S.body
        (Fiano.Gen.C20MfCbnt.chipsetACModuleInformationSignature.map UInt8.ofNat) b {}) (fun p => s!"ok:n={p.1}"))
    | .c _ => none
  | ["manifest.memsize", q] => do
    match ← mfTable.lookup q with
    | .s S => pure (s!"ok:{ManifestTotal.memSize S.body}", 0)
    | .c _ => none
  | ["fmap.read", h] => do
    let b ← parseHex h
    pure (outcome (Fmap.readG (budget b.length) b {}))
  | ["fmap.readarea", h, i] => do
    let b ← parseHex h
    let i ← parseInt i
    pure (outcome (Fmap.readThenAreaG (budget b.length) b i {}))
  | ["fmap.writearea", h, i, n] => do
    let b ← parseHex h
    let i ← parseInt i
    let n ← n.toNat?
    pure (outcome (Fmap.readThenWriteAreaG (budget b.length) b i (List.replicate n 0xa5) {}))
  | ["fmap.write", h, st] => do
    let b ← parseHex h
    let st ← st.toNat?
    -- Write seeks to int64(m.Start): a negative position is refused by the seeker
    if st ≥ 9223372036854775808 then
      pure (outcome ((do let _ ← Fmap.readG (budget b.length) b; GoM.err : GoM Bytes) {}))
    else pure (outcome (Fmap.readThenWriteG (budget b.length) b st {}))
  | ["microcode.parse", h] => do
    let b ← parseHex h
    pure (outcome (Microcode.parseG (budget b.length) b {})
      (fun p => s!"ok:data={p.data.length},ext={(p.ext.length - 20) / 12}"))
  | ["me.parse", h] => do
    let b ← parseHex h
    pure (outcome (Me.parseG (budget b.length) b {}) (fun p => s!"ok:legacy={p.legacy},n={p.partitions.length}"))
  | ["fsp.header", h] => do
    let b ← parseHex h
    pure (outcome (Fsp.newInfoHeaderG b {}))
  | ["fit.entries", h] => do
    let b ← parseHex h
    -- per entry: length of the attached data segment, or E when an error was recorded for it
    pure (outcome (FitTotal.getEntriesG (budget b.length) b {})
      (fun es => "ok:" ++ ",".intercalate (es.map (fun e => if e.2 then "E" else toString e.1.length))))
  | ["fit.sacm", h] => do
    let b ← parseHex h
    pure (outcome (FitTotal.parseSACMG (budget b.length) b {}))
  | ["psb.rootkey", h] => do
    let b ← parseHex h
    pure (outcome (PsbTotal.rootKeyG (budget b.length) b {}))
  | ["psb.tokenkey", h, sl, v] => do
    -- sl = modulus length of the signing key the key set holds for CertifyingKeyID ("none" = not found),
    -- v  = outcome of the RSA check (a parameter of the model: not byte parsing)
    let b ← parseHex h
    let sl ← if sl = "none" then some none else sl.toNat?.map some
    let v ← if v = "ok" then some "ok" else if v = "err" then some "err" else none
    pure (outcome (PsbTotal.tokenKeyG (budget b.length + sl.getD 0) sl b {}) (fun _ => v))
  | ["psb.dbkeys", h] => do
    let b ← parseHex h
    pure (outcome (PsbTotal.dbLoopG (budget b.length) (b.length + 1) b [] {}) (fun ids => s!"ok:n={ids.length}"))
  | ["psb.pspbinary", h, ks] => do
    let b ← parseHex h
    let ks ← parseKeys ks
    pure (outcome (PsbTotal.validateEntryG (budget b.length) ks b {})
      (fun v => match v with | .reach _ _ => "reach" | .nokey => "nokey" | .invalid => "invalid"))
  | ["apcb.parse", h] => do
    let b ← parseHex h
    pure (outcome (ApcbTotal.parseG (budget b.length) b {}) (fun n => s!"ok:n={n}"))
  | ["cbfs.image", h] => do
    let b ← parseHex h
    pure (outcome (CbfsTotal.newImageG (budget b.length) b {}) (fun n => s!"ok:n={n}"))
  | ["zlib.decode", h, v] => do
    let b ← parseHex h
    let dec ← parseVerdict v
    pure (outcome (CompressionTotal.zlibDecodeG dec b {}))
  | ["brotli.decode", h, v] => do
    let b ← parseHex h
    let dec ← parseVerdict v
    pure (outcome (CompressionTotal.brotliDecodeG dec b {}))
  | _ => none

def handle : List String → String
  | "run" :: rest =>
    match exec rest with
    | some (c, _) => c
    | none => "bad-op"
  | "le" :: g :: rest =>
    match g.toNat?, exec rest with
    | some g, some (_, a) => if a ≤ g then "ok" else s!"model-alloc={a}"
    | _, _ => "bad-op"
  | _ => "bad-op"

def main : IO Unit := loop handle
