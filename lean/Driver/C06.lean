/-
  Driver for property C06 (compressed and nested content survives a save; saving is a fixed point).

  Requests (one line, words separated by spaces; bytes as lower-case hex, "-" = empty):

    c06 <dec> <enc> <image-hex> [<op>]     the pipeline  Parse → [edit] → Save → Save again on the same tree,
                                           then  Parse(saved) → Save  in a fresh process:
        → "ok d0=<D> de=<D> y1=<fnv>:<len> r1=<fnv>:<len>|!<errclass> d1=<D> y2=<fnv>:<len>"
             d0 = digest of the decoded tree (`Nested.decText`) of the parsed input, de = after the edit,
             y1 = the saved image, r1 = the second save of the same in-memory tree,
             d1 = decoded tree of Parse(y1), y2 = Save(Parse(y1))
        | "cli:<errclass>" | "parse:<errclass>" | "edit:<errclass>" | "save:<errclass>"
        | "parse2:<errclass>" | "save2:<errclass>"             the first stage that failed
    dectext <dec> <enc> <image-hex>        → "ok <decoded tree text of the parsed image>" | "parse:<errclass>"
    savehex <dec> <enc> <image-hex>        → "ok <hex of Save(Parse(image))>" | …          (debugging)
    spec-valid <hex>                       → "ok" | "invalid"     the independent reader Valid.validImage
    spec-sections <hex>                    → "ok" | "invalid"     rules S1–S3 (incl. nested volumes V1–V7, files,
                                                                  sections) on a decoded section stream

    <op>    one edit in the syntax of FianoModel/Uefi/EditDrv.lean (if:… rm:… rp:… pe:…)
    <dec>, <enc>   what the compression cores answered on this case, observed by the harness on the real
            run: "-" or entries `<core>:<fnv of the input>:<input length>=<output hex | !>` joined by ",";
            core ∈ LZMA | ZLIBCORE; an input that is not listed is an error (decode error / encode error).
            The framing around the cores (size fields, x86 branch filter, ZLIB section header) is the
            model's own: `Nested.hooksOf` (FianoModel/Uefi/NestedCodec.lean).
  Anything else → "bad-op".
-/
import Driver.Common
import FianoModel.Uefi.NestedDec
import FianoModel.Uefi.NestedCodec
import FianoModel.Uefi.EditDrv

open Fiano Fiano.Uefi Fiano.Uefi.Nested Driver

abbrev Table := List (String × Option Bytes)

def parseTable (s : String) : Option Table :=
  if s = "-" then some [] else
  (s.splitOn ",").mapM (fun e =>
    match e.splitOn "=" with
    | [k, v] => if v = "!" then some (k, none) else (parseHex v).map (fun b => (k, some b))
    | _ => none)

def keyOf (core : String) (b : Bytes) : String := s!"{core}:{fnvOf b}:{b.length}"

def look (t : Table) (core : String) (x : Bytes) : Option Bytes :=
  match t.lookup (keyOf core x) with
  | some (some out) => some out
  | _ => none

/-- a core whose answers are the observed ones -/
def tableCore (core : String) (dec enc : Table) : Compress.Codec :=
  { enc := fun x => match look enc core x with
      | some o => .ok o
      | none => .err
    dec := fun y => look dec core y }

def hooksFor (dec enc : Table) : Hooks :=
  hooksOf { lzma := tableCore "LZMA" dec enc, zlib := tableCore "ZLIBCORE" dec enc }

/-- total decoded output of the table: the recursion budget of the parser is paid for by input bytes,
    and decoded bytes are input of the nested walks -/
def tableBytes (t : Table) : Nat := t.foldl (fun a e => a + (match e.2 with | some o => o.length | none => 0)) 0

def dl (b : Bytes) : String := s!"{fnvOf b}:{b.length}"

def pipeline (h : Hooks) (extra : Nat) (image : Bytes) (specs : List OpSpec) : String :=
  match cliParse h specs {} with
  | .error e => "cli:" ++ errName e
  | .ok (ops, st) =>
    match parseWith h (defaultFuel image + extra) image st with
    | .error e => "parse:" ++ errName e
    | .ok (t, st') =>
      let d0 := decDigest (decTree t)
      match run h ops { tree := t, st := st' } with
      | .error e => "edit:" ++ errName e
      | .ok s1 =>
        let de := decDigest (decTree s1.tree)
        match step h .save s1 with
        | .error e => "save:" ++ errName e
        | .ok s2 =>
          let y1 := s2.tree.buf
          let r1 := match step h .save s2 with
            | .error e => "!" ++ errName e
            | .ok s3 => dl s3.tree.buf
          match parseWith h (defaultFuel y1 + extra) y1 {} with
          | .error e => "parse2:" ++ errName e
          | .ok (t2, st2) =>
            let d1 := decDigest (decTree t2)
            match asmTreeWith h t2 { st2 with ffs3 := false } with
            | .error e => "save2:" ++ errName e
            | .ok (t3, _) => s!"ok d0={d0} de={de} y1={dl y1} r1={r1} d1={d1} y2={dl t3.buf}"

def withTables (dec enc img : String) (k : Hooks → Nat → Bytes → String) : String :=
  match parseTable dec, parseTable enc, parseHex img with
  | some d, some e, some b => k (hooksFor d e) (tableBytes d) b
  | _, _, _ => "bad-op"

def handle : List String → String
  | "c06" :: dec :: enc :: img :: ops =>
    match ops.mapM EditDrv.parseOp with
    | none => "bad-op"
    | some specs =>
      if specs.length > 1 then "bad-op" else
      withTables dec enc img fun h extra b => pipeline h extra b specs
  | ["dectext", dec, enc, img] => withTables dec enc img fun h extra b =>
    match parseWith h (defaultFuel b + extra) b {} with
    | .error e => "parse:" ++ errName e
    | .ok (t, _) => "ok " ++ decText (decTree t)
  | ["savehex", dec, enc, img] => withTables dec enc img fun h extra b =>
    match parseWith h (defaultFuel b + extra) b {} with
    | .error e => "parse:" ++ errName e
    | .ok (t, st) =>
      match asmTreeWith h t { st with ffs3 := false } with
      | .error e => "save:" ++ errName e
      | .ok (t', _) => "ok " ++ toHex t'.buf
  | ["spec-valid", img] =>
    match parseHex img with
    | some b => if Valid.validImage b then "ok" else "invalid"
    | none => "bad-op"
  | ["spec-sections", img] =>
    match parseHex img with
    | some b => if Valid.sectionsOk (b.length + 2) b 0 then "ok" else "invalid"
    | none => "bad-op"
  | _ => "bad-op"

def main : IO Unit := loop handle
