/-
  Driver for the UEFI core model (property C01 and the properties built on it).

  Requests (one line, words separated by spaces; bytes as lower-case hex, "-" = empty):

    parse <hex>       uefi.Parse in a fresh process
                        → "ok <tree digest> <node count> <kind:len,kind:len,…>"  |  "<errclass>"
    parsetree <hex>   → "ok <canonical pre-order dump>"                          |  "<errclass>"
    asm <hex>         uefi.Parse, then visitors.Assemble / Save, same process
                        → "ok <fnv of saved bytes> <len> <digest of the tree after assemble>"
                          | "parse:<errclass>" | "asm:<errclass>"
    asmtree <hex>     → "ok <dump of the tree after assemble>" | …
    asmhex <hex>      → "ok <saved bytes as hex>" | …

  <errclass> ∈ err | panic | fatal | hang | fuel.   The dump format is documented in
  FianoModel/Uefi/Dump.lean (and implemented identically in harness/props/uefi/dump.go).
    img <recipe…>     the recipe of a grammar image (FianoModel/Uefi/Recipe.lean); answers in one line
                        "ok ser=<fnv>:<len> wf=<0|1> tree=<digest of Spec.tree | -> parse=<digest|errclass>
                         save=<fnv>:<len>:<digest after>|parse:<errclass>|asm:<errclass>"
                      (tree is printed only when wf=1)
    imghex <recipe…>  → "ok <Spec.ser as hex>"
  Anything else → "bad-op".
-/
import Driver.Common
import FianoModel.Uefi.Dump
import FianoModel.Uefi.Recipe

open Fiano Fiano.Uefi Driver

def hooks : Hooks := Hooks.none

def withBytes (s : String) (k : Bytes → String) : String :=
  match parseHex s with
  | some b => k b
  | none => "bad-op"

def saveLine (b : Bytes) : String :=
  match parseWith hooks (defaultFuel b) b {} with
  | .error e => "parse:" ++ errName e
  | .ok (t, st) =>
    match asmTreeWith hooks t { st with ffs3 := false } with
    | .error e => "asm:" ++ errName e
    | .ok (t', _) => s!"{fnvOf t'.buf}:{t'.buf.length}:{digestOf t'}"

def imgLine (r : String) : String :=
  match Recipe.parseImg r with
  | none => "bad-op"
  | some i =>
    let b := Spec.ser i
    let w := Spec.wf i
    let tr := if w then digestOf (Spec.tree i) else "-"
    let pr := match parse hooks b with
      | .ok t => digestOf t
      | .error e => errName e
    s!"ok ser={fnvOf b}:{b.length} wf={if w then 1 else 0} tree={tr} parse={pr} save={saveLine b}"

def handle : List String → String
  | "img" :: rest => imgLine (" ".intercalate rest)
  | "imghex" :: rest =>
    match Recipe.parseImg (" ".intercalate rest) with
    | none => "bad-op"
    | some i => s!"ok {toHex (Spec.ser i)}"
  | ["parse", img] => withBytes img fun b =>
    match parse hooks b with
    | .ok t => s!"ok {digestOf t} {(dumpTree t).length} {shortOf t}"
    | .error e => errName e
  | ["parsetree", img] => withBytes img fun b =>
    match parse hooks b with
    | .ok t => s!"ok {dumpText t}"
    | .error e => errName e
  | ["asm", img] => withBytes img fun b =>
    match parseWith hooks (defaultFuel b) b {} with
    | .error e => "parse:" ++ errName e
    | .ok (t, st) =>
      match asmTreeWith hooks t { st with ffs3 := false } with
      | .error e => "asm:" ++ errName e
      | .ok (t', _) => s!"ok {fnvOf t'.buf} {t'.buf.length} {digestOf t'}"
  | ["asmtree", img] => withBytes img fun b =>
    match parseWith hooks (defaultFuel b) b {} with
    | .error e => "parse:" ++ errName e
    | .ok (t, st) =>
      match asmTreeWith hooks t { st with ffs3 := false } with
      | .error e => "asm:" ++ errName e
      | .ok (t', _) => s!"ok {dumpText t'}"
  | ["asmhex", img] => withBytes img fun b =>
    match save hooks b with
    | .error e => errName e
    | .ok out => s!"ok {toHex out}"
  | _ => "bad-op"

def main : IO Unit := loop handle
