import Driver.Common
import FianoModel.Amd.Model
import FianoModel.Amd.Fletcher
import FianoModel.Amd.Keys

/-!
  Line-protocol driver of the AMD model (property C17).

  Images travel sparse:  `<len>:<fill byte hex>:<off>=<hex>,<off>=<hex>,…`  (no chunk: `<len>:<fill>:`),
  chunks sorted by offset and not overlapping.  The driver turns this into an `Img`
  (length + content function) and runs the model functions of `FianoModel.Amd` on it.
-/

open Fiano Fiano.Amd Driver

structure Sparse where
  len    : Nat
  fill   : UInt8
  chunks : Array (Nat × ByteArray)

/-- `n` copies of `fill` (by doubling) -/
def fillBytes (n : Nat) (fill : UInt8) : ByteArray := Id.run do
  if n = 0 then return ByteArray.empty
  let mut b := (ByteArray.emptyWithCapacity n).push fill
  for _ in [0:64] do
    if b.size * 2 ≤ n then b := b ++ b
  return b ++ b.extract 0 (n - b.size)

/-- the image materialised as a byte array (images are at most a few dozen MiB) -/
def Sparse.materialise (s : Sparse) : ByteArray := Id.run do
  let mut b := fillBytes s.len s.fill
  for (o, c) in s.chunks do
    if o + c.size ≤ b.size then b := c.copySlice 0 b o c.size
  return b

def Sparse.toImg (s : Sparse) : Img :=
  let b := s.materialise
  ⟨s.len, fun i => if h : i < b.size then b[i] else s.fill⟩

def parseChunk (c : String) : Option (Nat × ByteArray) :=
  match c.splitOn "=" with
  | [o, h] => do
    let off ← o.toNat?
    let b ← parseHex h
    pure (off, ByteArray.mk b.toArray)
  | _ => none

def parseImg (w : String) : Option Img :=
  match w.splitOn ":" with
  | [l, f, cs] => do
    let len ← l.toNat?
    let fb ← parseHex f
    let fill ← match fb with | [x] => some x | _ => none
    let chunks ← if cs = "" then some [] else (cs.splitOn ",").mapM parseChunk
    pure (Sparse.toImg { len := len, fill := fill, chunks := chunks.toArray })
  | _ => none

def showRange (r : Range) : String := s!"{r.off}+{r.len}"

def showEFS (e : EFS) : String :=
  s!"{e.signature},{toHex e.reserved1},{e.pspPtr},{e.bios0},{e.bios1},{e.bios2},{e.reserved2},{e.bios3},{toHex e.reserved3}"

def showPSPEntry (e : PSPEntry) : String := s!"{e.type},{e.subprogram},{e.romId},{e.size},{e.loc}"

/-- long tables are shown as `#<n>:<FNV-1a of the joined text>` (same rule in the Go harness) -/
def limitEntries (hdr : String) (ents : List String) : String :=
  if ents.isEmpty then hdr
  else
    let j := ";".intercalate ents
    if ents.length > 48 then s!"{hdr};#{ents.length}:{fnv1a j.toUTF8.toList}" else hdr ++ ";" ++ j

def showPSPTable (t : PSPTable) : String :=
  limitEntries s!"{t.cookie},{t.checksum},{t.total},{t.addl}" (t.entries.map showPSPEntry)

def b01 (b : Bool) : String := if b then "1" else "0"

def showBIOSEntry (e : BIOSEntry) : String :=
  s!"{e.type},{e.regionType},{b01 e.resetImage},{b01 e.copyImage},{b01 e.readOnly},{b01 e.compressed},{e.instance_},{e.subprogram},{e.romId},{e.size},{e.src},{e.dst}"

def showBIOSTable (t : BIOSTable) : String :=
  limitEntries s!"{t.cookie},{t.checksum},{t.total},{t.reserved}" (t.entries.map showBIOSEntry)

def showOptPSP : Option (PSPTable × Range) → String
  | none => "nil"
  | some (t, r) => s!"{showRange r}:{showPSPTable t}"

def showOptBIOS : Option (BIOSTable × Range) → String
  | none => "nil"
  | some (t, r) => s!"{showRange r}:{showBIOSTable t}"

def showFw (fw : PSPFirmware) : String :=
  s!"ok efs={showRange fw.efsRange}:{showEFS fw.efs} psp1={showOptPSP fw.psp1} psp2={showOptPSP fw.psp2} bios1={showOptBIOS fw.bios1} bios2={showOptBIOS fw.bios2}"

/-- large outputs: length and FNV-1a digest -/
def showBytes (b : Bytes) : String := s!"{b.length}:{fnv1a b}"

def showPatched (r : Except Err Img) (woff wlen : Nat) : String :=
  match r with
  | .error _ => "err"
  | .ok out =>
    let lo := min woff out.len
    let n := min wlen (out.len - lo)
    s!"ok {out.len} {toHex (out.window lo n)}"

def withFw (img : Img) (k : PSPFirmware → String) : String :=
  match discover img with
  | .error _ => "err"
  | .ok fw => k fw

def handle : List String → String
  | ["discover", im] =>
    match parseImg im with
    | none => "bad-op"
    | some img => withFw img showFw
  | ["extractpsp", im, level, id] =>
    match parseImg im, level.toNat?, id.toNat? with
    | some img, some l, some i => withFw img fun fw =>
      match extractPSPEntry img fw l i with
      | .ok d => s!"ok {showBytes d}"
      | .error _ => "err"
    | _, _, _ => "bad-op"
  | ["extractbios", im, level, id, inst] =>
    match parseImg im, level.toNat?, id.toNat?, inst.toNat? with
    | some img, some l, some i, some n => withFw img fun fw =>
      match extractBIOSEntry img fw l i n with
      | .ok d => s!"ok {showBytes d}"
      | .error _ => "err"
    | _, _, _, _ => "bad-op"
  | ["patchpsp", im, level, id, data, woff, wlen] =>
    match parseImg im, level.toNat?, id.toNat?, parseHex data, woff.toNat?, wlen.toNat? with
    | some img, some l, some i, some d, some wo, some wl => withFw img fun fw =>
      showPatched (patchPSPEntry img fw l i d) wo wl
    | _, _, _, _, _, _ => "bad-op"
  | ["patchbios", im, level, id, inst, data, woff, wlen] =>
    match parseImg im, level.toNat?, id.toNat?, inst.toNat?, parseHex data, woff.toNat?, wlen.toNat? with
    | some img, some l, some i, some n, some d, some wo, some wl => withFw img fun fw =>
      showPatched (patchBIOSEntry img fw l i n d) wo wl
    | _, _, _, _, _, _, _ => "bad-op"
  | ["parsepsp", data] =>
    match parseHex data with
    | none => "bad-op"
    | some d => match parsePSP (Img.ofBytes d) with
      | .ok (t, n) => s!"ok {n} {showPSPTable t}"
      | .error _ => "err"
  | ["parsebios", data] =>
    match parseHex data with
    | none => "bad-op"
    | some d => match parseBIOS (Img.ofBytes d) with
      | .ok (t, n) => s!"ok {n} {showBIOSTable t}"
      | .error _ => "err"
  | ["parseefs", data] =>
    match parseHex data with
    | none => "bad-op"
    | some d => match parseEFS (Img.ofBytes d) with
      | .ok (e, n) => s!"ok {n} {showEFS e}"
      | .error _ => "err"
  | ["fletcher", data] =>
    match parseHex data with
    | none => "bad-op"
    | some d => match fletcherCRC32 d with
      | some v => s!"ok {v}"
      | none => "panic"
  | ["dirchecksum", data] =>
    match parseHex data with
    | none => "bad-op"
    | some d => match calcDirectoryChecksum d with
      | some v => s!"ok {v}"
      | none => "panic"
  | ["phys", len, addr] =>
    match len.toNat?, addr.toNat? with
    | some l, some a => s!"ok {physAddrToOffset l a} {offsetToPhysAddr l a}"
    | _, _ => "bad-op"
  | ["rootkey", data] =>
    match parseHex data with
    | none => "bad-op"
    | some d => match newRootKey d with
      | .error _ => "err"
      | .ok k =>
        let pb := match getPlatformBindingInfo k with
          | .ok p => s!"{p.vendorID},{p.keyRevisionID},{p.platformModelID}"
          | .error _ => "err"
        let sf := match getSecurityFeatureVector k with
          | .ok f => s!"{b01 f.disableBIOSKeyAntiRollback},{b01 f.disableAMDBIOSKeyUse},{b01 f.disableSecureDebugUnlock}"
          | .error _ => "err"
        s!"ok {k.usage} {pb} {sf}"
  | _ => "bad-op"

def main : IO Unit := loop handle
