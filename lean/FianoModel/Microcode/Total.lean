/-
  pkg/intel/microcode `ParseIntelMicrocode` against Go's semantics (GoM), as repaired by
  fixes/C20-microcode-datasize-alloc.diff:
   * the size sanity checks are done in 64 bits (`DataSize + 48` wrapped in uint32: a header with
     DataSize = 0xFFFFFFFC passed `TotalSize >= DataSize + 48`);
   * the data is read with `io.ReadAll(io.LimitReader(r, DataSize))` and its length compared,
     instead of `make([]byte, DataSize)` (4 GiB for a 48-byte input).
  `parseOldG` keeps the unrepaired allocation order; `parseOldG_witness` is the 48-byte input on
  which it exceeds any budget below 2 GiB.
-/
import FianoModel.Total.Hoare

namespace Fiano.Microcode
open GoM

def headerSize : Nat := 48
def extTableSize : Nat := 20
def extSigSize : Nat := 12
def defaultDataSize : Nat := 2000
def defaultTotalSize : Nat := 2048

/-- 32-bit little-endian word sum (the checksum loops read `uint32`s until the buffer is exhausted;
    a trailing partial word ends the loop) -/
def sum32 : Bytes → Nat
  | a :: b :: c :: d :: rest => (fromLE [a, b, c, d] + sum32 rest) % 4294967296
  | _ => 0

def dataSizeOf (h : Bytes) : Nat := if fieldLE h 28 4 > 0 then fieldLE h 28 4 else defaultDataSize
def totalSizeOf (h : Bytes) : Nat := if fieldLE h 28 4 > 0 then fieldLE h 32 4 else defaultTotalSize

/-- the extended-signature loop: `for i := 0; i < Count; i++ { binary.Read(12 bytes); append }` -/
def extLoopG (B : Nat) : Nat → Nat → Nat → Bytes → Bytes → GoM (Bytes × Bytes)
  | 0, _, _, _, _ => outOfFuel
  | fuel+1, i, count, r, acc =>
    if i ≥ count then pure (acc, r)
    else do
      let (sb, r') ← binaryReadG r extSigSize
      allocB "append(m.ExtendedSignatures, signature)" B 1 extSigSize
      extLoopG B fuel (i + 1) count r' (acc ++ sb)

structure Parsed where
  header : Bytes
  data : Bytes
  ext : Bytes          -- ExtSigTable ++ signatures, empty when absent
  deriving Repr, DecidableEq

def parseG (B : Nat) (bs : Bytes) : GoM Parsed := do
  let (h, r1) ← binaryReadG bs headerSize
  let ds := dataSizeOf h
  let ts := totalSizeOf h
  if ts < ds + headerSize then err                                    -- repaired: no uint32 wrap
  else if fieldLE h 20 4 ≠ 1 ∨ fieldLE h 0 4 ≠ 1 then err
  else if ds % 4 > 0 then err
  else if ts % 4 > 0 then err
  else do
    -- repaired: io.ReadAll(io.LimitReader(r, ds))
    let data := r1.take ds
    allocB "io.ReadAll(io.LimitReader(r, DataSize))" B data.length 1
    if data.length < ds then err
    else do
      allocB "buf.Grow(DataSize + 48)" B (ds + headerSize) 1
      if sum32 (h ++ data) ≠ 0 then err
      else if ts ≤ ds + headerSize then pure { header := h, data := data, ext := [] }
      else do
        let (eb, r3) ← binaryReadG (r1.drop ds) extTableSize
        let count := fieldLE eb 0 4
        let (sigs, _) ← extLoopG B (bs.length + 1) 0 count r3 []
        allocB "buf.Grow(20 + Count*12)" B (extTableSize + count * extSigSize) 1
        if sum32 (eb ++ sigs) ≠ 0 then err
        else pure { header := h, data := data, ext := eb ++ sigs }

/-! ### totality -/

/-- loop invariant: `i` signatures of 12 bytes have been consumed from an input of `n` bytes -/
theorem extLoopG_spec (B n fuel i count : Nat) (r acc : Bytes) (m : Meter)
    (hfuel : n < i + fuel) (hr : r.length + 12 * i ≤ n) (hb : m.alloc + 12 * (n / 12 - i) ≤ B) :
    SafeP (extLoopG B fuel i count r acc) m
      (fun _ m' => count * 12 ≤ n ∧ m'.alloc ≤ m.alloc + 12 * (n / 12 - i)) := by
  induction fuel generalizing i r acc m with
  | zero => omega
  | succ fuel ih =>
    unfold extLoopG
    apply SafeP.ite
    · intro hge
      apply SafeP.pure
      -- the loop ran to completion: count ≤ i and 12·i ≤ n
      have : count * 12 ≤ n := by
        have : count ≤ i := hge
        omega
      exact ⟨this, by omega⟩
    · intro hlt
      apply SafeP.bind; apply SafeP.binaryRead; intro h12
      simp only [extSigSize] at *
      have hi : i + 1 ≤ n / 12 := by
        have : 12 * (i + 1) ≤ n := by omega
        omega
      apply SafeP.bind; apply SafeP.alloc (by omega)
      have hlen : (List.drop 12 r).length + 12 * (i + 1) ≤ n := by
        have : (List.drop 12 r).length = r.length - 12 := by simp
        omega
      apply SafeP.mono (ih (i + 1) (List.drop 12 r) (acc ++ List.take 12 r) _ (by omega) hlen
        (by simp only []; omega))
      intro _ m' h
      simp only at h
      exact ⟨h.1, by omega⟩

/-- allocation coefficients of `parseG`: `alloc ≤ 4·|bs| + 128` -/
def parseKSlope : Nat := 4
def parseKConst : Nat := 128

theorem parseG_spec (B : Nat) (bs : Bytes) (m : Meter)
    (hB : m.alloc + parseKSlope * bs.length + parseKConst ≤ B) :
    SafeP (parseG B bs) m (fun _ _ => True) := by
  unfold parseG
  simp only [parseKSlope, parseKConst] at hB
  apply SafeP.bind; apply SafeP.binaryRead; intro h48
  simp only [headerSize] at *
  apply SafeP.ite; · intro _; exact SafeP.err
  intro _
  apply SafeP.ite; · intro _; exact SafeP.err
  intro _
  apply SafeP.ite; · intro _; exact SafeP.err
  intro _
  apply SafeP.ite; · intro _; exact SafeP.err
  intro _
  have hdl : (List.take (dataSizeOf (List.take 48 bs)) (List.drop 48 bs)).length =
      min (dataSizeOf (List.take 48 bs)) (bs.length - 48) := by simp
  apply SafeP.bind; apply SafeP.alloc (by omega)
  apply SafeP.ite; · intro _; exact SafeP.err
  intro hfull
  have hds' : dataSizeOf (List.take 48 bs) ≤ bs.length - 48 := by omega
  apply SafeP.bind; apply SafeP.alloc (by simp only []; omega)
  apply SafeP.ite; · intro _; exact SafeP.err
  intro _
  apply SafeP.ite; · intro _; exact SafeP.pure trivial
  intro _
  apply SafeP.bind; apply SafeP.binaryRead; intro h20
  simp only [extTableSize] at *
  apply SafeP.bind
  -- the signatures live in the last  n = |bs| - 48 - ds - 20  bytes
  have hlen : (List.drop 20 (List.drop (dataSizeOf (List.take 48 bs)) (List.drop 48 bs))).length =
      bs.length - 48 - dataSizeOf (List.take 48 bs) - 20 := by simp; omega
  apply SafeP.mono (extLoopG_spec B (bs.length - 48 - dataSizeOf (List.take 48 bs) - 20) (bs.length + 1) 0 _ _ _ _
    (by omega) (by omega) (by simp only []; omega))
  intro r m' hpost
  simp only at hpost
  apply SafeP.bind; apply SafeP.alloc (by simp only [extSigSize] at *; omega)
  apply SafeP.ite; · intro _; exact SafeP.err
  intro _; exact SafeP.pure trivial

/-! ### the unrepaired allocation order, and the input that breaks it -/

/-- as in the unrepaired code: 32-bit wrapping sanity check, then `make([]byte, DataSize)` and a
    `binary.Read` into it (which allocates the same size again) before any byte is read -/
def parseOldG (B : Nat) (bs : Bytes) : GoM Unit := do
  let (h, r1) ← binaryReadG bs headerSize
  let ds := dataSizeOf h
  let ts := totalSizeOf h
  if ts < (ds + headerSize) % 4294967296 then err
  else if fieldLE h 20 4 ≠ 1 ∨ fieldLE h 0 4 ≠ 1 then err
  else if ds % 4 > 0 then err
  else if ts % 4 > 0 then err
  else do
    allocB "make([]byte, getDataSize(m.Header))" B ds 1
    let _ ← binaryReadG r1 ds
    pure ()

/-- DESIGN.md §8 #23: a 48-byte header with `DataSize = 0x7FFFFFFC` -/
def witness : Bytes :=
  leN 4 1 ++ leN 4 0 ++ leN 4 0 ++ leN 4 0 ++ leN 4 0 ++ leN 4 1 ++ leN 4 0 ++ leN 4 0x7ffffffc ++
    leN 4 (0x7ffffffc + 48) ++ leN 12 0

theorem parseOldG_witness :
    parseOldG (64 * witness.length + 16777216) witness {} =
      .error (.panic "alloc-budget: make([]byte, getDataSize(m.Header))") := by
  decide

theorem parseG_witness_err : parseG (64 * witness.length + 16777216) witness {} = .error .err := by
  decide

end Fiano.Microcode
