/-
  Base: byte strings, little/big-endian integers, slices and in-place writes.
  Core Lean only (no Mathlib) so that the drivers link as executables.
-/
namespace Fiano

abbrev Bytes := List UInt8

/-- little-endian encoding of `n` on exactly `k` bytes (truncating, as Go's
    fixed-width integers do). -/
def leN : Nat → Nat → Bytes
  | 0, _ => []
  | k+1, n => UInt8.ofNat (n % 256) :: leN k (n / 256)

/-- little-endian decoding of a byte string of any length. -/
def fromLE : Bytes → Nat
  | [] => 0
  | b :: bs => b.toNat + 256 * fromLE bs

def beN (k n : Nat) : Bytes := (leN k n).reverse
def fromBE (b : Bytes) : Nat := fromLE b.reverse

@[simp] theorem leN_length (k n : Nat) : (leN k n).length = k := by
  induction k generalizing n with
  | zero => rfl
  | succ k ih => simp [leN, ih]

@[simp] theorem beN_length (k n : Nat) : (beN k n).length = k := by simp [beN]

theorem fromLE_lt (b : Bytes) : fromLE b < 256 ^ b.length := by
  induction b with
  | nil => simp [fromLE]
  | cons x xs ih =>
    have hx : x.toNat < 256 := x.toNat_lt
    simp only [fromLE, List.length_cons, Nat.pow_succ]
    omega

theorem fromLE_leN (k n : Nat) : fromLE (leN k n) = n % 256 ^ k := by
  induction k generalizing n with
  | zero => simp [leN, fromLE, Nat.mod_one]
  | succ k ih =>
    simp only [leN, fromLE, ih]
    have h : (UInt8.ofNat (n % 256)).toNat = n % 256 := by
      simp [UInt8.toNat_ofNat']
    rw [h, Nat.pow_succ, Nat.mul_comm (256 ^ k) 256, Nat.mod_mul]

theorem leN_fromLE (b : Bytes) : leN b.length (fromLE b) = b := by
  induction b with
  | nil => rfl
  | cons x xs ih =>
    have hx : x.toNat < 256 := x.toNat_lt
    simp only [List.length_cons, leN, fromLE]
    have h1 : (x.toNat + 256 * fromLE xs) % 256 = x.toNat := by omega
    have h2 : (x.toNat + 256 * fromLE xs) / 256 = fromLE xs := by omega
    rw [h1, h2, ih]
    simp

theorem leN_fromLE' (b : Bytes) (k : Nat) (h : b.length = k) : leN k (fromLE b) = b := by
  subst h; exact leN_fromLE b

theorem fromLE_leN_of_lt (k n : Nat) (h : n < 256 ^ k) : fromLE (leN k n) = n := by
  rw [fromLE_leN, Nat.mod_eq_of_lt h]

theorem fromBE_beN (k n : Nat) : fromBE (beN k n) = n % 256 ^ k := by
  simp [fromBE, beN, fromLE_leN]

theorem beN_fromBE (b : Bytes) : beN b.length (fromBE b) = b := by
  have := leN_fromLE b.reverse
  simp only [List.length_reverse] at this
  simp [beN, fromBE, this]

/-- `b[off : off+len]`, clipped (callers guard bounds explicitly when Go would fault). -/
def slice (b : Bytes) (off len : Nat) : Bytes := (b.drop off).take len

theorem slice_length (b : Bytes) (off len : Nat) (h : off + len ≤ b.length) :
    (slice b off len).length = len := by
  simp [slice]; omega

/-- overwrite `d` into `b` at `off` (caller guarantees `off + d.length ≤ b.length`). -/
def splice (b : Bytes) (off : Nat) (d : Bytes) : Bytes :=
  b.take off ++ d ++ b.drop (off + d.length)

theorem splice_length (b : Bytes) (off : Nat) (d : Bytes) (h : off + d.length ≤ b.length) :
    (splice b off d).length = b.length := by
  simp [splice]; omega

theorem slice_splice_same (b : Bytes) (off : Nat) (d : Bytes) (h : off + d.length ≤ b.length) :
    slice (splice b off d) off d.length = d := by
  have h1 : (b.take off).length = off := by simp; omega
  simp [slice, splice, h1]

/-- bytes before the written window are untouched -/
theorem splice_getElem?_lt (b : Bytes) (off : Nat) (d : Bytes) (i : Nat)
    (hi : i < off) (h : off + d.length ≤ b.length) :
    (splice b off d)[i]? = b[i]? := by
  have h1 : (b.take off).length = off := by simp; omega
  simp only [splice, List.append_assoc]
  rw [List.getElem?_append_left (by omega)]
  simp [hi]

/-- bytes after the written window are untouched -/
theorem splice_getElem?_ge (b : Bytes) (off : Nat) (d : Bytes) (i : Nat)
    (hi : off + d.length ≤ i) (h : off + d.length ≤ b.length) :
    (splice b off d)[i]? = b[i]? := by
  have h1 : (b.take off).length = off := by simp; omega
  simp only [splice, List.append_assoc]
  rw [List.getElem?_append_right (by omega), List.getElem?_append_right (by omega)]
  simp only [h1, List.getElem?_drop]
  congr 1; omega

theorem splice_slice_self (b : Bytes) (off len : Nat) (h : off + len ≤ b.length) :
    splice b off (slice b off len) = b := by
  have hl : (slice b off len).length = len := slice_length b off len h
  unfold splice
  rw [hl]
  unfold slice
  have h2 : List.drop (off + len) b = List.drop len (List.drop off b) := by
    rw [List.drop_drop]
  rw [h2, List.append_assoc, List.take_append_drop, List.take_append_drop]

end Fiano

namespace Fiano

theorem slice_mid (p m s : Bytes) (off len : Nat) (hp : p.length = off) (hm : m.length = len) :
    slice (p ++ m ++ s) off len = m := by
  subst hp hm
  simp [slice]

theorem slice_mid' (p m : Bytes) (off len : Nat) (hp : p.length = off) (hm : m.length = len) :
    slice (p ++ m) off len = m := by
  have := slice_mid p m [] off len hp hm
  simpa using this

theorem slice_zero_all (b : Bytes) (n : Nat) (h : b.length = n) : slice b 0 n = b := by
  subst h; simp [slice]

theorem slice_slice (b : Bytes) (o l o' l' : Nat) (h : o' + l' ≤ l) :
    slice (slice b o l) o' l' = slice b (o + o') l' := by
  simp only [slice]
  rw [List.drop_take, List.take_take, List.drop_drop]
  congr 1
  omega

theorem slice_eq_of_append (b : Bytes) (o l : Nat) (h : o + l ≤ b.length) :
    b = b.take o ++ slice b o l ++ b.drop (o + l) := by
  have := splice_slice_self b o l h
  unfold splice at this
  rw [slice_length b o l h] at this
  exact this.symm

/-- splitting a slice in two consecutive pieces -/
theorem slice_add (b : Bytes) (o l1 l2 : Nat) :
    slice b o (l1 + l2) = slice b o l1 ++ slice b (o + l1) l2 := by
  simp only [slice]
  rw [← List.drop_drop, List.take_add]

end Fiano
