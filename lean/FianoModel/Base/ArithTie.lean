/-
  Theorems stated directly about integer functions *translated from the Go source* on every run
  (translator kind `exprfn`, Gen/ArithUefi.lean, Gen/ArithFit.lean): the tie is by construction.
-/
import FianoModel.Gen.ArithUefi
import FianoModel.Gen.ArithFit

namespace Fiano.ArithTie
open Fiano.Gen

/-- masking with `2^64 - 2^k` clears the low `k` bits -/
theorem and_high_mask (x k : Nat) (hk : k ≤ 64) (hx : x < 2 ^ 64) :
    x &&& (2 ^ 64 - 2 ^ k) = x / 2 ^ k * 2 ^ k := by
  have hm : 2 ^ 64 - 2 ^ k = 2 ^ k * (2 ^ (64 - k) - 1) := by
    rw [Nat.mul_sub_one, ← Nat.pow_add]
    congr 2; omega
  apply Nat.eq_of_testBit_eq
  intro i
  rw [Nat.testBit_and, hm, Nat.testBit_two_pow_mul, Nat.testBit_mul_two_pow, Nat.testBit_div_two_pow,
    Nat.testBit_two_pow_sub_one]
  by_cases hik : k ≤ i
  · have e : i - k + k = i := by omega
    rw [e]
    by_cases hi : i < 64
    · have : i - k < 64 - k := by omega
      simp [hik, this]
    · have : x.testBit i = false := Nat.testBit_lt_two_pow (Nat.lt_of_lt_of_le hx (Nat.pow_le_pow_right (by omega) (by omega)))
      simp [this]
  · simp [hik]

/-- **`uefi.Align` (as translated from the source)** rounds `val` up to the next multiple of a
    power-of-two `base`, provided `val + base` does not wrap.  The hypothesis "power of two" is
    real: the code calls it with block sizes read from the image. -/
theorem align_spec (v : UInt64) (k : Nat) (hk : k < 64) (h : v.toNat + 2 ^ k < 2 ^ 64) :
    (ArithUefi.fn_Align v (UInt64.ofNat (2 ^ k))).toNat = (v.toNat + 2 ^ k - 1) / 2 ^ k * 2 ^ k := by
  have hp : 2 ^ k < 2 ^ 64 := Nat.pow_lt_pow_right (by omega) hk
  have hpos : 0 < 2 ^ k := Nat.two_pow_pos k
  have hb : (UInt64.ofNat (2 ^ k)).toNat = 2 ^ k := by
    simp [UInt64.toNat_ofNat']; omega
  have hmask := and_high_mask (v.toNat + 2 ^ k - 1) k (by omega) (by omega)
  have h64 : (2:Nat) ^ 64 = 18446744073709551616 := by decide
  generalize hpk : 2 ^ k = p at *
  have hle1 : (1 : UInt64) ≤ UInt64.ofNat p := by
    rw [UInt64.le_iff_toNat_le, hb]; simp; omega
  have hsum : (v + UInt64.ofNat p).toNat = v.toNat + p := by
    rw [UInt64.toNat_add, hb]; exact Nat.mod_eq_of_lt (by omega)
  have hle2 : (1 : UInt64) ≤ v + UInt64.ofNat p := by
    rw [UInt64.le_iff_toNat_le, hsum]; simp; omega
  unfold ArithUefi.fn_Align
  rw [UInt64.toNat_and, UInt64.toNat_not, UInt64.toNat_sub_of_le _ _ hle1, UInt64.toNat_sub_of_le _ _ hle2,
    hsum, hb]
  simp only [UInt64.toNat_one, UInt64.size]
  have e : 18446744073709551616 - 1 - (p - 1) = 2 ^ 64 - p := by omega
  rw [e]
  exact hmask

theorem align8_spec (v : UInt64) (h : v.toNat + 8 < 2 ^ 64) :
    (ArithUefi.fn_Align8 v).toNat = (v.toNat + 7) / 8 * 8 := by
  have := align_spec v 3 (by omega) (by omega)
  simpa [ArithUefi.fn_Align8] using this

theorem align4_spec (v : UInt64) (h : v.toNat + 4 < 2 ^ 64) :
    (ArithUefi.fn_Align4 v).toNat = (v.toNat + 3) / 4 * 4 := by
  have := align_spec v 2 (by omega) (by omega)
  simpa [ArithUefi.fn_Align4] using this

/-- a base that is not a power of two breaks the bit trick (witness for the forced hypothesis) -/
theorem align_non_pow2_wrong : (ArithUefi.fn_Align 13 12).toNat ≠ 24 := by decide

/-! ### FIT physical address ↔ image offset (as translated from calc_offset.go) -/

/-- the two conversions are mutually inverse for **every** offset and image size (the uint64
    arithmetic wraps consistently, so no hypothesis is needed) -/
theorem fit_off_addr_off (off size : UInt64) :
    ArithFit.fn_CalculateOffsetFromPhysAddr (ArithFit.fn_CalculatePhysAddrFromOffset off size) size = off := by
  unfold ArithFit.fn_CalculateOffsetFromPhysAddr ArithFit.fn_CalculatePhysAddrFromOffset
  simp only
  rw [UInt64.add_comm, UInt64.add_sub_cancel]

theorem fit_addr_off_addr (addr size : UInt64) :
    ArithFit.fn_CalculatePhysAddrFromOffset (ArithFit.fn_CalculateOffsetFromPhysAddr addr size) size = addr := by
  unfold ArithFit.fn_CalculateOffsetFromPhysAddr ArithFit.fn_CalculatePhysAddrFromOffset
  simp only
  rw [UInt64.add_comm, UInt64.sub_add_cancel]

/-- inside an image that ends at 4 GiB the physical address is the expected plain number -/
theorem fit_addr_value (off size : UInt64) (hs : size.toNat ≤ 2 ^ 32) (ho : off.toNat < size.toNat) :
    (ArithFit.fn_CalculatePhysAddrFromOffset off size).toNat = 2 ^ 32 - size.toNat + off.toNat := by
  unfold ArithFit.fn_CalculatePhysAddrFromOffset
  simp only
  rw [UInt64.toNat_add, UInt64.toNat_sub_of_le]
  · have : (4294967296 : UInt64).toNat = 2 ^ 32 := by decide
    rw [this]; exact Nat.mod_eq_of_lt (by omega)
  · rw [UInt64.le_iff_toNat_le]
    have : (4294967296 : UInt64).toNat = 2 ^ 32 := by decide
    rw [this]; exact hs

end Fiano.ArithTie
