/-
  Go-semantics error monad for the totality properties (C05, C20).

  A model function written in `GoM` performs every slice / index / allocation of the Go code
  through the primitives below, which *fault* exactly where the Go runtime would panic:
    b[lo:hi]   panics unless lo ≤ hi ≤ len(b)        (`sliceG`)
    b[i]       panics unless i < len(b)              (`indexG`)
    make(n)    is recorded in the allocation meter    (`allocG`)
  Loops that are not structurally decreasing take fuel; running out of fuel is the fault
  `fuel` ("loops without consuming input").  A totality theorem then states that for every
  input the result is a value or `err` — never `panic`, never `fuel` — and that the meter
  stays within a bound that is linear in the input (plus what was actually decompressed).
-/
import FianoModel.Base.Bytes

namespace Fiano

inductive Fault where
  | err                 -- an ordinary Go `error` return
  | panic (site : String)
  | fuel                -- the loop made no progress for |input|+c iterations
  deriving Repr, DecidableEq, Inhabited

/-- bytes allocated with `make` so far, and bytes produced by decompressors -/
structure Meter where
  alloc : Nat := 0
  decompressed : Nat := 0
  deriving Repr, DecidableEq, Inhabited

abbrev GoM (α : Type) := StateT Meter (Except Fault) α

namespace GoM

def err {α} : GoM α := fun _ => .error .err
def goPanic {α} (site : String) : GoM α := fun _ => .error (.panic site)
def outOfFuel {α} : GoM α := fun _ => .error .fuel

/-- `b[lo:hi]` -/
def sliceG (site : String) (b : Bytes) (lo hi : Nat) : GoM Bytes :=
  if lo ≤ hi ∧ hi ≤ b.length then pure ((b.drop lo).take (hi - lo)) else goPanic site

/-- `b[lo:]` -/
def sliceFromG (site : String) (b : Bytes) (lo : Nat) : GoM Bytes :=
  if lo ≤ b.length then pure (b.drop lo) else goPanic site

/-- `b[:hi]` -/
def sliceToG (site : String) (b : Bytes) (hi : Nat) : GoM Bytes :=
  if hi ≤ b.length then pure (b.take hi) else goPanic site

/-- `b[i]` -/
def indexG (site : String) (b : Bytes) (i : Nat) : GoM UInt8 :=
  match b[i]? with
  | some x => pure x
  | none => goPanic site

/-- `make([]T, n)` with elements of `elemSize` bytes -/
def allocG (n elemSize : Nat) : GoM Unit :=
  modify (fun m => { m with alloc := m.alloc + n * elemSize })

/-- `binary.Read(r, order, &fixedSizeValue)`: consumes exactly `n` bytes or fails with an error -/
def binaryReadG (r : Bytes) (n : Nat) : GoM (Bytes × Bytes) :=
  if n ≤ r.length then pure (r.take n, r.drop n) else err

/-- a result is *safe* when it is a value or an ordinary error -/
def Safe {α} (r : Except Fault (α × Meter)) : Prop :=
  match r with
  | .ok _ => True
  | .error .err => True
  | .error (.panic _) => False
  | .error .fuel => False

instance {α} (r : Except Fault (α × Meter)) : Decidable (Safe r) := by
  unfold Safe; split <;> infer_instance

theorem safe_pure {α} (a : α) (m : Meter) : Safe ((pure a : GoM α) m) := by
  simp [Safe, pure, StateT.pure, Except.pure]

theorem safe_err {α} (m : Meter) : Safe ((err : GoM α) m) := by simp [Safe, err]

/-- sequencing preserves safety when the continuation is safe on every intermediate state -/
theorem safe_bind {α β} (x : GoM α) (f : α → GoM β) (m : Meter)
    (hx : Safe (x m)) (hf : ∀ a m', x m = .ok (a, m') → Safe (f a m')) : Safe ((x >>= f) m) := by
  simp only [bind, StateT.bind]
  cases h : x m with
  | error e =>
    rw [h] at hx
    cases e <;> simp_all [Safe, Except.bind]
  | ok r =>
    obtain ⟨a, m'⟩ := r
    simpa [Except.bind] using hf a m' h

theorem sliceG_safe (site : String) (b : Bytes) (lo hi : Nat) (m : Meter) (h : lo ≤ hi ∧ hi ≤ b.length) :
    Safe (sliceG site b lo hi m) := by
  simp [sliceG, h, Safe, pure, StateT.pure, Except.pure]

theorem sliceFromG_safe (site : String) (b : Bytes) (lo : Nat) (m : Meter) (h : lo ≤ b.length) :
    Safe (sliceFromG site b lo m) := by
  simp [sliceFromG, h, Safe, pure, StateT.pure, Except.pure]

theorem sliceToG_safe (site : String) (b : Bytes) (hi : Nat) (m : Meter) (h : hi ≤ b.length) :
    Safe (sliceToG site b hi m) := by
  simp [sliceToG, h, Safe, pure, StateT.pure, Except.pure]

theorem indexG_safe (site : String) (b : Bytes) (i : Nat) (m : Meter) (h : i < b.length) :
    Safe (indexG site b i m) := by
  have : b[i]? = some b[i] := List.getElem?_eq_getElem h
  simp [indexG, this, Safe, pure, StateT.pure, Except.pure]

theorem binaryReadG_safe (r : Bytes) (n : Nat) (m : Meter) : Safe (binaryReadG r n m) := by
  unfold binaryReadG; split <;> simp [Safe, pure, StateT.pure, Except.pure, err]

end GoM
end Fiano
