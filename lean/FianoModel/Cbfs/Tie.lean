/-
  T1 tie for pkg/cbfs: the model's constants, packed layouts, byte order and the shape of the
  parser (how the variable-length parts are read, which fields the record constructors overwrite)
  are compared with the facts regenerated from the Go source (FianoModel/Gen/Cbfs.lean) on every build.
  Facts about *text* are stated as counts where a local rename must not matter. Allocation / slice /
  index site inventories of the parser belong to C20 (totality), not to this property.
-/
import FianoModel.Cbfs.Model
import FianoModel.Gen.Cbfs

namespace Fiano.Cbfs
open Fiano.Gen

/-! constants -/
theorem tie_magic : magic = Gen.Cbfs.FileMagic.map UInt8.ofNat := by decide
theorem tie_hdrSize : hdrSize = Gen.Cbfs.FileSize ∧ hdrSize = Gen.Cbfs.size_FileHeader := by decide
theorem tie_emptyTypes : typeDeleted = Gen.Cbfs.TypeDeleted ∧ typeDeleted2 = Gen.Cbfs.TypeDeleted2 := by decide
theorem tie_readerTypes : typeLegacyStage = Gen.Cbfs.TypeLegacyStage ∧ typeSELF = Gen.Cbfs.TypeSELF := by decide
theorem tie_tags : tagUnused = Gen.Cbfs.Unused ∧ tagUnused2 = Gen.Cbfs.Unused2 ∧
    tagCompressed = Gen.Cbfs.Compressed := by decide
theorem tie_compression : compNone = Gen.Cbfs.None ∧ compLZMA = Gen.Cbfs.LZMA ∧ compLZ4 = Gen.Cbfs.LZ4 := by decide
theorem tie_segEntry : segEntry = Gen.Cbfs.SegEntry := by decide

/-- the types that get a reader with a behaviour of its own are pairwise distinct from every other
    registered constant the model treats as "plain" -/
theorem tie_types_distinct :
    [Gen.Cbfs.TypeDeleted, Gen.Cbfs.TypeDeleted2, Gen.Cbfs.TypeLegacyStage, Gen.Cbfs.TypeSELF].Nodup ∧
    ∀ t ∈ [Gen.Cbfs.TypeBootBlock, Gen.Cbfs.TypeMaster, Gen.Cbfs.TypeStage, Gen.Cbfs.TypeOptionRom,
           Gen.Cbfs.TypeBootSplash, Gen.Cbfs.TypeRaw, Gen.Cbfs.TypeMicroCode, Gen.Cbfs.TypeFSP,
           Gen.Cbfs.TypeCMOS, Gen.Cbfs.TypeSPD, Gen.Cbfs.TypeCMOSLayout],
      t ∉ [Gen.Cbfs.TypeDeleted, Gen.Cbfs.TypeDeleted2, Gen.Cbfs.TypeLegacyStage, Gen.Cbfs.TypeSELF] := by
  decide

/-! packed layouts (field order and widths used by the decoders of the model) -/
theorem tie_layout_FileHeader : Gen.Cbfs.layout_FileHeader =
    [("Magic", 8), ("Size", 4), ("Type", 4), ("AttrOffset", 4), ("SubHeaderOffset", 4)] := by decide
theorem tie_layout_FileAttr : Gen.Cbfs.layout_FileAttr = [("Tag", 4), ("Size", 4)] ∧
    attrHdrSize = Gen.Cbfs.size_FileAttr := by decide
theorem tie_layout_FileAttrCompression : Gen.Cbfs.layout_FileAttrCompression =
    [("Tag", 4), ("Size", 4), ("Compression", 4), ("DecompressedSize", 4)] ∧
    attrCompSize = Gen.Cbfs.size_FileAttrCompression := by decide
theorem tie_layout_StageHeader : Gen.Cbfs.layout_StageHeader =
    [("Compression", 4), ("Entry", 8), ("LoadAddress", 8), ("Size", 4), ("MemSize", 4)] ∧
    stageHdrSize = Gen.Cbfs.size_StageHeader ∧ stageSizeOff = 4 + 8 + 8 := by decide
theorem tie_layout_PayloadHeader : Gen.Cbfs.layout_PayloadHeader =
    [("Type", 4), ("Compression", 4), ("Offset", 4), ("LoadAddress", 8), ("Size", 4), ("MemSize", 4)] ∧
    payloadHdrSize = Gen.Cbfs.size_PayloadHeader := by decide

/-! byte order: everything big endian through `Read`, except the legacy stage header -/
theorem tie_endian : Gen.Cbfs.Endian = "binary.BigEndian" := by decide
theorem tie_read_calls : Gen.Cbfs.calls_Read_binary_Read.length = 1 ∧
    Gen.Cbfs.calls_ReadLE_binary_Read.length = 1 ∧
    Gen.Cbfs.calls_NewFile_Read.length = 1 ∧
    Gen.Cbfs.calls_LegacyStageRecord_Read_ReadLE.length = 1 ∧
    Gen.Cbfs.calls_PayloadRecord_Read_Read.length = 1 ∧
    Gen.Cbfs.calls_File_FindAttribute_binary_Read.length = 2 ∧
    Gen.Cbfs.calls_File_Compression_binary_Read.length = 1 := by decide

/-- name, attributes and data are read with `io.ReadFull` (fix C19-area-end-eof: a zero-length
    read at the end of the area is not an end of archive, a short read is an error) -/
theorem tie_readfull : Gen.Cbfs.calls_ReadName_io_ReadFull.length = 1 ∧
    Gen.Cbfs.calls_ReadAttributes_io_ReadFull.length = 1 ∧
    Gen.Cbfs.calls_ReadData_io_ReadFull.length = 1 := by decide

/-- which fields the record constructors / readers overwrite: the empty record its attributes and
    data (and nothing else — not the type), the unknown record nothing, the payload reader its own
    `Segs` and `Data` (not `FData`), the legacy stage reader its own `Data` -/
theorem tie_overwrites : Gen.Cbfs.assigns_NewEmptyRecord.length = 2 ∧
    Gen.Cbfs.assigns_NewUnknownRecord = [] ∧
    Gen.Cbfs.assigns_PayloadRecord_Read.length = 2 ∧
    Gen.Cbfs.assigns_LegacyStageRecord_Read.length = 1 ∧
    Gen.Cbfs.assigns_NewFile.length = 1 ∧
    Gen.Cbfs.assigns_Image_WriteFile = [] := by decide

end Fiano.Cbfs
