/-
  T1 tie for pkg/cbfs: the model's constants, packed layouts, byte order and the shape of the
  parser (how the variable-length parts are read, which fields the record constructors overwrite)
  are compared with the facts regenerated from the Go source (FianoModel/Gen/Cbfs.lean) on every build.
  Facts about *text* are stated as counts where a local rename must not matter. Allocation / slice /
  index site inventories of the parser belong to C20 (totality), not to this property.
-/
import FianoModel.Cbfs.Model
import FianoModel.Cbfs.Present
import FianoModel.Cbfs.Keep
import FianoModel.Gen.Cbfs

namespace Fiano.Cbfs
open Fiano.Gen

/-! constants -/
theorem tie_magic : magic = Gen.Cbfs.FileMagic.map UInt8.ofNat := by decide
theorem tie_hdrSize : hdrSize = Gen.Cbfs.FileSize ∧ hdrSize = Gen.Cbfs.size_FileHeader := by decide
theorem tie_emptyTypes : typeDeleted = Gen.Cbfs.TypeDeleted ∧ typeDeleted2 = Gen.Cbfs.TypeDeleted2 := by decide
theorem tie_readerTypes : typeLegacyStage = Gen.Cbfs.TypeLegacyStage ∧ typeSELF = Gen.Cbfs.TypeSELF := by decide
theorem tie_tags : tagUnused = Gen.Cbfs.Unused ∧ tagUnused2 = Gen.Cbfs.Unused2 ∧
    tagCompressed = Gen.Cbfs.Compressed := by decide
theorem tie_compression : compNone = Gen.Cbfs.None ∧ compLZMA = Gen.Cbfs.LZMA ∧ compLZ4 = Gen.Cbfs.LZ4 := by decide
theorem tie_segEntry : segEntry = Gen.Cbfs.SegEntry := by decide

/-- the types that get a reader with a behaviour of its own are pairwise distinct from every other
    registered constant the model treats as "plain" -/
theorem tie_types_distinct :
    [Gen.Cbfs.TypeDeleted, Gen.Cbfs.TypeDeleted2, Gen.Cbfs.TypeLegacyStage, Gen.Cbfs.TypeSELF].Nodup ∧
    ∀ t ∈ [Gen.Cbfs.TypeBootBlock, Gen.Cbfs.TypeMaster, Gen.Cbfs.TypeStage, Gen.Cbfs.TypeOptionRom,
           Gen.Cbfs.TypeBootSplash, Gen.Cbfs.TypeRaw, Gen.Cbfs.TypeMicroCode, Gen.Cbfs.TypeFSP,
           Gen.Cbfs.TypeCMOS, Gen.Cbfs.TypeSPD, Gen.Cbfs.TypeCMOSLayout],
      t ∉ [Gen.Cbfs.TypeDeleted, Gen.Cbfs.TypeDeleted2, Gen.Cbfs.TypeLegacyStage, Gen.Cbfs.TypeSELF] := by
  decide

/-! packed layouts (field order and widths used by the decoders of the model) -/
theorem tie_layout_FileHeader : Gen.Cbfs.layout_FileHeader =
    [("Magic", 8), ("Size", 4), ("Type", 4), ("AttrOffset", 4), ("SubHeaderOffset", 4)] := by decide
theorem tie_layout_FileAttr : Gen.Cbfs.layout_FileAttr = [("Tag", 4), ("Size", 4)] ∧
    attrHdrSize = Gen.Cbfs.size_FileAttr := by decide
theorem tie_layout_FileAttrCompression : Gen.Cbfs.layout_FileAttrCompression =
    [("Tag", 4), ("Size", 4), ("Compression", 4), ("DecompressedSize", 4)] ∧
    attrCompSize = Gen.Cbfs.size_FileAttrCompression := by decide
theorem tie_layout_StageHeader : Gen.Cbfs.layout_StageHeader =
    [("Compression", 4), ("Entry", 8), ("LoadAddress", 8), ("Size", 4), ("MemSize", 4)] ∧
    stageHdrSize = Gen.Cbfs.size_StageHeader ∧ stageSizeOff = 4 + 8 + 8 := by decide
theorem tie_layout_PayloadHeader : Gen.Cbfs.layout_PayloadHeader =
    [("Type", 4), ("Compression", 4), ("Offset", 4), ("LoadAddress", 8), ("Size", 4), ("MemSize", 4)] ∧
    payloadHdrSize = Gen.Cbfs.size_PayloadHeader := by decide

/-! byte order: everything big endian through `Read`, except the legacy stage header -/
theorem tie_endian : Gen.Cbfs.Endian = "binary.BigEndian" := by decide
theorem tie_read_calls : Gen.Cbfs.calls_Read_binary_Read.length = 1 ∧
    Gen.Cbfs.calls_ReadLE_binary_Read.length = 1 ∧
    Gen.Cbfs.calls_NewFile_Read.length = 1 ∧
    Gen.Cbfs.calls_LegacyStageRecord_Read_ReadLE.length = 1 ∧
    Gen.Cbfs.calls_PayloadRecord_Read_Read.length = 1 ∧
    Gen.Cbfs.calls_File_FindAttribute_binary_Read.length = 2 ∧
    Gen.Cbfs.calls_File_Compression_binary_Read.length = 1 := by decide

/-- name, attributes and data are read with `io.ReadFull` (fix C19-area-end-eof: a zero-length
    read at the end of the area is not an end of archive, a short read is an error) -/
theorem tie_readfull : Gen.Cbfs.calls_ReadName_io_ReadFull.length = 1 ∧
    Gen.Cbfs.calls_ReadAttributes_io_ReadFull.length = 1 ∧
    Gen.Cbfs.calls_ReadData_io_ReadFull.length = 1 := by decide

/-- which fields the record constructors / readers overwrite: the empty record its attributes and
    data (and nothing else — not the type; model `newImage`) or, as repaired by
    fixes/C19-update-empty-identity.diff, nothing (model `newImageK`, Cbfs/Keep.lean; the harness observes
    which of the two the tree contains), the unknown record nothing, the payload reader its own
    `Segs` and `Data` (not `FData`), the legacy stage reader its own `Data` -/
theorem tie_overwrites : (Gen.Cbfs.assigns_NewEmptyRecord.length = 2 ∨ Gen.Cbfs.assigns_NewEmptyRecord = []) ∧
    Gen.Cbfs.assigns_NewUnknownRecord = [] ∧
    Gen.Cbfs.assigns_PayloadRecord_Read.length = 2 ∧
    Gen.Cbfs.assigns_LegacyStageRecord_Read.length = 1 ∧
    Gen.Cbfs.assigns_NewFile.length = 1 ∧
    Gen.Cbfs.assigns_Image_WriteFile = [] := by decide

/-! ## follow-up wp-c19b: the write-back (`Image.Update`, the `Write` methods) -/

/-- what the `Write` method of the record type created for type `t` emits, in the vocabulary of the
    extracted facts — this is the case analysis of `writeSeg` (Cbfs/Write.lean); `t = 2^32` stands for
    every unregistered type (the fallback constructor of `NewImage`) -/
def writeDescOf (t : Nat) : String :=
  if isEmptyType t then "Write:File.FData"
  else if t = typeLegacyStage then "WriteLE:StageHeader+Write:Data"
  else if t = typeStage then "Write:Data"
  else if t = typeSELF then "Write:Segs+Write:Data"
  else "Write:File.FData"

/-- … and before the repair: the master header record emits its (never decoded) `MasterHeader` -/
def writeDescHeadOf (t : Nat) : String := if t = typeMaster then "Write:MasterHeader" else writeDescOf t

/-- the arguments of `recString` in the `String` method of the record type created for type `t`, as
    canonical selector paths from the record type (the translator resolves promoted fields and methods, so
    `r.Size` on a record that embeds a second struct with a `Size` field shows up as that other field) — the
    case analysis of `segString` (Cbfs/Present.lean): name or `(empty)`, record start, type name, the FILE
    HEADER's size, the compression attribute or — empty space only — the constant `none`; a payload appends
    its segment lines -/
def stringDescOf (t : Nat) : String :=
  if isEmptyType t then
    "\"(empty)\",File.RecordStart,File.FileHeader.Type.String(),File.FileHeader.Size,\"none\""
  else if t = typeSELF then
    "File.Name,File.RecordStart,File.FileHeader.Type.String(),File.FileHeader.Size,File.Compression().String()+segs"
  else "File.Name,File.RecordStart,File.FileHeader.Type.String(),File.FileHeader.Size,File.Compression().String()"

/-- the reader registration table: which types have a reader of their own, each constructor builds the
    record type of its name; every other type goes to `NewUnknownRecord` -/
theorem tie_records_types : Gen.Cbfs.records.map (fun r => (r.1, r.2.1, r.2.2.1)) =
    [(0, "NewEmptyRecord", "EmptyRecord"), (1, "NewBootBlock", "BootBlockRecord"), (2, "NewMaster", "MasterRecord"),
     (0x10, "NewLegacyStageRecord", "LegacyStageRecord"), (0x11, "NewStageRecord", "StageRecord"),
     (0x20, "NewPayloadRecord", "PayloadRecord"), (0x30, "NewOptionROM", "OptionROMRecord"),
     (0x40, "NewBootSplash", "BootSplashRecord"), (0x50, "NewRaw", "RawRecord"), (0x53, "NewMicrocode", "MicrocodeRecord"),
     (0x60, "NewFSP", "FSPRecord"), (0xaa, "NewCMOS", "CMOSRecord"), (0xab, "NewSPD", "SPDRecord"),
     (0x1aa, "NewCMOSLayout", "CMOSLayoutRecord"), (0xffffffff, "NewEmptyRecord", "EmptyRecord"),
     (2 ^ 32, "NewUnknownRecord", "UnknownRecord")] := by decide

theorem tie_typeMaster : typeMaster = Gen.Cbfs.TypeMaster ∧ typeStage = Gen.Cbfs.TypeStage ∧
    masterHdrLen = Gen.Cbfs.MasterHeaderLen ∧ masterHdrLen = Gen.Cbfs.size_MasterHeader := by decide

/-- the `Write` methods and the shape of the `Update` loop are those of ONE of the two modelled
    variants: as repaired by fixes/C19-update-in-place.diff (`writeSeg`, `update`: four `copy` calls —
    header, name field, attributes, data — and the master record writes `FData`), or as before it
    (`writeSegHead`, `updateHead`: one `copy`, the master record writes `MasterHeader`). The harness picks
    the model variant by observing the real `Update` on a probe archive. -/
theorem tie_update_variant :
    (Gen.Cbfs.records.all (fun r => r.2.2.2.1 == writeDescOf r.1) = true ∧
      Gen.Cbfs.builtins_Image_Update = [("copy", 2), ("copy", 2), ("copy", 2), ("copy", 2), ("len", 1)]) ∨
    (Gen.Cbfs.records.all (fun r => r.2.2.2.1 == writeDescHeadOf r.1) = true ∧
      Gen.Cbfs.builtins_Image_Update = [("copy", 2), ("len", 1), ("len", 1)]) := by decide

/-- the header is written once per record through `Write` (big endian), the legacy stage header through
    `WriteLE` -/
theorem tie_write_calls : Gen.Cbfs.calls_Image_Update_Write.length = 1 ∧
    Gen.Cbfs.calls_Write_binary_Write.length = 1 ∧ Gen.Cbfs.calls_WriteLE_binary_Write.length = 1 := by decide

/-! ## follow-up wp-c19b: the presentation -/

/-- what every `String` method passes to `recString` (code as repaired by
    fixes/C19-list-compression-const.diff: only empty space prints the constant `none`) -/
theorem tie_string_methods :
    Gen.Cbfs.records.all (fun r => r.2.2.2.2 == stringDescOf r.1) = true := by decide

/-- the format strings of the model's `Sprintf` calls are the literals in the source -/
theorem tie_formats : Gen.Cbfs.strlits_recString = [recFormat] ∧
    Gen.Cbfs.strlits_Image_String =
      ["\n", headerFormat, "Comp", "FMAP REGIOName: COREBOOT\n", "Name", "Offset", "Size", "Type"] ∧
    Gen.Cbfs.strlits_PayloadRecord_String = ["\n", segNameFormat] ∧
    unknownTypeFormat ∈ Gen.Cbfs.strlits_FileType_String := by decide

/-- the name tables are the switches of the `String` methods (cases sorted by their constant, which
    are pairwise distinct); each method has exactly one more literal, its default -/
theorem tie_name_tables : typeNames = Gen.Cbfs.switch_FileType_String ∧
    (typeNames.map (·.1)).Nodup ∧ (segTypeNames.map (·.1)).Nodup ∧
    compNames = Gen.Cbfs.switch_Compression_String ∧ segTypeNames = Gen.Cbfs.switch_SegmentType_String ∧
    Gen.Cbfs.strlits_FileType_String.length = typeNames.length + 1 ∧
    Gen.Cbfs.strlits_Compression_String = ["lz4", "lzma", "none", "unknown"] ∧
    Gen.Cbfs.strlits_SegmentType_String = ["bss", "code", "data", "entry", "params", "unknown"] := by decide

/-- JSON: the key order is the field order of the marshalled structs, and each key gets the value the
    model gives it -/
theorem tie_json_fields : keysImage = Gen.Cbfs.fields_mImage ∧ keysFile = Gen.Cbfs.fields_mFile ∧
    keysPayload = Gen.Cbfs.fields_mPayloadRecord ∧ keysSegment = Gen.Cbfs.fields_mPayloadHeader := by decide

theorem tie_json_values :
    Gen.Cbfs.keyedlit_Image_MarshalJSON = ["Segments=Segs", "Offset=Area.Offset"] ∧
    Gen.Cbfs.keyedlit_File_MarshalJSON = ["Name=Name", "Start=RecordStart", "Size=FileHeader.Size",
      "Type=FileHeader.Type.String()", "Compression=Compression().String()"] ∧
    Gen.Cbfs.keyedlit_PayloadRecord_MarshalJSON = ["Name=File.Name", "Start=File.RecordStart",
      "Size=File.FileHeader.Size", "Type=File.FileHeader.Type.String()", "Segments=Segs",
      "Compression=File.Compression().String()"] ∧
    Gen.Cbfs.keyedlit_PayloadHeader_MarshalJSON = ["Type=Type.String()", "Compression=Compression.String()",
      "Offset=Offset", "LoadAddress=LoadAddress", "Size=Size", "MemSize=MemSize"] := by decide

/-! ## follow-up wp-c19c: empty-space records, `Image.Remove` -/

/-- who fills in the content of an empty-space record: before fixes/C19-update-empty-identity.diff the
    constructor `NewEmptyRecord` (2 assignments: `Attr`, `FData`; model `newImage`, `removedSeg false`) and
    `Remove` sets 5 header / name fields and `i.Segs`; as repaired the constructor assigns nothing (model
    `newImageK`) and `Remove` sets `Attr` and `FData` as well (`removedSeg true`). One more assignment in
    either case when `Remove` also moves `RecordStart` to the start of the merged range
    (fixes/C19-remove-merge-start.diff, model `removeSegs _ true`). Counts, so a local rename does not matter;
    the harness observes the variants (`emptyVariant`, `removeVariant`) for the T2 tie. -/
theorem tie_empty_variant :
    (Gen.Cbfs.assigns_NewEmptyRecord.length = 2 ∧
      (Gen.Cbfs.assigns_Image_Remove.length = 6 ∨ Gen.Cbfs.assigns_Image_Remove.length = 7)) ∨
    (Gen.Cbfs.assigns_NewEmptyRecord = [] ∧
      (Gen.Cbfs.assigns_Image_Remove.length = 8 ∨ Gen.Cbfs.assigns_Image_Remove.length = 9)) := by decide

/-- `Remove` refuses the bootblock at the end of the archive: the type constant; the erased content is
    `ffbyte` (tied as code by Cbfs/CodeTie.lean) -/
theorem tie_bootblock : typeBootBlock = Gen.Cbfs.TypeBootBlock := by decide

end Fiano.Cbfs
