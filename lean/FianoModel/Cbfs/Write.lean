/-
  Model of the re-serialising write-back of pkg/cbfs: `Image.Update` (image.go), `Write` / `WriteLE`
  (fns.go) and the `Write` method of every record type (raw.go, unknown.go, bootblock.go, … :
  `Write(w, r.FData)`; empty.go: `Write(w, r.FData)` with the 0xFF content `NewEmptyRecord` made;
  stage.go: legacy stage = little-endian `StageHeader` then `Data`, stage = `Data` which is never set;
  payload.go: the segment headers then `Data`; master.go).

  Two variants of `Update` are modelled, statement by statement:
   * `update`      — the code AS REPAIRED by fixes/C19-update-in-place.diff: header at `RecordStart`,
                     name field left alone unless the name changed, attributes at `AttrOffset`, the
                     record's `Write` output at `SubHeaderOffset`; `MasterRecord.Write` emits `FData`.
   * `updateHead`  — the code before that repair (fiano a65983d): header ‖ Attr ‖ `Write` output copied
                     contiguously to `RecordStart` (the name field is not re-emitted), `MasterRecord.Write`
                     emits the never-decoded `MasterHeader` (32 zero bytes). Kept as the formal record of the
                     finding C19-update-not-identity (witnesses in Cbfs/UpdateHead.lean).
  The typed state a record reader keeps (`PayloadRecord.Segs/Data`, `LegacyStageRecord.StageHeader/Data`)
  is a function of `File.FData` (the reader gets `bytes.NewReader(f.FData)`), so it is recomputed here
  from the file the listing holds; nothing between `NewImage` and `Update` changes it.
  T2: harness op `update` (Driver/C19.lean) compares the bytes of `Image.Data` after the real `Update`.
-/
import FianoModel.Cbfs.Model

namespace Fiano.Cbfs

def typeMaster : Nat := 2
def typeStage : Nat := 0x11
def masterHdrLen : Nat := 32       -- binary.Size(MasterHeader{}) = MasterHeaderLen

/-! ### `Write(w, f.FileHeader)`: the 24-byte big-endian header -/

/-- `binary.Write(w, BigEndian, FileHeader)`; `Magic` holds the bytes that were read, and `NewFile`
    only returns a file whose magic is `LARCHIVE` -/
def hdrBytes (f : File) : Bytes :=
  magic ++ (beN 4 f.size ++ (beN 4 f.type ++ (beN 4 f.attrOff ++ beN 4 f.subOff)))

/-! ### typed sub-headers -/

/-- `PayloadHeader` (big endian, 28 bytes) -/
structure PayloadHeader where
  type     : Nat
  comp     : Nat
  offset   : Nat
  loadAddr : Nat
  size     : Nat
  memSize  : Nat
  deriving Repr, DecidableEq, Inhabited

/-- `Read(in, &h)` on at least 28 bytes -/
def decPH (b : Bytes) : PayloadHeader :=
  { type := fromBE (slice b 0 4), comp := fromBE (slice b 4 4), offset := fromBE (slice b 8 4),
    loadAddr := fromBE (slice b 12 8), size := fromBE (slice b 20 4), memSize := fromBE (slice b 24 4) }

/-- `binary.Write(w, BigEndian, h)` -/
def encPH (h : PayloadHeader) : Bytes :=
  beN 4 h.type ++ (beN 4 h.comp ++ (beN 4 h.offset ++ (beN 8 h.loadAddr ++ (beN 4 h.size ++ beN 4 h.memSize))))

/-- the loop of `PayloadRecord.Read`: headers up to and including the first ENTRY;
    `none` = a header read hit the end of the data -/
def payloadHdrs : Nat → Bytes → Option (List PayloadHeader)
  | 0, _ => none
  | fuel+1, rest =>
    if rest.length < payloadHdrSize then none
    else if (decPH rest).type = segEntry then some [decPH rest]
    else (payloadHdrs fuel (rest.drop payloadHdrSize)).map (decPH rest :: ·)

/-- `PayloadRecord.Segs` of a listed SELF record -/
def payloadOf (f : File) : Option (List PayloadHeader) := payloadHdrs (f.fdata.length + 1) f.fdata

/-- `StageHeader` (little endian, 28 bytes) -/
structure StageHeader where
  comp     : Nat
  entry    : Nat
  loadAddr : Nat
  size     : Nat
  memSize  : Nat
  deriving Repr, DecidableEq, Inhabited

/-- `ReadLE(in, &r.StageHeader)` -/
def decSH (b : Bytes) : StageHeader :=
  { comp := fromLE (slice b 0 4), entry := fromLE (slice b 4 8), loadAddr := fromLE (slice b 12 8),
    size := fromLE (slice b 20 4), memSize := fromLE (slice b 24 4) }

/-- `WriteLE(w, r.StageHeader)` -/
def encSH (h : StageHeader) : Bytes :=
  leN 4 h.comp ++ (leN 8 h.entry ++ (leN 8 h.loadAddr ++ (leN 4 h.size ++ leN 4 h.memSize)))

/-! ### the `Write` methods -/

/-- `LegacyStageRecord.Write`: `WriteLE(w, r.StageHeader)` then `Write(w, r.Data)`; `Data` are the
    `StageHeader.Size` bytes behind the header -/
def writeLegacyStage (f : File) : Bytes :=
  encSH (decSH f.fdata) ++ (f.fdata.drop stageHdrSize).take (decSH f.fdata).size

/-- `PayloadRecord.Write`: `Write(w, r.Segs)` then `Write(w, r.Data)`; `Data` is what follows the
    segment table (nothing written when the table could not be read: not reachable for a listed record) -/
def writePayload (f : File) : Bytes :=
  match payloadOf f with
  | none => []
  | some hs => hs.flatMap encPH ++ f.fdata.drop (payloadHdrSize * hs.length)

/-- `s.Write(&d)` for the record the listing holds, code as repaired (`MasterRecord.Write` = `FData`) -/
def writeSeg (s : Seg) : Bytes :=
  if isEmptyType s.file.type then s.file.fdata              -- EmptyRecord.Write: Write(w, r.FData)
  else if s.file.type = typeLegacyStage then writeLegacyStage s.file
  else if s.file.type = typeStage then []                   -- StageRecord.Write: Write(w, r.Data), never set
  else if s.file.type = typeSELF then writePayload s.file
  else s.file.fdata                                         -- master, bootblock, raw, … , unknown

/-- the same before the repair: `MasterRecord.Write` emits `MasterHeader`, which `MasterRecord.Read`
    never decodes (its debug dump drains the reader first) — 32 zero bytes -/
def writeSegHead (s : Seg) : Bytes :=
  if s.file.type = typeMaster then List.replicate masterHdrLen 0 else writeSeg s

/-! ### `copy(dst[pos:], b)` -/

/-- Go's `copy` into `d[pos:]` (`pos ≤ len d`): as many bytes of `b` as fit -/
def copyAt (d : Bytes) (pos : Nat) (b : Bytes) : Bytes := splice d pos (b.take (d.length - pos))

/-- `clear(field); copy(field, name)` for a field of `n` bytes -/
def padTo (n : Nat) (b : Bytes) : Bytes := b.take n ++ List.replicate (n - b.length) 0

inductive UErr where
  | region     -- the `region … outside of CBFS` error return
  | panic      -- slice bounds out of range in `i.Data[…:]` (only the unrepaired code can reach it)
  deriving Repr, DecidableEq, Inhabited

/-! ### `Image.Update`, as repaired -/

/-- `if field := rec[FileSize:nameEnd]; string(bytes.Split(field, []byte{0})[0]) != f.Name { clear(field);
    copy(field, f.Name) }`: the name field (`n` bytes at `pos`) is rewritten only when the name changed -/
def writeName (d : Bytes) (pos n : Nat) (name : Bytes) : Bytes :=
  if (slice d pos n).takeWhile (· ≠ 0) ≠ name then splice d pos (padTo n name) else d

/-- `if f.AttrOffset != 0 { copy(rec[f.AttrOffset:f.SubHeaderOffset], f.Attr) }` -/
def writeAttr (d : Bytes) (pos attrOff n : Nat) (attr : Bytes) : Bytes :=
  if attrOff = 0 then d else splice d pos (attr.take n)

/-- `nameEnd := f.SubHeaderOffset; if f.AttrOffset != 0 { nameEnd = f.AttrOffset }` -/
def nameEndOf (f : File) : Nat := if f.attrOff = 0 then f.subOff else f.attrOff

/-- one iteration of the loop of `Update` on the current `i.Data` -/
def updSeg (areaOff areaSize : Nat) (data : Bytes) (s : Seg) : Except UErr Bytes :=
  let f := s.file
  let d := writeSeg s
  let nameEnd := nameEndOf f
  let start := areaOff + f.recordStart                         -- uint64 arithmetic: no wrap
  let end_ := f.recordStart + f.subOff + d.length
  if nameEnd < hdrSize ∨ f.subOff < nameEnd ∨ areaSize < end_ ∨ data.length < areaOff + end_ then .error .region
  else
    let d1 := splice data start (hdrBytes f)                                        -- copy(rec, h.Bytes())
    let d2 := writeName d1 (start + hdrSize) (nameEnd - hdrSize) f.name
    let d3 := writeAttr d2 (start + f.attrOff) f.attrOff (f.subOff - f.attrOff) f.attr
    .ok (splice d3 (start + f.subOff) d)                                            -- copy(rec[SubHeaderOffset:], d)

/-- the loop: `i.Data` as it is when `Update` returns, and the error it returns (`none` = nil).
    On an error the records before it have already been written. -/
def updLoop (step : Bytes → Seg → Except UErr Bytes) : List Seg → Bytes → Bytes × Option UErr
  | [], d => (d, none)
  | s :: ss, d =>
    match step d s with
    | .error e => (d, some e)
    | .ok d' => updLoop step ss d'

def update (i : Image) : Bytes × Option UErr := updLoop (updSeg i.areaOff i.areaSize) i.segs i.data

/-! ### `Image.Update` before the repair (fiano a65983d) -/

/-- what the unrepaired loop assembles for one record: header ‖ Attr ‖ Write output (no name field) -/
def recBytesHead (s : Seg) : Bytes := hdrBytes s.file ++ (s.file.attr ++ writeSegHead s)

def updSegHead (areaOff areaSize : Nat) (data : Bytes) (s : Seg) : Except UErr Bytes :=
  let b := recBytesHead s
  let end_ := (b.length + s.file.recordStart) % 2 ^ 32          -- uint32(len(b.Bytes())) + RecordStart
  if areaSize < end_ then .error .region
  else
    let pos := (areaOff + s.file.recordStart) % 2 ^ 32           -- i.Area.Offset + RecordStart (uint32)
    if data.length < pos then .error .panic
    else .ok (copyAt data pos b)

def updateHead (i : Image) : Bytes × Option UErr := updLoop (updSegHead i.areaOff i.areaSize) i.segs i.data

end Fiano.Cbfs
