/-
  The columns of the text listing determine the stored values: `%x` is injective, the type column
  (`FileType.String`) identifies the stored type — a table name for the 23 named types, `0x…` otherwise —
  and the compression column tells none / lzma / lz4 / anything else apart.
-/
import FianoModel.Cbfs.Present

namespace Fiano.Cbfs

/-! ### `%x` can be read back -/

def hexVal (c : UInt8) : Nat := if c.toNat < 58 then c.toNat - 48 else c.toNat - 87

def unhex (b : Bytes) : Nat := b.foldl (fun v c => 16 * v + hexVal c) 0

theorem hexVal_hexDigit : ∀ d, d < 16 → hexVal (hexDigit d) = d := by decide

theorem foldl_unhex (b : Bytes) : ∀ v, b.foldl (fun v c => 16 * v + hexVal c) v = v * 16 ^ b.length + unhex b := by
  induction b with
  | nil => intro v; simp [unhex]
  | cons c cs ih =>
    intro v
    unfold unhex
    simp only [List.foldl_cons, List.length_cons]
    rw [ih (16 * v + hexVal c), ih (16 * 0 + hexVal c)]
    simp only [Nat.mul_zero, Nat.zero_add, Nat.pow_succ]
    rw [Nat.add_mul, Nat.mul_assoc 16 v, ← Nat.mul_assoc v]
    generalize v * 16 ^ cs.length = Y
    generalize hexVal c * 16 ^ cs.length = Z
    omega

theorem unhex_cons (c : UInt8) (cs : Bytes) : unhex (c :: cs) = hexVal c * 16 ^ cs.length + unhex cs := by
  unfold unhex
  simp only [List.foldl_cons, Nat.mul_zero, Nat.zero_add]
  exact foldl_unhex cs (hexVal c)

theorem hexF_succ (fuel n : Nat) (acc : Bytes) : hexF (fuel + 1) n acc =
    if n < 16 then hexDigit n :: acc else hexF fuel (n / 16) (hexDigit (n % 16) :: acc) := rfl

theorem unhex_hexF : ∀ (fuel n : Nat) (acc : Bytes), n < 16 ^ fuel →
    unhex (hexF fuel n acc) = n * 16 ^ acc.length + unhex acc := by
  intro fuel
  induction fuel with
  | zero =>
    intro n acc h
    have : n = 0 := by simpa using h
    subst this
    simp [hexF]
  | succ f ih =>
    intro n acc h
    rw [hexF_succ]
    by_cases c : n < 16
    · rw [if_pos c, unhex_cons, hexVal_hexDigit n c]
    · rw [if_neg c]
      have h1 : n / 16 < 16 ^ f := by
        rw [Nat.pow_succ] at h
        exact Nat.div_lt_of_lt_mul (by rw [Nat.mul_comm]; exact h)
      rw [ih (n / 16) _ h1, unhex_cons, hexVal_hexDigit _ (Nat.mod_lt _ (by decide))]
      simp only [List.length_cons, Nat.pow_succ]
      have hd := Nat.div_add_mod n 16
      have e : n * 16 ^ acc.length = (16 * (n / 16) + n % 16) * 16 ^ acc.length := by rw [hd]
      rw [e, Nat.add_mul, Nat.mul_assoc 16 (n / 16), ← Nat.mul_assoc (n / 16)]
      generalize n / 16 * 16 ^ acc.length = Y
      generalize n % 16 * 16 ^ acc.length = Z
      omega

theorem unhex_hex (n : Nat) : unhex (hex n) = n := by
  unfold hex
  have h : n < 16 ^ (n + 1) := by
    have h1 : n < 2 ^ n := Nat.lt_two_pow_self
    have h2 : 2 ^ n ≤ 16 ^ n := Nat.pow_le_pow_left (by decide) n
    have h3 : 16 ^ n ≤ 16 ^ (n + 1) := Nat.pow_le_pow_right (by decide) (by omega)
    omega
  rw [unhex_hexF _ _ _ h]
  simp [unhex]

/-- **`%x` is injective**: equal offset / size columns mean equal stored values -/
theorem hex_inj (a b : Nat) (h : hex a = hex b) : a = b := by
  have := congrArg unhex h
  rwa [unhex_hex, unhex_hex] at this

/-! ### the compression column -/

theorem lookupName_some (tbl : List (Nat × String)) (v : Nat) (s : String) (h : lookupName tbl v = some s) :
    (v, s) ∈ tbl := by
  unfold lookupName at h
  cases hf : tbl.find? (fun p => p.1 = v) with
  | none => rw [hf] at h; cases h
  | some p =>
    rw [hf] at h
    simp only [Option.map_some, Option.some.injEq] at h
    have h1 := List.find?_some hf
    have h2 := List.mem_of_find?_eq_some hf
    simp only [decide_eq_true_eq] at h1
    have : p = (v, s) := by
      cases p with
      | mk p1 p2 => simp only at h1 h; rw [h1, h]
    rw [← this]; exact h2

theorem lookupName_none (tbl : List (Nat × String)) (v : Nat) (h : lookupName tbl v = none) :
    ∀ p ∈ tbl, p.1 ≠ v := by
  unfold lookupName at h
  cases hf : tbl.find? (fun p => p.1 = v) with
  | some p => rw [hf] at h; cases h
  | none =>
    intro p hp
    have := List.find?_eq_none.mp hf p hp
    simpa using this

theorem compName_cases (c : Nat) :
    (c = 0 ∧ compName c = str "none") ∨ (c = 1 ∧ compName c = str "lzma") ∨ (c = 2 ∧ compName c = str "lz4") ∨
    (2 < c ∧ compName c = str "unknown") := by
  by_cases h0 : c = 0
  · left; subst h0; exact ⟨rfl, by decide⟩
  by_cases h1 : c = 1
  · right; left; subst h1; exact ⟨rfl, by decide⟩
  by_cases h2 : c = 2
  · right; right; left; subst h2; exact ⟨rfl, by decide⟩
  right; right; right
  refine ⟨by omega, ?_⟩
  unfold compName
  have : lookupName compNames c = none := by
    unfold lookupName compNames
    simp [List.find?, Ne.symm h0, Ne.symm h1, Ne.symm h2]
  rw [this]

/-- **the compression column identifies the algorithm**: equal names mean equal stored values, or
    both values are outside none / lzma / lz4 (all printed as `unknown`) -/
theorem compName_inj (a b : Nat) (h : compName a = compName b) : a = b ∨ (2 < a ∧ 2 < b) := by
  have d1 : str "none" ≠ str "lzma" := by decide
  have d2 : str "none" ≠ str "lz4" := by decide
  have d3 : str "none" ≠ str "unknown" := by decide
  have d4 : str "lzma" ≠ str "lz4" := by decide
  have d5 : str "lzma" ≠ str "unknown" := by decide
  have d6 : str "lz4" ≠ str "unknown" := by decide
  rcases compName_cases a with ⟨ha, ea⟩ | ⟨ha, ea⟩ | ⟨ha, ea⟩ | ⟨ha, ea⟩ <;>
  rcases compName_cases b with ⟨hb, eb⟩ | ⟨hb, eb⟩ | ⟨hb, eb⟩ | ⟨hb, eb⟩ <;>
  rw [ea, eb] at h <;>
  first
    | (left; omega)
    | (right; exact ⟨ha, hb⟩)
    | exact absurd h d1 | exact absurd h d2 | exact absurd h d3 | exact absurd h d4 | exact absurd h d5
    | exact absurd h d6
    | exact absurd h.symm d1 | exact absurd h.symm d2 | exact absurd h.symm d3 | exact absurd h.symm d4
    | exact absurd h.symm d5 | exact absurd h.symm d6

/-! ### the type column -/

theorem typeNames_names_inj : ∀ p ∈ typeNames, ∀ q ∈ typeNames, str p.2 = str q.2 → p.1 = q.1 := by decide

theorem typeNames_no_0x : ∀ p ∈ typeNames, (str p.2).take 2 ≠ str "0x" := by decide

theorem sprintf_sharp_x (t : Nat) : sprintf unknownTypeFormat [.u t] = str "0x" ++ hex t := by
  have hl : unknownTypeFormat.toList = ['%', '#', 'x'] := by decide
  unfold sprintf
  rw [hl]
  simp [sprintfGo, renderVerb, padField]

theorem typeName_inj (a b : Nat) (h : typeName a = typeName b) : a = b := by
  unfold typeName at h
  cases ha : lookupName typeNames a with
  | some sa =>
    have ma := lookupName_some _ _ _ ha
    cases hb : lookupName typeNames b with
    | some sb =>
      have mb := lookupName_some _ _ _ hb
      rw [ha, hb] at h
      exact typeNames_names_inj _ ma _ mb h
    | none =>
      rw [ha, hb] at h
      simp only at h
      rw [sprintf_sharp_x] at h
      have := typeNames_no_0x _ ma
      rw [h] at this
      exact absurd (by simp [str]) this
  | none =>
    cases hb : lookupName typeNames b with
    | some sb =>
      have mb := lookupName_some _ _ _ hb
      rw [ha, hb] at h
      simp only at h
      rw [sprintf_sharp_x] at h
      have := typeNames_no_0x _ mb
      rw [← h] at this
      exact absurd (by simp [str]) this
    | none =>
      rw [ha, hb] at h
      simp only at h
      rw [sprintf_sharp_x, sprintf_sharp_x] at h
      exact hex_inj a b (List.append_cancel_left h)

end Fiano.Cbfs
