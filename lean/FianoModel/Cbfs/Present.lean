/-
  Model of the presentation layer of pkg/cbfs: `Image.String` (image.go), `recString`,
  `FileType.String`, `Compression.String` (fns.go), `SegmentType.String` (types.go), the `String`
  method of every record type, and the field structure of `Image.MarshalJSON` / `File.MarshalJSON` /
  `PayloadRecord.MarshalJSON` / `PayloadHeader.MarshalJSON`.

  Text is modelled byte for byte (Go strings are byte strings; `%-32s` pads by the number of runes
  `utf8.RuneCountInString` counts, which is modelled too). JSON is modelled as the ordered list of
  (key, value) pairs handed to `encoding/json`; the JSON text itself is produced by that package
  (trusted, not modelled) — except that it coerces invalid UTF-8 in a name to U+FFFD, which is modelled
  (`coerceUTF8`) so that the harness can compare decoded names.
  T1: format strings, name tables, struct field order (`Cbfs/Tie.lean`); T2: ops `text` / `json`.
-/
import FianoModel.Cbfs.Write

namespace Fiano.Cbfs

/-- an ASCII string constant as bytes -/
def str (s : String) : Bytes := s.toList.map (fun c => UInt8.ofNat c.toNat)

/-! ### Go's UTF-8 scanner (unicode/utf8: `first`, `acceptRanges`) -/

def isCont (c : UInt8) : Bool := 0x80 ≤ c.toNat && c.toNat ≤ 0xBF

/-- width of the encoding at the head of a non-empty `b` as `utf8.DecodeRune` sees it: 1 for ASCII
    and for every byte that does not start a valid encoding -/
def runeLen : Bytes → Nat
  | [] => 0
  | c :: t =>
    let c := c.toNat
    if c < 0xC2 then 1                                  -- ASCII, continuation byte, overlong lead C0/C1
    else if c < 0xE0 then
      match t with
      | c1 :: _ => if isCont c1 then 2 else 1
      | _ => 1
    else if c < 0xF0 then
      match t with
      | c1 :: c2 :: _ =>
        let lo := if c = 0xE0 then 0xA0 else 0x80
        let hi := if c = 0xED then 0x9F else 0xBF
        if lo ≤ c1.toNat ∧ c1.toNat ≤ hi ∧ isCont c2 then 3 else 1
      | _ => 1
    else if c < 0xF5 then
      match t with
      | c1 :: c2 :: c3 :: _ =>
        let lo := if c = 0xF0 then 0x90 else 0x80
        let hi := if c = 0xF4 then 0x8F else 0xBF
        if lo ≤ c1.toNat ∧ c1.toNat ≤ hi ∧ isCont c2 ∧ isCont c3 then 4 else 1
      | _ => 1
    else 1

def runeCountF : Nat → Bytes → Nat
  | 0, _ => 0
  | _+1, [] => 0
  | fuel+1, c :: t => 1 + runeCountF fuel ((c :: t).drop (runeLen (c :: t)))

/-- `utf8.RuneCountInString` -/
def runeCount (b : Bytes) : Nat := runeCountF b.length b

def coerceF : Nat → Bytes → Bytes
  | 0, _ => []
  | _+1, [] => []
  | fuel+1, c :: t =>
    let n := runeLen (c :: t)
    (if n = 1 ∧ 0x80 ≤ c.toNat then [0xEF, 0xBF, 0xBD] else (c :: t).take n) ++ coerceF fuel ((c :: t).drop n)

/-- what `encoding/json` makes of a Go string: every byte that is not part of a valid encoding
    becomes U+FFFD -/
def coerceUTF8 (b : Bytes) : Bytes := coerceF b.length b

/-! ### fmt verbs -/

def hexDigit (d : Nat) : UInt8 := if d < 10 then UInt8.ofNat (48 + d) else UInt8.ofNat (87 + d)

def hexF : Nat → Nat → Bytes → Bytes
  | 0, _, acc => acc
  | fuel+1, n, acc => if n < 16 then hexDigit n :: acc else hexF fuel (n / 16) (hexDigit (n % 16) :: acc)

/-- `%x` of an unsigned value -/
def hex (n : Nat) : Bytes := hexF (n + 1) n []

def decF : Nat → Nat → Bytes → Bytes
  | 0, _, acc => acc
  | fuel+1, n, acc => if n < 10 then UInt8.ofNat (48 + n) :: acc else decF fuel (n / 10) (UInt8.ofNat (48 + n % 10) :: acc)

/-- `%d` -/
def dec (n : Nat) : Bytes := decF (n + 1) n []

/-! ### fmt.Sprintf for the verbs and flags pkg/cbfs uses (`%s %x %d`, flags `-` and `#`, a width) -/

inductive FArg where
  | s (b : Bytes)      -- a string
  | u (n : Nat)        -- an unsigned integer
  deriving Repr, DecidableEq, Inhabited

/-- pad with spaces up to `w` runes (on the right with the `-` flag), never truncate -/
def padField (left : Bool) (w : Nat) (b : Bytes) : Bytes :=
  if left then b ++ List.replicate (w - runeCount b) 0x20 else List.replicate (w - runeCount b) 0x20 ++ b

def renderVerb (verb : Char) (sharp left : Bool) (w : Nat) : FArg → Bytes
  | .s b => if verb = 's' then padField left w b else str "%!(BADVERB)"
  | .u n =>
    if verb = 'x' then padField left w ((if sharp then str "0x" else []) ++ hex n)
    else if verb = 'd' then padField left w (dec n)
    else str "%!(BADVERB)"

/-- the scanner of `Sprintf`: `spec` = inside a `%…` specification, with the flags and width read so far -/
def sprintfGo : List Char → (spec sharp left : Bool) → (w : Nat) → List FArg → Bytes
  | [], _, _, _, _, _ => []
  | c :: cs, false, _, _, _, args =>
    if c = '%' then sprintfGo cs true false false 0 args
    else UInt8.ofNat c.toNat :: sprintfGo cs false false false 0 args
  | c :: cs, true, sharp, left, w, args =>
    if c = '-' then sprintfGo cs true sharp true w args
    else if c = '#' then sprintfGo cs true true left w args
    else if c.isDigit then sprintfGo cs true sharp left (10 * w + (c.toNat - 48)) args
    else match args with
      | a :: rest => renderVerb c sharp left w a ++ sprintfGo cs false false false 0 rest
      | [] => str "%!(MISSING)" ++ sprintfGo cs false false false 0 []

def sprintf (fmt : String) (args : List FArg) : Bytes := sprintfGo fmt.toList false false false 0 args

/-- the format strings (compared with the literals in the Go source by `Cbfs/Tie.lean`) -/
def recFormat : String := "%-32s 0x%-8x %-24s 0x%-8x %-4s"
def headerFormat : String := "%-32s %-8s   %-24s %-8s   %-4s\n"
def segNameFormat : String := " Seg #%d"
def unknownTypeFormat : String := "%#x"

/-! ### name tables -/

/-- `FileType.String`: the cases of its switch (constant, name), sorted by the constant -/
def typeNames : List (Nat × String) :=
  [(0, "Deleted"), (0x1, "BootBlock"), (0x2, "cbfs header"), (0x10, "LegacyStage"), (0x11, "Stage"), (0x20, "SELF"),
   (0x21, "FIT"), (0x30, "OptionRom"), (0x40, "BootSplash"), (0x50, "Raw"), (0x51, "VSA"), (0x52, "MBI"),
   (0x53, "MicroCode"), (0x60, "FSP"), (0x61, "MRC"), (0x62, "MMA"), (0x63, "EFI"), (0x70, "Struct"), (0xaa, "CMOS"),
   (0xab, "SPD"), (0xac, "MRCCache"), (0x1aa, "CMOSLayout"), (0xffffffff, "Deleted2")]

def lookupName (tbl : List (Nat × String)) (v : Nat) : Option String := (tbl.find? (fun p => p.1 = v)).map (·.2)

/-- `FileType.String()`; the default is `fmt.Sprintf("%#x", uint32(f))` -/
def typeName (t : Nat) : Bytes :=
  match lookupName typeNames t with
  | some s => str s
  | none => sprintf unknownTypeFormat [.u t]

def compNames : List (Nat × String) := [(0, "none"), (1, "lzma"), (2, "lz4")]

/-- `Compression.String()` -/
def compName (c : Nat) : Bytes :=
  match lookupName compNames c with
  | some s => str s
  | none => str "unknown"

def segTypeNames : List (Nat × String) :=
  [(0x42535320, "bss"), (0x434F4445, "code"), (0x44415441, "data"), (0x454E5452, "entry"), (0x50415241, "params")]

/-- `SegmentType.String()` -/
def segTypeName (t : Nat) : Bytes :=
  match lookupName segTypeNames t with
  | some s => str s
  | none => str "unknown"

/-! ### the text listing -/

/-- `recString`: `fmt.Sprintf("%-32s 0x%-8x %-24s 0x%-8x %-4s", n, off, typ, sz, compress)` -/
def recString (n : Bytes) (off : Nat) (typ : Bytes) (sz : Nat) (comp : Bytes) : Bytes :=
  sprintf recFormat [.s n, .u off, .s typ, .u sz, .s comp]

/-- the segment lines of `PayloadRecord.String`, from index `k` on -/
def segLines : Nat → List PayloadHeader → Bytes
  | _, [] => []
  | k, h :: hs =>
    str "\n" ++ (recString (sprintf segNameFormat [.u k]) h.offset (segTypeName h.type) h.size (compName h.comp) ++
      segLines (k + 1) hs)

/-- `seg.String()` of the record type the reader created for `f.type` (code as repaired by
    fixes/C19-list-compression-const.diff: the master header and a SELF payload print the compression
    attribute like every other type, not the constant `none`): empty space prints the name `(empty)`
    and the constant `none`; a payload appends one line per segment header. -/
def segString (f : File) : Bytes :=
  if isEmptyType f.type then recString (str "(empty)") f.recordStart (typeName f.type) f.size (str "none")
  else if f.type = typeSELF then
    recString f.name f.recordStart (typeName f.type) f.size (compName (compression f)) ++
      segLines 0 ((payloadOf f).getD [])
  else recString f.name f.recordStart (typeName f.type) f.size (compName (compression f))

/-- the two header lines of `Image.String`:
    `"FMAP REGIOName: COREBOOT\n"` and `Sprintf("%-32s %-8s   %-24s %-8s   %-4s\n", "Name", …)` -/
def textHeader : Bytes :=
  str "FMAP REGIOName: COREBOOT\n" ++
    sprintf headerFormat [.s (str "Name"), .s (str "Offset"), .s (str "Type"), .s (str "Size"), .s (str "Comp")]

def textLines : List File → Bytes
  | [] => []
  | f :: fs => segString f ++ (str "\n" ++ textLines fs)

/-- `Image.String()` -/
def textListing (i : Image) : Bytes := textHeader ++ textLines (i.segs.map (·.file))

/-! ### the JSON listing: what is handed to encoding/json, in field order -/

/-- `mPayloadHeader`: Type, Compression, Offset, LoadAddress, Size, MemSize -/
structure JSeg where
  type     : Bytes
  comp     : Bytes
  offset   : Nat
  loadAddr : Nat
  size     : Nat
  memSize  : Nat
  deriving Repr, DecidableEq, Inhabited

/-- `mFile` (Name, Start, Size, Type, Compression) or, for a SELF payload, `mPayloadRecord`
    (Name, Start, Size, Type, Segments, Compression); `segments = none` for `mFile` -/
structure JRec where
  name     : Bytes
  start    : Nat
  size     : Nat
  type     : Bytes
  segments : Option (List JSeg)
  comp     : Bytes
  deriving Repr, DecidableEq, Inhabited

/-- `mImage`: Offset, Segments -/
structure JImage where
  offset   : Nat
  segments : List JRec
  deriving Repr, DecidableEq, Inhabited

def jsegOf (h : PayloadHeader) : JSeg :=
  { type := segTypeName h.type, comp := compName h.comp, offset := h.offset, loadAddr := h.loadAddr,
    size := h.size, memSize := h.memSize }

/-- `MarshalJSON` of the record: `File.MarshalJSON` (promoted to every record type that embeds `File`)
    or `PayloadRecord.MarshalJSON`. Both print the compression attribute; an empty-space record prints
    its stored name. The name is what encoding/json makes of it (`coerceUTF8`). -/
def jrecOf (f : File) : JRec :=
  { name := coerceUTF8 f.name, start := f.recordStart, size := f.size, type := typeName f.type
    segments := if f.type = typeSELF then some (((payloadOf f).getD []).map jsegOf) else none
    comp := compName (compression f) }

/-- `Image.MarshalJSON` -/
def jsonListing (i : Image) : JImage :=
  { offset := i.areaOff, segments := i.segs.map (fun s => jrecOf s.file) }

/-- key order of the marshalled structs (compared with the struct declarations by T1 and with the
    order of the keys in the real output by T2) -/
def keysImage : List String := ["Offset", "Segments"]
def keysFile : List String := ["Name", "Start", "Size", "Type", "Compression"]
def keysPayload : List String := ["Name", "Start", "Size", "Type", "Segments", "Compression"]
def keysSegment : List String := ["Type", "Compression", "Offset", "LoadAddress", "Size", "MemSize"]

end Fiano.Cbfs
