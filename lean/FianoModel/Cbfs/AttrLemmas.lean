/-
  The attribute walk of `File.FindAttribute` / `File.Compression` as a function of the attribute LIST:
  attributes are skipped by their size field, unknown tags are ignored, the compression attribute is
  found wherever it stands in the block, and whatever follows the attribute list (unused 0xFF space,
  an end tag, a truncated header) does not change the result.
-/
import FianoModel.Cbfs.Lemmas

namespace Fiano.Cbfs
open Spec

/-- the walk over a serialized attribute list followed by arbitrary bytes `t`: the first attribute
    with the tag is returned whatever `t` is; without one the walk continues in `t` -/
theorem findAttr_serAttrs_tail (tag : Nat) (t : Bytes) (as : List Attr) : ∀ (fuel : Nat), (∀ a ∈ as, a.WF) →
    as.length < fuel →
    findAttr tag fuel (serAttrs as ++ t) =
      match as.find? (fun a => a.tag = tag) with
      | some a => some (serAttr a)
      | none => findAttr tag (fuel - as.length) t := by
  induction as with
  | nil => intro fuel _ _; simp [serAttrs]
  | cons a as ih =>
    intro fuel hw hf
    cases fuel with
    | zero => omega
    | succ f =>
      have w := hw a (by simp)
      obtain ⟨f1, f2⟩ := serAttr_fields a w (serAttrs as ++ t)
      obtain ⟨w1, w2, w3⟩ := w
      have hl : (serAttr a ++ (serAttrs as ++ t)).length = 8 + a.body.length + (serAttrs as ++ t).length := by
        rw [List.length_append, serAttr_length]
      rw [findAttr_succ]
      simp only [serAttrs, List.append_assoc, f1, f2]
      rw [if_neg (by omega), if_neg (by omega), if_neg (by omega)]
      by_cases ht : a.tag = tag
      · rw [if_pos ht, if_neg (by omega)]
        simp only [List.find?, ht, decide_true]
        rw [← serAttr_length, List.take_left']
        rfl
      · rw [if_neg ht]
        simp only [List.find?, ht, decide_false]
        rw [← serAttr_length, List.drop_left' rfl]
        rw [ih f (fun x hx => hw x (by simp [hx])) (by simp at hf; omega)]
        simp only [List.length_cons]
        rw [show f + 1 - (as.length + 1) = f - as.length by omega]

/-- what ends the walk without a result: fewer than 8 bytes, or an end tag (0 / 0xffffffff, the
    fill of unused attribute space) -/
def AttrEnd (t : Bytes) : Prop :=
  t.length < 8 ∨ fromBE (slice t 0 4) = tagUnused ∨ fromBE (slice t 0 4) = tagUnused2

theorem findAttr_end (tag fuel : Nat) (t : Bytes) (h : AttrEnd t) : findAttr tag fuel t = none := by
  cases fuel with
  | zero => rfl
  | succ f =>
    rw [findAttr_succ]
    rcases h with h | h | h
    · rw [if_pos h]
    · by_cases hl : t.length < 8
      · rw [if_pos hl]
      · rw [if_neg hl, if_pos (Or.inl (by rw [h]; rfl))]
    · by_cases hl : t.length < 8
      · rw [if_pos hl]
      · rw [if_neg hl, if_pos (Or.inr (by rw [h]; rfl))]

theorem serAttrs_append_length_ge (as : List Attr) (t : Bytes) : as.length < (serAttrs as ++ t).length + 1 := by
  have := serAttrs_length_ge as
  simp only [List.length_append]
  omega

/-- `File.Compression()` on an attribute block that starts with a well-formed attribute list holding a
    `Compressed` attribute: the stored algorithm, whatever follows the list -/
theorem compression_attrs_tail (f : File) (as : List Attr) (t : Bytes) (hw : ∀ a ∈ as, a.WF)
    (h : f.attr = serAttrs as ++ t) (hc : ∃ a ∈ as, a.tag = tagCompressed) :
    compression f = compOf as := by
  unfold compression findAttribute compOf
  rw [h, findAttr_serAttrs_tail tagCompressed t as _ hw (serAttrs_append_length_ge as t)]
  cases hfind : as.find? (fun a => a.tag = tagCompressed) with
  | none =>
    obtain ⟨a, ha, hta⟩ := hc
    have := List.find?_eq_none.mp hfind a ha
    simp [hta] at this
  | some a =>
    simp only [serAttr_length, attrCompSize]
    by_cases hb : a.body.length < 8
    · rw [if_pos (by omega), if_pos hb]
    · rw [if_neg (by omega), if_neg hb, serAttr_comp_field]

/-- … and without a `Compressed` attribute, when the list is followed by the end of the block, an end
    tag or unused space: no compression -/
theorem compression_attrs_none (f : File) (as : List Attr) (t : Bytes) (hw : ∀ a ∈ as, a.WF)
    (h : f.attr = serAttrs as ++ t) (hc : ∀ a ∈ as, a.tag ≠ tagCompressed) (ht : AttrEnd t) :
    compression f = compNone := by
  unfold compression findAttribute
  rw [h, findAttr_serAttrs_tail tagCompressed t as _ hw (serAttrs_append_length_ge as t)]
  have hfind : as.find? (fun a => a.tag = tagCompressed) = none := by
    rw [List.find?_eq_none]
    intro a ha
    simp [hc a ha]
  rw [hfind]
  simp only
  rw [findAttr_end _ _ _ ht]

/-- the position of the compression attribute does not matter: behind any attributes with other tags
    (known or unknown), in front of anything -/
theorem compOf_anywhere (pre post : List Attr) (c : Attr) (hc : c.tag = tagCompressed)
    (hpre : ∀ a ∈ pre, a.tag ≠ tagCompressed) :
    compOf (pre ++ c :: post) = if c.body.length < 8 then compNone else fromBE (c.body.take 4) := by
  unfold compOf
  have : (pre ++ c :: post).find? (fun a => a.tag = tagCompressed) = some c := by
    induction pre with
    | nil => simp [List.find?, hc]
    | cons x xs ih =>
      have hx : x.tag ≠ tagCompressed := hpre x (by simp)
      simp only [List.cons_append, List.find?, hx, decide_false]
      exact ih (fun a ha => hpre a (by simp [ha]))
  rw [this]

end Fiano.Cbfs
