/-
  Lemmas about the write-back model (Cbfs/Write.lean): the sub-header codecs are inverse to the
  decoders on complete headers, what a record's `Write` emits is a prefix of the data it read, and one
  iteration of the repaired `Update` loop writes the bytes that are already there.
-/
import FianoModel.Cbfs.Write
import FianoModel.Cbfs.ImageLemmas

namespace Fiano.Cbfs

/-! ### slices -/

theorem slice_take (b : Bytes) (o l k : Nat) : (slice b o l).take k = slice b o (min k l) := by
  unfold slice; rw [List.take_take]

theorem slice_len_le (b : Bytes) (o l : Nat) : (slice b o l).length ≤ l := by
  unfold slice; simp only [List.length_take]; omega

theorem slice_zero_take (b : Bytes) (n : Nat) : slice b 0 n = b.take n := by
  unfold slice; simp

theorem beN_fromBE' (b : Bytes) (k : Nat) (h : b.length = k) : beN k (fromBE b) = b := by
  subst h; exact beN_fromBE b

theorem splice_self (b : Bytes) (pos : Nat) (x : Bytes) (hx : x = slice b pos x.length)
    (h : pos + x.length ≤ b.length) : splice b pos x = b := by
  rw [hx]
  have hl : (slice b pos x.length).length = x.length := slice_length b pos x.length h
  rw [hl] at *
  exact splice_slice_self b pos x.length h

/-! ### codecs -/

theorem encSH_decSH (b : Bytes) (h : 28 ≤ b.length) : encSH (decSH b) = b.take 28 := by
  unfold encSH decSH
  simp only
  rw [leN_fromLE' _ 4 (slice_length b 0 4 (by omega)), leN_fromLE' _ 8 (slice_length b 4 8 (by omega)),
    leN_fromLE' _ 8 (slice_length b 12 8 (by omega)), leN_fromLE' _ 4 (slice_length b 20 4 (by omega)),
    leN_fromLE' _ 4 (slice_length b 24 4 (by omega))]
  rw [← slice_zero_take, show (28 : Nat) = 4 + (8 + (8 + (4 + 4))) from rfl, slice_add, slice_add, slice_add,
    slice_add]

theorem encPH_decPH (b : Bytes) (h : 28 ≤ b.length) : encPH (decPH b) = b.take 28 := by
  unfold encPH decPH
  simp only
  rw [beN_fromBE' _ 4 (slice_length b 0 4 (by omega)), beN_fromBE' _ 4 (slice_length b 4 4 (by omega)),
    beN_fromBE' _ 4 (slice_length b 8 4 (by omega)), beN_fromBE' _ 8 (slice_length b 12 8 (by omega)),
    beN_fromBE' _ 4 (slice_length b 20 4 (by omega)), beN_fromBE' _ 4 (slice_length b 24 4 (by omega))]
  rw [← slice_zero_take, show (28 : Nat) = 4 + (4 + (4 + (8 + (4 + 4)))) from rfl, slice_add, slice_add, slice_add,
    slice_add, slice_add]

theorem encPH_length (h : PayloadHeader) : (encPH h).length = 28 := by simp [encPH]
theorem encSH_length (h : StageHeader) : (encSH h).length = 28 := by simp [encSH]

theorem payloadHdrs_succ (fuel : Nat) (rest : Bytes) : payloadHdrs (fuel + 1) rest =
    if rest.length < 28 then none
    else if (decPH rest).type = segEntry then some [decPH rest]
    else (payloadHdrs fuel (rest.drop 28)).map (decPH rest :: ·) := rfl

/-- re-encoding the segment table gives back the bytes it was decoded from -/
theorem payloadHdrs_enc : ∀ (fuel : Nat) (rest : Bytes) (hs : List PayloadHeader),
    payloadHdrs fuel rest = some hs →
      hs.flatMap encPH = rest.take (28 * hs.length) ∧ 28 * hs.length ≤ rest.length := by
  intro fuel
  induction fuel with
  | zero => intro rest hs h; cases h
  | succ fuel ih =>
    intro rest hs h
    rw [payloadHdrs_succ] at h
    by_cases c0 : rest.length < 28
    · rw [if_pos c0] at h; cases h
    rw [if_neg c0] at h
    by_cases c1 : (decPH rest).type = segEntry
    · rw [if_pos c1] at h
      injection h with h; subst h
      simp only [List.flatMap_cons, List.flatMap_nil, List.append_nil, List.length_cons, List.length_nil]
      exact ⟨encPH_decPH rest (by omega), by omega⟩
    · rw [if_neg c1] at h
      cases hp : payloadHdrs fuel (rest.drop 28) with
      | none => rw [hp] at h; cases h
      | some hs' =>
        rw [hp] at h
        simp only [Option.map_some, Option.some.injEq] at h
        subst h
        obtain ⟨e1, e2⟩ := ih _ _ hp
        simp only [List.length_drop] at e2
        simp only [List.flatMap_cons, List.length_cons]
        refine ⟨?_, by omega⟩
        rw [e1, encPH_decPH rest (by omega), show 28 * (hs'.length + 1) = 28 + 28 * hs'.length by omega,
          List.take_add]

/-! ### what `Write` emits is a prefix of the data that was read -/

theorem writePayload_prefix (f : File) : writePayload f = f.fdata.take (writePayload f).length := by
  unfold writePayload
  cases hp : payloadOf f with
  | none => simp
  | some hs =>
    obtain ⟨e1, e2⟩ := payloadHdrs_enc _ _ _ hp
    simp only [payloadHdrSize]
    have hl : (hs.flatMap encPH ++ f.fdata.drop (28 * hs.length)).length = f.fdata.length := by
      rw [e1]; simp only [List.length_append, List.length_take, List.length_drop]; omega
    rw [hl, List.take_length, e1, List.take_append_drop]

theorem writePayload_len (f : File) : (writePayload f).length ≤ f.fdata.length := by
  have := congrArg List.length (writePayload_prefix f)
  simp only [List.length_take] at this
  omega

theorem writeLegacyStage_prefix (f : File) (h : 28 ≤ f.fdata.length) :
    writeLegacyStage f = f.fdata.take (28 + (decSH f.fdata).size) := by
  unfold writeLegacyStage
  rw [encSH_decSH _ h, List.take_add]
  simp [stageHdrSize]

theorem decSH_size (b : Bytes) : (decSH b).size = fromLE (slice b 20 4) := rfl

/-- for every listed record: the output of its `Write` is the first so-many bytes of `FData` -/
theorem writeSeg_prefix (s : Seg)
    (hl : s.file.type = typeLegacyStage →
      28 < s.file.fdata.length ∧ fromLE (slice s.file.fdata 20 4) ≤ s.file.fdata.length - 28) :
    writeSeg s = s.file.fdata.take (writeSeg s).length := by
  unfold writeSeg
  by_cases c0 : isEmptyType s.file.type = true
  · simp only [c0, ↓reduceIte, List.take_length]
  · simp only [c0, Bool.false_eq_true, ↓reduceIte]
    by_cases c1 : s.file.type = typeLegacyStage
    · obtain ⟨h1, h2⟩ := hl c1
      simp only [c1, ↓reduceIte]
      rw [writeLegacyStage_prefix _ (by omega)]
      simp only [List.length_take]
      rw [decSH_size]
      congr 1
      omega
    · simp only [c1, ↓reduceIte]
      by_cases c2 : s.file.type = typeStage
      · simp [c2]
      · simp only [c2, ↓reduceIte]
        by_cases c3 : s.file.type = typeSELF
        · simp only [c3, ↓reduceIte]; exact writePayload_prefix s.file
        · simp only [c3, ↓reduceIte, List.take_length]

theorem writeSeg_len (s : Seg)
    (hl : s.file.type = typeLegacyStage →
      28 < s.file.fdata.length ∧ fromLE (slice s.file.fdata 20 4) ≤ s.file.fdata.length - 28) :
    (writeSeg s).length ≤ s.file.fdata.length := by
  have := congrArg List.length (writeSeg_prefix s hl)
  simp only [List.length_take] at this
  omega

end Fiano.Cbfs
