/-
  `Image.Update` as repaired (Cbfs/Write.lean `update`) on an image that was just read: every
  iteration of the loop writes the bytes that are already there — for EVERY accepted image, provided
  its empty-space records are clean (no attribute block, content all 0xFF: the reader represents an
  empty-space record instead of keeping its bytes).
-/
import FianoModel.Cbfs.WriteLemmas

namespace Fiano.Cbfs

theorem updSeg_eq (ao asz : Nat) (data : Bytes) (s : Seg) : updSeg ao asz data s =
    if nameEndOf s.file < 24 ∨ s.file.subOff < nameEndOf s.file ∨
        asz < s.file.recordStart + s.file.subOff + (writeSeg s).length ∨
        data.length < ao + (s.file.recordStart + s.file.subOff + (writeSeg s).length) then .error .region
    else
      .ok (splice
        (writeAttr
          (writeName (splice data (ao + s.file.recordStart) (hdrBytes s.file)) (ao + s.file.recordStart + 24)
            (nameEndOf s.file - 24) s.file.name)
          (ao + s.file.recordStart + s.file.attrOff) s.file.attrOff (s.file.subOff - s.file.attrOff) s.file.attr)
        (ao + s.file.recordStart + s.file.subOff) (writeSeg s)) := rfl

theorem nameEndOf_eq (f : File) : nameEndOf f = if f.attrOff = 0 then f.subOff else f.attrOff := rfl

theorem writeName_id (d : Bytes) (pos n : Nat) (name : Bytes)
    (h : (slice d pos n).takeWhile (· ≠ 0) = name) : writeName d pos n name = d := by
  unfold writeName
  rw [if_neg (by rw [h]; simp)]

/-- one iteration of the repaired loop on bytes that already hold the record: nothing changes -/
theorem updSeg_id (img : Bytes) (ao asz : Nat) (s : Seg)
    (hn1 : 24 ≤ (if s.file.attrOff = 0 then s.file.subOff else s.file.attrOff))
    (hn2 : (if s.file.attrOff = 0 then s.file.subOff else s.file.attrOff) ≤ s.file.subOff)
    (hw : (writeSeg s).length ≤ s.file.size)
    (hasz : s.file.recordStart + s.file.subOff + s.file.size ≤ asz)
    (hlen : ao + (s.file.recordStart + s.file.subOff + s.file.size) ≤ img.length)
    (hhdr : hdrBytes s.file = slice img (ao + s.file.recordStart) 24)
    (hname : (slice img (ao + s.file.recordStart + 24)
        ((if s.file.attrOff = 0 then s.file.subOff else s.file.attrOff) - 24)).takeWhile (· ≠ 0) = s.file.name)
    (hattr : s.file.attrOff ≠ 0 → s.file.attr.take (s.file.subOff - s.file.attrOff) =
        slice img (ao + s.file.recordStart + s.file.attrOff) (s.file.subOff - s.file.attrOff))
    (hdata : writeSeg s = slice img (ao + s.file.recordStart + s.file.subOff) (writeSeg s).length) :
    updSeg ao asz img s = .ok img := by
  have h1 : splice img (ao + s.file.recordStart) (hdrBytes s.file) = img := by
    apply splice_self
    · have : (hdrBytes s.file).length = 24 := by simp [hdrBytes, magic]
      rw [this]; exact hhdr
    · have : (hdrBytes s.file).length = 24 := by simp [hdrBytes, magic]
      omega
  have h4 : splice img (ao + s.file.recordStart + s.file.subOff) (writeSeg s) = img :=
    splice_self _ _ _ hdata (by omega)
  rw [updSeg_eq, nameEndOf_eq, if_neg (by omega), h1, writeName_id _ _ _ _ hname]
  unfold writeAttr
  by_cases ha : s.file.attrOff = 0
  · rw [if_pos ha, h4]
  · rw [if_neg ha]
    have h3 : splice img (ao + s.file.recordStart + s.file.attrOff)
        (s.file.attr.take (s.file.subOff - s.file.attrOff)) = img := by
      have hal := hattr ha
      rw [if_neg ha] at hn2
      apply splice_self
      · have e : (s.file.attr.take (s.file.subOff - s.file.attrOff)).length = s.file.subOff - s.file.attrOff := by
          rw [hal]; exact slice_length _ _ _ (by omega)
        rw [e]; exact hal
      · have hle : (s.file.attr.take (s.file.subOff - s.file.attrOff)).length ≤ s.file.subOff - s.file.attrOff := by
          simp only [List.length_take]; omega
        omega
    rw [h3, h4]

theorem updLoop_id (step : Bytes → Seg → Except UErr Bytes) (img : Bytes) :
    ∀ (segs : List Seg), (∀ s ∈ segs, step img s = .ok img) → updLoop step segs img = (img, none) := by
  intro segs
  induction segs with
  | nil => intro _; rfl
  | cons s ss ih =>
    intro h
    simp only [updLoop]
    rw [h s (by simp)]
    exact ih (fun x hx => h x (by simp [hx]))

/-! ### from the invariant of an accepted image -/

theorem areaBytes_len (img : Bytes) (ar : Fmap.Area) :
    (areaBytes img ar).length ≤ ar.size ∧
      ((areaBytes img ar).length = 0 ∨ ar.offset + (areaBytes img ar).length ≤ img.length) := by
  unfold areaBytes slice
  simp only [List.length_take, List.length_drop]
  omega

theorem areaBytes_slice (img : Bytes) (ar : Fmap.Area) (o l : Nat) (h : o + l ≤ (areaBytes img ar).length) :
    slice (areaBytes img ar) o l = slice img (ar.offset + o) l := by
  unfold areaBytes
  rw [slice_slice _ _ _ _ _ (by
    unfold areaBytes slice at h
    simp only [List.length_take, List.length_drop] at h
    omega)]

theorem hdrBytes_stored (area : Bytes) (s : Seg) (sa : SegAt area s) :
    hdrBytes s.file = slice area s.file.recordStart 24 := by
  have h1 := sa.hdr
  have h2 := sa.attrLe
  have h3 := sa.inside
  unfold hdrBytes
  rw [sa.size, sa.type, sa.attrOff, sa.subOff, ← sa.magicAt,
    beN_fromBE' _ 4 (slice_length _ _ _ (by omega)), beN_fromBE' _ 4 (slice_length _ _ _ (by omega)),
    beN_fromBE' _ 4 (slice_length _ _ _ (by omega)), beN_fromBE' _ 4 (slice_length _ _ _ (by omega))]
  rw [show (24 : Nat) = 8 + (4 + (4 + (4 + 4))) from rfl, slice_add, slice_add, slice_add, slice_add]

/-- the repaired `Update` leaves a listed record of an accepted image as it is -/
theorem updSeg_segAt (img : Bytes) (ar : Fmap.Area) (s : Seg) (sa : SegAt (areaBytes img ar) s)
    (hclean : isEmptyType s.file.type = true → s.file.attrOff = 0 ∧
      slice img (ar.offset + (s.file.recordStart + s.file.subOff)) s.file.size = List.replicate s.file.size 0xFF) :
    updSeg ar.offset ar.size img s = .ok img := by
  have h1 := sa.hdr
  have h2 := sa.attrLe
  have h3 := sa.inside
  obtain ⟨l1, l2⟩ := areaBytes_len img ar
  have l3 : ar.offset + (areaBytes img ar).length ≤ img.length := by omega
  -- the data held for the record is the stored data (empty space: by the cleanliness assumption)
  have hfd : s.file.fdata = slice img (ar.offset + (s.file.recordStart + s.file.subOff)) s.file.size := by
    by_cases he : isEmptyType s.file.type = true
    · rw [(sa.empty he).1, (hclean he).2]
    · have he' : isEmptyType s.file.type = false := by simpa using he
      rw [sa.data he', areaBytes_slice _ _ _ _ (by omega)]
  have hfl : s.file.fdata.length = s.file.size := by
    rw [hfd]; exact slice_length _ _ _ (by omega)
  have hwl := writeSeg_len s sa.legacy
  apply updSeg_id img ar.offset ar.size s h1 h2 (by omega) (by omega) (by omega)
  · rw [hdrBytes_stored _ s sa, areaBytes_slice _ _ _ _ (by omega)]
  · rw [sa.name, areaBytes_slice _ _ _ _ (by omega)]
    simp only [Nat.add_assoc]
  · intro ha
    have he : isEmptyType s.file.type = false := by
      cases hc : isEmptyType s.file.type with
      | false => rfl
      | true => exact absurd (hclean hc).1 ha
    rw [if_neg ha] at h2
    have hat := sa.attr he
    rw [if_neg ha] at hat
    rw [hat, areaBytes_slice _ _ _ _ (by omega), List.take_of_length_le (by
      have := slice_len_le img (ar.offset + (s.file.recordStart + s.file.attrOff)) (s.file.subOff - s.file.attrOff)
      omega)]
    simp only [Nat.add_assoc]
  · have hp := writeSeg_prefix s sa.legacy
    rw [hfd, slice_take, Nat.min_eq_left (by omega)] at hp
    simp only [Nat.add_assoc]
    exact hp

end Fiano.Cbfs

namespace Fiano.Cbfs
open Spec

/-! ### the whole loop on an accepted image -/

/-- the empty-space records of an accepted image are clean: no attribute block, content all 0xFF -/
def EmptyClean (img : Bytes) (i : Image) : Prop :=
  ∀ s ∈ i.segs, isEmptyType s.file.type = true → s.file.attrOff = 0 ∧
    slice img (i.areaOff + (s.file.recordStart + s.file.subOff)) s.file.size = List.replicate s.file.size 0xFF

theorem update_id_of_clean (img : Bytes) (i : Image) (h : newImage img = .ok i) (hc : EmptyClean img i) :
    update i = (img, none) := by
  obtain ⟨hd, fm, st, ar, _, _, ho, hs, hch⟩ := newImage_inv img i h
  unfold update
  rw [hd, ho, hs]
  apply updLoop_id
  intro s hs'
  obtain ⟨_, sa⟩ := chain_lo _ _ _ hch s hs'
  apply updSeg_segAt img ar s sa
  intro he
  have := hc s hs' he
  rw [ho] at this
  exact this

/-! ### lengths: `Update` never grows or shrinks `Image.Data` -/

theorem padTo_length (n : Nat) (b : Bytes) : (padTo n b).length = n := by
  unfold padTo
  simp only [List.length_append, List.length_take, List.length_replicate]
  omega

theorem writeName_length (d : Bytes) (pos n : Nat) (name : Bytes) (h : pos + n ≤ d.length) :
    (writeName d pos n name).length = d.length := by
  unfold writeName
  split
  · exact splice_length _ _ _ (by rw [padTo_length]; exact h)
  · rfl

theorem writeAttr_length (d : Bytes) (pos ao n : Nat) (attr : Bytes) (h : pos + n ≤ d.length) :
    (writeAttr d pos ao n attr).length = d.length := by
  unfold writeAttr
  split
  · rfl
  · exact splice_length _ _ _ (by simp only [List.length_take]; omega)

theorem updSeg_length (ao asz : Nat) (d d' : Bytes) (s : Seg) (h : updSeg ao asz d s = .ok d') :
    d'.length = d.length := by
  rw [updSeg_eq] at h
  by_cases hg : nameEndOf s.file < 24 ∨ s.file.subOff < nameEndOf s.file ∨
        asz < s.file.recordStart + s.file.subOff + (writeSeg s).length ∨
        d.length < ao + (s.file.recordStart + s.file.subOff + (writeSeg s).length)
  · rw [if_pos hg] at h; cases h
  · rw [if_neg hg] at h
    injection h with h
    subst h
    have hh : (hdrBytes s.file).length = 24 := by simp [hdrBytes, magic]
    have l1 : (splice d (ao + s.file.recordStart) (hdrBytes s.file)).length = d.length :=
      splice_length _ _ _ (by omega)
    have l2 := writeName_length (splice d (ao + s.file.recordStart) (hdrBytes s.file)) (ao + s.file.recordStart + 24)
      (nameEndOf s.file - 24) s.file.name (by omega)
    have l3 := writeAttr_length (writeName (splice d (ao + s.file.recordStart) (hdrBytes s.file))
      (ao + s.file.recordStart + 24) (nameEndOf s.file - 24) s.file.name)
      (ao + s.file.recordStart + s.file.attrOff) s.file.attrOff (s.file.subOff - s.file.attrOff) s.file.attr (by
        rw [nameEndOf_eq] at hg
        by_cases ha : s.file.attrOff = 0
        · rw [if_pos ha] at hg; rw [ha]; omega
        · rw [if_neg ha] at hg; omega)
    rw [splice_length _ _ _ (by omega), l3, l2, l1]

theorem updLoop_length (step : Bytes → Seg → Except UErr Bytes)
    (hstep : ∀ d d' s, step d s = .ok d' → d'.length = d.length) :
    ∀ (segs : List Seg) (d : Bytes), (updLoop step segs d).1.length = d.length := by
  intro segs
  induction segs with
  | nil => intro d; rfl
  | cons s ss ih =>
    intro d
    simp only [updLoop]
    split
    · rfl
    · rename_i d' hd
      rw [ih d', hstep d d' s hd]

theorem update_length (i : Image) : (update i).1.length = i.data.length :=
  updLoop_length _ (updSeg_length i.areaOff i.areaSize) i.segs i.data

theorem copyAt_length (d : Bytes) (pos : Nat) (b : Bytes) (h : pos ≤ d.length) :
    (copyAt d pos b).length = d.length := by
  unfold copyAt
  exact splice_length _ _ _ (by simp only [List.length_take]; omega)

theorem updSegHead_length (ao asz : Nat) (d d' : Bytes) (s : Seg) (h : updSegHead ao asz d s = .ok d') :
    d'.length = d.length := by
  unfold updSegHead at h
  simp only at h
  split at h
  · cases h
  · split at h
    · cases h
    · injection h with h
      subst h
      exact copyAt_length _ _ _ (by omega)

theorem updateHead_length (i : Image) : (updateHead i).1.length = i.data.length :=
  updLoop_length _ (updSegHead_length i.areaOff i.areaSize) i.segs i.data

/-! ### the repaired `Update` never fails on an image that was just read -/

/-- the guard of one iteration depends on the current data only through its length -/
theorem updSeg_ok_of_len (ao asz : Nat) (d : Bytes) (s : Seg)
    (hn1 : 24 ≤ (if s.file.attrOff = 0 then s.file.subOff else s.file.attrOff))
    (hn2 : (if s.file.attrOff = 0 then s.file.subOff else s.file.attrOff) ≤ s.file.subOff)
    (hasz : s.file.recordStart + s.file.subOff + (writeSeg s).length ≤ asz)
    (hlen : ao + (s.file.recordStart + s.file.subOff + (writeSeg s).length) ≤ d.length) :
    ∃ d', updSeg ao asz d s = .ok d' := by
  rw [updSeg_eq, nameEndOf_eq, if_neg (by omega)]
  exact ⟨_, rfl⟩

theorem updLoop_ok (ao asz n : Nat) : ∀ (segs : List Seg) (d : Bytes), d.length = n →
    (∀ s ∈ segs, 24 ≤ (if s.file.attrOff = 0 then s.file.subOff else s.file.attrOff) ∧
      (if s.file.attrOff = 0 then s.file.subOff else s.file.attrOff) ≤ s.file.subOff ∧
      s.file.recordStart + s.file.subOff + (writeSeg s).length ≤ asz ∧
      ao + (s.file.recordStart + s.file.subOff + (writeSeg s).length) ≤ n) →
    (updLoop (updSeg ao asz) segs d).2 = none := by
  intro segs
  induction segs with
  | nil => intro d _ _; rfl
  | cons s ss ih =>
    intro d hd h
    obtain ⟨a1, a2, a3, a4⟩ := h s (by simp)
    obtain ⟨d', hd'⟩ := updSeg_ok_of_len ao asz d s a1 a2 a3 (by omega)
    simp only [updLoop, hd']
    exact ih d' (by rw [updSeg_length _ _ _ _ _ hd', hd]) (fun x hx => h x (by simp [hx]))

theorem writeSeg_le_size (area : Bytes) (s : Seg) (sa : SegAt area s) : (writeSeg s).length ≤ s.file.size := by
  have h3 := sa.inside
  have hfl : s.file.fdata.length = s.file.size := by
    by_cases he : isEmptyType s.file.type = true
    · rw [(sa.empty he).1]; simp
    · have he' : isEmptyType s.file.type = false := by simpa using he
      rw [sa.data he']; exact slice_length _ _ _ (by omega)
  have := writeSeg_len s sa.legacy
  omega

theorem update_ok (img : Bytes) (i : Image) (h : newImage img = .ok i) : (update i).2 = none := by
  obtain ⟨hd, fm, st, ar, _, _, ho, hs, hch⟩ := newImage_inv img i h
  unfold update
  rw [hd, ho, hs]
  apply updLoop_ok ar.offset ar.size img.length i.segs img rfl
  intro s hs'
  obtain ⟨_, sa⟩ := chain_lo _ _ _ hch s hs'
  have h1 := sa.hdr
  have h2 := sa.attrLe
  have h3 := sa.inside
  have h4 := writeSeg_le_size _ s sa
  obtain ⟨l1, l2⟩ := areaBytes_len img ar
  exact ⟨h1, h2, by omega, by omega⟩

/-! ### well-formed archives: the stored content of every record -/

theorem serRec_data_at (fill : UInt8) (r : Rec) (q : Bytes) :
    slice (serRec fill r ++ q) r.subOff r.data.length = r.data := by
  have hp := (parts (serHdr r) (r.name ++ List.replicate r.namePad 0) (serAttrs r.attrs) r.data
    (List.replicate r.gap fill ++ q)).2.2.1
  have hN : (r.name ++ List.replicate r.namePad (0 : UInt8)).length = r.nameLen := by
    simp [Rec.nameLen]
  rw [serHdr_length, hN] at hp
  rw [serRec_split]
  exact hp

/-- every file the reader lists for a well-formed archive comes from a record whose data is stored
    at the listed data offset -/
theorem files_stored (fill : UInt8) : ∀ (recs : List Rec) (P Q : Bytes) (off base : Nat), P.length = base + off →
    ∀ f ∈ files off recs, ∃ r ∈ recs, f = fileAt f.recordStart r ∧
      slice (P ++ (serRecs fill recs ++ Q)) (base + (f.recordStart + r.subOff)) r.data.length = r.data := by
  intro recs
  induction recs with
  | nil => intro P Q off base _ f hf; simp [files] at hf
  | cons r rs ih =>
    intro P Q off base hP f hf
    simp only [files, List.mem_cons] at hf
    rcases hf with rfl | hf
    · refine ⟨r, by simp, rfl, ?_⟩
      simp only [fileAt, serRecs]
      rw [show base + (off + r.subOff) = P.length + r.subOff by omega, slice_append_right, List.append_assoc]
      exact serRec_data_at fill r _
    · obtain ⟨r', hr', e1, e2⟩ := ih (P ++ serRec fill r) Q (off + r.len) base
        (by rw [List.length_append, serRec_length]; omega) f hf
      refine ⟨r', by simp [hr'], e1, ?_⟩
      simp only [serRecs]
      simp only [List.append_assoc] at e2 ⊢
      exact e2

theorem emptyClean_ser (a : Archive) (w : a.WF)
    (hff : ∀ r ∈ a.recs, isEmptyType r.type = true → r.data = List.replicate r.data.length 0xFF)
    (i : Image) (hi : newImage (ser a) = .ok i) : EmptyClean (ser a) i := by
  obtain ⟨i', hi', hfiles, hao, _⟩ := newImage_ser a w
  rw [hi] at hi'
  injection hi' with hi'
  subst hi'
  intro s hs he
  have hmem : s.file ∈ files 0 a.recs := by
    rw [← hfiles]; exact List.mem_map_of_mem hs
  obtain ⟨r, hr, e1, e2⟩ := files_stored a.fill a.recs a.pre a.post 0 a.pre.length (by omega) s.file hmem
  have ht : s.file.type = r.type := by rw [e1]; rfl
  rw [ht] at he
  have hattrs := (w.recs r hr).emptyBare he
  have hsub : s.file.subOff = r.subOff := by rw [e1]; rfl
  have hsz : s.file.size = r.data.length := by rw [e1]; rfl
  have hat : s.file.attrOff = r.attrOff := by rw [e1]; rfl
  refine ⟨by rw [hat]; simp [Rec.attrOff, hattrs], ?_⟩
  rw [hao, hsub, hsz]
  unfold ser
  rw [e2]
  exact hff r hr he

end Fiano.Cbfs
