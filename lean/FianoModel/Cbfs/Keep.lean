/-
  Follow-up wp-c19c. Model of pkg/cbfs AS REPAIRED by fixes/C19-update-empty-identity.diff:
  `NewEmptyRecord` keeps the file as it was read (like every other record constructor) instead of
  representing empty space by 16 zero attribute bytes and `Size` × 0xFF; `Image.Remove` fills in the
  erased content of the record it creates. Everything else is the code modelled in Cbfs/Model.lean and
  Cbfs/Write.lean, so this file only re-states the record walk with the new constructor:

    mkSegK / walkK / newImageK     NewImage with the repaired NewEmptyRecord
    (update, writeSeg, textListing, jsonListing are unchanged: `EmptyRecord.Write` emits `FData`,
     `EmptyRecord.String` prints the constants `(empty)` / `none`, JSON goes through `File.MarshalJSON`)

  and the model of `Image.Remove` (both variants of `NewEmptyRecord`), statement by statement.

  The harness observes which variant the tree under test contains (`emptyVariant`, present.go) and asks
  the driver for that one: `keep` = repaired, `repr` = before the repair (`newImage` of Model.lean).
  T1: `tie_empty_variant` (Cbfs/TieKeep.lean). Core Lean only (linked into the driver).
-/
import FianoModel.Cbfs.Write

namespace Fiano.Cbfs

/-! ### `NewImage` with the repaired `NewEmptyRecord` -/

/-- `sr.New(f)` then `s.Read(...)`: an empty-space record keeps the file as parsed -/
def mkSegK (f : File) : Except Err Seg :=
  if isEmptyType f.type then .ok { file := f } else mkSeg f

/-- the loop of `NewImage` (same as `walk`, constructor `mkSegK`) -/
def walkK : Nat → Bytes → Nat → Except Err (List Seg)
  | 0, _, _ => .error .fuel
  | fuel+1, rest, off =>
    if rest.length < hdrSize then .ok []
    else match newFile rest off with
      | .error .magic => walkK fuel (rest.drop probeStep) (off + probeStep)
      | .error e => .error e
      | .ok f =>
        match mkSegK f with
        | .error e => .error e
        | .ok s =>
          let next := align16 (off + f.subOff + f.size)
          match walkK fuel (rest.drop (next - off)) next with
          | .error e => .error e
          | .ok segs => .ok (s :: segs)

def newImageK (img : Bytes) : Except Err Image :=
  match Fmap.read img with
  | .error _ => .error .fmap
  | .ok (fm, _) =>
    match fm.areas.find? isCoreboot with
    | none => .error .noArea
    | some a =>
      let area := areaBytes img a
      match walkK (area.length / 16 + 1) area 0 with
      | .error e => .error e
      | .ok segs => .ok { areaOff := a.offset, areaSize := a.size, segs := segs, data := img }

/-- what the code before the repair holds for a record the repaired code holds as `s` -/
def reprSeg (s : Seg) : Seg := if isEmptyType s.file.type then readEmpty s.file else s

def reprImage (i : Image) : Image := { i with segs := i.segs.map reprSeg }

/-! ### `Image.Remove` -/

def typeBootBlock : Nat := 1

inductive RErr where
  | notFound     -- os.ErrExist
  | permission   -- os.ErrPermission (first record; bootblock at the end)
  | panic        -- index out of range: `i.Segs[end]` with `end = len(i.Segs)`
  | noRoom       -- as repaired: the merged range cannot hold a header and a 16-byte name field
  deriving Repr, DecidableEq, Inhabited

/-- `for x, s := range i.Segs { if s.GetFile().Name == n { found = x } }`: the LAST record of that name -/
def findLast (n : Bytes) : List Seg → Nat → Option Nat → Option Nat
  | [], _, acc => acc
  | s :: ss, k, acc => findLast n ss (k + 1) (if s.file.name = n then some k else acc)

def deleted (s : Seg) : Bool := isEmptyType s.file.type

/-- the record `Remove` creates from the removed file: `Name = ""`, `AttrOffset = 0`,
    `SubHeaderOffset = 0x28`, `Size = top - base - 0x28` (uint32), `Type = TypeDeleted2`, then
    `NewEmptyRecord`; `keep`: the repaired constructor (Remove sets `Attr = nil`, `FData = ffbyte(s)`),
    otherwise the constructor makes `Attr` = 16 zero bytes and `FData = ffbyte(Size)` itself.
    `start` = its `RecordStart`: the removed file's, or — fixes/C19-remove-merge-start.diff — `base`. -/
def removedSeg (keep : Bool) (start base top : Nat) : Seg :=
  let sz := (top + 2 ^ 32 - base + 2 ^ 32 - 0x28) % 2 ^ 32
  { file := { size := sz, type := typeDeleted2, attrOff := 0, subOff := 0x28, recordStart := start,
              name := [], attr := if keep then [] else List.replicate 16 0,
              fdata := List.replicate sz 0xFF } }

/-- `Image.Remove(n)` on the record list; the image bytes are not touched (that is `Update`'s job).
    `fix = false`: fiano 2ab062f. `fix = true`: as repaired by fixes/C19-remove-merge-start.diff — no index
    behind the last record, the empty space ends where the next record begins or (no next record) where
    the last merged record ends, an error when 0x28 bytes do not fit, `RecordStart = base`. -/
def removeSegs (keep fix : Bool) (segs : List Seg) (n : Bytes) : Except RErr (List Seg) :=
  match findLast n segs 0 none with
  | none => .error .notFound
  | some found =>
    if found = 0 then .error .permission
    else match segs[found]?, segs[found - 1]? with
      | some sf, some sp =>
        if found = segs.length - 1 ∧ sf.file.type = typeBootBlock then .error .permission
        else
          let start := if deleted sp then found - 1 else found
          if fix then
            let end_ := match segs[found + 1]? with
              | some sn => if deleted sn then found + 2 else found + 1
              | none => found + 1
            match segs[start]?, segs[end_ - 1]? with
            | some sb, some sl =>
              let base := sb.file.recordStart
              let top := match segs[end_]? with
                | some st => st.file.recordStart
                | none => (sl.file.recordStart + sl.file.subOff + sl.file.size) % 2 ^ 32
              if top < base + 0x28 then .error .noRoom
              else .ok (segs.take start ++ removedSeg keep base base top :: segs.drop end_)
            | _, _ => .error .panic        -- not reachable
          else match segs[found + 1]? with
            | none => .error .panic        -- `i.Segs[end]` with the last record removed
            | some sn =>
              let end_ := if deleted sn then found + 2 else found + 1
              match segs[start]?, segs[end_]? with
              | some sb, some st =>
                .ok (segs.take start ++
                  removedSeg keep sf.file.recordStart sb.file.recordStart st.file.recordStart :: segs.drop end_)
              | _, _ => .error .panic      -- `i.Segs[end]`: no record behind the merged range
      | _, _ => .error .panic              -- not reachable: `found` is an index of the list, `found ≥ 1`
end Fiano.Cbfs
