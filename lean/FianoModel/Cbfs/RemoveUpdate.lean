/-
  Follow-up wp-c19c: `Image.Remove` followed by `Image.Update` (both as repaired) on an image that was
  just read changes only the bytes of the merged range — every byte in front of the first merged record
  and from the next record on is left as it was, and `Update` returns no error.
-/
import FianoModel.Cbfs.RemoveLemmas

namespace Fiano.Cbfs

/-- `a` and `b` have the same length and agree outside the window `[lo, hi)` -/
def AgreeOut (lo hi : Nat) (a b : Bytes) : Prop :=
  a.length = b.length ∧ ∀ p, (p < lo ∨ hi ≤ p) → a[p]? = b[p]?

theorem agreeOut_refl (lo hi : Nat) (a : Bytes) : AgreeOut lo hi a a := ⟨rfl, fun _ _ => rfl⟩

theorem agreeOut_trans {lo hi : Nat} {a b c : Bytes} (h1 : AgreeOut lo hi a b) (h2 : AgreeOut lo hi b c) :
    AgreeOut lo hi a c :=
  ⟨h1.1.trans h2.1, fun p hp => (h1.2 p hp).trans (h2.2 p hp)⟩

theorem agreeOut_splice (lo hi : Nat) (b : Bytes) (off : Nat) (d : Bytes) (h1 : lo ≤ off)
    (h2 : off + d.length ≤ hi) (h3 : off + d.length ≤ b.length) : AgreeOut lo hi (splice b off d) b := by
  refine ⟨splice_length b off d h3, ?_⟩
  intro p hp
  rcases hp with hp | hp
  · exact splice_getElem?_lt b off d p (by omega) h3
  · exact splice_getElem?_ge b off d p (by omega) h3

theorem slice_getElem? (b : Bytes) (o l k : Nat) : (slice b o l)[k]? = if k < l then b[o + k]? else none := by
  unfold slice
  rw [List.getElem?_take]
  split
  · rw [List.getElem?_drop]
  · rfl

theorem slice_of_agree {lo hi : Nat} {a b : Bytes} (h : AgreeOut lo hi a b) (o l : Nat)
    (ho : o + l ≤ lo ∨ hi ≤ o) : slice a o l = slice b o l := by
  apply List.ext_getElem?
  intro k
  rw [slice_getElem?, slice_getElem?]
  split
  · exact h.2 _ (by omega)
  · rfl

/-- a record of the image as read that lies outside the window is written back unchanged onto data that
    agrees with the image outside the window -/
theorem updSeg_segAtK_agree (img d : Bytes) (ar : Fmap.Area) (s : Seg) (sa : SegAtK (areaBytes img ar) s)
    (lo hi : Nat) (hag : AgreeOut lo hi d img)
    (hout : ar.offset + (s.file.recordStart + s.file.subOff + s.file.size) ≤ lo ∨ hi ≤ ar.offset + s.file.recordStart) :
    updSeg ar.offset ar.size d s = .ok d := by
  have h1 := sa.hdr
  have h2 := sa.attrLe
  have h3 := sa.inside
  obtain ⟨l1, l2⟩ := areaBytes_len img ar
  have l3 : ar.offset + (areaBytes img ar).length ≤ img.length := by omega
  have hfd : s.file.fdata = slice img (ar.offset + (s.file.recordStart + s.file.subOff)) s.file.size := by
    rw [sa.data, areaBytes_slice _ _ _ _ (by omega)]
  have hfl : s.file.fdata.length = s.file.size := by
    rw [hfd]; exact slice_length _ _ _ (by omega)
  have hwl := writeSeg_len s sa.legacy
  have hdl := hag.1
  apply updSeg_id d ar.offset ar.size s h1 h2 (by omega) (by omega) (by omega)
  · rw [slice_of_agree hag _ _ (by omega), hdrBytes_storedK _ s sa, areaBytes_slice _ _ _ _ (by omega)]
  · rw [slice_of_agree hag _ _ (by
      by_cases ha : s.file.attrOff = 0
      · rw [if_pos ha] at h1 h2 ⊢; omega
      · rw [if_neg ha] at h1 h2 ⊢; omega), sa.name, areaBytes_slice _ _ _ _ (by omega)]
    simp only [Nat.add_assoc]
  · intro ha
    rw [if_neg ha] at h2
    have hat := sa.attr
    rw [if_neg ha] at hat
    rw [slice_of_agree hag _ _ (by omega), hat, areaBytes_slice _ _ _ _ (by omega), List.take_of_length_le (by
      have := slice_len_le img (ar.offset + (s.file.recordStart + s.file.attrOff)) (s.file.subOff - s.file.attrOff)
      omega)]
    simp only [Nat.add_assoc]
  · have hp := writeSeg_prefix s sa.legacy
    rw [hfd, slice_take, Nat.min_eq_left (by omega)] at hp
    rw [slice_of_agree hag _ _ (by omega)]
    simp only [Nat.add_assoc]
    exact hp

theorem updLoop_append_id (step : Bytes → Seg → Except UErr Bytes) (d : Bytes) :
    ∀ (A R : List Seg), (∀ s ∈ A, step d s = .ok d) → updLoop step (A ++ R) d = updLoop step R d := by
  intro A
  induction A with
  | nil => intro R _; rfl
  | cons s ss ih =>
    intro R h
    simp only [List.cons_append, updLoop]
    rw [h s (by simp)]
    exact ih R (fun x hx => h x (by simp [hx]))

theorem writeSeg_empty (s : Seg) (h : isEmptyType s.file.type = true) : writeSeg s = s.file.fdata := by
  unfold writeSeg
  rw [if_pos h]

/-- the write-back of the record `Remove` created touches only its own extent (header, 16-byte name
    field, content) -/
theorem updSeg_removed (ao asz : Nat) (d : Bytes) (del : Seg)
    (ht : isEmptyType del.file.type = true) (ha : del.file.attrOff = 0) (hs : del.file.subOff = 40)
    (hfd : del.file.fdata.length = del.file.size)
    (hasz : del.file.recordStart + 40 + del.file.size ≤ asz)
    (hlen : ao + (del.file.recordStart + 40 + del.file.size) ≤ d.length) :
    ∃ d', updSeg ao asz d del = .ok d' ∧
      AgreeOut (ao + del.file.recordStart) (ao + del.file.recordStart + 40 + del.file.size) d' d := by
  have hw : writeSeg del = del.file.fdata := writeSeg_empty del ht
  have hne : nameEndOf del.file = 40 := by rw [nameEndOf_eq, if_pos ha, hs]
  have hh : (hdrBytes del.file).length = 24 := by simp [hdrBytes, magic]
  rw [updSeg_eq, hne, hw, hfd, hs, ha, if_neg (by omega)]
  refine ⟨_, rfl, ?_⟩
  -- the header
  have a1 : AgreeOut (ao + del.file.recordStart) (ao + del.file.recordStart + 40 + del.file.size)
      (splice d (ao + del.file.recordStart) (hdrBytes del.file)) d :=
    agreeOut_splice _ _ d _ _ (by omega) (by omega) (by omega)
  -- the name field
  have a2 : AgreeOut (ao + del.file.recordStart) (ao + del.file.recordStart + 40 + del.file.size)
      (writeName (splice d (ao + del.file.recordStart) (hdrBytes del.file)) (ao + del.file.recordStart + 24)
        (40 - 24) del.file.name) d := by
    unfold writeName
    split
    · refine agreeOut_trans (agreeOut_splice _ _ _ _ _ (by omega) (by rw [padTo_length]; omega)
        (by rw [padTo_length, a1.1]; omega)) a1
    · exact a1
  -- no attributes
  have a3 : writeAttr (writeName (splice d (ao + del.file.recordStart) (hdrBytes del.file))
      (ao + del.file.recordStart + 24) (40 - 24) del.file.name) (ao + del.file.recordStart + 0) 0 (40 - 0)
      del.file.attr = writeName (splice d (ao + del.file.recordStart) (hdrBytes del.file))
      (ao + del.file.recordStart + 24) (40 - 24) del.file.name := by
    unfold writeAttr
    rw [if_pos rfl]
  rw [a3]
  -- the content
  exact agreeOut_trans (agreeOut_splice _ _ _ _ _ (by omega) (by omega) (by rw [a2.1]; omega)) a2

theorem chainK_get (area : Bytes) : ∀ (segs : List Seg) (lo : Nat), ChainK area lo segs →
    ∀ (k : Nat) (s : Seg), segs[k]? = some s → lo ≤ s.file.recordStart ∧ SegAtK area s ∧
      ∀ (j : Nat) (t : Seg), k < j → segs[j]? = some t →
        s.file.recordStart + s.file.subOff + s.file.size ≤ t.file.recordStart := by
  intro segs
  induction segs with
  | nil => intro lo _ k s hk; simp at hk
  | cons x xs ih =>
    intro lo ⟨c1, c2, c3⟩ k s hk
    cases k with
    | zero =>
      simp only [List.getElem?_cons_zero, Option.some.injEq] at hk
      subst hk
      refine ⟨c1, c2, ?_⟩
      intro j t hj ht
      cases j with
      | zero => omega
      | succ j =>
        simp only [List.getElem?_cons_succ] at ht
        exact (chainK_lo area xs _ c3 t (List.mem_of_getElem? ht)).1
    | succ k =>
      simp only [List.getElem?_cons_succ] at hk
      obtain ⟨i1, i2, i3⟩ := ih _ c3 k s hk
      refine ⟨by omega, i2, ?_⟩
      intro j t hj ht
      cases j with
      | zero => omega
      | succ j =>
        simp only [List.getElem?_cons_succ] at ht
        exact i3 j t (by omega) ht

/-- **remove, then update: only the merged range changes.** For every image (< 4 GiB) the repaired reader
    accepts and every name `Remove` (as repaired) accepts: the `Update` that follows returns no error, keeps
    the length, and leaves every byte outside `[area + base, area + top)` as it was — `base` = start of the
    first merged record, `top` = start of the next record (or the end of the last merged record), with room
    for the 0x28-byte header-and-name of the new empty record. -/
theorem remove_update_outside (img : Bytes) (i : Image) (h : newImageK img = .ok i) (hlen : img.length < 2 ^ 32)
    (n : Bytes) (segs' : List Seg) (hr : removeSegs true true i.segs n = .ok segs') :
    ∃ (start end_ : Nat) (sb : Seg) (top : Nat), i.segs[start]? = some sb ∧ start < end_ ∧
      ((∃ st, i.segs[end_]? = some st ∧ top = st.file.recordStart) ∨
       (i.segs[end_]? = none ∧ ∃ sl, i.segs[end_ - 1]? = some sl ∧
          top = sl.file.recordStart + sl.file.subOff + sl.file.size)) ∧
      sb.file.recordStart + 40 ≤ top ∧ top ≤ i.areaSize ∧ i.areaOff + top ≤ img.length ∧
      (update { i with segs := segs' }).2 = none ∧
      AgreeOut (i.areaOff + sb.file.recordStart) (i.areaOff + top) (update { i with segs := segs' }).1 img := by
  obtain ⟨hd, fm, st0, ar, _, _, ho, hs, hch⟩ := newImageK_inv img i h
  obtain ⟨found, start, end_, del, hfl, ⟨sf, hsf⟩, hfix, h1, h2, h3, h4, h5, h6, h7, h8, t1, t2, t3, t4, t5⟩ :=
    removeSegs_shape true true i.segs segs' n hr
  obtain ⟨sb, top, e1, e2, e3, e4, e5⟩ := hfix rfl
  obtain ⟨l1, l2⟩ := areaBytes_len img ar
  have e32 : (2 : Nat) ^ 32 = 4294967296 := by decide
  -- `top` lies inside the area and is the unwrapped value
  have htop : top ≤ (areaBytes img ar).length ∧
      ((∃ st, i.segs[end_]? = some st ∧ top = st.file.recordStart) ∨
       (i.segs[end_]? = none ∧ ∃ sl, i.segs[end_ - 1]? = some sl ∧
          top = sl.file.recordStart + sl.file.subOff + sl.file.size)) := by
    rcases e5 with ⟨st, g1, g2⟩ | ⟨g0, sl, g1, g2⟩
    · have sa := (chainK_get _ _ _ hch end_ st g1).2.1
      have := sa.inside
      exact ⟨by omega, Or.inl ⟨st, g1, g2⟩⟩
    · have sa := (chainK_get _ _ _ hch (end_ - 1) sl g1).2.1
      have hin := sa.inside
      have hm : (sl.file.recordStart + sl.file.subOff + sl.file.size) % 2 ^ 32 =
          sl.file.recordStart + sl.file.subOff + sl.file.size := by
        rw [e32] at hlen ⊢
        exact Nat.mod_eq_of_lt (by omega)
      rw [hm] at g2
      exact ⟨by omega, Or.inr ⟨g0, sl, g1, g2⟩⟩
  obtain ⟨htl, hdesc⟩ := htop
  have hpos : 0 < (areaBytes img ar).length := by omega
  have l3 : ar.offset + (areaBytes img ar).length ≤ img.length := by omega
  have htop32 : top < 2 ^ 32 := by rw [e32] at hlen ⊢; omega
  have hext : del.file.recordStart + 40 + del.file.size = top := by
    rw [e2, e4]; exact size_nowrap top sb.file.recordStart e3 htop32
  have hdel : isEmptyType del.file.type = true := by rw [t1]; decide
  have hfdl : del.file.fdata.length = del.file.size := by rw [t5]; simp
  refine ⟨start, end_, sb, top, e1, by omega, hdesc, e3, by omega, by omega, ?_⟩
  -- the loop: records in front (identity on the image), the new record, records behind
  have hupd : update { i with segs := segs' } =
      updLoop (updSeg ar.offset ar.size) (del :: i.segs.drop end_) img := by
    unfold update
    simp only [hd, ho, hs, h8]
    apply updLoop_append_id
    intro s hs'
    exact updSeg_segAtK img ar s (chainK_lo _ _ _ hch s (List.mem_of_mem_take hs')).2
  obtain ⟨d', hd', hag⟩ := updSeg_removed ar.offset ar.size img del hdel t3 t4 hfdl (by omega) (by omega)
  have hwin : AgreeOut (ar.offset + sb.file.recordStart) (ar.offset + top) d' img := by
    rw [e2] at hag hext
    rw [show ar.offset + sb.file.recordStart + 40 + del.file.size = ar.offset + top by omega] at hag
    exact hag
  have hrest : updLoop (updSeg ar.offset ar.size) (i.segs.drop end_) d' = (d', none) := by
    apply updLoop_id
    intro s hs'
    obtain ⟨j, hj⟩ := List.getElem?_of_mem hs'
    rw [List.getElem?_drop] at hj
    have sa := (chainK_get _ _ _ hch (end_ + j) s hj).2.1
    apply updSeg_segAtK_agree img d' ar s sa _ _ hwin
    right
    rcases hdesc with ⟨st, g1, g2⟩ | ⟨g0, _⟩
    · cases j with
      | zero =>
        rw [Nat.add_zero, g1] at hj
        injection hj with hj
        subst hj; omega
      | succ j =>
        have hst := chainK_get _ _ _ hch end_ st g1
        have := hst.2.2 (end_ + (j + 1)) s (by omega) hj
        omega
    · have hl : i.segs.length ≤ end_ := by
        rcases Nat.lt_or_ge end_ i.segs.length with hl | hl
        · rw [List.getElem?_eq_getElem hl] at g0; cases g0
        · exact hl
      rw [List.getElem?_eq_none (by omega)] at hj
      cases hj
  rw [hupd]
  simp only [updLoop, hd', hrest, ho]
  exact ⟨trivial, hwin⟩

end Fiano.Cbfs
