/-
  Follow-up wp-c19c: `Image.Remove` (model `removeSegs`, Cbfs/Keep.lean; both variants).
-/
import FianoModel.Cbfs.KeepLemmas

namespace Fiano.Cbfs

theorem removedSeg_fields (keep : Bool) (st base top : Nat) :
    (removedSeg keep st base top).file.type = typeDeleted2 ∧ (removedSeg keep st base top).file.name = [] ∧
    (removedSeg keep st base top).file.attrOff = 0 ∧ (removedSeg keep st base top).file.subOff = 0x28 ∧
    (removedSeg keep st base top).file.recordStart = st ∧
    (removedSeg keep st base top).file.fdata = List.replicate (removedSeg keep st base top).file.size 0xFF := by
  refine ⟨rfl, rfl, rfl, rfl, rfl, ?_⟩
  simp only [removedSeg]

theorem removedSeg_size (keep : Bool) (st base top : Nat) :
    (removedSeg keep st base top).file.size = (top + 2 ^ 32 - base + 2 ^ 32 - 0x28) % 2 ^ 32 := by
  simp only [removedSeg]

/-- the shape both variants share -/
def RemoveShape (fix : Bool) (segs segs' : List Seg) (n : Bytes) : Prop :=
  ∃ found start end_ del, findLast n segs 0 none = some found ∧ (∃ sf, segs[found]? = some sf) ∧
    (fix = true → ∃ sb top, segs[start]? = some sb ∧ del.file.recordStart = sb.file.recordStart ∧
      sb.file.recordStart + 0x28 ≤ top ∧
      del.file.size = (top + 2 ^ 32 - sb.file.recordStart + 2 ^ 32 - 0x28) % 2 ^ 32 ∧
      ((∃ st, segs[end_]? = some st ∧ top = st.file.recordStart) ∨
       (segs[end_]? = none ∧ ∃ sl, segs[end_ - 1]? = some sl ∧
          top = (sl.file.recordStart + sl.file.subOff + sl.file.size) % 2 ^ 32))) ∧
    1 ≤ found ∧ start ≤ found ∧ found < end_ ∧ found ≤ start + 1 ∧ end_ ≤ found + 2 ∧
    (start < found → ∃ sp, segs[start]? = some sp ∧ deleted sp = true) ∧
    (found + 1 < end_ → ∃ sn, segs[found + 1]? = some sn ∧ deleted sn = true) ∧
    segs' = segs.take start ++ del :: segs.drop end_ ∧
    del.file.type = typeDeleted2 ∧ del.file.name = [] ∧ del.file.attrOff = 0 ∧ del.file.subOff = 0x28 ∧
    del.file.fdata = List.replicate del.file.size 0xFF

theorem start_props (segs : List Seg) (found : Nat) (sp : Seg) (h0 : found ≠ 0) (hsp : segs[found - 1]? = some sp) :
    (if deleted sp = true then found - 1 else found) ≤ found ∧
    found ≤ (if deleted sp = true then found - 1 else found) + 1 ∧
    ((if deleted sp = true then found - 1 else found) < found →
      ∃ s, segs[if deleted sp = true then found - 1 else found]? = some s ∧ deleted s = true) := by
  by_cases hd : deleted sp = true
  · rw [if_pos hd]
    exact ⟨by omega, by omega, fun _ => ⟨sp, hsp, hd⟩⟩
  · rw [if_neg hd]
    exact ⟨by omega, by omega, fun h => absurd h (by omega)⟩

theorem end_props (sn : Seg) (found : Nat) :
    found < (if deleted sn = true then found + 2 else found + 1) ∧
    (if deleted sn = true then found + 2 else found + 1) ≤ found + 2 ∧
    (found + 1 < (if deleted sn = true then found + 2 else found + 1) → deleted sn = true) := by
  by_cases hd : deleted sn = true
  · rw [if_pos hd]; exact ⟨by omega, by omega, fun _ => hd⟩
  · rw [if_neg hd]; exact ⟨by omega, by omega, fun h => absurd h (by omega)⟩

theorem removeSegs_shape (keep fix : Bool) (segs segs' : List Seg) (n : Bytes)
    (h : removeSegs keep fix segs n = .ok segs') : RemoveShape fix segs segs' n := by
  unfold removeSegs at h
  cases hfl : findLast n segs 0 none with
  | none => rw [hfl] at h; cases h
  | some found =>
    rw [hfl] at h
    simp only at h
    by_cases h0 : found = 0
    · rw [if_pos h0] at h; cases h
    rw [if_neg h0] at h
    cases hsf : segs[found]? with
    | none => rw [hsf] at h; cases h
    | some sf =>
      cases hsp : segs[found - 1]? with
      | none => rw [hsf, hsp] at h; cases h
      | some sp =>
        rw [hsf, hsp] at h
        simp only at h
        by_cases hb : found = segs.length - 1 ∧ sf.file.type = typeBootBlock
        · rw [if_pos hb] at h; cases h
        rw [if_neg hb] at h
        obtain ⟨p1, p2, p3⟩ := start_props segs found sp h0 hsp
        generalize hst : (if deleted sp = true then found - 1 else found) = start at h p1 p2 p3
        cases fix with
        | true =>
          simp only [↓reduceIte] at h
          cases hsn : segs[found + 1]? with
          | none =>
            rw [hsn] at h
            simp only at h
            cases hsb : segs[start]? with
            | none => rw [hsb] at h; cases h
            | some sb =>
              cases hsl : segs[found + 1 - 1]? with
              | none => rw [hsb, hsl] at h; cases h
              | some sl =>
                rw [hsb, hsl] at h
                simp only [hsn] at h
                split at h
                · cases h
                · rename_i hlt
                  injection h with h
                  obtain ⟨f1, f2, f3, f4, _, f6⟩ := removedSeg_fields keep sb.file.recordStart sb.file.recordStart
                    ((sl.file.recordStart + sl.file.subOff + sl.file.size) % 2 ^ 32)
                  exact ⟨found, start, found + 1, removedSeg keep sb.file.recordStart sb.file.recordStart
                      ((sl.file.recordStart + sl.file.subOff + sl.file.size) % 2 ^ 32), hfl, ⟨sf, hsf⟩,
                    fun _ => ⟨sb, (sl.file.recordStart + sl.file.subOff + sl.file.size) % 2 ^ 32, hsb, (removedSeg_fields keep _ _ _).2.2.2.2.1,
                      Nat.le_of_not_lt hlt, removedSeg_size _ _ _ _, Or.inr ⟨hsn, sl, hsl, rfl⟩⟩,
                    by omega, p1, by omega, p2, by omega, p3,
                    fun hh => absurd hh (by omega), h.symm, f1, f2, f3, f4, f6⟩
          | some sn =>
            rw [hsn] at h
            simp only at h
            obtain ⟨q1, q2, q3⟩ := end_props sn found
            generalize hen : (if deleted sn = true then found + 2 else found + 1) = end_ at h q1 q2 q3
            cases hsb : segs[start]? with
            | none => rw [hsb] at h; cases h
            | some sb =>
              cases hsl : segs[end_ - 1]? with
              | none => rw [hsb, hsl] at h; cases h
              | some sl =>
                rw [hsb, hsl] at h
                cases hst' : segs[end_]? with
                | none =>
                  simp only [hst'] at h
                  split at h
                  · cases h
                  · rename_i hlt
                    injection h with h
                    refine ⟨found, start, end_, removedSeg keep sb.file.recordStart sb.file.recordStart
                        ((sl.file.recordStart + sl.file.subOff + sl.file.size) % 2 ^ 32), hfl, ⟨sf, hsf⟩,
                      fun _ => ⟨sb, (sl.file.recordStart + sl.file.subOff + sl.file.size) % 2 ^ 32, hsb, (removedSeg_fields keep _ _ _).2.2.2.2.1,
                        Nat.le_of_not_lt hlt, removedSeg_size _ _ _ _, Or.inr ⟨hst', sl, hsl, rfl⟩⟩,
                      by omega, p1, q1, p2, q2, p3,
                      fun hh => ⟨sn, hsn, q3 hh⟩, h.symm, ?_⟩
                    exact ⟨rfl, rfl, rfl, rfl, (removedSeg_fields keep _ _ _).2.2.2.2.2⟩
                | some st =>
                  simp only [hst'] at h
                  split at h
                  · cases h
                  · rename_i hlt
                    injection h with h
                    refine ⟨found, start, end_, removedSeg keep sb.file.recordStart sb.file.recordStart
                        st.file.recordStart, hfl, ⟨sf, hsf⟩,
                      fun _ => ⟨sb, st.file.recordStart, hsb, (removedSeg_fields keep _ _ _).2.2.2.2.1,
                        Nat.le_of_not_lt hlt, removedSeg_size _ _ _ _, Or.inl ⟨st, hst', rfl⟩⟩,
                      by omega, p1, q1, p2, q2, p3,
                      fun hh => ⟨sn, hsn, q3 hh⟩, h.symm, ?_⟩
                    exact ⟨rfl, rfl, rfl, rfl, (removedSeg_fields keep _ _ _).2.2.2.2.2⟩
        | false =>
          simp only [Bool.false_eq_true, ↓reduceIte] at h
          cases hsn : segs[found + 1]? with
          | none => rw [hsn] at h; cases h
          | some sn =>
            rw [hsn] at h
            simp only at h
            obtain ⟨q1, q2, q3⟩ := end_props sn found
            generalize hen : (if deleted sn = true then found + 2 else found + 1) = end_ at h q1 q2 q3
            cases hsb : segs[start]? with
            | none => rw [hsb] at h; cases h
            | some sb =>
              cases hst' : segs[end_]? with
              | none => rw [hsb, hst'] at h; cases h
              | some st =>
                rw [hsb, hst'] at h
                simp only at h
                injection h with h
                refine ⟨found, start, end_, _, hfl, ⟨sf, hsf⟩, fun hh => absurd hh (by decide),
                  by omega, p1, q1, p2, q2, p3,
                  fun hh => ⟨sn, hsn, q3 hh⟩, h.symm, ?_⟩
                exact ⟨rfl, rfl, rfl, rfl, (removedSeg_fields keep _ _ _).2.2.2.2.2⟩

theorem size_nowrap (top base : Nat) (h1 : base + 40 ≤ top) (h2 : top < 2 ^ 32) :
    base + 40 + (top + 2 ^ 32 - base + 2 ^ 32 - 40) % 2 ^ 32 = top := by
  have e : (2 : Nat) ^ 32 = 4294967296 := by decide
  rw [e] at h2 ⊢
  omega

/-- **others unchanged.** `Remove` (either variant) replaces a range of at most three consecutive records
    — the LAST record of that name, and the empty-space record directly before / behind it if there is
    one — by one empty-space record (type 0xffffffff, empty name, no attributes, 0xFF content). Every
    other record is kept as it is, in order; so is its listing entry. -/
theorem removeSegs_others (keep fix : Bool) (segs segs' : List Seg) (n : Bytes)
    (h : removeSegs keep fix segs n = .ok segs') :
    ∃ found start end_ del, findLast n segs 0 none = some found ∧ 1 ≤ found ∧ found < segs.length ∧
      start ≤ found ∧ found < end_ ∧ found ≤ start + 1 ∧ end_ ≤ found + 2 ∧
      (∀ k s, start ≤ k → k < end_ → k ≠ found → segs[k]? = some s → deleted s = true) ∧
      segs'.take start = segs.take start ∧ segs'[start]? = some del ∧ segs'.drop (start + 1) = segs.drop end_ ∧
      segs'.map entryOf = (segs.take start).map entryOf ++ entryOf del :: (segs.drop end_).map entryOf ∧
      isEmptyType del.file.type = true ∧ del.file.name = [] ∧ del.file.attrOff = 0 ∧
      del.file.fdata = List.replicate del.file.size 0xFF := by
  obtain ⟨found, start, end_, del, hfl, ⟨sf, hsf⟩, _, h1, h2, h3, h4, h5, h6, h7, h8, t1, t2, t3, _, t5⟩ :=
    removeSegs_shape keep fix segs segs' n h
  have hlen : found < segs.length := by
    rcases Nat.lt_or_ge found segs.length with hl | hl
    · exact hl
    · rw [List.getElem?_eq_none hl] at hsf; cases hsf
  have hA : (segs.take start).length = start := by
    rw [List.length_take]; omega
  refine ⟨found, start, end_, del, hfl, h1, hlen, h2, h3, h4, h5, ?_, ?_, ?_, ?_, ?_, ?_, t2, t3, t5⟩
  · intro k s hk1 hk2 hk3 hks
    by_cases hlt : k < found
    · have : k = start := by omega
      subst this
      obtain ⟨sp, e1, e2⟩ := h6 hlt
      rw [e1] at hks; injection hks with hks; subst hks; exact e2
    · have : k = found + 1 := by omega
      subst this
      obtain ⟨sn, e1, e2⟩ := h7 (by omega)
      rw [e1] at hks; injection hks with hks; subst hks; exact e2
  · rw [h8, List.take_left' hA]
  · rw [h8, List.getElem?_append_right (by omega), hA]; simp
  · rw [h8, show segs.take start ++ del :: segs.drop end_ = (segs.take start ++ [del]) ++ segs.drop end_ by simp]
    exact List.drop_left' (by rw [List.length_append, hA]; rfl)
  · rw [h8, List.map_append, List.map_cons]
  · rw [t1]; decide

/-- as repaired by fixes/C19-remove-merge-start.diff, the record `Remove` creates begins where the merged
    range begins and — when the offsets are below 4 GiB — ends exactly where the next record begins (or,
    behind the last record, where the last merged record ends): header 24 + name field 16 + content -/
theorem removeSegs_fix_extent (keep : Bool) (segs segs' : List Seg) (n : Bytes)
    (h : removeSegs keep true segs n = .ok segs') :
    ∃ (start end_ : Nat) (del sb : Seg) (top : Nat), segs'[start]? = some del ∧ segs[start]? = some sb ∧
      del.file.recordStart = sb.file.recordStart ∧ del.file.subOff = 0x28 ∧ sb.file.recordStart + 0x28 ≤ top ∧
      ((∃ st, segs[end_]? = some st ∧ top = st.file.recordStart) ∨
       (segs[end_]? = none ∧ ∃ sl, segs[end_ - 1]? = some sl ∧
          top = (sl.file.recordStart + sl.file.subOff + sl.file.size) % 2 ^ 32)) ∧
      (top < 2 ^ 32 → del.file.recordStart + del.file.subOff + del.file.size = top) := by
  obtain ⟨found, start, end_, del, hfl, ⟨sf, hsf⟩, hfix, h1, h2, h3, h4, h5, h6, h7, h8, t1, t2, t3, t4, t5⟩ :=
    removeSegs_shape keep true segs segs' n h
  obtain ⟨sb, top, e1, e2, e3, e4, e5⟩ := hfix rfl
  have hlen : found < segs.length := by
    rcases Nat.lt_or_ge found segs.length with hl | hl
    · exact hl
    · rw [List.getElem?_eq_none hl] at hsf; cases hsf
  have hA : (segs.take start).length = start := by
    rw [List.length_take]; omega
  refine ⟨start, end_, del, sb, top, ?_, e1, e2, t4, e3, e5, ?_⟩
  · rw [h8, List.getElem?_append_right (by omega), hA]; simp
  · intro htop
    rw [e2, t4, e4]
    exact size_nowrap top sb.file.recordStart e3 htop

/-! ### the code before fixes/C19-remove-merge-start.diff: witnesses (record lists as `NewImage` returns them:
    consecutive records at 0, 64, 128, 192; header 24 + name field 16 + 24 bytes of data each) -/

def errOf {α : Type} : Except RErr α → Option RErr
  | .error e => some e
  | .ok _ => none

def wSeg (name : Bytes) (type start : Nat) : Seg :=
  { file := { size := 24, type := type, attrOff := 0, subOff := 40, recordStart := start, name := name,
              attr := [], fdata := List.replicate 24 0x30 } }

/-- master header, empty space, file `a`, file `z` -/
def wSegs : List Seg := [wSeg [0x6d] typeMaster 0, wSeg [] typeDeleted2 64, wSeg [0x61] 0x50 128, wSeg [0x7a] 0x50 192]

/-- R1 — `Remove("a")` where `a` follows an empty record: the merged record keeps the removed file's
    `RecordStart` (128) with the size of the merged range (192 − 64 − 40 = 88), so it runs 64 bytes into the
    next record; as repaired it starts at 64 and ends at 192 -/
theorem remove_head_witness_merge_before :
    (removeSegs true false wSegs [0x61]).toOption.map (fun l => l.map (fun s => (s.file.recordStart, s.file.size))) =
      some [(0, 24), (128, 88), (192, 24)] ∧
    (removeSegs true true wSegs [0x61]).toOption.map (fun l => l.map (fun s => (s.file.recordStart, s.file.size))) =
      some [(0, 24), (64, 88), (192, 24)] := by decide

/-- R2 — `Remove("z")`, the last record (not a bootblock): `i.Segs[end]` is out of range; as repaired the
    record becomes empty space of its own extent (40 + 24) -/
theorem remove_head_witness_last :
    errOf (removeSegs true false wSegs [0x7a]) = some .panic ∧
    (removeSegs true true wSegs [0x7a]).toOption.map (fun l => l.map (fun s => (s.file.recordStart, s.file.size))) =
      some [(0, 24), (64, 24), (128, 24), (192, 24)] := by decide

/-- R3 — a record shorter than the empty record that replaces it (32 bytes: header, 4-byte name field,
    4 bytes): `top - base - 0x28` wraps to 0xfffffff8 (the code then asks `ffbyte` for 4 GiB); as repaired
    `Remove` returns an error -/
theorem remove_head_witness_wrap :
    (removeSegs true false [wSeg [0x6d] typeMaster 0, wSeg [0x73] 0x50 64, wSeg [0x7a] 0x50 96] [0x73]).toOption.map
        (fun l => l.map (fun s => s.file.size)) = some [24, 0xfffffff8, 24] ∧
    errOf (removeSegs true true [wSeg [0x6d] typeMaster 0, wSeg [0x73] 0x50 64, wSeg [0x7a] 0x50 96] [0x73]) =
      some .noRoom := by decide

end Fiano.Cbfs
