/-
  The text and the JSON listing of a well-formed archive as functions of the abstract archive
  (`Spec.text`, `Spec.json`: what the reference grammar says must be shown), and the lemmas that the
  presentation model (Cbfs/Present.lean) computes exactly these.
-/
import FianoModel.Cbfs.Present
import FianoModel.Cbfs.ImageLemmas

namespace Fiano.Cbfs.Spec
open Fiano.Cbfs

/-- the line(s) of the text listing for the record `r` stored at area offset `off`: name (empty space:
    `(empty)`), offset, type name, size of the stored data, the stored compression algorithm; a SELF
    payload is followed by one line per segment header of its data -/
def lineOf (off : Nat) (r : Rec) : Bytes :=
  if isEmptyType r.type then recString (str "(empty)") off (typeName r.type) r.data.length (str "none")
  else if r.type = typeSELF then
    recString r.name off (typeName r.type) r.data.length (compName (compOf r.attrs)) ++
      segLines 0 ((payloadHdrs (r.data.length + 1) r.data).getD [])
  else recString r.name off (typeName r.type) r.data.length (compName (compOf r.attrs))

/-- the record lines of the text listing: every record, in archive order, one (group of) line(s) each -/
def text : Nat → List Rec → Bytes
  | _, [] => []
  | off, r :: rs => lineOf off r ++ (str "\n" ++ text (off + r.len) rs)

/-- the JSON object of the record `r` stored at `off` -/
def jrecAt (off : Nat) (r : Rec) : JRec :=
  { name := coerceUTF8 r.name, start := off, size := r.data.length, type := typeName r.type
    segments := if r.type = typeSELF then some (((payloadHdrs (r.data.length + 1) r.data).getD []).map jsegOf) else none
    comp := compName (compOf r.attrs) }

def json : Nat → List Rec → List JRec
  | _, [] => []
  | off, r :: rs => jrecAt off r :: json (off + r.len) rs

end Fiano.Cbfs.Spec

namespace Fiano.Cbfs
open Spec

theorem compression_fileAt (r : Rec) (w : r.WF) (off : Nat) : compression (fileAt off r) = compOf r.attrs := by
  by_cases he : isEmptyType r.type = true
  · rw [compression_zero16 _ (by simp [fileAt, he]), w.emptyBare he]; rfl
  · have he' : isEmptyType r.type = false := by simpa using he
    exact compression_attrs _ r.attrs w.attrs (by simp [fileAt, he'])

theorem payloadOf_fileAt (r : Rec) (off : Nat) (he : isEmptyType r.type = false) :
    payloadOf (fileAt off r) = payloadHdrs (r.data.length + 1) r.data := by
  unfold payloadOf
  simp [fileAt, he]

theorem segString_fileAt (r : Rec) (w : r.WF) (off : Nat) : segString (fileAt off r) = lineOf off r := by
  unfold segString lineOf
  by_cases he : isEmptyType r.type = true
  · simp only [show (fileAt off r).type = r.type from rfl, he, ↓reduceIte]
    rfl
  · have he' : isEmptyType r.type = false := by simpa using he
    simp only [show (fileAt off r).type = r.type from rfl, he', Bool.false_eq_true, ↓reduceIte]
    rw [compression_fileAt r w off, payloadOf_fileAt r off he']
    rfl

theorem textLines_files : ∀ (recs : List Rec) (off : Nat), (∀ r ∈ recs, r.WF) →
    textLines (files off recs) = Spec.text off recs := by
  intro recs
  induction recs with
  | nil => intro _ _; rfl
  | cons r rs ih =>
    intro off hw
    simp only [files, textLines, Spec.text]
    rw [segString_fileAt r (hw r (by simp)) off, ih (off + r.len) (fun x hx => hw x (by simp [hx]))]

theorem jrecOf_fileAt (r : Rec) (w : r.WF) (off : Nat) : jrecOf (fileAt off r) = jrecAt off r := by
  unfold jrecOf jrecAt
  rw [compression_fileAt r w off]
  by_cases hs : r.type = typeSELF
  · have he' : isEmptyType r.type = false := by rw [hs]; decide
    simp only [show (fileAt off r).type = r.type from rfl, hs, ↓reduceIte]
    rw [payloadOf_fileAt r off he']
    rfl
  · simp only [show (fileAt off r).type = r.type from rfl, hs, ↓reduceIte]
    rfl

theorem json_files : ∀ (recs : List Rec) (off : Nat), (∀ r ∈ recs, r.WF) →
    (files off recs).map jrecOf = Spec.json off recs := by
  intro recs
  induction recs with
  | nil => intro _ _; rfl
  | cons r rs ih =>
    intro off hw
    simp only [files, List.map_cons, Spec.json]
    rw [jrecOf_fileAt r (hw r (by simp)) off, ih (off + r.len) (fun x hx => hw x (by simp [hx]))]

end Fiano.Cbfs
