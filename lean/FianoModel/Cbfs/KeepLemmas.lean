/-
  Follow-up wp-c19c: the reader as repaired by fixes/C19-update-empty-identity.diff (`newImageK`,
  Cbfs/Keep.lean) on ARBITRARY input — every listed record, empty space included, holds the bytes
  stored at its offsets — and `Image.Update` on the image as read is the identity for EVERY accepted
  image (no cleanliness assumption about empty space any more).
-/
import FianoModel.Cbfs.Keep
import FianoModel.Cbfs.UpdateLemmas

namespace Fiano.Cbfs

/-- what is true of every record the repaired reader lists, in terms of the area bytes: as `SegAt`,
    but attributes and data are the stored bytes for EVERY type -/
structure SegAtK (area : Bytes) (s : Seg) : Prop where
  hdr     : 24 ≤ (if s.file.attrOff = 0 then s.file.subOff else s.file.attrOff)
  attrLe  : (if s.file.attrOff = 0 then s.file.subOff else s.file.attrOff) ≤ s.file.subOff
  inside  : s.file.recordStart + s.file.subOff + s.file.size ≤ area.length
  magicAt : slice area s.file.recordStart 8 = magic
  size    : s.file.size = fromBE (slice area (s.file.recordStart + 8) 4)
  type    : s.file.type = fromBE (slice area (s.file.recordStart + 12) 4)
  attrOff : s.file.attrOff = fromBE (slice area (s.file.recordStart + 16) 4)
  subOff  : s.file.subOff = fromBE (slice area (s.file.recordStart + 20) 4)
  name    : s.file.name = (slice area (s.file.recordStart + 24)
              ((if s.file.attrOff = 0 then s.file.subOff else s.file.attrOff) - 24)).takeWhile (· ≠ 0)
  data    : s.file.fdata = slice area (s.file.recordStart + s.file.subOff) s.file.size
  attr    : s.file.attr = if s.file.attrOff = 0 then []
              else slice area (s.file.recordStart + s.file.attrOff) (s.file.subOff - s.file.attrOff)
  legacy  : s.file.type = typeLegacyStage →
              28 < s.file.fdata.length ∧ fromLE (slice s.file.fdata 20 4) ≤ s.file.fdata.length - 28

theorem walkK_zero (rest : Bytes) (off : Nat) : walkK 0 rest off = .error .fuel := rfl

theorem walkK_succ (fuel : Nat) (rest : Bytes) (off : Nat) : walkK (fuel + 1) rest off =
    if rest.length < 24 then .ok []
    else match newFile rest off with
      | .error .magic => walkK fuel (rest.drop 16) (off + 16)
      | .error e => .error e
      | .ok f =>
        match mkSegK f with
        | .error e => .error e
        | .ok s =>
          match walkK fuel (rest.drop (align16 (off + f.subOff + f.size) - off))
              (align16 (off + f.subOff + f.size)) with
          | .error e => .error e
          | .ok segs => .ok (s :: segs) := rfl

theorem mkSegK_eq (f : File) : mkSegK f =
    if isEmptyType f.type = true then .ok { file := f } else mkSeg f := rfl

/-- every constructor of the repaired code keeps the file as parsed -/
theorem mkSegK_file (f : File) (s : Seg) (h : mkSegK f = .ok s) : s.file = f := by
  rw [mkSegK_eq] at h
  by_cases he : isEmptyType f.type = true
  · rw [if_pos he] at h
    injection h with h; subst h; rfl
  · rw [if_neg he, mkSeg_eq, if_neg he] at h
    by_cases c1 : f.type = typeLegacyStage
    · rw [if_pos c1] at h; exact readLegacyStage_file f s h
    rw [if_neg c1] at h
    by_cases c2 : f.type = typeSELF
    · rw [if_pos c2] at h; exact readPayload_file f s h
    rw [if_neg c2] at h
    injection h with h; subst h; rfl

theorem mkSegK_legacy (f : File) (s : Seg) (h : mkSegK f = .ok s) (ht : f.type = typeLegacyStage) :
    28 < f.fdata.length ∧ fromLE (slice f.fdata 20 4) ≤ f.fdata.length - 28 := by
  have he : ¬ isEmptyType f.type = true := by rw [ht]; decide
  rw [mkSegK_eq, if_neg he] at h
  exact (mkSeg_legacy f s h ht).2

theorem mkSegK_ne_fuel (f : File) : mkSegK f ≠ .error .fuel := by
  rw [mkSegK_eq]
  by_cases he : isEmptyType f.type = true
  · rw [if_pos he]; intro h; cases h
  · rw [if_neg he]; exact mkSeg_ne_fuel f

theorem segAtK_of (area : Bytes) (off : Nat) (f : File) (s : Seg)
    (hn : newFile (area.drop off) off = .ok f) (hs : mkSegK f = .ok s) :
    SegAtK area s ∧ s.file.recordStart = off ∧ 24 ≤ f.subOff := by
  obtain ⟨n0, n1, n2, n3, n4, n5, n6, n7, n8, n9, n10, n11, n12⟩ := newFile_inv _ _ _ hn
  have hf := mkSegK_file f s hs
  have hlen : (area.drop off).length = area.length - off := by simp
  refine ⟨?_, by rw [hf, n6], by omega⟩
  constructor
  · rw [hf]; exact n7
  · rw [hf]; exact n8
  · rw [hf, n6]; omega
  · rw [hf, n6]; unfold slice; simpa using n1
  · rw [hf, n2, slice_drop, n6]
  · rw [hf, n3, slice_drop, n6]
  · rw [hf, n4, slice_drop, n6]
  · rw [hf, n5, slice_drop, n6]
  · rw [hf, n10, slice_drop, n6]
  · rw [hf, n12, slice_drop, n6]
  · rw [hf, n11, n6]
    split
    · rfl
    · rw [slice_drop]
  · intro ht
    rw [hf] at ht ⊢
    exact mkSegK_legacy f s hs ht

/-- records in increasing order, each starting at or after the end of the previous one -/
def ChainK (area : Bytes) : Nat → List Seg → Prop
  | _, [] => True
  | lo, s :: rest => lo ≤ s.file.recordStart ∧ SegAtK area s ∧
      ChainK area (s.file.recordStart + s.file.subOff + s.file.size) rest

/-- everything the repaired walk lists is a chain of stored records -/
theorem walkK_chain (area : Bytes) : ∀ (fuel off : Nat) (segs : List Seg),
    walkK fuel (area.drop off) off = .ok segs → ChainK area off segs := by
  intro fuel
  induction fuel with
  | zero => intro off segs h; rw [walkK_zero] at h; cases h
  | succ fuel ih =>
    intro off segs h
    rw [walkK_succ] at h
    split at h
    · injection h with h; subst h; trivial
    · split at h
      · rw [List.drop_drop] at h
        have := ih (off + 16) segs h
        revert this
        cases segs with
        | nil => intro _; trivial
        | cons s rest =>
          intro ⟨c1, c2, c3⟩
          exact ⟨by omega, c2, c3⟩
      · cases h
      · rename_i f hn
        split at h
        · cases h
        · rename_i s hs
          split at h
          · cases h
          · rename_i segs' hw
            injection h with h; subst h
            obtain ⟨sa, e1, e4⟩ := segAtK_of area off f s hn hs
            have hf := mkSegK_file f s hs
            have hge := align16_ge (off + f.subOff + f.size)
            rw [List.drop_drop, show off + (align16 (off + f.subOff + f.size) - off) =
              align16 (off + f.subOff + f.size) by omega] at hw
            have hc := ih _ _ hw
            refine ⟨by omega, sa, ?_⟩
            rw [e1, hf]
            revert hc
            cases segs' with
            | nil => intro _; trivial
            | cons s' rest' =>
              intro ⟨c1, c2, c3⟩
              exact ⟨by omega, c2, c3⟩

theorem chainK_lo (area : Bytes) : ∀ (segs : List Seg) (lo : Nat), ChainK area lo segs →
    ∀ s ∈ segs, lo ≤ s.file.recordStart ∧ SegAtK area s := by
  intro segs
  induction segs with
  | nil => intro lo _ s hs; simp at hs
  | cons x xs ih =>
    intro lo ⟨c1, c2, c3⟩ s hs
    simp only [List.mem_cons] at hs
    rcases hs with rfl | hs
    · exact ⟨c1, c2⟩
    · obtain ⟨h1, h2⟩ := ih _ c3 s hs
      exact ⟨by omega, h2⟩

theorem chainK_pairwise (area : Bytes) : ∀ (segs : List Seg) (lo : Nat), ChainK area lo segs →
    segs.Pairwise (fun x y => x.file.recordStart + x.file.subOff + x.file.size ≤ y.file.recordStart) := by
  intro segs
  induction segs with
  | nil => intro _ _; exact List.Pairwise.nil
  | cons x xs ih =>
    intro lo ⟨_, _, c3⟩
    refine List.Pairwise.cons ?_ (ih _ c3)
    intro y hy
    exact (chainK_lo area xs _ c3 y hy).1

/-- the repaired walk always moves forward too -/
theorem walkK_fuel_ok : ∀ (fuel : Nat) (rest : Bytes) (off : Nat), rest.length < 16 * fuel →
    walkK fuel rest off ≠ .error .fuel := by
  intro fuel
  induction fuel with
  | zero => intro rest off h; omega
  | succ fuel ih =>
    intro rest off hf h
    rw [walkK_succ] at h
    split at h
    · cases h
    · rename_i hlen
      split at h
      · exact ih _ _ (by simp only [List.length_drop]; omega) h
      · rename_i e hne hnf
        injection h with h
        subst h
        exact newFile_ne_fuel _ _ hnf
      · rename_i f hn
        split at h
        · rename_i e hs
          injection h with h
          subst h
          exact mkSegK_ne_fuel _ hs
        · split at h
          · rename_i e hw
            injection h with h
            subst h
            obtain ⟨n0, _, _, _, _, _, _, n7, n8, _⟩ := newFile_inv _ _ _ hn
            have hge := align16_ge (off + f.subOff + f.size)
            exact ih _ _ (by simp only [List.length_drop]; omega) hw
          · cases h

theorem newImageK_inv (img : Bytes) (i : Image) (h : newImageK img = .ok i) :
    i.data = img ∧ ∃ fm s ar, Fmap.read img = .ok (fm, s) ∧ fm.areas.find? isCoreboot = some ar ∧
      i.areaOff = ar.offset ∧ i.areaSize = ar.size ∧ ChainK (areaBytes img ar) 0 i.segs := by
  unfold newImageK at h
  split at h
  · cases h
  · rename_i fm s hread
    split at h
    · cases h
    · rename_i ar hfind
      simp only at h
      split at h
      · cases h
      · rename_i segs hwalk
        injection h with h
        subst h
        refine ⟨rfl, fm, s, ar, hread, hfind, rfl, rfl, ?_⟩
        exact walkK_chain (areaBytes img ar) _ 0 segs (by simpa using hwalk)

/-! ### `Update` on the image as read -/

theorem hdrBytes_storedK (area : Bytes) (s : Seg) (sa : SegAtK area s) :
    hdrBytes s.file = slice area s.file.recordStart 24 := by
  have h1 := sa.hdr
  have h2 := sa.attrLe
  have h3 := sa.inside
  unfold hdrBytes
  rw [sa.size, sa.type, sa.attrOff, sa.subOff, ← sa.magicAt,
    beN_fromBE' _ 4 (slice_length _ _ _ (by omega)), beN_fromBE' _ 4 (slice_length _ _ _ (by omega)),
    beN_fromBE' _ 4 (slice_length _ _ _ (by omega)), beN_fromBE' _ 4 (slice_length _ _ _ (by omega))]
  rw [show (24 : Nat) = 8 + (4 + (4 + (4 + 4))) from rfl, slice_add, slice_add, slice_add, slice_add]

/-- the repaired `Update` leaves EVERY record the repaired reader lists as it is -/
theorem updSeg_segAtK (img : Bytes) (ar : Fmap.Area) (s : Seg) (sa : SegAtK (areaBytes img ar) s) :
    updSeg ar.offset ar.size img s = .ok img := by
  have h1 := sa.hdr
  have h2 := sa.attrLe
  have h3 := sa.inside
  obtain ⟨l1, l2⟩ := areaBytes_len img ar
  have l3 : ar.offset + (areaBytes img ar).length ≤ img.length := by omega
  have hfd : s.file.fdata = slice img (ar.offset + (s.file.recordStart + s.file.subOff)) s.file.size := by
    rw [sa.data, areaBytes_slice _ _ _ _ (by omega)]
  have hfl : s.file.fdata.length = s.file.size := by
    rw [hfd]; exact slice_length _ _ _ (by omega)
  have hwl := writeSeg_len s sa.legacy
  apply updSeg_id img ar.offset ar.size s h1 h2 (by omega) (by omega) (by omega)
  · rw [hdrBytes_storedK _ s sa, areaBytes_slice _ _ _ _ (by omega)]
  · rw [sa.name, areaBytes_slice _ _ _ _ (by omega)]
    simp only [Nat.add_assoc]
  · intro ha
    rw [if_neg ha] at h2
    have hat := sa.attr
    rw [if_neg ha] at hat
    rw [hat, areaBytes_slice _ _ _ _ (by omega), List.take_of_length_le (by
      have := slice_len_le img (ar.offset + (s.file.recordStart + s.file.attrOff)) (s.file.subOff - s.file.attrOff)
      omega)]
    simp only [Nat.add_assoc]
  · have hp := writeSeg_prefix s sa.legacy
    rw [hfd, slice_take, Nat.min_eq_left (by omega)] at hp
    simp only [Nat.add_assoc]
    exact hp

/-- `NewImage` (repaired reader) then `Update`: no error, `Image.Data` byte-identical — every accepted image -/
theorem updateK_id (img : Bytes) (i : Image) (h : newImageK img = .ok i) : update i = (img, none) := by
  obtain ⟨hd, fm, st, ar, _, _, ho, hs, hch⟩ := newImageK_inv img i h
  unfold update
  rw [hd, ho, hs]
  apply updLoop_id
  intro s hs'
  obtain ⟨_, sa⟩ := chainK_lo _ _ _ hch s hs'
  exact updSeg_segAtK img ar s sa

end Fiano.Cbfs
