/-
  Reference grammar of a CBFS archive inside a flash image, written from the format
  (coreboot Documentation/cbfs.txt, cbfs_serialized.h), not from fiano:

    image   = pre ++ archive ++ post          (the COREBOOT area of the flash map is `archive`)
    archive = record*
    record  = "LARCHIVE" be32(len data) be32(type) be32(attrOffset) be32(dataOffset)
              name 0{namePad} attribute* data fill{gap}
    attribute = be32(tag) be32(8 + len body) body
    attrOffset = 0 when there is no attribute, else 24 + len name + namePad
    dataOffset = 24 + len name + namePad + Σ len attribute

  Empty space is a record of type 0xffffffff (or 0). `gap` is the alignment gap in front of the next
  record (real archives align records to 64 bytes; fiano probes every 16).
  `entries` is the abstract listing: what the property says the reader must report.
-/
import FianoModel.Cbfs.Model

namespace Fiano.Cbfs.Spec
open Fiano.Cbfs

structure Attr where
  tag  : Nat
  body : Bytes          -- what follows the 8-byte tag/size header
  deriving Repr, DecidableEq, Inhabited

structure Rec where
  name    : Bytes
  namePad : Nat         -- zero bytes after the name (cbfstool: up to the next multiple of 16)
  type    : Nat
  attrs   : List Attr
  data    : Bytes
  gap     : Nat         -- fill bytes between the end of the data and the next record
  deriving Repr, DecidableEq, Inhabited

def serAttr (a : Attr) : Bytes := beN 4 a.tag ++ (beN 4 (8 + a.body.length) ++ a.body)

def serAttrs : List Attr → Bytes
  | [] => []
  | a :: as => serAttr a ++ serAttrs as

def Rec.nameLen (r : Rec) : Nat := r.name.length + r.namePad
def Rec.attrOff (r : Rec) : Nat := if r.attrs = [] then 0 else 24 + r.nameLen
def Rec.subOff (r : Rec) : Nat := 24 + r.nameLen + (serAttrs r.attrs).length
/-- total length of the record including its gap -/
def Rec.len (r : Rec) : Nat := r.subOff + r.data.length + r.gap

def serHdr (r : Rec) : Bytes :=
  magic ++ (beN 4 r.data.length ++ (beN 4 r.type ++ (beN 4 r.attrOff ++ beN 4 r.subOff)))

def serRec (fill : UInt8) (r : Rec) : Bytes :=
  serHdr r ++ ((r.name ++ List.replicate r.namePad 0) ++ (serAttrs r.attrs ++ (r.data ++
    List.replicate r.gap fill)))

def serRecs (fill : UInt8) : List Rec → Bytes
  | [] => []
  | r :: rs => serRec fill r ++ serRecs fill rs

structure Archive where
  pre  : Bytes
  recs : List Rec
  fill : UInt8
  post : Bytes
  deriving Repr, DecidableEq, Inhabited

def ser (a : Archive) : Bytes := a.pre ++ (serRecs a.fill a.recs ++ a.post)

/-! ### the abstract listing -/

/-- the compression algorithm stored in the attributes: the `compression` field of the first
    attribute tagged `Compressed` (none = 0 when there is no such attribute) -/
def compOf (as : List Attr) : Nat :=
  match as.find? (fun a => a.tag = tagCompressed) with
  | none => compNone
  | some a => if a.body.length < 8 then compNone else fromBE (a.body.take 4)

def entryAt (off : Nat) (r : Rec) : Entry :=
  { name := r.name, type := r.type, offset := off, size := r.data.length, comp := compOf r.attrs }

/-- records in archive order with their offsets -/
def entries : Nat → List Rec → List Entry
  | _, [] => []
  | off, r :: rs => entryAt off r :: entries (off + r.len) rs

/-- what the reader holds for a record: stored name / attributes / data, except that an empty-space
    record is represented by 16 zero attribute bytes and 0xFF data of the stored size -/
def fileAt (off : Nat) (r : Rec) : File :=
  { size := r.data.length, type := r.type, attrOff := r.attrOff, subOff := r.subOff, recordStart := off
    name := r.name
    attr := if isEmptyType r.type then List.replicate 16 0 else serAttrs r.attrs
    fdata := if isEmptyType r.type then List.replicate r.data.length 0xFF else r.data }

def files : Nat → List Rec → List File
  | _, [] => []
  | off, r :: rs => fileAt off r :: files (off + r.len) rs

/-! ### well-formedness -/

def Attr.WF (a : Attr) : Prop :=
  a.tag ≠ 0 ∧ a.tag < 0xffffffff ∧ 8 + a.body.length < 0xffffffff

/-- a SELF payload: segment headers of 28 bytes, one of them (that still fits) of type ENTRY -/
def payloadWF (d : Bytes) : Prop :=
  ∃ k, 28 * (k + 1) ≤ d.length ∧ fromBE (slice d (28 * k) 4) = segEntry

/-- a legacy stage: 28-byte little-endian header whose size field is covered by a non-empty body -/
def stageWF (d : Bytes) : Prop :=
  28 < d.length ∧ fromLE (slice d 20 4) ≤ d.length - 28

structure Rec.WF (r : Rec) : Prop where
  nameNoNul : ∀ b ∈ r.name, b ≠ 0
  aligned   : r.len % 16 = 0                       -- the next record starts 16-aligned
  type32    : r.type < 2 ^ 32
  len32     : r.len < 2 ^ 32
  attrs     : ∀ a ∈ r.attrs, a.WF
  emptyBare : isEmptyType r.type = true → r.attrs = []
  payload   : r.type = typeSELF → payloadWF r.data
  stage     : r.type = typeLegacyStage → stageWF r.data

/-- "a coreboot image whose flash map has a COREBOOT area holding a well-formed CBFS":
    every record is well formed, the flash map of the serialized image can be read and its
    first area named COREBOOT is exactly the archive. -/
structure Archive.WF (a : Archive) : Prop where
  recs : ∀ r ∈ a.recs, r.WF
  fmap : ∃ fm s ar, Fmap.read (ser a) = .ok (fm, s) ∧ fm.areas.find? isCoreboot = some ar ∧
    ar.offset = a.pre.length ∧ ar.size = (serRecs a.fill a.recs).length


end Fiano.Cbfs.Spec
