/-
  Tie T1 "code as code" for pkg/cbfs: `ffbyte` (the erased body written by `Image.Remove`) as
  translated from the source on every run (Gen/CodeCbfs.lean) is `List.replicate n 0xFF`, the
  expression the model (`Cbfs.Model`, removal) uses — for every size, without panic.
-/
import FianoModel.Gen.CodeCbfs
import FianoModel.CodeTie.Lemmas

namespace Fiano.Cbfs.CodeTie
open Fiano Fiano.GoRt
open Fiano.Gen.CodeCbfs

theorem ffbyte_loop : ∀ (m : Nat) (b : List UInt8) (k : Nat), b.length - k = m → k ≤ b.length →
    fn_ffbyte.loop1 m (k : Int) b = some (b.take k ++ List.replicate m 0xFF) := by
  intro m
  induction m with
  | zero =>
    intro b k hm hk
    have e : k = b.length := by omega
    subst e
    simp [fn_ffbyte.loop1]
  | succ m ih =>
    intro b k hm hk
    have hlt : k < b.length := by omega
    have := ih (b.set k 0xFF) (k + 1) (by simp; omega) (by simp; omega)
    simp only [fn_ffbyte.loop1, set_ofNat b k 0xFF hlt, bind, Option.bind]
    have e : ((k : Int) + 1) = ((k + 1 : Nat) : Int) := by omega
    rw [e, this, take_succ_set b k 0xFF hlt]
    simp [List.replicate_succ]

/-- `ffbyte(s)` as translated from the source: `s` bytes 0xFF -/
theorem ffbyte_tie (s : UInt32) : fn_ffbyte s = some (List.replicate s.toNat 0xFF) := by
  unfold fn_ffbyte
  have := ffbyte_loop s.toNat (List.replicate s.toNat 0) 0 (by simp) (by simp)
  simp at this
  simp [this]

end Fiano.Cbfs.CodeTie
