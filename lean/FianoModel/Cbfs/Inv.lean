/-
  Inversion of the reader on ARBITRARY input (no well-formedness assumed): whatever `walk` lists
  is a chain of records that lie inside the area, in increasing order without overlap, whose fields
  are the bytes stored at the reported offsets; and the walk never runs out of fuel (it always
  moves forward), i.e. it terminates on every input.
-/
import FianoModel.Cbfs.Lemmas

namespace Fiano.Cbfs

/-- what is true of every listed record, in terms of the area bytes -/
structure SegAt (area : Bytes) (s : Seg) : Prop where
  hdr     : 24 ≤ (if s.file.attrOff = 0 then s.file.subOff else s.file.attrOff)
  attrLe  : (if s.file.attrOff = 0 then s.file.subOff else s.file.attrOff) ≤ s.file.subOff
  inside  : s.file.recordStart + s.file.subOff + s.file.size ≤ area.length
  magicAt : slice area s.file.recordStart 8 = magic
  size    : s.file.size = fromBE (slice area (s.file.recordStart + 8) 4)
  type    : s.file.type = fromBE (slice area (s.file.recordStart + 12) 4)
  attrOff : s.file.attrOff = fromBE (slice area (s.file.recordStart + 16) 4)
  subOff  : s.file.subOff = fromBE (slice area (s.file.recordStart + 20) 4)
  name    : s.file.name = (slice area (s.file.recordStart + 24)
              ((if s.file.attrOff = 0 then s.file.subOff else s.file.attrOff) - 24)).takeWhile (· ≠ 0)
  data    : isEmptyType s.file.type = false →
              s.file.fdata = slice area (s.file.recordStart + s.file.subOff) s.file.size
  attr    : isEmptyType s.file.type = false →
              s.file.attr = if s.file.attrOff = 0 then []
                else slice area (s.file.recordStart + s.file.attrOff) (s.file.subOff - s.file.attrOff)
  empty   : isEmptyType s.file.type = true →
              s.file.fdata = List.replicate s.file.size 0xFF ∧ s.file.attr = List.replicate 16 0
  legacy  : s.file.type = typeLegacyStage →
              28 < s.file.fdata.length ∧ fromLE (slice s.file.fdata 20 4) ≤ s.file.fdata.length - 28

/-- records in increasing order, each starting at or after the end of the previous one -/
def Chain (area : Bytes) : Nat → List Seg → Prop
  | _, [] => True
  | lo, s :: rest => lo ≤ s.file.recordStart ∧ SegAt area s ∧
      Chain area (s.file.recordStart + s.file.subOff + s.file.size) rest

theorem newFile_inv (rest : Bytes) (off : Nat) (f : File) (h : newFile rest off = .ok f) :
    24 ≤ rest.length ∧ rest.take 8 = magic ∧
    f.size = fromBE (slice rest 8 4) ∧ f.type = fromBE (slice rest 12 4) ∧
    f.attrOff = fromBE (slice rest 16 4) ∧ f.subOff = fromBE (slice rest 20 4) ∧
    f.recordStart = off ∧
    24 ≤ (if f.attrOff = 0 then f.subOff else f.attrOff) ∧
    (if f.attrOff = 0 then f.subOff else f.attrOff) ≤ f.subOff ∧
    f.subOff + f.size ≤ rest.length ∧
    f.name = (slice rest 24 ((if f.attrOff = 0 then f.subOff else f.attrOff) - 24)).takeWhile (· ≠ 0) ∧
    f.attr = (if f.attrOff = 0 then [] else slice rest f.attrOff (f.subOff - f.attrOff)) ∧
    f.fdata = slice rest f.subOff f.size := by
  rw [newFile_eq] at h
  by_cases c0 : rest.length = 0
  · rw [if_pos c0] at h; cases h
  rw [if_neg c0] at h
  by_cases c1 : rest.length < 24
  · rw [if_pos c1] at h; cases h
  rw [if_neg c1] at h
  by_cases c2 : rest.take 8 ≠ magic
  · rw [if_pos c2] at h; cases h
  rw [if_neg c2] at h
  by_cases c3 : (if fromBE (slice rest 16 4) = 0 then fromBE (slice rest 20 4) else fromBE (slice rest 16 4)) < 24 ∨
          fromBE (slice rest 20 4) <
            (if fromBE (slice rest 16 4) = 0 then fromBE (slice rest 20 4) else fromBE (slice rest 16 4)) ∨
          rest.length < fromBE (slice rest 20 4) + fromBE (slice rest 8 4)
  · rw [if_pos c3] at h; cases h
  rw [if_neg c3] at h
  injection h with h
  subst h
  refine ⟨by omega, by simpa using c2, rfl, rfl, rfl, rfl, rfl, ?_, ?_, ?_, rfl, rfl, rfl⟩ <;>
    (dsimp only; omega)

theorem readLegacyStage_eq (f : File) : readLegacyStage f =
    if f.fdata.length < 28 then .error .sub
    else if f.fdata.length - 28 < fromLE (slice f.fdata 20 4) then .error .sub
    else if f.fdata.length - 28 = 0 then .error .sub
    else .ok { file := f, extra := [fromLE (slice f.fdata 20 4)] } := rfl

theorem readLegacyStage_file (f : File) (s : Seg) (h : readLegacyStage f = .ok s) : s.file = f := by
  rw [readLegacyStage_eq] at h
  by_cases c0 : f.fdata.length < 28
  · rw [if_pos c0] at h; cases h
  rw [if_neg c0] at h
  by_cases c1 : f.fdata.length - 28 < fromLE (slice f.fdata 20 4)
  · rw [if_pos c1] at h; cases h
  rw [if_neg c1] at h
  by_cases c2 : f.fdata.length - 28 = 0
  · rw [if_pos c2] at h; cases h
  rw [if_neg c2] at h
  injection h with h; subst h; rfl

theorem readPayload_file (f : File) (s : Seg) (h : readPayload f = .ok s) : s.file = f := by
  unfold readPayload at h
  split at h
  · cases h
  · injection h with h; subst h; rfl

theorem readLegacyStage_ne_fuel (f : File) : readLegacyStage f ≠ .error .fuel := by
  rw [readLegacyStage_eq]
  intro h
  by_cases c0 : f.fdata.length < 28
  · rw [if_pos c0] at h; cases h
  rw [if_neg c0] at h
  by_cases c1 : f.fdata.length - 28 < fromLE (slice f.fdata 20 4)
  · rw [if_pos c1] at h; cases h
  rw [if_neg c1] at h
  by_cases c2 : f.fdata.length - 28 = 0
  · rw [if_pos c2] at h; cases h
  rw [if_neg c2] at h
  cases h

theorem readPayload_ne_fuel (f : File) : readPayload f ≠ .error .fuel := by
  unfold readPayload
  intro h
  split at h <;> cases h

theorem mkSeg_eq (f : File) : mkSeg f =
    if isEmptyType f.type = true then .ok (readEmpty f)
    else if f.type = typeLegacyStage then readLegacyStage f
    else if f.type = typeSELF then readPayload f
    else .ok { file := f } := rfl

theorem mkSeg_ne_fuel (f : File) : mkSeg f ≠ .error .fuel := by
  rw [mkSeg_eq]
  intro h
  by_cases c0 : isEmptyType f.type = true
  · rw [if_pos c0] at h; cases h
  rw [if_neg c0] at h
  by_cases c1 : f.type = typeLegacyStage
  · rw [if_pos c1] at h; exact readLegacyStage_ne_fuel f h
  rw [if_neg c1] at h
  by_cases c2 : f.type = typeSELF
  · rw [if_pos c2] at h; exact readPayload_ne_fuel f h
  rw [if_neg c2] at h
  cases h

theorem newFile_ne_fuel (rest : Bytes) (off : Nat) : newFile rest off ≠ .error .fuel := by
  rw [newFile_eq]
  intro h
  by_cases c0 : rest.length = 0
  · rw [if_pos c0] at h; cases h
  rw [if_neg c0] at h
  by_cases c1 : rest.length < 24
  · rw [if_pos c1] at h; cases h
  rw [if_neg c1] at h
  by_cases c2 : rest.take 8 ≠ magic
  · rw [if_pos c2] at h; cases h
  rw [if_neg c2] at h
  by_cases c3 : (if fromBE (slice rest 16 4) = 0 then fromBE (slice rest 20 4) else fromBE (slice rest 16 4)) < 24 ∨
          fromBE (slice rest 20 4) <
            (if fromBE (slice rest 16 4) = 0 then fromBE (slice rest 20 4) else fromBE (slice rest 16 4)) ∨
          rest.length < fromBE (slice rest 20 4) + fromBE (slice rest 8 4)
  · rw [if_pos c3] at h; cases h
  rw [if_neg c3] at h
  cases h

theorem mkSeg_inv (f : File) (s : Seg) (h : mkSeg f = .ok s) :
    s.file.size = f.size ∧ s.file.type = f.type ∧ s.file.attrOff = f.attrOff ∧ s.file.subOff = f.subOff ∧
    s.file.recordStart = f.recordStart ∧ s.file.name = f.name ∧
    (isEmptyType f.type = false → s.file.fdata = f.fdata ∧ s.file.attr = f.attr) ∧
    (isEmptyType f.type = true → s.file.fdata = List.replicate f.size 0xFF ∧ s.file.attr = List.replicate 16 0) := by
  rw [mkSeg_eq] at h
  by_cases he : isEmptyType f.type = true
  · rw [if_pos he] at h
    injection h with h; subst h
    simp [readEmpty, he]
  · rw [if_neg he] at h
    have he' : isEmptyType f.type = false := by simpa using he
    have key : s.file = f := by
      by_cases c1 : f.type = typeLegacyStage
      · rw [if_pos c1] at h; exact readLegacyStage_file f s h
      rw [if_neg c1] at h
      by_cases c2 : f.type = typeSELF
      · rw [if_pos c2] at h; exact readPayload_file f s h
      rw [if_neg c2] at h
      injection h with h; subst h; rfl
    rw [key]
    simp [he']

/-- a listed legacy stage has a complete header and an inner size covered by a non-empty body -/
theorem mkSeg_legacy (f : File) (s : Seg) (h : mkSeg f = .ok s) (ht : f.type = typeLegacyStage) :
    s.file = f ∧ 28 < f.fdata.length ∧ fromLE (slice f.fdata 20 4) ≤ f.fdata.length - 28 := by
  rw [mkSeg_eq] at h
  have he : ¬ isEmptyType f.type = true := by rw [ht]; decide
  rw [if_neg he, if_pos ht] at h
  refine ⟨readLegacyStage_file f s h, ?_⟩
  rw [readLegacyStage_eq] at h
  by_cases c0 : f.fdata.length < 28
  · rw [if_pos c0] at h; cases h
  rw [if_neg c0] at h
  by_cases c1 : f.fdata.length - 28 < fromLE (slice f.fdata 20 4)
  · rw [if_pos c1] at h; cases h
  rw [if_neg c1] at h
  by_cases c2 : f.fdata.length - 28 = 0
  · rw [if_pos c2] at h; cases h
  omega

theorem align16_ge (n : Nat) : n ≤ align16 n := by unfold align16; omega

theorem segAt_of (area : Bytes) (off : Nat) (f : File) (s : Seg)
    (hn : newFile (area.drop off) off = .ok f) (hs : mkSeg f = .ok s) :
    SegAt area s ∧ s.file.recordStart = off ∧ s.file.subOff = f.subOff ∧ s.file.size = f.size ∧
      24 ≤ f.subOff := by
  obtain ⟨n0, n1, n2, n3, n4, n5, n6, n7, n8, n9, n10, n11, n12⟩ := newFile_inv _ _ _ hn
  obtain ⟨m1, m2, m3, m4, m5, m6, m7, m8⟩ := mkSeg_inv _ _ hs
  have hlen : (area.drop off).length = area.length - off := by simp
  refine ⟨?_, by rw [m5, n6], m4, m1, by omega⟩
  have e : s.file.recordStart = off := by rw [m5, n6]
  constructor
  · rw [m3, m4]; exact n7
  · rw [m3, m4]; exact n8
  · rw [e, m4, m1]; omega
  · rw [e]; unfold slice; simpa using n1
  · rw [m1, n2, slice_drop, e]
  · rw [m2, n3, slice_drop, e]
  · rw [m3, n4, slice_drop, e]
  · rw [m4, n5, slice_drop, e]
  · rw [m6, n10, slice_drop, m3, m4, e]
  · intro he
    rw [m2] at he
    rw [(m7 he).1, n12, slice_drop, m4, m1, e]
  · intro he
    rw [m2] at he
    rw [(m7 he).2, n11, m3, m4, e]
    split
    · rfl
    · rw [slice_drop]
  · intro he
    rw [m2] at he
    rw [m1]; exact m8 he
  · intro ht
    rw [m2] at ht
    obtain ⟨k1, k2, k3⟩ := mkSeg_legacy f s hs ht
    rw [k1]; exact ⟨k2, k3⟩

/-- everything the walk lists is a chain of stored records -/
theorem walk_chain (area : Bytes) : ∀ (fuel off : Nat) (segs : List Seg),
    walk fuel (area.drop off) off = .ok segs → Chain area off segs := by
  intro fuel
  induction fuel with
  | zero => intro off segs h; rw [walk_zero] at h; cases h
  | succ fuel ih =>
    intro off segs h
    rw [walk_succ] at h
    split at h
    · injection h with h; subst h; trivial
    · split at h
      · -- no magic: probe 16 bytes further
        rw [List.drop_drop] at h
        have := ih (off + 16) segs h
        revert this
        cases segs with
        | nil => intro _; trivial
        | cons s rest =>
          intro ⟨c1, c2, c3⟩
          exact ⟨by omega, c2, c3⟩
      · cases h
      · rename_i f hn
        split at h
        · cases h
        · rename_i s hs
          split at h
          · cases h
          · rename_i segs' hw
            injection h with h; subst h
            obtain ⟨sa, e1, e2, e3, e4⟩ := segAt_of area off f s hn hs
            have hge := align16_ge (off + f.subOff + f.size)
            rw [List.drop_drop, show off + (align16 (off + f.subOff + f.size) - off) =
              align16 (off + f.subOff + f.size) by omega] at hw
            have hc := ih _ _ hw
            refine ⟨by omega, sa, ?_⟩
            rw [e1, e2, e3]
            revert hc
            cases segs' with
            | nil => intro _; trivial
            | cons s' rest' =>
              intro ⟨c1, c2, c3⟩
              exact ⟨by omega, c2, c3⟩

/-- the walk always moves forward: fuel proportional to the input is never exhausted -/
theorem walk_fuel_ok : ∀ (fuel : Nat) (rest : Bytes) (off : Nat), rest.length < 16 * fuel →
    walk fuel rest off ≠ .error .fuel := by
  intro fuel
  induction fuel with
  | zero => intro rest off h; omega
  | succ fuel ih =>
    intro rest off hf h
    rw [walk_succ] at h
    split at h
    · cases h
    · rename_i hlen
      split at h
      · exact ih _ _ (by simp only [List.length_drop]; omega) h
      · rename_i e hne hnf
        injection h with h
        subst h
        exact newFile_ne_fuel _ _ hnf
      · rename_i f hn
        split at h
        · rename_i e hs
          injection h with h
          subst h
          exact mkSeg_ne_fuel _ hs
        · split at h
          · rename_i e hw
            injection h with h
            subst h
            obtain ⟨n0, _, _, _, _, _, _, n7, n8, _⟩ := newFile_inv _ _ _ hn
            have hge := align16_ge (off + f.subOff + f.size)
            exact ih _ _ (by simp only [List.length_drop]; omega) hw
          · cases h

end Fiano.Cbfs
