/-
  `Image.Update` BEFORE the repair fixes/C19-update-in-place.diff (fiano a65983d; model
  `updateHead` in Cbfs/Write.lean, tied by T2 whenever the tree under test still has that code): the
  formal record of the finding C19-update-not-identity.

  What does hold on that code:
   * the length of `Image.Data` never changes (`updateHead_length`, Cbfs/UpdateLemmas.lean);
   * the 24 header bytes of a record are re-emitted as read, what `Write` emits is a prefix of the data
     read (`hdrBytes_stored`, `writeSeg_prefix`) — but everything behind the header is copied to
     `RecordStart + 24`, not to its own offset; so
   * a record is left as it is exactly when nothing lies between header and attributes/data, i.e. its name
     FIELD is empty (and it is not the master header, whose `Write` emits 32 zero bytes); an empty-space
     record exactly when it has the shape `NewEmptyRecord` assumes (16-byte all-zero name field, no
     attributes, content 0xFF): `updateHead_id_of_stable`.
  No archive written by cbfstool has an empty name field, and current cbfstool writes empty space with a
  4-byte name field. One `decide`d witness per way the bytes change follows; on each of them the
  repaired `update` is the identity.
-/
import FianoModel.Cbfs.UpdateLemmas

namespace Fiano.Cbfs

/-! ### what does hold -/

/-- the records the unrepaired `Update` leaves alone -/
def HeadStable (img : Bytes) (i : Image) (s : Seg) : Prop :=
  if isEmptyType s.file.type = true then
    s.file.attrOff = 0 ∧ s.file.subOff = 40 ∧
    slice img (i.areaOff + (s.file.recordStart + 24)) 16 = List.replicate 16 0 ∧
    slice img (i.areaOff + (s.file.recordStart + 40)) s.file.size = List.replicate s.file.size 0xFF
  else nameEndOf s.file = 24 ∧ s.file.type ≠ typeMaster

instance (img : Bytes) (i : Image) (s : Seg) : Decidable (HeadStable img i s) := by
  unfold HeadStable; infer_instance

theorem copyAt_self (b : Bytes) (pos : Nat) (x : Bytes) (hx : x = slice b pos x.length)
    (h : pos + x.length ≤ b.length) : copyAt b pos x = b := by
  unfold copyAt
  rw [List.take_of_length_le (by omega)]
  exact splice_self b pos x hx h

theorem recBytesHead_stored (img : Bytes) (ar : Fmap.Area) (s : Seg) (sa : SegAt (areaBytes img ar) s)
    (hst : if isEmptyType s.file.type = true then
        s.file.attrOff = 0 ∧ s.file.subOff = 40 ∧
        slice img (ar.offset + (s.file.recordStart + 24)) 16 = List.replicate 16 0 ∧
        slice img (ar.offset + (s.file.recordStart + 40)) s.file.size = List.replicate s.file.size 0xFF
      else nameEndOf s.file = 24 ∧ s.file.type ≠ typeMaster) :
    recBytesHead s = slice img (ar.offset + s.file.recordStart) (recBytesHead s).length ∧
      (recBytesHead s).length ≤ s.file.subOff + s.file.size := by
  have h1 := sa.hdr
  have h2 := sa.attrLe
  have h3 := sa.inside
  obtain ⟨l1, l2⟩ := areaBytes_len img ar
  have hh : hdrBytes s.file = slice img (ar.offset + s.file.recordStart) 24 := by
    rw [hdrBytes_stored _ s sa, areaBytes_slice _ _ _ _ (by omega)]
  have hhl : (hdrBytes s.file).length = 24 := by simp [hdrBytes, magic]
  unfold recBytesHead
  by_cases he : isEmptyType s.file.type = true
  · rw [if_pos he] at hst
    obtain ⟨e1, e2, e3, e4⟩ := hst
    have hm : s.file.type ≠ typeMaster := by
      intro hm; rw [hm] at he; exact absurd he (by decide)
    have hw : writeSegHead s = List.replicate s.file.size 0xFF := by
      unfold writeSegHead writeSeg
      rw [if_neg hm, if_pos he, (sa.empty he).1]
    rw [hw, (sa.empty he).2, ← e3, ← e4, hh]
    have t1 : (slice img (ar.offset + s.file.recordStart) 24 ++
        (slice img (ar.offset + (s.file.recordStart + 24)) 16 ++
          slice img (ar.offset + (s.file.recordStart + 40)) s.file.size)) =
        slice img (ar.offset + s.file.recordStart) (24 + (16 + s.file.size)) := by
      rw [slice_add, slice_add]
      simp only [Nat.add_assoc]
    rw [t1, slice_length _ _ _ (by omega)]
    exact ⟨rfl, by omega⟩
  · rw [if_neg he] at hst
    obtain ⟨e1, e2⟩ := hst
    have he' : isEmptyType s.file.type = false := by simpa using he
    have hw : writeSegHead s = writeSeg s := by unfold writeSegHead; rw [if_neg e2]
    have hfd : s.file.fdata = slice img (ar.offset + (s.file.recordStart + s.file.subOff)) s.file.size := by
      rw [sa.data he', areaBytes_slice _ _ _ _ (by omega)]
    have hfl : s.file.fdata.length = s.file.size := by rw [hfd]; exact slice_length _ _ _ (by omega)
    have hwl := writeSeg_len s sa.legacy
    have hp := writeSeg_prefix s sa.legacy
    rw [hfd, slice_take, Nat.min_eq_left (by omega)] at hp
    rw [nameEndOf_eq] at e1
    rw [hw]
    by_cases ha : s.file.attrOff = 0
    · rw [if_pos ha] at e1
      have hat := sa.attr he'
      rw [if_pos ha] at hat
      rw [hat, List.nil_append, hh, hp, e1]
      have t1 : slice img (ar.offset + s.file.recordStart) 24 ++
          slice img (ar.offset + (s.file.recordStart + 24)) (writeSeg s).length =
          slice img (ar.offset + s.file.recordStart) (24 + (writeSeg s).length) := by
        rw [slice_add]; simp only [Nat.add_assoc]
      rw [t1, slice_length _ _ _ (by omega)]
      exact ⟨rfl, by omega⟩
    · rw [if_neg ha] at e1
      have hat := sa.attr he'
      rw [if_neg ha] at hat
      rw [hat, areaBytes_slice _ _ _ _ (by omega), hh, hp, e1]
      have t1 : slice img (ar.offset + s.file.recordStart) 24 ++
          (slice img (ar.offset + (s.file.recordStart + 24)) (s.file.subOff - 24) ++
          slice img (ar.offset + (s.file.recordStart + s.file.subOff)) (writeSeg s).length) =
          slice img (ar.offset + s.file.recordStart) (24 + ((s.file.subOff - 24) + (writeSeg s).length)) := by
        rw [slice_add, slice_add]
        simp only [Nat.add_assoc]
        rw [show 24 + (s.file.subOff - 24) = s.file.subOff by omega]
      rw [t1, slice_length _ _ _ (by omega)]
      exact ⟨rfl, by omega⟩

/-- **what does hold before the repair**: on an accepted image (smaller than 4 GiB: the unrepaired
    code adds offsets in `uint32`) all of whose records are `HeadStable`, `Update` is the identity. -/
theorem updateHead_id_of_stable (img : Bytes) (i : Image) (h : newImage img = .ok i) (h32 : img.length < 2 ^ 32)
    (hst : ∀ s ∈ i.segs, HeadStable img i s) : updateHead i = (img, none) := by
  obtain ⟨hd, fm, st, ar, _, _, ho, hs, hch⟩ := newImage_inv img i h
  unfold updateHead
  rw [hd, ho, hs]
  apply updLoop_id
  intro s hs'
  obtain ⟨_, sa⟩ := chain_lo _ _ _ hch s hs'
  have hst' := hst s hs'
  unfold HeadStable at hst'
  rw [ho] at hst'
  obtain ⟨e1, e2⟩ := recBytesHead_stored img ar s sa hst'
  have h1 := sa.hdr
  have h2 := sa.attrLe
  have h3 := sa.inside
  obtain ⟨l1, l2⟩ := areaBytes_len img ar
  unfold updSegHead
  simp only
  have hmod : ((recBytesHead s).length + s.file.recordStart) % 2 ^ 32 ≤ (recBytesHead s).length + s.file.recordStart :=
    Nat.mod_le _ _
  rw [if_neg (by omega), Nat.mod_eq_of_lt (by omega), if_neg (by omega)]
  rw [copyAt_self img _ _ e1 (by omega)]

/-! ### witnesses: each way the unrepaired `Update` changes an unmodified archive -/

def wName (s : Bytes) : Bytes := s ++ List.replicate (32 - s.length) 0

/-- a flash map (98 bytes) whose single area COREBOOT covers the `n` bytes that follow it -/
def wMap (n : Nat) : Fmap.FMap :=
  { hdr := { sig := Fmap.signature, verMajor := 1, verMinor := 1, base := 0xff000000, size := 98 + n,
             name := wName [0x46, 0x4c], nAreas := 1 }
    areas := [{ offset := 98, size := n, name := wName corebootName, flags := 0 }] }

def wImg (area : Bytes) : Bytes := Fmap.encode (wMap area.length) ++ area

/-- a record: header, name, `pad` zero bytes, attribute bytes, data -/
def wRec (name : Bytes) (pad type : Nat) (attr data : Bytes) : Bytes :=
  magic ++ beN 4 data.length ++ beN 4 type ++ beN 4 (if attr = [] then 0 else 24 + name.length + pad) ++
    beN 4 (24 + name.length + pad + attr.length) ++ name ++ List.replicate pad 0 ++ attr ++ data

def d16 : Bytes := [0x30, 0x31, 0x32, 0x33, 0x34, 0x35, 0x36, 0x37, 0x38, 0x39, 0x61, 0x62, 0x63, 0x64, 0x65, 0x66]
def ff (n : Nat) : Bytes := List.replicate n 0xFF

def afterHead (img : Bytes) : Option (Bytes × Option UErr) :=
  match newImage img with
  | .ok i => some (updateHead i)
  | .error _ => none

def afterFix (img : Bytes) : Option (Bytes × Option UErr) :=
  match newImage img with
  | .ok i => some (update i)
  | .error _ => none

/-- W1 — the name field is not re-emitted: a raw file `a` (16-byte name field) with 16 data bytes;
    afterwards the name field holds the data -/
def w1 : Bytes := wImg (wRec [0x61] 15 0x50 [] d16 ++ ff 8)

/-- W2 — the master header is replaced by 32 zero bytes (empty name field, to isolate the effect) -/
def w2 : Bytes := wImg (wRec [] 0 typeMaster [] ([0x4f, 0x52, 0x42, 0x43] ++ d16 ++ d16.take 12) ++ ff 8)

/-- W3 — a type-0x11 stage with a stage-header attribute: its `Write` emits nothing, the attribute
    block moves up over the name field -/
def w3 : Bytes := wImg (wRec [0x73] 15 typeStage (beN 4 0x53746748 ++ beN 4 24 ++ d16) d16 ++ ff 8)

/-- W4 — empty space as current cbfstool writes it (4-byte name field) in front of a file: the 16 zero
    bytes go over the name field and the first 12 content bytes -/
def w4 : Bytes := wImg (wRec [] 4 typeDeleted2 [] (ff 20) ++ wRec [] 0 0x50 [] d16 ++ ff 8)

/-- W5 — empty space with an empty name field that ends the area: `region … outside of CBFS` -/
def w5 : Bytes := wImg (wRec [] 0 typeDeleted2 [] (ff 24))

/-- W6 — stale content in empty space (16-byte zero name field) is rewritten to 0xFF; this one the
    repair does not change (the residue of the known finding) -/
def w6 : Bytes := wImg (wRec [] 16 typeDeleted [] d16 ++ ff 8)

set_option maxRecDepth 1000000

theorem update_head_witness_name_field :
    (afterHead w1).map (fun r => (r.2, slice r.1 (98 + 24) 16)) = some (none, d16) ∧
    slice w1 (98 + 24) 16 = [0x61] ++ List.replicate 15 0 ∧ afterFix w1 = some (w1, none) := by decide

theorem update_head_witness_master :
    (afterHead w2).map (fun r => (r.2, slice r.1 (98 + 24) 32)) = some (none, List.replicate 32 0) ∧
    slice w2 (98 + 24) 4 = [0x4f, 0x52, 0x42, 0x43] ∧ afterFix w2 = some (w2, none) := by decide

theorem update_head_witness_stage_attr :
    (afterHead w3).map (fun r => (r.2, slice r.1 (98 + 24) 8)) = some (none, beN 4 0x53746748 ++ beN 4 24) ∧
    slice w3 (98 + 24) 8 = [0x73, 0, 0, 0, 0, 0, 0, 0] ∧ afterFix w3 = some (w3, none) := by decide

theorem update_head_witness_empty_namefield4 :
    (afterHead w4).map (fun r => (r.2, slice r.1 (98 + 24) 20)) = some (none, List.replicate 16 0 ++ ff 4) ∧
    slice w4 (98 + 24) 20 = List.replicate 4 0 ++ ff 16 ∧ afterFix w4 = some (w4, none) := by decide

theorem update_head_witness_region_error :
    (afterHead w5).map (·.2) = some (some .region) ∧ afterFix w5 = some (w5, none) := by decide

/-- the hypothesis `EmptyClean` of `update_id_of_clean` cannot be dropped: on W6 neither variant is the
    identity (both write 0xFF over the stale content, nothing else changes) -/
theorem update_stale_empty_witness :
    (afterHead w6).map (fun r => (r.2, slice r.1 (98 + 40) 16)) = some (none, ff 16) ∧
    (afterFix w6).map (fun r => (r.2, slice r.1 (98 + 40) 16, r.1.take (98 + 40), r.1.drop (98 + 56))) =
      some (none, ff 16, w6.take (98 + 40), w6.drop (98 + 56)) ∧
    slice w6 (98 + 40) 16 = d16 := by decide

/-- `updateHead_id_of_stable` is not vacuous: a raw file with an empty name field followed by empty
    space of the shape `NewEmptyRecord` assumes -/
def w0 : Bytes := wImg (wRec [] 0 0x50 [] d16 ++ ff 8 ++ wRec [] 16 typeDeleted2 [] (ff 8))

theorem update_head_stable_example :
    (match newImage w0 with
     | .ok i => decide (w0.length < 2 ^ 32 ∧ i.segs.length = 2 ∧ (∀ s ∈ i.segs, HeadStable w0 i s) ∧
         updateHead i = (w0, none))
     | .error _ => false) = true := by decide

end Fiano.Cbfs
