/-
  Follow-up wp-c19c (task 4): the modelled UTF-8 scanner of Cbfs/Present.lean (`runeLen`, `runeCount`,
  `coerceUTF8`: Go's utf8.RuneCountInString and what encoding/json makes of a string) against a
  specification of UTF-8 written from RFC 3629: `encodeRune` of a Unicode scalar value.
-/
import FianoModel.Cbfs.Utf8Ascii

namespace Fiano.Cbfs

/-- Unicode scalar values: code points without the surrogates -/
def Scalar (cp : Nat) : Prop := cp < 0x110000 ∧ ¬ (0xD800 ≤ cp ∧ cp ≤ 0xDFFF)

/-- UTF-8 (RFC 3629 §3) -/
def encodeRune (cp : Nat) : Bytes :=
  if cp < 0x80 then [UInt8.ofNat cp]
  else if cp < 0x800 then [UInt8.ofNat (0xC0 + cp / 64), UInt8.ofNat (0x80 + cp % 64)]
  else if cp < 0x10000 then
    [UInt8.ofNat (0xE0 + cp / 4096), UInt8.ofNat (0x80 + cp / 64 % 64), UInt8.ofNat (0x80 + cp % 64)]
  else [UInt8.ofNat (0xF0 + cp / 262144), UInt8.ofNat (0x80 + cp / 4096 % 64), UInt8.ofNat (0x80 + cp / 64 % 64),
        UInt8.ofNat (0x80 + cp % 64)]

theorem toNat_ofNat_lt (n : Nat) (h : n < 256) : (UInt8.ofNat n).toNat = n := by
  simp only [UInt8.toNat_ofNat']
  omega

theorem isCont_ofNat (x : Nat) (h : x < 64) : isCont (UInt8.ofNat (0x80 + x)) = true := by
  simp only [isCont, toNat_ofNat_lt (0x80 + x) (by omega), Bool.and_eq_true, decide_eq_true_eq]
  omega

/-- the scanner takes the encoding of a scalar value as ONE rune of exactly its length -/
theorem runeLen_encodeRune (cp : Nat) (h : Scalar cp) (t : Bytes) :
    runeLen (encodeRune cp ++ t) = (encodeRune cp).length := by
  obtain ⟨h1, h2⟩ := h
  unfold encodeRune
  by_cases c1 : cp < 0x80
  · rw [if_pos c1]
    exact runeLen_ascii _ _ (by rw [toNat_ofNat_lt cp (by omega)]; exact c1)
  rw [if_neg c1]
  by_cases c2 : cp < 0x800
  · rw [if_pos c2]
    simp only [List.cons_append, List.nil_append, List.length_cons, List.length_nil]
    unfold runeLen
    simp only [toNat_ofNat_lt (0xC0 + cp / 64) (by omega)]
    rw [if_neg (by omega), if_pos (by omega), isCont_ofNat (cp % 64) (by omega)]
    rfl
  rw [if_neg c2]
  by_cases c3 : cp < 0x10000
  · rw [if_pos c3]
    simp only [List.cons_append, List.nil_append, List.length_cons, List.length_nil]
    unfold runeLen
    simp only [toNat_ofNat_lt (0xE0 + cp / 4096) (by omega), toNat_ofNat_lt (0x80 + cp / 64 % 64) (by omega)]
    rw [if_neg (by omega), if_neg (by omega), if_pos (by omega), isCont_ofNat (cp % 64) (by omega)]
    rw [if_pos (by refine ⟨?_, ?_, rfl⟩ <;> split <;> omega)]
  rw [if_neg c3]
  simp only [List.cons_append, List.nil_append, List.length_cons, List.length_nil]
  unfold runeLen
  simp only [toNat_ofNat_lt (0xF0 + cp / 262144) (by omega), toNat_ofNat_lt (0x80 + cp / 4096 % 64) (by omega)]
  rw [if_neg (by omega), if_neg (by omega), if_neg (by omega), if_pos (by omega),
    isCont_ofNat (cp / 64 % 64) (by omega), isCont_ofNat (cp % 64) (by omega)]
  rw [if_pos (by refine ⟨?_, ?_, rfl, rfl⟩ <;> split <;> omega)]

theorem encodeRune_ne_nil (cp : Nat) : encodeRune cp ≠ [] := by
  unfold encodeRune
  split
  · simp
  · split
    · simp
    · split <;> simp

/-- a one-byte encoding is an ASCII byte (so the JSON coercion never replaces an encoded scalar) -/
theorem encodeRune_single (cp : Nat) (c : UInt8) (t : Bytes) (he : encodeRune cp = c :: t) (h : t = []) :
    c.toNat < 0x80 := by
  unfold encodeRune at he
  by_cases c1 : cp < 0x80
  · rw [if_pos c1] at he
    injection he with e1 e2
    rw [← e1, toNat_ofNat_lt cp (by omega)]; exact c1
  · rw [if_neg c1] at he
    subst h
    split at he
    · injection he with _ e2; cases e2
    · split at he <;> (injection he with _ e2; cases e2)

/-- the UTF-8 encoding of a string of scalar values -/
def encodeAll : List Nat → Bytes
  | [] => []
  | cp :: cps => encodeRune cp ++ encodeAll cps

theorem runeCountF_encodeAll : ∀ (cps : List Nat) (fuel : Nat), (∀ cp ∈ cps, Scalar cp) →
    (encodeAll cps).length ≤ fuel → runeCountF fuel (encodeAll cps) = cps.length := by
  intro cps
  induction cps with
  | nil => intro fuel _ _; cases fuel <;> rfl
  | cons cp cps ih =>
    intro fuel h hl
    have hr := runeLen_encodeRune cp (h cp (by simp)) (encodeAll cps)
    simp only [encodeAll] at hl ⊢
    cases hE : encodeRune cp with
    | nil => exact absurd hE (encodeRune_ne_nil cp)
    | cons c e =>
      rw [hE] at hr hl
      cases fuel with
      | zero => simp at hl
      | succ f =>
        simp only [List.cons_append] at hr hl ⊢
        simp only [runeCountF, hr]
        rw [show (c :: (e ++ encodeAll cps)) = (c :: e) ++ encodeAll cps from rfl, List.drop_left,
          ih f (fun x hx => h x (by simp [hx])) (by simp at hl; omega)]
        simp only [List.length_cons]; omega

theorem coerceF_encodeAll : ∀ (cps : List Nat) (fuel : Nat), (∀ cp ∈ cps, Scalar cp) →
    (encodeAll cps).length ≤ fuel → coerceF fuel (encodeAll cps) = encodeAll cps := by
  intro cps
  induction cps with
  | nil => intro fuel _ _; cases fuel <;> rfl
  | cons cp cps ih =>
    intro fuel h hl
    have hr := runeLen_encodeRune cp (h cp (by simp)) (encodeAll cps)
    simp only [encodeAll] at hl ⊢
    cases hE : encodeRune cp with
    | nil => exact absurd hE (encodeRune_ne_nil cp)
    | cons c e =>
      rw [hE] at hr hl
      cases fuel with
      | zero => simp at hl
      | succ f =>
        simp only [List.cons_append] at hr hl ⊢
        simp only [coerceF, hr]
        have hno : ¬ ((c :: e).length = 1 ∧ 0x80 ≤ c.toNat) := by
          intro ⟨g1, g2⟩
          have : e = [] := by
            cases e with
            | nil => rfl
            | cons _ _ => simp at g1
          have := encodeRune_single cp c e hE this
          omega
        rw [if_neg hno, show (c :: (e ++ encodeAll cps)) = (c :: e) ++ encodeAll cps from rfl, List.drop_left,
          List.take_left, ih f (fun x hx => h x (by simp [hx])) (by simp at hl; omega)]

/-- **utf8_wellformed.** On the UTF-8 encoding of any string of Unicode scalar values (RFC 3629: 1–4
    bytes, shortest form, no surrogates, ≤ U+10FFFF) the modelled scanner counts exactly one rune per scalar
    value — so `%-32s` pads a well-formed name by code points — and the JSON coercion leaves it as it is. -/
theorem utf8_wellformed (cps : List Nat) (h : ∀ cp ∈ cps, Scalar cp) :
    runeCount (encodeAll cps) = cps.length ∧ coerceUTF8 (encodeAll cps) = encodeAll cps :=
  ⟨runeCountF_encodeAll cps _ h (Nat.le_refl _), coerceF_encodeAll cps _ h (Nat.le_refl _)⟩

theorem runeLen_cons (c : UInt8) (t : Bytes) : runeLen (c :: t) =
    if c.toNat < 0xC2 then 1
    else if c.toNat < 0xE0 then
      match t with
      | c1 :: _ => if isCont c1 then 2 else 1
      | _ => 1
    else if c.toNat < 0xF0 then
      match t with
      | c1 :: c2 :: _ =>
        if (if c.toNat = 0xE0 then 0xA0 else 0x80) ≤ c1.toNat ∧
            c1.toNat ≤ (if c.toNat = 0xED then 0x9F else 0xBF) ∧ isCont c2 then 3 else 1
      | _ => 1
    else if c.toNat < 0xF5 then
      match t with
      | c1 :: c2 :: c3 :: _ =>
        if (if c.toNat = 0xF0 then 0x90 else 0x80) ≤ c1.toNat ∧
            c1.toNat ≤ (if c.toNat = 0xF4 then 0x8F else 0xBF) ∧ isCont c2 ∧ isCont c3 then 4 else 1
      | _ => 1
    else 1 := rfl

theorem isCont_iff (c : UInt8) : isCont c = true ↔ 0x80 ≤ c.toNat ∧ c.toNat ≤ 0xBF := by
  simp only [isCont, Bool.and_eq_true, decide_eq_true_eq]

theorem ofNat_eq (c : UInt8) (n : Nat) (h : n = c.toNat) : UInt8.ofNat n = c := by
  rw [h]; exact UInt8.ofNat_toNat

/-- **utf8_illformed / soundness of the scanner.** The scanner takes more than one byte as a rune ONLY when
    these bytes are the UTF-8 encoding of a Unicode scalar value; in every other position it takes exactly
    one byte (`runeLen = 1`), which `utf8.RuneCountInString` counts as one rune (U+FFFD, width 1) and
    encoding/json replaces by U+FFFD when it is not ASCII (`coerceF`). -/
theorem runeLen_sound (c : UInt8) (t : Bytes) (hk : runeLen (c :: t) ≠ 1) :
    ∃ cp, Scalar cp ∧ 0x80 ≤ cp ∧ (c :: t).take (runeLen (c :: t)) = encodeRune cp := by
  have hc := c.toNat_lt
  rw [runeLen_cons] at hk ⊢
  by_cases b1 : c.toNat < 0xC2
  · rw [if_pos b1] at hk; exact absurd rfl hk
  rw [if_neg b1] at hk ⊢
  by_cases b2 : c.toNat < 0xE0
  · rw [if_pos b2] at hk ⊢
    cases t with
    | nil => exact absurd rfl hk
    | cons c1 t1 =>
      simp only at hk ⊢
      by_cases k1 : isCont c1 = true
      · rw [if_pos k1]
        obtain ⟨g1, g2⟩ := (isCont_iff c1).1 k1
        refine ⟨(c.toNat - 0xC0) * 64 + (c1.toNat - 0x80), ⟨by omega, by omega⟩, by omega, ?_⟩
        unfold encodeRune
        rw [if_neg (by omega), if_pos (by omega)]
        simp only [List.take_succ_cons, List.take_zero]
        rw [ofNat_eq c _ (by omega), ofNat_eq c1 _ (by omega)]
      · rw [if_neg k1] at hk; exact absurd rfl hk
  rw [if_neg b2] at hk ⊢
  by_cases b3 : c.toNat < 0xF0
  · rw [if_pos b3] at hk ⊢
    cases t with
    | nil => exact absurd rfl hk
    | cons c1 t1 =>
      cases t1 with
      | nil => exact absurd rfl hk
      | cons c2 t2 =>
        simp only at hk ⊢
        by_cases k : (if c.toNat = 0xE0 then 0xA0 else 0x80) ≤ c1.toNat ∧
            c1.toNat ≤ (if c.toNat = 0xED then 0x9F else 0xBF) ∧ isCont c2 = true
        · rw [if_pos k]
          obtain ⟨k1, k2, k3⟩ := k
          obtain ⟨g1, g2⟩ := (isCont_iff c2).1 k3
          have k1' : 0x80 ≤ c1.toNat ∧ (c.toNat = 0xE0 → 0xA0 ≤ c1.toNat) := by
            split at k1 <;> omega
          have k2' : c1.toNat ≤ 0xBF ∧ (c.toNat = 0xED → c1.toNat ≤ 0x9F) := by
            split at k2 <;> omega
          refine ⟨(c.toNat - 0xE0) * 4096 + (c1.toNat - 0x80) * 64 + (c2.toNat - 0x80),
            ⟨by omega, by omega⟩, by omega, ?_⟩
          unfold encodeRune
          rw [if_neg (by omega), if_neg (by omega), if_pos (by omega)]
          simp only [List.take_succ_cons, List.take_zero]
          rw [ofNat_eq c _ (by omega), ofNat_eq c1 _ (by omega), ofNat_eq c2 _ (by omega)]
        · rw [if_neg k] at hk; exact absurd rfl hk
  rw [if_neg b3] at hk ⊢
  by_cases b4 : c.toNat < 0xF5
  · rw [if_pos b4] at hk ⊢
    cases t with
    | nil => exact absurd rfl hk
    | cons c1 t1 =>
      cases t1 with
      | nil => exact absurd rfl hk
      | cons c2 t2 =>
        cases t2 with
        | nil => exact absurd rfl hk
        | cons c3 t3 =>
          simp only at hk ⊢
          by_cases k : (if c.toNat = 0xF0 then 0x90 else 0x80) ≤ c1.toNat ∧
              c1.toNat ≤ (if c.toNat = 0xF4 then 0x8F else 0xBF) ∧ isCont c2 = true ∧ isCont c3 = true
          · rw [if_pos k]
            obtain ⟨k1, k2, k3, k4⟩ := k
            obtain ⟨g1, g2⟩ := (isCont_iff c2).1 k3
            obtain ⟨g3, g4⟩ := (isCont_iff c3).1 k4
            have k1' : 0x80 ≤ c1.toNat ∧ (c.toNat = 0xF0 → 0x90 ≤ c1.toNat) := by
              split at k1 <;> omega
            have k2' : c1.toNat ≤ 0xBF ∧ (c.toNat = 0xF4 → c1.toNat ≤ 0x8F) := by
              split at k2 <;> omega
            refine ⟨(c.toNat - 0xF0) * 262144 + (c1.toNat - 0x80) * 4096 + (c2.toNat - 0x80) * 64 + (c3.toNat - 0x80),
              ⟨by omega, by omega⟩, by omega, ?_⟩
            unfold encodeRune
            rw [if_neg (by omega), if_neg (by omega), if_neg (by omega)]
            simp only [List.take_succ_cons, List.take_zero]
            rw [ofNat_eq c _ (by omega), ofNat_eq c1 _ (by omega), ofNat_eq c2 _ (by omega),
              ofNat_eq c3 _ (by omega)]
          · rw [if_neg k] at hk; exact absurd rfl hk
  · rw [if_neg b4] at hk; exact absurd rfl hk

/-- an ill-formed position (the scanner takes one byte and it is not ASCII): one rune, replaced by the
    encoding of U+FFFD in JSON; the scan continues at the next byte -/
theorem scan_illformed (fuel : Nat) (c : UInt8) (t : Bytes) (h1 : runeLen (c :: t) = 1) (h2 : 0x80 ≤ c.toNat) :
    runeCountF (fuel + 1) (c :: t) = 1 + runeCountF fuel t ∧
    coerceF (fuel + 1) (c :: t) = encodeRune 0xFFFD ++ coerceF fuel t := by
  constructor
  · simp only [runeCountF, h1, List.drop_succ_cons, List.drop_zero]
  · simp only [coerceF, h1, List.drop_succ_cons, List.drop_zero]
    rw [if_pos ⟨trivial, h2⟩]
    rfl

/-- a well-formed position: the scanner takes the whole encoding as one rune and JSON keeps it -/
theorem scan_wellformed (fuel : Nat) (cp : Nat) (h : Scalar cp) (t : Bytes) :
    ∃ c e, encodeRune cp = c :: e ∧
      runeCountF (fuel + 1) (encodeRune cp ++ t) = 1 + runeCountF fuel t ∧
      coerceF (fuel + 1) (encodeRune cp ++ t) = encodeRune cp ++ coerceF fuel t := by
  have hr := runeLen_encodeRune cp h t
  cases hE : encodeRune cp with
  | nil => exact absurd hE (encodeRune_ne_nil cp)
  | cons c e =>
    refine ⟨c, e, rfl, ?_, ?_⟩
    · rw [hE] at hr
      simp only [List.cons_append] at hr ⊢
      simp only [runeCountF, hr]
      rw [show (c :: (e ++ t)) = (c :: e) ++ t from rfl, List.drop_left]
    · rw [hE] at hr
      simp only [List.cons_append] at hr ⊢
      simp only [coerceF, hr]
      have hno : ¬ ((c :: e).length = 1 ∧ 0x80 ≤ c.toNat) := by
        intro ⟨g1, g2⟩
        have : e = [] := by
          cases e with
          | nil => rfl
          | cons _ _ => simp at g1
        have := encodeRune_single cp c e hE this
        omega
      rw [if_neg hno, show (c :: (e ++ t)) = (c :: e) ++ t from rfl, List.drop_left, List.take_left]
      rfl

end Fiano.Cbfs
