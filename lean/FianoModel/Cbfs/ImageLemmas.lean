/-
  Helper lemmas about `newImage` for the C19 property theorems: the reader on a serialized
  well-formed archive, and the inversion of an accepted image.
-/
import FianoModel.Cbfs.Inv

namespace Fiano.Cbfs
open Spec

theorem areaBytes_ser (a : Archive) (ar : Fmap.Area) (ho : ar.offset = a.pre.length)
    (hs : ar.size = (serRecs a.fill a.recs).length) : areaBytes (ser a) ar = serRecs a.fill a.recs := by
  unfold areaBytes ser
  rw [ho, hs]
  have hm : min (serRecs a.fill a.recs).length
      ((a.pre ++ (serRecs a.fill a.recs ++ a.post)).length - a.pre.length) = (serRecs a.fill a.recs).length := by
    simp only [List.length_append]; omega
  rw [hm]
  have := slice_append_right a.pre (serRecs a.fill a.recs ++ a.post) 0 (serRecs a.fill a.recs).length
  rw [Nat.add_zero] at this
  rw [this]
  exact slice_prefix _ _ _ rfl

/-- what `newImage` returns on a well-formed archive -/
theorem newImage_ser (a : Archive) (w : a.WF) :
    ∃ i, newImage (ser a) = .ok i ∧ i.segs.map (·.file) = files 0 a.recs ∧
      i.areaOff = a.pre.length ∧ i.areaSize = (serRecs a.fill a.recs).length ∧ i.data = ser a := by
  obtain ⟨fm, s, ar, hread, hfind, ho, hs⟩ := w.fmap
  obtain ⟨segs, hwalk, hfiles⟩ := walk_serRecs a.fill a.recs 0 ((serRecs a.fill a.recs).length / 16 + 1)
    w.recs (by omega) (by omega)
  refine ⟨{ areaOff := ar.offset, areaSize := ar.size, segs := segs, data := ser a }, ?_, hfiles, ho, hs, rfl⟩
  unfold newImage
  rw [hread]
  simp only [hfind]
  rw [areaBytes_ser a ar ho hs, hwalk]

theorem entries_of_files : ∀ (recs : List Rec) (segs : List Seg) (off : Nat), (∀ r ∈ recs, r.WF) →
    segs.map (·.file) = files off recs → segs.map entryOf = entries off recs := by
  intro recs
  induction recs with
  | nil =>
    intro segs off _ h
    simp only [files, List.map_eq_nil_iff] at h
    subst h; rfl
  | cons r rs ih =>
    intro segs off hw h
    cases segs with
    | nil => simp [files] at h
    | cons s ss =>
      simp only [files, List.map_cons, List.cons.injEq] at h
      simp only [List.map_cons, entries]
      rw [entryOf_fileAt r (hw r (by simp)) off s h.1, ih ss (off + r.len) (fun x hx => hw x (by simp [hx])) h.2]

theorem files_get : ∀ (recs : List Rec) (off k : Nat) (r : Rec), recs[k]? = some r →
    ∃ o, (files off recs)[k]? = some (fileAt o r) := by
  intro recs
  induction recs with
  | nil => intro off k r h; simp at h
  | cons x xs ih =>
    intro off k r h
    cases k with
    | zero =>
      simp only [List.getElem?_cons_zero, Option.some.injEq] at h
      subst h
      exact ⟨off, by simp [files]⟩
    | succ k =>
      simp only [List.getElem?_cons_succ] at h
      obtain ⟨o, ho⟩ := ih (off + x.len) k r h
      exact ⟨o, by simp [files, ho]⟩

theorem chain_lo (area : Bytes) : ∀ (segs : List Seg) (lo : Nat), Chain area lo segs →
    ∀ s ∈ segs, lo ≤ s.file.recordStart ∧ SegAt area s := by
  intro segs
  induction segs with
  | nil => intro lo _ s hs; simp at hs
  | cons x xs ih =>
    intro lo ⟨c1, c2, c3⟩ s hs
    simp only [List.mem_cons] at hs
    rcases hs with rfl | hs
    · exact ⟨c1, c2⟩
    · obtain ⟨h1, h2⟩ := ih _ c3 s hs
      exact ⟨by omega, h2⟩

theorem chain_pairwise (area : Bytes) : ∀ (segs : List Seg) (lo : Nat), Chain area lo segs →
    segs.Pairwise (fun x y => x.file.recordStart + x.file.subOff + x.file.size ≤ y.file.recordStart) := by
  intro segs
  induction segs with
  | nil => intro _ _; exact List.Pairwise.nil
  | cons x xs ih =>
    intro lo ⟨_, _, c3⟩
    refine List.Pairwise.cons ?_ (ih _ c3)
    intro y hy
    exact (chain_lo area xs _ c3 y hy).1

theorem newImage_inv (img : Bytes) (i : Image) (h : newImage img = .ok i) :
    i.data = img ∧ ∃ fm s ar, Fmap.read img = .ok (fm, s) ∧ fm.areas.find? isCoreboot = some ar ∧
      i.areaOff = ar.offset ∧ i.areaSize = ar.size ∧ Chain (areaBytes img ar) 0 i.segs := by
  unfold newImage at h
  split at h
  · cases h
  · rename_i fm s hread
    split at h
    · cases h
    · rename_i ar hfind
      simp only at h
      split at h
      · cases h
      · rename_i segs hwalk
        injection h with h
        subst h
        refine ⟨rfl, fm, s, ar, hread, hfind, rfl, rfl, ?_⟩
        exact walk_chain (areaBytes img ar) _ 0 segs (by simpa using hwalk)

theorem decompress_fileAt (lzma lz4 : Codec) (r : Rec) (w : r.WF) (off : Nat)
    (hne : isEmptyType r.type = false) :
    (compOf r.attrs = compNone → decompress lzma lz4 (fileAt off r) = some r.data) ∧
    (∀ x, LawfulCodec lzma → compOf r.attrs = compLZMA → r.data = lzma.enc x →
      decompress lzma lz4 (fileAt off r) = some x) ∧
    (∀ x, LawfulCodec lz4 → compOf r.attrs = compLZ4 → r.data = lz4.enc x →
      decompress lzma lz4 (fileAt off r) = some x) := by
  have hc : compression (fileAt off r) = compOf r.attrs :=
    compression_attrs _ r.attrs w.attrs (by simp [fileAt, hne])
  have hd : (fileAt off r).fdata = r.data := by simp [fileAt, hne]
  refine ⟨?_, ?_, ?_⟩
  · intro h0
    unfold decompress
    simp only [hc, h0, hd, ↓reduceIte]
  · intro x hl h1 he
    unfold decompress
    simp only [hc, h1, hd, he]
    rw [if_neg (by decide)]
    simp only [↓reduceIte]
    exact hl x
  · intro x hl h2 he
    unfold decompress
    simp only [hc, h2, hd, he]
    rw [if_neg (by decide), if_neg (by decide)]
    simp only [↓reduceIte]
    exact hl x


end Fiano.Cbfs
