/-
  Follow-up wp-c19c (task 4, fragment): the modelled UTF-8 scanner on ASCII names — every byte is one
  rune (so `%-32s` pads by bytes) and encoding/json keeps the name as it is. The general statement
  (well-formed multi-byte sequences ↦ code points, ill-formed bytes ↦ U+FFFD) is NOT proved here.
-/
import FianoModel.Cbfs.Present

namespace Fiano.Cbfs

theorem runeLen_ascii (c : UInt8) (t : Bytes) (h : c.toNat < 0x80) : runeLen (c :: t) = 1 := by
  unfold runeLen
  simp only []
  rw [if_pos (by omega)]

theorem runeCountF_ascii : ∀ (fuel : Nat) (b : Bytes), b.length ≤ fuel → (∀ c ∈ b, c.toNat < 0x80) →
    runeCountF fuel b = b.length := by
  intro fuel
  induction fuel with
  | zero => intro b hl _; cases b with
    | nil => rfl
    | cons c t => simp at hl
  | succ fuel ih =>
    intro b hl h
    cases b with
    | nil => rfl
    | cons c t =>
      simp only [runeCountF, runeLen_ascii c t (h c (by simp)), List.drop_succ_cons, List.drop_zero,
        List.length_cons]
      rw [ih t (by simp at hl; omega) (fun x hx => h x (by simp [hx]))]
      omega

theorem coerceF_ascii : ∀ (fuel : Nat) (b : Bytes), b.length ≤ fuel → (∀ c ∈ b, c.toNat < 0x80) →
    coerceF fuel b = b := by
  intro fuel
  induction fuel with
  | zero => intro b hl _; cases b with
    | nil => rfl
    | cons c t => simp at hl
  | succ fuel ih =>
    intro b hl h
    cases b with
    | nil => rfl
    | cons c t =>
      have hc := h c (by simp)
      simp only [coerceF, runeLen_ascii c t hc, List.drop_succ_cons, List.drop_zero]
      rw [if_neg (by omega), ih t (by simp at hl; omega) (fun x hx => h x (by simp [hx]))]
      rfl

/-- **runes_ascii** (fragment of task 4): on an ASCII name the rune count is the byte count and the JSON
    coercion is the identity -/
theorem runes_ascii (b : Bytes) (h : ∀ c ∈ b, c.toNat < 0x80) : runeCount b = b.length ∧ coerceUTF8 b = b :=
  ⟨runeCountF_ascii b.length b (Nat.le_refl _) h, coerceF_ascii b.length b (Nat.le_refl _) h⟩

end Fiano.Cbfs
