/-
  Model of pkg/cbfs (image.go NewImage / WriteFile, file.go NewFile / ReadName / ReadAttributes /
  ReadData / FindAttribute / Compression / Decompress, and the per-type record readers
  empty.go, unknown.go, stage.go, payload.go, master.go, raw.go …).

  The model follows the code AS REPAIRED by
     fixes/C19-unknown-record-data.diff   (unknown records keep their parsed attributes and data)
     fixes/C19-area-end-eof.diff          (io.ReadFull for name/attributes/data, loop needs a full header)
     fixes/C19-empty-record-type.diff     (NewEmptyRecord no longer rewrites the stored type)
     fixes/C19-payload-data.diff          (the payload body goes to PayloadRecord.Data, FData is kept)
     fixes/C20-cbfs-bounds.diff           (area clamped to the image, header fields bounded by the input,
                                           stage / attribute sizes bounded)
  Hand-written; tied to the Go code by
   * T1: `FianoModel.Gen.Cbfs` (magic, header size, type / tag / compression constants, packed layouts,
         byte-order call sites, allocation-site inventories; see `Cbfs/Tie.lean`)
   * T2: the correspondence harness (harness/props/c19) driving `Driver/C19.lean`.
  The flash-map lookup re-uses the C13 model (`Fiano.Fmap.read`).
-/
import FianoModel.Base.Bytes
import FianoModel.Fmap.Model

namespace Fiano.Cbfs

/-! ### constants (compared with the regenerated facts in `Cbfs/Tie.lean`) -/

def magic : Bytes := [0x4c, 0x41, 0x52, 0x43, 0x48, 0x49, 0x56, 0x45]   -- "LARCHIVE"
def hdrSize : Nat := 24            -- binary.Size(FileHeader{}) = FileSize
def probeStep : Nat := 16          -- `off = off + 16` when no magic is found
def alignTo : Nat := 16            -- `off = (off + 15) & (^15)` after a record

def typeDeleted : Nat := 0
def typeDeleted2 : Nat := 0xffffffff
def typeLegacyStage : Nat := 0x10
def typeSELF : Nat := 0x20

def tagUnused : Nat := 0
def tagUnused2 : Nat := 0xffffffff
def tagCompressed : Nat := 0x42435a4c
def attrHdrSize : Nat := 8         -- binary.Size(FileAttr{})
def attrCompSize : Nat := 16       -- binary.Size(FileAttrCompression{})

def segEntry : Nat := 0x454E5452
def payloadHdrSize : Nat := 28     -- binary.Size(PayloadHeader{})
def stageHdrSize : Nat := 28       -- binary.Size(StageHeader{})
def stageSizeOff : Nat := 20       -- offset of StageHeader.Size (little endian!)

def compNone : Nat := 0
def compLZMA : Nat := 1
def compLZ4 : Nat := 2

def corebootName : Bytes := [0x43, 0x4f, 0x52, 0x45, 0x42, 0x4f, 0x4f, 0x54]  -- "COREBOOT"

/-! ### data -/

/-- `cbfs.File`: the big-endian header fields (after the magic), the record position inside
    the area, and the three variable-length parts. -/
structure File where
  size        : Nat      -- FileHeader.Size (uint32)
  type        : Nat      -- FileHeader.Type (uint32)
  attrOff     : Nat      -- FileHeader.AttrOffset (uint32)
  subOff      : Nat      -- FileHeader.SubHeaderOffset (uint32)
  recordStart : Nat      -- offset of the record inside the area
  name        : Bytes    -- name field up to the first NUL
  attr        : Bytes
  fdata       : Bytes
  deriving Repr, DecidableEq, Inhabited

/-- a record of the listing: the file plus what its per-type reader extracted
    (`extra`: payload = [#segments, body length]; legacy stage = [inner size]) -/
structure Seg where
  file  : File
  extra : List Nat := []
  deriving Repr, DecidableEq, Inhabited

inductive Err where
  | eof        -- io.EOF from the header read
  | short      -- io.ErrUnexpectedEOF: fewer than 24 bytes for a header
  | magic      -- ErrCBFSHeaderMagicNotFound
  | bounds     -- header fields do not fit into the remaining input (C20 fix)
  | sub        -- the per-type reader failed (legacy stage / payload sub-header)
  | fmap       -- fmap.Read failed
  | noArea     -- no COREBOOT area
  | fuel       -- never returned (theorem `walk_fuel_ok`)
  deriving Repr, DecidableEq, Inhabited

/-! ### NewFile -/

/-- `NewFile(r)` with the reader positioned at area offset `off`; `rest` = the bytes of the
    (clamped) area from `off` on, so `rest.length` = `inputEnd - off`. -/
def newFile (rest : Bytes) (off : Nat) : Except Err File :=
  if rest.length = 0 then .error .eof
  else if rest.length < hdrSize then .error .short
  else if rest.take 8 ≠ magic then .error .magic
  else
    let size := fromBE (slice rest 8 4)
    let type := fromBE (slice rest 12 4)
    let attrOff := fromBE (slice rest 16 4)
    let subOff := fromBE (slice rest 20 4)
    let nameEnd := if attrOff = 0 then subOff else attrOff
    if nameEnd < hdrSize ∨ subOff < nameEnd ∨ rest.length < subOff + size then .error .bounds
    else .ok {
      size := size, type := type, attrOff := attrOff, subOff := subOff, recordStart := off
      name := (slice rest hdrSize (nameEnd - hdrSize)).takeWhile (· ≠ 0)
      attr := if attrOff = 0 then [] else slice rest attrOff (subOff - attrOff)
      fdata := slice rest subOff size }

/-! ### per-type readers (`SegReaders[f.Type].New(f)` followed by `s.Read(bytes.NewReader(f.FData))`) -/

/-- `PayloadRecord.Read`: 28-byte big-endian segment headers up to and including the first of
    type ENTRY; returns (#segments, bytes consumed). `none` = a header read hit the end. -/
def payloadSegs : Nat → Bytes → Nat → Option (Nat × Nat)
  | 0, _, _ => none
  | fuel+1, rest, n =>
    if rest.length < payloadHdrSize then none
    else if fromBE (slice rest 0 4) = segEntry then some (n + 1, (n + 1) * payloadHdrSize)
    else payloadSegs fuel (rest.drop payloadHdrSize) (n + 1)

def readPayload (f : File) : Except Err Seg :=
  match payloadSegs (f.fdata.length + 1) f.fdata 0 with
  | none => .error .sub
  | some (n, used) => .ok { file := f, extra := [n, f.fdata.length - used] }

/-- `LegacyStageRecord.Read`: little-endian 28-byte stage header, then `Size` bytes. The bytes
    reader reports EOF for a read at its end even when zero bytes are requested. -/
def readLegacyStage (f : File) : Except Err Seg :=
  if f.fdata.length < stageHdrSize then .error .sub
  else
    let sz := fromLE (slice f.fdata stageSizeOff 4)
    let rem := f.fdata.length - stageHdrSize
    if rem < sz then .error .sub          -- C20 fix: size bounded by the record
    else if rem = 0 then .error .sub      -- bytes.Reader.Read at the end: io.EOF
    else .ok { file := f, extra := [sz] }

/-- `NewEmptyRecord`: attributes become 16 zero bytes and the data `Size` bytes of 0xFF. -/
def readEmpty (f : File) : Seg :=
  { file := { f with attr := List.replicate 16 0, fdata := List.replicate f.size 0xFF } }

def isEmptyType (t : Nat) : Bool := t == typeDeleted || t == typeDeleted2

/-- every other registered reader (bootblock, master, stage, raw, option rom, bootsplash, microcode,
    fsp, cmos, spd, cmos layout) and the unknown-record reader keep the file as parsed -/
def mkSeg (f : File) : Except Err Seg :=
  if isEmptyType f.type then .ok (readEmpty f)
  else if f.type = typeLegacyStage then readLegacyStage f
  else if f.type = typeSELF then readPayload f
  else .ok { file := f }

/-! ### the record walk of NewImage -/

def align16 (n : Nat) : Nat := (n + 15) / 16 * 16      -- (off + 15) & ^15

/-- the loop of `NewImage`; `rest` = area bytes from `off` on. Every iteration moves forward by at
    least 16 bytes, so `fuel` with `rest.length < 16 * fuel` is never exhausted. -/
def walk : Nat → Bytes → Nat → Except Err (List Seg)
  | 0, _, _ => .error .fuel
  | fuel+1, rest, off =>
    if rest.length < hdrSize then .ok []              -- `off+FileSize <= r.Size()` fails
    else match newFile rest off with
      | .error .magic => walk fuel (rest.drop probeStep) (off + probeStep)
      | .error e => .error e
      | .ok f =>
        match mkSeg f with
        | .error e => .error e
        | .ok s =>
          let next := align16 (off + f.subOff + f.size)
          match walk fuel (rest.drop (next - off)) next with
          | .error e => .error e
          | .ok segs => .ok (s :: segs)

/-! ### NewImage -/

/-- `strings.TrimRight(name, "\x00") == "COREBOOT"` -/
def isCoreboot (a : Fmap.Area) : Bool :=
  (a.name.reverse.dropWhile (· == 0)).reverse == corebootName

structure Image where
  areaOff  : Nat
  areaSize : Nat
  segs     : List Seg
  data     : Bytes          -- Image.Data: the bytes that were read
  deriving Repr, DecidableEq, Inhabited

/-- the bytes of the COREBOOT area that really exist (C20 fix: the section is clamped) -/
def areaBytes (img : Bytes) (a : Fmap.Area) : Bytes :=
  slice img a.offset (min a.size (img.length - a.offset))

def newImage (img : Bytes) : Except Err Image :=
  match Fmap.read img with
  | .error _ => .error .fmap
  | .ok (fm, _) =>
    match fm.areas.find? isCoreboot with
    | none => .error .noArea
    | some a =>
      let area := areaBytes img a
      match walk (area.length / 16 + 1) area 0 with
      | .error e => .error e
      | .ok segs => .ok { areaOff := a.offset, areaSize := a.size, segs := segs, data := img }

/-- `Image.WriteFile`: the bytes written are `Image.Data` -/
def writeFile (i : Image) : Bytes := i.data

/-! ### attributes, compression, decompression -/

/-- `File.FindAttribute(tag)`: walk of the tag/size list; `none` = any of the error returns. -/
def findAttr (tag : Nat) : Nat → Bytes → Option Bytes
  | 0, _ => none
  | fuel+1, rest =>
    if rest.length < attrHdrSize then none
    else
      let t := fromBE (slice rest 0 4)
      let sz := fromBE (slice rest 4 4)
      if t = tagUnused ∨ t = tagUnused2 then none
      else if sz < attrHdrSize ∨ sz = 0xffffffff then none
      else if t = tag then (if rest.length < sz then none else some (rest.take sz))
      else findAttr tag fuel (rest.drop sz)

def findAttribute (f : File) (tag : Nat) : Option Bytes := findAttr tag (f.attr.length + 1) f.attr

/-- `File.Compression()` -/
def compression (f : File) : Nat :=
  match findAttribute f tagCompressed with
  | none => compNone
  | some c => if c.length < attrCompSize then compNone else fromBE (slice c 8 4)

/-- third-party decoders as parameters -/
structure Codec where
  enc : Bytes → Bytes
  dec : Bytes → Option Bytes

def LawfulCodec (c : Codec) : Prop := ∀ x, c.dec (c.enc x) = some x

/-- `File.Decompress()`; `none` = error (unknown algorithm or decoder failure) -/
def decompress (lzma lz4 : Codec) (f : File) : Option Bytes :=
  let c := compression f
  if c = compNone then some f.fdata
  else if c = compLZMA then lzma.dec f.fdata
  else if c = compLZ4 then lz4.dec f.fdata
  else none

/-! ### the listing -/

structure Entry where
  name   : Bytes
  type   : Nat
  offset : Nat
  size   : Nat
  comp   : Nat
  deriving Repr, DecidableEq, Inhabited

def entryOf (s : Seg) : Entry :=
  { name := s.file.name, type := s.file.type, offset := s.file.recordStart, size := s.file.size,
    comp := compression s.file }

def listing (i : Image) : List Entry := i.segs.map entryOf

end Fiano.Cbfs
