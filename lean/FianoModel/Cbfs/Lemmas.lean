/-
  Helper lemmas for C19: byte-slice algebra, the header codec, `newFile` on a serialized record,
  the probe walk through fill bytes, attribute lookup on serialized attribute lists.
-/
import FianoModel.Cbfs.Spec
namespace Fiano.Cbfs
open Spec

theorem slice_append_left (p s : Bytes) (o l : Nat) (h : o + l ≤ p.length) :
    slice (p ++ s) o l = slice p o l := by
  unfold slice
  rw [List.drop_append_of_le_length (by omega), List.take_append_of_le_length (by simp; omega)]

theorem slice_append_right (p s : Bytes) (o l : Nat) :
    slice (p ++ s) (p.length + o) l = slice s o l := by
  unfold slice
  have : List.drop (p.length + o) (p ++ s) = List.drop o s := by
    rw [← List.drop_drop]; simp
  rw [this]

theorem slice_append_right' (p s : Bytes) (k o l : Nat) (hk : p.length = k) :
    slice (p ++ s) (k + o) l = slice s o l := by
  subst hk; exact slice_append_right p s o l

theorem slice_prefix (m s : Bytes) (l : Nat) (h : m.length = l) : slice (m ++ s) 0 l = m := by
  subst h; simp [slice]

theorem slice_drop (b : Bytes) (k o l : Nat) : slice (b.drop k) o l = slice b (k + o) l := by
  unfold slice; rw [List.drop_drop]

theorem hdr_fields (m s t a u tail : Bytes) (hm : m.length = 8) (hs : s.length = 4)
    (ht : t.length = 4) (ha : a.length = 4) (hu : u.length = 4) :
    ((m ++ (s ++ (t ++ (a ++ u)))) ++ tail).take 8 = m ∧
    slice ((m ++ (s ++ (t ++ (a ++ u)))) ++ tail) 8 4 = s ∧
    slice ((m ++ (s ++ (t ++ (a ++ u)))) ++ tail) 12 4 = t ∧
    slice ((m ++ (s ++ (t ++ (a ++ u)))) ++ tail) 16 4 = a ∧
    slice ((m ++ (s ++ (t ++ (a ++ u)))) ++ tail) 20 4 = u := by
  simp only [List.append_assoc]
  refine ⟨?_, ?_, ?_, ?_, ?_⟩
  · rw [List.take_append_of_le_length (by omega), ← hm, List.take_length]
  · rw [show (8:Nat) = 8 + 0 from rfl, slice_append_right' m _ 8 0 4 hm]
    exact slice_prefix s _ 4 hs
  · rw [show (12:Nat) = 8 + 4 from rfl, slice_append_right' m _ 8 4 4 hm,
      show (4:Nat) = 4 + 0 from rfl, slice_append_right' s _ 4 0 _ hs]
    exact slice_prefix t _ 4 ht
  · rw [show (16:Nat) = 8 + 8 from rfl, slice_append_right' m _ 8 8 4 hm,
      show (8:Nat) = 4 + 4 from rfl, slice_append_right' s _ 4 4 _ hs,
      show (4:Nat) = 4 + 0 from rfl, slice_append_right' t _ 4 0 _ ht]
    exact slice_prefix a _ _ ha
  · rw [show (20:Nat) = 8 + 12 from rfl, slice_append_right' m _ 8 12 4 hm,
      show (12:Nat) = 4 + 8 from rfl, slice_append_right' s _ 4 8 _ hs,
      show (8:Nat) = 4 + 4 from rfl, slice_append_right' t _ 4 4 _ ht,
      show (4:Nat) = 4 + 0 from rfl, slice_append_right' a _ 4 0 _ ha]
    exact slice_prefix u _ _ hu


theorem parts (H N A D T : Bytes) :
    slice (H ++ (N ++ (A ++ (D ++ T)))) H.length N.length = N ∧
    slice (H ++ (N ++ (A ++ (D ++ T)))) (H.length + N.length) A.length = A ∧
    slice (H ++ (N ++ (A ++ (D ++ T)))) (H.length + N.length + A.length) D.length = D ∧
    (H ++ (N ++ (A ++ (D ++ T)))).drop (H.length + N.length + A.length + D.length) = T := by
  refine ⟨?_, ?_, ?_, ?_⟩
  · have := slice_append_right H (N ++ (A ++ (D ++ T))) 0 N.length
    rw [Nat.add_zero] at this
    rw [this]; exact slice_prefix N _ _ rfl
  · rw [slice_append_right H, ← Nat.add_zero N.length, slice_append_right N]
    exact slice_prefix A _ _ rfl
  · rw [Nat.add_assoc, slice_append_right H, slice_append_right N, ← Nat.add_zero A.length,
      slice_append_right A]
    exact slice_prefix D _ _ rfl
  · simp only [← List.drop_drop]
    simp

/-! ### the magic never matches a run of one byte -/

theorem replicate_ne_magic (b : UInt8) : List.replicate 8 b ≠ magic := by
  intro h
  have h0 : (List.replicate 8 b)[0]? = magic[0]? := by rw [h]
  have h1 : (List.replicate 8 b)[1]? = magic[1]? := by rw [h]
  simp [magic] at h0 h1
  rw [h0] at h1
  exact absurd h1 (by decide)

/-! ### header of a serialized record -/

theorem serHdr_length (r : Rec) : (serHdr r).length = 24 := by
  simp [serHdr, magic]

theorem serAttrs_nil_iff (as : List Attr) : serAttrs as = [] ↔ as = [] := by
  cases as with
  | nil => simp [serAttrs]
  | cons a as =>
    simp only [serAttrs, serAttr, reduceCtorEq, iff_false]
    intro h
    have := congrArg List.length h
    simp at this

theorem serRec_length (fill : UInt8) (r : Rec) : (serRec fill r).length = r.len := by
  simp [serRec, serHdr_length, Rec.len, Rec.subOff, Rec.nameLen]
  omega

theorem takeWhile_name (n : Bytes) (k : Nat) (h : ∀ b ∈ n, b ≠ 0) :
    (n ++ List.replicate k (0 : UInt8)).takeWhile (· ≠ 0) = n := by
  induction n with
  | nil =>
    cases k with
    | zero => rfl
    | succ k => simp [List.replicate_succ, List.takeWhile]
  | cons x xs ih =>
    have hx : x ≠ 0 := h x (by simp)
    simp only [List.cons_append, List.takeWhile, hx, ne_eq, not_false_eq_true, decide_true]
    rw [ih (fun b hb => h b (by simp [hb]))]


/-! ### `newFile` on a serialized record -/

/-- the file as parsed (before the per-type reader) -/
def rawFileAt (off : Nat) (r : Rec) : File :=
  { size := r.data.length, type := r.type, attrOff := r.attrOff, subOff := r.subOff, recordStart := off
    name := r.name, attr := serAttrs r.attrs, fdata := r.data }

theorem serRec_split (fill : UInt8) (r : Rec) (q : Bytes) :
    serRec fill r ++ q = serHdr r ++ ((r.name ++ List.replicate r.namePad 0) ++
      (serAttrs r.attrs ++ (r.data ++ (List.replicate r.gap fill ++ q)))) := by
  simp [serRec, List.append_assoc]

theorem Spec.Rec.subOff_le_len (r : Rec) : r.subOff + r.data.length ≤ r.len := by
  simp [Rec.len]

theorem Spec.Rec.attrOff_le (r : Rec) : r.attrOff ≤ r.subOff := by
  unfold Rec.attrOff Rec.subOff
  split <;> omega

/-- unfolding of `newFile` with the constants as numerals -/
theorem newFile_eq (rest : Bytes) (off : Nat) : newFile rest off =
    if rest.length = 0 then .error .eof
    else if rest.length < 24 then .error .short
    else if rest.take 8 ≠ magic then .error .magic
    else
      if (if fromBE (slice rest 16 4) = 0 then fromBE (slice rest 20 4) else fromBE (slice rest 16 4)) < 24 ∨
          fromBE (slice rest 20 4) <
            (if fromBE (slice rest 16 4) = 0 then fromBE (slice rest 20 4) else fromBE (slice rest 16 4)) ∨
          rest.length < fromBE (slice rest 20 4) + fromBE (slice rest 8 4) then .error .bounds
      else .ok {
        size := fromBE (slice rest 8 4), type := fromBE (slice rest 12 4)
        attrOff := fromBE (slice rest 16 4), subOff := fromBE (slice rest 20 4), recordStart := off
        name := (slice rest 24
          ((if fromBE (slice rest 16 4) = 0 then fromBE (slice rest 20 4) else fromBE (slice rest 16 4)) - 24)).takeWhile
            (· ≠ 0)
        attr := if fromBE (slice rest 16 4) = 0 then []
          else slice rest (fromBE (slice rest 16 4)) (fromBE (slice rest 20 4) - fromBE (slice rest 16 4))
        fdata := slice rest (fromBE (slice rest 20 4)) (fromBE (slice rest 8 4)) } := rfl

theorem walk_zero (rest : Bytes) (off : Nat) : walk 0 rest off = .error .fuel := rfl

theorem walk_succ (fuel : Nat) (rest : Bytes) (off : Nat) : walk (fuel + 1) rest off =
    if rest.length < 24 then .ok []
    else match newFile rest off with
      | .error .magic => walk fuel (rest.drop 16) (off + 16)
      | .error e => .error e
      | .ok f =>
        match mkSeg f with
        | .error e => .error e
        | .ok s =>
          match walk fuel (rest.drop (align16 (off + f.subOff + f.size) - off))
              (align16 (off + f.subOff + f.size)) with
          | .error e => .error e
          | .ok segs => .ok (s :: segs) := rfl

/-- `newFile` from facts about the bytes (keeps the big concrete term out of the unfolding) -/
theorem newFile_ok (rest : Bytes) (off size type attrOff subOff : Nat)
    (hlen : 24 ≤ rest.length) (hm : rest.take 8 = magic)
    (h1 : fromBE (slice rest 8 4) = size) (h2 : fromBE (slice rest 12 4) = type)
    (h3 : fromBE (slice rest 16 4) = attrOff) (h4 : fromBE (slice rest 20 4) = subOff)
    (hb1 : 24 ≤ (if attrOff = 0 then subOff else attrOff))
    (hb2 : (if attrOff = 0 then subOff else attrOff) ≤ subOff)
    (hb3 : subOff + size ≤ rest.length) :
    newFile rest off = .ok {
      size := size, type := type, attrOff := attrOff, subOff := subOff, recordStart := off
      name := (slice rest 24 ((if attrOff = 0 then subOff else attrOff) - 24)).takeWhile (· ≠ 0)
      attr := if attrOff = 0 then [] else slice rest attrOff (subOff - attrOff)
      fdata := slice rest subOff size } := by
  rw [newFile_eq]
  simp only [h1, h2, h3, h4, hm]
  rw [if_neg (by omega), if_neg (by omega), if_neg (by simp), if_neg (by omega)]

theorem newFile_serRec (fill : UInt8) (r : Rec) (w : r.WF) (q : Bytes) (off : Nat) :
    newFile (serRec fill r ++ q) off = .ok (rawFileAt off r) := by
  have hl : (serRec fill r ++ q).length = r.len + q.length := by
    rw [List.length_append, serRec_length]
  have hsub : 24 ≤ r.subOff := by unfold Rec.subOff; omega
  have h1 := r.subOff_le_len
  have h2 := r.attrOff_le
  have h32 := w.len32
  have hN : (r.name ++ List.replicate r.namePad (0 : UInt8)).length = r.nameLen := by
    simp [Rec.nameLen]
  have hf := hdr_fields magic (beN 4 r.data.length) (beN 4 r.type) (beN 4 r.attrOff) (beN 4 r.subOff)
    ((r.name ++ List.replicate r.namePad 0) ++
      (serAttrs r.attrs ++ (r.data ++ (List.replicate r.gap fill ++ q))))
    (by simp [magic]) (by simp) (by simp) (by simp) (by simp)
  have hp := parts (serHdr r) (r.name ++ List.replicate r.namePad 0) (serAttrs r.attrs) r.data
    (List.replicate r.gap fill ++ q)
  rw [serHdr_length, hN] at hp
  rw [serRec_split] at hl ⊢
  rw [← serHdr] at hf
  obtain ⟨rest, hrest⟩ : ∃ rest, rest = serHdr r ++ ((r.name ++ List.replicate r.namePad 0) ++
      (serAttrs r.attrs ++ (r.data ++ (List.replicate r.gap fill ++ q)))) := ⟨_, rfl⟩
  rw [← hrest] at hl hf hp ⊢
  obtain ⟨f0, f1, f2, f3, f4⟩ := hf
  obtain ⟨p1, p2, p3, _⟩ := hp
  have e256 : (256 : Nat) ^ 4 = 2 ^ 32 := by decide
  have v1 : fromBE (slice rest 8 4) = r.data.length := by
    rw [f1, fromBE_beN, e256]; exact Nat.mod_eq_of_lt (by omega)
  have v2 : fromBE (slice rest 12 4) = r.type := by
    rw [f2, fromBE_beN, e256]; exact Nat.mod_eq_of_lt w.type32
  have v3 : fromBE (slice rest 16 4) = r.attrOff := by
    rw [f3, fromBE_beN, e256]; exact Nat.mod_eq_of_lt (by omega)
  have v4 : fromBE (slice rest 20 4) = r.subOff := by
    rw [f4, fromBE_beN, e256]; exact Nat.mod_eq_of_lt (by omega)
  have hne : (if r.attrOff = 0 then r.subOff else r.attrOff) = 24 + r.nameLen := by
    unfold Rec.attrOff Rec.subOff
    by_cases ha : r.attrs = []
    · simp [ha, serAttrs]
    · simp [ha]
  rw [newFile_ok rest off _ _ _ _ (by omega) f0 v1 v2 v3 v4 (by omega) (by rw [hne]; unfold Rec.subOff; omega)
    (by omega)]
  simp only [rawFileAt, Except.ok.injEq, File.mk.injEq, true_and]
  have hnl : 24 + r.nameLen - 24 = r.nameLen := by omega
  refine ⟨?_, ?_, ?_⟩
  · rw [hne, hnl, p1]; exact takeWhile_name _ _ w.nameNoNul
  · unfold Rec.attrOff
    by_cases ha : r.attrs = []
    · simp [ha, serAttrs]
    · simp only [ha, ↓reduceIte]
      have : 24 + r.nameLen ≠ 0 := by omega
      rw [if_neg this]
      have e : r.subOff - (24 + r.nameLen) = (serAttrs r.attrs).length := by
        unfold Rec.subOff; omega
      rw [e]; exact p2
  · have e : r.subOff = 24 + r.nameLen + (serAttrs r.attrs).length := rfl
    rw [e]; exact p3


/-! ### per-type readers on well-formed content -/

theorem payloadSegs_succ (fuel : Nat) (rest : Bytes) (n : Nat) :
    payloadSegs (fuel + 1) rest n =
      if rest.length < 28 then none
      else if fromBE (slice rest 0 4) = segEntry then some (n + 1, (n + 1) * 28)
      else payloadSegs fuel (rest.drop 28) (n + 1) := rfl

theorem payloadSegs_some (k : Nat) : ∀ (fuel : Nat) (rest : Bytes) (n : Nat), k < fuel →
    28 * (k + 1) ≤ rest.length → fromBE (slice rest (28 * k) 4) = segEntry →
    ∃ m u, payloadSegs fuel rest n = some (m, u) := by
  induction k with
  | zero =>
    intro fuel rest n hf hl he
    cases fuel with
    | zero => omega
    | succ fuel =>
      rw [payloadSegs_succ, if_neg (by omega)]
      simp only [Nat.mul_zero] at he
      rw [if_pos he]
      exact ⟨_, _, rfl⟩
  | succ k ih =>
    intro fuel rest n hf hl he
    cases fuel with
    | zero => omega
    | succ fuel =>
      rw [payloadSegs_succ, if_neg (by omega)]
      by_cases h0 : fromBE (slice rest 0 4) = segEntry
      · rw [if_pos h0]; exact ⟨_, _, rfl⟩
      · rw [if_neg h0]
        apply ih fuel (rest.drop 28) (n + 1) (by omega)
        · simp only [List.length_drop]; omega
        · rw [slice_drop]
          have : 28 + 28 * k = 28 * (k + 1) := by omega
          rw [this]; exact he

theorem not_empty_of_ne (t : Nat) (h0 : t ≠ typeDeleted) (h1 : t ≠ typeDeleted2) :
    isEmptyType t = false := by
  simp [isEmptyType, h0, h1]

/-- the per-type reader accepts a well-formed record and holds what `Spec.fileAt` says -/
theorem mkSeg_raw (r : Rec) (w : r.WF) (off : Nat) :
    ∃ s, mkSeg (rawFileAt off r) = .ok s ∧ s.file = fileAt off r := by
  unfold mkSeg
  by_cases he : isEmptyType r.type = true
  · simp only [rawFileAt, he, ↓reduceIte]
    refine ⟨_, rfl, ?_⟩
    simp [readEmpty, fileAt, he]
  · have he' : isEmptyType r.type = false := by simpa using he
    have hfile : rawFileAt off r = fileAt off r := by
      simp [rawFileAt, fileAt, he']
    simp only [show (rawFileAt off r).type = r.type from rfl, he', Bool.false_eq_true, ↓reduceIte]
    by_cases hl : r.type = typeLegacyStage
    · rw [if_pos hl]
      obtain ⟨h1, h2⟩ := w.stage hl
      unfold readLegacyStage
      simp only [show (rawFileAt off r).fdata = r.data from rfl, stageHdrSize, stageSizeOff]
      rw [if_neg (by omega), if_neg (by omega), if_neg (by omega)]
      exact ⟨_, rfl, hfile⟩
    · rw [if_neg hl]
      by_cases hs : r.type = typeSELF
      · rw [if_pos hs]
        obtain ⟨k, h1, h2⟩ := w.payload hs
        unfold readPayload
        simp only [show (rawFileAt off r).fdata = r.data from rfl]
        obtain ⟨m, u, hmu⟩ := payloadSegs_some k (r.data.length + 1) r.data 0 (by omega) h1 h2
        rw [hmu]
        exact ⟨_, rfl, hfile⟩
      · rw [if_neg hs]
        exact ⟨_, rfl, hfile⟩

/-! ### the walk -/

theorem newFile_no_magic (rest : Bytes) (off : Nat) (hl : 24 ≤ rest.length) (hm : rest.take 8 ≠ magic) :
    newFile rest off = .error .magic := by
  rw [newFile_eq, if_neg (by omega), if_neg (by omega), if_pos hm]

theorem walk_end (fuel : Nat) (rest : Bytes) (off : Nat) (hl : rest.length < 24) (hf : 0 < fuel) :
    walk fuel rest off = .ok [] := by
  cases fuel with
  | zero => omega
  | succ fuel => rw [walk_succ, if_pos hl]

theorem walk_filler (fill : UInt8) (k : Nat) : ∀ (q : Bytes) (off fuel : Nat),
    (q = [] ∨ 24 ≤ q.length) → 16 * k + q.length < 16 * fuel →
    walk fuel (List.replicate (16 * k) fill ++ q) off = walk (fuel - k) q (off + 16 * k) := by
  induction k with
  | zero => intro q off fuel _ _; simp
  | succ k ih =>
    intro q off fuel hq hf
    cases fuel with
    | zero => omega
    | succ f =>
      have hlen : (List.replicate (16 * (k + 1)) fill ++ q).length = 16 * (k + 1) + q.length := by simp
      by_cases hshort : (List.replicate (16 * (k + 1)) fill ++ q).length < 24
      · -- only the last 16 fill bytes are left: both sides stop
        have hq0 : q = [] := by
          rcases hq with h | h
          · exact h
          · omega
        have hk : k = 0 := by omega
        subst hq0 hk
        rw [walk_end _ _ _ hshort (by omega), walk_end _ _ _ (by simp) (by omega)]
      · have htake : (List.replicate (16 * (k + 1)) fill ++ q).take 8 = List.replicate 8 fill := by
          rw [List.take_append_of_le_length (by simp <;> omega), List.take_replicate]
          congr 1 <;> omega
        have hnf := newFile_no_magic (List.replicate (16 * (k + 1)) fill ++ q) off (by omega)
          (by rw [htake]; exact replicate_ne_magic fill)
        have hdrop : (List.replicate (16 * (k + 1)) fill ++ q).drop 16 = List.replicate (16 * k) fill ++ q := by
          rw [List.drop_append_of_le_length (by simp <;> omega), List.drop_replicate]
          congr 2 <;> omega
        rw [walk_succ, if_neg hshort, hnf]
        simp only
        rw [hdrop, ih q (off + 16) f hq (by omega)]
        congr 1 <;> omega


theorem align16_rec (off s g : Nat) (hoff : off % 16 = 0) (h : (s + g) % 16 = 0) :
    align16 (off + s) = off + s + g % 16 := by
  unfold align16; omega

theorem serRec_drop (fill : UInt8) (r : Rec) (q : Bytes) :
    (serRec fill r ++ q).drop (r.subOff + r.data.length + r.gap % 16) =
      List.replicate (16 * (r.gap / 16)) fill ++ q := by
  have hp := (parts (serHdr r) (r.name ++ List.replicate r.namePad 0) (serAttrs r.attrs) r.data
    (List.replicate r.gap fill ++ q)).2.2.2
  have hN : (r.name ++ List.replicate r.namePad (0 : UInt8)).length = r.nameLen := by
    simp [Rec.nameLen]
  rw [serHdr_length, hN] at hp
  rw [serRec_split, ← List.drop_drop]
  have e : r.subOff + r.data.length = 24 + r.nameLen + (serAttrs r.attrs).length + r.data.length := rfl
  rw [e, hp, List.drop_append_of_le_length (by simp; exact Nat.mod_le _ _), List.drop_replicate]
  congr 2
  have := Nat.div_add_mod r.gap 16
  omega

/-- one record of a well-formed archive: the walk lists it and continues at the next record -/
theorem walk_rec (fill : UInt8) (r : Rec) (w : r.WF) (q : Bytes) (off fuel : Nat)
    (hoff : off % 16 = 0) (hq : q = [] ∨ 24 ≤ q.length) (hf : r.len + q.length < 16 * fuel) :
    ∃ s, s.file = fileAt off r ∧
      walk fuel (serRec fill r ++ q) off =
        match walk (fuel - 1 - r.gap / 16) q (off + r.len) with
        | .error e => .error e
        | .ok segs => .ok (s :: segs) := by
  obtain ⟨s, hs, hfile⟩ := mkSeg_raw r w off
  refine ⟨s, hfile, ?_⟩
  have hsub : 24 ≤ r.subOff := by unfold Rec.subOff; omega
  have hlen : r.len = r.subOff + r.data.length + r.gap := rfl
  cases fuel with
  | zero => omega
  | succ f =>
    have hl : ¬ (serRec fill r ++ q).length < 24 := by
      rw [List.length_append, serRec_length]; omega
    rw [walk_succ, if_neg hl, newFile_serRec fill r w q off]
    simp only [hs]
    have ha : align16 (off + (rawFileAt off r).subOff + (rawFileAt off r).size) =
        off + (r.subOff + r.data.length + r.gap % 16) := by
      have := align16_rec off (r.subOff + r.data.length) r.gap hoff (by rw [← hlen]; exact w.aligned)
      simp only [rawFileAt]
      rw [Nat.add_assoc off, this]; omega
    rw [ha, Nat.add_sub_cancel_left, serRec_drop]
    have hdm := Nat.div_add_mod r.gap 16
    rw [walk_filler fill (r.gap / 16) q _ f hq (by omega)]
    have e1 : f - r.gap / 16 = f + 1 - 1 - r.gap / 16 := by omega
    have e2 : off + (r.subOff + r.data.length + r.gap % 16) + 16 * (r.gap / 16) = off + r.len := by omega
    rw [e1, e2]

theorem serRecs_length_ge (fill : UInt8) (r : Rec) (rs : List Rec) : 24 ≤ (serRecs fill (r :: rs)).length := by
  simp only [serRecs, List.length_append, serRec_length]
  have : 24 ≤ r.subOff := by unfold Rec.subOff; omega
  have : r.subOff ≤ r.len := by unfold Rec.len; omega
  omega

/-- the walk over a well-formed archive lists exactly its records, in order -/
theorem walk_serRecs (fill : UInt8) (recs : List Rec) : ∀ (off fuel : Nat),
    (∀ r ∈ recs, r.WF) → off % 16 = 0 → (serRecs fill recs).length < 16 * fuel →
    ∃ segs, walk fuel (serRecs fill recs) off = .ok segs ∧ segs.map (·.file) = files off recs := by
  induction recs with
  | nil =>
    intro off fuel _ _ hf
    exact ⟨[], walk_end _ _ _ (by simp [serRecs]) (by omega), rfl⟩
  | cons r rs ih =>
    intro off fuel hw hoff hf
    have w := hw r (by simp)
    have hq : serRecs fill rs = [] ∨ 24 ≤ (serRecs fill rs).length := by
      cases rs with
      | nil => left; rfl
      | cons r' rs' => right; exact serRecs_length_ge fill r' rs'
    simp only [serRecs, List.length_append, serRec_length] at hf
    obtain ⟨s, hsf, hwalk⟩ := walk_rec fill r w (serRecs fill rs) off fuel hoff hq hf
    have hsub : 24 ≤ r.subOff := by unfold Rec.subOff; omega
    have hlen : r.len = r.subOff + r.data.length + r.gap := rfl
    have hdm := Nat.div_add_mod r.gap 16
    obtain ⟨segs, hsegs, hfiles⟩ := ih (off + r.len) (fuel - 1 - r.gap / 16)
      (fun x hx => hw x (by simp [hx])) (by have := w.aligned; omega) (by omega)
    refine ⟨s :: segs, ?_, ?_⟩
    · simp only [serRecs]
      rw [hwalk, hsegs]
    · simp [files, hsf, hfiles]


/-! ### attribute lookup on a serialized attribute list -/

theorem findAttr_succ (tag fuel : Nat) (rest : Bytes) : findAttr tag (fuel + 1) rest =
    if rest.length < 8 then none
    else
      if fromBE (slice rest 0 4) = 0 ∨ fromBE (slice rest 0 4) = 0xffffffff then none
      else if fromBE (slice rest 4 4) < 8 ∨ fromBE (slice rest 4 4) = 0xffffffff then none
      else if fromBE (slice rest 0 4) = tag then
        (if rest.length < fromBE (slice rest 4 4) then none else some (rest.take (fromBE (slice rest 4 4))))
      else findAttr tag fuel (rest.drop (fromBE (slice rest 4 4))) := rfl

theorem serAttr_length (a : Attr) : (serAttr a).length = 8 + a.body.length := by
  simp [serAttr]; omega

theorem serAttr_fields (a : Attr) (w : a.WF) (t : Bytes) :
    fromBE (slice (serAttr a ++ t) 0 4) = a.tag ∧
    fromBE (slice (serAttr a ++ t) 4 4) = 8 + a.body.length := by
  obtain ⟨_, h2, h3⟩ := w
  have e256 : (256 : Nat) ^ 4 = 2 ^ 32 := by decide
  have e : serAttr a ++ t = beN 4 a.tag ++ (beN 4 (8 + a.body.length) ++ (a.body ++ t)) := by
    simp [serAttr, List.append_assoc]
  rw [e]
  constructor
  · rw [slice_prefix _ _ 4 (by simp), fromBE_beN, e256]; exact Nat.mod_eq_of_lt (by omega)
  · have := slice_append_right' (beN 4 a.tag) (beN 4 (8 + a.body.length) ++ (a.body ++ t)) 4 0 4 (by simp)
    rw [Nat.add_zero] at this
    rw [this, slice_prefix _ _ 4 (by simp), fromBE_beN, e256]; exact Nat.mod_eq_of_lt (by omega)

theorem findAttr_serAttrs (tag : Nat) (as : List Attr) : ∀ (fuel : Nat), (∀ a ∈ as, a.WF) → as.length < fuel →
    findAttr tag fuel (serAttrs as) = (as.find? (fun a => a.tag = tag)).map serAttr := by
  induction as with
  | nil =>
    intro fuel _ hf
    cases fuel with
    | zero => omega
    | succ f => rw [findAttr_succ]; simp [serAttrs]
  | cons a as ih =>
    intro fuel hw hf
    cases fuel with
    | zero => omega
    | succ f =>
      have w := hw a (by simp)
      obtain ⟨f1, f2⟩ := serAttr_fields a w (serAttrs as)
      obtain ⟨w1, w2, w3⟩ := w
      have hl : (serAttr a ++ serAttrs as).length = 8 + a.body.length + (serAttrs as).length := by
        rw [List.length_append, serAttr_length]
      rw [findAttr_succ]
      simp only [serAttrs, f1, f2]
      rw [if_neg (by omega), if_neg (by omega), if_neg (by omega)]
      by_cases ht : a.tag = tag
      · rw [if_pos ht, if_neg (by omega)]
        simp only [List.find?, ht, decide_true, Option.map_some, Option.some.injEq]
        rw [← serAttr_length, List.take_left']
        rfl
      · rw [if_neg ht]
        simp only [List.find?, ht, decide_false]
        rw [← serAttr_length, List.drop_left']
        · exact ih f (fun x hx => hw x (by simp [hx])) (by simp at hf; omega)
        · rfl

theorem compression_zero16 (f : File) (h : f.attr = List.replicate 16 0) : compression f = compNone := by
  unfold compression findAttribute
  rw [h]
  rfl

theorem serAttrs_length_ge (as : List Attr) : as.length ≤ (serAttrs as).length := by
  induction as with
  | nil => simp
  | cons a as ih =>
    simp only [serAttrs, List.length_append, serAttr_length, List.length_cons]
    omega

theorem serAttr_comp_field (a : Attr) : slice (serAttr a) 8 4 = a.body.take 4 := by
  have e : serAttr a = (beN 4 a.tag ++ beN 4 (8 + a.body.length)) ++ a.body := by
    simp [serAttr, List.append_assoc]
  have := slice_append_right' (beN 4 a.tag ++ beN 4 (8 + a.body.length)) a.body 8 0 4 (by simp)
  rw [Nat.add_zero] at this
  rw [e, this]
  simp [slice]

/-- the compression the reader reports is the one stored in the attributes -/
theorem compression_attrs (f : File) (as : List Attr) (hw : ∀ a ∈ as, a.WF) (h : f.attr = serAttrs as) :
    compression f = compOf as := by
  unfold compression findAttribute compOf
  have hge := serAttrs_length_ge as
  rw [h, findAttr_serAttrs tagCompressed as _ hw (by omega)]
  cases hfind : as.find? (fun a => a.tag = tagCompressed) with
  | none => rfl
  | some a =>
    simp only [Option.map_some, serAttr_length, attrCompSize]
    by_cases hb : a.body.length < 8
    · rw [if_pos (by omega), if_pos hb]
    · rw [if_neg (by omega), if_neg hb, serAttr_comp_field]

theorem entryOf_fileAt (r : Rec) (w : r.WF) (off : Nat) (s : Seg) (hs : s.file = fileAt off r) :
    entryOf s = entryAt off r := by
  unfold entryOf entryAt
  rw [hs]
  simp only [fileAt, Entry.mk.injEq, true_and]
  by_cases he : isEmptyType r.type = true
  · rw [compression_zero16 _ (by simp [he]), w.emptyBare he]; rfl
  · have he' : isEmptyType r.type = false := by simpa using he
    exact compression_attrs _ r.attrs w.attrs (by simp [he'])

end Fiano.Cbfs
