/-
  Follow-up wp-c19c: the repaired reader (`newImageK`, Cbfs/Keep.lean) on a serialized well-formed
  archive: it lists exactly the records, and what it holds for EVERY record — empty space included — is
  the stored name / attribute bytes / data (`rawFiles`). The listing, the text and the JSON structure are
  those of the reference grammar, as for the reader before the repair.
  (`walkK_end` … `walkK_serRecs` are the proofs of Cbfs/Lemmas.lean, restated for `walkK`.)
-/
import FianoModel.Cbfs.KeepLemmas
import FianoModel.Cbfs.PresentLemmas

namespace Fiano.Cbfs
open Spec

/-- what the repaired reader holds for the records of an archive: the files as stored -/
def rawFiles : Nat → List Rec → List File
  | _, [] => []
  | off, r :: rs => rawFileAt off r :: rawFiles (off + r.len) rs

theorem rawFileAt_eq_fileAt (r : Rec) (off : Nat) (he : isEmptyType r.type = false) :
    rawFileAt off r = fileAt off r := by
  simp [rawFileAt, fileAt, he]

/-- the per-type reader of the repaired code accepts a well-formed record and holds it as stored -/
theorem mkSegK_raw (r : Rec) (w : r.WF) (off : Nat) :
    ∃ s, mkSegK (rawFileAt off r) = .ok s ∧ s.file = rawFileAt off r := by
  by_cases he : isEmptyType r.type = true
  · refine ⟨{ file := rawFileAt off r }, ?_, rfl⟩
    rw [mkSegK_eq, if_pos (by exact he)]
  · have he' : isEmptyType r.type = false := by simpa using he
    obtain ⟨s, hs, hf⟩ := mkSeg_raw r w off
    refine ⟨s, ?_, ?_⟩
    · rw [mkSegK_eq, if_neg (by exact he)]; exact hs
    · rw [hf, rawFileAt_eq_fileAt r off he']

theorem walkK_end (fuel : Nat) (rest : Bytes) (off : Nat) (hl : rest.length < 24) (hf : 0 < fuel) :
    walkK fuel rest off = .ok [] := by
  cases fuel with
  | zero => omega
  | succ fuel => rw [walkK_succ, if_pos hl]

theorem walkK_filler (fill : UInt8) (k : Nat) : ∀ (q : Bytes) (off fuel : Nat),
    (q = [] ∨ 24 ≤ q.length) → 16 * k + q.length < 16 * fuel →
    walkK fuel (List.replicate (16 * k) fill ++ q) off = walkK (fuel - k) q (off + 16 * k) := by
  induction k with
  | zero => intro q off fuel _ _; simp
  | succ k ih =>
    intro q off fuel hq hf
    cases fuel with
    | zero => omega
    | succ f =>
      have hlen : (List.replicate (16 * (k + 1)) fill ++ q).length = 16 * (k + 1) + q.length := by simp
      by_cases hshort : (List.replicate (16 * (k + 1)) fill ++ q).length < 24
      · -- only the last 16 fill bytes are left: both sides stop
        have hq0 : q = [] := by
          rcases hq with h | h
          · exact h
          · omega
        have hk : k = 0 := by omega
        subst hq0 hk
        rw [walkK_end _ _ _ hshort (by omega), walkK_end _ _ _ (by simp) (by omega)]
      · have htake : (List.replicate (16 * (k + 1)) fill ++ q).take 8 = List.replicate 8 fill := by
          rw [List.take_append_of_le_length (by simp <;> omega), List.take_replicate]
          congr 1 <;> omega
        have hnf := newFile_no_magic (List.replicate (16 * (k + 1)) fill ++ q) off (by omega)
          (by rw [htake]; exact replicate_ne_magic fill)
        have hdrop : (List.replicate (16 * (k + 1)) fill ++ q).drop 16 = List.replicate (16 * k) fill ++ q := by
          rw [List.drop_append_of_le_length (by simp <;> omega), List.drop_replicate]
          congr 2 <;> omega
        rw [walkK_succ, if_neg hshort, hnf]
        simp only
        rw [hdrop, ih q (off + 16) f hq (by omega)]
        congr 1 <;> omega

/-- one record of a well-formed archive: the walkK lists it and continues at the next record -/
theorem walkK_rec (fill : UInt8) (r : Rec) (w : r.WF) (q : Bytes) (off fuel : Nat)
    (hoff : off % 16 = 0) (hq : q = [] ∨ 24 ≤ q.length) (hf : r.len + q.length < 16 * fuel) :
    ∃ s, s.file = rawFileAt off r ∧
      walkK fuel (serRec fill r ++ q) off =
        match walkK (fuel - 1 - r.gap / 16) q (off + r.len) with
        | .error e => .error e
        | .ok segs => .ok (s :: segs) := by
  obtain ⟨s, hs, hfile⟩ := mkSegK_raw r w off
  refine ⟨s, hfile, ?_⟩
  have hsub : 24 ≤ r.subOff := by unfold Rec.subOff; omega
  have hlen : r.len = r.subOff + r.data.length + r.gap := rfl
  cases fuel with
  | zero => omega
  | succ f =>
    have hl : ¬ (serRec fill r ++ q).length < 24 := by
      rw [List.length_append, serRec_length]; omega
    rw [walkK_succ, if_neg hl, newFile_serRec fill r w q off]
    simp only [hs]
    have ha : align16 (off + (rawFileAt off r).subOff + (rawFileAt off r).size) =
        off + (r.subOff + r.data.length + r.gap % 16) := by
      have := align16_rec off (r.subOff + r.data.length) r.gap hoff (by rw [← hlen]; exact w.aligned)
      simp only [rawFileAt]
      rw [Nat.add_assoc off, this]; omega
    rw [ha, Nat.add_sub_cancel_left, serRec_drop]
    have hdm := Nat.div_add_mod r.gap 16
    rw [walkK_filler fill (r.gap / 16) q _ f hq (by omega)]
    have e1 : f - r.gap / 16 = f + 1 - 1 - r.gap / 16 := by omega
    have e2 : off + (r.subOff + r.data.length + r.gap % 16) + 16 * (r.gap / 16) = off + r.len := by omega
    rw [e1, e2]
    cases walkK (f + 1 - 1 - r.gap / 16) q (off + r.len) <;> rfl

/-- the walkK over a well-formed archive lists exactly its records, in order -/
theorem walkK_serRecs (fill : UInt8) (recs : List Rec) : ∀ (off fuel : Nat),
    (∀ r ∈ recs, r.WF) → off % 16 = 0 → (serRecs fill recs).length < 16 * fuel →
    ∃ segs, walkK fuel (serRecs fill recs) off = .ok segs ∧ segs.map (·.file) = rawFiles off recs := by
  induction recs with
  | nil =>
    intro off fuel _ _ hf
    exact ⟨[], walkK_end _ _ _ (by simp [serRecs]) (by omega), rfl⟩
  | cons r rs ih =>
    intro off fuel hw hoff hf
    have w := hw r (by simp)
    have hq : serRecs fill rs = [] ∨ 24 ≤ (serRecs fill rs).length := by
      cases rs with
      | nil => left; rfl
      | cons r' rs' => right; exact serRecs_length_ge fill r' rs'
    simp only [serRecs, List.length_append, serRec_length] at hf
    obtain ⟨s, hsf, hwalk⟩ := walkK_rec fill r w (serRecs fill rs) off fuel hoff hq hf
    have hsub : 24 ≤ r.subOff := by unfold Rec.subOff; omega
    have hlen : r.len = r.subOff + r.data.length + r.gap := rfl
    have hdm := Nat.div_add_mod r.gap 16
    obtain ⟨segs, hsegs, hfiles⟩ := ih (off + r.len) (fuel - 1 - r.gap / 16)
      (fun x hx => hw x (by simp [hx])) (by have := w.aligned; omega) (by omega)
    refine ⟨s :: segs, ?_, ?_⟩
    · simp only [serRecs]
      rw [hwalk, hsegs]
    · simp [rawFiles, hsf, hfiles]
/-- what `newImageK` returns on a well-formed archive -/
theorem newImageK_ser (a : Archive) (w : a.WF) :
    ∃ i, newImageK (ser a) = .ok i ∧ i.segs.map (·.file) = rawFiles 0 a.recs ∧
      i.areaOff = a.pre.length ∧ i.areaSize = (serRecs a.fill a.recs).length ∧ i.data = ser a := by
  obtain ⟨fm, s, ar, hread, hfind, ho, hs⟩ := w.fmap
  obtain ⟨segs, hwalk, hfiles⟩ := walkK_serRecs a.fill a.recs 0 ((serRecs a.fill a.recs).length / 16 + 1)
    w.recs (by omega) (by omega)
  refine ⟨{ areaOff := ar.offset, areaSize := ar.size, segs := segs, data := ser a }, ?_, hfiles, ho, hs, rfl⟩
  unfold newImageK
  rw [hread]
  simp only [hfind]
  rw [areaBytes_ser a ar ho hs, hwalk]

/-! ### listing / text / JSON of the stored files = those of the represented files -/

theorem compression_rawFileAt (r : Rec) (w : r.WF) (off : Nat) : compression (rawFileAt off r) = compOf r.attrs :=
  compression_attrs _ r.attrs w.attrs rfl

theorem segString_rawFileAt (r : Rec) (w : r.WF) (off : Nat) :
    segString (rawFileAt off r) = segString (fileAt off r) := by
  by_cases he : isEmptyType r.type = true
  · unfold segString
    simp only [show (rawFileAt off r).type = r.type from rfl, show (fileAt off r).type = r.type from rfl, he,
      ↓reduceIte]
    rfl
  · have he' : isEmptyType r.type = false := by simpa using he
    rw [rawFileAt_eq_fileAt r off he']

theorem jrecOf_rawFileAt (r : Rec) (w : r.WF) (off : Nat) : jrecOf (rawFileAt off r) = jrecOf (fileAt off r) := by
  by_cases he : isEmptyType r.type = true
  · have hs : r.type ≠ typeSELF := by
      intro h; rw [h] at he; exact absurd he (by decide)
    unfold jrecOf
    rw [compression_rawFileAt r w off, compression_fileAt r w off]
    simp only [show (rawFileAt off r).type = r.type from rfl, show (fileAt off r).type = r.type from rfl, hs,
      ↓reduceIte]
    rfl
  · have he' : isEmptyType r.type = false := by simpa using he
    rw [rawFileAt_eq_fileAt r off he']

theorem textLines_rawFiles : ∀ (recs : List Rec) (off : Nat), (∀ r ∈ recs, r.WF) →
    textLines (rawFiles off recs) = textLines (files off recs) := by
  intro recs
  induction recs with
  | nil => intro _ _; rfl
  | cons r rs ih =>
    intro off hw
    simp only [rawFiles, files, textLines]
    rw [segString_rawFileAt r (hw r (by simp)) off, ih (off + r.len) (fun x hx => hw x (by simp [hx]))]

theorem json_rawFiles : ∀ (recs : List Rec) (off : Nat), (∀ r ∈ recs, r.WF) →
    (rawFiles off recs).map jrecOf = (files off recs).map jrecOf := by
  intro recs
  induction recs with
  | nil => intro _ _; rfl
  | cons r rs ih =>
    intro off hw
    simp only [rawFiles, files, List.map_cons]
    rw [jrecOf_rawFileAt r (hw r (by simp)) off, ih (off + r.len) (fun x hx => hw x (by simp [hx]))]

theorem entries_of_rawFiles : ∀ (recs : List Rec) (segs : List Seg) (off : Nat), (∀ r ∈ recs, r.WF) →
    segs.map (·.file) = rawFiles off recs → segs.map entryOf = entries off recs := by
  intro recs
  induction recs with
  | nil =>
    intro segs off _ h
    simp only [rawFiles, List.map_eq_nil_iff] at h
    subst h; rfl
  | cons r rs ih =>
    intro segs off hw h
    cases segs with
    | nil => simp [rawFiles] at h
    | cons s ss =>
      simp only [rawFiles, List.map_cons, List.cons.injEq] at h
      simp only [List.map_cons, entries]
      rw [ih ss (off + r.len) (fun x hx => hw x (by simp [hx])) h.2]
      congr 1
      unfold entryOf entryAt
      rw [h.1, compression_rawFileAt r (hw r (by simp)) off]
      rfl

theorem rawFiles_get : ∀ (recs : List Rec) (off k : Nat) (r : Rec), recs[k]? = some r →
    ∃ o, (rawFiles off recs)[k]? = some (rawFileAt o r) := by
  intro recs
  induction recs with
  | nil => intro off k r h; simp at h
  | cons x xs ih =>
    intro off k r h
    cases k with
    | zero =>
      simp only [List.getElem?_cons_zero, Option.some.injEq] at h
      subst h
      exact ⟨off, by simp [rawFiles]⟩
    | succ k =>
      simp only [List.getElem?_cons_succ] at h
      obtain ⟨o, ho⟩ := ih (off + x.len) k r h
      exact ⟨o, by simp [rawFiles, ho]⟩

/-! ### the two readers accept the same images and differ only in what they hold for empty space -/

theorem reprSeg_of_not_empty (s : Seg) (h : isEmptyType s.file.type = false) : reprSeg s = s := by
  unfold reprSeg
  rw [h]; rfl

/-- the reader before the repair = the repaired reader followed by the representation of empty space -/
theorem walk_eq_walkK : ∀ (fuel : Nat) (rest : Bytes) (off : Nat),
    walk fuel rest off = (walkK fuel rest off).map (List.map reprSeg) := by
  intro fuel
  induction fuel with
  | zero => intro rest off; rfl
  | succ fuel ih =>
    intro rest off
    rw [walk_succ, walkK_succ]
    by_cases hl : rest.length < 24
    · rw [if_pos hl, if_pos hl]; rfl
    · rw [if_neg hl, if_neg hl]
      cases hn : newFile rest off with
      | error e =>
        cases e <;> simp only [] <;> first | rfl | exact ih _ _
      | ok f =>
        simp only []
        by_cases he : isEmptyType f.type = true
        · rw [mkSegK_eq, if_pos he, mkSeg_eq, if_pos he]
          simp only []
          rw [ih]
          cases walkK fuel (rest.drop (align16 (off + f.subOff + f.size) - off)) (align16 (off + f.subOff + f.size)) with
          | error e => rfl
          | ok segs =>
            simp only [Except.map, List.map_cons]
            have : reprSeg { file := f } = readEmpty f := by
              unfold reprSeg; rw [if_pos (by exact he)]
            rw [this]
        · rw [mkSegK_eq, if_neg he]
          cases hm : mkSeg f with
          | error e => rfl
          | ok s =>
            simp only []
            rw [ih]
            have hty : s.file.type = f.type := (mkSeg_inv f s hm).2.1
            have hr : reprSeg s = s := reprSeg_of_not_empty s (by rw [hty]; simpa using he)
            cases walkK fuel (rest.drop (align16 (off + f.subOff + f.size) - off)) (align16 (off + f.subOff + f.size)) with
            | error e => rfl
            | ok segs =>
              simp only [Except.map, List.map_cons, hr]

theorem newImage_eq_newImageK (img : Bytes) : newImage img = (newImageK img).map reprImage := by
  unfold newImage newImageK
  cases Fmap.read img with
  | error e => rfl
  | ok p =>
    obtain ⟨fm, st⟩ := p
    simp only []
    cases fm.areas.find? isCoreboot with
    | none => rfl
    | some a =>
      simp only []
      rw [walk_eq_walkK]
      cases walkK ((areaBytes img a).length / 16 + 1) (areaBytes img a) 0 with
      | error e => rfl
      | ok segs => rfl

end Fiano.Cbfs
