/-
  Model of pkg/fmap/fmap.go (Read, Write, ReadArea, WriteArea, Checksum).
  Hand-written; tied to the Go code by
   * T1: `FianoModel.Gen.Fmap` (signature, flag constants, struct layouts regenerated
         from the source; see `Fmap/Tie.lean`)
   * T2: the correspondence harness (harness/c13.go) driving `Driver/C13.lean`.
-/
import FianoModel.Base.Bytes

namespace Fiano.Fmap

structure Header where
  sig      : Bytes      -- 8 bytes
  verMajor : Nat        -- uint8
  verMinor : Nat        -- uint8
  base     : Nat        -- uint64
  size     : Nat        -- uint32
  name     : Bytes      -- 32 bytes
  nAreas   : Nat        -- uint16
  deriving Repr, DecidableEq, Inhabited

structure Area where
  offset : Nat          -- uint32
  size   : Nat          -- uint32
  name   : Bytes        -- 32 bytes
  flags  : Nat          -- uint16
  deriving Repr, DecidableEq, Inhabited

structure FMap where
  hdr   : Header
  areas : List Area
  deriving Repr, DecidableEq, Inhabited

inductive Err where
  | eof | sigNotFound | multipleFound | range | tooLarge | io
  deriving Repr, DecidableEq, Inhabited

def signature : Bytes := [0x5f, 0x5f, 0x46, 0x4d, 0x41, 0x50, 0x5f, 0x5f]  -- "__FMAP__"
def headerSize : Nat := 56
def areaSize : Nat := 42
def flagStatic : Nat := 1

/-! ### binary codecs (encoding/binary, little endian, packed) -/

def encodeHeader (h : Header) : Bytes :=
  h.sig ++ [UInt8.ofNat h.verMajor, UInt8.ofNat h.verMinor] ++ leN 8 h.base ++ leN 4 h.size
    ++ h.name ++ leN 2 h.nAreas

def decodeHeader (b : Bytes) : Header :=
  { sig := slice b 0 8
    verMajor := (b.getD 8 0).toNat
    verMinor := (b.getD 9 0).toNat
    base := fromLE (slice b 10 8)
    size := fromLE (slice b 18 4)
    name := slice b 22 32
    nAreas := fromLE (slice b 54 2) }

def encodeArea (a : Area) : Bytes :=
  leN 4 a.offset ++ leN 4 a.size ++ a.name ++ leN 2 a.flags

def decodeArea (b : Bytes) : Area :=
  { offset := fromLE (slice b 0 4)
    size := fromLE (slice b 4 4)
    name := slice b 8 32
    flags := fromLE (slice b 40 2) }

def encodeAreas (as : List Area) : Bytes := as.flatMap encodeArea

def decodeAreas : Nat → Bytes → List Area
  | 0, _ => []
  | n+1, b => decodeArea (b.take areaSize) :: decodeAreas n (b.drop areaSize)

def encode (f : FMap) : Bytes := encodeHeader f.hdr ++ encodeAreas f.areas

/-- values representable in the Go struct -/
structure Header.WT (h : Header) : Prop where
  sig : h.sig.length = 8
  vM : h.verMajor < 256
  vm : h.verMinor < 256
  base : h.base < 256 ^ 8
  size : h.size < 256 ^ 4
  name : h.name.length = 32
  nAreas : h.nAreas < 256 ^ 2

structure Area.WT (a : Area) : Prop where
  offset : a.offset < 256 ^ 4
  size : a.size < 256 ^ 4
  name : a.name.length = 32
  flags : a.flags < 256 ^ 2

structure FMap.WT (f : FMap) : Prop where
  hdr : f.hdr.WT
  areas : ∀ a ∈ f.areas, a.WT

/-! ### Read -/

/-- `headerValid` in fmap.go -/
def headerValid (h : Header) : Bool :=
  h.verMajor == 1 && h.size != 0 && h.name.contains 0

/-- `bytes.Index(data[start:], Signature)`, as an absolute position. `fuel` bounds the scan. -/
def indexFrom (data : Bytes) : Nat → Nat → Option Nat
  | 0, _ => none
  | fuel+1, start =>
    if start + 8 > data.length then none
    else if slice data start 8 = signature then some start
    else indexFrom data fuel (start + 1)

/-- accumulator of the Read loop: number of valid maps and the last one found -/
structure Acc where
  valid : Nat
  last  : Option (FMap × Nat)
  deriving Repr, DecidableEq, Inhabited

/-- one candidate position of the Read loop (`start` = position of a signature).
    NOTE (C20): since fixes/C20-fmap-read-quadratic.diff the Go loop returns `errMultipleFound` as
    soon as the *second* header-valid candidate is seen, before parsing its areas.  This functional
    model keeps visiting (and can therefore report `.eof` where Go now reports "multiple"); the two
    agree on ok-vs-error, which is all C13 compares.  The Go control flow is modelled in
    `Fmap/Total.lean` (`visitG`, `readLoopG`). -/
def visit (data : Bytes) (acc : Acc) (start : Nat) : Except Err Acc :=
  if start + headerSize > data.length then .error .eof
  else
    let h := decodeHeader (slice data start headerSize)
    if !headerValid h then .ok acc
    else if start + headerSize + areaSize * h.nAreas > data.length then .error .eof
    else
      let as := decodeAreas h.nAreas (slice data (start + headerSize) (areaSize * h.nAreas))
      .ok { valid := acc.valid + 1, last := some ({ hdr := h, areas := as }, start) }

/-- positions visited by the loop of `Read`: the next signature at or after `start`, then
    `start := p + 8` (so occurrences overlapping a visited one are skipped, as in Go).
    Each iteration moves `start` forward, so `fuel = |data| + 1` is never exhausted. -/
def hitsFrom (data : Bytes) : Nat → Nat → List Nat
  | 0, _ => []
  | fuel+1, start =>
    if start ≥ data.length then []
    else match indexFrom data (data.length + 1) start with
      | none => []
      | some p => p :: hitsFrom data fuel (p + 8)

def hits (data : Bytes) : List Nat := hitsFrom data (data.length + 1) 0

/-- the loop body applied to the visited positions in order; the first error aborts (Go `return`) -/
def foldVisit (data : Bytes) : List Nat → Acc → Except Err Acc
  | [], acc => .ok acc
  | p :: ps, acc =>
    match visit data acc p with
    | .error e => .error e
    | .ok acc' => foldVisit data ps acc'

def finish (acc : Acc) : Except Err (FMap × Nat) :=
  if acc.valid ≥ 2 then .error .multipleFound
  else match acc.valid, acc.last with
    | 1, some r => .ok r
    | _, _ => .error .sigNotFound

def read (data : Bytes) : Except Err (FMap × Nat) :=
  match foldVisit data (hits data) { valid := 0, last := none } with
  | .error e => .error e
  | .ok acc => finish acc

/-! ### Write (Seek + two binary.Write on an in-memory buffer that cannot grow) -/

/-- `Write` onto a fixed-size buffer: fails (io error) when the map does not fit. -/
def write (img : Bytes) (f : FMap) (start : Nat) : Except Err Bytes :=
  let e := encode f
  if start + e.length > img.length then .error .io else .ok (splice img start e)

/-! ### areas -/

/-- `ReadArea` (as repaired by fixes/C20-fmap-readarea-alloc.diff): `io.ReadAll` over the section
    `[Offset, Offset+Size)` of the reader — the bytes that are there, plus an error flag when they
    are fewer than `Size` (Go returns both the partial buffer and io.ErrUnexpectedEOF). -/
def readArea (f : FMap) (img : Bytes) (i : Int) : Except Err (Bytes × Bool) :=
  if i < 0 || (f.hdr.nAreas : Int) ≤ i then .error .range
  else match f.areas[i.toNat]? with
    | none => .error .range   -- Go would panic: NAreas > len(Areas); excluded by Read's results
    | some a =>
      let got := slice img a.offset a.size
      .ok (got, decide (got.length < a.size))

def writeArea (f : FMap) (img : Bytes) (i : Int) (data : Bytes) : Except Err Bytes :=
  if i < 0 || (f.hdr.nAreas : Int) ≤ i then .error .range
  else match f.areas[i.toNat]? with
    | none => .error .range
    | some a =>
      if data.length % 256 ^ 4 > a.size then .error .tooLarge
      else if a.offset + data.length > img.length then .error .io
      else .ok (splice img a.offset data)

/-- `Checksum`: feeds every static area, in table order, to the hash. The hash is a
    parameter: `h` maps the concatenation of everything written to the digest. -/
def checksumLoop (f : FMap) (img : Bytes) : Nat → List Area → Bytes → Except Err Bytes
  | _, [], acc => .ok acc
  | k, a :: rest, acc =>
    if a.flags % 2 = 0 then checksumLoop f img (k + 1) rest acc
    else match readArea f img k with
      | .error e => .error e
      | .ok (buf, short) => if short then .error .io else checksumLoop f img (k + 1) rest (acc ++ buf)

def checksum (f : FMap) (img : Bytes) (h : Bytes → Bytes) : Except Err Bytes :=
  match checksumLoop f img 0 f.areas [] with
  | .error e => .error e
  | .ok written => .ok (h written)

end Fiano.Fmap
