/-
  T1 tie for pkg/fmap: the model's constants, packed layouts and byte order are compared with
  the facts regenerated from the Go source (FianoModel/Gen/Fmap.lean) on every build.
-/
import FianoModel.Fmap.Model
import FianoModel.Gen.Fmap

namespace Fiano.Fmap
open Fiano.Gen.Fmap

theorem tie_signature : signature = Gen.Fmap.Signature.map UInt8.ofNat := by decide
theorem tie_flagStatic : flagStatic = FmapAreaStatic := by decide
theorem tie_headerSize : headerSize = size_Header := by decide
theorem tie_areaSize : areaSize = size_Area := by decide

/-- field order and widths used by `encodeHeader` / `decodeHeader` -/
theorem tie_layout_Header : layout_Header =
    [("Signature", 8), ("VerMajor", 1), ("VerMinor", 1), ("Base", 8), ("Size", 4), ("Name", 32),
     ("NAreas", 2)] := by decide

/-- field order and widths used by `encodeArea` / `decodeArea` -/
theorem tie_layout_Area : layout_Area = [("Offset", 4), ("Size", 4), ("Name", 32), ("Flags", 2)] := by
  decide

/-- both directions use little endian, and Write emits the header then the areas -/
theorem tie_byteorder_read : calls_readField_binary_Read = ["binary.Read(r, binary.LittleEndian, data)"] := by
  decide
theorem tie_byteorder_write : calls_Write_binary_Write =
    ["binary.Write(f, binary.LittleEndian, fmap.Header)",
     "binary.Write(f, binary.LittleEndian, fmap.Areas)"] := by decide

end Fiano.Fmap
