/-
  The GoM reader of `Fmap/Total.lean` (Go's control flow *with* the early `errMultipleFound`
  of fixes/C20-fmap-read-quadratic.diff) computes the same function as the functional model
  `Fmap.read` of C13 (which keeps visiting every candidate): the same map and position whenever
  either succeeds, an error whenever the other reports one.  Error *kinds* may differ — after
  the second valid header Go says "multiple", the functional model may still run into a
  truncated later candidate and say "eof" — and are not compared anywhere.
-/
import FianoModel.Fmap.Total

namespace Fiano.Fmap
open GoM

/-- the functional fold cannot end in a successful `finish` any more -/
def Bad (r : Except Err Acc) : Prop :=
  match r with
  | .ok a => a.valid ≥ 2
  | .error _ => True

theorem visit_valid_mono (data : Bytes) (acc acc' : Acc) (p : Nat) (h : visit data acc p = .ok acc') :
    acc.valid ≤ acc'.valid := by
  unfold visit at h
  split at h
  · cases h
  · simp only at h
    split at h
    · injection h with h; subst h; exact Nat.le_refl _
    · split at h
      · cases h
      · injection h with h; subst h; simp

theorem fold_valid_mono (data : Bytes) (ps : List Nat) (acc acc' : Acc) (h : foldVisit data ps acc = .ok acc') :
    acc.valid ≤ acc'.valid := by
  induction ps generalizing acc with
  | nil => simp only [foldVisit] at h; injection h with h; subst h; exact Nat.le_refl _
  | cons p ps ih =>
    simp only [foldVisit] at h
    split at h
    · cases h
    · rename_i a1 hv
      exact Nat.le_trans (visit_valid_mono data acc a1 p hv) (ih a1 h)

theorem bad_of_valid (data : Bytes) (ps : List Nat) (acc : Acc) (h : acc.valid ≥ 2) : Bad (foldVisit data ps acc) := by
  unfold Bad
  cases hf : foldVisit data ps acc with
  | error e => trivial
  | ok a => exact Nat.le_trans h (fold_valid_mono data ps acc a hf)

theorem drop_drop' (data : Bytes) (a b : Nat) : List.drop a (List.drop b data) = List.drop (b + a) data := by
  rw [List.drop_drop]

/-- one candidate: the GoM body agrees with `visit`, or stops early exactly when `visit` makes the fold `Bad` -/
theorem visitG_refines (B a0 : Nat) (data : Bytes) (acc : Acc) (p : Nat) (m : Meter) (hp : p ≤ data.length)
    (hB : a0 + readK ≤ B) (hi : Inv a0 acc m) :
    SafePE (visitG B data acc p) m
      (fun acc' m' => visit data acc p = .ok acc' ∧ Inv a0 acc' m')
      (Bad (visit data acc p)) := by
  have hlen : (List.drop p data).length = data.length - p := by simp
  unfold visitG
  apply SafePE.bind; apply SafePE.sliceFrom hp
  apply SafePE.bind; apply SafePE.binaryRead
  · intro h56
    simp only [headerSize] at h56
    have hfit : ¬ (p + headerSize > data.length) := by simp only [headerSize]; omega
    have hslice : List.take headerSize (List.drop p data) = slice data p headerSize := rfl
    simp only
    rw [hslice]
    apply SafePE.cond
    · intro hinv
      apply SafePE.pure
      refine ⟨?_, hi⟩
      unfold visit
      rw [if_neg hfit]
      simp only [hinv, if_true]
    · intro hval
      have hval' : (!headerValid (decodeHeader (slice data p headerSize))) = false := hval
      apply SafePE.ite
      · intro hge
        apply SafePE.err
        -- early return: the functional model goes on with valid + 1 ≥ 2, or fails
        unfold Bad visit
        rw [if_neg hfit]
        simp only [hval', Bool.false_eq_true, if_false]
        by_cases hc : p + headerSize + areaSize * (decodeHeader (slice data p headerSize)).nAreas > data.length
        · rw [if_pos hc]; trivial
        · rw [if_neg hc]; simp only; omega
      · intro hlt
        have hv0 : acc.valid = 0 := by omega
        have hn := nAreas_le (slice data p headerSize)
        have h2 : (decodeHeader (slice data p headerSize)).nAreas * areaMem ≤ 65535 * areaMem :=
          Nat.mul_le_mul_right _ hn
        have hm0 := hi.1 hv0
        apply SafePE.bind; apply SafePE.alloc
        · simp only [readK] at hB; omega
        apply SafePE.bind; apply SafePE.binaryRead
        · intro hrest
          have hrest' : ¬ (p + headerSize + areaSize * (decodeHeader (slice data p headerSize)).nAreas > data.length) := by
            simp only [List.length_drop, headerSize] at hrest
            simp only [headerSize]; omega
          apply SafePE.pure
          refine ⟨?_, fun h0 => by simp at h0, by simp only [readK]; omega, ?_⟩
          · unfold visit
            rw [if_neg hfit]
            simp only [hval', Bool.false_eq_true, if_false]
            rw [if_neg hrest']
            have : List.take (areaSize * (decodeHeader (slice data p headerSize)).nAreas)
                (List.drop headerSize (List.drop p data)) =
                slice data (p + headerSize) (areaSize * (decodeHeader (slice data p headerSize)).nAreas) := by
              simp only [slice, List.drop_drop]
            rw [this]
          · intro fm s h
            injection h with h; injection h with h1 _; subst h1
            exact ⟨by simp [decodeAreas_length], hn⟩
        · intro hshort
          unfold Bad visit
          rw [if_neg hfit]
          simp only [hval', Bool.false_eq_true, if_false]
          have : p + headerSize + areaSize * (decodeHeader (slice data p headerSize)).nAreas > data.length := by
            simp only [List.length_drop, headerSize] at hshort
            simp only [headerSize]; omega
          rw [if_pos this]
          trivial
  · intro hshort
    unfold Bad visit
    have : p + headerSize > data.length := by simp only [headerSize] at *; omega
    rw [if_pos this]
    trivial

/-- the loop: same accumulator as the fold over the visited positions, or an early stop on a `Bad` fold -/
theorem readLoopG_refines (B a0 : Nat) (data : Bytes) (fuel start : Nat) (acc : Acc) (m : Meter)
    (hs0 : start ≤ data.length) (hf : data.length < start + fuel) (hB : a0 + readK ≤ B) (hi : Inv a0 acc m) :
    SafePE (readLoopG B data fuel start acc) m
      (fun acc' _ => foldVisit data (hitsFrom data fuel start) acc = .ok acc')
      (Bad (foldVisit data (hitsFrom data fuel start) acc)) := by
  induction fuel generalizing start acc m with
  | zero => omega
  | succ fuel ih =>
    unfold readLoopG hitsFrom
    apply SafePE.ite
    · intro hge
      rw [if_pos hge]
      exact SafePE.pure rfl
    · intro hs
      rw [if_neg hs]
      apply SafePE.bind; apply SafePE.sliceFrom (by omega)
      have harg : data.length - (List.drop start data).length = start := by simp; omega
      rw [harg]
      cases hp : indexFrom data (data.length + 1) start with
      | none => exact SafePE.pure rfl
      | some p =>
        simp only
        have hp' := indexFrom_some data _ _ p hp
        apply SafePE.bind
        apply SafePE.mono (visitG_refines B a0 data acc p m (by omega) hB hi)
        · intro acc1 m1 ⟨hv, hi1⟩
          have := ih (p + 8) acc1 m1 (by omega) (by omega) hi1
          simp only [foldVisit, hv]
          exact this
        · intro hbad
          simp only [foldVisit]
          cases hv : visit data acc p with
          | error e => trivial
          | ok a1 =>
            rw [hv] at hbad
            exact bad_of_valid data _ a1 hbad

/-- **`Fmap.readG` refines `Fmap.read`**: for every byte string, the Go control flow with the
    early return yields exactly the map and position the functional model (all of C13's theorems)
    yields, and an error whenever that one reports an error. -/
theorem readG_refines (B : Nat) (data : Bytes) (m : Meter) (hB : m.alloc + readK ≤ B) :
    SafePE (readG B data) m (fun r _ => read data = .ok r) (∃ e, read data = .error e) := by
  unfold readG
  apply SafePE.bind
  apply SafePE.mono (readLoopG_refines B m.alloc data _ 0 _ m (by omega) (by omega) hB
    ⟨fun _ => rfl, by omega, by intro fm s h; simp at h⟩)
  · intro acc m' hfold
    have hread : read data = finish acc := by
      unfold read hits
      rw [hfold]
    cases hfin : finish acc with
    | error e => exact SafePE.err ⟨e, by rw [hread, hfin]⟩
    | ok r => exact SafePE.pure (by rw [hread, hfin])
  · intro hbad
    unfold read hits
    cases hfv : foldVisit data (hitsFrom data (data.length + 1) 0) { valid := 0, last := none } with
    | error e => exact ⟨e, rfl⟩
    | ok a =>
      rw [hfv] at hbad
      have : a.valid ≥ 2 := hbad
      exact ⟨.multipleFound, by simp [finish, this]⟩

end Fiano.Fmap
