/-
  pkg/fmap written against Go's slicing / allocation semantics (GoM): every `data[start:]`,
  `make`, index and `io.ReadAll` of `Read`, `ReadArea`, `WriteArea`, `Write` appears as a faulting
  primitive, so "never panics, never spins, never allocates beyond the budget" is a statement
  about where the guards are.

  The model follows the code **as repaired** by fixes/C20-fmap-read-quadratic.diff and
  fixes/C20-fmap-readarea-alloc.diff:
   * `Read` returns `errMultipleFound` as soon as the second header-valid signature is seen,
     *before* `make([]Area, NAreas)` (the unrepaired code allocated and parsed the area table of
     every candidate: quadratic time and cumulative allocation);
   * `ReadArea` reads through a bounded section (`io.ReadAll(io.NewSectionReader …)`) instead of
     `make([]byte, Areas[i].Size)`.
  The functional model `Fmap.read` (Model.lean, used by C13) keeps the old control flow; both
  agree on ok-vs-error, which is all that C13 compares (`readOldG_alloc_witness` below shows where
  they differ: the meter).
-/
import FianoModel.Total.Hoare
import FianoModel.Fmap.ReadLemmas

namespace Fiano.Fmap
open GoM

/-- `unsafe.Sizeof(Area{})`: 4 + 4 + 32 + 2, padded to the 4-byte alignment -/
def areaMem : Nat := 44

/-- the one allocation `Read` may make: `make([]Area, NAreas)` with `NAreas : uint16` -/
def readK : Nat := 65535 * areaMem

/-- loop body at a signature position `p`:  r := bytes.NewReader(data[p:]); two readField calls -/
def visitG (B : Nat) (data : Bytes) (acc : Acc) (p : Nat) : GoM Acc := do
  let tail ← sliceFromG "Read: data[start:] (reader)" data p
  let (hb, rest) ← binaryReadG tail headerSize
  let h := decodeHeader hb
  if !headerValid h then pure acc
  else if acc.valid + 1 ≥ 2 then err                  -- repaired: errMultipleFound, before the make
  else do
    allocB "Read: make([]Area, fmap.NAreas)" B h.nAreas areaMem
    let (ab, _) ← binaryReadG rest (areaSize * h.nAreas)
    pure { valid := acc.valid + 1, last := some ({ hdr := h, areas := decodeAreas h.nAreas ab }, p) }

/-- the `for` loop of Read with Go's own control flow -/
def readLoopG (B : Nat) (data : Bytes) : Nat → Nat → Acc → GoM Acc
  | 0, _, _ => outOfFuel
  | fuel+1, start, acc =>
    if start ≥ data.length then pure acc
    else do
      let tail ← sliceFromG "Read: data[start:] (Index)" data start
      -- bytes.Index(tail, Signature), as an absolute position
      match indexFrom data (data.length + 1) (data.length - tail.length) with
      | none => pure acc
      | some p => do
        let acc' ← visitG B data acc p
        readLoopG B data fuel (p + 8) acc'

def readG (B : Nat) (data : Bytes) : GoM (FMap × Nat) := do
  let acc ← readLoopG B data (data.length + 1) 0 { valid := 0, last := none }
  match finish acc with
  | .ok r => pure r
  | .error _ => err

/-- `ReadArea` (repaired): `io.ReadAll` over the section `[Offset, Offset+Size)` of the reader —
    the buffer grows with the bytes that are really there. -/
def readAreaG (B : Nat) (f : FMap) (img : Bytes) (i : Int) : GoM Bytes := do
  if i < 0 || (f.hdr.nAreas : Int) ≤ i then err
  else
    match f.areas[i.toNat]? with
    | none => goPanic "ReadArea: f.Areas[i]"
    | some a => do
      let got := slice img a.offset a.size
      allocB "ReadArea: io.ReadAll(section)" B got.length 1
      if got.length < a.size then err else pure got

/-- the unrepaired `ReadArea`: `make([]byte, f.Areas[i].Size)` before the read -/
def readAreaOldG (B : Nat) (f : FMap) (img : Bytes) (i : Int) : GoM Bytes := do
  if i < 0 || (f.hdr.nAreas : Int) ≤ i then err
  else
    match f.areas[i.toNat]? with
    | none => goPanic "ReadArea: f.Areas[i]"
    | some a => do
      allocB "ReadArea: make([]byte, f.Areas[i].Size)" B a.size 1
      let got := slice img a.offset a.size
      pure (got ++ List.replicate (a.size - got.length) 0)

/-- `WriteArea` onto a fixed-size image (an `io.WriterAt` that cannot grow) -/
def writeAreaG (f : FMap) (img : Bytes) (i : Int) (data : Bytes) : GoM Bytes := do
  if i < 0 || (f.hdr.nAreas : Int) ≤ i then err
  else
    match f.areas[i.toNat]? with
    | none => goPanic "WriteArea: f.Areas[i]"
    | some a =>
      if data.length % 256 ^ 4 > a.size then err
      else if a.offset + data.length > img.length then err
      else pure (splice img a.offset data)

/-- `Write`: Seek, then two `binary.Write` (each encodes into a fresh buffer first) -/
def writeG (B : Nat) (img : Bytes) (f : FMap) (start : Nat) : GoM Bytes := do
  allocB "Write: binary.Write(Header)" B headerSize 1
  allocB "Write: binary.Write(Areas)" B f.areas.length areaSize
  let e := encode f
  if start + e.length > img.length then err else pure (splice img start e)

/-! ### Read: never panics, never out of fuel, allocates at most `readK` -/

/-- loop invariant (`a0` = meter at entry): as long as no valid header was seen nothing was
    allocated; afterwards at most `readK`; a recorded map has as many areas as its header says -/
def Inv (a0 : Nat) (acc : Acc) (m : Meter) : Prop :=
  (acc.valid = 0 → m.alloc = a0) ∧ m.alloc ≤ a0 + readK ∧
  (∀ fm s, acc.last = some (fm, s) → fm.areas.length = fm.hdr.nAreas ∧ fm.hdr.nAreas ≤ 65535)

theorem nAreas_le (b : Bytes) : (decodeHeader b).nAreas ≤ 65535 := by
  have := fieldLE2_lt b 54
  simp only [decodeHeader, fieldLE] at *
  omega

theorem visitG_spec (B a0 : Nat) (data : Bytes) (acc : Acc) (p : Nat) (m : Meter) (hp : p ≤ data.length)
    (hB : a0 + readK ≤ B) (hi : Inv a0 acc m) :
    SafeP (visitG B data acc p) m (fun acc' m' => Inv a0 acc' m') := by
  unfold visitG
  apply SafeP.bind; apply SafeP.sliceFrom hp
  apply SafeP.bind; apply SafeP.binaryRead; intro _
  simp only
  apply SafeP.cond
  · intro _; exact SafeP.pure hi
  · intro _
    apply SafeP.ite
    · intro _; exact SafeP.err
    · intro hv
      have hv0 : acc.valid = 0 := by omega
      have hn := nAreas_le (List.take headerSize (List.drop p data))
      have h2 : (decodeHeader (List.take headerSize (List.drop p data))).nAreas * areaMem ≤ 65535 * areaMem :=
        Nat.mul_le_mul_right _ hn
      have hm0 := hi.1 hv0
      apply SafeP.bind; apply SafeP.alloc
      · simp only [readK] at hB; omega
      apply SafeP.bind; apply SafeP.binaryRead; intro _
      apply SafeP.pure
      refine ⟨fun h0 => by simp at h0, ?_, ?_⟩
      · simp only [readK]; omega
      · intro fm s h
        injection h with h; injection h with h1 _; subst h1
        exact ⟨by simp [decodeAreas_length], hn⟩

/-- the visited position moves forward, so `|data| + 1 - start` iterations suffice -/
theorem readLoopG_spec (B a0 : Nat) (data : Bytes) (fuel start : Nat) (acc : Acc) (m : Meter)
    (hs0 : start ≤ data.length) (hf : data.length < start + fuel) (hB : a0 + readK ≤ B) (hi : Inv a0 acc m) :
    SafeP (readLoopG B data fuel start acc) m (fun acc' m' => Inv a0 acc' m') := by
  induction fuel generalizing start acc m with
  | zero => omega
  | succ fuel ih =>
    unfold readLoopG
    apply SafeP.ite
    · intro _; exact SafeP.pure hi
    · intro hs
      apply SafeP.bind; apply SafeP.sliceFrom (by omega)
      cases hp : indexFrom data (data.length + 1) (data.length - (List.drop start data).length) with
      | none => exact SafeP.pure hi
      | some p =>
        simp only
        have hp' := indexFrom_some data _ _ p hp
        have htl : (List.drop start data).length = data.length - start := by simp
        apply SafeP.bind
        apply SafeP.mono (visitG_spec B a0 data acc p m (by omega) hB hi)
        intro acc' m' hi'
        exact ih (p + 8) acc' m' (by omega) (by omega) hi'

/-- `Read`, every byte string: a map whose area table has the announced length, or an error;
    never a panic, never out of fuel; cumulative allocation ≤ `readK`, inside any budget that
    leaves room for it. -/
theorem readG_spec (B : Nat) (data : Bytes) (m : Meter) (hB : m.alloc + readK ≤ B) :
    SafeP (readG B data) m (fun r m' => r.1.areas.length = r.1.hdr.nAreas ∧ r.1.hdr.nAreas ≤ 65535 ∧
      m'.alloc ≤ m.alloc + readK) := by
  unfold readG
  apply SafeP.bind
  apply SafeP.mono (readLoopG_spec B m.alloc data _ 0 _ m (by omega) (by omega) hB
    ⟨fun _ => rfl, by omega, by intro fm s h; simp at h⟩)
  intro acc m' hi
  cases hf : finish acc with
  | error e => exact SafeP.err
  | ok r =>
    apply SafeP.pure
    unfold finish at hf
    split at hf
    · cases hf
    · split at hf
      · rename_i r' _ hl
        injection hf with hf; subst hf
        have := hi.2.2 r'.1 r'.2 (by simpa using hl)
        exact ⟨this.1, this.2, hi.2.1⟩
      · cases hf

/-! ### areas -/

theorem readAreaG_spec (B : Nat) (f : FMap) (img : Bytes) (i : Int) (m : Meter)
    (hn : f.areas.length = f.hdr.nAreas) (hB : m.alloc + img.length ≤ B) :
    SafeP (readAreaG B f img i) m (fun _ _ => True) := by
  unfold readAreaG
  apply SafeP.ite
  · intro _; exact SafeP.err
  · intro h
    have hi : i.toNat < f.areas.length := by simp at h; omega
    have : f.areas[i.toNat]? = some f.areas[i.toNat] := List.getElem?_eq_getElem hi
    rw [this]
    simp only
    apply SafeP.bind; apply SafeP.alloc
    · have : (slice img (f.areas[i.toNat]).offset (f.areas[i.toNat]).size).length ≤ img.length := by
        simp [slice]; omega
      omega
    apply SafeP.ite
    · intro _; exact SafeP.err
    · intro _; exact SafeP.pure trivial

theorem writeAreaG_spec (f : FMap) (img : Bytes) (i : Int) (data : Bytes) (m : Meter)
    (hn : f.areas.length = f.hdr.nAreas) :
    SafeP (writeAreaG f img i data) m (fun img' _ => img'.length = img.length) := by
  unfold writeAreaG
  apply SafeP.ite
  · intro _; exact SafeP.err
  · intro h
    have hi : i.toNat < f.areas.length := by simp at h; omega
    have : f.areas[i.toNat]? = some f.areas[i.toNat] := List.getElem?_eq_getElem hi
    rw [this]
    simp only
    apply SafeP.ite
    · intro _; exact SafeP.err
    · intro _
      apply SafeP.ite
      · intro _; exact SafeP.err
      · intro h2
        exact SafeP.pure (splice_length _ _ _ (by omega))

theorem writeG_spec (B : Nat) (img : Bytes) (f : FMap) (start : Nat) (m : Meter)
    (hB : m.alloc + headerSize + f.areas.length * areaSize ≤ B) :
    SafeP (writeG B img f start) m (fun img' _ => img'.length = img.length) := by
  unfold writeG
  apply SafeP.bind; apply SafeP.alloc (by omega)
  apply SafeP.bind; apply SafeP.alloc (by simp only []; omega)
  simp only
  apply SafeP.ite
  · intro _; exact SafeP.err
  · intro h2
    exact SafeP.pure (splice_length _ _ _ (by omega))

/-! ### the pipelines the harness drives: `Read` the hostile image, then use the map on it -/

def readThenAreaG (B : Nat) (img : Bytes) (i : Int) : GoM Bytes := do
  let (f, _) ← readG B img
  readAreaG B f img i

def readThenWriteAreaG (B : Nat) (img : Bytes) (i : Int) (data : Bytes) : GoM Bytes := do
  let (f, _) ← readG B img
  writeAreaG f img i data

def readThenWriteG (B : Nat) (img : Bytes) (start : Nat) : GoM Bytes := do
  let (f, _) ← readG B img
  writeG B img f start

theorem readThenAreaG_spec (B : Nat) (img : Bytes) (i : Int) (m : Meter)
    (hB : m.alloc + readK + img.length ≤ B) : SafeP (readThenAreaG B img i) m (fun _ _ => True) := by
  unfold readThenAreaG
  apply SafeP.bind
  apply SafeP.mono (readG_spec B img m (by omega))
  intro r m' ⟨h1, _, h3⟩
  exact readAreaG_spec B r.1 img i m' h1 (by omega)

theorem readThenWriteAreaG_spec (B : Nat) (img : Bytes) (i : Int) (data : Bytes) (m : Meter)
    (hB : m.alloc + readK ≤ B) :
    SafeP (readThenWriteAreaG B img i data) m (fun img' _ => img'.length = img.length) := by
  unfold readThenWriteAreaG
  apply SafeP.bind
  apply SafeP.mono (readG_spec B img m hB)
  intro r m' ⟨h1, _, _⟩
  exact writeAreaG_spec r.1 img i data m' h1

theorem readThenWriteG_spec (B : Nat) (img : Bytes) (start : Nat) (m : Meter)
    (hB : m.alloc + readK + headerSize + 65535 * areaSize ≤ B) :
    SafeP (readThenWriteG B img start) m (fun img' _ => img'.length = img.length) := by
  unfold readThenWriteG
  apply SafeP.bind
  apply SafeP.mono (readG_spec B img m (by omega))
  intro r m' ⟨h1, h2, h3⟩
  apply writeG_spec
  have : r.1.areas.length * areaSize ≤ 65535 * areaSize := Nat.mul_le_mul_right _ (by omega)
  omega

end Fiano.Fmap
