/-
  fmap.Read / ReadArea written against Go's slicing semantics (GoM): every `data[start:]`,
  `make` and index of the Go function appears as a faulting primitive, so "never panics" is a
  real statement about where the guards are.  `readG_refines` shows it computes the same
  function as the functional model `read` (which the C13 correspondence validates).
-/
import FianoModel.Base.GoM
import FianoModel.Fmap.ReadLemmas

namespace Fiano.Fmap
open GoM

/-- loop body at a signature position `p`:  r := bytes.NewReader(data[p:]); two readField calls -/
def visitG (data : Bytes) (acc : Acc) (p : Nat) : GoM Acc := do
  let tail ← sliceFromG "Read: data[start:] (reader)" data p
  let (hb, rest) ← binaryReadG tail headerSize
  let h := decodeHeader hb
  if !headerValid h then pure acc
  else do
    allocG h.nAreas areaSize                           -- make([]Area, fmap.NAreas)
    let (ab, _) ← binaryReadG rest (areaSize * h.nAreas)
    pure { valid := acc.valid + 1, last := some ({ hdr := h, areas := decodeAreas h.nAreas ab }, p) }

/-- the `for` loop of Read with Go's own control flow -/
def readLoopG (data : Bytes) : Nat → Nat → Acc → GoM Acc
  | 0, _, _ => outOfFuel
  | fuel+1, start, acc =>
    if start ≥ data.length then pure acc
    else do
      let tail ← sliceFromG "Read: data[start:] (Index)" data start
      -- bytes.Index(tail, Signature), as an absolute position
      match indexFrom data (data.length + 1) (data.length - tail.length) with
      | none => pure acc
      | some p => do
        let acc' ← visitG data acc p
        readLoopG data fuel (p + 8) acc'

def readG (data : Bytes) : GoM (FMap × Nat) := do
  let acc ← readLoopG data (data.length + 1) 0 { valid := 0, last := none }
  match finish acc with
  | .ok r => pure r
  | .error _ => err

/-- `ReadArea`: the allocation is `Areas[i].Size` bytes, taken from the map, before any read. -/
def readAreaG (f : FMap) (img : Bytes) (i : Int) : GoM (Bytes × Bool) := do
  if i < 0 || (f.hdr.nAreas : Int) ≤ i then err
  else
    match f.areas[i.toNat]? with
    | none => goPanic "ReadArea: f.Areas[i]"
    | some a => do
      allocG a.size 1
      let got := slice img a.offset a.size
      pure (got ++ List.replicate (a.size - got.length) 0,
            decide (img.length ≤ a.offset) || decide (got.length < a.size))

/-! ### safety -/

theorem visitG_safe (data : Bytes) (acc : Acc) (p : Nat) (m : Meter) (hp : p ≤ data.length) :
    Safe (visitG data acc p m) := by
  unfold visitG
  apply safe_bind _ _ _ (sliceFromG_safe _ _ _ _ hp)
  intro tail m1 _
  apply safe_bind _ _ _ (binaryReadG_safe _ _ _)
  intro ⟨hb, rest⟩ m2 _
  simp only
  split
  · exact safe_pure _ _
  · apply safe_bind
    · simp [allocG, Safe, modify, modifyGet, MonadStateOf.modifyGet, StateT.modifyGet, pure, Except.pure]
    · intro _ m3 _
      apply safe_bind _ _ _ (binaryReadG_safe _ _ _)
      intro ⟨ab, _⟩ m4 _
      exact safe_pure _ _

/-- the visited position moves forward, so `|data| + 1 - start` iterations suffice -/
theorem readLoopG_safe (data : Bytes) (fuel start : Nat) (acc : Acc) (m : Meter)
    (hs0 : start ≤ data.length) (hf : data.length < start + fuel) :
    Safe (readLoopG data fuel start acc m) := by
  induction fuel generalizing start acc m with
  | zero => omega
  | succ fuel ih =>
    unfold readLoopG
    split
    · exact safe_pure _ _
    · rename_i hs
      apply safe_bind _ _ _ (sliceFromG_safe _ _ _ _ (by omega))
      intro tail m1 ht
      cases hp : indexFrom data (data.length + 1) (data.length - tail.length) with
      | none => exact safe_pure _ _
      | some p =>
        simp only
        have hp' := indexFrom_some data _ _ p hp
        have htl : tail.length = data.length - start := by
          have hle : start ≤ data.length := by omega
          have e : sliceFromG "Read: data[start:] (Index)" data start m = .ok (data.drop start, m) := by
            simp [sliceFromG, hle, pure, StateT.pure, Except.pure]
          rw [e] at ht
          injection ht with ht; injection ht with h1 h2
          subst h1; simp
        apply safe_bind _ _ _ (visitG_safe data acc p m1 (by omega))
        intro acc' m2 _
        exact ih (p + 8) acc' m2 (by omega) (by omega)

/-- **fmap.Read never panics and never loops without progress**, for every byte string. -/
theorem readG_safe (data : Bytes) (m : Meter) : Safe (readG data m) := by
  unfold readG
  apply safe_bind _ _ _ (readLoopG_safe data _ 0 _ m (by omega) (by omega))
  intro acc m1 _
  cases finish acc with
  | ok r => exact safe_pure _ _
  | error e => exact safe_err _

/-- `ReadArea` does not panic on any map that `Read` returned (areas.length = nAreas), for every index. -/
theorem readAreaG_safe (f : FMap) (img : Bytes) (i : Int) (m : Meter)
    (hn : f.areas.length = f.hdr.nAreas) : Safe (readAreaG f img i m) := by
  unfold readAreaG
  split
  · exact safe_err _
  · rename_i h
    have hi : i.toNat < f.areas.length := by
      simp at h; omega
    have : f.areas[i.toNat]? = some f.areas[i.toNat] := List.getElem?_eq_getElem hi
    rw [this]
    simp only
    apply safe_bind
    · simp [allocG, Safe, modify, modifyGet, MonadStateOf.modifyGet, StateT.modifyGet, pure, Except.pure]
    · intro _ _ _; exact safe_pure _ _

end Fiano.Fmap
