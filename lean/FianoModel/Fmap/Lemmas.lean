import FianoModel.Fmap.Model

namespace Fiano.Fmap

theorem u8_roundtrip (n : Nat) (h : n < 256) : (UInt8.ofNat n).toNat = n := by
  simp [UInt8.toNat_ofNat']; omega

@[simp] theorem encodeHeader_length (h : Header) (w : h.WT) : (encodeHeader h).length = 56 := by
  simp [encodeHeader, w.sig, w.name]

@[simp] theorem encodeArea_length (a : Area) (w : a.WT) : (encodeArea a).length = 42 := by
  simp [encodeArea, w.name]

theorem decodeHeader_encodeHeader (h : Header) (w : h.WT) : decodeHeader (encodeHeader h) = h := by
  obtain ⟨sig, vM, vm, base, size, name, nAreas⟩ := h
  obtain ⟨hsig, hvM, hvm, hbase, hsize, hname, hn⟩ := w
  simp only at hsig hvM hvm hbase hsize hname hn
  simp only [decodeHeader, encodeHeader, Header.mk.injEq]
  refine ⟨?_, ?_, ?_, ?_, ?_, ?_, ?_⟩
  · have := slice_mid [] sig ([UInt8.ofNat vM, UInt8.ofNat vm] ++ leN 8 base ++ leN 4 size ++ name ++ leN 2 nAreas) 0 8 rfl hsig
    simpa [List.append_assoc] using this
  · have : (sig ++ [UInt8.ofNat vM, UInt8.ofNat vm] ++ leN 8 base ++ leN 4 size ++ name ++ leN 2 nAreas)[8]? = some (UInt8.ofNat vM) := by
      simp [List.append_assoc, List.getElem?_append_right, hsig]
    rw [List.getD_eq_getElem?_getD, this]
    simp [u8_roundtrip vM hvM]
  · have : (sig ++ [UInt8.ofNat vM, UInt8.ofNat vm] ++ leN 8 base ++ leN 4 size ++ name ++ leN 2 nAreas)[9]? = some (UInt8.ofNat vm) := by
      simp [List.append_assoc, List.getElem?_append_right, hsig]
    rw [List.getD_eq_getElem?_getD, this]
    simp [u8_roundtrip vm hvm]
  · have := slice_mid (sig ++ [UInt8.ofNat vM, UInt8.ofNat vm]) (leN 8 base) (leN 4 size ++ name ++ leN 2 nAreas) 10 8 (by simp [hsig]) (by simp)
    simp only [List.append_assoc] at this ⊢
    rw [this, fromLE_leN_of_lt 8 base hbase]
  · have := slice_mid (sig ++ [UInt8.ofNat vM, UInt8.ofNat vm] ++ leN 8 base) (leN 4 size) (name ++ leN 2 nAreas) 18 4 (by simp [hsig]) (by simp)
    simp only [List.append_assoc] at this ⊢
    rw [this, fromLE_leN_of_lt 4 size hsize]
  · have := slice_mid (sig ++ [UInt8.ofNat vM, UInt8.ofNat vm] ++ leN 8 base ++ leN 4 size) name (leN 2 nAreas) 22 32 (by simp [hsig]) hname
    simp only [List.append_assoc] at this ⊢
    rw [this]
  · have := slice_mid' (sig ++ [UInt8.ofNat vM, UInt8.ofNat vm] ++ leN 8 base ++ leN 4 size ++ name) (leN 2 nAreas) 54 2 (by simp [hsig, hname]) (by simp)
    simp only [List.append_assoc] at this ⊢
    rw [this, fromLE_leN_of_lt 2 nAreas hn]

theorem decodeArea_encodeArea (a : Area) (w : a.WT) : decodeArea (encodeArea a) = a := by
  obtain ⟨offset, size, name, flags⟩ := a
  obtain ⟨ho, hs, hname, hf⟩ := w
  simp only at ho hs hname hf
  simp only [decodeArea, encodeArea, Area.mk.injEq]
  refine ⟨?_, ?_, ?_, ?_⟩
  · have := slice_mid [] (leN 4 offset) (leN 4 size ++ name ++ leN 2 flags) 0 4 rfl (by simp)
    simp only [List.nil_append, List.append_assoc] at this ⊢
    rw [this, fromLE_leN_of_lt 4 offset ho]
  · have := slice_mid (leN 4 offset) (leN 4 size) (name ++ leN 2 flags) 4 4 (by simp) (by simp)
    simp only [List.append_assoc] at this ⊢
    rw [this, fromLE_leN_of_lt 4 size hs]
  · have := slice_mid (leN 4 offset ++ leN 4 size) name (leN 2 flags) 8 32 (by simp) hname
    simp only [List.append_assoc] at this ⊢
    rw [this]
  · have := slice_mid' (leN 4 offset ++ leN 4 size ++ name) (leN 2 flags) 40 2 (by simp [hname]) (by simp)
    simp only [List.append_assoc] at this ⊢
    rw [this, fromLE_leN_of_lt 2 flags hf]

/-- every decoded header is representable -/
theorem decodeHeader_WT (b : Bytes) (hb : b.length = 56) : (decodeHeader b).WT := by
  have hl : ∀ o l, o + l ≤ 56 → (slice b o l).length = l := fun o l h => slice_length b o l (by omega)
  constructor
  · exact hl 0 8 (by omega)
  · exact (b.getD 8 0).toNat_lt
  · exact (b.getD 9 0).toNat_lt
  · have := fromLE_lt (slice b 10 8); rw [hl 10 8 (by omega)] at this; exact this
  · have := fromLE_lt (slice b 18 4); rw [hl 18 4 (by omega)] at this; exact this
  · exact hl 22 32 (by omega)
  · have := fromLE_lt (slice b 54 2); rw [hl 54 2 (by omega)] at this; exact this

theorem decodeArea_WT (b : Bytes) (hb : b.length = 42) : (decodeArea b).WT := by
  have hl : ∀ o l, o + l ≤ 42 → (slice b o l).length = l := fun o l h => slice_length b o l (by omega)
  constructor
  · have := fromLE_lt (slice b 0 4); rw [hl 0 4 (by omega)] at this; exact this
  · have := fromLE_lt (slice b 4 4); rw [hl 4 4 (by omega)] at this; exact this
  · exact hl 8 32 (by omega)
  · have := fromLE_lt (slice b 40 2); rw [hl 40 2 (by omega)] at this; exact this

theorem getD_toNat_ofNat (b : Bytes) (i : Nat) (h : i < b.length) :
    [UInt8.ofNat (b.getD i 0).toNat] = slice b i 1 := by
  have : b[i]? = some b[i] := List.getElem?_eq_getElem h
  rw [List.getD_eq_getElem?_getD, this]
  simp only [Option.getD_some, slice]
  rw [List.drop_eq_getElem_cons h]
  simp [List.take]

theorem encodeHeader_decodeHeader (b : Bytes) (hb : b.length = 56) :
    encodeHeader (decodeHeader b) = b := by
  simp only [encodeHeader, decodeHeader]
  have hl : ∀ o l, o + l ≤ 56 → (slice b o l).length = l := fun o l h => slice_length b o l (by omega)
  have e1 := leN_fromLE' (slice b 10 8) 8 (hl 10 8 (by omega))
  have e2 := leN_fromLE' (slice b 18 4) 4 (hl 18 4 (by omega))
  have e3 := leN_fromLE' (slice b 54 2) 2 (hl 54 2 (by omega))
  rw [e1, e2, e3]
  have e4 : [UInt8.ofNat (b.getD 8 0).toNat, UInt8.ofNat (b.getD 9 0).toNat] = slice b 8 1 ++ slice b 9 1 := by
    rw [← getD_toNat_ofNat b 8 (by omega), ← getD_toNat_ofNat b 9 (by omega)]; rfl
  rw [e4]
  have : b = slice b 0 56 := (slice_zero_all b 56 hb).symm
  conv => rhs; rw [this]
  rw [slice_add b 0 8 48, slice_add b (0+8) 1 47, slice_add b (0+8+1) 1 46, slice_add b (0+8+1+1) 8 38,
    slice_add b (0+8+1+1+8) 4 34, slice_add b (0+8+1+1+8+4) 32 2]
  simp only [List.append_assoc, Nat.zero_add, Nat.reduceAdd]

theorem encodeArea_decodeArea (b : Bytes) (hb : b.length = 42) :
    encodeArea (decodeArea b) = b := by
  simp only [encodeArea, decodeArea]
  have hl : ∀ o l, o + l ≤ 42 → (slice b o l).length = l := fun o l h => slice_length b o l (by omega)
  rw [leN_fromLE' (slice b 0 4) 4 (hl 0 4 (by omega)), leN_fromLE' (slice b 4 4) 4 (hl 4 4 (by omega)),
    leN_fromLE' (slice b 40 2) 2 (hl 40 2 (by omega))]
  have : b = slice b 0 42 := (slice_zero_all b 42 hb).symm
  conv => rhs; rw [this]
  rw [slice_add b 0 4 38, slice_add b (0+4) 4 34, slice_add b (0+4+4) 32 2]
  simp only [List.append_assoc, Nat.zero_add, Nat.reduceAdd]

theorem encodeAreas_length (as : List Area) (w : ∀ a ∈ as, a.WT) :
    (encodeAreas as).length = 42 * as.length := by
  induction as with
  | nil => rfl
  | cons a as ih =>
    have h1 := encodeArea_length a (w a (by simp))
    have h2 := ih (fun x hx => w x (by simp [hx]))
    simp only [encodeAreas, List.flatMap_cons, List.length_append, List.length_cons] at *
    omega

theorem decodeAreas_encodeAreas (as : List Area) (w : ∀ a ∈ as, a.WT) (r : Bytes) :
    decodeAreas as.length (encodeAreas as ++ r) = as := by
  induction as with
  | nil => rfl
  | cons a as ih =>
    have h1 := encodeArea_length a (w a (by simp))
    have h2 := ih (fun x hx => w x (by simp [hx]))
    simp only [encodeAreas, List.flatMap_cons, List.length_cons, decodeAreas, areaSize, List.append_assoc] at *
    rw [List.take_append_of_le_length (by omega), List.drop_append_of_le_length (by omega)]
    rw [← h1, List.take_length, List.drop_length, List.nil_append, h2, decodeArea_encodeArea a (w a (by simp))]

theorem decodeAreas_length (n : Nat) (b : Bytes) : (decodeAreas n b).length = n := by
  induction n generalizing b with
  | zero => rfl
  | succ n ih => simp [decodeAreas, ih]

theorem decodeAreas_WT (n : Nat) (b : Bytes) (hb : b.length = 42 * n) :
    ∀ a ∈ decodeAreas n b, a.WT := by
  induction n generalizing b with
  | zero => simp [decodeAreas]
  | succ n ih =>
    intro a ha
    simp only [decodeAreas, List.mem_cons, areaSize] at ha
    rcases ha with rfl | ha
    · exact decodeArea_WT _ (by simp; omega)
    · exact ih (b.drop 42) (by simp; omega) a ha

theorem encodeAreas_decodeAreas (n : Nat) (b : Bytes) (hb : b.length = 42 * n) :
    encodeAreas (decodeAreas n b) = b := by
  induction n generalizing b with
  | zero => simp at hb; subst hb; rfl
  | succ n ih =>
    simp only [decodeAreas, encodeAreas, List.flatMap_cons, areaSize]
    have := ih (b.drop 42) (by simp; omega)
    simp only [encodeAreas] at this
    rw [this, encodeArea_decodeArea (b.take 42) (by simp; omega), List.take_append_drop]

end Fiano.Fmap
