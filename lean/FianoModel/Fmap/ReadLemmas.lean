import FianoModel.Fmap.Lemmas

namespace Fiano.Fmap

/-- header decoded at a visited position -/
def hdrAt (data : Bytes) (p : Nat) : Header := decodeHeader (slice data p headerSize)
def validAt (data : Bytes) (p : Nat) : Bool := headerValid (hdrAt data p)
/-- the map decoded at a visited position -/
def mapAt (data : Bytes) (p : Nat) : FMap :=
  { hdr := hdrAt data p
    areas := decodeAreas (hdrAt data p).nAreas
      (slice data (p + headerSize) (areaSize * (hdrAt data p).nAreas)) }

/-- a candidate the loop can process without hitting end of input -/
def Readable (data : Bytes) (p : Nat) : Prop :=
  p + headerSize ≤ data.length ∧
  (validAt data p = true → p + headerSize + areaSize * (hdrAt data p).nAreas ≤ data.length)

theorem visit_ok (data : Bytes) (acc acc' : Acc) (p : Nat) (h : visit data acc p = .ok acc') :
    Readable data p ∧
    ((validAt data p = false ∧ acc' = acc) ∨
     (validAt data p = true ∧ acc' = { valid := acc.valid + 1, last := some (mapAt data p, p) })) := by
  unfold visit at h
  split at h
  · cases h
  · rename_i h1
    simp only at h
    split at h
    · rename_i h2
      injection h with h; subst h
      refine ⟨⟨by omega, ?_⟩, Or.inl ⟨?_, rfl⟩⟩
      · intro hv; simp [validAt, hdrAt] at hv; simp [hv] at h2
      · simpa [validAt, hdrAt] using h2
    · rename_i h2
      split at h
      · cases h
      · rename_i h3
        injection h with h; subst h
        refine ⟨⟨by omega, fun _ => by simp only [hdrAt]; omega⟩, Or.inr ⟨?_, rfl⟩⟩
        simpa [validAt, hdrAt] using h2

theorem visit_invalid (data : Bytes) (acc : Acc) (p : Nat) (hr : p + headerSize ≤ data.length)
    (hv : validAt data p = false) : visit data acc p = .ok acc := by
  unfold visit
  rw [if_neg (by omega)]
  simp only [validAt, hdrAt] at hv
  simp [hv]

theorem visit_valid (data : Bytes) (acc : Acc) (p : Nat)
    (hr : p + headerSize + areaSize * (hdrAt data p).nAreas ≤ data.length)
    (hv : validAt data p = true) :
    visit data acc p = .ok { valid := acc.valid + 1, last := some (mapAt data p, p) } := by
  unfold visit
  rw [if_neg (by omega)]
  simp only [validAt, hdrAt] at hv hr
  simp only [hv, Bool.not_true, Bool.false_eq_true, ↓reduceIte]
  rw [if_neg (by omega)]
  rfl

theorem fold_inv (data : Bytes) (ps : List Nat) (acc acc' : Acc)
    (h : foldVisit data ps acc = .ok acc') :
    (∀ p ∈ ps, Readable data p) ∧
    acc'.valid = acc.valid + ps.countP (validAt data) ∧
    ((acc'.last = acc.last ∧ ps.countP (validAt data) = 0) ∨
     (∃ s ∈ ps, validAt data s = true ∧ acc'.last = some (mapAt data s, s))) := by
  induction ps generalizing acc with
  | nil =>
    simp only [foldVisit] at h; injection h with h; subst h
    simp
  | cons p ps ih =>
    simp only [foldVisit] at h
    split at h
    · cases h
    · rename_i acc1 hv
      obtain ⟨hr, hcase⟩ := visit_ok data acc acc1 p hv
      obtain ⟨ih1, ih2, ih3⟩ := ih acc1 h
      refine ⟨?_, ?_, ?_⟩
      · intro q hq
        rcases List.mem_cons.mp hq with rfl | hq
        · exact hr
        · exact ih1 q hq
      · rcases hcase with ⟨hf, rfl⟩ | ⟨ht, rfl⟩
        · rw [ih2, List.countP_cons_of_neg (by simp [hf])]
        · rw [ih2, List.countP_cons_of_pos ht]; simp only; omega
      · rcases hcase with ⟨hf, rfl⟩ | ⟨ht, rfl⟩
        · rcases ih3 with ⟨a, b⟩ | ⟨s, hs, hv', hl⟩
          · left; exact ⟨a, by rw [List.countP_cons_of_neg (by simp [hf])]; exact b⟩
          · right; exact ⟨s, List.mem_cons_of_mem _ hs, hv', hl⟩
        · right
          rcases ih3 with ⟨a, _⟩ | ⟨s, hs, hv', hl⟩
          · exact ⟨p, List.mem_cons_self, ht, by rw [a]⟩
          · exact ⟨s, List.mem_cons_of_mem _ hs, hv', hl⟩

/-- a run of readable, invalid candidates leaves the accumulator alone -/
theorem fold_invalid (data : Bytes) (ps : List Nat) (acc : Acc)
    (h : ∀ p ∈ ps, p + headerSize ≤ data.length ∧ validAt data p = false) :
    foldVisit data ps acc = .ok acc := by
  induction ps with
  | nil => rfl
  | cons p ps ih =>
    simp only [foldVisit]
    rw [visit_invalid data acc p (h p (by simp)).1 (h p (by simp)).2]
    exact ih (fun q hq => h q (by simp [hq]))

theorem fold_append (data : Bytes) (ps qs : List Nat) (acc : Acc) :
    foldVisit data (ps ++ qs) acc =
      match foldVisit data ps acc with
      | .error e => .error e
      | .ok a => foldVisit data qs a := by
  induction ps generalizing acc with
  | nil => rfl
  | cons p ps ih =>
    simp only [List.cons_append, foldVisit]
    cases visit data acc p with
    | error e => rfl
    | ok a => exact ih a

/-! ### the signature scan -/

theorem indexFrom_some (data : Bytes) (fuel start p : Nat) (h : indexFrom data fuel start = some p) :
    start ≤ p ∧ p + 8 ≤ data.length ∧ slice data p 8 = signature := by
  induction fuel generalizing start with
  | zero => simp [indexFrom] at h
  | succ fuel ih =>
    simp only [indexFrom] at h
    split at h
    · cases h
    · split at h
      · injection h with h; subst h; exact ⟨Nat.le_refl _, by omega, by assumption⟩
      · have := ih (start + 1) h; exact ⟨by omega, this.2⟩

theorem indexFrom_none (data : Bytes) (fuel start : Nat) (hf : data.length < start + fuel)
    (h : ∀ p, start ≤ p → p + 8 ≤ data.length → slice data p 8 ≠ signature) :
    indexFrom data fuel start = none := by
  induction fuel generalizing start with
  | zero => rfl
  | succ fuel ih =>
    simp only [indexFrom]
    split
    · rfl
    · rename_i h1
      rw [if_neg (h start (Nat.le_refl _) (by omega))]
      exact ih (start + 1) (by omega) (fun p hp => h p (by omega))

/-- the first occurrence at or after `start` is what the scan returns -/
theorem indexFrom_first (data : Bytes) (fuel start s : Nat) (hf : data.length < start + fuel)
    (hs : start ≤ s) (hfit : s + 8 ≤ data.length) (hsig : slice data s 8 = signature)
    (h : ∀ p, start ≤ p → p < s → slice data p 8 ≠ signature) :
    indexFrom data fuel start = some s := by
  induction fuel generalizing start with
  | zero => omega
  | succ fuel ih =>
    simp only [indexFrom]
    rw [if_neg (by omega)]
    by_cases he : start = s
    · subst he; rw [if_pos hsig]
    · rw [if_neg (h start (Nat.le_refl _) (by omega))]
      exact ih (start + 1) (by omega) (by omega) (fun p hp hps => h p (by omega) hps)

theorem hits_nil_of_absent (data : Bytes)
    (h : ∀ p, p + 8 ≤ data.length → slice data p 8 ≠ signature) : hits data = [] := by
  unfold hits hitsFrom
  split
  · rfl
  · rw [indexFrom_none data _ 0 (by omega) (fun p _ hp => h p hp)]

theorem hits_first (data : Bytes) (s : Nat) (hfit : s + 8 ≤ data.length)
    (hsig : slice data s 8 = signature) (h : ∀ p, p < s → slice data p 8 ≠ signature) :
    hits data = s :: hitsFrom data data.length (s + 8) := by
  unfold hits
  rw [hitsFrom]
  rw [if_neg (by omega), indexFrom_first data _ 0 s (by omega) (by omega) hfit hsig (fun p _ hp => h p hp)]

theorem hitsFrom_mem (data : Bytes) (fuel start p : Nat) (h : p ∈ hitsFrom data fuel start) :
    start ≤ p ∧ p + 8 ≤ data.length ∧ slice data p 8 = signature := by
  induction fuel generalizing start with
  | zero => simp [hitsFrom] at h
  | succ fuel ih =>
    simp only [hitsFrom] at h
    split at h
    · simp at h
    · split at h
      · simp at h
      · rename_i q hq
        have hq' := indexFrom_some data _ start q hq
        rcases List.mem_cons.mp h with rfl | h
        · exact hq'
        · have := ih (q + 8) h; exact ⟨by omega, this.2⟩

end Fiano.Fmap
