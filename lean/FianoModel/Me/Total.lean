/-
  pkg/intel/me `ParseIntelME` (flash partition table) against Go's semantics (GoM).
  The header is read field by field with `binary.Read`; the entry loop runs `NumFptEntries`
  (a uint32 from the image) times, but every iteration consumes 32 bytes or fails, so it ends
  after at most |input|/32 + 1 rounds: fuel `|input| + 1` is never exhausted.
-/
import FianoModel.Total.Hoare

namespace Fiano.Me
open GoM

def signature : Bytes := [0x24, 0x46, 0x50, 0x54]   -- "$FPT"
def entrySize : Nat := 32

/-- field widths after the 4-byte marker area: new header (28 bytes) -/
def newHeaderFields : List Nat := [4, 1, 1, 1, 1, 2, 2, 4, 4, 2, 2, 2, 2]
/-- legacy header: 12 scrap bytes, marker, count, … (36 bytes) -/
def legacyHeaderFields : List Nat := [12, 4, 4, 1, 1, 1, 1, 2, 2, 4, 4]

def entriesG (B : Nat) : Nat → Nat → Nat → Bytes → List Bytes → GoM (List Bytes)
  | 0, _, _, _, _ => outOfFuel
  | fuel+1, i, n, r, acc =>
    if i ≥ n then pure acc
    else do
      let (e, r') ← binaryReadG r entrySize
      allocB "append(partitions, *entry)" B 1 entrySize
      entriesG B fuel (i + 1) n r' (acc ++ [e])

structure Parsed where
  legacy : Bool
  header : Bytes
  partitions : List Bytes
  deriving Repr, DecidableEq

def parseG (B : Nat) (bs : Bytes) : GoM Parsed := do
  let (mk, r1) ← binaryReadG bs 4
  if mk = signature then do
    let (h, r2) ← readFieldsG newHeaderFields r1 []
    let n := fieldLE h 0 4
    let ps ← entriesG B (bs.length + 1) 0 n r2 []
    pure { legacy := false, header := h, partitions := ps }
  else do
    let (h, r2) ← readFieldsG legacyHeaderFields r1 []
    let n := fieldLE h 16 4
    let ps ← entriesG B (bs.length + 1) 0 n r2 []
    pure { legacy := true, header := h, partitions := ps }

/-! ### totality -/

theorem entriesG_spec (B N fuel i n : Nat) (r : Bytes) (acc : List Bytes) (m : Meter)
    (hfuel : N < i + fuel) (hr : r.length + 32 * i ≤ N) (hb : m.alloc + 32 * (N / 32 - i) ≤ B) :
    SafeP (entriesG B fuel i n r acc) m (fun _ m' => m'.alloc ≤ m.alloc + 32 * (N / 32 - i)) := by
  induction fuel generalizing i r acc m with
  | zero => omega
  | succ fuel ih =>
    unfold entriesG
    apply SafeP.ite
    · intro _; exact SafeP.pure (by omega)
    · intro _
      apply SafeP.bind; apply SafeP.binaryRead; intro h32
      simp only [entrySize] at *
      have hi : i + 1 ≤ N / 32 := by
        have : 32 * (i + 1) ≤ N := by omega
        omega
      apply SafeP.bind; apply SafeP.alloc (by omega)
      have hlen : (List.drop 32 r).length + 32 * (i + 1) ≤ N := by
        have : (List.drop 32 r).length = r.length - 32 := by simp
        omega
      apply SafeP.mono (ih (i + 1) (List.drop 32 r) (acc ++ [List.take 32 r]) _ (by omega) hlen
        (by simp only []; omega))
      intro _ m' h
      simp only at h
      omega

/-- `ParseIntelME`: value or error for every byte string; metered allocation ≤ |input| -/
theorem parseG_spec (B : Nat) (bs : Bytes) (m : Meter) (hB : m.alloc + bs.length ≤ B) :
    SafeP (parseG B bs) m (fun _ _ => True) := by
  unfold parseG
  apply SafeP.bind; apply SafeP.binaryRead; intro _
  have h4 : (List.drop 4 bs).length ≤ bs.length := by simp
  apply SafeP.ite
  · intro _
    apply SafeP.bind
    apply SafeP.mono (readFieldsG_spec _ _ _ m)
    intro p m' ⟨hl, hm⟩
    subst hm
    apply SafeP.bind
    have hdiv : 32 * (bs.length / 32) ≤ bs.length := by omega
    apply SafeP.mono (entriesG_spec B bs.length (bs.length + 1) 0 _ p.2 [] m' (by omega) (by omega) (by omega))
    intro _ _ _
    exact SafeP.pure trivial
  · intro _
    apply SafeP.bind
    apply SafeP.mono (readFieldsG_spec _ _ _ m)
    intro p m' ⟨hl, hm⟩
    subst hm
    apply SafeP.bind
    have hdiv : 32 * (bs.length / 32) ≤ bs.length := by omega
    apply SafeP.mono (entriesG_spec B bs.length (bs.length + 1) 0 _ p.2 [] m' (by omega) (by omega) (by omega))
    intro _ _ _
    exact SafeP.pure trivial

end Fiano.Me
