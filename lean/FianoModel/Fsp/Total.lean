/-
  pkg/fsp `NewInfoHeader` against Go's semantics (GoM): a length guard, `binary.Read` of the
  12-byte fixed header, checks, then a second `binary.Read` of the revision's full header from the
  start of the buffer.  The JSON round trip that fills `CommonInfoHeader` works on fixed-size
  structs (no slicing of the input) and is not modelled.
-/
import FianoModel.Total.Hoare

namespace Fiano.Fsp
open GoM

def signature : Bytes := [0x46, 0x53, 0x50, 0x48]   -- "FSPH"
def fixedInfoHeaderLength : Nat := 12

def lengthOfRevision (rev : Nat) : Nat :=
  if rev = 3 then 72 else if rev = 4 then 72 else if rev = 5 then 76 else 80

/-- size of the struct the second `binary.Read` fills -/
def readSizeOfRevision (rev : Nat) : Nat :=
  if rev ≥ 6 then 80 else if rev ≥ 5 then 76 else 72

def newInfoHeaderG (b : Bytes) : GoM Bytes := do
  if b.length < fixedInfoHeaderLength then err
  else do
    let (hdr, _) ← binaryReadG b fixedInfoHeaderLength
    if slice hdr 0 4 ≠ signature then err
    else
      let spec := fieldLE hdr 10 1
      let rev := fieldLE hdr 11 1
      let hlen := fieldLE hdr 4 4
      if spec < 0x20 ∨ spec ≥ 0x30 then err
      else if rev < 3 then err
      else if hlen < lengthOfRevision rev then err
      else do
        let (full, _) ← binaryReadG b (readSizeOfRevision rev)
        pure full

theorem newInfoHeaderG_spec (b : Bytes) (m : Meter) :
    SafeP (newInfoHeaderG b) m (fun full m' => full.length ≤ 80 ∧ m' = m) := by
  unfold newInfoHeaderG
  apply SafeP.ite; · intro _; exact SafeP.err
  intro _
  apply SafeP.bind; apply SafeP.binaryRead; intro _
  simp only
  apply SafeP.ite; · intro _; exact SafeP.err
  intro _
  apply SafeP.ite; · intro _; exact SafeP.err
  intro _
  apply SafeP.ite; · intro _; exact SafeP.err
  intro _
  apply SafeP.ite; · intro _; exact SafeP.err
  intro _
  apply SafeP.bind; apply SafeP.binaryRead; intro _
  apply SafeP.pure
  refine ⟨?_, rfl⟩
  simp only [List.length_take, readSizeOfRevision]
  split <;> (try split) <;> omega

end Fiano.Fsp
