/-
  Invariants of the cleaner's round loop (`round`, `rounds`): trace well-formedness, the report,
  the oracle's answers, the current image; termination; the monotone oracle.
-/
import FianoModel.Dxe.Lemmas

namespace Fiano.Dxe

variable {σ : Type}

/-- what is true of the cleaner's state at every point of the run -/
structure Inv (pg : Option Nat) (test : Oracle σ) (os0 : σ) (orig : Image) (st : St σ) : Prop where
  chain : TraceOK pg orig st.trace
  rem : st.removals = accGuids st.trace
  orc : runOracle test os0 (st.trace.map (·.shown)) = (st.trace.map (·.res), st.os)

/-- one remove / test step extends the invariant, whatever image is installed afterwards -/
theorem Inv.step {pg : Option Nat} {test : Oracle σ} {os0 : σ} {orig : Image} {st : St σ}
    (inv : Inv pg test os0 orig st) (hcur : st.img = endImg orig st.trace)
    {g : Nat} {img' : Image} {r : TestResult} {os' : σ}
    (hm : minus? pg g st.img = some img') (ht : test st.os img' = (r, os'))
    (x : Image) (rs : List Nat)
    (hrs : rs = st.removals ++ (if verdict r = .accept then [g] else [])) :
    Inv pg test os0 orig
      { img := x, os := os', removals := rs,
        trace := st.trace ++ [{ guid := g, base := st.img, shown := img', res := r }] } := by
  constructor
  · rw [TraceOK_append]
    exact ⟨inv.chain, hcur, by rw [← hcur]; exact hm⟩
  · simp only [accGuids_append, hrs, inv.rem]
  · simp only [List.map_append, List.map_cons, List.map_nil, runOracle_append, inv.orc, ht]

theorem verdict_cases (r : TestResult) :
    verdict r = .accept ∨ verdict r = .reject ∨ verdict r = .cancel ∨ verdict r = .fail := by
  cases verdict r <;> simp

theorem round_inv (pg : Option Nat) (test : Oracle σ) (os0 : σ) (orig : Image) :
    ∀ (todo kept : List Nat) (more : Bool) (st : St σ),
      Inv pg test os0 orig st → st.img = endImg orig st.trace →
      match round pg test todo kept more st with
      | .done st' _ _ => Inv pg test os0 orig st' ∧ st'.img = endImg orig st'.trace
      | .stop s st' => Inv pg test os0 orig st' ∧ (s = .ok → st'.img = endImg orig st'.trace) := by
  intro todo
  induction todo with
  | nil => intro kept more st inv hcur; exact ⟨inv, hcur⟩
  | cons g todo ih =>
    intro kept more st inv hcur
    unfold round
    rcases hr : removeAll pg g st.img with ⟨img', undo, ok⟩
    cases ok with
    | false =>
      simp only
      exact ⟨⟨inv.chain, inv.rem, inv.orc⟩, by intro h; cases h⟩
    | true =>
      have hm := removeAll_ok pg g st.img img' undo hr
      have hu : applyUndo undo img' = st.img := by
        have := removeAll_undo pg g st.img
        rw [hr] at this
        exact this
      simp only
      rcases ht : test st.os img' with ⟨r, os'⟩
      simp only
      cases hv : verdict r with
      | cancel =>
        refine ⟨inv.step hcur hm ht _ _ (by simp [hv]), ?_⟩
        intro _
        simp [endImg_append, after, hv, hu]
      | fail =>
        exact ⟨inv.step hcur hm ht _ _ (by simp [hv]), by intro h; cases h⟩
      | accept =>
        apply ih
        · exact inv.step hcur hm ht _ _ (by simp [hv])
        · simp [endImg_append, after, hv]
      | reject =>
        apply ih
        · exact inv.step hcur hm ht _ _ (by simp [hv])
        · simp [endImg_append, after, hv, hu]

theorem rounds_inv (pg : Option Nat) (test : Oracle σ) (os0 : σ) (orig : Image) :
    ∀ (n : Nat) (dxes : List Nat) (st : St σ),
      Inv pg test os0 orig st → st.img = endImg orig st.trace →
      Inv pg test os0 orig (rounds pg test n dxes st).2 ∧
      ((rounds pg test n dxes st).1 = .ok →
        (rounds pg test n dxes st).2.img = endImg orig (rounds pg test n dxes st).2.trace) := by
  intro n
  induction n with
  | zero => intro dxes st inv _; exact ⟨inv, by intro h; cases h⟩
  | succ n ih =>
    intro dxes st inv hcur
    have := round_inv pg test os0 orig dxes [] false st inv hcur
    unfold rounds
    cases hr : round pg test dxes [] false st with
    | stop s st' => rw [hr] at this; exact this
    | done st' kept more =>
      rw [hr] at this
      simp only
      cases more with
      | true => simp only [if_true]; exact ih kept st' this.1 this.2
      | false => exact ⟨this.1, fun _ => this.2⟩

/-! ### termination: a productive round shortens `dxes` -/

/-- what a round does to the candidate list -/
def KeptOK (kept : List Nat) (more : Bool) (n : Nat) : RoundOut σ → Prop
  | .done _ kept' more' =>
      kept'.length ≤ kept.length + n ∧ (more' = true → more = true ∨ kept'.length < kept.length + n)
  | .stop s _ => s ≠ .fuel

theorem KeptOK.accept {kept : List Nat} {more : Bool} {n : Nat} {out : RoundOut σ}
    (h : KeptOK kept true n out) : KeptOK kept more (n + 1) out := by
  cases out with
  | stop s st => exact h
  | done st kept' more' => exact ⟨by have := h.1; omega, fun _ => Or.inr (by have := h.1; omega)⟩

theorem KeptOK.reject {kept : List Nat} {g : Nat} {more : Bool} {n : Nat} {out : RoundOut σ}
    (h : KeptOK (kept ++ [g]) more n out) : KeptOK kept more (n + 1) out := by
  cases out with
  | stop s st => exact h
  | done st kept' more' =>
    have h1 := h.1
    have h2 := h.2
    simp only [List.length_append, List.length_cons, List.length_nil] at h1 h2
    refine ⟨by omega, fun hm => ?_⟩
    rcases h2 hm with h3 | h3
    · exact Or.inl h3
    · exact Or.inr (by omega)

theorem round_kept (pg : Option Nat) (test : Oracle σ) :
    ∀ (todo kept : List Nat) (more : Bool) (st : St σ),
      KeptOK kept more todo.length (round pg test todo kept more st) := by
  intro todo
  induction todo with
  | nil => intro kept more st; simp [round, KeptOK]
  | cons g todo ih =>
    intro kept more st
    unfold round
    rcases hr : removeAll pg g st.img with ⟨img', undo, ok⟩
    cases ok with
    | false => simp [KeptOK]
    | true =>
      simp only
      rcases ht : test st.os img' with ⟨r, os'⟩
      simp only
      cases hv : verdict r with
      | cancel => simp [KeptOK]
      | fail => simp [KeptOK]
      | accept => exact (ih kept true _).accept
      | reject => exact (ih (kept ++ [g]) more _).reject

theorem rounds_fuel (pg : Option Nat) (test : Oracle σ) :
    ∀ (n : Nat) (dxes : List Nat) (st : St σ), dxes.length + 1 ≤ n →
      (rounds pg test n dxes st).1 ≠ .fuel := by
  intro n
  induction n with
  | zero => intro dxes st h; omega
  | succ n ih =>
    intro dxes st h
    have := round_kept pg test dxes [] false st
    unfold rounds
    cases hr : round pg test dxes [] false st with
    | stop s st' => rw [hr] at this; exact this
    | done st' kept more =>
      rw [hr] at this
      simp only
      cases more with
      | false => simp
      | true =>
        simp only [if_true]
        apply ih
        have h2 := this.2 rfl
        simp at h2
        omega

/-! ### the monotone oracle -/

theorem mem_present (img : Image) (h : Nat) :
    h ∈ present img ↔ ∃ f ∈ img.flatten, f.kind ≠ .pad ∧ f.guid = h := by
  unfold present
  simp only [List.mem_map, List.mem_filter]
  constructor
  · rintro ⟨f, ⟨hf, hk⟩, rfl⟩; exact ⟨f, hf, by simpa using hk, rfl⟩
  · rintro ⟨f, hf, hk, rfl⟩; exact ⟨f, ⟨hf, by simpa using hk⟩, rfl⟩

theorem minusVol?_mem (pg : Option Nat) (g : Nat) :
    ∀ (v v' : Volume), minusVol? pg g v = some v' →
      (∀ f ∈ v', f.kind ≠ .pad → f.guid ≠ g) ∧ (∀ f ∈ v, f.guid ≠ g → f ∈ v') := by
  intro v
  induction v with
  | nil => intro v' h; simp [minusVol?] at h; subst h; simp
  | cons a rest ih =>
    intro v' h
    unfold minusVol? at h
    by_cases hg : a.guid = g
    · simp only [hg, if_true] at h
      by_cases hk : a.kind = .peim
      · simp only [hk, if_true] at h
        cases pg with
        | none => simp at h
        | some p =>
          simp only at h
          cases hm : minusVol? (some p) g rest with
          | none => rw [hm] at h; simp at h
          | some r =>
            rw [hm] at h; simp at h; subst h
            obtain ⟨i1, i2⟩ := ih r hm
            constructor
            · intro f hf hk2
              rcases List.mem_cons.mp hf with rfl | hf
              · simp [padOf] at hk2
              · exact i1 f hf hk2
            · intro f hf hne
              rcases List.mem_cons.mp hf with rfl | hf
              · exact absurd hg hne
              · exact List.mem_cons_of_mem _ (i2 f hf hne)
      · simp only [hk, if_false] at h
        obtain ⟨i1, i2⟩ := ih v' h
        refine ⟨i1, ?_⟩
        intro f hf hne
        rcases List.mem_cons.mp hf with rfl | hf
        · exact absurd hg hne
        · exact i2 f hf hne
    · simp only [hg, if_false] at h
      cases hm : minusVol? pg g rest with
      | none => rw [hm] at h; simp at h
      | some r =>
        rw [hm] at h; simp at h; subst h
        obtain ⟨i1, i2⟩ := ih r hm
        constructor
        · intro f hf hk2
          rcases List.mem_cons.mp hf with rfl | hf
          · exact hg
          · exact i1 f hf hk2
        · intro f hf hne
          rcases List.mem_cons.mp hf with rfl | hf
          · exact List.mem_cons_self ..
          · exact List.mem_cons_of_mem _ (i2 f hf hne)

theorem minus?_mem (pg : Option Nat) (g : Nat) :
    ∀ (img img' : Image), minus? pg g img = some img' →
      (∀ f ∈ img'.flatten, f.kind ≠ .pad → f.guid ≠ g) ∧
      (∀ f ∈ img.flatten, f.guid ≠ g → f ∈ img'.flatten) := by
  intro img
  induction img with
  | nil => intro img' h; simp [minus?] at h; subst h; simp
  | cons v rest ih =>
    intro img' h
    unfold minus? at h
    cases hv : minusVol? pg g v with
    | none => rw [hv] at h; simp at h
    | some v' =>
      rw [hv] at h
      simp only at h
      cases hm : minus? pg g rest with
      | none => rw [hm] at h; simp at h
      | some r =>
        rw [hm] at h; simp at h; subst h
        obtain ⟨a1, a2⟩ := minusVol?_mem pg g v v' hv
        obtain ⟨b1, b2⟩ := ih r hm
        simp only [List.flatten_cons, List.mem_append]
        constructor
        · intro f hf; rcases hf with hf | hf; exact a1 f hf; exact b1 f hf
        · intro f hf hne; rcases hf with hf | hf; exact Or.inl (a2 f hf hne); exact Or.inr (b2 f hf hne)

/-- removing a required GUID: the image no longer boots -/
theorem boots_minus_required (pg : Option Nat) (req : List Nat) (g : Nat) (img img' : Image)
    (hm : minus? pg g img = some img') (hg : g ∈ req) : boots req img' = false := by
  unfold boots
  rw [Bool.eq_false_iff]
  intro h
  rw [List.all_eq_true] at h
  have := h g hg
  rw [List.contains_iff_mem, mem_present] at this
  obtain ⟨f, hf, hk, hgu⟩ := this
  exact (minus?_mem pg g img img' hm).1 f hf hk hgu

/-- removing a GUID that is not required from an image that boots: it still boots -/
theorem boots_minus_other (pg : Option Nat) (req : List Nat) (g : Nat) (img img' : Image)
    (hm : minus? pg g img = some img') (hg : ¬ g ∈ req) (hb : boots req img = true) :
    boots req img' = true := by
  unfold boots at *
  rw [List.all_eq_true] at *
  intro h hh
  have := hb h hh
  rw [List.contains_iff_mem, mem_present] at *
  obtain ⟨f, hf, hk, hgu⟩ := this
  refine ⟨f, (minus?_mem pg g img img' hm).2 f hf ?_, hk, hgu⟩
  intro hc
  rw [hgu] at hc
  exact hg (hc ▸ hh)

theorem verdict_mono (b : Bool) :
    verdict { ok := b, err := .none } = if b then .accept else .reject := by
  cases b <;> rfl

/-- one round under the monotone oracle on an image that boots: exactly the candidates outside
    the required set are accepted, the others are put back, the image still boots -/
theorem round_mono (p : Nat) (req : List Nat) :
    ∀ (todo kept : List Nat) (more : Bool) (st : St Unit), boots req st.img = true →
      ∃ st', round (some p) (monoOracle req) todo kept more st =
          .done st' (kept ++ todo.filter (fun g => req.contains g))
            (more || !(todo.filter (fun g => !req.contains g)).isEmpty) ∧
        st'.removals = st.removals ++ todo.filter (fun g => !req.contains g) ∧
        boots req st'.img = true := by
  intro todo
  induction todo with
  | nil => intro kept more st hb; exact ⟨st, by simp [round], by simp, hb⟩
  | cons g todo ih =>
    intro kept more st hb
    obtain ⟨img', hm⟩ := minus?_some p g st.img
    have hs := removeAll_spec (some p) g st.img
    have hu := removeAll_undo (some p) g st.img
    rw [hm] at hs
    unfold round
    rcases hr : removeAll (some p) g st.img with ⟨i, undo, ok⟩
    rw [hr] at hs hu
    simp only at hs hu
    obtain ⟨h1, h2⟩ := hs
    subst h1 h2
    simp only [monoOracle]
    by_cases hg : g ∈ req
    · have hc : req.contains g = true := by simpa using hg
      rw [boots_minus_required (some p) req g st.img i hm hg]
      simp only [verdict_mono, Bool.false_eq_true, if_false]
      obtain ⟨st', e1, e2, e3⟩ := ih (kept ++ [g]) more
        { img := applyUndo undo i, os := (), removals := st.removals,
          trace := st.trace ++ [{ guid := g, base := st.img, shown := i, res := ⟨false, .none⟩ }] }
        (by simp only [hu]; exact hb)
      refine ⟨st', ?_, ?_, e3⟩
      · rw [e1]; simp [hg]
      · rw [e2]; simp [hg]
    · have hc : req.contains g = false := by simpa using hg
      rw [boots_minus_other (some p) req g st.img i hm hg hb]
      simp only [verdict_mono, if_true]
      obtain ⟨st', e1, e2, e3⟩ := ih kept true
        { img := i, os := (), removals := st.removals ++ [g],
          trace := st.trace ++ [{ guid := g, base := st.img, shown := i, res := ⟨true, .none⟩ }] }
        (boots_minus_other (some p) req g st.img i hm hg hb)
      refine ⟨st', ?_, ?_, e3⟩
      · rw [e1]; simp [hg]
      · rw [e2]; simp [hg]

theorem rounds_mono (p : Nat) (req : List Nat) (n : Nat) (dxes : List Nat) (st : St Unit)
    (hb : boots req st.img = true) :
    (rounds (some p) (monoOracle req) (n + 2) dxes st).1 = .ok ∧
    (rounds (some p) (monoOracle req) (n + 2) dxes st).2.removals =
      st.removals ++ dxes.filter (fun g => !req.contains g) := by
  obtain ⟨st1, e1, r1, b1⟩ := round_mono p req dxes [] false st hb
  unfold rounds
  rw [e1]
  simp only [Bool.false_or, List.nil_append]
  cases hmore : !(dxes.filter (fun g => !req.contains g)).isEmpty with
  | false => simp [r1]
  | true =>
    simp only [if_true]
    obtain ⟨st2, e2, r2, _⟩ := round_mono p req (dxes.filter (fun g => req.contains g)) [] false st1 b1
    have hnone : (dxes.filter (fun g => req.contains g)).filter (fun g => !req.contains g) = [] := by
      simp [List.filter_filter]
    unfold rounds
    rw [e2, hnone]
    simp [r2, r1]

/-! ### what survives a removal came from the source; what was removed is gone -/

theorem minusVol?_sub (pg : Option Nat) (g : Nat) :
    ∀ (v v' : Volume), minusVol? pg g v = some v' → ∀ f ∈ v', f.kind ≠ .pad → f ∈ v := by
  intro v
  induction v with
  | nil => intro v' h; simp [minusVol?] at h; subst h; simp
  | cons a rest ih =>
    intro v' h
    unfold minusVol? at h
    by_cases hg : a.guid = g
    · simp only [hg, if_true] at h
      by_cases hk : a.kind = .peim
      · simp only [hk, if_true] at h
        cases pg with
        | none => simp at h
        | some p =>
          simp only at h
          cases hm : minusVol? (some p) g rest with
          | none => rw [hm] at h; simp at h
          | some r =>
            rw [hm] at h; simp at h; subst h
            intro f hf hk2
            rcases List.mem_cons.mp hf with rfl | hf
            · simp [padOf] at hk2
            · exact List.mem_cons_of_mem _ (ih r hm f hf hk2)
      · simp only [hk, if_false] at h
        intro f hf hk2
        exact List.mem_cons_of_mem _ (ih v' h f hf hk2)
    · simp only [hg, if_false] at h
      cases hm : minusVol? pg g rest with
      | none => rw [hm] at h; simp at h
      | some r =>
        rw [hm] at h; simp at h; subst h
        intro f hf hk2
        rcases List.mem_cons.mp hf with rfl | hf
        · exact List.mem_cons_self ..
        · exact List.mem_cons_of_mem _ (ih r hm f hf hk2)

theorem minus?_sub (pg : Option Nat) (g : Nat) :
    ∀ (img img' : Image), minus? pg g img = some img' →
      ∀ f ∈ img'.flatten, f.kind ≠ .pad → f ∈ img.flatten := by
  intro img
  induction img with
  | nil => intro img' h; simp [minus?] at h; subst h; simp
  | cons v rest ih =>
    intro img' h
    unfold minus? at h
    cases hv : minusVol? pg g v with
    | none => rw [hv] at h; simp at h
    | some v' =>
      rw [hv] at h
      simp only at h
      cases hm : minus? pg g rest with
      | none => rw [hm] at h; simp at h
      | some r =>
        rw [hm] at h; simp at h; subst h
        simp only [List.flatten_cons, List.mem_append]
        intro f hf hk
        rcases hf with hf | hf
        · exact Or.inl (minusVol?_sub pg g v v' hv f hf hk)
        · exact Or.inr (ih r hm f hf hk)

theorem minusAll?_sub (pg : Option Nat) :
    ∀ (gs : List Nat) (img img' : Image), minusAll? pg img gs = some img' →
      ∀ f ∈ img'.flatten, f.kind ≠ .pad → f ∈ img.flatten := by
  intro gs
  induction gs with
  | nil => intro img img' h; simp [minusAll?] at h; subst h; intro f hf _; exact hf
  | cons g gs ih =>
    intro img img' h
    simp only [minusAll?] at h
    cases hm : minus? pg g img with
    | none => rw [hm] at h; simp at h
    | some im1 =>
      rw [hm] at h
      simp only [Option.bind_some] at h
      intro f hf hk
      exact minus?_sub pg g img im1 hm f (ih im1 img' h f hf hk) hk

/-- no (non-pad) file carrying a removed GUID is left -/
theorem minusAll?_removes (pg : Option Nat) :
    ∀ (gs : List Nat) (img img' : Image), minusAll? pg img gs = some img' →
      ∀ g ∈ gs, ∀ f ∈ img'.flatten, f.kind ≠ .pad → f.guid ≠ g := by
  intro gs
  induction gs with
  | nil => intro img img' _ g hg; cases hg
  | cons a gs ih =>
    intro img img' h g hg f hf hk
    simp only [minusAll?] at h
    cases hm : minus? pg a img with
    | none => rw [hm] at h; simp at h
    | some im1 =>
      rw [hm] at h
      simp only [Option.bind_some] at h
      rcases List.mem_cons.mp hg with rfl | hg
      · exact (minus?_mem pg g img im1 hm).1 f (minusAll?_sub pg gs im1 img' h f hf hk) hk
      · exact ih im1 img' h g hg f hf hk

/-! ### the whole run -/

theorem clean_inv (pg : Option Nat) (cand : FileId → Bool) (test : Oracle σ) (os : σ) (orig : Image) :
    Inv pg test os orig (clean pg cand test os orig).2 ∧
    ((clean pg cand test os orig).1 = .ok →
      (clean pg cand test os orig).2.img = endImg orig (clean pg cand test os orig).2.trace) := by
  have inv0 : Inv pg test os orig { img := orig, os := os, removals := [], trace := [] } :=
    ⟨trivial, rfl, rfl⟩
  unfold clean
  simp only
  split
  · exact ⟨inv0, fun h => by cases h⟩
  · exact rounds_inv pg test os orig _ _ _ inv0 rfl

theorem clean_fuel (pg : Option Nat) (cand : FileId → Bool) (test : Oracle σ) (os : σ) (orig : Image) :
    (clean pg cand test os orig).1 ≠ .fuel := by
  unfold clean
  simp only
  split
  · simp
  · exact rounds_fuel pg test _ _ _ (Nat.le_refl _)

/-! ### images without PEIM files: `minus?` is plain filtering -/

def NoPeim (img : Image) : Prop := ∀ v ∈ img, ∀ f ∈ v, f.kind ≠ .peim

theorem minusVol?_noPeim (pg : Option Nat) (g : Nat) :
    ∀ v : Volume, (∀ f ∈ v, f.kind ≠ .peim) → minusVol? pg g v = some (v.filter (fun f => !(f.guid == g))) := by
  intro v
  induction v with
  | nil => intro _; rfl
  | cons a rest ih =>
    intro h
    have ha := h a (List.mem_cons_self ..)
    have hr := ih (fun f hf => h f (List.mem_cons_of_mem _ hf))
    unfold minusVol?
    by_cases hg : a.guid = g
    · simp [hg, ha, hr]
    · simp [hg, hr]

theorem minus?_noPeim (pg : Option Nat) (g : Nat) :
    ∀ img : Image, NoPeim img → minus? pg g img = some (img.map (·.filter (fun f => !(f.guid == g)))) := by
  intro img
  induction img with
  | nil => intro _; rfl
  | cons v rest ih =>
    intro h
    have hv := minusVol?_noPeim pg g v (h v (List.mem_cons_self ..))
    have hr := ih (fun w hw => h w (List.mem_cons_of_mem _ hw))
    unfold minus?
    simp [hv, hr]

theorem NoPeim.filter {img : Image} (h : NoPeim img) (p : FileId → Bool) : NoPeim (img.map (·.filter p)) := by
  intro v hv f hf
  rw [List.mem_map] at hv
  obtain ⟨w, hw, rfl⟩ := hv
  exact h w hw f (List.mem_filter.mp hf).1

theorem map_filter_true (img : Image) : img.map (fun x => x.filter (fun _ => true)) = img := by
  induction img with
  | nil => rfl
  | cons v rest ih =>
    simp only [List.map_cons, ih, List.cons.injEq, and_true]
    exact List.filter_eq_self.mpr (fun _ _ => rfl)

theorem minusAll?_noPeim (pg : Option Nat) (gs : List Nat) :
    ∀ img : Image, NoPeim img → minusAll? pg img gs = some (filterOut gs img) := by
  induction gs with
  | nil =>
    intro img _
    simp only [minusAll?, filterOut, List.contains_nil, Bool.not_false, Option.some.injEq]
    exact (map_filter_true img).symm
  | cons g gs ih =>
    intro img h
    simp only [minusAll?, minus?_noPeim pg g img h, Option.bind_some, ih _ (h.filter _)]
    congr 1
    unfold filterOut
    simp only [List.map_map]
    apply List.map_congr_left
    intro v _
    simp only [Function.comp, List.filter_filter]
    apply List.filter_congr
    intro f _
    by_cases hg : f.guid = g <;> simp [hg]

end Fiano.Dxe
