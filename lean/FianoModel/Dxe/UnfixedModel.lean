/-
  The DXE cleaner **as it is in /repo before fixes/C11-*.diff** — kept as the record of the four
  defects of DESIGN.md §8 (rows 5, 6, 7, 24), each refuted in `Dxe/Unfixed.lean` on a concrete witness by `decide`
  and replayed on the real Go code by the harness (corpus/C11/defect-*.json).

  Differences from `Dxe/Model.lean` (= the repaired code):
   * `Remove.Visit` keeps walking `v.Matches` after a hit at slot `i` and evaluates
     `f.Files[i]` again although the slice just got shorter  → index-out-of-range panic when the
     hit was the last file of the volume and another match follows in the list          (row 5)
   * an Undo closure restores *its* volume and pops itself, it does not call its predecessor;
     the cleaner calls `remove.Undo()` once → only the newest snapshot is restored        (row 6)
   * `Undo` is nil when nothing matched (second occurrence of an already removed GUID in
     `dxes`) → nil-func call panics                                                        (row 7)
   * on `context.Canceled` the cleaner returns nil without undoing the removal in flight  (row 24)

  This file is the executable model only (also linked into the driver as `cleanu`, so that the
  harness can validate it against the unrepaired tree: VERIF_C11_MODEL=unfixed); the refutation
  theorems are in `Dxe/Unfixed.lean`.
-/
import FianoModel.Dxe.Model

namespace Fiano.Dxe.Unfixed
open Fiano.Dxe

inductive Status where
  | ok | noDxes | testErr | removeErr | panicIndex | panicNil | fuel
  deriving DecidableEq, Repr, Inhabited

def showStatus : Status → String
  | .ok => "ok" | .noDxes => "err" | .testErr => "err" | .removeErr => "err"
  | .panicIndex => "panic-index" | .panicNil => "panic-nil" | .fuel => "fuel"

inductive VisitRes (α : Type) where
  | ok (x : α) (u : Undo)
  | err (x : α) (u : Undo)      -- CreatePadFile failed
  | panic                        -- index out of range
  | fuel
  deriving Repr

/-- `for _, m := range v.Matches { if f.Files[i] == m { … } }` at a fixed `i`: after a hit the
    loop goes on with the remaining matches and the *shortened* slice. -/
def inner (pg : Option Nat) (vi i : Nat) : List FileId → Volume → Undo → VisitRes Volume
  | [], fs, u => .ok fs u
  | m :: ms, fs, u =>
    match fs[i]? with
    | none => .panic                                     -- f.Files[i], i ≥ len(f.Files)
    | some f =>
      if f = m then
        if f.kind = .peim then
          match pg with
          | none => .err fs u
          | some p => inner pg vi i ms (fs.set i (padOf p f)) ((vi, fs) :: u)
        else inner pg vi i ms (fs.eraseIdx i) ((vi, fs) :: u)
      else inner pg vi i ms fs u

/-- `for i := 0; i < len(f.Files); i++` (fuel = initial length + 1; `i` only grows, the slice
    only shrinks) -/
def outer (pg : Option Nat) (ms : List FileId) (vi : Nat) : Nat → Nat → Volume → Undo → VisitRes Volume
  | 0, _, _, _ => .fuel
  | n + 1, i, fs, u =>
    if i < fs.length then
      match inner pg vi i ms fs u with
      | .ok fs' u' => outer pg ms vi n (i + 1) fs' u'
      | r => r
    else .ok fs u

def visitImg (pg : Option Nat) (ms : List FileId) : Image → Image → Undo → VisitRes Image
  | done, [], u => .ok done u
  | done, v :: rest, u =>
    match outer pg ms done.length (v.length + 1) 0 v u with
    | .ok v' u' => visitImg pg ms (done ++ [v']) rest u'
    | .err v' u' => .err (done ++ v' :: rest) u'
    | .panic => .panic
    | .fuel => .fuel

def removeAll (pg : Option Nat) (g : Nat) (img : Image) : VisitRes Image :=
  visitImg pg (find (fun f => f.guid == g) img) [] img []

structure Final where
  status   : Status
  img      : Image
  removals : List Nat
  trace    : List (TestResult × Image)
  deriving Repr

/-- one round; `hist` is the scripted oracle (after its end: "does not boot") -/
def round (pg : Option Nat) :
    List Nat → List Nat → Bool → List TestResult → Image → List Nat → List (TestResult × Image) →
    Sum Final (Image × List TestResult × List Nat × List (TestResult × Image) × List Nat × Bool)
  | [], kept, more, hist, img, rem, tr => .inr (img, hist, rem, tr, kept, more)
  | g :: todo, kept, more, hist, img, rem, tr =>
    match removeAll pg g img with
    | .panic => .inl ⟨.panicIndex, img, rem, tr⟩
    | .fuel => .inl ⟨.fuel, img, rem, tr⟩
    | .err img' _ => .inl ⟨.removeErr, img', rem, tr⟩
    | .ok img' undo =>
      let (r, hist') := histOracle hist img'
      let tr' := tr ++ [(r, img')]
      match verdict r with
      | .cancel => .inl ⟨.ok, img', rem, tr'⟩            -- returns nil, removal NOT undone
      | .fail => .inl ⟨.testErr, img', rem, tr'⟩
      | .accept => round pg todo kept true hist' img' (rem ++ [g]) tr'
      | .reject =>
        match undo with
        | [] => .inl ⟨.panicNil, img', rem, tr'⟩         -- remove.Undo == nil
        | (vi, snap) :: _ =>                              -- one closure: restore one volume, pop
          round pg todo (kept ++ [g]) more hist' (img'.set vi snap) rem tr'

def rounds (pg : Option Nat) :
    Nat → List Nat → List TestResult → Image → List Nat → List (TestResult × Image) → Final
  | 0, _, _, img, rem, tr => ⟨.fuel, img, rem, tr⟩
  | n + 1, dxes, hist, img, rem, tr =>
    match round pg dxes [] false hist img rem tr with
    | .inl f => f
    | .inr (img', hist', rem', tr', kept, more) =>
      if more then rounds pg n kept hist' img' rem' tr' else ⟨.ok, img', rem', tr'⟩

def clean (pg : Option Nat) (cand : FileId → Bool) (hist : List TestResult) (img : Image) : Final :=
  let dxes := candidates cand img
  if dxes.isEmpty then ⟨.noDxes, img, [], []⟩ else rounds pg (dxes.length + 1) dxes hist img [] []

end Fiano.Dxe.Unfixed
