/-
  Specification vocabulary for C11, written from the property statement (not from the code):
  what "the image minus a removed GUID" is, what a trace of boot tests must look like.
-/
import FianoModel.Dxe.Model

namespace Fiano.Dxe

/-- volume minus GUID `g`: every file carrying `g` goes, order of the others preserved; a PEIM
    is replaced in place by a pad file.  `none`: the pad file cannot be made (no valid erase
    polarity) — then there is no such image. -/
def minusVol? (pg : Option Nat) (g : Nat) : Volume → Option Volume
  | [] => some []
  | f :: r =>
    if f.guid = g then
      if f.kind = .peim then
        match pg with
        | none => none
        | some p => (minusVol? pg g r).map (padOf p f :: ·)
      else minusVol? pg g r
    else (minusVol? pg g r).map (f :: ·)

/-- image minus GUID `g`, volume-wise -/
def minus? (pg : Option Nat) (g : Nat) : Image → Option Image
  | [] => some []
  | v :: r =>
    match minusVol? pg g v with
    | none => none
    | some v' => (minus? pg g r).map (v' :: ·)

/-- image minus a list of removals, in the order reported -/
def minusAll? (pg : Option Nat) : Image → List Nat → Option Image
  | im, [] => some im
  | im, g :: gs => (minus? pg g im).bind (fun im' => minusAll? pg im' gs)

/-- GUIDs the oracle accepted, in order -/
def accGuids (tr : List TraceEntry) : List Nat :=
  (tr.filter (fun e => decide (verdict e.res = .accept))).map (·.guid)

/-- the image that must be current after a test: the one shown if it was accepted, the one
    before the removal otherwise (reject, cancel) -/
def after (e : TraceEntry) : Image := if verdict e.res = .accept then e.shown else e.base

/-- the image that must be current after a whole trace, starting from `cur` -/
def endImg : Image → List TraceEntry → Image
  | cur, [] => cur
  | _, e :: r => endImg (after e) r

/-- A well-formed trace starting from `cur`: every test was made on the current image minus the
    candidate's GUID, and the next test starts from `after` the previous one. -/
def TraceOK (pg : Option Nat) : Image → List TraceEntry → Prop
  | _, [] => True
  | cur, e :: r => e.base = cur ∧ minus? pg e.guid cur = some e.shown ∧ TraceOK pg (after e) r

/-- the answers an oracle gives when shown a sequence of images -/
def runOracle {σ : Type} (test : Oracle σ) : σ → List Image → List TestResult × σ
  | os, [] => ([], os)
  | os, im :: r => ((test os im).1 :: (runOracle test (test os im).2 r).1, (runOracle test (test os im).2 r).2)

/-- the simple case of `minus?`: no PEIM involved — plain filtering -/
def filterOut (gs : List Nat) (img : Image) : Image := img.map (·.filter (fun f => !gs.contains f.guid))

end Fiano.Dxe
