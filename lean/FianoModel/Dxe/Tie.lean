/-
  T1 tie for C11: facts regenerated from pkg/visitors and pkg/uefi on every check
  (FianoModel/Gen/Dxe.lean, Gen/DxeUefi.lean) that the symbolic model relies on.
  The model has no numeric constants of its own; what it assumes of the code is
   * the four file kinds it distinguishes (`Kind`) are distinct values of `Header.Type`,
   * a removal by the cleaner is a removal *by GUID* (one `FindFileGUIDPredicate` call in
     `DXECleaner.Run`), and `Remove.Visit` has exactly one pad-file branch (`CreatePadFile`),
   * the harness' smallest file (32 bytes) is a legal pad-file size (≥ FileHeaderMinLength).
  Everything else about the tie is T2 (differential runs).
-/
import FianoModel.Dxe.Model
import FianoModel.Gen.Dxe
import FianoModel.Gen.DxeUefi

namespace Fiano.Dxe
open Fiano.Gen

/-- the value of `Header.Type` a model kind stands for (`other` = APPLICATION in the harness) -/
def Kind.code : Kind → Nat
  | .driver => DxeUefi.FVFileTypeDriver
  | .peim => DxeUefi.FVFileTypePEIM
  | .pad => DxeUefi.FVFileTypePad
  | .other => DxeUefi.FVFileTypeApplication

/-- distinct kinds are distinct file types in the code -/
theorem tie_kinds_distinct : ∀ a b : Kind, a.code = b.code → a = b := by
  intro a b; cases a <;> cases b <;> decide

theorem tie_remove_by_guid : Dxe.calls_DXECleaner_Run_FindFileGUIDPredicate.length = 1 := by decide

theorem tie_one_pad_site : Dxe.calls_Remove_Visit_uefi_CreatePadFile.length = 1 := by decide

theorem tie_min_pad_size : DxeUefi.FileHeaderMinLength ≤ 32 := by decide

end Fiano.Dxe
