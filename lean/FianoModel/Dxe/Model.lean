/-
  Model of the DXE cleaner: pkg/visitors/dxecleaner.go (DXECleaner.Run), pkg/visitors/remove.go
  (Remove.Run / Remove.Visit / the Undo closure chain) and pkg/visitors/find.go (Find) —
  **as repaired** by fixes/C11-*.diff (DESIGN.md §8 rows 5, 6, 7, 24).  The model of the code as
  it was before the repair, with the refutation of C11 on it, is `Dxe/UnfixedModel.lean` (refutation: `Dxe/Unfixed.lean`).

  A pure state machine, no bytes:
    * an image is a list of firmware volumes, a volume an ordered list of files (flat: volumes
      nested inside a file's sections are not modelled);
    * a file is `(guid, tag, kind)`; `tag` stands for the Go pointer identity (`f.Files[i] == m`);
    * `find`, `Remove.Visit` (per-volume snapshot + closure stack), the cleaner's round loop;
    * the boot test is an arbitrary state machine that *sees the image* (`Oracle σ`); a scripted
      history `List TestResult` and the monotone oracle are instances.

  What the cleaner removes (read off the code, not assumed): candidates are selected by
  `v.Predicate` (CLI: file type = DRIVER, minus a blacklist) but each removal is
  `Remove{Predicate: FindFileGUIDPredicate(guid)}` — *every* file carrying the candidate's GUID
  goes, whatever its type, in every volume; a PEIM-type file is not deleted but replaced by a pad
  file of the same size (`uefi.CreatePadFile`, which fails unless the erase polarity is 0x00/0xFF).

  Tied to the Go code by T1 (`Dxe/Tie.lean`, regenerated constants / call inventories) and
  T2 (harness/props/c11 driving `Driver/C11.lean`).  Core Lean only.
-/
namespace Fiano.Dxe

/-- the file types the code distinguishes (`Header.Type`): DRIVER (candidate predicate of the CLI),
    PEIM (padded instead of deleted), PAD (what `CreatePadFile` makes), anything else -/
inductive Kind where
  | driver | peim | pad | other
  deriving DecidableEq, Repr, Inhabited

structure FileId where
  guid : Nat          -- the GUID (an identity; only equality matters)
  tag  : Nat          -- pointer identity of the *uefi.File (unique per parsed file)
  kind : Kind
  deriving DecidableEq, Repr, Inhabited

abbrev Volume := List FileId
abbrev Image := List Volume

/-- `uefi.CreatePadFile(m.Header.ExtendedSize)`: a new file object, GUID all-FF or all-00 by the
    erase polarity, type PAD.  (The new object inherits the tag: the harness recognises it by
    its size, which is the size of the file it replaces.) -/
def padOf (p : Nat) (f : FileId) : FileId := { guid := p, tag := f.tag, kind := .pad }

/-! ### find.go — `Find.Run` with a file-only predicate: pre-order = volume order, file order -/

def find (p : FileId → Bool) (img : Image) : List FileId := img.flatten.filter p

/-! ### remove.go — `Remove.Visit` and the Undo closure chain (repaired) -/

/-- The closure stack `v.Undo`, newest first: each closure holds the volume it restores and the
    snapshot `originalList` taken just before one removal. -/
abbrev Undo := List (Nat × Volume)

/-- Calling `v.Undo()` after the repair: the newest closure restores its volume, pops itself and
    calls its predecessor, down to the bottom of the stack. -/
def applyUndo (u : Undo) (img : Image) : Image := u.foldl (fun im e => im.set e.1 e.2) img

/-- `Remove.Visit` on volume number `vi`: the loop `for i := 0; i < len(f.Files); i++` with
    `done` = `f.Files[:i]` (already examined, kept or padded) and `todo` = `f.Files[i:]`.
    `pg` = pad GUID if `CreatePadFile` can succeed (erase polarity 0x00 / 0xFF), `none` otherwise.
    Result: the new file list, the closure stack, and `false` if Visit returned an error (which
    leaves the removals made so far in place). -/
def visitVol (pg : Option Nat) (ms : List FileId) (vi : Nat) :
    Volume → Volume → Undo → Volume × Undo × Bool
  | done, [], u => (done, u, true)
  | done, f :: rest, u =>
    if ms.contains f then                       -- `f.Files[i] == m` for some m in v.Matches
      if f.kind = .peim then                    -- `v.Pad || Type == PEIM`; the cleaner never sets Pad
        match pg with
        | none => (done ++ f :: rest, u, false) -- CreatePadFile error: `return err`
        | some p =>                             -- `f.Files[i] = pf`, push closure, break, i++
          visitVol pg ms vi (done ++ [padOf p f]) rest ((vi, done ++ f :: rest) :: u)
      else                                      -- delete slot i, `i--`, push closure, break, i++
        visitVol pg ms vi done rest ((vi, done ++ f :: rest) :: u)
    else visitVol pg ms vi (done ++ [f]) rest u

/-- `f.Apply(v)` on the root: the volumes in order (`ApplyChildren`), stopping at the first error. -/
def visitImg (pg : Option Nat) (ms : List FileId) :
    Image → Image → Undo → Image × Undo × Bool
  | done, [], u => (done, u, true)
  | done, v :: rest, u =>
    match visitVol pg ms done.length [] v u with
    | (v', u', true) => visitImg pg ms (done ++ [v']) rest u'
    | (v', u', false) => (done ++ v' :: rest, u', false)

/-- `(&Remove{Predicate: FindFileGUIDPredicate(g)}).Run(f)`: find the matches first, then visit.
    `Undo` starts as the no-op installed by `Run` (empty stack). -/
def removeAll (pg : Option Nat) (g : Nat) (img : Image) : Image × Undo × Bool :=
  visitImg pg (find (fun f => f.guid == g) img) [] img []

/-! ### dxecleaner.go — the oracle and the round loop -/

inductive ErrKind where
  | none | canceled | other
  deriving DecidableEq, Repr, Inhabited

/-- what `v.Test(f)` returns: `(removedSuccessfully, err)` -/
structure TestResult where
  ok  : Bool
  err : ErrKind
  deriving DecidableEq, Repr, Inhabited

inductive Verdict where
  | accept | reject | cancel | fail
  deriving DecidableEq, Repr, Inhabited

/-- the `if … else if …` chain after `v.Test(f)` -/
def verdict (r : TestResult) : Verdict :=
  if r.err = .canceled then .cancel          -- err == context.Canceled (whatever the bool says)
  else if r.ok && r.err != .none then .fail  -- removedSuccessfully && err != nil → return err
  else if r.ok then .accept
  else .reject                               -- includes (false, err): the error is dropped

/-- The boot test: any state machine that is shown the image. -/
abbrev Oracle (σ : Type) := σ → Image → TestResult × σ

structure TraceEntry where
  guid  : Nat          -- the candidate being tried
  base  : Image        -- the image before `remove.Run`
  shown : Image        -- the image handed to `v.Test`
  res   : TestResult   -- what the oracle answered
  deriving DecidableEq, Repr

inductive Status where
  | ok          -- Run returned nil (loop finished, or the user cancelled)
  | noDxes      -- "found no DXEs in firmware image"
  | testErr     -- Test returned (true, err): `return err`, the removal in flight stays
  | removeErr   -- remove.Run failed (pad file could not be created)
  | fuel        -- never (theorem `c11_terminates`)
  deriving DecidableEq, Repr, Inhabited

structure St (σ : Type) where
  img      : Image
  os       : σ
  removals : List Nat           -- v.Removals
  trace    : List TraceEntry    -- every Test call, in order (observation, not program state)

inductive RoundOut (σ : Type) where
  | done (st : St σ) (kept : List Nat) (more : Bool)
  | stop (s : Status) (st : St σ)

/-- One round: `for i := 0; i < len(dxes); i++`.  `todo` = `dxes[i:]`, `kept` = `dxes[:i]`
    (candidates tried in this round and put back), `more` = `moreRoundsNeeded`. -/
def round {σ : Type} (pg : Option Nat) (test : Oracle σ) :
    List Nat → List Nat → Bool → St σ → RoundOut σ
  | [], kept, more, st => .done st kept more
  | g :: todo, kept, more, st =>
    match removeAll pg g st.img with
    | (img', _, false) => .stop .removeErr { st with img := img' }
    | (img', undo, true) =>
      let (r, os') := test st.os img'
      let tr := st.trace ++ [{ guid := g, base := st.img, shown := img', res := r }]
      match verdict r with
      | .cancel =>      -- repaired: undo the removal in flight, then `return nil`
        .stop .ok { img := applyUndo undo img', os := os', removals := st.removals, trace := tr }
      | .fail => .stop .testErr { img := img', os := os', removals := st.removals, trace := tr }
      | .accept =>      -- Removals += g; delete dxes[i]; i--; moreRoundsNeeded = true
        round pg test todo kept true
          { img := img', os := os', removals := st.removals ++ [g], trace := tr }
      | .reject =>      -- remove.Undo()
        round pg test todo (kept ++ [g]) more
          { img := applyUndo undo img', os := os', removals := st.removals, trace := tr }

/-- `for i := 0; moreRoundsNeeded; i++` -/
def rounds {σ : Type} (pg : Option Nat) (test : Oracle σ) : Nat → List Nat → St σ → Status × St σ
  | 0, _, st => (.fuel, st)
  | n + 1, dxes, st =>
    match round pg test dxes [] false st with
    | .stop s st' => (s, st')
    | .done st' kept more => if more then rounds pg test n kept st' else (.ok, st')

/-- the candidate list `dxes`: GUIDs of the matches of `v.Predicate`, duplicates kept -/
def candidates (cand : FileId → Bool) (img : Image) : List Nat := (find cand img).map (·.guid)

/-- `DXECleaner.Run` with `Removals` initially empty. -/
def clean {σ : Type} (pg : Option Nat) (cand : FileId → Bool) (test : Oracle σ) (os : σ)
    (img : Image) : Status × St σ :=
  let st0 : St σ := { img := img, os := os, removals := [], trace := [] }
  let dxes := candidates cand img
  if dxes.isEmpty then (.noDxes, st0) else rounds pg test (dxes.length + 1) dxes st0

/-! ### the two oracles used by the driver and in C11d -/

/-- scripted history; when it runs out the test says "does not boot" -/
def histOracle : Oracle (List TestResult)
  | [], _ => ({ ok := false, err := .none }, [])
  | r :: rest, _ => (r, rest)

/-- GUIDs of the files that are really there (a pad file is not a driver) -/
def present (img : Image) : List Nat := (img.flatten.filter (fun f => f.kind != .pad)).map (·.guid)

def boots (required : List Nat) (img : Image) : Bool := required.all (fun g => (present img).contains g)

/-- monotone oracle: boots iff every required GUID is present -/
def monoOracle (required : List Nat) : Oracle Unit :=
  fun _ img => ({ ok := boots required img, err := .none }, ())

/-- CLI predicate: type DRIVER and GUID not blacklisted -/
def cliCand (blacklist : List Nat) (f : FileId) : Bool := f.kind == .driver && !blacklist.contains f.guid

end Fiano.Dxe
