/-
  Helper lemmas for C11: the Undo chain restores the image (`removeAll_undo`), `Remove` computes
  `minus?` (`removeAll_spec`), list plumbing for traces.
-/
import FianoModel.Dxe.Spec

namespace Fiano.Dxe

/-! ### the Undo chain -/

theorem applyUndo_cons (e : Nat × Volume) (u : Undo) (img : Image) :
    applyUndo (e :: u) img = applyUndo u (img.set e.1 e.2) := rfl

theorem set_mid (pre : Image) (v w : Volume) (post : Image) :
    (pre ++ v :: post).set pre.length w = pre ++ w :: post := by
  induction pre with
  | nil => rfl
  | cons a pre ih => simp only [List.cons_append, List.length_cons, List.set_cons_succ, ih]

/-- Invariant of `Remove.Visit` on one volume: if unwinding the closure stack from the current
    image gives `orig`, it still does after the volume has been processed (whatever matched,
    and also when Visit stopped with an error). -/
theorem visitVol_undo (pg : Option Nat) (ms : List FileId) (pre post orig : Image) :
    ∀ (todo done : Volume) (u : Undo),
      applyUndo u (pre ++ (done ++ todo) :: post) = orig →
      applyUndo (visitVol pg ms pre.length done todo u).2.1
        (pre ++ (visitVol pg ms pre.length done todo u).1 :: post) = orig := by
  intro todo
  induction todo with
  | nil => intro done u h; simpa [visitVol] using h
  | cons f rest ih =>
    intro done u h
    unfold visitVol
    split
    · split
      · split
        · exact h
        · apply ih
          rw [applyUndo_cons]
          simp only [set_mid]
          exact h
      · apply ih
        rw [applyUndo_cons]
        simp only [set_mid]
        exact h
    · apply ih
      simpa using h

theorem visitImg_undo (pg : Option Nat) (ms : List FileId) (orig : Image) :
    ∀ (todo done : Image) (u : Undo), applyUndo u (done ++ todo) = orig →
      applyUndo (visitImg pg ms done todo u).2.1 (visitImg pg ms done todo u).1 = orig := by
  intro todo
  induction todo with
  | nil => intro done u h; simpa [visitImg] using h
  | cons v rest ih =>
    intro done u h
    have hA := visitVol_undo pg ms done rest orig v [] u (by simpa using h)
    unfold visitImg
    rcases hv : visitVol pg ms done.length [] v u with ⟨v', u', ok⟩
    rw [hv] at hA
    cases ok with
    | true =>
      simp only
      apply ih
      simpa using hA
    | false =>
      simp only
      exact hA

/-- **The repaired Undo restores the image**: after `Remove.Run`, calling `Undo()` brings every
    volume back to its file list before the run (also when the run failed half-way). -/
theorem removeAll_undo (pg : Option Nat) (g : Nat) (img : Image) :
    applyUndo (removeAll pg g img).2.1 (removeAll pg g img).1 = img := by
  unfold removeAll
  exact visitImg_undo pg _ img img [] [] rfl

/-! ### `Remove` computes `minus?` -/

theorem visitVol_spec (pg : Option Nat) (ms : List FileId) (vi g : Nat) :
    ∀ (todo done : Volume) (u : Undo), (∀ f ∈ todo, ms.contains f = (f.guid == g)) →
      match minusVol? pg g todo with
      | some r => (visitVol pg ms vi done todo u).1 = done ++ r ∧
                  (visitVol pg ms vi done todo u).2.2 = true
      | none => (visitVol pg ms vi done todo u).2.2 = false := by
  intro todo
  induction todo with
  | nil => intro done u _; simp [minusVol?, visitVol]
  | cons f rest ih =>
    intro done u h
    have hf := h f (List.mem_cons_self ..)
    have hr : ∀ x ∈ rest, ms.contains x = (x.guid == g) := fun x hx => h x (List.mem_cons_of_mem _ hx)
    unfold visitVol minusVol?
    by_cases hg : f.guid = g
    · have hc : ms.contains f = true := by rw [hf]; simpa using hg
      simp only [hc, hg, if_true]
      by_cases hk : f.kind = .peim
      · simp only [hk, if_true]
        cases pg with
        | none => simp
        | some p =>
          simp only
          have := ih (done ++ [padOf p f]) ((vi, done ++ f :: rest) :: u) hr
          cases hm : minusVol? (some p) g rest with
          | none => rw [hm] at this; simpa using this
          | some r => rw [hm] at this; simpa using this
      · simp only [hk, if_false]
        exact ih done ((vi, done ++ f :: rest) :: u) hr
    · have hc : ms.contains f = false := by rw [hf]; simpa using hg
      simp only [hc, hg, if_false]
      have := ih (done ++ [f]) u hr
      cases hm : minusVol? pg g rest with
      | none => rw [hm] at this; simpa using this
      | some r => rw [hm] at this; simpa using this

theorem visitImg_spec (pg : Option Nat) (ms : List FileId) (g : Nat) :
    ∀ (todo done : Image) (u : Undo), (∀ v ∈ todo, ∀ f ∈ v, ms.contains f = (f.guid == g)) →
      match minus? pg g todo with
      | some r => (visitImg pg ms done todo u).1 = done ++ r ∧ (visitImg pg ms done todo u).2.2 = true
      | none => (visitImg pg ms done todo u).2.2 = false := by
  intro todo
  induction todo with
  | nil => intro done u _; simp [minus?, visitImg]
  | cons v rest ih =>
    intro done u h
    have hv := visitVol_spec pg ms done.length g v [] u (h v (List.mem_cons_self ..))
    have hr : ∀ w ∈ rest, ∀ f ∈ w, ms.contains f = (f.guid == g) :=
      fun w hw => h w (List.mem_cons_of_mem _ hw)
    unfold visitImg minus?
    rcases hx : visitVol pg ms done.length [] v u with ⟨v', u', ok⟩
    rw [hx] at hv
    cases hm : minusVol? pg g v with
    | none =>
      rw [hm] at hv
      simp only at hv
      subst hv
      simp
    | some r =>
      rw [hm] at hv
      simp only [List.nil_append] at hv
      obtain ⟨h1, h2⟩ := hv
      subst h1 h2
      simp only
      have := ih (done ++ [v']) u' hr
      cases hm2 : minus? pg g rest with
      | none => rw [hm2] at this; simpa using this
      | some r2 => rw [hm2] at this; simpa using this

theorem find_contains (g : Nat) (img : Image) :
    ∀ v ∈ img, ∀ f ∈ v, (find (fun f => f.guid == g) img).contains f = (f.guid == g) := by
  intro v hv f hf
  have hmem : f ∈ img.flatten := List.mem_flatten.mpr ⟨v, hv, hf⟩
  by_cases hg : f.guid = g
  · have : f ∈ find (fun f => f.guid == g) img := by
      unfold find
      exact List.mem_filter.mpr ⟨hmem, by simpa using hg⟩
    simp [hg, this]
  · have : ¬ f ∈ find (fun f => f.guid == g) img := by
      unfold find
      intro hc
      have := (List.mem_filter.mp hc).2
      exact hg (by simpa using this)
    simp [hg, this]

/-- `Remove.Run` succeeds exactly when "image minus g" exists, and then produces it. -/
theorem removeAll_spec (pg : Option Nat) (g : Nat) (img : Image) :
    match minus? pg g img with
    | some r => (removeAll pg g img).1 = r ∧ (removeAll pg g img).2.2 = true
    | none => (removeAll pg g img).2.2 = false := by
  have := visitImg_spec pg (find (fun f => f.guid == g) img) g img [] [] (find_contains g img)
  unfold removeAll
  cases hm : minus? pg g img with
  | none => rw [hm] at this; simpa using this
  | some r => rw [hm] at this; simpa using this

theorem removeAll_ok (pg : Option Nat) (g : Nat) (img img' : Image) (u : Undo)
    (h : removeAll pg g img = (img', u, true)) : minus? pg g img = some img' := by
  have := removeAll_spec pg g img
  cases hm : minus? pg g img with
  | none => rw [hm] at this; rw [h] at this; simp at this
  | some r => rw [hm] at this; rw [h] at this; simp at this; rw [this]

/-! ### with a valid erase polarity removal never fails -/

theorem minusVol?_some (p g : Nat) (v : Volume) : ∃ r, minusVol? (some p) g v = some r := by
  induction v with
  | nil => exact ⟨[], rfl⟩
  | cons f rest ih =>
    obtain ⟨r, hr⟩ := ih
    unfold minusVol?
    by_cases hg : f.guid = g <;> by_cases hk : f.kind = .peim <;> simp [hg, hk, hr]

theorem minus?_some (p g : Nat) (img : Image) : ∃ r, minus? (some p) g img = some r := by
  induction img with
  | nil => exact ⟨[], rfl⟩
  | cons v rest ih =>
    obtain ⟨r, hr⟩ := ih
    obtain ⟨v', hv⟩ := minusVol?_some p g v
    unfold minus?
    simp [hv, hr]

/-! ### list plumbing for traces -/

theorem minusAll?_append (pg : Option Nat) (gs : List Nat) (g : Nat) :
    ∀ im, minusAll? pg im (gs ++ [g]) = (minusAll? pg im gs).bind (minus? pg g) := by
  induction gs with
  | nil =>
    intro im
    simp only [List.nil_append, minusAll?, Option.bind_some]
    cases minus? pg g im <;> simp
  | cons a gs ih =>
    intro im
    simp only [List.cons_append, minusAll?]
    cases minus? pg a im with
    | none => simp
    | some im' => simp [ih]

theorem accGuids_append (tr : List TraceEntry) (e : TraceEntry) :
    accGuids (tr ++ [e]) = accGuids tr ++ (if verdict e.res = .accept then [e.guid] else []) := by
  unfold accGuids
  by_cases h : verdict e.res = .accept <;> simp [List.filter_append, h]

theorem endImg_append (tr : List TraceEntry) (e : TraceEntry) :
    ∀ cur, endImg cur (tr ++ [e]) = after e := by
  induction tr with
  | nil => intro cur; rfl
  | cons a tr ih => intro cur; simp only [List.cons_append, endImg]; exact ih _

theorem TraceOK_append (pg : Option Nat) (tr : List TraceEntry) (e : TraceEntry) :
    ∀ cur, TraceOK pg cur (tr ++ [e]) ↔
      TraceOK pg cur tr ∧ e.base = endImg cur tr ∧ minus? pg e.guid (endImg cur tr) = some e.shown := by
  induction tr with
  | nil => intro cur; simp [TraceOK, endImg]
  | cons a tr ih =>
    intro cur
    simp only [List.cons_append, TraceOK, endImg, ih]
    constructor
    · rintro ⟨h1, h2, h3, h4, h5⟩; exact ⟨⟨h1, h2, h3⟩, h4, h5⟩
    · rintro ⟨⟨h1, h2, h3⟩, h4, h5⟩; exact ⟨h1, h2, h3, h4, h5⟩

/-- splitting a well-formed trace at any entry -/
theorem TraceOK_split (pg : Option Nat) (pre : List TraceEntry) (e : TraceEntry) (post : List TraceEntry) :
    ∀ cur, TraceOK pg cur (pre ++ e :: post) →
      TraceOK pg cur pre ∧ e.base = endImg cur pre ∧ minus? pg e.guid e.base = some e.shown ∧
      TraceOK pg (after e) post := by
  induction pre with
  | nil =>
    intro cur h
    simp only [List.nil_append, TraceOK] at h
    obtain ⟨h1, h2, h3⟩ := h
    exact ⟨trivial, h1, by rw [h1]; exact h2, h3⟩
  | cons a pre ih =>
    intro cur h
    simp only [List.cons_append, TraceOK] at h
    obtain ⟨h1, h2, h3⟩ := h
    obtain ⟨k1, k2, k3, k4⟩ := ih _ h3
    exact ⟨⟨h1, h2, k1⟩, k2, k3, k4⟩

/-- the current image after a well-formed trace is the start image minus the accepted GUIDs -/
theorem endImg_minusAll (pg : Option Nat) (tr : List TraceEntry) :
    ∀ cur, TraceOK pg cur tr → minusAll? pg cur (accGuids tr) = some (endImg cur tr) := by
  induction tr with
  | nil => intro cur _; rfl
  | cons e tr ih =>
    intro cur h
    obtain ⟨h1, h2, h3⟩ := h
    have := ih _ h3
    unfold accGuids at *
    by_cases ha : verdict e.res = .accept
    · simp only [List.filter_cons, ha, decide_true, if_true, List.map_cons, minusAll?, h2,
        Option.bind_some, endImg]
      simpa [after, ha] using this
    · simp only [List.filter_cons, ha, decide_false, endImg]
      simpa [after, ha, h1] using this

theorem runOracle_append {σ : Type} (test : Oracle σ) (ims : List Image) (im : Image) :
    ∀ os, runOracle test os (ims ++ [im]) =
      ((runOracle test os ims).1 ++ [(test (runOracle test os ims).2 im).1],
       (test (runOracle test os ims).2 im).2) := by
  induction ims with
  | nil => intro os; simp [runOracle]
  | cons a ims ih => intro os; simp [runOracle, ih]

end Fiano.Dxe
