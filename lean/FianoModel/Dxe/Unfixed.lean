/-
  C11 is false of the DXE cleaner **as it is in /repo before fixes/C11-*.diff**: the four defects
  of DESIGN.md §8 (rows 5, 6, 7, 24), each shown on the model of the unrepaired code
  (`Dxe/UnfixedModel.lean`) by a concrete witness checked with `decide`.  The same inputs are in
  corpus/C11/defect-row*.json and are replayed on the real Go code by the harness; the model
  of the unrepaired code itself was validated against the unrepaired tree by differential runs
  (reports/C11.md).

  The statements refuted are those of Props/C11.lean, transcribed to this model.
-/
import FianoModel.Dxe.UnfixedModel

namespace Fiano.Dxe.Unfixed
open Fiano.Dxe

/-! ### witnesses -/

def drv (g t : Nat) : FileId := { guid := g, tag := t, kind := .driver }
def isDriver (f : FileId) : Bool := f.kind == .driver
def rej : TestResult := ⟨false, .none⟩
def acc : TestResult := ⟨true, .none⟩
def cancel : TestResult := ⟨false, .canceled⟩

/-- §8 row 6: GUID 11 in both volumes -/
def imgDup : Image := [[drv 11 0, drv 10 1], [drv 11 2, drv 12 3]]
/-- §8 row 5: the matched file (GUID 11) is last in volume 0 and another match follows -/
def imgLast : Image := [[drv 10 0, drv 11 1], [drv 11 2, drv 12 3]]
/-- §8 row 24 -/
def imgTwo : Image := [[drv 10 0, drv 11 1]]

/-- **C11c is false of the current code** (§8 row 6): every test rejects, the cleaner returns nil
    and reports no removal, yet the image is not the original one (volume 0 has lost a driver). -/
theorem c11_current_code_refuted :
    ¬ ∀ (img : Image) (hist : List TestResult),
        (clean (some 0) isDriver hist img).status = .ok →
        (clean (some 0) isDriver hist img).removals = [] →
        (clean (some 0) isDriver hist img).img = img := by
  intro h
  exact absurd (h imgDup [] (by decide) (by decide)) (by decide)

/-- the concrete end state of that run: 3 of 4 drivers -/
theorem row6_final_state :
    (clean (some 0) isDriver [] imgDup).img = [[drv 10 1], [drv 11 2, drv 12 3]] := by decide

/-- §8 row 7: accept, then reject → `remove.Undo` is nil when the duplicate GUID comes up again -/
theorem row7_nil_undo_panic : (clean (some 0) isDriver [acc, rej] imgDup).status = .panicNil := by decide

/-- §8 row 5: `Remove.Visit` indexes past the end of the shortened slice -/
theorem row5_index_panic : (clean (some 0) isDriver [] imgLast).status = .panicIndex := by decide

/-- §8 row 24: cancellation at the first test returns nil, reports nothing, one driver is gone -/
theorem row24_cancel_not_undone :
    (clean (some 0) isDriver [cancel] imgTwo).status = .ok ∧
    (clean (some 0) isDriver [cancel] imgTwo).removals = [] ∧
    (clean (some 0) isDriver [cancel] imgTwo).img = [[drv 11 1]] := by decide

end Fiano.Dxe.Unfixed
