/-
  Tie T1 "code as code" for the tighten_me model (pkg/visitors/tightenme.go calls `uefi.IsErased` to
  decide whether the space it wants to give to the BIOS region is free): the model's `isErased` equals the Go function translated
  from the source on every run (Gen/CodeUefi.lean, kind `loopfn`), for every buffer and polarity.
-/
import FianoModel.Gen.CodeUefi
import FianoModel.TightenMe.Model
import FianoModel.CodeTie.Lemmas

namespace Fiano.TightenMe.CodeTie
open Fiano Fiano.GoRt
open Fiano.Gen.CodeUefi

theorem isErased_loop (pol : UInt8) (b : Bytes) :
    fn_IsErased.loop1 pol b = if b.all (fun c => c.toNat == pol.toNat) then Exit.fall () else Exit.ret false := by
  induction b with
  | nil => simp [fn_IsErased.loop1]
  | cons c rest ih =>
    simp only [fn_IsErased.loop1, List.all_cons]
    by_cases h : c = pol
    · subst h; simp [ih]
    · have : ¬ (c.toNat = pol.toNat) := fun e => h (UInt8.toNat_inj.mp e)
      simp [h, this]

/-- `TightenMe.isErased` is `uefi.IsErased` as translated from the source (the model keeps the polarity as
    a number; every polarity the Go code can pass is a byte) -/
theorem isErased_tie (b : Bytes) (pol : UInt8) : TightenMe.isErased b pol.toNat = fn_IsErased b pol := by
  unfold fn_IsErased TightenMe.isErased
  rw [isErased_loop]
  by_cases h : b.all (fun c => c.toNat == pol.toNat) <;> simp [h]

/-! ### FindSignature (the tighten_me model has its own copy of the descriptor search) -/

/-- `TightenMe.findSignature` is `uefi.FindSignature` as translated from the source: 20 for a signature
    at offset 16, 4 for one at offset 0, an error otherwise or for fewer than 20 bytes — never a panic,
    not even on the error path that dumps `buf[:20]` -/
theorem findSignature_tie (buf : Bytes) :
    fn_FindSignature buf = some (match TightenMe.findSignature buf with
      | some n => ((n : Int), nilErr)
      | none => ((-1 : Int), anErr)) := by
  unfold fn_FindSignature TightenMe.findSignature
  by_cases hs : buf.length < 20
  · have : ((buf.length : Int) < 20) := by omega
    simp [hs, this]
  · have h20 : ¬ ((buf.length : Int) < 20) := by omega
    have h4 : ((buf.length : Int) ≥ 4) := by omega
    have s1 : GoRt.slice buf (16 : Int) ((16 : Int) + (4 : Int)) = some (Fiano.slice buf 16 4) := by
      have := slice_ofNat buf 16 20
      rw [sliceN_ok buf 16 20 (by omega) (by omega)] at this
      exact this
    have s2 : GoRt.slice buf (0 : Int) (4 : Int) = some (Fiano.slice buf 0 4) := by
      have := slice_ofNat buf 0 4
      rw [sliceN_ok buf 0 4 (by omega) (by omega)] at this
      exact this
    have s3 : GoRt.slice buf (0 : Int) (20 : Int) = some (Fiano.slice buf 0 20) := by
      have := slice_ofNat buf 0 20
      rw [sliceN_ok buf 0 20 (by omega) (by omega)] at this
      exact this
    simp only [hs, h20, h4, decide_false, decide_true, Bool.false_eq_true, if_false, if_true, s1, s2, s3, bind, Option.bind,
      TightenMe.flashSig, pure]
    by_cases c1 : Fiano.slice buf 16 4 = [0x5a, 0xa5, 0xf0, 0x0f]
    · simp [c1]
    · by_cases c2 : Fiano.slice buf 0 4 = [0x5a, 0xa5, 0xf0, 0x0f]
      · simp [c1, c2]
      · simp [c1, c2]

/-! ### FindMEDescriptor (`bytes.Index` + the length of the signature) -/

/-- the run-time `bytes.Index` and the model's `indexOf` are the same scan (non-empty pattern) -/
theorem indexAux_eq (pat : Bytes) (hp : pat ≠ []) : ∀ (s : Bytes) (i : Nat),
    GoRt.indexAux pat s i = (match TightenMe.indexOf pat s i with | some j => (j : Int) | none => -1) := by
  intro s
  induction s with
  | nil =>
    intro i
    have : pat.isEmpty = false := by cases pat <;> simp_all
    simp [GoRt.indexAux, TightenMe.indexOf, this]
  | cons x xs ih =>
    intro i
    simp only [GoRt.indexAux, TightenMe.indexOf]
    by_cases h : pat.isPrefixOf (x :: xs) = true
    · simp [h]
    · simp only [h, Bool.false_eq_true, if_false]
      exact ih (i + 1)

/-- `uefi.FindMEDescriptor` as translated from the source: the position just behind the first `$FPT`
    (`indexOf fptSig buf 0 + 4`, as `parseFPT` of the model computes it), an error if there is none -/
theorem findMEDescriptor_tie (buf : Bytes) :
    fn_FindMEDescriptor buf = (match TightenMe.indexOf TightenMe.fptSig buf 0 with
      | some i => (((i + 4 : Nat) : Int), nilErr)
      | none => ((-1 : Int), anErr)) := by
  unfold fn_FindMEDescriptor GoRt.index
  have := indexAux_eq TightenMe.fptSig (by decide) buf 0
  simp only [TightenMe.fptSig] at this ⊢
  rw [this]
  cases h : TightenMe.indexOf [0x24, 0x46, 0x50, 0x54] buf 0 with
  | none => simp
  | some i =>
    have : ((i : Int) ≥ 0) := by omega
    simp [this]

end Fiano.TightenMe.CodeTie
