/-
  C12 (wp-c12c, task 2, the last link): the tree re-parsed from the saved image can be SAVED again
  when the probes are clean — so for clean images the second run succeeds iff `SecondOk`.

  Assemble's polarity bookkeeping for a BIOS region (`biosPol`) only looks at the sequence of
  (polarity, has-files) of its volumes (`volSig`).  The re-parsed elements have the same sequence as the
  first run's (clean probes: same volumes, `|E|` further on), the first run's save shows that no volume
  has files and that there is a first volume, and the parser leaves the polarity of the volumes it
  found (`Uefi.tp_bioselems`).
-/
import FianoModel.TightenMe.ReparseOk
import FianoModel.Uefi.ExtractParse

namespace Fiano.TightenMe
open Probe

/-- (polarity, has-files) of the volumes of an element list, in order -/
def volSig : List Elem → List (Nat × Bool)
  | [] => []
  | e :: es => if e.isFV then (e.pol, e.files) :: volSig es else volSig es

/-- `asmVolumes` on a signature -/
def avS : Nat → List (Nat × Bool) → Except Err Nat
  | pol, [] => .ok pol
  | pol, (ep, fl) :: s =>
    if fl then .error .unmodelled else
    match setPolarity pol ep with
    | .error _ => .error .asm
    | .ok pol' => avS pol' s

theorem asmVolumes_sig : ∀ (els : List Elem) (pol : Nat), asmVolumes pol els = avS pol (volSig els)
  | [], _ => rfl
  | e :: es, pol => by
    simp only [asmVolumes, volSig]
    by_cases h : e.isFV = true
    · simp only [h, if_true, avS]
      by_cases hf : e.files = true
      · simp only [hf, if_true]
      · simp only [hf, Bool.false_eq_true, if_false]
        cases hs : setPolarity pol e.pol with
        | error x => rfl
        | ok p' => exact asmVolumes_sig es p'
    · simp only [h, Bool.false_eq_true, if_false]
      exact asmVolumes_sig es pol

theorem firstFVPol_sig : ∀ (els : List Elem), firstFVPol els = (volSig els).head?.map (·.1)
  | [] => rfl
  | e :: es => by
    simp only [firstFVPol, volSig]
    by_cases h : e.isFV = true
    · simp only [h, if_true, List.head?_cons, Option.map_some]
    · simp only [h, Bool.false_eq_true, if_false]
      exact firstFVPol_sig es

/-- `biosPol` only depends on the signature -/
theorem biosPol_congr (pol : Nat) (a b : List Elem) (h : volSig a = volSig b) : biosPol pol a = biosPol pol b := by
  unfold biosPol
  rw [asmVolumes_sig a, asmVolumes_sig b, firstFVPol_sig a, firstFVPol_sig b, h]

theorem avS_ok_nofiles : ∀ (s : List (Nat × Bool)) (pol p : Nat), avS pol s = .ok p → ∀ x ∈ s, x.2 = false
  | [], _, _, _ => fun x hx => by cases hx
  | (ep, fl) :: s, pol, p, h => by
    simp only [avS] at h
    cases fl with
    | true => simp at h
    | false =>
      simp only [Bool.false_eq_true, if_false] at h
      cases hs : setPolarity pol ep with
      | error e => rw [hs] at h; cases h
      | ok p' =>
        rw [hs] at h
        intro x hx
        rcases List.mem_cons.mp hx with rfl | hx
        · rfl
        · exact avS_ok_nofiles s p' p h x hx

theorem setPolarity_self (q : Nat) : setPolarity q q = .ok q := by
  unfold setPolarity
  split
  · simp
  · rfl

theorem avS_fix : ∀ (s : List (Nat × Bool)) (q : Nat), (∀ x ∈ s, x.1 = q ∧ x.2 = false) → avS q s = .ok q
  | [], _, _ => rfl
  | (ep, fl) :: s, q, h => by
    obtain ⟨h1, h2⟩ := h (ep, fl) List.mem_cons_self
    simp only at h1 h2
    subst h1 h2
    simp only [avS, Bool.false_eq_true, if_false, setPolarity_self]
    exact avS_fix s ep (fun x hx => h x (List.mem_cons_of_mem _ hx))

/-- with every volume at polarity `q`, none with files and at least one volume, `biosPol q` is `q` -/
theorem biosPol_fix (q : Nat) (els : List Elem) (h : ∀ x ∈ volSig els, x.1 = q ∧ x.2 = false) (hne : volSig els ≠ []) :
    biosPol q els = .ok q := by
  unfold biosPol
  rw [asmVolumes_sig, avS_fix _ q h, firstFVPol_sig]
  cases hs : volSig els with
  | nil => exact absurd hs hne
  | cons x xs =>
    have := (h x (by rw [hs]; exact List.mem_cons_self)).1
    simp only [List.head?_cons, Option.map_some, this, setPolarity_self]

/-- a successful `biosPol` shows: no volume with files, at least one volume -/
theorem biosPol_ok_facts (pol p : Nat) (els : List Elem) (h : biosPol pol els = .ok p) :
    (∀ x ∈ volSig els, x.2 = false) ∧ volSig els ≠ [] := by
  unfold biosPol at h
  rw [asmVolumes_sig, firstFVPol_sig] at h
  cases h1 : avS pol (volSig els) with
  | error e => rw [h1] at h; cases h
  | ok p1 =>
    rw [h1] at h
    refine ⟨avS_ok_nofiles _ _ _ h1, ?_⟩
    intro he
    rw [he] at h
    simp at h

/-! ### the signature under the changes `tighten_me` and the re-parse make -/

theorem volSig_append (a b : List Elem) : volSig (a ++ b) = volSig a ++ volSig b := by
  induction a with
  | nil => rfl
  | cons e es ih =>
    simp only [List.cons_append, volSig]
    split
    · simp only [ih, List.cons_append]
    · exact ih

theorem volSig_shiftElems (s : Nat) (es : List Elem) : volSig (shiftElems s es) = volSig es := by
  unfold shiftElems
  induction es with
  | nil => rfl
  | cons e es ih => simp only [List.map_cons, volSig, ih]

theorem volSig_leadPad (t : Bytes) : volSig (leadPad t) = [] := by
  unfold leadPad
  split <;> simp [volSig]

theorem volSig_toElem_shiftE (s : Nat) (es : List Uefi.BiosElem) :
    volSig ((es.map (shiftE s)).map toElem) = volSig (es.map toElem) := by
  induction es with
  | nil => rfl
  | cons e es ih =>
    cases e with
    | pad b o => simp only [List.map_cons, shiftE, toElem, volSig, Bool.false_eq_true, if_false, ih]
    | fv v =>
      cases v with
      | mk i b fs => simp only [List.map_cons, shiftE, toElem, fvAt, Uefi.Fv.info, Uefi.Fv.files, volSig, if_true, ih]

theorem volSig_toElem_leadMerge (E : Bytes) (es : List Uefi.BiosElem) :
    volSig ((leadMerge E es).map toElem) = volSig (es.map toElem) := by
  match es with
  | [] => simp [leadMerge, toElem, volSig]
  | .pad b o :: r => simp [leadMerge, toElem, volSig]
  | .fv w :: r => simp [leadMerge, toElem, volSig]

/-- the parser leaves the polarity of the volumes it found -/
theorem volSig_topPol (p : UInt8) : ∀ (es : List Uefi.BiosElem), Uefi.topPolElems p es = true →
    ∀ x ∈ volSig (es.map toElem), x.1 = p.toNat
  | [], _ => fun x hx => by cases hx
  | .pad b o :: es, h => by
    simp only [Uefi.topPolElems] at h
    simp only [List.map_cons, toElem, volSig, Bool.false_eq_true, if_false]
    exact volSig_topPol p es h
  | .fv v :: es, h => by
    simp only [Uefi.topPolElems, Bool.and_eq_true, beq_iff_eq] at h
    simp only [List.map_cons, toElem, volSig, if_true]
    intro x hx
    rcases List.mem_cons.mp hx with rfl | hx
    · simp only [h.1]
    · exact volSig_topPol p es h.2 x hx

/-! ### the polarity fold over the regions -/

theorem polFold_fix (q : Nat) : ∀ (l : List Region),
    (∀ r ∈ l, ∀ len els, r.body = .bios len els → biosPol q els = .ok q) → polFold q l = .ok q
  | [], _ => rfl
  | r :: rs, h => by
    have ih := polFold_fix q rs (fun x hx => h x (List.mem_cons_of_mem _ hx))
    unfold polFold
    cases hb : r.body with
    | bios len els => simp only [h r List.mem_cons_self len els hb, ih]
    | me a b => simp only [ih]
    | raw => simp only [ih]

theorem polFold_ok_mem : ∀ (l : List Region) (p p' : Nat), polFold p l = .ok p' →
    ∀ r ∈ l, ∀ len els, r.body = .bios len els → ∃ pi po, biosPol pi els = .ok po
  | [], _, _, _ => fun r hr => by cases hr
  | x :: xs, p, p', h => by
    intro r hr len els hbody
    unfold polFold at h
    cases hb : x.body with
    | bios len' els' =>
      rw [hb] at h
      simp only [] at h
      cases hp : biosPol p els' with
      | error e => rw [hp] at h; cases h
      | ok p1 =>
        rw [hp] at h
        rcases List.mem_cons.mp hr with rfl | hr'
        · rw [hb] at hbody; injection hbody with _ e2; subst e2; exact ⟨p, p1, hp⟩
        · exact polFold_ok_mem xs p1 p' h r hr' len els hbody
    | me a b =>
      rw [hb] at h
      rcases List.mem_cons.mp hr with rfl | hr'
      · rw [hb] at hbody; cases hbody
      · exact polFold_ok_mem xs p p' h r hr' len els hbody
    | raw =>
      rw [hb] at h
      rcases List.mem_cons.mp hr with rfl | hr'
      · rw [hb] at hbody; cases hbody
      · exact polFold_ok_mem xs p p' h r hr' len els hbody

/-- slot 0 of the region loop, with the polarity: the loop ends with the polarity `NewBIOSRegion` left -/
theorem parseRegions_slot0_pol (img : Bytes) (nr : Nat) (r0 : FRegion) (tl : List FRegion) (pol : Nat)
    (rs : List Region) (pol' : Nat) (hv : r0.valid = true) (hin : r0.endOff ≤ img.length)
    (h : parseRegions img nr 0 (r0 :: tl) pol = .ok (rs, pol')) :
    ∃ els rs1,
      parseBios (Uefi.defaultFuel img) pol (slice img r0.baseOff (r0.endOff - r0.baseOff)) = .ok (els, pol') ∧
      rs = ⟨.idx 0, .bios (slice img r0.baseOff (r0.endOff - r0.baseOff)).length els,
            slice img r0.baseOff (r0.endOff - r0.baseOff)⟩ :: rs1 := by
  obtain ⟨els, pol1, rs1, hb, hrs⟩ := parseRegions_slot0 img nr r0 tl pol rs pol' hv hin h
  obtain ⟨rs', h'⟩ := parseRegions_slot0_ok img nr r0 tl pol els pol1 hv hin hb
  rw [h'] at h
  simp only [Except.ok.injEq, Prod.mk.injEq] at h
  rw [← h.2]
  exact ⟨els, rs1, hb, hrs⟩

set_option maxHeartbeats 2000000 in
set_option maxRecDepth 10000 in
/-- **Clean probes: the re-parsed tree can be saved.**  parse, `tighten_me`, save, re-parse (same initial
    polarity state): with `biosProbeClean img f.desc`, Assemble succeeds on the re-parsed tree with the
    polarity the second parse left. -/
theorem reparsed_saves_clean (p0 : Nat) (img : Bytes) (f f' g' t : Flash) (pol pa pa' q : Nat)
    (hsz : img.length % 4096 = 0) (hlt : img.length ≤ 2 ^ 28)
    (hp : parseFlash p0 img = .ok (f, pol)) (sane : f.desc.Sane)
    (ht : tighten pol f = .ok f') (hs : asmFlash pa f' = .ok (g', pa'))
    (hc : biosProbeClean img f.desc = true)
    (hr : parseFlash p0 g'.buf = .ok (t, q)) :
    ∃ s p, asmFlash q t = .ok (s, p) := by
  obtain ⟨w, hsize, _, hpay, hd, hcase⟩ := parse_WF p0 img f pol hsz hlt hp
  have w' := wf_tighten pol f f' w ht
  obtain ⟨pre, post, mer, br, fpt, free, blen, elems, r0, r1, rest, nb, hsplit, hregs, hmb, mref, hbb, bref,
    hadj, hb1, hnb, hnb1, hnb2, hmlen, her, hf'⟩ := tighten_shape pol f f' w ht
  have hout := asmFlash_ok_buf pa f' g' pa' w' hs
  rw [payload_tighten pol f f' w ht, hpay] at hout
  have hBl := asmDesc_length f'.desc w'.geom
  have himg4096 : descLen ≤ img.length := by
    have := chain_le _ _ _ _ w.chain; rw [hsize] at this; exact this
  have houtlen : g'.buf.length = img.length := by
    rw [hout, List.length_append, hBl, List.length_drop]; omega
  have htake : g'.buf.take descLen = asmDesc f'.desc := by rw [hout]; exact List.take_left' hBl
  have hdrop : g'.buf.drop descLen = img.drop descLen := by rw [hout]; exact List.drop_left' hBl
  have hdesc' : f'.desc = { f.desc with regs := { r0 with base := nb } :: { r1 with limit := nb - 1 } :: rest } := by
    rw [hf']
  have hu0 := w.u16 r0 (by rw [hregs]; simp)
  have hu1 := w.u16 r1 (by rw [hregs]; simp)
  have hrestlen : rest.length = 13 := by
    have := w.geom.regsLen; rw [hregs] at this; simp [nRegions] at this; omega
  obtain ⟨hpd, _⟩ := parseDesc_asmDesc (img.take descLen) f.desc hd sane
    ({ r0 with base := nb } :: { r1 with limit := nb - 1 } :: rest) (by simp [nRegions, hrestlen]) (by
      intro fr hfr
      simp only [List.mem_cons] at hfr
      rcases hfr with rfl | rfl | hfr
      · exact ⟨by simp only; omega, hu0.2⟩
      · exact ⟨hu1.1, by simp only; omega⟩
      · exact w.u16 fr (by rw [hregs]; simp [hfr]))
  rw [← hdesc'] at hpd
  obtain ⟨wt, _, _, _, td, _⟩ := parse_WF p0 g'.buf t q (by rw [houtlen]; exact hsz) (by rw [houtlen]; exact hlt) hr
  rw [htake, hpd] at td
  have htregs : t.desc.regs = { r0 with base := nb } :: { r1 with limit := nb - 1 } :: rest := by
    have := Except.ok.inj td; rw [← this, hdesc']
  -- nodes of the first parse
  have mermem : mer ∈ f.regions := by rw [hsplit]; simp
  have brmem : br ∈ f.regions := by rw [hsplit]; simp
  have hP : Parsed f.desc.regs img mer := by
    rcases hcase mer mermem with h | h
    · exact h
    · rw [h.1] at hmb; cases hmb
  have hPb : Parsed f.desc.regs img br := by
    rcases hcase br brmem with h | h
    · exact h
    · rw [h.1] at hbb; cases hbb
  obtain ⟨rs1, r0a, tla, _, hregs0, hr0v, hprs1, hfill1⟩ := parseFlash_inv p0 img f pol hp
  have e0 : r0a = r0 := by rw [hregs] at hregs0; injection hregs0 with a _; exact a.symm
  subst e0
  obtain ⟨ib, frb, hrefb, hgetb, _, hendb, _, _, _⟩ := hPb.slot
  have eb : ib = 0 ∧ frb = r0a := by
    rw [bref] at hrefb; injection hrefb with e; subst e
    rw [hregs] at hgetb; simp at hgetb; exact ⟨rfl, hgetb.symm⟩
  obtain ⟨_, rfl⟩ := eb
  have hmc := hP.content _ (frOf_idx f.desc.regs mer 1 mref _ (by rw [hregs]; rfl))
  rw [payload_me _ fpt free hmb] at hmc
  simp only [FRegion.baseOff, FRegion.endOff, blockSize] at hmc hendb
  have hv0 : frb.baseOff < frb.endOff := valid_pos frb hr0v
  simp only [FRegion.baseOff, FRegion.endOff, blockSize] at hv0
  have hvr0 := hr0v
  simp only [FRegion.valid, Bool.and_eq_true, decide_eq_true_eq, bne_iff_ne, ne_eq] at hvr0
  -- the first parse, slot 0: the BIOS node of `f`
  rw [hregs] at hprs1
  obtain ⟨els0, rs1', hb0, hrs1⟩ := parseRegions_slot0_pol img _ frb (r1 :: rest) p0 rs1 pol hr0v
    (by simp only [FRegion.endOff, blockSize]; exact hendb) hprs1
  have hbn1 : (⟨.idx 0, .bios (slice img frb.baseOff (frb.endOff - frb.baseOff)).length els0,
      slice img frb.baseOff (frb.endOff - frb.baseOff)⟩ : Region) ∈ f.regions := by
    apply fillGaps_mem _ _ _ _ _ _ hfill1
    apply (isort_perm _ rs1).mem_iff.mpr
    rw [hrs1]; exact List.mem_cons_self
  have helems : elems = els0 := by
    obtain ⟨ia, hia⟩ := List.getElem?_of_mem brmem
    obtain ⟨ib, hib⟩ := List.getElem?_of_mem hbn1
    have := w.oneBIOS ia ib _ _ hia hib (by simp [hbb, Body.isBIOS]) (by simp [Body.isBIOS])
    subst this
    rw [hia] at hib
    injection hib with hib
    rw [hib] at hbb
    simp only [Body.bios.injEq] at hbb
    exact hbb.2.symm
  -- the first save: no volume with files, at least one volume
  have hfacts : (∀ x ∈ volSig els0, x.2 = false) ∧ volSig els0 ≠ [] := by
    have hs' := hs
    rw [asmFlash_wf pa f' w'] at hs'
    cases hpf : polFold pa f'.regions with
    | error e => rw [hpf] at hs'; cases hs'
    | ok p2 =>
      have hbr' : ({ br with body := biosAfter blen elems (mer.buf.drop ((nb - r1.base) * 4096)) } : Region) ∈ f'.regions := by
        rw [hf']; simp
      obtain ⟨pi, po, hbp⟩ := polFold_ok_mem _ _ _ hpf _ hbr' _ _ rfl
      have := biosPol_ok_facts pi po _ hbp
      rw [volSig_append, volSig_leadPad, volSig_shiftElems, List.nil_append, helems] at this
      exact this
  -- the second parse, slot 0
  obtain ⟨rs2, r0b, tlb, _, hregsb, hr0bv, hprs2, hfill2⟩ := parseFlash_inv p0 g'.buf t q hr
  rw [htregs] at hregsb hprs2
  have er0b : r0b = { frb with base := nb } := by injection hregsb with a _; exact a.symm
  subst er0b
  obtain ⟨els2, rs2', hb2, hrs2⟩ := parseRegions_slot0_pol g'.buf _ { frb with base := nb } _ p0 rs2 q hr0bv
    (by simp only [FRegion.endOff, blockSize]; rw [houtlen]; exact hendb) hprs2
  have hslice : ∀ o n, descLen ≤ o → slice g'.buf o n = slice img o n := by
    intro o n ho
    have a : g'.buf = g'.buf.take descLen ++ g'.buf.drop descLen := (List.take_append_drop _ _).symm
    have b : img = img.take descLen ++ img.drop descLen := (List.take_append_drop _ _).symm
    rw [a, b, slice_append_right _ _ _ _ (by simp [descLen]; simp only [descLen] at ho; omega),
      slice_append_right _ _ _ _ (by simp [descLen]; simp only [descLen] at ho; omega)]
    simp only [List.length_take, hdrop]
    congr 1
    simp only [descLen] at himg4096 ⊢
    omega
  have hfuel : Uefi.defaultFuel g'.buf = Uefi.defaultFuel img := by simp only [Uefi.defaultFuel, houtlen]
  have hnb4096 : descLen ≤ FRegion.baseOff { frb with base := nb } := by
    simp only [FRegion.baseOff, blockSize, descLen]; omega
  rw [hfuel, hslice _ _ hnb4096] at hb2
  rw [hslice _ _ hnb4096] at hrs2
  have hbn2 : (⟨.idx 0, .bios (slice img (FRegion.baseOff { frb with base := nb })
        (FRegion.endOff { frb with base := nb } - FRegion.baseOff { frb with base := nb })).length els2,
      slice img (FRegion.baseOff { frb with base := nb })
        (FRegion.endOff { frb with base := nb } - FRegion.baseOff { frb with base := nb })⟩ : Region) ∈ t.regions := by
    apply fillGaps_mem _ _ _ _ _ _ hfill2
    apply (isort_perm _ rs2).mem_iff.mpr
    rw [hrs2]; exact List.mem_cons_self
  -- the elements of the second parse: polarity `q`, the signature of the first parse
  have hclean : probeClean (slice img frb.baseOff (frb.endOff - frb.baseOff)) = true := by
    simpa only [biosProbeClean, hregs] using hc
  have hsig2 : (∀ x ∈ volSig els2, x.1 = q) ∧ volSig els2 = volSig els0 := by
    unfold parseBios at hb0 hb2
    cases hq0 : Uefi.parseBiosElems Uefi.Hooks.none (Uefi.defaultFuel img)
        (slice img frb.baseOff (frb.endOff - frb.baseOff)) 0 { pol := UInt8.ofNat p0 } with
    | error e => rw [hq0] at hb0; cases hb0
    | ok q0 =>
      obtain ⟨es0, st0⟩ := q0
      rw [hq0] at hb0
      simp only [Except.ok.injEq, Prod.mk.injEq] at hb0
      cases hq2 : Uefi.parseBiosElems Uefi.Hooks.none (Uefi.defaultFuel img)
          (slice img (FRegion.baseOff { frb with base := nb })
            (FRegion.endOff { frb with base := nb } - FRegion.baseOff { frb with base := nb })) 0
          { pol := UInt8.ofNat p0 } with
      | error e => rw [hq2] at hb2; cases hb2
      | ok q2 =>
        obtain ⟨es2, st2⟩ := q2
        rw [hq2] at hb2
        simp only [Except.ok.injEq, Prod.mk.injEq] at hb2
        have htop := (Uefi.tp_bioselems _ _ _ _ _ _ _ hq2).2.1
        refine ⟨?_, ?_⟩
        · rw [← hb2.1, ← hb2.2]
          exact volSig_topPol st2.pol es2 htop
        · rw [← hb2.1, ← hb0.1]
          by_cases hfreed : nb < frb.base
          · generalize hE : slice img (nb * 4096) (frb.baseOff - nb * 4096) = E
            generalize hX : slice img frb.baseOff (frb.endOff - frb.baseOff) = X at hq0 hclean
            have hElen : E.length = (frb.base - nb) * 4096 := by
              rw [← hE, slice_length _ _ _ (by simp only [FRegion.baseOff, blockSize]; omega)]
              simp only [FRegion.baseOff, blockSize]
              rw [Nat.sub_mul]
            have hEer : isErased E pol = true := by
              have := her
              rw [hmc, slice_drop] at this
              have e1 : r1.base * 4096 + (nb - r1.base) * 4096 = nb * 4096 := by rw [Nat.sub_mul]; omega
              have e2 : (r1.limit + 1) * 4096 - r1.base * 4096 - (nb - r1.base) * 4096 = frb.baseOff - nb * 4096 := by
                simp only [FRegion.baseOff, blockSize]; rw [Nat.sub_mul, ← hadj]; omega
              rw [e1, e2, hE] at this
              exact this
            have hEf : Freed E := freed_of_erased E pol hEer (by rw [hElen]; exact Nat.mul_mod_left _ _)
              (by rw [hElen]; omega)
            have hsl : slice img (FRegion.baseOff { frb with base := nb })
                (FRegion.endOff { frb with base := nb } - FRegion.baseOff { frb with base := nb }) = E ++ X := by
              rw [← hE, ← hX]
              simp only [FRegion.baseOff, FRegion.endOff, blockSize]
              have e2 : (frb.limit + 1) * 4096 - nb * 4096 =
                  (frb.base * 4096 - nb * 4096) + ((frb.limit + 1) * 4096 - frb.base * 4096) := by omega
              rw [e2, slice_add]
              congr 2
              omega
            rw [hsl, parseBiosElems_prefix_clean Uefi.Hooks.none _ E X _ st0 es0 hEf hclean hq0] at hq2
            simp only [Except.ok.injEq, Prod.mk.injEq] at hq2
            rw [← hq2.1, volSig_toElem_leadMerge, volSig_toElem_shiftE]
          · have e : nb = frb.base := by omega
            subst e
            rw [hq0] at hq2
            simp only [Except.ok.injEq, Prod.mk.injEq] at hq2
            rw [hq2.1]
  -- Assemble on the re-parsed tree
  have hbv : biosSlotValid t = true := by
    unfold biosSlotValid
    rw [htregs]
    exact hr0bv
  have hfold : polFold q t.regions = .ok q := by
    apply polFold_fix
    intro r hrm len els hbody
    obtain ⟨ia, hia⟩ := List.getElem?_of_mem hrm
    obtain ⟨ib, hib⟩ := List.getElem?_of_mem hbn2
    have := wt.oneBIOS ia ib _ _ hia hib (by simp [hbody, Body.isBIOS]) (by simp [Body.isBIOS])
    subst this
    rw [hia] at hib
    injection hib with hib
    rw [hib] at hbody
    simp only [Body.bios.injEq] at hbody
    rw [← hbody.2]
    apply biosPol_fix q els2
    · intro x hx
      refine ⟨hsig2.1 x hx, ?_⟩
      rw [hsig2.2] at hx
      exact hfacts.1 x hx
    · rw [hsig2.2]; exact hfacts.2
  rw [asmFlash_wf q t wt, hfold]
  simp only [hbv, if_true]
  exact ⟨_, _, rfl⟩

/-- **The second run, clean probes**: it succeeds iff `SecondOk f f'`, and then writes the first saved
    image again — nothing about "can be loaded and saved" is left on the right-hand side. -/
theorem second_run_clean (p0 : Nat) (img : Bytes) (f f' g' : Flash) (pol pa pa' : Nat)
    (hsz : img.length % 4096 = 0) (hlt : img.length ≤ 2 ^ 28)
    (hp : parseFlash p0 img = .ok (f, pol)) (sane : f.desc.Sane)
    (ht : tighten pol f = .ok f') (hs : asmFlash pa f' = .ok (g', pa'))
    (hc : biosProbeClean img f.desc = true) :
    ((∃ s p, secondRun p0 g'.buf = .ok (s, p)) ↔ SecondOk f f') ∧
    (∀ s p, secondRun p0 g'.buf = .ok (s, p) → s.buf = g'.buf) := by
  have h := second_run p0 img f f' g' pol pa pa' p0 hsz hlt hp sane ht hs
  obtain ⟨t, q, hr⟩ := saved_image_parses_clean p0 img f f' g' pol pa pa' hsz hlt hp sane ht hs hc
  obtain ⟨s, p, hsv⟩ := reparsed_saves_clean p0 img f f' g' t pol pa pa' q hsz hlt hp sane ht hs hc hr
  exact ⟨⟨fun hrun => (h.1.mp hrun).2, fun hok => h.1.mpr ⟨⟨t, q, s, p, hr, hsv⟩, hok⟩⟩, h.2⟩

end Fiano.TightenMe
