/-
  C12 (wp-c12c, task 1 — the BIOS-region half): the reference grammar of C01 (volumes WITH files,
  sections, nested volumes, pad files, free space) is closed under what `tighten_me` does to the
  BIOS region, exactly under `probeClean`.

  After `tighten_me` + save the BIOS region of the image is `E ++ X`, `E` the freed blocks and
  `X = serBios b` the old region (c12_tree_save_frame: the bytes from 4096 on are those of the image
  saved without `tighten_me`, which for a grammar image is the image itself — C01 `asm_tree`).

   * `enlarge E b`: the grammar element whose first padding is `E ++ p` instead of `p`;
     `serBios_enlarge`: its serialisation is `E ++ serBios b`;
   * `wfBios_enlarge`: it is well-formed if `b` is and `probeClean (serBios b)` — the grammar's only
     semantic condition, "the volume scan finds each volume exactly at the end of the padding before
     it", survives because of `Probe.findFv_clean`;
   * `enlarged_region_roundtrip`: hence (C01 `parse_bios_region`, `asm_bios`, imported, not edited)
     the enlarged region parses to the grammar's tree of `enlarge E b` — all files and sections as
     before, every volume `|E|` further on, the freed blocks merged into the leading padding — and
     Assemble on that tree gives `E ++ serBios b` again: the saved region is a fixed point of
     parse + save, so a second run that frees nothing writes the same region bytes.
  What is NOT here: the flash wrapper for volumes with files (descriptor re-parse, region loop,
  second `tighten_me` on the tree level); for volumes without files that is `c12_second_*`.
-/
import FianoModel.Uefi.Lemmas.Top
import FianoModel.TightenMe.ProbeStart

namespace Fiano.TightenMe.Probe
open Fiano Fiano.Uefi Fiano.Uefi.Spec

/-- the grammar element after `tighten_me`: the freed blocks in front of the first padding -/
def enlarge (E : Bytes) (b : BiosI) : BiosI :=
  match b.items with
  | (p, v) :: is => { b with items := (E ++ p, v) :: is }
  | [] => b

theorem serBios_enlarge (E : Bytes) (b : BiosI) (hne : b.items ≠ []) : serBios (enlarge E b) = E ++ serBios b := by
  unfold enlarge
  cases hi : b.items with
  | nil => exact absurd hi hne
  | cons x xs =>
    obtain ⟨p, v⟩ := x
    simp only [serBios, serItems, hi, List.append_assoc]

/-- **the grammar is closed under the enlargement exactly when the probes are clean** (sufficiency) -/
theorem wfBios_enlarge (E : Bytes) (b : BiosI) (hE : Freed E) (hw : wfBios b = true)
    (hc : probeClean (serBios b) = true) : wfBios (enlarge E b) = true := by
  unfold enlarge
  cases hi : b.items with
  | nil => simp [wfBios, hi] at hw
  | cons x xs =>
    obtain ⟨p, v⟩ := x
    simp only [wfBios, hi, wfItems, Bool.and_eq_true, beq_iff_eq, List.isEmpty_cons, Bool.not_false, true_and] at hw ⊢
    obtain ⟨⟨⟨hv, hf⟩, hr⟩, ht⟩ := hw
    refine ⟨⟨⟨hv, ?_⟩, hr⟩, ht⟩
    have e : serItems ((E ++ p, v) :: xs) ++ b.tail = E ++ (serItems ((p, v) :: xs) ++ b.tail) := by
      simp only [serItems, List.append_assoc]
    have hc' : probeClean (serItems ((p, v) :: xs) ++ b.tail) = true := by
      simpa only [serBios, hi] using hc
    rw [e, findFv_clean E _ hE hc', hf]
    simp only [Option.map_some, List.length_append, Option.some.injEq]
    omega

/-- necessity: if a probe is dirty the enlarged element is NOT in the grammar (the scan finds a volume
    inside the freed blocks, not at the end of the padding `E ++ p`) -/
theorem wfBios_enlarge_dirty (E : Bytes) (b : BiosI) (hE : Freed E) (hne : b.items ≠ [])
    (hc : probeClean (serBios b) = false) : wfBios (enlarge E b) = false := by
  unfold enlarge
  cases hi : b.items with
  | nil => exact absurd hi hne
  | cons x xs =>
    obtain ⟨p, v⟩ := x
    have e : serItems ((E ++ p, v) :: xs) ++ b.tail = E ++ (serItems ((p, v) :: xs) ++ b.tail) := by
      simp only [serItems, List.append_assoc]
    have hc' : probeClean (serItems ((p, v) :: xs) ++ b.tail) = false := by
      simpa only [serBios, hi] using hc
    obtain ⟨o, _, ho, hf⟩ := findFv_dirty E _ hE hc'
    have h48 := hE.len40
    cases hw : wfBios { b with items := (E ++ p, v) :: xs } with
    | false => rfl
    | true =>
      exfalso
      simp only [wfBios, wfItems, Bool.and_eq_true, beq_iff_eq] at hw
      have := hw.1.2.1.2
      rw [e, hf] at this
      simp only [Option.some.injEq, List.length_append] at this
      omega

/-- **The enlarged region is a fixed point of parse + save, volumes with files included.**  For a
    BIOS region `serBios b` of C01's grammar, freed blocks `E` and clean probes: `NewBIOSRegion` on
    `E ++ serBios b` yields the grammar's tree of `enlarge E b` (polarity 0xFF), and Assemble on that
    tree yields a region whose buffer is `E ++ serBios b` again. -/
theorem enlarged_region_roundtrip (E : Bytes) (b : BiosI) (fr : Option FlashRegion) (fuel : Nat) (st : St)
    (hE : Freed E) (hw : wfBios b = true) (hc : probeClean (serBios b) = true)
    (hf : (E ++ serBios b).length + 1 ≤ fuel) (hp : st.pol = 0xFF ∨ st.pol = 0xF0) :
    Uefi.parseBios Hooks.none fuel (E ++ serBios b) fr st =
      .ok (treeBios (enlarge E b) fr, { st with pol := 0xFF }) ∧
    ∃ b' st', asmBios Hooks.none (treeBios (enlarge E b) fr) { st with pol := 0xFF, ffs3 := false } = .ok (b', st') ∧
      b'.buf = E ++ serBios b ∧ b'.fr = fr ∧ st'.pol = 0xFF := by
  have hne : b.items ≠ [] := by
    intro h0
    simp [wfBios, h0] at hw
  have hw' := wfBios_enlarge E b hE hw hc
  have hs := serBios_enlarge E b hne
  constructor
  · rw [← hs]
    exact parse_bios_region (enlarge E b) fr fuel st hw' (by rw [hs]; exact hf) hp
  · obtain ⟨b', st', h1, h2, h3, h4, _⟩ := asm_bios (enlarge E b) fr { st with pol := 0xFF, ffs3 := false } hw' rfl rfl
    exact ⟨b', st', h1, by rw [h2, hs], h3, h4⟩

end Fiano.TightenMe.Probe
