/-
  C12: `tighten` preserves well-formedness (in particular the regions still tile the flash), the
  concatenated payloads, and everything Assemble's success depends on.
-/
import FianoModel.TightenMe.TightenLemmas

namespace Fiano.TightenMe

theorem unique_elsewhere {α} (p : α → Bool) (pre post : List α) (a : α)
    (huniq : ∀ (i j : Nat) (x y : α), (pre ++ a :: post)[i]? = some x → (pre ++ a :: post)[j]? = some y →
      p x = true → p y = true → i = j)
    (ha : p a = true) : ∀ r, r ∈ pre ∨ r ∈ post → p r = false := by
  intro r hr
  cases hp : p r with
  | false => rfl
  | true =>
    exfalso
    have hmid : (pre ++ a :: post)[pre.length]? = some a := by simp
    rcases hr with hr | hr
    · obtain ⟨k, hk⟩ := List.getElem?_of_mem hr
      have hk' : k < pre.length := by
        rcases Nat.lt_or_ge k pre.length with h | h
        · exact h
        · rw [List.getElem?_eq_none h] at hk; cases hk
      have : (pre ++ a :: post)[k]? = some r := by rw [List.getElem?_append_left hk']; exact hk
      have := huniq k pre.length r a this hmid hp ha
      omega
    · obtain ⟨k, hk⟩ := List.getElem?_of_mem hr
      have : (pre ++ a :: post)[pre.length + 1 + k]? = some r := by
        rw [List.getElem?_append_right (by omega)]
        have : pre.length + 1 + k - pre.length = k + 1 := by omega
        rw [this]; simpa using hk
      have := huniq (pre.length + 1 + k) pre.length r a this hmid hp ha
      omega

/-- a raw node's FlashRegion is not one of the two rewritten table slots -/
theorem frOf_raw (a a' b b' : FRegion) (rest : List FRegion) (r : Region)
    (hraw : ∀ k, r.ref = .idx k → 2 ≤ k) :
    frOf (a' :: b' :: rest) r = frOf (a :: b :: rest) r := by
  unfold frOf
  split
  · rfl
  · rename_i k hk
    have := hraw k hk
    match k, this with
    | k + 2, _ => simp

def kind (r : Region) : Bool × Bool := (r.body.isME, r.body.isBIOS)

theorem getElem?_kind (l l' : List Region) (h : l'.map kind = l.map kind) (a : Nat) (x : Region)
    (hx : l'[a]? = some x) : ∃ x0, l[a]? = some x0 ∧ kind x0 = kind x := by
  have h1 : (l'.map kind)[a]? = some (kind x) := by simp [hx]
  rw [h] at h1
  simp only [List.getElem?_map, Option.map_eq_some_iff] at h1
  exact h1


theorem payload_me (r : Region) (fpt : Option (List Entry)) (free : Nat) (h : r.body = .me fpt free) :
    payload r = r.buf := by simp [payload, h]

theorem shiftElems_flat (s : Nat) (es : List Elem) :
    (shiftElems s es).flatMap (·.buf) = es.flatMap (·.buf) := by
  induction es with
  | nil => rfl
  | cons e es ih => simp only [shiftElems, List.map_cons, List.flatMap_cons] at *; rw [ih]

theorem leadPad_flat (tail : Bytes) : (leadPad tail).flatMap (·.buf) = tail := by
  unfold leadPad
  by_cases h : tail = []
  · simp [h]
  · simp [h]

theorem payload_biosAfter (r : Region) (blen : Nat) (elems : List Elem) (tail : Bytes) :
    payload { r with body := biosAfter blen elems tail } = tail ++ elems.flatMap (·.buf) := by
  simp [payload, biosAfter, shiftElems_flat, leadPad_flat]

set_option maxRecDepth 10000 in
/-- **`tighten` preserves well-formedness**; the `chain` field of the result says that the
    regions still tile the flash. -/
theorem wf_tighten (pol : Nat) (f f' : Flash) (w : WF f) (h : tighten pol f = .ok f') : WF f' := by
  obtain ⟨pre, post, mer, br, fpt, free, blen, elems, r0, r1, rest, nb, hsplit, hr, hmb, mref, hbb, bref,
    hadj, hb1, hnb, hnb1, hnb2, hmlen, her, hf'⟩ := tighten_shape pol f f' w h
  have hu1 := w.u16 r1 (by rw [hr]; simp)
  have hu0 := w.u16 r0 (by rw [hr]; simp)
  -- nodes before and after the pair are neither ME nor BIOS
  have hnotME : ∀ r, r ∈ pre ∨ r ∈ br :: post → r.body.isME = false := by
    apply unique_elsewhere (fun r => r.body.isME) pre (br :: post) mer
    · intro a b x y hx hy; rw [← hsplit] at hx hy; exact w.oneME a b x y hx hy
    · simp [hmb, Body.isME]
  have hnotBIOS : ∀ r, r ∈ pre ++ [mer] ∨ r ∈ post → r.body.isBIOS = false := by
    apply unique_elsewhere (fun r => r.body.isBIOS) (pre ++ [mer]) post br
    · intro a b x y hx hy
      have e : pre ++ [mer] ++ br :: post = f.regions := by rw [hsplit]; simp
      rw [e] at hx hy; exact w.oneBIOS a b x y hx hy
    · simp [hbb, Body.isBIOS]
  have hraw : ∀ r, r ∈ pre ∨ r ∈ post → r ∈ f.regions ∧ r.body = .raw := by
    intro r hr'
    have m1 : r.body.isME = false := hnotME r (by rcases hr' with h | h; exact Or.inl h; exact Or.inr (List.mem_cons_of_mem _ h))
    have m2 : r.body.isBIOS = false := hnotBIOS r (by rcases hr' with h | h; exact Or.inl (List.mem_append_left _ h); exact Or.inr h)
    refine ⟨by rw [hsplit]; rcases hr' with h | h <;> simp [h], ?_⟩
    cases hb : r.body with
    | raw => rfl
    | me _ _ => simp [hb, Body.isME] at m1
    | bios _ _ => simp [hb, Body.isBIOS] at m2
  have hfr : ∀ r, r ∈ pre ∨ r ∈ post →
      frOf ({ r0 with base := nb } :: { r1 with limit := nb - 1 } :: rest) r = frOf f.desc.regs r := by
    intro r hr'
    rw [hr]
    obtain ⟨hm, hb⟩ := hraw r hr'
    exact frOf_raw _ _ _ _ _ _ (w.rawRef r hm hb)
  -- the chain around the pair
  have hc := w.chain
  rw [hsplit, chain_append] at hc
  obtain ⟨m, hc1, fm, hfm, hm1, hm2, hm3, fb, hfb, hb1', hb2, hb3, hc2⟩ := hc
  have em : fm = r1 := by
    have := frOf_idx f.desc.regs mer 1 mref r1 (by simp [hr])
    rw [hfm] at this; injection this
  have eb : fb = r0 := by
    have := frOf_idx f.desc.regs br 0 bref r0 (by simp [hr])
    rw [hfb] at this; injection this
  subst em eb
  have hbl := w.bios br (by rw [hsplit]; simp) blen elems hbb
  rw [hf']
  simp only [FRegion.baseOff, FRegion.endOff, blockSize, descLen] at *
  have hkinds : (pre ++ { mer with buf := mer.buf.take ((nb - fm.base) * 4096) } ::
        { br with body := biosAfter blen elems (mer.buf.drop ((nb - fm.base) * 4096)) } :: post).map kind =
      f.regions.map kind := by
    rw [hsplit]; simp [kind, hbb, biosAfter, Body.isME, Body.isBIOS]
  have hmemcases : ∀ r, r ∈ pre ++ { mer with buf := mer.buf.take ((nb - fm.base) * 4096) } ::
        { br with body := biosAfter blen elems (mer.buf.drop ((nb - fm.base) * 4096)) } :: post →
      (r ∈ pre ∨ r ∈ post) ∨ r = { mer with buf := mer.buf.take ((nb - fm.base) * 4096) } ∨
      r = { br with body := biosAfter blen elems (mer.buf.drop ((nb - fm.base) * 4096)) } := by
    intro r hr'
    simp only [List.mem_append, List.mem_cons] at hr'
    rcases hr' with h | h | h | h
    · exact Or.inl (Or.inl h)
    · exact Or.inr (Or.inl h)
    · exact Or.inr (Or.inr h)
    · exact Or.inl (Or.inr h)
  have hfrm : frOf ({ fb with base := nb } :: { fm with limit := nb - 1 } :: rest)
      { mer with buf := mer.buf.take ((nb - fm.base) * 4096) } = .ok { fm with limit := nb - 1 } := by
    simp [frOf, mref]
  have hfrb : frOf ({ fb with base := nb } :: { fm with limit := nb - 1 } :: rest)
      { br with body := biosAfter blen elems (mer.buf.drop ((nb - fm.base) * 4096)) } = .ok { fb with base := nb } := by
    simp [frOf, bref]
  have hsub : nb * 4096 - fm.base * 4096 = (nb - fm.base) * 4096 := (Nat.sub_mul _ _ _).symm
  refine
    { geom := ?_, u16 := ?_, chain := ?_, meRef := ?_, biosRef := ?_, rawRef := ?_, oneME := ?_, oneBIOS := ?_,
      pos := ?_, bios := ?_, me := ?_ }
  · have g := w.geom
    exact ⟨g.bufLen, g.dmapLen, g.masterLen, by have := g.regsLen; rw [hr] at this; simpa using this,
      g.mapIn, g.regionIn, g.masterIn⟩
  · intro fr hfr'
    simp only [List.mem_cons] at hfr'
    rcases hfr' with rfl | rfl | hfr'
    · exact ⟨by simp only []; omega, hu0.2⟩
    · exact ⟨hu1.1, by simp only []; omega⟩
    · exact w.u16 fr (by rw [hr]; simp [hfr'])
  · -- the regions still tile
    rw [chain_append]
    refine ⟨m, (chain_congr _ _ _ _ _ (fun r hr' => hfr r (Or.inl hr'))).mpr hc1, ?_⟩
    refine ⟨_, hfrm, by simp only [FRegion.baseOff, blockSize]; exact hm1, ?_, ?_, ?_⟩
    · simp only [FRegion.baseOff, FRegion.endOff, blockSize]; omega
    · rw [payload_me _ fpt free (by simpa using hmb)]
      simp only [FRegion.baseOff, FRegion.endOff, blockSize, List.length_take]
      omega
    · refine ⟨_, hfrb, ?_, ?_, ?_, ?_⟩
      · simp only [FRegion.baseOff, FRegion.endOff, blockSize]; omega
      · simp only [FRegion.baseOff, FRegion.endOff, blockSize]; omega
      · rw [payload_biosAfter]
        have : (payload br).length = (elems.flatMap (·.buf)).length := by simp [payload, hbb]
        simp only [FRegion.baseOff, FRegion.endOff, blockSize, List.length_append, List.length_drop]
        omega
      · exact (chain_congr _ _ _ _ _ (fun r hr' => hfr r (Or.inr hr'))).mpr hc2
  · intro r hr' hme
    rcases hmemcases r hr' with h | rfl | rfl
    · exact w.meRef r (hraw r h).1 hme
    · exact mref
    · simp [biosAfter, Body.isME] at hme
  · intro r hr' hbi
    rcases hmemcases r hr' with h | rfl | rfl
    · exact w.biosRef r (hraw r h).1 hbi
    · simp [hmb, Body.isBIOS] at hbi
    · exact bref
  · intro r hr' hb k hk
    rcases hmemcases r hr' with h | rfl | rfl
    · exact w.rawRef r (hraw r h).1 hb k hk
    · simp [hmb] at hb
    · simp [biosAfter] at hb
  · intro a b x y hx hy px py
    obtain ⟨x0, hx0, kx⟩ := getElem?_kind _ _ hkinds a x hx
    obtain ⟨y0, hy0, ky⟩ := getElem?_kind _ _ hkinds b y hy
    simp only [kind, Prod.mk.injEq] at kx ky
    exact w.oneME a b x0 y0 hx0 hy0 (by rw [kx.1]; exact px) (by rw [ky.1]; exact py)
  · intro a b x y hx hy px py
    obtain ⟨x0, hx0, kx⟩ := getElem?_kind _ _ hkinds a x hx
    obtain ⟨y0, hy0, ky⟩ := getElem?_kind _ _ hkinds b y hy
    simp only [kind, Prod.mk.injEq] at kx ky
    exact w.oneBIOS a b x0 y0 hx0 hy0 (by rw [kx.2]; exact px) (by rw [ky.2]; exact py)
  · intro r hr' hnm fr hfr'
    rcases hmemcases r hr' with h | rfl | rfl
    · rw [hfr r h] at hfr'
      have := w.pos r (hraw r h).1 hnm fr hfr'
      simpa [FRegion.baseOff, FRegion.endOff, blockSize] using this
    · simp [hmb, Body.isME] at hnm
    · rw [hfrb] at hfr'; injection hfr' with hfr'; subst hfr'
      have := w.pos br (by rw [hsplit]; simp) (by simp [hbb, Body.isME]) fb hfb
      simp only [FRegion.baseOff, FRegion.endOff, blockSize] at this ⊢
      omega
  · intro r hr' len els hb
    rcases hmemcases r hr' with h | rfl | rfl
    · exact w.bios r (hraw r h).1 len els hb
    · simp [hmb] at hb
    · simp only [biosAfter, Body.bios.injEq] at hb
      obtain ⟨rfl, rfl⟩ := hb
      simp [shiftElems_flat, leadPad_flat, hbl]; omega
  · intro r hr' fpt' free' hb
    rcases hmemcases r hr' with h | rfl | rfl
    · exact w.me r (hraw r h).1 fpt' free' hb
    · exact w.me mer (by rw [hsplit]; simp) fpt' free' hb
    · simp [biosAfter] at hb


/-! ### what Assemble sees is unchanged -/

/-- **Frame**: the concatenated payloads (the image bytes after the descriptor) are unchanged;
    the cut-off ME tail is now the first element of the BIOS region. -/
theorem payload_tighten (pol : Nat) (f f' : Flash) (w : WF f) (h : tighten pol f = .ok f') :
    f'.regions.flatMap payload = f.regions.flatMap payload := by
  obtain ⟨pre, post, mer, br, fpt, free, blen, elems, r0, r1, rest, nb, hsplit, hr, hmb, mref, hbb, bref,
    hadj, hb1, hnb, hnb1, hnb2, hmlen, her, hf'⟩ := tighten_shape pol f f' w h
  rw [hf', hsplit]
  simp only [List.flatMap_append, List.flatMap_cons]
  rw [payload_me _ fpt free (by simpa using hmb), payload_biosAfter, payload_me mer fpt free hmb]
  have : payload br = elems.flatMap (·.buf) := by simp [payload, hbb]
  rw [this]
  simp only [← List.append_assoc, List.take_append_drop]

theorem polFold_append (pol : Nat) (l1 l2 : List Region) :
    polFold pol (l1 ++ l2) = match polFold pol l1 with
      | .ok p => polFold p l2
      | .error e => .error e := by
  induction l1 generalizing pol with
  | nil => rfl
  | cons r rs ih =>
    simp only [List.cons_append, polFold]
    cases hb : r.body with
    | bios len els =>
      simp only []
      cases biosPol pol els with
      | error e => rfl
      | ok p => exact ih p
    | me _ _ => exact ih pol
    | raw => exact ih pol

theorem asmVolumes_shift (pol s : Nat) (es : List Elem) : asmVolumes pol (shiftElems s es) = asmVolumes pol es := by
  induction es generalizing pol with
  | nil => rfl
  | cons e es ih =>
    simp only [shiftElems, List.map_cons, asmVolumes] at *
    cases e.isFV with
    | false => simpa using ih pol
    | true =>
      simp only [if_true]
      cases e.files with
      | true => rfl
      | false =>
        simp only [Bool.false_eq_true, if_false]
        cases setPolarity pol e.pol with
        | error _ => rfl
        | ok p => exact ih p

theorem firstFVPol_shift (s : Nat) (es : List Elem) : firstFVPol (shiftElems s es) = firstFVPol es := by
  induction es with
  | nil => rfl
  | cons e es ih =>
    simp only [shiftElems, List.map_cons, firstFVPol] at *
    cases e.isFV with
    | false => simpa using ih
    | true => rfl

theorem biosPol_after (pol s : Nat) (tail : Bytes) (es : List Elem) :
    biosPol pol (leadPad tail ++ shiftElems s es) = biosPol pol es := by
  unfold biosPol leadPad
  by_cases h : tail = []
  · simp only [h, if_true, List.nil_append, asmVolumes_shift, firstFVPol_shift]
  · simp only [h, if_false, List.singleton_append, asmVolumes, firstFVPol, Bool.false_eq_true, asmVolumes_shift,
      firstFVPol_shift]

/-- the erase-polarity bookkeeping of Assemble is unaffected -/
theorem polFold_tighten (pol p0 : Nat) (f f' : Flash) (w : WF f) (h : tighten pol f = .ok f') :
    polFold p0 f'.regions = polFold p0 f.regions := by
  obtain ⟨pre, post, mer, br, fpt, free, blen, elems, r0, r1, rest, nb, hsplit, hr, hmb, mref, hbb, bref,
    hadj, hb1, hnb, hnb1, hnb2, hmlen, her, hf'⟩ := tighten_shape pol f f' w h
  rw [hf', hsplit]
  simp only [polFold_append]
  cases polFold p0 pre with
  | error e => rfl
  | ok p =>
    simp only [polFold, hmb, hbb, biosAfter, biosPol_after]

/-- the BIOS slot stays valid -/
theorem biosSlotValid_tighten (pol : Nat) (f f' : Flash) (w : WF f) (h : tighten pol f = .ok f')
    (hv : biosSlotValid f = true) : biosSlotValid f' = true := by
  obtain ⟨pre, post, mer, br, fpt, free, blen, elems, r0, r1, rest, nb, hsplit, hr, hmb, mref, hbb, bref,
    hadj, hb1, hnb, hnb1, hnb2, hmlen, her, hf'⟩ := tighten_shape pol f f' w h
  have hu0 := w.u16 r0 (by rw [hr]; simp)
  rw [hf']
  simp only [biosSlotValid, hr, FRegion.valid, Bool.and_eq_true, decide_eq_true_eq, bne_iff_ne, ne_eq] at hv ⊢
  omega

/-! ### applying it again -/

theorem lastIdx_none_of {α} (p : α → Bool) (l : List α) (h : ∀ r ∈ l, p r = false) : lastIdx p l = none := by
  induction l with
  | nil => rfl
  | cons x xs ih =>
    simp only [lastIdx, ih (fun r hr => h r (List.mem_cons_of_mem _ hr)), h x List.mem_cons_self]
    simp

theorem lastIdx_at {α} (p : α → Bool) (pre post : List α) (a : α) (ha : p a = true)
    (hpost : ∀ r ∈ post, p r = false) : lastIdx p (pre ++ a :: post) = some pre.length := by
  induction pre with
  | nil => simp [lastIdx, lastIdx_none_of p post hpost, ha]
  | cons x xs ih => simp [lastIdx, ih]

/-- on a well-formed tree every node other than the ME and BIOS nodes is raw -/
theorem others_raw (f : Flash) (w : WF f) (pre post : List Region) (mer br : Region)
    (hsplit : f.regions = pre ++ mer :: br :: post)
    (hm : mer.body.isME = true) (hb : br.body.isBIOS = true) :
    ∀ r, r ∈ pre ∨ r ∈ post → r ∈ f.regions ∧ r.body = .raw := by
  have hnotME : ∀ r, r ∈ pre ∨ r ∈ br :: post → r.body.isME = false := by
    apply unique_elsewhere (fun r => r.body.isME) pre (br :: post) mer
    · intro a b x y hx hy; rw [← hsplit] at hx hy; exact w.oneME a b x y hx hy
    · exact hm
  have hnotBIOS : ∀ r, r ∈ pre ++ [mer] ∨ r ∈ post → r.body.isBIOS = false := by
    apply unique_elsewhere (fun r => r.body.isBIOS) (pre ++ [mer]) post br
    · intro a b x y hx hy
      have e : pre ++ [mer] ++ br :: post = f.regions := by rw [hsplit]; simp
      rw [e] at hx hy; exact w.oneBIOS a b x y hx hy
    · exact hb
  intro r hr'
  have m1 : r.body.isME = false := hnotME r (by rcases hr' with h | h; exact Or.inl h; exact Or.inr (List.mem_cons_of_mem _ h))
  have m2 : r.body.isBIOS = false := hnotBIOS r (by rcases hr' with h | h; exact Or.inl (List.mem_append_left _ h); exact Or.inr h)
  refine ⟨by rw [hsplit]; rcases hr' with h | h <;> simp [h], ?_⟩
  cases hb : r.body with
  | raw => rfl
  | me _ _ => simp [hb, Body.isME] at m1
  | bios _ _ => simp [hb, Body.isBIOS] at m2

theorem isErased_nil (pol : Nat) : isErased [] pol = true := rfl

/-- a second `tighten` on the result of a first one succeeds -/
theorem tighten_twice_ok (pol : Nat) (f f' : Flash) (w : WF f) (h : tighten pol f = .ok f') :
    ∃ f'', tighten pol f' = .ok f'' := by
  obtain ⟨pre, post, mer, br, fpt, free, blen, elems, r0, r1, rest, nb, hsplit, hr, hmb, mref, hbb, bref,
    hadj, hb1, hnb, hnb1, hnb2, hmlen, her, hf'⟩ := tighten_shape pol f f' w h
  have hu1 := w.u16 r1 (by rw [hr]; simp)
  have hfree := (w.me mer (by rw [hsplit]; simp) fpt free hmb).2
  have hraw := others_raw f w pre post mer br hsplit (by simp [hmb, Body.isME]) (by simp [hbb, Body.isBIOS])
  have hnw : r1.base * 4096 + free + blockSize < 2 ^ 64 := by simp only [blockSize]; omega
  have hbo' := bufOffset_eq (r1.base * 4096) free hnw
  have hX : (r1.base * 4096 + free + 4095) / 4096 = nb := by rw [hnb]; rfl
  rw [hX, ← Nat.sub_mul] at hbo'
  refine ⟨_, tighten_of pol f' pre.length (pre.length + 1)
    { mer with buf := mer.buf.take ((nb - r1.base) * 4096) }
    { br with body := biosAfter blen elems (mer.buf.drop ((nb - r1.base) * 4096)) }
    fpt free (blen + (mer.buf.drop ((nb - r1.base) * 4096)).length)
    (leadPad (mer.buf.drop ((nb - r1.base) * 4096)) ++ shiftElems (mer.buf.drop ((nb - r1.base) * 4096)).length elems)
    { r1 with limit := nb - 1 } { r0 with base := nb } ?_ ?_ ?_ ?_ ?_ ?_ ?_ ?_ ?_ ?_ ?_⟩
  · rw [hf']
    exact lastIdx_at _ pre _ _ (by simp [hmb, Body.isME]) (by
      intro r hr'
      rcases List.mem_cons.mp hr' with rfl | hr'
      · simp [biosAfter, Body.isME]
      · simp [(hraw r (Or.inr hr')).2, Body.isME])
  · rw [hf']
    have := lastIdx_at (fun r : Region => r.body.isBIOS) (pre ++ [{ mer with buf := mer.buf.take ((nb - r1.base) * 4096) }]) post
      { br with body := biosAfter blen elems (mer.buf.drop ((nb - r1.base) * 4096)) }
      (by simp [biosAfter, Body.isBIOS]) (by intro r hr'; simp [(hraw r (Or.inr hr')).2, Body.isBIOS])
    simpa using this
  · rw [hf']; simp
  · rw [hf']; simp
  · simpa using hmb
  · simp [biosAfter]
  · rw [hf']; simp [frOf, mref]
  · rw [hf']; simp [frOf, bref]
  · simp only [FRegion.endOff, FRegion.baseOff, blockSize]; omega
  · simp only [FRegion.baseOff, blockSize, hbo', List.length_take]; omega
  · simp only [FRegion.baseOff, blockSize, hbo']
    have : List.drop ((nb - r1.base) * 4096) (List.take ((nb - r1.base) * 4096) mer.buf) = [] := by
      simp
    rw [this]; rfl

/-- on a tree whose ME limit already is the computed boundary, `tighten` leaves the descriptor
    structures as they are -/
theorem tighten_tight_desc (pol : Nat) (g g' : Flash) (w : WF g) (h : tighten pol g = .ok g')
    (htight : ∀ r0 r1 rest mer fpt free, g.desc.regs = r0 :: r1 :: rest → mer ∈ g.regions →
      mer.body = .me fpt free → r1.limit + 1 = newBoundary r1.base free) :
    g'.desc = g.desc := by
  obtain ⟨pre, post, mer, br, fpt, free, blen, elems, r0, r1, rest, nb, hsplit, hr, hmb, mref, hbb, bref,
    hadj, hb1, hnb, hnb1, hnb2, hmlen, her, hf'⟩ := tighten_shape pol g g' w h
  have ht := htight r0 r1 rest mer fpt free hr (by rw [hsplit]; simp) hmb
  rw [hf']
  have hnbl : nb - 1 = r1.limit := by rw [hnb, ← ht]; rfl
  have hnbb : nb = r0.base := by rw [hnb, ← ht]; exact hadj
  have e1 : ({ r1 with limit := nb - 1 } : FRegion) = r1 := by rw [hnbl]
  have e0 : ({ r0 with base := nb } : FRegion) = r0 := by rw [hnbb]
  simp only [e1, e0, ← hr]

/-- the result of `tighten` is tight -/
theorem tighten_result_tight (pol : Nat) (f f' : Flash) (w : WF f) (h : tighten pol f = .ok f') :
    ∀ r0 r1 rest mer fpt free, f'.desc.regs = r0 :: r1 :: rest → mer ∈ f'.regions →
      mer.body = .me fpt free → r1.limit + 1 = newBoundary r1.base free := by
  obtain ⟨pre, post, mer, br, fpt, free, blen, elems, r0, r1, rest, nb, hsplit, hr, hmb, mref, hbb, bref,
    hadj, hb1, hnb, hnb1, hnb2, hmlen, her, hf'⟩ := tighten_shape pol f f' w h
  have hraw := others_raw f w pre post mer br hsplit (by simp [hmb, Body.isME]) (by simp [hbb, Body.isBIOS])
  intro r0' r1' rest' mer2 fpt2 free2 hr' hmem hb2
  rw [hf'] at hr' hmem
  simp only [List.cons.injEq] at hr'
  obtain ⟨_, e1, _⟩ := hr'
  subst e1
  simp only [List.mem_append, List.mem_cons] at hmem
  rcases hmem with hm | rfl | rfl | hm
  · rw [(hraw mer2 (Or.inl hm)).2] at hb2; cases hb2
  · simp only at hb2; rw [hmb] at hb2; injection hb2 with _ e; subst e
    simp only; omega
  · simp [biosAfter] at hb2
  · rw [(hraw mer2 (Or.inr hm)).2] at hb2; cases hb2

end Fiano.TightenMe
