/-
  C12, tree level: `tighten_me` and the modelled edit operations commute.

  `tightenFlash` touches the descriptor table, the ME node, and of the BIOS node its FlashRegion,
  `Length`, the reported offsets of its elements and one new leading padding.  The editors of
  `Uefi.step` (insert*, remove*, replace_pe32) rewrite file lists inside volumes and select by
  predicates that never look at a volume's reported offset.  Hence the two can be applied in either
  order (`step_tighten_comm`), and `tighten_me` changes no file, section or volume buffer
  (`tightenFlash_inv`).
-/
import FianoModel.TightenMe.Tree

namespace Fiano.TightenMe.T
open Fiano

/-! ### inversion of `tightenFlash` -/

/-- everything `process` checked, and the tree it built -/
structure Tightens (free pol : Nat) (f f' : Uefi.Flash) (i j : Nat) (mbuf : Bytes) (mfr : Uefi.FlashRegion)
    (b : Uefi.BiosRegion) (bfr : Uefi.FlashRegion) : Prop where
  hi : lastIdx isME f.regions = some i
  hj : lastIdx isBIOS f.regions = some j
  hme : f.regions[i]? = some (.me mbuf mfr)
  hbios : f.regions[j]? = some (.bios b)
  hfr : b.fr = some bfr
  adjacent : mfr.endOffset = bfr.baseOffset
  inside : bufOffset mfr.baseOffset free ≤ mbuf.length
  erased : isErased (mbuf.drop (bufOffset mfr.baseOffset free)) pol = true
  result : f' = tightened f i j mbuf mfr b bfr (bufOffset mfr.baseOffset free)
    (u16 (u64 (updateBase mfr.baseOffset free + 2 ^ 64 - 1))) (u16 (updateBase mfr.baseOffset free))
    (u64 (bfr.baseOffset + 2 ^ 64 - updateOffset mfr.baseOffset free))

theorem tightenFlash_inv (free pol : Nat) (f f' : Uefi.Flash) (h : tightenFlash free pol f = .ok f') :
    ∃ i j mbuf mfr b bfr, Tightens free pol f f' i j mbuf mfr b bfr := by
  unfold tightenFlash at h
  split at h
  · cases h
  · rename_i i hi
    split at h
    · cases h
    · rename_i j hj
      split at h
      · rename_i mbuf mfr b hme hbios
        split at h
        · cases h
        · rename_i bfr hfr
          split at h
          · cases h
          · rename_i hadj
            simp only [] at h
            split at h
            · cases h
            · rename_i hbo
              split at h
              · cases h
              · rename_i her
                injection h with h
                exact ⟨i, j, mbuf, mfr, b, bfr, hi, hj, hme, hbios, hfr, by simpa using hadj, by omega,
                  by simpa using her, h.symm⟩
      · cases h

theorem tightenFlash_of (free pol : Nat) (f f' : Uefi.Flash) (i j : Nat) (mbuf : Bytes) (mfr : Uefi.FlashRegion)
    (b : Uefi.BiosRegion) (bfr : Uefi.FlashRegion) (t : Tightens free pol f f' i j mbuf mfr b bfr) :
    tightenFlash free pol f = .ok f' := by
  obtain ⟨hi, hj, hme, hbios, hfr, hadj, hin, her, hres⟩ := t
  have h1 : ¬ bufOffset mfr.baseOffset free > mbuf.length := by omega
  unfold tightenFlash
  simp only [hi, hj, hme, hbios, hfr, hadj, ne_eq, not_true_eq_false, if_false, h1, her, Bool.not_true,
    Bool.false_eq_true, hres]

/-! ### offsets are invisible to the editors -/

/-- a selection predicate that does not look at the reported offset of a volume (every predicate the
    command line can build: they match GUIDs, names and types) -/
def Pred.OffInv (p : Uefi.Pred) : Prop :=
  ∀ (i : Uefi.FvInfo) (buf : Bytes) (files : List Uefi.File) (o : Nat),
    p.fv (.mk { i with fvOffset := o } buf files) = p.fv (.mk i buf files)

def Editor.OffInv (E : Uefi.Editor) : Prop :=
  ∀ (i : Uefi.FvInfo) (buf : Bytes) (files : List Uefi.File) (o : Nat),
    E.fv (.mk { i with fvOffset := o } buf files) = E.fv (.mk i buf files)

theorem rwFv_shift (E : Uefi.Editor) (hE : Editor.OffInv E) (i : Uefi.FvInfo) (buf : Bytes)
    (files : List Uefi.File) (o : Nat) :
    Uefi.rwFv E (.mk { i with fvOffset := o } buf files) =
      match Uefi.rwFv E (.mk i buf files) with
      | .ok (.mk i' buf' files') => .ok (.mk { i' with fvOffset := o } buf' files')
      | .error e => .error e := by
  rw [Uefi.rwFv, Uefi.rwFv, hE i buf files o]
  cases E.fv (.mk i buf files) with
  | some r =>
    cases r with
    | error e => rfl
    | ok fs => rfl
  | none =>
    simp only []
    cases Uefi.rwFiles E files with
    | error e => rfl
    | ok fs => rfl

/-- `rwFv` keeps the volume header -/
theorem rwFv_info (E : Uefi.Editor) (i : Uefi.FvInfo) (buf : Bytes) (files : List Uefi.File) (v' : Uefi.Fv)
    (h : Uefi.rwFv E (.mk i buf files) = .ok v') : ∃ files', v' = .mk i buf files' := by
  rw [Uefi.rwFv] at h
  split at h
  · cases h
  · cases h; exact ⟨_, rfl⟩
  · split at h
    · cases h
    · cases h; exact ⟨_, rfl⟩

theorem rwBiosElems_shift (E : Uefi.Editor) (hE : Editor.OffInv E) (s : Nat) (es : List Uefi.BiosElem) :
    Uefi.rwBiosElems E (es.map (shiftElem s)) =
      match Uefi.rwBiosElems E es with
      | .ok es' => .ok (es'.map (shiftElem s))
      | .error e => .error e := by
  induction es with
  | nil => rfl
  | cons e es ih =>
    cases e with
    | pad b o =>
      show Uefi.rwBiosElems E (.pad b (u64 (o + s)) :: es.map (shiftElem s)) = _
      rw [Uefi.rwBiosElems, Uefi.rwBiosElems, ih]
      cases Uefi.rwBiosElems E es with
      | error e => rfl
      | ok es' => rfl
    | fv v =>
      obtain ⟨i, buf, files⟩ := v
      show Uefi.rwBiosElems E (.fv (.mk { i with fvOffset := u64 (i.fvOffset + s) } buf files) :: es.map (shiftElem s)) = _
      rw [Uefi.rwBiosElems, Uefi.rwBiosElems, rwFv_shift E hE, ih]
      cases hv : Uefi.rwFv E (.mk i buf files) with
      | error e => rfl
      | ok v' =>
        obtain ⟨files', rfl⟩ := rwFv_info E i buf files v' hv
        simp only []
        cases Uefi.rwBiosElems E es with
        | error e => rfl
        | ok es' => rfl

theorem rwBios_grow (E : Uefi.Editor) (hE : Editor.OffInv E) (tail : Bytes) (shift ub : Nat)
    (bfr : Uefi.FlashRegion) (b : Uefi.BiosRegion) :
    Uefi.rwBios E (growBios tail shift ub bfr b) =
      match Uefi.rwBios E b with
      | .ok b' => .ok (growBios tail shift ub bfr b')
      | .error e => .error e := by
  unfold Uefi.rwBios growBios leadPadT
  by_cases ht : tail = []
  · simp only [ht, if_true, List.nil_append, rwBiosElems_shift E hE]
    cases Uefi.rwBiosElems E b.elems with
    | error e => rfl
    | ok es' => rfl
  · simp only [ht, if_false, List.singleton_append, Uefi.rwBiosElems, rwBiosElems_shift E hE]
    cases Uefi.rwBiosElems E b.elems with
    | error e => rfl
    | ok es' => rfl

/-! ### `rwRegions` against `List.set` -/

theorem rwRegions_cons_nonbios (E : Uefi.Editor) (r : Uefi.Region) (rs : List Uefi.Region) (hr : isBIOS r = false) :
    Uefi.rwRegions E (r :: rs) =
      match Uefi.rwRegions E rs with
      | .ok rs' => .ok (r :: rs')
      | .error e => .error e := by
  cases r with
  | bios b => simp [isBIOS] at hr
  | me x y => rw [Uefi.rwRegions]; (cases Uefi.rwRegions E rs <;> rfl); intro b hb; cases hb
  | raw x y z => rw [Uefi.rwRegions]; (cases Uefi.rwRegions E rs <;> rfl); intro b hb; cases hb

theorem rwRegions_cons_bios (E : Uefi.Editor) (b : Uefi.BiosRegion) (rs : List Uefi.Region) :
    Uefi.rwRegions E (.bios b :: rs) =
      match Uefi.rwBios E b with
      | .error e => .error e
      | .ok b' =>
        match Uefi.rwRegions E rs with
        | .ok rs' => .ok (.bios b' :: rs')
        | .error e => .error e := by
  rw [Uefi.rwRegions]
  cases Uefi.rwBios E b with
  | error e => rfl
  | ok b' => simp only []; cases Uefi.rwRegions E rs <;> rfl

/-- replacing a non-BIOS node by a non-BIOS node commutes with the rewriting -/
theorem rwRegions_set_nonbios (E : Uefi.Editor) (rs : List Uefi.Region) (k : Nat) (x y : Uefi.Region)
    (hk : rs[k]? = some y) (hy : isBIOS y = false) (hx : isBIOS x = false) :
    Uefi.rwRegions E (rs.set k x) =
      match Uefi.rwRegions E rs with
      | .ok rs' => .ok (rs'.set k x)
      | .error e => .error e := by
  induction rs generalizing k with
  | nil => simp at hk
  | cons r rs ih =>
    cases k with
    | zero =>
      simp only [List.getElem?_cons_zero, Option.some.injEq] at hk
      subst hk
      simp only [List.set_cons_zero]
      rw [rwRegions_cons_nonbios E x rs hx, rwRegions_cons_nonbios E r rs hy]
      cases Uefi.rwRegions E rs <;> rfl
    | succ k =>
      simp only [List.getElem?_cons_succ] at hk
      simp only [List.set_cons_succ]
      cases hr : isBIOS r with
      | false =>
        rw [rwRegions_cons_nonbios E r _ hr, rwRegions_cons_nonbios E r _ hr, ih k hk]
        cases Uefi.rwRegions E rs <;> rfl
      | true =>
        cases r with
        | bios b =>
          rw [rwRegions_cons_bios, rwRegions_cons_bios, ih k hk]
          cases Uefi.rwBios E b with
          | error e => rfl
          | ok b' => simp only []; cases Uefi.rwRegions E rs <;> rfl
        | me x y => simp [isBIOS] at hr
        | raw x y z => simp [isBIOS] at hr

/-- growing the BIOS node at `k` commutes with the rewriting -/
theorem rwRegions_set_grow (E : Uefi.Editor) (hE : Editor.OffInv E) (tail : Bytes) (shift ub : Nat)
    (bfr : Uefi.FlashRegion) (rs : List Uefi.Region) (k : Nat) (b : Uefi.BiosRegion)
    (hk : rs[k]? = some (.bios b)) :
    Uefi.rwRegions E (rs.set k (.bios (growBios tail shift ub bfr b))) =
      match Uefi.rwRegions E rs with
      | .ok rs' =>
        match rs'[k]? with
        | some (.bios b') => .ok (rs'.set k (.bios (growBios tail shift ub bfr b')))
        | _ => .ok rs'
      | .error e => .error e := by
  induction rs generalizing k with
  | nil => simp at hk
  | cons r rs ih =>
    cases k with
    | zero =>
      simp only [List.getElem?_cons_zero, Option.some.injEq] at hk
      subst hk
      simp only [List.set_cons_zero]
      rw [rwRegions_cons_bios, rwRegions_cons_bios, rwBios_grow E hE]
      cases Uefi.rwBios E b with
      | error e => rfl
      | ok b' => simp only []; cases Uefi.rwRegions E rs <;> rfl
    | succ k =>
      simp only [List.getElem?_cons_succ] at hk
      simp only [List.set_cons_succ]
      cases hr : isBIOS r with
      | false =>
        rw [rwRegions_cons_nonbios E r _ hr, rwRegions_cons_nonbios E r _ hr, ih k hk]
        cases Uefi.rwRegions E rs with
        | error e => rfl
        | ok rs' =>
          simp only [List.getElem?_cons_succ]
          cases rs'[k]? with
          | none => rfl
          | some r' => cases r' <;> rfl
      | true =>
        cases r with
        | bios b0 =>
          rw [rwRegions_cons_bios, rwRegions_cons_bios, ih k hk]
          cases Uefi.rwBios E b0 with
          | error e => rfl
          | ok b' =>
            simp only []
            cases Uefi.rwRegions E rs with
            | error e => rfl
            | ok rs' =>
              simp only [List.getElem?_cons_succ]
              cases rs'[k]? with
              | none => rfl
              | some r' => cases r' <;> rfl
        | me x y => simp [isBIOS] at hr
        | raw x y z => simp [isBIOS] at hr

/-! ### what the rewriting keeps -/

/-- `rwRegions` keeps every non-BIOS node and the kind of every node -/
theorem rwRegions_get (E : Uefi.Editor) (rs rs' : List Uefi.Region) (h : Uefi.rwRegions E rs = .ok rs') (k : Nat) :
    (∀ r, rs[k]? = some r → isBIOS r = false → rs'[k]? = some r) ∧
    (∀ b, rs[k]? = some (.bios b) → ∃ b', rs'[k]? = some (.bios b') ∧ Uefi.rwBios E b = .ok b') ∧
    (rs[k]? = none → rs'[k]? = none) := by
  induction rs generalizing rs' k with
  | nil =>
    simp only [Uefi.rwRegions] at h
    cases h
    simp
  | cons r rs ih =>
    cases hr : isBIOS r with
    | false =>
      rw [rwRegions_cons_nonbios E r rs hr] at h
      cases hrs : Uefi.rwRegions E rs with
      | error e => rw [hrs] at h; cases h
      | ok rs1 =>
        rw [hrs] at h; cases h
        cases k with
        | zero =>
          refine ⟨fun r' h1 _ => by simpa using h1, fun b h1 => ?_, fun h1 => by simp at h1⟩
          simp only [List.getElem?_cons_zero, Option.some.injEq] at h1
          subst h1; simp [isBIOS] at hr
        | succ k => simpa using ih rs1 hrs k
    | true =>
      cases r with
      | bios b0 =>
        rw [rwRegions_cons_bios] at h
        cases hb : Uefi.rwBios E b0 with
        | error e => rw [hb] at h; cases h
        | ok b' =>
          rw [hb] at h
          simp only [] at h
          cases hrs : Uefi.rwRegions E rs with
          | error e => rw [hrs] at h; cases h
          | ok rs1 =>
            rw [hrs] at h; cases h
            cases k with
            | zero =>
              refine ⟨fun r' h1 h2 => ?_, fun b h1 => ?_, fun h1 => by simp at h1⟩
              · simp only [List.getElem?_cons_zero, Option.some.injEq] at h1
                subst h1; simp [isBIOS] at h2
              · simp only [List.getElem?_cons_zero, Option.some.injEq, Uefi.Region.bios.injEq] at h1
                subst h1; exact ⟨b', by simp, hb⟩
            | succ k => simpa using ih rs1 hrs k
      | me x y => simp [isBIOS] at hr
      | raw x y z => simp [isBIOS] at hr

theorem lastIdx_congr {α} (p : α → Bool) (l l' : List α) (h : l'.map p = l.map p) : lastIdx p l' = lastIdx p l := by
  induction l generalizing l' with
  | nil => cases l' with
    | nil => rfl
    | cons _ _ => simp at h
  | cons x xs ih =>
    cases l' with
    | nil => simp at h
    | cons y ys =>
      simp only [List.map_cons, List.cons.injEq] at h
      simp only [lastIdx, ih ys h.2, h.1]

theorem rwRegions_kinds (E : Uefi.Editor) (rs rs' : List Uefi.Region) (h : Uefi.rwRegions E rs = .ok rs') :
    rs'.map isME = rs.map isME ∧ rs'.map isBIOS = rs.map isBIOS := by
  induction rs generalizing rs' with
  | nil => simp only [Uefi.rwRegions] at h; cases h; exact ⟨rfl, rfl⟩
  | cons r rs ih =>
    cases hr : isBIOS r with
    | false =>
      rw [rwRegions_cons_nonbios E r rs hr] at h
      cases hrs : Uefi.rwRegions E rs with
      | error e => rw [hrs] at h; cases h
      | ok rs1 =>
        rw [hrs] at h; cases h
        obtain ⟨a, b⟩ := ih rs1 hrs
        simp [a, b]
    | true =>
      cases r with
      | bios b0 =>
        rw [rwRegions_cons_bios] at h
        cases hb : Uefi.rwBios E b0 with
        | error e => rw [hb] at h; cases h
        | ok b' =>
          rw [hb] at h
          simp only [] at h
          cases hrs : Uefi.rwRegions E rs with
          | error e => rw [hrs] at h; cases h
          | ok rs1 =>
            rw [hrs] at h; cases h
            obtain ⟨a, b⟩ := ih rs1 hrs
            simp [a, b, isME, isBIOS]
      | me x y => simp [isBIOS] at hr
      | raw x y z => simp [isBIOS] at hr

theorem rwBios_fields (E : Uefi.Editor) (b b' : Uefi.BiosRegion) (h : Uefi.rwBios E b = .ok b') :
    b'.fr = b.fr ∧ b'.length = b.length ∧ b'.buf = b.buf := by
  unfold Uefi.rwBios at h
  split at h
  · cases h
  · cases h; exact ⟨rfl, rfl, rfl⟩

/-! ### the editor and `tightenFlash` commute -/

/-- **Frame.**  If an editor `E` (blind to reported offsets) rewrites the regions of `f` to `rs1`
    and `tighten_me` turns `f` into `f2`, then `tighten_me` turns the edited tree into some `f3`, and
    `E` rewrites the regions of `f2` to exactly the regions of `f3`: the two orders give the same tree. -/
theorem rw_tighten_comm (E : Uefi.Editor) (hE : Editor.OffInv E) (free pol : Nat) (f f2 : Uefi.Flash)
    (rs1 : List Uefi.Region) (hrw : Uefi.rwRegions E f.regions = .ok rs1)
    (ht : tightenFlash free pol f = .ok f2) :
    ∃ f3, tightenFlash free pol { f with regions := rs1 } = .ok f3 ∧
      Uefi.rwRegions E f2.regions = .ok f3.regions ∧ f3 = { f2 with regions := f3.regions } := by
  obtain ⟨i, j, mbuf, mfr, b, bfr, hi, hj, hme, hbios, hfr, hadj, hin, her, hres⟩ := tightenFlash_inv free pol f f2 ht
  obtain ⟨hkm, hkb⟩ := rwRegions_kinds E _ _ hrw
  obtain ⟨gi, _, _⟩ := rwRegions_get E _ _ hrw i
  obtain ⟨_, gj, _⟩ := rwRegions_get E _ _ hrw j
  have hme1 := gi _ hme rfl
  obtain ⟨b1, hb1, hrb⟩ := gj b hbios
  obtain ⟨fr1, _, _⟩ := rwBios_fields E b b1 hrb
  have hne : i ≠ j := by
    intro e; subst e; rw [hme] at hbios; cases hbios
  refine ⟨tightened { f with regions := rs1 } i j mbuf mfr b1 bfr (bufOffset mfr.baseOffset free)
    (u16 (u64 (updateBase mfr.baseOffset free + 2 ^ 64 - 1))) (u16 (updateBase mfr.baseOffset free))
    (u64 (bfr.baseOffset + 2 ^ 64 - updateOffset mfr.baseOffset free)), ?_, ?_, ?_⟩
  · apply tightenFlash_of free pol _ _ i j mbuf mfr b1 bfr
    exact ⟨by rw [← hi]; exact lastIdx_congr _ _ _ hkm, by rw [← hj]; exact lastIdx_congr _ _ _ hkb,
      hme1, hb1, by rw [fr1]; exact hfr, hadj, hin, her, rfl⟩
  · rw [hres]
    simp only [tightened]
    -- the BIOS node of the list in which the ME node was replaced
    have hjset : ∀ x, (f.regions.set i x)[j]? = some (.bios b) := by
      intro x; rw [List.getElem?_set_ne hne]; exact hbios
    rw [rwRegions_set_grow E hE _ _ _ _ _ j b (hjset _),
      rwRegions_set_nonbios E f.regions i _ _ hme rfl rfl, hrw]
    simp only []
    rw [List.getElem?_set_ne hne, hb1]
  · rw [hres]; rfl

/-! ### what `tighten_me` leaves alone -/

/-- the same element up to its reported offset -/
def sameButOffset : Uefi.BiosElem → Uefi.BiosElem → Prop
  | .pad b _, .pad b' _ => b' = b
  | .fv (.mk i buf files), .fv (.mk i' buf' files') =>
    buf' = buf ∧ files' = files ∧ { i' with fvOffset := 0 } = { i with fvOffset := 0 }
  | _, _ => False

theorem shiftElem_same (s : Nat) (e : Uefi.BiosElem) : sameButOffset e (shiftElem s e) := by
  cases e with
  | pad b o => rfl
  | fv v => obtain ⟨i, buf, files⟩ := v; exact ⟨rfl, rfl, rfl⟩

theorem growBios_buf (t : Bytes) (s u : Nat) (fr : Uefi.FlashRegion) (b : Uefi.BiosRegion) :
    (growBios t s u fr b).buf = b.buf := rfl
theorem growBios_elems (t : Bytes) (s u : Nat) (fr : Uefi.FlashRegion) (b : Uefi.BiosRegion) :
    (growBios t s u fr b).elems = leadPadT t ++ b.elems.map (shiftElem s) := rfl
theorem tightened_buf (f : Uefi.Flash) (i j : Nat) (mbuf : Bytes) (mfr : Uefi.FlashRegion) (b : Uefi.BiosRegion)
    (bfr : Uefi.FlashRegion) (bo lim ub shift : Nat) : (tightened f i j mbuf mfr b bfr bo lim ub shift).buf = f.buf := rfl
theorem tightened_flashSize (f : Uefi.Flash) (i j : Nat) (mbuf : Bytes) (mfr : Uefi.FlashRegion) (b : Uefi.BiosRegion)
    (bfr : Uefi.FlashRegion) (bo lim ub shift : Nat) :
    (tightened f i j mbuf mfr b bfr bo lim ub shift).flashSize = f.flashSize := rfl
theorem tightened_regions (f : Uefi.Flash) (i j : Nat) (mbuf : Bytes) (mfr : Uefi.FlashRegion) (b : Uefi.BiosRegion)
    (bfr : Uefi.FlashRegion) (bo lim ub shift : Nat) :
    (tightened f i j mbuf mfr b bfr bo lim ub shift).regions =
      (f.regions.set i (.me (mbuf.take bo) { mfr with limit := lim })).set j (.bios (growBios (mbuf.drop bo) shift ub bfr b)) := rfl

/-- **`tighten_me` changes no file, section or volume.**  After a successful `tighten_me` the
    BIOS node holds one new leading padding — the erased tail cut off the ME buffer, when there is
    one — followed by its old elements, each identical (header fields, buffer, files with all their sections) except
    for the reported offset; its own buffer is untouched; the ME node keeps a prefix of its buffer;
    every other node, the root buffer and the flash size are untouched. -/
theorem tighten_keeps_content (free pol : Nat) (f f' : Uefi.Flash) (h : tightenFlash free pol f = .ok f') :
    ∃ (i j : Nat) (mbuf : Bytes) (mfr : Uefi.FlashRegion) (b : Uefi.BiosRegion) (bfr : Uefi.FlashRegion) (tail : Bytes)
      (b' : Uefi.BiosRegion) (mfr' : Uefi.FlashRegion),
      f.regions[i]? = some (.me mbuf mfr) ∧ f.regions[j]? = some (.bios b) ∧ b.fr = some bfr ∧
      f'.regions[i]? = some (.me (mbuf.take (mbuf.length - tail.length)) mfr') ∧
      f'.regions[j]? = some (.bios b') ∧
      mbuf = mbuf.take (mbuf.length - tail.length) ++ tail ∧ isErased tail pol = true ∧
      (∃ rest : List Uefi.BiosElem, b'.elems = leadPadT tail ++ rest ∧ rest.length = b.elems.length ∧
        ∀ (k : Nat) (e e' : Uefi.BiosElem), b.elems[k]? = some e → rest[k]? = some e' → sameButOffset e e') ∧
      b'.buf = b.buf ∧
      (∀ k, k ≠ i → k ≠ j → f'.regions[k]? = f.regions[k]?) ∧
      f'.regions.length = f.regions.length ∧ f'.buf = f.buf ∧ f'.flashSize = f.flashSize := by
  obtain ⟨i, j, mbuf, mfr, b, bfr, hi, hj, hme, hbios, hfr, hadj, hin, her, hres⟩ := tightenFlash_inv free pol f f' h
  have hne : i ≠ j := by
    intro e; subst e; rw [hme] at hbios; cases hbios
  have hilt := (List.getElem?_eq_some_iff.mp hme).1
  have hjlt := (List.getElem?_eq_some_iff.mp hbios).1
  -- the numbers of `process` stay opaque (the kernel must never try to evaluate `x + 2^64`)
  generalize bufOffset mfr.baseOffset free = bo at hin her hres
  generalize u16 (u64 (updateBase mfr.baseOffset free + 2 ^ 64 - 1)) = lim at hres
  generalize u16 (updateBase mfr.baseOffset free) = ub at hres
  generalize u64 (bfr.baseOffset + 2 ^ 64 - updateOffset mfr.baseOffset free) = shift at hres
  have hcut : mbuf.length - (mbuf.drop bo).length = bo := by
    rw [List.length_drop]; omega
  subst hres
  refine ⟨i, j, mbuf, mfr, b, bfr, mbuf.drop bo, growBios (mbuf.drop bo) shift ub bfr b, { mfr with limit := lim },
    hme, hbios, hfr, ?_, ?_, ?_, her, ⟨b.elems.map (shiftElem shift), growBios_elems _ _ _ _ _, List.length_map _, ?_⟩,
    growBios_buf _ _ _ _ _, ?_, ?_, tightened_buf _ _ _ _ _ _ _ _ _ _ _, tightened_flashSize _ _ _ _ _ _ _ _ _ _ _⟩
  · rw [hcut, tightened_regions, List.getElem?_set_ne (Ne.symm hne), List.getElem?_set_self hilt]
  · rw [tightened_regions, List.getElem?_set_self (by rw [List.length_set]; exact hjlt)]
  · rw [hcut]; exact (List.take_append_drop _ _).symm
  · intro k e e' he he'
    rw [List.getElem?_map, he] at he'
    simp only [Option.map_some, Option.some.injEq] at he'
    subst he'
    exact shiftElem_same _ e
  · intro k hki hkj
    rw [tightened_regions, List.getElem?_set_ne (Ne.symm hkj), List.getElem?_set_ne (Ne.symm hki)]
  · rw [tightened_regions, List.length_set, List.length_set]

end Fiano.TightenMe.T
