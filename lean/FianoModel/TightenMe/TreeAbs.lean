/-
  C12: the flash-level model (TightenMe/Model.lean, where the theorems about the new boundary, the
  descriptor bytes, the partitions and the tiling are proved) is an ABSTRACTION of the shared tree
  model: `absFlash` forgets what is inside the volumes and replaces the FlashRegion a node carries
  by the table slot its pointer aliases.  `tighten_sim`: `tightenFlash` on the shared tree is
  `tighten` on the abstraction — so every flash-level theorem about `tighten` speaks about the tree
  the correspondence harness observes.
-/
import FianoModel.TightenMe.TreeFrame
import FianoModel.TightenMe.Preserve

namespace Fiano.TightenMe.T
open Fiano

/-! ### the abstraction -/

def absFR (r : Uefi.FlashRegion) : FRegion := ⟨r.base, r.limit⟩

/-- a BIOS element without its inside (the "has files" mark of `toElem` is dropped: nothing at the
    flash level depends on it, and the edit operations may change it) -/
def absElem (e : Uefi.BiosElem) : Elem := { toElem e with files := false }

/-- `fpt`, `free`: what NewMERegion stored in the ME node (the shared tree keeps the ME region opaque) -/
def absRegion (fpt : Option (List Entry)) (free : Nat) : Uefi.Region → Region
  | .bios b => ⟨.idx 0, .bios b.length (b.elems.map absElem), b.buf⟩
  | .me buf _ => ⟨.idx 1, .me fpt free, buf⟩
  | .raw buf fr t => ⟨if t = -1 then .own (absFR fr) else .idx t.toNat, .raw, buf⟩

def absDesc (d : Uefi.Descriptor) : Desc :=
  { buf := d.buf, mapStart := d.mapStart, dmap := d.map.fields.map Uefi.byte, regionStart := d.regionStart,
    masterStart := d.masterStart, eraseSize := d.region.eraseSize, regs := d.region.regions.map absFR,
    master := Uefi.encodePerms d.master.perms }

def absFlash (fpt : Option (List Entry)) (free : Nat) (f : Uefi.Flash) : Flash :=
  { desc := absDesc f.ifd, regions := f.regions.map (absRegion fpt free), size := f.flashSize, buf := f.buf }

/-- pointer aliasing, as a fact about values: the ME node carries table slot 1, the BIOS node slot 0,
    a raw node the slot of its type (gap regions, type -1, own a private FlashRegion) -/
structure Aliased (f : Uefi.Flash) : Prop where
  me : ∀ buf fr, .me buf fr ∈ f.regions → f.ifd.region.regions[1]? = some fr
  bios : ∀ b, .bios b ∈ f.regions → ∃ fr, b.fr = some fr ∧ f.ifd.region.regions[0]? = some fr
  raw : ∀ buf fr t, .raw buf fr t ∈ f.regions → t ≠ -1 → 0 ≤ t ∧ f.ifd.region.regions[t.toNat]? = some fr

/-! ### small facts -/

theorem absRegion_isME (fpt : Option (List Entry)) (free : Nat) (r : Uefi.Region) :
    (absRegion fpt free r).body.isME = isME r := by cases r <;> rfl

theorem absRegion_isBIOS (fpt : Option (List Entry)) (free : Nat) (r : Uefi.Region) :
    (absRegion fpt free r).body.isBIOS = isBIOS r := by cases r <;> rfl

theorem lastIdx_map {α β} (p : β → Bool) (g : α → β) (l : List α) :
    lastIdx p (l.map g) = lastIdx (fun x => p (g x)) l := by
  induction l with
  | nil => rfl
  | cons x xs ih => simp only [List.map_cons, lastIdx, ih]

theorem lastIdx_abs_me (fpt : Option (List Entry)) (free : Nat) (rs : List Uefi.Region) :
    lastIdx (fun r => r.body.isME) (rs.map (absRegion fpt free)) = lastIdx isME rs := by
  rw [lastIdx_map]; congr 1; funext r; exact absRegion_isME fpt free r

theorem lastIdx_abs_bios (fpt : Option (List Entry)) (free : Nat) (rs : List Uefi.Region) :
    lastIdx (fun r => r.body.isBIOS) (rs.map (absRegion fpt free)) = lastIdx isBIOS rs := by
  rw [lastIdx_map]; congr 1; funext r; exact absRegion_isBIOS fpt free r

theorem absElem_shift (s : Nat) (e : Uefi.BiosElem) :
    absElem (shiftElem s e) = { absElem e with off := u64 ((absElem e).off + s) } := by
  cases e with
  | pad b o => rfl
  | fv v => obtain ⟨i, buf, files⟩ := v; rfl

theorem absElems_shift (s : Nat) (es : List Uefi.BiosElem) :
    (es.map (shiftElem s)).map absElem = shiftElems s (es.map absElem) := by
  induction es with
  | nil => rfl
  | cons e es ih =>
    simp only [List.map_cons, shiftElems] at ih ⊢
    rw [ih, absElem_shift]

theorem map_setLimitAt (tbl : List Uefi.FlashRegion) (k v : Nat) :
    (setLimitAt tbl k v).map absFR = setRegLimit (tbl.map absFR) k v := by
  unfold setLimitAt setRegLimit
  rw [List.getElem?_map]
  cases tbl[k]? with
  | none => rfl
  | some fr => simp only [Option.map_some, List.map_set]; rfl

theorem map_setBaseAt (tbl : List Uefi.FlashRegion) (k v : Nat) :
    (setBaseAt tbl k v).map absFR = setRegBase (tbl.map absFR) k v := by
  unfold setBaseAt setRegBase
  rw [List.getElem?_map]
  cases tbl[k]? with
  | none => rfl
  | some fr => simp only [Option.map_some, List.map_set]; rfl

theorem baseOff_abs (fr : Uefi.FlashRegion) : (absFR fr).baseOff = fr.baseOffset := rfl
theorem endOff_abs (fr : Uefi.FlashRegion) : (absFR fr).endOff = fr.endOffset := rfl

/-! ### the simulation -/

/-- **`tightenFlash` on the shared tree is `tighten` on its abstraction** (for every stored
    partition table `fpt`; `free` is the FreeSpaceOffset both use). -/
theorem tighten_sim (fpt : Option (List Entry)) (free pol : Nat) (f f' : Uefi.Flash) (al : Aliased f)
    (h : tightenFlash free pol f = .ok f') :
    tighten pol (absFlash fpt free f) = .ok (absFlash fpt free f') := by
  obtain ⟨i, j, mbuf, mfr, b, bfr, hi, hj, hme, hbios, hfr, hadj, hin, her, hres⟩ := tightenFlash_inv free pol f f' h
  have a1 := al.me mbuf mfr (List.mem_of_getElem? hme)
  obtain ⟨bfr', hb', a0⟩ := al.bios b (List.mem_of_getElem? hbios)
  rw [hfr] at hb'; cases hb'
  have hT := tighten_of pol (absFlash fpt free f) i j (absRegion fpt free (.me mbuf mfr))
    (absRegion fpt free (.bios b)) fpt free b.length (b.elems.map absElem) (absFR mfr) (absFR bfr)
    (by simp only [absFlash]; rw [lastIdx_abs_me]; exact hi)
    (by simp only [absFlash]; rw [lastIdx_abs_bios]; exact hj)
    (by simp only [absFlash, List.getElem?_map, hme, Option.map_some])
    (by simp only [absFlash, List.getElem?_map, hbios, Option.map_some])
    rfl rfl
    (by simp only [absFlash, absDesc, frOf, absRegion, List.getElem?_map, a1, Option.map_some])
    (by simp only [absFlash, absDesc, frOf, absRegion, List.getElem?_map, a0, Option.map_some])
    (by rw [endOff_abs, baseOff_abs]; exact hadj)
    (by rw [baseOff_abs]; exact hin)
    (by rw [baseOff_abs]; exact her)
  rw [hT, hres]
  congr 1
  have hlp : (leadPadT (mbuf.drop (bufOffset mfr.baseOffset free))).map absElem =
      (if bufOffset mfr.baseOffset free < mbuf.length then
        [(⟨false, 0, mbuf.drop (bufOffset mfr.baseOffset free), 0, false⟩ : Elem)] else []) := by
    rw [leadPad_of_drop mbuf _ hin]
    unfold leadPadT leadPad
    by_cases ht : mbuf.drop (bufOffset mfr.baseOffset free) = []
    · simp [ht]
    · simp only [ht, if_false, List.map_cons, List.map_nil]; rfl
  simp only [TightenMe.tightened, tightened, absFlash, absRegion, writeLimit, writeBase, baseOff_abs, absDesc,
    growBios, map_setBaseAt, map_setLimitAt, List.map_set, absElems_shift, List.map_append, hlp]
  rfl

end Fiano.TightenMe.T
