/-
  C12 helper lemmas about `tighten`: inversion, adjacency of the ME and BIOS nodes in the region
  list, the explicit shape of the result on a well-formed tree.
-/
import FianoModel.TightenMe.AsmLemmas

namespace Fiano.TightenMe

/-- the tree `process` builds from the nodes it found -/
def tightened (f : Flash) (i j : Nat) (mer br : Region) (free blen : Nat) (elems : List Elem)
    (mfr bfr : FRegion) : Flash :=
  let ub := updateBase mfr.baseOff free
  let uo := updateOffset mfr.baseOff free
  let bo := bufOffset mfr.baseOff free
  let mer' : Region := { mer with buf := mer.buf.take bo }
  let f1 := writeLimit { f with regions := f.regions.set i mer' } i mer' (u16 (u64 (ub + 2 ^ 64 - 1)))
  let shift := u64 (bfr.baseOff + 2 ^ 64 - uo)
  let pads : List Elem := if bo < mer.buf.length then [⟨false, 0, mer.buf.drop bo, 0, false⟩] else []
  let br' : Region := { br with body := .bios (u64 (blen + shift)) (pads ++ shiftElems shift elems) }
  writeBase { f1 with regions := f1.regions.set j br' } j br' (u16 ub)

theorem tighten_ok_inv (pol : Nat) (f f' : Flash) (h : tighten pol f = .ok f') :
    ∃ i j mer br fpt free blen elems mfr bfr,
      lastIdx (fun r => r.body.isME) f.regions = some i ∧
      lastIdx (fun r => r.body.isBIOS) f.regions = some j ∧
      f.regions[i]? = some mer ∧ f.regions[j]? = some br ∧
      mer.body = .me fpt free ∧ br.body = .bios blen elems ∧
      frOf f.desc.regs mer = .ok mfr ∧ frOf f.desc.regs br = .ok bfr ∧
      mfr.endOff = bfr.baseOff ∧
      bufOffset mfr.baseOff free ≤ mer.buf.length ∧
      isErased (mer.buf.drop (bufOffset mfr.baseOff free)) pol = true ∧
      f' = tightened f i j mer br free blen elems mfr bfr := by
  unfold tighten at h
  split at h
  · cases h
  · rename_i i hi
    split at h
    · cases h
    · rename_i j hj
      split at h
      · rename_i mer br hmer hbr
        split at h
        · rename_i fpt free blen elems hmb hbb
          split at h
          · rename_i mfr bfr hmfr hbfr
            split at h
            · cases h
            · rename_i hcont
              simp only [] at h
              split at h
              · cases h
              · rename_i hbo
                split at h
                · cases h
                · rename_i her
                  injection h with h
                  refine ⟨i, j, mer, br, fpt, free, blen, elems, mfr, bfr, hi, hj, hmer, hbr, hmb, hbb, hmfr, hbfr,
                    by simpa using hcont, by omega, by simpa using her, ?_⟩
                  rw [← h]; rfl
          · cases h
          · cases h
        · cases h
      · cases h

/-- conversely: when the nodes are found, adjacent, the partitions end inside the buffer and the
    tail is erased, `tighten` succeeds with `tightened` -/
theorem tighten_of (pol : Nat) (f : Flash) (i j : Nat) (mer br : Region) (fpt : Option (List Entry))
    (free blen : Nat) (elems : List Elem) (mfr bfr : FRegion)
    (hi : lastIdx (fun r => r.body.isME) f.regions = some i)
    (hj : lastIdx (fun r => r.body.isBIOS) f.regions = some j)
    (hmer : f.regions[i]? = some mer) (hbr : f.regions[j]? = some br)
    (hmb : mer.body = .me fpt free) (hbb : br.body = .bios blen elems)
    (hmfr : frOf f.desc.regs mer = .ok mfr) (hbfr : frOf f.desc.regs br = .ok bfr)
    (hadj : mfr.endOff = bfr.baseOff)
    (hbo : bufOffset mfr.baseOff free ≤ mer.buf.length)
    (her : isErased (mer.buf.drop (bufOffset mfr.baseOff free)) pol = true) :
    tighten pol f = .ok (tightened f i j mer br free blen elems mfr bfr) := by
  obtain ⟨mref, mbody, mbuf⟩ := mer
  obtain ⟨bref, bbody, bbuf⟩ := br
  simp only at hmb hbb
  subst hmb hbb
  have : ¬ bufOffset mfr.baseOff free > mbuf.length := by simpa using hbo
  unfold tighten
  simp only [hi, hj, hmer, hbr, hmfr, hbfr, hadj, ne_eq, not_true_eq_false, if_false]
  simp only [this, if_false, her, Bool.not_true, Bool.false_eq_true]
  rfl

/-! ### adjacency in the region list -/

theorem chain_mem_le (regs : List FRegion) (l : List Region) (off size : Nat) (h : Chain regs off l size)
    (r : Region) (hr : r ∈ l) (fr : FRegion) (hfr : frOf regs r = .ok fr) : fr.baseOff ≤ fr.endOff := by
  induction l generalizing off with
  | nil => cases hr
  | cons x xs ih =>
    obtain ⟨fx, h1, _, h3, _, h5⟩ := h
    rcases List.mem_cons.mp hr with rfl | hr
    · have e : fx = fr := by rw [hfr] at h1; injection h1 with h1; exact h1.symm
      rw [← e]; exact h3
    · exact ih _ h5 hr

/-- In a chain whose members other than `l[i]` have a non-empty extent, the member that starts
    where `l[i]` ends is the next one. -/
theorem adjacent_of_chain (regs : List FRegion) (l : List Region) (off size i j : Nat)
    (mer br : Region) (mfr bfr : FRegion)
    (hc : Chain regs off l size) (hi : l[i]? = some mer) (hj : l[j]? = some br)
    (hm : frOf regs mer = .ok mfr) (hb : frOf regs br = .ok bfr)
    (hpos : ∀ (k : Nat) (x : Region), k ≠ i → l[k]? = some x → ∀ fx, frOf regs x = .ok fx → fx.baseOff < fx.endOff)
    (hne : i ≠ j) (hadj : mfr.endOff = bfr.baseOff) : j = i + 1 := by
  induction l generalizing off i j with
  | nil => simp at hi
  | cons x xs ih =>
    obtain ⟨fx, h1, h2, h3, _, h5⟩ := hc
    cases i with
    | zero =>
      simp only [List.getElem?_cons_zero, Option.some.injEq] at hi; subst hi
      have e : fx = mfr := by rw [hm] at h1; injection h1 with h1; exact h1.symm
      subst e
      cases j with
      | zero => exact absurd rfl hne
      | succ j' =>
        simp only [List.getElem?_cons_succ] at hj
        cases j' with
        | zero => rfl
        | succ j'' =>
          exfalso
          cases xs with
          | nil => simp at hj
          | cons y ys =>
            obtain ⟨fy, g1, g2, _, _, g5⟩ := h5
            simp only [List.getElem?_cons_succ] at hj
            have py := hpos 1 y (by omega) (by simp) fy g1
            have := chain_mem_range _ _ _ _ g5 br (List.mem_of_getElem? hj) bfr hb
            omega
    | succ i' =>
      simp only [List.getElem?_cons_succ] at hi
      cases j with
      | zero =>
        exfalso
        simp only [List.getElem?_cons_zero, Option.some.injEq] at hj; subst hj
        have e : fx = bfr := by rw [hb] at h1; injection h1 with h1; exact h1.symm
        subst e
        have px := hpos 0 x (by omega) (by simp) fx hb
        have r1 := chain_mem_range _ _ _ _ h5 mer (List.mem_of_getElem? hi) mfr hm
        have r2 := chain_mem_le _ _ _ _ h5 mer (List.mem_of_getElem? hi) mfr hm
        omega
      | succ j' =>
        simp only [List.getElem?_cons_succ] at hj
        have := ih fx.endOff i' j' h5 hi hj
          (fun k y hk hy => hpos (k + 1) y (by omega) (by simpa using hy)) (by omega)
        omega

/-! ### list surgery -/

theorem split_at_two {α} (l : List α) (i : Nat) (a b : α) (hi : l[i]? = some a) (hj : l[i + 1]? = some b) :
    l = l.take i ++ a :: b :: l.drop (i + 2) ∧ (l.take i).length = i := by
  induction l generalizing i with
  | nil => simp at hi
  | cons x xs ih =>
    cases i with
    | zero =>
      simp only [List.getElem?_cons_zero, Option.some.injEq] at hi; subst hi
      cases xs with
      | nil => simp at hj
      | cons y ys =>
        simp at hj; subst hj; simp
    | succ i' =>
      simp only [List.getElem?_cons_succ] at hi hj
      obtain ⟨h1, h2⟩ := ih i' hi hj
      constructor
      · simp only [List.take_succ_cons, List.cons_append, List.drop_succ_cons]
        congr 1
      · simp [h2]

theorem set_two {α} (pre post : List α) (a b a' b' : α) :
    ((pre ++ a :: b :: post).set pre.length a').set (pre.length + 1) b' = pre ++ a' :: b' :: post := by
  induction pre with
  | nil => simp
  | cons x xs _ => simp

/-! ### the result on a well-formed tree -/

/-- ⌈(meBase·4096 + free)/4096⌉ : the block index of the new ME/BIOS boundary -/
def newBoundary (meBase free : Nat) : Nat := (meBase * 4096 + free + 4095) / 4096

/-- the new leading padding: the cut-off tail, unless nothing was cut off -/
def leadPad (tail : Bytes) : List Elem := if tail = [] then [] else [⟨false, 0, tail, 0, false⟩]

theorem leadPad_of_drop (buf : Bytes) (bo : Nat) (h : bo ≤ buf.length) :
    (if bo < buf.length then [(⟨false, 0, buf.drop bo, 0, false⟩ : Elem)] else []) = leadPad (buf.drop bo) := by
  unfold leadPad
  by_cases hlt : bo < buf.length
  · have : buf.drop bo ≠ [] := by
      intro e; have := congrArg List.length e; simp at this; omega
    simp [hlt, this]
  · have : buf.drop bo = [] := List.drop_of_length_le (by omega)
    simp [hlt, this]

/-- the BIOS node after `tighten_me`: the cut-off tail of the ME buffer becomes a new leading
    padding element (none when the tail is empty), `Length` and all element offsets grow by its size -/
def biosAfter (blen : Nat) (elems : List Elem) (tail : Bytes) : Body :=
  .bios (blen + tail.length) (leadPad tail ++ shiftElems tail.length elems)

theorem frOf_idx (regs : List FRegion) (r : Region) (k : Nat) (h : r.ref = .idx k) (fr : FRegion)
    (hk : regs[k]? = some fr) : frOf regs r = .ok fr := by
  simp [frOf, h, hk]

theorem tighten_shape (pol : Nat) (f f' : Flash) (w : WF f) (h : tighten pol f = .ok f') :
    ∃ pre post mer br fpt free blen elems r0 r1 rest nb,
      f.regions = pre ++ mer :: br :: post ∧
      f.desc.regs = r0 :: r1 :: rest ∧
      mer.body = .me fpt free ∧ mer.ref = .idx 1 ∧
      br.body = .bios blen elems ∧ br.ref = .idx 0 ∧
      r1.limit + 1 = r0.base ∧ 1 ≤ r1.base ∧
      nb = newBoundary r1.base free ∧ r1.base ≤ nb ∧ nb ≤ r1.limit + 1 ∧
      mer.buf.length = (r1.limit + 1 - r1.base) * 4096 ∧
      isErased (mer.buf.drop ((nb - r1.base) * 4096)) pol = true ∧
      f' = { f with
        desc := { f.desc with regs := { r0 with base := nb } :: { r1 with limit := nb - 1 } :: rest },
        regions := pre ++ { mer with buf := mer.buf.take ((nb - r1.base) * 4096) } ::
          { br with body := biosAfter blen elems (mer.buf.drop ((nb - r1.base) * 4096)) } :: post } := by
  obtain ⟨i, j, mer, br, fpt, free, blen, elems, mfr, bfr, hi, hj, hmer, hbr, hmb, hbb, hmfr, hbfr, hadj, hbo, her, hf'⟩ :=
    tighten_ok_inv pol f f' h
  have mmem := List.mem_of_getElem? hmer
  have bmem := List.mem_of_getElem? hbr
  have mref := w.meRef mer mmem (by simp [hmb, Body.isME])
  have bref := w.biosRef br bmem (by simp [hbb, Body.isBIOS])
  obtain ⟨r0, r1, rest, hr⟩ := regs_two f.desc.regs w.geom.regsLen
  have e1 : mfr = r1 := by
    have := frOf_idx f.desc.regs mer 1 mref r1 (by simp [hr])
    rw [hmfr] at this; injection this
  have e0 : bfr = r0 := by
    have := frOf_idx f.desc.regs br 0 bref r0 (by simp [hr])
    rw [hbfr] at this; injection this
  subst e1 e0
  have hne : i ≠ j := by
    intro e; subst e; rw [hmer] at hbr; injection hbr with hbr; subst hbr; rw [hmb] at hbb; cases hbb
  have hpos : ∀ (k : Nat) (x : Region), k ≠ i → f.regions[k]? = some x → ∀ fx, frOf f.desc.regs x = .ok fx →
      fx.baseOff < fx.endOff := by
    intro k x hk hx fx hfx
    apply w.pos x (List.mem_of_getElem? hx) _ fx hfx
    cases hxm : x.body.isME with
    | false => rfl
    | true => exact absurd (w.oneME k i x mer hx hmer hxm (by simp [hmb, Body.isME])) hk
  have hj' := adjacent_of_chain _ _ _ _ i j mer br mfr bfr w.chain hmer hbr hmfr hbfr hpos hne hadj
  subst hj'
  obtain ⟨hsplit, hlen⟩ := split_at_two f.regions i mer br hmer hbr
  generalize hpre : f.regions.take i = pre at hsplit hlen
  generalize hpost : f.regions.drop (i + 2) = post at hsplit
  -- the chain around the two nodes
  have hc := w.chain
  rw [hsplit, chain_append] at hc
  obtain ⟨m, hc1, fm, hfm, hm1, hm2, hm3, fb, hfb, hb1, hb2, hb3, hc2⟩ := hc
  have em : fm = mfr := by rw [hmfr] at hfm; injection hfm with hfm; exact hfm.symm
  have eb : fb = bfr := by rw [hbfr] at hfb; injection hfb with hfb; exact hfb.symm
  subst em eb
  have hm4096 := chain_le _ _ _ _ hc1
  have hplen : (payload mer).length = mer.buf.length := by simp [payload, hmb]
  rw [hplen] at hm3
  obtain ⟨hfree, hfb33⟩ := w.me mer mmem fpt free hmb
  have hu1 := w.u16 fm (by rw [hr]; simp)
  have hu0 := w.u16 fb (by rw [hr]; simp)
  simp only [FRegion.baseOff, FRegion.endOff, blockSize, descLen] at *
  have hnw : fm.base * 4096 + free + blockSize < 2 ^ 64 := by simp only [blockSize]; omega
  have hub := updateBase_eq (fm.base * 4096) free hnw
  have huo := updateOffset_eq (fm.base * 4096) free hnw
  have hbo' := bufOffset_eq (fm.base * 4096) free hnw
  have hspec := boundary_spec (fm.base * 4096) free
  have hnb : newBoundary fm.base free = (fm.base * 4096 + free + 4095) / 4096 := rfl
  generalize hX : (fm.base * 4096 + free + 4095) / 4096 = X at hub huo hbo' hspec hnb
  rw [hbo'] at hbo her
  have hX1 : fm.base ≤ X := by omega
  have hX2 : X ≤ fm.limit + 1 := by omega
  have hsub : X * 4096 - fm.base * 4096 = (X - fm.base) * 4096 := (Nat.sub_mul _ _ _).symm
  rw [hsub] at hbo her hbo'
  clear hspec hsub hnw hfb33
  refine ⟨pre, post, mer, br, fpt, free, blen, elems, fb, fm, rest, newBoundary fm.base free,
    hsplit, hr, hmb, mref, hbb, bref, by omega, by omega, rfl, ?_, ?_, ?_, ?_, ?_⟩
  · rw [hnb]; exact hX1
  · rw [hnb]; exact hX2
  · omega
  · rw [hnb]; exact her
  · have hblen : blen = (payload br).length := by
      rw [w.bios br bmem blen elems hbb]; simp [payload, hbb]
    have hA : u16 (updateBase (fm.base * 4096) free) = X := by
      rw [hub]; unfold u16; apply Nat.mod_eq_of_lt; omega
    have hB : u16 (u64 (updateBase (fm.base * 4096) free + 2 ^ 64 - 1)) = X - 1 := by
      rw [hub]; unfold u16 u64
      have : X + 2 ^ 64 - 1 = (X - 1) + 2 ^ 64 := by omega
      rw [this, Nat.add_mod_right, Nat.mod_eq_of_lt (by omega), Nat.mod_eq_of_lt (by omega)]
    have hD : u64 (fb.base * 4096 + 2 ^ 64 - updateOffset (fm.base * 4096) free) =
        (mer.buf.drop ((X - fm.base) * 4096)).length := by
      rw [huo, List.length_drop]; unfold u64
      have : fb.base * 4096 + 2 ^ 64 - X * 4096 = (fb.base * 4096 - X * 4096) + 2 ^ 64 := by omega
      rw [this, Nat.add_mod_right, Nat.mod_eq_of_lt (by omega)]
      clear hX hfree hf' her hub huo hbo' hnb hA hB this hc1 hc2 hsplit
      omega
    have hE : ∀ s, s ≤ mer.buf.length → u64 (blen + s) = blen + s := by
      intro s hs; unfold u64; apply Nat.mod_eq_of_lt; omega
    rw [hf', hnb]
    have hbo0 : bufOffset fm.baseOff free ≤ mer.buf.length := by
      simp only [FRegion.baseOff, blockSize]; rw [hbo']; exact hbo
    unfold tightened
    simp only [leadPad_of_drop mer.buf (bufOffset fm.baseOff free) hbo0]
    simp only [writeLimit, writeBase, mref, bref, hr, setRegs01, FRegion.baseOff, blockSize]
    rw [hA, hB, hbo', hD, hE _ (by simp)]
    have hreg := set_two pre post mer br
      { ref := Ref.idx 1, body := mer.body, buf := List.take ((X - fm.base) * 4096) mer.buf }
      { ref := Ref.idx 0, body := biosAfter blen elems (List.drop ((X - fm.base) * 4096) mer.buf),
        buf := br.buf }
    rw [hlen, ← hsplit] at hreg
    simp only [biosAfter] at hreg ⊢
    rw [hreg]
end Fiano.TightenMe
