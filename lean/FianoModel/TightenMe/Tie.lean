/-
  T1 tie for C12: the model's constants, packed layouts and the shape of `TightenME.process` are
  compared with the facts regenerated from the Go sources (Gen/TightenMe.lean from pkg/uefi,
  Gen/TightenMeVis.lean from pkg/visitors) on every build.  Only facts that a harmless rewrite
  (renaming a local, rewording a message) cannot change are compared.
-/
import FianoModel.TightenMe.Model
import FianoModel.Gen.TightenMe
import FianoModel.Gen.TightenMeVis

namespace Fiano.TightenMe
open Fiano.Gen

theorem tie_blockSize : blockSize = Gen.TightenMe.RegionBlockSize := by decide
theorem tie_descLen : descLen = Gen.TightenMe.FlashDescriptorLength := by decide
theorem tie_mapSize : mapSize = Gen.TightenMe.FlashDescriptorMapSize ∧
    mapSize = Gen.TightenMe.size_FlashDescriptorMap := by decide
theorem tie_regionSectionSize : regionSectionSize = Gen.TightenMe.FlashRegionSectionSize ∧
    regionSectionSize = Gen.TightenMe.size_FlashRegionSection := by decide
theorem tie_masterSize : masterSize = Gen.TightenMe.FlashMasterSectionSize ∧
    masterSize = Gen.TightenMe.size_FlashMasterSection := by decide
theorem tie_fptHeaderMin : fptHeaderMin = Gen.TightenMe.MEPartitionDescriptorMinLength := by decide
theorem tie_fptEntryLen : fptEntryLen = Gen.TightenMe.MEPartitionTableEntryLength ∧
    fptEntryLen = Gen.TightenMe.size_MEPartitionEntry := by decide
theorem tie_fv : fvFixedHeader = Gen.TightenMe.FirmwareVolumeFixedHeaderSize ∧
    fvMinSize = Gen.TightenMe.FirmwareVolumeMinSize ∧
    fvExtHeaderMin = Gen.TightenMe.FirmwareVolumeExtHeaderMinSize ∧
    fileHeaderMin = Gen.TightenMe.FileHeaderMinLength ∧ Gen.TightenMe.size_Block = 8 := by decide
theorem tie_poisoned : poisoned = Gen.TightenMe.poisonedPolarity := by decide
theorem tie_flashSig : flashSig = Gen.TightenMe.FlashSignature.map UInt8.ofNat := by decide
theorem tie_fptSig : fptSig = Gen.TightenMe.MEFPTSignature.map UInt8.ofNat := by decide

/-- BIOS is table slot 0 and ME slot 1 (`parseRegions`, `repoint`) -/
theorem tie_slots : Gen.TightenMe.RegionTypeBIOS = 0 ∧ Gen.TightenMe.RegionTypeME = 1 := by decide

/-- region section: a blank 16-bit field (written back as zero), the erase size, 15 slots of
    {Base, Limit} (`decodeRegs`, `encodeRegionSection`) -/
theorem tie_layout_FlashRegionSection : Gen.TightenMe.layout_FlashRegionSection =
    [("_", 2), ("FlashBlockEraseSize", 2), ("FlashRegions", 4 * nRegions)] := by decide
theorem tie_layout_FlashRegion : Gen.TightenMe.layout_FlashRegion = [("Base", 2), ("Limit", 2)] := by decide

/-- every field of the descriptor map is one byte: writing the struct back is the identity -/
theorem tie_layout_FlashDescriptorMap :
    Gen.TightenMe.layout_FlashDescriptorMap.all (fun f => f.2 == 1) = true ∧
    Gen.TightenMe.layout_FlashDescriptorMap.map (·.1) =
      ["ComponentBase", "NumberOfFlashChips", "RegionBase", "NumberOfRegions", "MasterBase",
       "NumberOfMasters", "PchStrapsBase", "NumberOfPchStraps", "ProcStrapsBase", "NumberOfProcStraps",
       "IccTableBase", "NumberOfIccTableEntries", "DmiTableBase", "NumberOfDmiTableEntries",
       "Reserved0", "Reserved1"] := by decide

/-- master section: three {uint16, uint8, uint8} records, no blank field -/
theorem tie_layout_master : Gen.TightenMe.layout_FlashMasterSection = [("BIOS", 4), ("ME", 4), ("GBE", 4)] ∧
    Gen.TightenMe.layout_RegionPermissions = [("ID", 2), ("Read", 1), ("Write", 1)] := by decide

/-- FPT entry: Offset at 8, Length at 12 (`parseEntries`) -/
theorem tie_layout_MEPartitionEntry : Gen.TightenMe.layout_MEPartitionEntry =
    [("Name", 4), ("Owner", 4), ("Offset", 4), ("Length", 4), ("Reserved", 12), ("Flags", 4)] := by decide

/-- shape of `TightenME.process` as repaired: eight error returns (three missing nodes, not
    contiguous, partitions beyond the region, not erased, unexpected element, padding), one erased
    check, three slice expressions, two uint16 casts, six mutated locations, one new padding. -/
theorem tie_process_shape :
    Gen.TightenMeVis.calls_TightenME_process_fmt_Errorf.length = 8 ∧
    Gen.TightenMeVis.calls_TightenME_process_uefi_IsErased.length = 1 ∧
    Gen.TightenMeVis.sites_TightenME_process.length = 3 ∧
    Gen.TightenMeVis.calls_TightenME_process_uint16.length = 2 ∧
    Gen.TightenMeVis.assigns_TightenME_process.length = 6 ∧
    Gen.TightenMeVis.calls_TightenME_process_uefi_NewBIOSPadding.length = 1 := by decide

/-- NewMERegion assigns exactly the buffer, the table and the free-space offset -/
theorem tie_NewMERegion_shape : Gen.TightenMe.assigns_NewMERegion.length = 3 ∧
    Gen.TightenMe.sites_NewMEFPT.length = 3 := by decide

end Fiano.TightenMe
