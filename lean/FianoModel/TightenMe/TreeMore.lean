/-
  C12, tree level: (1) whether `tighten_me` refuses does not depend on the edits before it;
  (2) `asmFlashT` (Assemble with the stable sort Go runs) agrees with the shared model's
  `Uefi.asmFlash` on every well-formed tree in which no region is empty — the only place where
  the two sorts differ is the empty ME extent `tighten_me` leaves when it shrinks the region to nothing.
-/
import FianoModel.TightenMe.TreeParse

namespace Fiano.TightenMe.T
open Fiano

/-! ### refusal is independent of the edits -/

/-- **Whether `tighten_me` succeeds does not depend on an edit before it**: it succeeds on the
    edited tree iff it succeeds on the tree before the edit. -/
theorem tighten_ok_iff_rw (E : Uefi.Editor) (hE : Editor.OffInv E) (free pol : Nat) (f : Uefi.Flash)
    (rs1 : List Uefi.Region) (hrw : Uefi.rwRegions E f.regions = .ok rs1) :
    (∃ f2, tightenFlash free pol { f with regions := rs1 } = .ok f2) ↔ (∃ f2, tightenFlash free pol f = .ok f2) := by
  constructor
  · rintro ⟨f2, h2⟩
    obtain ⟨i, j, mbuf, mfr, b1, bfr, hi, hj, hme, hbios, hfr, hadj, hin, her, _⟩ := tightenFlash_inv free pol _ f2 h2
    simp only [] at hi hj hme hbios
    obtain ⟨hkm, hkb⟩ := rwRegions_kinds E _ _ hrw
    obtain ⟨gi1, gi2, gi3⟩ := rwRegions_get E _ _ hrw i
    obtain ⟨gj1, gj2, gj3⟩ := rwRegions_get E _ _ hrw j
    -- the ME node was there before the edit, unchanged
    have hme0 : f.regions[i]? = some (.me mbuf mfr) := by
      cases hf : f.regions[i]? with
      | none => rw [gi3 hf] at hme; cases hme
      | some r =>
        cases hrb : isBIOS r with
        | false => rw [gi1 r hf hrb] at hme; exact hme
        | true =>
          cases r with
          | bios b0 =>
            obtain ⟨b', h1, _⟩ := gi2 b0 hf
            rw [h1] at hme; cases hme
          | me _ _ => simp [isBIOS] at hrb
          | raw _ _ _ => simp [isBIOS] at hrb
    -- the BIOS node too, with the same FlashRegion
    have hb0 : ∃ b, f.regions[j]? = some (.bios b) ∧ b.fr = some bfr := by
      cases hf : f.regions[j]? with
      | none => rw [gj3 hf] at hbios; cases hbios
      | some r =>
        cases hrb : isBIOS r with
        | false => rw [gj1 r hf hrb] at hbios; cases hbios; simp [isBIOS] at hrb
        | true =>
          cases r with
          | bios b0 =>
            obtain ⟨b', h1, h2'⟩ := gj2 b0 hf
            rw [h1] at hbios; cases hbios
            exact ⟨b0, rfl, by rw [← (rwBios_fields E b0 b1 h2').1]; exact hfr⟩
          | me _ _ => simp [isBIOS] at hrb
          | raw _ _ _ => simp [isBIOS] at hrb
    obtain ⟨b, hbj, hbfr⟩ := hb0
    exact ⟨_, tightenFlash_of free pol f _ i j mbuf mfr b bfr
      ⟨by rw [← hi]; exact (lastIdx_congr _ _ _ hkm).symm, by rw [← hj]; exact (lastIdx_congr _ _ _ hkb).symm,
        hme0, hbj, hbfr, hadj, hin, her, rfl⟩⟩
  · rintro ⟨f2, h2⟩
    obtain ⟨f3, h3, _, _⟩ := rw_tighten_comm E hE free pol f f2 rs1 hrw h2
    exact ⟨f3, h3⟩

/-! ### `asmFlashT` and the shared `Uefi.asmFlash` -/

theorem insertRegion_head (r : Uefi.Region) (l : List Uefi.Region) (h : ∀ x ∈ l, baseOf r < baseOf x) :
    Uefi.insertRegion r l = r :: l := by
  cases l with
  | nil => rfl
  | cons x xs =>
    have := h x List.mem_cons_self
    simp only [Uefi.insertRegion]
    simp only [baseOf] at this
    -- works for the shared `insertRegion` as it is (`<`) and after the proposed stable variant (`≤`)
    first
      | simp only [this, if_true]
      | simp only [Nat.le_of_lt this, if_true]

/-- the shared model's sort is the identity on a list whose keys increase strictly -/
theorem sortRegions_sorted (l : List Uefi.Region) (h : l.Pairwise (fun a b => baseOf a < baseOf b)) :
    Uefi.sortRegions l = l := by
  induction l with
  | nil => rfl
  | cons x xs ih =>
    rw [List.pairwise_cons] at h
    simp only [Uefi.sortRegions, List.foldr_cons] at ih ⊢
    rw [ih h.2]
    exact insertRegion_head x xs h.1

/-- **`asmFlashT` agrees with the shared model's Assemble** on every well-formed tree in which no
    region is empty (in particular on every parsed or edited tree, and after every `tighten_me` that
    leaves at least one block to the ME region): the two differ only in how `sort.Slice` treats equal
    keys.  A change of the shared FlashImage case breaks this proof, not a T2 run. -/
theorem asmFlashT_agrees_with_shared_model (h : Uefi.Hooks) (fpt : Option (List Entry)) (free : Nat) (f : Uefi.Flash)
    (st : Uefi.St) (w : TWF fpt free f)
    (hne : ∀ r ∈ f.regions, ∀ fr, r.fr = some fr → fr.baseOffset < fr.endOffset) :
    Uefi.asmFlash h f st = asmFlashT h f st := by
  unfold Uefi.asmFlash asmFlashT
  cases hd : Uefi.asmDescriptor f.ifd with
  | error e => rfl
  | ok ifd =>
    simp only []
    cases hrs : Uefi.asmRegions h f.regions st with
    | error e => rfl
    | ok p =>
      obtain ⟨rs1, st1⟩ := p
      simp only []
      cases htbl : ifd.region.regions with
      | nil => rfl
      | cons t0 tl =>
        simp only []
        split
        · rfl
        · -- the re-pointed list has strictly increasing keys: both sorts leave it alone
          have hifd : ifd.region = f.ifd.region ∧ ifd.map = f.ifd.map := by
            unfold Uefi.asmDescriptor at hd
            simp only [] at hd
            split at hd
            · cases hd
            · cases hd; exact ⟨rfl, rfl⟩
          obtain ⟨hskel, _⟩ := asmRegions_skel h f.regions rs1 st st1 hrs
          have hmem : ∀ r1 ∈ rs1, ∃ r ∈ f.regions, skel r1 = skel r := by
            intro x hx
            obtain ⟨k, hk⟩ := List.getElem?_of_mem hx
            have : (rs1.map skel)[k]? = some (skel x) := by simp [hk]
            rw [hskel] at this
            simp only [List.getElem?_map, Option.map_eq_some_iff] at this
            obtain ⟨r, h1, h2⟩ := this
            exact ⟨r, List.mem_of_getElem? h1, h2.symm⟩
          have hrep : rs1.map (Uefi.repoint (t0 :: tl) ifd.map.numberOfRegions) = rs1 := by
            conv => rhs; rw [← List.map_id rs1]
            apply List.map_congr_left
            intro x hx
            obtain ⟨r, hr', hs⟩ := hmem x hx
            rw [← htbl, hifd.1]
            exact repoint_id f w.al _ r x hr' hs
          rw [hrep]
          -- strictly increasing keys along the chain
          have hstrict0 : f.regions.Pairwise (fun a b => baseOf a < baseOf b) := by
            have hc := w.wf.chain
            simp only [absFlash] at hc
            have key : ∀ (l : List Uefi.Region) (off : Nat), (∀ r ∈ l, r ∈ f.regions) →
                Chain (absDesc f.ifd).regs off (l.map (absRegion fpt free)) f.flashSize →
                l.Pairwise (fun a b => baseOf a < baseOf b) ∧ ∀ r ∈ l, off ≤ baseOf r * 4096 := by
              intro l
              induction l with
              | nil => intro off _ _; exact ⟨List.Pairwise.nil, fun r hr => by cases hr⟩
              | cons x xs ih =>
                intro off hsub hc
                simp only [List.map_cons, Chain] at hc
                obtain ⟨fr, h1, h2, _, _, h5⟩ := hc
                obtain ⟨fx, hfx, hfo⟩ := frOf_abs fpt free f w.al x (hsub x List.mem_cons_self)
                rw [hfo] at h1; injection h1 with h1; subst h1
                obtain ⟨ihp, ihle⟩ := ih _ (fun r hr => hsub r (List.mem_cons_of_mem _ hr)) h5
                have hxne := hne x (hsub x List.mem_cons_self) fx hfx
                have hbx : baseOf x = fx.base := by simp only [baseOf, hfx, Option.map_some, Option.getD_some]
                rw [baseOff_abs] at h2
                rw [endOff_abs] at ihle
                simp only [Uefi.FlashRegion.baseOffset, Uefi.FlashRegion.endOffset] at h2 hxne ihle
                refine ⟨List.Pairwise.cons (fun y hy => ?_) ihp, ?_⟩
                · have := ihle y hy
                  rw [hbx]; omega
                · intro r hr
                  rcases List.mem_cons.mp hr with rfl | hr
                  · rw [hbx]; omega
                  · have := ihle r hr; omega
            exact (key f.regions _ (fun r hr => hr) hc).1
          have hkeys : rs1.map baseOf = f.regions.map baseOf := by
            have : ∀ (l1 l2 : List Uefi.Region), l1.map skel = l2.map skel → l1.map baseOf = l2.map baseOf := by
              intro l1
              induction l1 with
              | nil => intro l2 h; cases l2 with
                | nil => rfl
                | cons _ _ => simp at h
              | cons x xs ih =>
                intro l2 h
                cases l2 with
                | nil => simp at h
                | cons y ys =>
                  simp only [List.map_cons, List.cons.injEq] at h ⊢
                  exact ⟨baseOf_skel y x h.1, ih ys h.2⟩
            exact this _ _ hskel
          have hstrict : rs1.Pairwise (fun a b => baseOf a < baseOf b) := by
            have h1 : (f.regions.map baseOf).Pairwise (· < ·) := by rw [List.pairwise_map]; exact hstrict0
            rw [← hkeys, List.pairwise_map] at h1
            exact h1
          rw [sortRegions_sorted rs1 hstrict, isort_sorted baseOf rs1 (hstrict.imp (fun h => Nat.le_of_lt h))]
          rfl

end Fiano.TightenMe.T
