/-
  C12, tree level: `tighten_me` on the shared UEFI tree model (lean/FianoModel/Uefi), so that
  firmware volumes keep their files and `tighten_me` composes with the modelled edit operations
  (`Uefi.step`: insert*, remove*, replace_pe32, save, the read-only commands).

  What comes from where (everything is used BY NAME, nothing is copied):
    Uefi.parseWith / parseFlash   uefi.Parse (descriptor, regions, BIOS elements, volumes, files, sections)
    Uefi.step                     every visitor other than tighten_me and save
    Uefi.asmDescriptor, asmRegions, repoint, tileRegions    the pieces of visitors.Assemble
    TightenMe.parseFPT, freeOf    NewMEFPT / FreeSpaceOffset (the shared tree keeps the ME region opaque)
    TightenMe.lastIdx, updateBase, updateOffset, bufOffset, isErased, u16, u64, isort   the numbers of `process`
  New here: `tightenFlash` (TightenME.Run on the shared tree, AS REPAIRED), `asmFlashT` (the FlashImage
  case of Assemble with the *stable* insertion sort Go runs — `Uefi.sortRegions` puts equal keys in
  reverse order, which can be observed exactly when tighten_me has shrunk the ME region to nothing:
  the empty ME extent and the BIOS region then have the same Base), and the run state `TRun`.

  Pointer aliasing.  In Go the FRegion pointer of the ME / BIOS node points into the descriptor's
  table (`&frs[i]` in NewFlashImage, `SetFlashRegion(&…FlashRegions[r.Type()])` in Assemble).  The
  shared tree stores the FlashRegion by value in the node and in `ifd.region.regions`; `tightenFlash`
  writes both (slot 1 = ME, slot 0 = BIOS, the nodes' `Type()`).

  FreeSpaceOffset is computed once, by NewMERegion, and kept in the node while `tighten_me` cuts the
  buffer; the shared `Region.me` has no field for it, so it travels next to the tree (`TRun.free`).
  Core Lean only.
-/
import FianoModel.Uefi.Visitors
import FianoModel.TightenMe.Model

namespace Fiano.TightenMe.T
open Fiano

/-! ### the ME side-car -/

/-- `MERegion.FreeSpaceOffset` as NewMERegion computes it from the region buffer (0 without a table) -/
def freeOfBuf (buf : Bytes) : Nat :=
  match parseFPT buf with
  | some es => freeOf es
  | none => 0

def isME : Uefi.Region → Bool
  | .me _ _ => true
  | _ => false

def isBIOS : Uefi.Region → Bool
  | .bios _ => true
  | _ => false

/-- the FreeSpaceOffset of the ME node `tighten_me` would pick (the last one), 0 if there is none -/
def freeOfRegions (rs : List Uefi.Region) : Nat :=
  match lastIdx isME rs with
  | none => 0
  | some i =>
    match rs[i]? with
    | some (.me buf _) => freeOfBuf buf
    | _ => 0

def freeOfTree : Uefi.Tree → Nat
  | .flash f => freeOfRegions f.regions
  | .bios _ => 0

/-! ### TightenME.Run on the shared tree -/

/-- `f.FVOffset += offsetShift` / `f.Offset += offsetShift` (uint64) -/
def shiftElem (s : Nat) : Uefi.BiosElem → Uefi.BiosElem
  | .pad b o => .pad b (u64 (o + s))
  | .fv (.mk i buf files) => .fv (.mk { i with fvOffset := u64 (i.fvOffset + s) } buf files)

def setLimitAt (tbl : List Uefi.FlashRegion) (k v : Nat) : List Uefi.FlashRegion :=
  match tbl[k]? with
  | some fr => tbl.set k { fr with limit := v }
  | none => tbl

def setBaseAt (tbl : List Uefi.FlashRegion) (k v : Nat) : List Uefi.FlashRegion :=
  match tbl[k]? with
  | some fr => tbl.set k { fr with base := v }
  | none => tbl

/-- the new leading BIOSPadding: the tail cut off the ME buffer — none when nothing was cut off
    (code as repaired by fixes/C12-empty-leading-padding.diff: `if bufOffset < len(buf)`; `tail` is
    `buf[bufOffset:]` with `bufOffset ≤ len(buf)`, so the two tests are the same) -/
def leadPadT (tail : Bytes) : List Uefi.BiosElem := if tail = [] then [] else [.pad tail 0]

/-- the BIOS node after `process`: FRegion.Base, Length, element offsets, the new leading padding
    (`Buf()` is left alone: Assemble rebuilds it) -/
def growBios (tail : Bytes) (shift ub : Nat) (bfr : Uefi.FlashRegion) (b : Uefi.BiosRegion) : Uefi.BiosRegion :=
  { b with fr := some { bfr with base := ub }, length := u64 (b.length + shift),
           elems := leadPadT tail ++ b.elems.map (shiftElem shift) }

/-- the tree `process` builds from the nodes it found: ME node `i` cut at `bo` with Limit `lim`, BIOS
    node `j` grown, table slots 1 and 0 written through the aliased pointers -/
def tightened (f : Uefi.Flash) (i j : Nat) (mbuf : Bytes) (mfr : Uefi.FlashRegion) (b : Uefi.BiosRegion)
    (bfr : Uefi.FlashRegion) (bo lim ub shift : Nat) : Uefi.Flash :=
  { f with
    regions := (f.regions.set i (.me (mbuf.take bo) { mfr with limit := lim })).set j
      (.bios (growBios (mbuf.drop bo) shift ub bfr b)),
    ifd := { f.ifd with region := { f.ifd.region with
      regions := setBaseAt (setLimitAt f.ifd.region.regions 1 lim) 0 ub } } }

/-- `TightenME.Run` on a flash image (`fd ≠ nil`) with FreeSpaceOffset `free` and global erase
    polarity `pol`.  Every error return precedes the first mutation. -/
def tightenFlash (free pol : Nat) (f : Uefi.Flash) : Except Err Uefi.Flash :=
  match lastIdx isME f.regions with
  | none => .error .noME
  | some i =>
  match lastIdx isBIOS f.regions with
  | none => .error .noBIOS
  | some j =>
  match f.regions[i]?, f.regions[j]? with
  | some (.me mbuf mfr), some (.bios b) =>
    match b.fr with
    | none => .error .panic            -- nil FRegion: never in a flash image
    | some bfr =>
      if mfr.endOffset ≠ bfr.baseOffset then .error .notContiguous else
      let ub := updateBase mfr.baseOffset free
      let uo := updateOffset mfr.baseOffset free
      let bo := bufOffset mfr.baseOffset free
      if bo > mbuf.length then .error .beyond else        -- repaired: was a slice panic
      if ! isErased (mbuf.drop bo) pol then .error .notErased else
      -- Limit = uint16(updateBase - 1); offsetShift = uint64(br.BaseOffset()) - updateOffset
      .ok (tightened f i j mbuf mfr b bfr bo (u16 (u64 (ub + 2 ^ 64 - 1))) (u16 ub)
            (u64 (bfr.baseOffset + 2 ^ 64 - uo)))
  | _, _ => .error .badRef

/-- `TightenME.Run` on any tree: a bare BIOS region has no IFD -/
def tightenTree (free pol : Nat) : Uefi.Tree → Except Err Uefi.Tree
  | .flash f =>
    match tightenFlash free pol f with
    | .error e => .error e
    | .ok f' => .ok (.flash f')
  | .bios _ => .error .notFlash

/-! ### Assemble, FlashImage case, with the sort Go runs -/

/-- the sort key: `FlashRegion().Base` -/
def baseOf (r : Uefi.Region) : Nat := (r.fr.map (·.base)).getD 0

/-- `Uefi.asmFlash` with `sort.Slice` as the stable insertion sort (`isort`) -/
def asmFlashT (h : Uefi.Hooks) (f : Uefi.Flash) (st : Uefi.St) : Except Uefi.Err (Uefi.Flash × Uefi.St) :=
  match Uefi.asmDescriptor f.ifd with
  | .error e => .error e
  | .ok ifd =>
    match Uefi.asmRegions h f.regions st with
    | .error e => .error e
    | .ok (rs, st) =>
      match ifd.region.regions with
      | [] => .error .panic
      | bios :: _ =>
        if ¬ bios.valid then .error .err else
        let rs := isort baseOf (rs.map (Uefi.repoint ifd.region.regions ifd.map.numberOfRegions))
        match Uefi.tileRegions rs 4096 ifd.buf with
        | .error e => .error e
        | .ok (buf, offset) =>
          if offset ≠ f.flashSize then .error .err
          else .ok ({ f with buf := buf, ifd := ifd, regions := rs }, st)

def asmTreeT (h : Uefi.Hooks) (t : Uefi.Tree) (st : Uefi.St) : Except Uefi.Err (Uefi.Tree × Uefi.St) :=
  match t with
  | .flash f =>
    match asmFlashT h f st with
    | .error e => .error e
    | .ok (f', st') => .ok (.flash f', st')
  | .bios b =>
    match Uefi.asmBios h b st with
    | .error e => .error e
    | .ok (b', st') => .ok (.bios b', st')

/-! ### one `utk` run with tighten_me among the visitors -/

inductive TOp where
  | tighten
  | op (o : Uefi.Op)

/-- the shared run state plus the ME node's FreeSpaceOffset -/
structure TRun where
  run  : Uefi.Run
  free : Nat

def errOf : Err → Uefi.Err
  | .panic => .panic
  | _ => .err

/-- `v.Run(f)` for one visitor.  `tighten_me` never descends below a region, so a nil `*uefi.File`
    left behind by an earlier insert does not disturb it. -/
def stepT (h : Uefi.Hooks) (op : TOp) (s : TRun) : Except Uefi.Err TRun :=
  match op with
  | .tighten =>
    match tightenTree s.free s.run.st.pol.toNat s.run.tree with
    | .error e => .error (errOf e)
    | .ok t => .ok { s with run := { s.run with tree := t } }
  | .op .save =>
    if s.run.nilFile then .error .panic else
    match asmTreeT h s.run.tree { s.run.st with ffs3 := false } with
    | .error e => .error e
    | .ok (t, st) => .ok { s with run := { s.run with tree := t, st := st, outs := s.run.outs ++ [t.buf] } }
  | .op o =>
    match Uefi.step h o s.run with
    | .error e => .error e
    | .ok r => .ok { s with run := r }

def runT (h : Uefi.Hooks) : List TOp → TRun → Except Uefi.Err TRun
  | [], s => .ok s
  | op :: ops, s =>
    match stepT h op s with
    | .error e => .error e
    | .ok s' => runT h ops s'

/-- `uefi.Parse` followed by the ME side-car -/
def parseT (h : Uefi.Hooks) (image : Bytes) (st : Uefi.St) : Except Uefi.Err TRun :=
  match Uefi.parseWith h (Uefi.defaultFuel image) image st with
  | .error e => .error e
  | .ok (t, st') => .ok { run := { tree := t, st := st' }, free := freeOfTree t }

end Fiano.TightenMe.T
