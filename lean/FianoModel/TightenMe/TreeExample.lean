/-
  C12, tree level: a concrete well-formed shared tree (the counterpart of `exFlash`) on which
  `tighten_me` succeeds and which can be saved — the non-vacuity witness of `c12_tree_save_frame`.
-/
import FianoModel.TightenMe.TreeAsm
import FianoModel.TightenMe.Example
namespace Fiano.TightenMe.T
open Fiano

def exInfo : Uefi.FvInfo :=
  { fsGuid := [], length := 4096, signature := 0, attrs := 0x800, headerLen := 72, checksum := 0, extHeaderOffset := 0,
    reserved := 0, revision := 2, blocks := [], fvName := [], extHeaderSize := 0, dataOffset := 72, fvOffset := 0,
    resizable := false, freeSpace := 0 }

/-- the shared-tree counterpart of `exFlash`: descriptor, a 3-block ME region, a 1-block BIOS region with one volume -/
def exTree : Uefi.Flash :=
  { buf := [],
    ifd := { buf := ffs 4096, mapStart := 20, regionStart := 64, masterStart := 128, map := ⟨List.replicate 16 0⟩,
             region := ⟨0, ⟨4, 4⟩ :: ⟨1, 3⟩ :: List.replicate 13 ⟨0x7FFF, 0⟩⟩,
             master := ⟨[(0, 0, 0), (0, 0, 0), (0, 0, 0)]⟩ },
    regions := [.me (ffs 12288) ⟨1, 3⟩,
                .bios { elems := [.fv (.mk exInfo (ffs 4096) [])], buf := ffs 4096, length := 4096, fr := some ⟨4, 4⟩ }],
    flashSize := 20480 }

set_option maxRecDepth 100000 in
theorem exTree_abs : absFlash (some [⟨0x40, 0x1000⟩]) 0x1040 exTree = exFlash := by
  unfold absFlash exTree exFlash
  simp only [absDesc, absRegion, absElem, toElem, absFR, exInfo, exUnused, List.map_cons, List.map_nil,
    List.map_replicate, Uefi.Fv.info, Uefi.Fv.buf, Uefi.Fv.files]
  have h1 : List.replicate 16 (Uefi.byte 0) = [0,0,0,0,0,0,0,0,0,0,0,0,0,0,0,0] := by decide
  have h2 : Uefi.encodePerms [(0, 0, 0), (0, 0, 0), (0, 0, 0)] = [0,0,0,0,0,0,0,0,0,0,0,0] := by decide
  have h3 : (Uefi.polOfAttrs 2048).toNat = 255 := by decide
  simp only [h1, h2, h3]

theorem exTree_twf : TWF (some [⟨0x40, 0x1000⟩]) 0x1040 exTree := by
  refine ⟨by rw [exTree_abs]; exact exFlash_wf, ?_⟩
  constructor
  · intro buf fr hm
    simp only [exTree, List.mem_cons, List.not_mem_nil, or_false] at hm
    rcases hm with e | e
    · injection e with e1 e2; subst e2; rfl
    · cases e
  · intro b hm
    simp only [exTree, List.mem_cons, List.not_mem_nil, or_false] at hm
    rcases hm with e | e
    · cases e
    · injection e with e; subst e; exact ⟨⟨4, 4⟩, rfl, rfl⟩
  · intro buf fr t hm
    simp only [exTree, List.mem_cons, List.not_mem_nil, or_false] at hm
    rcases hm with e | e <;> cases e

theorem exPol : Uefi.setPolarity (Uefi.polOfAttrs exInfo.attrs) { pol := 0xFF } = .ok { pol := 0xFF } := by
  have h : Uefi.polOfAttrs exInfo.attrs = 0xFF := by decide
  rw [h]
  simp [Uefi.setPolarity]

theorem exTree_tightens : ∃ f', tightenFlash 0x1040 0xFF exTree = .ok f' := by
  have hbo : bufOffset (Uefi.FlashRegion.baseOffset ⟨1, 3⟩) 0x1040 = 8192 := by decide
  exact ⟨_, tightenFlash_of 0x1040 0xFF exTree _ 0 1 (ffs 12288) ⟨1, 3⟩
    { elems := [.fv (.mk exInfo (ffs 4096) [])], buf := ffs 4096, length := 4096, fr := some ⟨4, 4⟩ } ⟨4, 4⟩
    ⟨rfl, rfl, rfl, rfl, rfl, rfl, by rw [hbo]; simp, by rw [hbo, ffs_drop]; exact isErased_ffs _, rfl⟩⟩

theorem exTree_saves : ∃ g st1, asmFlashT Uefi.Hooks.none exTree { pol := 0xFF } = .ok (g, st1) := by
  rw [asmFlashT_twf Uefi.Hooks.none _ _ exTree _ exTree_twf]
  have hreg : Uefi.asmRegions Uefi.Hooks.none exTree.regions { pol := 0xFF } =
      .ok ([.me (ffs 12288) ⟨1, 3⟩,
            .bios { elems := [.fv (.mk exInfo (ffs 4096) [])], buf := ffs 4096 ++ List.replicate 0 0xFF,
                    length := 4096, fr := some ⟨4, 4⟩ }], { pol := 0xFF }) := by
    have hv : Uefi.asmFv Uefi.Hooks.none (.mk exInfo (ffs 4096) []) { pol := 0xFF } =
        .ok (.mk exInfo (ffs 4096) [], { pol := 0xFF }) := by
      rw [Uefi.asmFv_eq]
      have : Uefi.setPolarity (Uefi.polOfAttrs exInfo.attrs) { pol := 0xFF } = .ok { pol := 0xFF } := exPol
      rw [this]
      rfl
    have hb : Uefi.asmBios Uefi.Hooks.none
        { elems := [.fv (.mk exInfo (ffs 4096) [])], buf := ffs 4096, length := 4096, fr := some ⟨4, 4⟩ } { pol := 0xFF } =
        .ok ({ elems := [.fv (.mk exInfo (ffs 4096) [])], buf := ffs 4096 ++ List.replicate 0 0xFF, length := 4096,
               fr := some ⟨4, 4⟩ }, { pol := 0xFF }) := by
      unfold Uefi.asmBios
      simp only [Uefi.asmBiosElems, hv, Uefi.firstFv, Uefi.Fv.info]
      have : Uefi.setPolarity (Uefi.polOfAttrs exInfo.attrs) { pol := 0xFF } = .ok { pol := 0xFF } := exPol
      simp only [this, List.map_cons, List.map_nil, Uefi.BiosElem.buf, Uefi.Fv.buf, List.flatten_cons, List.flatten_nil,
        List.append_nil, ffs_length]
      simp
    simp only [exTree]
    rw [asmRegions_cons_nonbios _ _ _ _ rfl, asmRegions_cons_bios, hb]
    rfl
  rw [hreg]
  simp only []
  have : biosSlotValid (absFlash (some [⟨0x40, 0x1000⟩]) 0x1040 exTree) = true := by
    rw [exTree_abs]; decide
  simp only [this, if_true]
  exact ⟨_, _, rfl⟩

end Fiano.TightenMe.T
