/-
  C12 (wp-c12c, task 2, last step): WHEN the image saved after `tighten_me` parses.

  `uefi.Parse` of the saved image can fail in exactly one place: `NewBIOSRegion` on the enlarged BIOS
  extent.  The descriptor parses (Desc.Sane), the BIOS slot stays valid, every other slot of the region
  loop cannot fail, and `fillRegionGaps` succeeds because the extents selected from the rewritten table
  are still pairwise disjoint (the ME/BIOS boundary moved inside the union of the two old extents).
-/
import FianoModel.TightenMe.ProbeImage

namespace Fiano.TightenMe
open Probe

/-! ### generic facts about the region loop, the sort and the gap filler -/

/-- from slot 1 on the region loop cannot fail and does not touch the polarity -/
theorem parseRegions_from1 (img : Bytes) (nr : Nat) :
    ∀ (frs : List FRegion) (i pol : Nat), 1 ≤ i → ∃ rs, parseRegions img nr i frs pol = .ok (rs, pol) := by
  intro frs
  induction frs with
  | nil => intro i pol _; exact ⟨[], rfl⟩
  | cons fr frs ih =>
    intro i pol hi
    obtain ⟨rs, hrs⟩ := ih (i + 1) pol (by omega)
    rw [parseRegions]
    have hi0 : ¬ i = 0 := by omega
    by_cases c1 : nr ≠ 0 ∧ i ≥ nr
    · exact ⟨[], by rw [if_pos c1]⟩
    · rw [if_neg c1]
      by_cases c2 : (! fr.valid) = true
      · exact ⟨rs, by rw [if_pos c2]; exact hrs⟩
      · rw [if_neg c2]
        by_cases c3 : fr.baseOff ≥ img.length
        · exact ⟨rs, by rw [if_pos c3]; exact hrs⟩
        · rw [if_neg c3]
          by_cases c4 : fr.endOff > img.length
          · exact ⟨rs, by rw [if_pos c4]; exact hrs⟩
          · rw [if_neg c4]
            simp only [hi0, if_false, hrs]
            exact ⟨_, rfl⟩

/-- slot 0 succeeds as soon as `NewBIOSRegion` does -/
theorem parseRegions_slot0_ok (img : Bytes) (nr : Nat) (r0 : FRegion) (tl : List FRegion) (pol : Nat)
    (els : List Elem) (pol1 : Nat) (hv : r0.valid = true) (hin : r0.endOff ≤ img.length)
    (hb : parseBios (Uefi.defaultFuel img) pol (slice img r0.baseOff (r0.endOff - r0.baseOff)) = .ok (els, pol1)) :
    ∃ rs, parseRegions img nr 0 (r0 :: tl) pol = .ok (rs, pol1) := by
  have hpos := valid_pos r0 hv
  obtain ⟨rs1, h1⟩ := parseRegions_from1 img nr tl (0 + 1) pol1 (by omega)
  rw [parseRegions]
  have c1 : ¬ (nr ≠ 0 ∧ 0 ≥ nr) := by omega
  have c2 : ¬ r0.baseOff ≥ img.length := by omega
  have c3 : ¬ r0.endOff > img.length := by omega
  simp only [c1, if_false, hv, Bool.not_true, Bool.false_eq_true, c2, c3, if_true, hb, h1]
  exact ⟨_, rfl⟩

theorem insertBy_sorted {α} (key : α → Nat) (x : α) (l : List α) (h : l.Pairwise (fun a b => key a ≤ key b)) :
    (insertBy key x l).Pairwise (fun a b => key a ≤ key b) := by
  induction l with
  | nil => exact List.pairwise_singleton _ _
  | cons y ys ih =>
    rw [List.pairwise_cons] at h
    simp only [insertBy]
    split
    · rename_i hlt
      refine List.Pairwise.cons ?_ (ih h.2)
      intro z hz
      have := (insertBy_perm key x ys).mem_iff.mp hz
      rcases List.mem_cons.mp this with rfl | hz'
      · omega
      · exact h.1 z hz'
    · rename_i hge
      refine List.Pairwise.cons ?_ (List.Pairwise.cons h.1 h.2)
      intro z hz
      rcases List.mem_cons.mp hz with rfl | hz'
      · omega
      · have := h.1 z hz'; omega

theorem isort_sorted_out {α} (key : α → Nat) (l : List α) : (isort key l).Pairwise (fun a b => key a ≤ key b) := by
  induction l with
  | nil => exact List.Pairwise.nil
  | cons x xs ih => exact insertBy_sorted key x _ ih

/-- along a chain every region ends before the later ones begin -/
theorem chain_pairwise (regs : List FRegion) (l : List Region) (off size : Nat) (h : Chain regs off l size) :
    l.Pairwise (fun a b => ∀ fa fb, frOf regs a = .ok fa → frOf regs b = .ok fb → fa.endOff ≤ fb.baseOff) := by
  induction l generalizing off with
  | nil => exact List.Pairwise.nil
  | cons x xs ih =>
    obtain ⟨fr, h1, h2, h3, _, h5⟩ := h
    refine List.Pairwise.cons ?_ (ih _ h5)
    intro y hy fa fb hfa hfb
    have e : fa = fr := Except.ok.inj (hfa.symm.trans h1)
    subst e
    exact (chain_mem_range _ _ _ _ h5 y hy fb hfb).1

theorem pairwise_mem_or {α} (R : α → α → Prop) (l : List α) (h : l.Pairwise R) (a b : α) (ha : a ∈ l) (hb : b ∈ l)
    (hne : a ≠ b) : R a b ∨ R b a := by
  induction l with
  | nil => cases ha
  | cons x xs ih =>
    rw [List.pairwise_cons] at h
    rcases List.mem_cons.mp ha with rfl | ha'
    · rcases List.mem_cons.mp hb with rfl | hb'
      · exact absurd rfl hne
      · exact Or.inl (h.1 b hb')
    · rcases List.mem_cons.mp hb with rfl | hb'
      · exact Or.inr (h.1 a ha')
      · exact ih h.2 ha' hb'

/-- the gap filler succeeds on a list whose extents follow each other -/
theorem fillGaps_ok (regs : List FRegion) (img : Bytes) (size : Nat) :
    ∀ (l : List Region) (off : Nat), (∀ r ∈ l, ∃ fr, frOf regs r = .ok fr ∧ off ≤ fr.baseOff) →
      l.Pairwise (fun a b => ∀ fa fb, frOf regs a = .ok fa → frOf regs b = .ok fb → fa.endOff ≤ fb.baseOff) →
      ∃ out, fillGaps regs img size off l = .ok out := by
  intro l
  induction l with
  | nil =>
    intro off _ _
    simp only [fillGaps]
    split
    · exact ⟨_, rfl⟩
    · exact ⟨_, rfl⟩
  | cons r rs ih =>
    intro off hall hpw
    rw [List.pairwise_cons] at hpw
    obtain ⟨fr, hfr, hoff⟩ := hall r List.mem_cons_self
    obtain ⟨rest, hrest⟩ := ih fr.endOff (by
      intro x hx
      obtain ⟨fx, hfx, _⟩ := hall x (List.mem_cons_of_mem _ hx)
      exact ⟨fx, hfx, hpw.1 x hx fr fx hfr hfx⟩) hpw.2
    simp only [fillGaps, hfr]
    have : ¬ fr.baseOff < off := by omega
    simp only [this, if_false, hrest]
    exact ⟨_, rfl⟩

theorem findSignature_take (b : Bytes) (h : descLen ≤ b.length) : findSignature b = findSignature (b.take descLen) := by
  simp only [descLen] at h
  unfold findSignature
  have e1 : ¬ b.length < 20 := by omega
  have e2 : ¬ (b.take descLen).length < 20 := by simp only [List.length_take, descLen]; omega
  have s16 : slice (b.take descLen) 16 4 = slice b 16 4 := by
    simp only [slice, descLen]; rw [List.drop_take, List.take_take]; rfl
  have s0 : slice (b.take descLen) 0 4 = slice b 0 4 := by
    simp only [slice, descLen]; rw [List.drop_take, List.take_take]; rfl
  simp only [e1, e2, if_false, s16, s0]

/-- the extents the first parse selected are pairwise disjoint and lie behind the descriptor -/
theorem old_disjoint (p0 : Nat) (img : Bytes) (f : Flash) (pol : Nat)
    (hsz : img.length % 4096 = 0) (hlt : img.length ≤ 2 ^ 28) (hp : parseFlash p0 img = .ok (f, pol)) :
    ∀ ka fa, f.desc.regs[ka]? = some fa → fa.valid = true → fa.endOff ≤ img.length →
      (f.desc.numberOfRegions = 0 ∨ ka < f.desc.numberOfRegions) →
      descLen ≤ fa.baseOff ∧
      ∀ kb fb, ka ≠ kb → f.desc.regs[kb]? = some fb → fb.valid = true → fb.endOff ≤ img.length →
        (f.desc.numberOfRegions = 0 ∨ kb < f.desc.numberOfRegions) →
        fa.endOff ≤ fb.baseOff ∨ fb.endOff ≤ fa.baseOff := by
  obtain ⟨w, hsize, _, _, _, _⟩ := parse_WF p0 img f pol hsz hlt hp
  obtain ⟨rs1, r0a, tla, _, _, _, hprs1, hfill1⟩ := parseFlash_inv p0 img f pol hp
  have node : ∀ k fr, f.desc.regs[k]? = some fr → fr.valid = true → fr.endOff ≤ img.length →
      (f.desc.numberOfRegions = 0 ∨ k < f.desc.numberOfRegions) →
      ∃ r ∈ f.regions, r.ref = .idx k ∧ frOf f.desc.regs r = .ok fr := by
    intro k fr hk hv he hn
    obtain ⟨r, hr, href, _, _⟩ := parseRegions_complete img _ f.desc.regs f.desc.regs 0 p0 rs1 pol (fun k => by simp) hprs1
      k fr (by omega) hk hv he hn
    exact ⟨r, fillGaps_mem _ _ _ _ _ _ hfill1 r ((isort_perm _ rs1).mem_iff.mpr hr), href, frOf_idx _ r k href fr hk⟩
  have hpw := chain_pairwise _ _ _ _ w.chain
  intro ka fa hka hva hea hna
  obtain ⟨ra, hra, hrefa, hfa⟩ := node ka fa hka hva hea hna
  refine ⟨(chain_mem_range _ _ _ _ w.chain ra hra fa hfa).1, ?_⟩
  intro kb fb hne hkb hvb heb hnb
  obtain ⟨rb, hrb, hrefb, hfb⟩ := node kb fb hkb hvb heb hnb
  have hneq : ra ≠ rb := by
    intro e; rw [e, hrefb] at hrefa; injection hrefa with e2; exact hne e2.symm
  rcases pairwise_mem_or _ _ hpw ra rb hra hrb hneq with h | h
  · exact Or.inl (h fa fb hfa hfb)
  · exact Or.inr (h fb fa hfb hfa)

/-- the slot classes of the second region loop: slot 0 = the enlarged BIOS extent, slot 1 = the shrunk ME
    extent, any other slot lies outside `[B1, L0]` -/
def SlotClass (B1 L0 nb k : Nat) (fr : FRegion) : Prop :=
  (k = 0 ∧ fr.base * 4096 = nb * 4096 ∧ (fr.limit + 1) * 4096 = (L0 + 1) * 4096) ∨
  (k = 1 ∧ fr.base * 4096 = B1 * 4096 ∧ (fr.limit + 1) * 4096 = nb * 4096) ∨
  (2 ≤ k ∧ ((fr.limit + 1) * 4096 ≤ B1 * 4096 ∨ (L0 + 1) * 4096 ≤ fr.base * 4096))

theorem order_of_class (B1 L0 nb : Nat) (h1 : B1 ≤ nb) (h2 : nb ≤ L0 + 1) (ka kb : Nat) (fa fb : FRegion) (hne : ka ≠ kb)
    (hkey : fa.base ≤ fb.base) (pa : fa.base * 4096 < (fa.limit + 1) * 4096) (pb : fb.base * 4096 < (fb.limit + 1) * 4096)
    (ca : SlotClass B1 L0 nb ka fa) (cb : SlotClass B1 L0 nb kb fb)
    (hold : 2 ≤ ka → 2 ≤ kb → (fa.limit + 1) * 4096 ≤ fb.base * 4096 ∨ (fb.limit + 1) * 4096 ≤ fa.base * 4096) :
    (fa.limit + 1) * 4096 ≤ fb.base * 4096 := by
  unfold SlotClass at ca cb
  rcases ca with ⟨rfl, a1, a2⟩ | ⟨rfl, a1, a2⟩ | ⟨ha2, a3⟩
  · rcases cb with ⟨rfl, b1, b2⟩ | ⟨rfl, b1, b2⟩ | ⟨hb2, b3⟩
    · exact absurd rfl hne
    · omega
    · omega
  · rcases cb with ⟨rfl, b1, b2⟩ | ⟨rfl, b1, b2⟩ | ⟨hb2, b3⟩
    · omega
    · exact absurd rfl hne
    · omega
  · rcases cb with ⟨rfl, b1, b2⟩ | ⟨rfl, b1, b2⟩ | ⟨hb2, b3⟩
    · omega
    · omega
    · have := hold ha2 hb2
      omega

/-- sorted by Base, the nodes of the second region loop follow each other without overlap -/
theorem sorted_nodes_follow (regs : List FRegion) (rs : List Region) (B1 L0 nb : Nat) (h1 : B1 ≤ nb) (h2 : nb ≤ L0 + 1)
    (hpw : rs.Pairwise (fun a b => slotOf a < slotOf b))
    (cls : ∀ r ∈ rs, ∃ fr, frOf regs r = .ok fr ∧ fr.base * 4096 < (fr.limit + 1) * 4096 ∧ 4096 ≤ fr.base * 4096 ∧
      SlotClass B1 L0 nb (slotOf r) fr)
    (hold : ∀ a ∈ rs, ∀ b ∈ rs, 2 ≤ slotOf a → 2 ≤ slotOf b → slotOf a ≠ slotOf b → ∀ fa fb,
      frOf regs a = .ok fa → frOf regs b = .ok fb →
      (fa.limit + 1) * 4096 ≤ fb.base * 4096 ∨ (fb.limit + 1) * 4096 ≤ fa.base * 4096) :
    (∀ r ∈ isort (baseKey regs) rs, ∃ fr, frOf regs r = .ok fr ∧ descLen ≤ fr.baseOff) ∧
    (isort (baseKey regs) rs).Pairwise
      (fun a b => ∀ fa fb, frOf regs a = .ok fa → frOf regs b = .ok fb → fa.endOff ≤ fb.baseOff) := by
  have hperm := isort_perm (baseKey regs) rs
  constructor
  · intro r hr
    obtain ⟨fr, hfr, _, hb4, _⟩ := cls r (hperm.mem_iff.mp hr)
    exact ⟨fr, hfr, by simp only [FRegion.baseOff, blockSize, descLen]; exact hb4⟩
  · have hsorted := isort_sorted_out (baseKey regs) rs
    have hneL : (isort (baseKey regs) rs).Pairwise (fun a b => slotOf a ≠ slotOf b) :=
      (hperm.pairwise_iff (fun {a b} (h : slotOf a ≠ slotOf b) => h.symm)).mpr (hpw.imp (fun h => Nat.ne_of_lt h))
    refine (hsorted.and hneL).imp_of_mem ?_
    intro a b ha hb hab fa fb hfa hfb
    obtain ⟨hkey, hslot⟩ := hab
    have ha' := hperm.mem_iff.mp ha
    have hb' := hperm.mem_iff.mp hb
    obtain ⟨fa', hfa', pa1, _, ca⟩ := cls a ha'
    obtain ⟨fb', hfb', pb1, _, cb⟩ := cls b hb'
    have e1 : fa' = fa := Except.ok.inj (hfa'.symm.trans hfa)
    have e2 : fb' = fb := Except.ok.inj (hfb'.symm.trans hfb)
    subst e1 e2
    simp only [baseKey, hfa, hfb] at hkey
    simp only [FRegion.baseOff, FRegion.endOff, blockSize]
    exact order_of_class B1 L0 nb h1 h2 (slotOf a) (slotOf b) fa' fb' hslot hkey pa1 pb1 ca cb
      (fun h2a h2b => hold a ha' b hb' h2a h2b hslot fa' fb' hfa hfb)

/-- `uefi.Parse` put together from its pieces -/
theorem parseFlash_ok_of (p0 : Nat) (B : Bytes) (ms : Nat) (d : Desc) (r0 : FRegion) (tl : List FRegion)
    (rs : List Region) (p' : Nat) (out : List Region)
    (hfs : findSignature B = some ms) (hlen : ¬ B.length < descLen) (hpd : parseDesc (B.take descLen) = .ok d)
    (hregs : d.regs = r0 :: tl) (hv : r0.valid = true)
    (hprs : parseRegions B d.numberOfRegions 0 d.regs p0 = .ok (rs, p'))
    (hfill : fillGaps d.regs B B.length descLen (isort (baseKey d.regs) rs) = .ok out) :
    parseFlash p0 B = .ok ({ desc := d, regions := out, size := B.length, buf := B }, p') := by
  rw [hregs] at hprs
  unfold parseFlash
  rw [hfs]
  simp only [hlen, if_false, hpd, hregs, hv, Bool.not_true, Bool.false_eq_true, hprs]
  rw [← hregs]
  simp only [hfill]

set_option maxHeartbeats 1000000 in
set_option maxRecDepth 10000 in
/-- **The saved image parses as soon as `NewBIOSRegion` accepts the enlarged BIOS extent.**  parse,
    `tighten_me`, save: `uefi.Parse` of the saved image (same initial polarity state) succeeds if
    `parseBios` succeeds on the input image's bytes at the NEW BIOS extent (slot 0 of the rewritten
    table) — nothing else in it can fail. -/
theorem saved_image_parses (p0 : Nat) (img : Bytes) (f f' g' : Flash) (pol pa pa' : Nat)
    (hsz : img.length % 4096 = 0) (hlt : img.length ≤ 2 ^ 28)
    (hp : parseFlash p0 img = .ok (f, pol)) (sane : f.desc.Sane)
    (ht : tighten pol f = .ok f') (hs : asmFlash pa f' = .ok (g', pa'))
    (r0' : FRegion) (tl' : List FRegion) (hregs' : f'.desc.regs = r0' :: tl')
    (els : List Elem) (p' : Nat)
    (hb : parseBios (Uefi.defaultFuel img) p0 (slice img r0'.baseOff (r0'.endOff - r0'.baseOff)) = .ok (els, p')) :
    ∃ t q, parseFlash p0 g'.buf = .ok (t, q) := by
  obtain ⟨w, hsize, _, hpay, hd, hcase⟩ := parse_WF p0 img f pol hsz hlt hp
  have w' := wf_tighten pol f f' w ht
  obtain ⟨pre, post, mer, br, fpt, free, blen, elems, r0, r1, rest, nb, hsplit, hregs, hmb, mref, hbb, bref,
    hadj, hb1, hnb, hnb1, hnb2, hmlen, her, hf'⟩ := tighten_shape pol f f' w ht
  have hout := asmFlash_ok_buf pa f' g' pa' w' hs
  rw [payload_tighten pol f f' w ht, hpay] at hout
  have hBl := asmDesc_length f'.desc w'.geom
  have himg4096 : descLen ≤ img.length := by
    have := chain_le _ _ _ _ w.chain; rw [hsize] at this; exact this
  have houtlen : g'.buf.length = img.length := by
    rw [hout, List.length_append, hBl, List.length_drop]; omega
  have htake : g'.buf.take descLen = asmDesc f'.desc := by rw [hout]; exact List.take_left' hBl
  have hdrop : g'.buf.drop descLen = img.drop descLen := by rw [hout]; exact List.drop_left' hBl
  have hdesc' : f'.desc = { f.desc with regs := { r0 with base := nb } :: { r1 with limit := nb - 1 } :: rest } := by
    rw [hf']
  have hu0 := w.u16 r0 (by rw [hregs]; simp)
  have hu1 := w.u16 r1 (by rw [hregs]; simp)
  have hrestlen : rest.length = 13 := by
    have := w.geom.regsLen; rw [hregs] at this; simp [nRegions] at this; omega
  obtain ⟨hpd, _⟩ := parseDesc_asmDesc (img.take descLen) f.desc hd sane
    ({ r0 with base := nb } :: { r1 with limit := nb - 1 } :: rest) (by simp [nRegions, hrestlen]) (by
      intro fr hfr
      simp only [List.mem_cons] at hfr
      rcases hfr with rfl | rfl | hfr
      · exact ⟨by simp only; omega, hu0.2⟩
      · exact ⟨hu1.1, by simp only; omega⟩
      · exact w.u16 fr (by rw [hregs]; simp [hfr]))
  rw [← hdesc'] at hpd
  -- the nodes of the first parse
  have mermem : mer ∈ f.regions := by rw [hsplit]; simp
  have brmem : br ∈ f.regions := by rw [hsplit]; simp
  have hP : Parsed f.desc.regs img mer := by
    rcases hcase mer mermem with h | h
    · exact h
    · rw [h.1] at hmb; cases hmb
  have hPb : Parsed f.desc.regs img br := by
    rcases hcase br brmem with h | h
    · exact h
    · rw [h.1] at hbb; cases hbb
  obtain ⟨rs1, r0a, tla, _, hregs0, hr0v, hprs1, hfill1⟩ := parseFlash_inv p0 img f pol hp
  have e0 : r0a = r0 := by rw [hregs] at hregs0; injection hregs0 with a _; exact a.symm
  subst e0
  have hmer_rs1 : mer ∈ rs1 := by
    rcases fillGaps_new_raw _ _ _ _ _ _ hfill1 mer mermem with h | h
    · exact (isort_perm _ rs1).mem_iff.mp h
    · rw [hmb] at h; cases h
  obtain ⟨k1, hk1, _, hnr1⟩ := parseRegions_nr img _ _ _ _ _ _ hprs1 mer hmer_rs1
  have ek1 : k1 = 1 := by rw [mref] at hk1; injection hk1 with e; exact e.symm
  subst ek1
  obtain ⟨im, frm, hrefm, hgetm, hvm, hendm, _, _, _⟩ := hP.slot
  have em : im = 1 ∧ frm = r1 := by
    rw [mref] at hrefm; injection hrefm with e; subst e
    rw [hregs] at hgetm; simp at hgetm; exact ⟨rfl, hgetm.symm⟩
  obtain ⟨_, rfl⟩ := em
  obtain ⟨ib, frb, hrefb, hgetb, _, hendb, _, _, _⟩ := hPb.slot
  have eb : ib = 0 ∧ frb = r0a := by
    rw [bref] at hrefb; injection hrefb with e; subst e
    rw [hregs] at hgetb; simp at hgetb; exact ⟨rfl, hgetb.symm⟩
  obtain ⟨_, rfl⟩ := eb
  -- numbers
  have hvr0 := hr0v
  have hvr1 := hvm
  simp only [FRegion.valid, Bool.and_eq_true, decide_eq_true_eq, bne_iff_ne, ne_eq] at hvr0 hvr1
  simp only [FRegion.endOff, blockSize] at hendb hendm
  -- the new slot 0
  have er0' : r0' = { frb with base := nb } := by
    rw [hdesc'] at hregs'; simp only [List.cons.injEq] at hregs'; exact hregs'.1.symm
  subst er0'
  have hv' : FRegion.valid { frb with base := nb } = true := by
    simp only [FRegion.valid, Bool.and_eq_true, decide_eq_true_eq, bne_iff_ne, ne_eq]
    refine ⟨⟨⟨hvr0.1.1.1, by omega⟩, hvr0.1.2⟩, by omega⟩
  -- the saved image has the input's bytes behind the descriptor
  have hslice : ∀ o n, descLen ≤ o → slice g'.buf o n = slice img o n := by
    intro o n ho
    have a : g'.buf = g'.buf.take descLen ++ g'.buf.drop descLen := (List.take_append_drop _ _).symm
    have b : img = img.take descLen ++ img.drop descLen := (List.take_append_drop _ _).symm
    rw [a, b, slice_append_right _ _ _ _ (by simp [descLen]; simp only [descLen] at ho; omega),
      slice_append_right _ _ _ _ (by simp [descLen]; simp only [descLen] at ho; omega)]
    simp only [List.length_take, hdrop]
    congr 1
    simp only [descLen] at himg4096 ⊢
    omega
  have hfuel : Uefi.defaultFuel g'.buf = Uefi.defaultFuel img := by simp only [Uefi.defaultFuel, houtlen]
  have hnb4096 : descLen ≤ FRegion.baseOff { frb with base := nb } := by
    simp only [FRegion.baseOff, blockSize, descLen]; omega
  obtain ⟨rs2, hprs2⟩ := parseRegions_slot0_ok g'.buf f'.desc.numberOfRegions { frb with base := nb } tl' p0 els p' hv'
    (by simp only [FRegion.endOff, blockSize]; rw [houtlen]; exact hendb)
    (by rw [hfuel, hslice _ _ hnb4096]; exact hb)
  have hreg2 : parseRegions g'.buf f'.desc.numberOfRegions 0 f'.desc.regs p0 = .ok (rs2, p') := by
    rw [hregs']; exact hprs2
  obtain ⟨hparsed2, hpw2⟩ := parseRegions_spec g'.buf (by rw [houtlen]; omega) f'.desc.numberOfRegions f'.desc.regs
    f'.desc.regs 0 p0 rs2 p' (fun k => by simp) hreg2
  have hnr2 := parseRegions_nr g'.buf _ _ _ _ _ _ hreg2
  have hnreq : f'.desc.numberOfRegions = f.desc.numberOfRegions := by rw [hdesc']; rfl
  rw [hnreq] at hnr2
  have O := old_disjoint p0 img f pol hsz hlt hp
  have sel0 := O 0 frb (by rw [hregs]; rfl) hr0v (by simp only [FRegion.endOff, blockSize]; exact hendb) (by omega)
  have sel1 := O 1 frm (by rw [hregs]; rfl) hvm (by simp only [FRegion.endOff, blockSize]; exact hendm) hnr1
  have hregs2 : f'.desc.regs = { frb with base := nb } :: { frm with limit := nb - 1 } :: rest := by rw [hdesc']
  -- every node of the second region loop: its slot and its extent
  have cls : ∀ r ∈ rs2, ∃ k fr, slotOf r = k ∧ frOf f'.desc.regs r = .ok fr ∧
      fr.base * 4096 < (fr.limit + 1) * 4096 ∧ 4096 ≤ fr.base * 4096 ∧
      ((k = 0 ∧ fr.base * 4096 = nb * 4096 ∧ (fr.limit + 1) * 4096 = (frb.limit + 1) * 4096) ∨
       (k = 1 ∧ fr.base * 4096 = frm.base * 4096 ∧ (fr.limit + 1) * 4096 = nb * 4096) ∨
       (2 ≤ k ∧ ((fr.limit + 1) * 4096 ≤ frm.base * 4096 ∨ (frb.limit + 1) * 4096 ≤ fr.base * 4096) ∧
          f.desc.regs[k]? = some fr ∧ fr.valid = true ∧ fr.endOff ≤ img.length ∧
          (f.desc.numberOfRegions = 0 ∨ k < f.desc.numberOfRegions))) := by
    intro r hr
    obtain ⟨i, fr, href, hget, hv, hend, _⟩ := (hparsed2 r hr).1.slot
    obtain ⟨k, hk, _, hnk⟩ := hnr2 r hr
    have eki : k = i := by rw [href] at hk; injection hk with e; exact e.symm
    subst eki
    have hpos := valid_pos fr hv
    simp only [FRegion.baseOff, FRegion.endOff, blockSize] at hpos
    refine ⟨k, fr, by simp only [slotOf, href], frOf_idx _ r k href fr hget, hpos, ?_⟩
    rw [hregs2] at hget
    match k, hget, hnk with
    | 0, hget, _ =>
      simp only [List.getElem?_cons_zero, Option.some.injEq] at hget
      subst hget
      exact ⟨by simp only; omega, Or.inl ⟨rfl, rfl, rfl⟩⟩
    | 1, hget, _ =>
      simp only [List.getElem?_cons_succ, List.getElem?_cons_zero, Option.some.injEq] at hget
      subst hget
      simp only [FRegion.valid, Bool.and_eq_true, decide_eq_true_eq, bne_iff_ne, ne_eq] at hv
      have s1 := sel1.1
      simp only [FRegion.baseOff, blockSize, descLen] at s1
      refine ⟨by simp only; exact s1, Or.inr (Or.inl ⟨rfl, rfl, ?_⟩)⟩
      simp only
      have : nb - 1 + 1 = nb := by omega
      rw [this]
    | j + 2, hget, hnk =>
      simp only [List.getElem?_cons_succ] at hget
      have hold : f.desc.regs[j + 2]? = some fr := by rw [hregs]; simpa only [List.getElem?_cons_succ] using hget
      have hend' : fr.endOff ≤ img.length := by rw [← houtlen]; exact hend
      have oj := O (j + 2) fr hold hv hend' hnk
      have d0 := sel0.2 (j + 2) fr (by omega) hold hv hend' hnk
      have d1 := sel1.2 (j + 2) fr (by omega) hold hv hend' hnk
      have b0 := oj.1
      simp only [FRegion.baseOff, FRegion.endOff, blockSize, descLen] at d0 d1 b0
      refine ⟨b0, Or.inr (Or.inr ⟨by omega, ?_, hold, hv, hend', hnk⟩)⟩
      omega
  have hB1nb : frm.base ≤ nb := hnb1
  obtain ⟨hall, hpwL⟩ := sorted_nodes_follow f'.desc.regs rs2 frm.base frb.limit nb hB1nb (by omega) hpw2
    (by
      intro r hr
      obtain ⟨k, fr, ek, hfr, p1, p2, c⟩ := cls r hr
      refine ⟨fr, hfr, p1, p2, ?_⟩
      rw [ek]
      unfold SlotClass
      rcases c with c | c | c
      · exact Or.inl c
      · exact Or.inr (Or.inl c)
      · exact Or.inr (Or.inr ⟨c.1, c.2.1⟩))
    (by
      intro a ha b hb h2a h2b hne fa fb hfa hfb
      obtain ⟨ka, fa', eka, hfa', _, _, ca⟩ := cls a ha
      obtain ⟨kb, fb', ekb, hfb', _, _, cb⟩ := cls b hb
      have e1 : fa' = fa := Except.ok.inj (hfa'.symm.trans hfa)
      have e2 : fb' = fb := Except.ok.inj (hfb'.symm.trans hfb)
      subst e1 e2
      rw [eka] at h2a hne
      rw [ekb] at h2b hne
      rcases ca with ⟨rfl, _⟩ | ⟨rfl, _⟩ | ⟨_, _, holda, hva, hea, hna⟩
      · exact absurd h2a (by decide)
      · exact absurd h2a (by decide)
      · rcases cb with ⟨rfl, _⟩ | ⟨rfl, _⟩ | ⟨_, _, holdb, hvb, heb, hnb'⟩
        · exact absurd h2b (by decide)
        · exact absurd h2b (by decide)
        · have := (O ka fa' holda hva hea hna).2 kb fb' hne holdb hvb heb hnb'
          simpa only [FRegion.baseOff, FRegion.endOff, blockSize] using this)
  obtain ⟨out, hfill⟩ := fillGaps_ok f'.desc.regs g'.buf g'.buf.length _ descLen hall hpwL
  -- put the pieces of `uefi.Parse` together
  have hfs : ∃ ms, findSignature g'.buf = some ms := by
    rw [findSignature_take g'.buf (by rw [houtlen]; exact himg4096), htake]
    exact ⟨_, (parseDesc_inv _ _ hpd).2.2.1⟩
  obtain ⟨ms, hfs⟩ := hfs
  have hlen : ¬ g'.buf.length < descLen := by rw [houtlen]; omega
  rw [← htake] at hpd
  rw [hdesc'] at hreg2 hfill
  exact ⟨_, _, parseFlash_ok_of p0 g'.buf ms _ { frb with base := nb } ({ frm with limit := nb - 1 } :: rest) rs2 p' out
    hfs hlen hpd rfl hv' hreg2 hfill⟩

set_option maxHeartbeats 1000000 in
set_option maxRecDepth 10000 in
/-- **Clean probes ⇒ the saved image parses.**  parse, `tighten_me`, save: if the BIOS extent of the
    INPUT image is `biosProbeClean`, `uefi.Parse` accepts the saved image (same initial polarity state) —
    whether blocks were freed or not. -/
theorem saved_image_parses_clean (p0 : Nat) (img : Bytes) (f f' g' : Flash) (pol pa pa' : Nat)
    (hsz : img.length % 4096 = 0) (hlt : img.length ≤ 2 ^ 28)
    (hp : parseFlash p0 img = .ok (f, pol)) (sane : f.desc.Sane)
    (ht : tighten pol f = .ok f') (hs : asmFlash pa f' = .ok (g', pa'))
    (hc : biosProbeClean img f.desc = true) :
    ∃ t q, parseFlash p0 g'.buf = .ok (t, q) := by
  obtain ⟨w, hsize, _, hpay, hd, hcase⟩ := parse_WF p0 img f pol hsz hlt hp
  obtain ⟨pre, post, mer, br, fpt, free, blen, elems, r0, r1, rest, nb, hsplit, hregs, hmb, mref, hbb, bref,
    hadj, hb1, hnb, hnb1, hnb2, hmlen, her, hf'⟩ := tighten_shape pol f f' w ht
  have hregs' : f'.desc.regs = { r0 with base := nb } :: { r1 with limit := nb - 1 } :: rest := by rw [hf']
  have mermem : mer ∈ f.regions := by rw [hsplit]; simp
  have brmem : br ∈ f.regions := by rw [hsplit]; simp
  have hP : Parsed f.desc.regs img mer := by
    rcases hcase mer mermem with h | h
    · exact h
    · rw [h.1] at hmb; cases hmb
  have hPb : Parsed f.desc.regs img br := by
    rcases hcase br brmem with h | h
    · exact h
    · rw [h.1] at hbb; cases hbb
  obtain ⟨rs1, r0a, tla, _, hregs0, hr0v, hprs1, _⟩ := parseFlash_inv p0 img f pol hp
  have e0 : r0a = r0 := by rw [hregs] at hregs0; injection hregs0 with a _; exact a.symm
  subst e0
  obtain ⟨ib, frb, hrefb, hgetb, _, hendb, _, _, _⟩ := hPb.slot
  have eb : ib = 0 ∧ frb = r0a := by
    rw [bref] at hrefb; injection hrefb with e; subst e
    rw [hregs] at hgetb; simp at hgetb; exact ⟨rfl, hgetb.symm⟩
  obtain ⟨_, rfl⟩ := eb
  have hmc := hP.content _ (frOf_idx f.desc.regs mer 1 mref _ (by rw [hregs]; rfl))
  rw [payload_me _ fpt free hmb] at hmc
  simp only [FRegion.baseOff, FRegion.endOff, blockSize] at hmc hendb
  have hv0 : frb.baseOff < frb.endOff := valid_pos frb hr0v
  simp only [FRegion.baseOff, FRegion.endOff, blockSize] at hv0
  -- the first parse, slot 0
  rw [hregs] at hprs1
  obtain ⟨els0, pol1, _, hb0, _⟩ := parseRegions_slot0 img _ frb (r1 :: rest) p0 rs1 pol hr0v
    (by simp only [FRegion.endOff, blockSize]; exact hendb) hprs1
  have hclean : probeClean (slice img frb.baseOff (frb.endOff - frb.baseOff)) = true := by
    simpa only [biosProbeClean, hregs] using hc
  by_cases hfreed : nb < frb.base
  · -- E ++ X
    generalize hE : slice img (nb * 4096) (frb.baseOff - nb * 4096) = E
    generalize hX : slice img frb.baseOff (frb.endOff - frb.baseOff) = X at hb0 hclean
    have hElen : E.length = (frb.base - nb) * 4096 := by
      rw [← hE, slice_length _ _ _ (by simp only [FRegion.baseOff, blockSize]; omega)]
      simp only [FRegion.baseOff, blockSize]
      rw [Nat.sub_mul]
    have hEer : isErased E pol = true := by
      have := her
      rw [hmc, slice_drop] at this
      have e1 : r1.base * 4096 + (nb - r1.base) * 4096 = nb * 4096 := by rw [Nat.sub_mul]; omega
      have e2 : (r1.limit + 1) * 4096 - r1.base * 4096 - (nb - r1.base) * 4096 = frb.baseOff - nb * 4096 := by
        simp only [FRegion.baseOff, blockSize]; rw [Nat.sub_mul, ← hadj]; omega
      rw [e1, e2, hE] at this
      exact this
    have hEf : Freed E := freed_of_erased E pol hEer (by rw [hElen]; exact Nat.mul_mod_left _ _)
      (by rw [hElen]; omega)
    have hsl : slice img (FRegion.baseOff { frb with base := nb })
        (FRegion.endOff { frb with base := nb } - FRegion.baseOff { frb with base := nb }) = E ++ X := by
      rw [← hE, ← hX]
      simp only [FRegion.baseOff, FRegion.endOff, blockSize]
      have e2 : (frb.limit + 1) * 4096 - nb * 4096 =
          (frb.base * 4096 - nb * 4096) + ((frb.limit + 1) * 4096 - frb.base * 4096) := by omega
      rw [e2, slice_add]
      congr 2
      omega
    unfold parseBios at hb0
    cases hq : Uefi.parseBiosElems Uefi.Hooks.none (Uefi.defaultFuel img) X 0 { pol := UInt8.ofNat p0 } with
    | error e => rw [hq] at hb0; cases hb0
    | ok q0 =>
      obtain ⟨es0, st0⟩ := q0
      have h3 := parseBiosElems_prefix_clean Uefi.Hooks.none _ E X _ st0 es0 hEf hclean hq
      exact saved_image_parses p0 img f f' g' pol pa pa' hsz hlt hp sane ht hs _ _ hregs' _ _
        (by rw [hsl]; unfold parseBios; rw [h3])
  · -- nothing freed: the BIOS extent is the old one
    have : nb = frb.base := by omega
    subst this
    exact saved_image_parses p0 img f f' g' pol pa pa' hsz hlt hp sane ht hs _ _ hregs' els0 pol1 hb0

end Fiano.TightenMe
