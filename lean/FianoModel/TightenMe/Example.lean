/-
  C12: a concrete well-formed tree on which `tighten_me` succeeds (used by the non-vacuity example
  of Props/C12.lean).
-/
import FianoModel.TightenMe.Preserve

namespace Fiano.TightenMe

/-- `n` erased bytes (kept opaque so that `simp` does not unfold 4096-element literals) -/
def ffs (n : Nat) : Bytes := List.replicate n 0xFF
@[simp] theorem ffs_length (n : Nat) : (ffs n).length = n := by simp [ffs]
theorem ffs_drop (n k : Nat) : (ffs n).drop k = ffs (n - k) := by simp [ffs]
theorem isErased_ffs (n : Nat) : isErased (ffs n) 0xFF = true := by
  simp [isErased, ffs, List.all_replicate]

/-! ## non-vacuity: a well-formed tree on which `tighten_me` succeeds and frees one block -/

def exUnused : List FRegion := List.replicate 13 ⟨0x7FFF, 0⟩
@[simp] theorem exUnused_length : exUnused.length = 13 := by simp [exUnused]

/-- descriptor, a 3-block ME region whose only partition ends at 0x1040, a 1-block BIOS region -/
def exFlash : Flash :=
  { desc := { buf := ffs 4096, mapStart := 20, dmap := [0,0,0,0,0,0,0,0,0,0,0,0,0,0,0,0], regionStart := 64,
              masterStart := 128, eraseSize := 0,
              regs := ⟨4, 4⟩ :: ⟨1, 3⟩ :: exUnused, master := [0,0,0,0,0,0,0,0,0,0,0,0] },
    regions := [⟨.idx 1, .me (some [⟨0x40, 0x1000⟩]) 0x1040, ffs 12288⟩,
                ⟨.idx 0, .bios 4096 [⟨true, 0, ffs 4096, 0xFF, false⟩], ffs 4096⟩],
    size := 20480, buf := [] }

theorem exFlash_wf : WF exFlash := by
  refine
    { geom := ⟨by simp [exFlash, descLen], by simp [exFlash, mapSize], by simp [exFlash, masterSize],
               by simp [exFlash, nRegions], by simp [exFlash, mapSize, descLen],
               by simp [exFlash, regionSectionSize, descLen], by simp [exFlash, masterSize, descLen]⟩,
      u16 := ?_, chain := ?_, meRef := ?_, biosRef := ?_, rawRef := ?_, oneME := ?_, oneBIOS := ?_,
      pos := ?_, bios := ?_, me := ?_ }
  · intro fr hfr
    simp only [exFlash, List.mem_cons, exUnused, List.mem_replicate] at hfr
    rcases hfr with rfl | rfl | ⟨_, rfl⟩ <;> simp
  · simp [exFlash, Chain, frOf, payload, FRegion.baseOff, FRegion.endOff, blockSize, descLen]
  · intro r hr hme
    simp only [exFlash, List.mem_cons, List.not_mem_nil, or_false] at hr
    rcases hr with rfl | rfl
    · rfl
    · simp [Body.isME] at hme
  · intro r hr hb
    simp only [exFlash, List.mem_cons, List.not_mem_nil, or_false] at hr
    rcases hr with rfl | rfl
    · simp [Body.isBIOS] at hb
    · rfl
  · intro r hr hb
    simp only [exFlash, List.mem_cons, List.not_mem_nil, or_false] at hr
    rcases hr with rfl | rfl <;> simp at hb
  · intro a b x y hx hy px py
    match a, b with
    | 0, 0 => rfl
    | 0, 1 => simp [exFlash] at hy; subst hy; simp [Body.isME] at py
    | 1, 0 => simp [exFlash] at hx; subst hx; simp [Body.isME] at px
    | 1, 1 => rfl
    | a + 2, _ => simp [exFlash] at hx
    | _, b + 2 => simp [exFlash] at hy
  · intro a b x y hx hy px py
    match a, b with
    | 0, 0 => rfl
    | 0, 1 => simp [exFlash] at hx; subst hx; simp [Body.isBIOS] at px
    | 1, 0 => simp [exFlash] at hy; subst hy; simp [Body.isBIOS] at py
    | 1, 1 => rfl
    | a + 2, _ => simp [exFlash] at hx
    | _, b + 2 => simp [exFlash] at hy
  · intro r hr hnm fr hfr
    simp only [exFlash, List.mem_cons, List.not_mem_nil, or_false] at hr
    rcases hr with rfl | rfl
    · simp [Body.isME] at hnm
    · simp [frOf, exFlash] at hfr; subst hfr; simp [FRegion.baseOff, FRegion.endOff, blockSize]
  · intro r hr len els hb
    simp only [exFlash, List.mem_cons, List.not_mem_nil, or_false] at hr
    rcases hr with rfl | rfl
    · simp at hb
    · simp at hb; obtain ⟨rfl, rfl⟩ := hb; simp
  · intro r hr fpt free hb
    simp only [exFlash, List.mem_cons, List.not_mem_nil, or_false] at hr
    rcases hr with rfl | rfl
    · simp at hb; obtain ⟨rfl, rfl⟩ := hb
      exact ⟨by decide, by decide⟩
    · simp at hb

theorem exFlash_tightens : ∃ f', tighten 0xFF exFlash = .ok f' := by
  refine ⟨_, tighten_of 0xFF exFlash 0 1
    ⟨.idx 1, .me (some [⟨0x40, 0x1000⟩]) 0x1040, ffs 12288⟩
    ⟨.idx 0, .bios 4096 [⟨true, 0, ffs 4096, 0xFF, false⟩], ffs 4096⟩
    (some [⟨0x40, 0x1000⟩]) 0x1040 4096 [⟨true, 0, ffs 4096, 0xFF, false⟩] ⟨1, 3⟩ ⟨4, 4⟩
    rfl rfl rfl rfl rfl rfl rfl rfl rfl ?_ ?_⟩
  · have : bufOffset (FRegion.baseOff ⟨1, 3⟩) 0x1040 = 8192 := by decide
    rw [this]; simp
  · have : bufOffset (FRegion.baseOff ⟨1, 3⟩) 0x1040 = 8192 := by decide
    rw [this]
    simp only [ffs_drop]
    exact isErased_ffs _

end Fiano.TightenMe
