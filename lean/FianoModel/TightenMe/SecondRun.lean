/-
  C12: the second run.  parse, `tighten_me`, save — then, in a new process, parse the saved image,
  `tighten_me`, save again.  When does the second `tighten_me` succeed, and what happens then?

    * ME region shrunk to nothing (`free = 0`: no partition with storage, in fact no table at all): the
      ME slot of the saved descriptor reads Base > Limit, the re-parsed tree has no ME node, the second
      `tighten_me` answers "no ME region found";
    * partition table cut (its unused, erased tail entries lay beyond the new boundary): fiano no longer
      parses the table, `FreeSpaceOffset` becomes 0, the second `tighten_me` wants the whole ME region
      erased, but the `$FPT` signature is still there: "not erased";
    * otherwise the re-parsed ME node holds the same table, the boundary is where it already is, and the
      second `tighten_me` succeeds without changing a byte of what `save` writes.

  `second_tighten_iff` proves that these are the only cases (given that the saved image parses at all).
-/
import FianoModel.TightenMe.Reparse

namespace Fiano.TightenMe

/-! ### what the region loop of NewFlashImage produces -/

theorem parseFlash_inv (p : Nat) (img : Bytes) (f : Flash) (pol' : Nat) (h : parseFlash p img = .ok (f, pol')) :
    ∃ rs r0 tl, parseDesc (img.take descLen) = .ok f.desc ∧ f.desc.regs = r0 :: tl ∧ r0.valid = true ∧
      parseRegions img f.desc.numberOfRegions 0 f.desc.regs p = .ok (rs, pol') ∧
      fillGaps f.desc.regs img img.length descLen (isort (baseKey f.desc.regs) rs) = .ok f.regions := by
  unfold parseFlash at h
  split at h
  · cases h
  · split at h
    · cases h
    · split at h
      · cases h
      · rename_i d hd
        split at h
        · cases h
        · rename_i r0 tl hregs
          split at h
          · cases h
          · rename_i hv
            split at h
            · cases h
            · rename_i rs pol1 hrs
              split at h
              · cases h
              · rename_i rs' hfill
                injection h with h; injection h with h1 h2; subst h1; subst h2
                exact ⟨rs, r0, tl, hd, hregs, by simpa using hv, hrs, hfill⟩

/-- the loop stops at `NumberOfRegions`: every node it builds has a slot below it -/
theorem parseRegions_nr (img : Bytes) (nr : Nat) :
    ∀ (frs : List FRegion) (i pol : Nat) (rs : List Region) (pol' : Nat),
      parseRegions img nr i frs pol = .ok (rs, pol') → ∀ r ∈ rs, ∃ k, r.ref = .idx k ∧ i ≤ k ∧ (nr = 0 ∨ k < nr) := by
  intro frs
  induction frs with
  | nil =>
    intro i pol rs pol' h
    simp only [parseRegions] at h
    injection h with h; injection h with h1 _; subst h1
    intro r hr; cases hr
  | cons fr frs ih =>
    intro i pol rs pol' h
    have hrec : ∀ pol1 rs1 pol2, parseRegions img nr (i + 1) frs pol1 = .ok (rs1, pol2) →
        ∀ r ∈ rs1, ∃ k, r.ref = .idx k ∧ i ≤ k ∧ (nr = 0 ∨ k < nr) := by
      intro pol1 rs1 pol2 h1 r hr
      obtain ⟨k, a, b, c⟩ := ih (i + 1) pol1 rs1 pol2 h1 r hr
      exact ⟨k, a, by omega, c⟩
    unfold parseRegions at h
    split at h
    · injection h with h; injection h with h1 _; subst h1
      intro r hr; cases hr
    · rename_i hnr
      have hin : nr = 0 ∨ i < nr := by omega
      split at h
      · exact hrec _ _ _ h
      · split at h
        · exact hrec _ _ _ h
        · split at h
          · exact hrec _ _ _ h
          · simp only at h
            split at h
            · split at h
              · cases h
              · split at h
                · cases h
                · rename_i rs1 pol2 hrs1
                  injection h with h; injection h with h1 _; subst h1
                  intro r hr
                  rcases List.mem_cons.mp hr with rfl | hr
                  · exact ⟨i, rfl, Nat.le_refl _, hin⟩
                  · exact hrec _ _ _ hrs1 r hr
            · split at h
              · cases h
              · rename_i rs1 pol2 hrs1
                injection h with h; injection h with h1 _; subst h1
                intro r hr
                rcases List.mem_cons.mp hr with rfl | hr
                · exact ⟨i, rfl, Nat.le_refl _, hin⟩
                · exact hrec _ _ _ hrs1 r hr

/-- … and it builds a node for every valid slot inside the image below `NumberOfRegions` -/
theorem parseRegions_complete (img : Bytes) (nr : Nat) (regs : List FRegion) :
    ∀ (frs : List FRegion) (i pol : Nat) (rs : List Region) (pol' : Nat),
      (∀ k, frs[k]? = regs[i + k]?) → parseRegions img nr i frs pol = .ok (rs, pol') →
      ∀ k fr, i ≤ k → regs[k]? = some fr → fr.valid = true → fr.endOff ≤ img.length → (nr = 0 ∨ k < nr) →
        ∃ r ∈ rs, r.ref = .idx k ∧ (k = 1 → r.body.isME = true) ∧ (k = 0 → r.body.isBIOS = true) := by
  intro frs
  induction frs with
  | nil =>
    intro i pol rs pol' hfrs h k fr hik hk
    have := hfrs (k - i)
    rw [show i + (k - i) = k by omega, hk] at this
    simp at this
  | cons fr0 frs ih =>
    intro i pol rs pol' hfrs h k fr hik hk hv hend hnr
    have hnext : ∀ m, frs[m]? = regs[i + 1 + m]? := by
      intro m
      have := hfrs (m + 1)
      simp only [List.getElem?_cons_succ] at this
      rw [this]; congr 1; omega
    have hfr0 : regs[i]? = some fr0 := by
      have := hfrs 0
      simpa using this.symm
    -- the slot in question is this one, or a later one
    by_cases hki : k = i
    · subst hki
      rw [hfr0] at hk; cases hk
      have hpos := valid_pos fr0 hv
      unfold parseRegions at h
      split at h
      · rename_i hstop; omega
      · split at h
        · rename_i hnv; simp [hv] at hnv
        · split at h
          · omega
          · split at h
            · omega
            · simp only at h
              split at h
              · rename_i hk0
                split at h
                · cases h
                · split at h
                  · cases h
                  · injection h with h; injection h with h1 _; subst h1
                    exact ⟨_, List.mem_cons_self, rfl, fun e => by omega, fun _ => rfl⟩
              · rename_i hk0
                split at h
                · cases h
                · injection h with h; injection h with h1 _; subst h1
                  refine ⟨_, List.mem_cons_self, rfl, fun e => ?_, fun e => absurd e hk0⟩
                  simp only [e, if_true]
                  split <;> rfl
    · have hik' : i + 1 ≤ k := by omega
      have hrec : ∀ pol1 rs1 pol2, parseRegions img nr (i + 1) frs pol1 = .ok (rs1, pol2) →
          ∃ r ∈ rs1, r.ref = .idx k ∧ (k = 1 → r.body.isME = true) ∧ (k = 0 → r.body.isBIOS = true) :=
        fun pol1 rs1 pol2 h1 => ih (i + 1) pol1 rs1 pol2 hnext h1 k fr hik' hk hv hend hnr
      unfold parseRegions at h
      split at h
      · rename_i hstop; omega
      · split at h
        · exact hrec _ _ _ h
        · split at h
          · exact hrec _ _ _ h
          · split at h
            · exact hrec _ _ _ h
            · simp only at h
              split at h
              · split at h
                · cases h
                · split at h
                  · cases h
                  · rename_i rs1 pol2 hrs1
                    injection h with h; injection h with h1 _; subst h1
                    obtain ⟨r, hr, hx⟩ := hrec _ _ _ hrs1
                    exact ⟨r, List.mem_cons_of_mem _ hr, hx⟩
              · split at h
                · cases h
                · rename_i rs1 pol2 hrs1
                  injection h with h; injection h with h1 _; subst h1
                  obtain ⟨r, hr, hx⟩ := hrec _ _ _ hrs1
                  exact ⟨r, List.mem_cons_of_mem _ hr, hx⟩

/-- `fillRegionGaps` keeps every region it is given -/
theorem fillGaps_mem (regs : List FRegion) (img : Bytes) (size : Nat) :
    ∀ (l : List Region) (off : Nat) (out : List Region), fillGaps regs img size off l = .ok out → ∀ r ∈ l, r ∈ out := by
  intro l
  induction l with
  | nil => intro off out _ r hr; cases hr
  | cons x xs ih =>
    intro off out h r hr
    simp only [fillGaps] at h
    split at h
    · cases h
    · split at h
      · cases h
      · split at h
        · cases h
        · rename_i rest hrest
          injection h with h; subst h
          rcases List.mem_cons.mp hr with rfl | hr
          · simp
          · have := ih _ _ hrest r hr
            simp [this]

/-- … and adds raw nodes only -/
theorem fillGaps_new_raw (regs : List FRegion) (img : Bytes) (size : Nat) :
    ∀ (l : List Region) (off : Nat) (out : List Region), fillGaps regs img size off l = .ok out →
      ∀ r ∈ out, r ∈ l ∨ r.body = .raw := by
  intro l
  induction l with
  | nil =>
    intro off out h r hr
    simp only [fillGaps] at h
    split at h
    · injection h with h; subst h
      simp only [List.mem_singleton] at hr; subst hr
      exact Or.inr rfl
    · injection h with h; subst h; cases hr
  | cons x xs ih =>
    intro off out h r hr
    simp only [fillGaps] at h
    split at h
    · cases h
    · split at h
      · cases h
      · split at h
        · cases h
        · rename_i rest hrest
          injection h with h; subst h
          simp only [List.mem_append, List.mem_cons] at hr
          rcases hr with hr | rfl | hr
          · split at hr
            · simp only [List.mem_singleton] at hr; subst hr; exact Or.inr rfl
            · cases hr
          · exact Or.inl List.mem_cons_self
          · rcases ih _ _ hrest r hr with h | h
            · exact Or.inl (List.mem_cons_of_mem _ h)
            · exact Or.inr h

theorem lastIdx_of_mem {α} (p : α → Bool) (l : List α) (x : α) (hx : x ∈ l) (hp : p x = true) :
    ∃ i y, lastIdx p l = some i ∧ l[i]? = some y ∧ p y = true := by
  cases h : lastIdx p l with
  | none => have := lastIdx_none p l h x hx; rw [hp] at this; cases this
  | some i =>
    obtain ⟨y, h1, h2, _⟩ := lastIdx_some p l i h
    exact ⟨i, y, rfl, h1, h2⟩

/-! ### erased bytes and the `$FPT` signature -/

theorem isErased_all (b : Bytes) (pol : Nat) (h : isErased b pol = true) (k : Nat) (x : UInt8) (hk : b[k]? = some x) :
    x.toNat = pol := by
  unfold isErased at h
  rw [List.all_eq_true] at h
  have := h x (List.mem_of_getElem? hk)
  simpa using this

theorem isPrefixOf_get (pat b : Bytes) (h : pat.isPrefixOf b = true) (k : Nat) (x : UInt8) (hk : pat[k]? = some x) :
    b[k]? = some x := by
  induction pat generalizing b k with
  | nil => simp at hk
  | cons p ps ih =>
    cases b with
    | nil => simp at h
    | cons y ys =>
      simp only [List.isPrefixOf_cons_cons, Bool.and_eq_true, beq_iff_eq] at h
      cases k with
      | zero => simp only [List.getElem?_cons_zero, Option.some.injEq] at hk ⊢; rw [← hk, h.1]
      | succ k => simp only [List.getElem?_cons_succ] at hk ⊢; exact ih ys h.2 k hk

theorem indexOf_get (pat b : Bytes) (a i : Nat) (h : indexOf pat b a = some i) (k : Nat) (x : UInt8)
    (hk : pat[k]? = some x) : b[i - a + k]? = some x := by
  induction b generalizing a with
  | nil => simp [indexOf] at h
  | cons y ys ih =>
    simp only [indexOf] at h
    split at h
    · rename_i hp
      injection h with h; subst h
      rw [Nat.sub_self, Nat.zero_add]
      exact isPrefixOf_get pat _ hp k x hk
    · have hge := indexOf_ge _ _ _ _ h
      have := ih (a + 1) h
      rw [show i - a + k = (i - (a + 1) + k) + 1 by omega, List.getElem?_cons_succ]
      exact this

/-- a buffer whose tail from `n` on is erased and that holds the `$FPT` signature at `i`: the first two
    signature bytes lie before `n` (two different signature bytes cannot both be erased bytes) -/
theorem sig_before_tail (buf : Bytes) (i n pol : Nat) (hi : indexOf fptSig buf 0 = some i)
    (her : isErased (buf.drop n) pol = true) : i + 2 ≤ n := by
  have g1 := indexOf_get fptSig buf 0 i hi 1 0x46 rfl
  have g2 := indexOf_get fptSig buf 0 i hi 2 0x50 rfl
  simp only [Nat.sub_zero] at g1 g2
  rcases Nat.lt_or_ge (i + 1) n with h | h
  · omega
  · exfalso
    have e1 := isErased_all _ pol her (i + 1 - n) 0x46 (by rw [List.getElem?_drop]; rw [show n + (i + 1 - n) = i + 1 by omega]; exact g1)
    have e2 := isErased_all _ pol her (i + 2 - n) 0x50 (by rw [List.getElem?_drop]; rw [show n + (i + 2 - n) = i + 2 by omega]; exact g2)
    rw [← e1] at e2
    exact absurd e2 (by decide)

/-- … so the part before `n` is not erased, whatever the polarity -/
theorem head_not_erased (buf : Bytes) (i n q : Nat) (hi : indexOf fptSig buf 0 = some i) (hn : i + 2 ≤ n) :
    isErased (buf.take n) q = false := by
  have g0 := indexOf_get fptSig buf 0 i hi 0 0x24 rfl
  have g1 := indexOf_get fptSig buf 0 i hi 1 0x46 rfl
  simp only [Nat.sub_zero, Nat.add_zero] at g0 g1
  cases h : isErased (buf.take n) q with
  | false => rfl
  | true =>
    exfalso
    have e0 := isErased_all _ q h i 0x24 (by rw [List.getElem?_take]; simp only [show i < n by omega, if_true]; exact g0)
    have e1 := isErased_all _ q h (i + 1) 0x46 (by rw [List.getElem?_take]; simp only [show i + 1 < n by omega, if_true]; exact g1)
    rw [← e0] at e1
    exact absurd e1 (by decide)

theorem indexOf_fits (pat b : Bytes) (a j : Nat) (h : indexOf pat b a = some j) : (j - a) + pat.length ≤ b.length := by
  induction b generalizing a with
  | nil => simp [indexOf] at h
  | cons y ys ih =>
    simp only [indexOf] at h
    split at h
    · rename_i hp
      injection h with h; subst h
      have := List.IsPrefix.length_le (List.isPrefixOf_iff_prefix.mp hp)
      omega
    · have hge := indexOf_ge _ _ _ _ h
      have := ih (a + 1) h
      simp only [List.length_cons]
      omega

/-- an occurrence found in a prefix of the buffer is the first occurrence in the buffer -/
theorem indexOf_of_take (pat b : Bytes) (a n j : Nat) (h : indexOf pat (b.take n) a = some j) :
    indexOf pat b a = some j := by
  induction b generalizing a n with
  | nil => simp [indexOf] at h
  | cons y ys ih =>
    cases n with
    | zero => simp [indexOf] at h
    | succ m =>
      simp only [List.take_succ_cons, indexOf] at h ⊢
      split at h
      · rename_i hp
        -- a match inside the shorter list is a match inside the longer one
        have hl := List.IsPrefix.length_le (List.isPrefixOf_iff_prefix.mp hp)
        simp only [List.length_cons, List.length_take] at hl
        have : pat.isPrefixOf (y :: ys) = true := by
          rw [← isPrefixOf_take pat (y :: ys) (m + 1) (by omega)]; exact hp
        simp only [this, if_true]; exact h
      · rename_i hp
        have hfit := indexOf_fits pat _ _ _ h
        simp only [List.length_take] at hfit
        have hnp : ¬ pat.isPrefixOf (y :: ys) = true := by
          intro hc
          apply hp
          have := isPrefixOf_take pat (y :: ys) (m + 1) (by omega)
          simp only [List.take_succ_cons] at this
          rw [this]; exact hc
        simp only [hnp]
        exact ih (a + 1) m h

/-- a table that does not end inside the first `n` bytes is not parsed from them -/
theorem parseFPT_cut (buf : Bytes) (i n : Nat) (hi : indexOf fptSig buf 0 = some i) (hcut : n < tableEnd buf i)
    (hn : n ≤ buf.length) : parseFPT (buf.take n) = none := by
  unfold parseFPT
  cases h : indexOf fptSig (buf.take n) 0 with
  | none => rfl
  | some j =>
    simp only []
    have hj : j = i := by
      have := indexOf_of_take fptSig buf 0 n j h
      rw [hi] at this; injection this with this; exact this.symm
    subst hj
    have hfit := indexOf_fits fptSig _ _ _ h
    simp only [tableEnd, fptHeaderMin, fptEntryLen] at hcut ⊢
    have l : (buf.take n).length = n := by rw [List.length_take]; omega
    simp only [l, fptSig, List.length_cons, List.length_nil, Nat.sub_zero] at hfit
    by_cases c1 : n < j + 4 + 28
    · simp only [l, c1, if_true]
    · simp only [l, c1, if_false]
      have hs : slice (buf.take n) (j + 4) 4 = slice buf (j + 4) 4 := by
        simp only [slice]; rw [List.drop_take, List.take_take]; congr 1; omega
      rw [hs]
      have c2 : n < j + 4 + 28 + 32 * fromLE (slice buf (j + 4) 4) := by omega
      simp only [c2, if_true]

/-! ### the re-parsed tree -/

/-- the table fits: the partition table that starts at the first `$FPT` of `buf` ends inside the
    first `n` bytes (vacuous without a signature) -/
def tableFits (buf : Bytes) (n : Nat) : Bool :=
  match indexOf fptSig buf 0 with
  | some i => decide (tableEnd buf i ≤ n)
  | none => true

def freeOfBody : Body → Nat
  | .me _ free => free
  | _ => 0

/-- `FreeSpaceOffset` for a parsed (or missing) table -/
def freeOfOpt : Option (List Entry) → Nat
  | some es => freeOf es
  | none => 0

theorem freeOfOpt_eq (fpt : Option (List Entry)) :
    (match fpt with | some es => freeOf es | none => 0) = freeOfOpt fpt := by cases fpt <;> rfl

/-- **When the second run's `tighten_me` succeeds**, read off the first run: the ME node had
    partitions with storage (`FreeSpaceOffset > 0`, so the region was not shrunk to nothing) and its
    partition table still ends inside the shrunk ME buffer.  A decidable predicate on the tree before
    (`f`) and after (`f'`) the first `tighten_me`. -/
def SecondOk (f f' : Flash) : Prop :=
  ∀ mer ∈ f.regions, ∀ mer' ∈ f'.regions, mer.body.isME = true → mer'.body.isME = true →
    0 < freeOfBody mer.body ∧ tableFits mer.buf mer'.buf.length = true

instance (f f' : Flash) : Decidable (SecondOk f f') := by unfold SecondOk; infer_instance

/-- the facts about the first run and the re-parsed tree that everything below uses -/
structure Reparsed (f t : Flash) (img B : Bytes) (pol : Nat) (mer : Region) (fpt : Option (List Entry)) (free : Nat)
    (r0 r1 : FRegion) (rest : List FRegion) (nb : Nat) : Prop where
  mermem : mer ∈ f.regions
  hmb : mer.body = .me fpt free
  hregs : f.desc.regs = r0 :: r1 :: rest
  hnb : nb = newBoundary r1.base free
  hb1 : 1 ≤ r1.base
  hnb1 : r1.base ≤ nb
  hnb2 : nb ≤ r1.limit + 1
  hadj : r1.limit + 1 = r0.base
  hmlen : mer.buf.length = (r1.limit + 1 - r1.base) * 4096
  her : isErased (mer.buf.drop ((nb - r1.base) * 4096)) pol = true
  hfpt : fpt = parseFPT mer.buf
  hfree : free = freeOfOpt fpt
  u0 : r0.base < 65536 ∧ r0.limit < 65536
  u1 : r1.base < 65536 ∧ r1.limit < 65536
  r0valid : r0.valid = true
  r1valid : r1.valid = true
  inb : (r0.limit + 1) * 4096 ≤ img.length
  nrok : f.desc.numberOfRegions = 0 ∨ 1 < f.desc.numberOfRegions
  wt : WF t
  tregs : t.desc.regs = { r0 with base := nb } :: { r1 with limit := nb - 1 } :: rest
  tnr : t.desc.numberOfRegions = f.desc.numberOfRegions
  Blen : B.length = img.length
  tpay : t.regions.flatMap payload = B.drop descLen
  tcase : ∀ r ∈ t.regions, Parsed t.desc.regs B r ∨ IsGap t.desc.regs B r
  mebuf : ∀ mer2 ∈ t.regions, ∀ fpt2 free2, mer2.body = .me fpt2 free2 →
    mer2.buf = mer.buf.take ((nb - r1.base) * 4096) ∧ fpt2 = parseFPT mer2.buf ∧ free2 = freeOfOpt fpt2 ∧
    r1.base < nb
  resave : asmDesc t.desc ++ B.drop descLen = B
  /-- (wp-c12c) the saved image is the input image from 4096 on; the ME buffer is the image at the ME extent -/
  Bdrop : B.drop descLen = img.drop descLen
  merbuf : mer.buf = slice img (r1.base * 4096) ((r1.limit + 1) * 4096 - r1.base * 4096)
  imglen : descLen ≤ img.length

set_option maxRecDepth 10000 in
theorem reparse_struct (p0 : Nat) (img : Bytes) (f f' g' t : Flash) (pol pa pa' q0 q : Nat)
    (hsz : img.length % 4096 = 0) (hlt : img.length ≤ 2 ^ 28)
    (hp : parseFlash p0 img = .ok (f, pol)) (sane : f.desc.Sane)
    (ht : tighten pol f = .ok f') (hs : asmFlash pa f' = .ok (g', pa'))
    (hr : parseFlash q0 g'.buf = .ok (t, q)) :
    ∃ mer fpt free r0 r1 rest nb, Reparsed f t img g'.buf pol mer fpt free r0 r1 rest nb ∧
      (∀ mer' ∈ f'.regions, mer'.body.isME = true → mer'.buf.length = (nb - r1.base) * 4096) ∧
      (∀ m ∈ f.regions, m.body.isME = true → m = mer) ∧ (∃ mer' ∈ f'.regions, mer'.body.isME = true) := by
  obtain ⟨w, hsize, _, hpay, hd, hcase⟩ := parse_WF p0 img f pol hsz hlt hp
  have w' := wf_tighten pol f f' w ht
  obtain ⟨pre, post, mer, br, fpt, free, blen, elems, r0, r1, rest, nb, hsplit, hregs, hmb, mref, hbb, bref,
    hadj, hb1, hnb, hnb1, hnb2, hmlen, her, hf'⟩ := tighten_shape pol f f' w ht
  have hout := asmFlash_ok_buf pa f' g' pa' w' hs
  rw [payload_tighten pol f f' w ht, hpay] at hout
  have hBl := asmDesc_length f'.desc w'.geom
  have himg4096 : descLen ≤ img.length := by
    have := chain_le _ _ _ _ w.chain; rw [hsize] at this; exact this
  have houtlen : g'.buf.length = img.length := by
    rw [hout, List.length_append, hBl, List.length_drop]; omega
  obtain ⟨wt, tsize, _, tpay, td, tcase⟩ := parse_WF q0 g'.buf t q (by rw [houtlen]; exact hsz) (by rw [houtlen]; exact hlt) hr
  have htake : g'.buf.take descLen = asmDesc f'.desc := by rw [hout]; exact List.take_left' hBl
  have hdrop : g'.buf.drop descLen = img.drop descLen := by rw [hout]; exact List.drop_left' hBl
  have hdesc' : f'.desc = { f.desc with regs := { r0 with base := nb } :: { r1 with limit := nb - 1 } :: rest } := by
    rw [hf']
  have hu0 := w.u16 r0 (by rw [hregs]; simp)
  have hu1 := w.u16 r1 (by rw [hregs]; simp)
  have hrestlen : rest.length = 13 := by
    have := w.geom.regsLen; rw [hregs] at this; simp [nRegions] at this; omega
  obtain ⟨hpd, hasm⟩ := parseDesc_asmDesc (img.take descLen) f.desc hd sane
    ({ r0 with base := nb } :: { r1 with limit := nb - 1 } :: rest) (by simp [nRegions, hrestlen]) (by
      intro fr hfr
      simp only [List.mem_cons] at hfr
      rcases hfr with rfl | rfl | hfr
      · exact ⟨by simp only; omega, hu0.2⟩
      · exact ⟨hu1.1, by simp only; omega⟩
      · exact w.u16 fr (by rw [hregs]; simp [hfr]))
  have hasm' : asmDesc { f'.desc with buf := asmDesc f'.desc } = asmDesc f'.desc := by
    rw [hdesc']; exact hasm
  rw [← hdesc'] at hpd
  rw [htake, hpd] at td
  have htdesc : t.desc = { f'.desc with buf := asmDesc f'.desc } := by
    have := Except.ok.inj td; rw [← this, hdesc']
  have htregs : t.desc.regs = { r0 with base := nb } :: { r1 with limit := nb - 1 } :: rest := by
    rw [htdesc, hdesc']
  have mermem : mer ∈ f.regions := by rw [hsplit]; simp
  have brmem : br ∈ f.regions := by rw [hsplit]; simp
  have hP : Parsed f.desc.regs img mer := by
    rcases hcase mer mermem with h | h
    · exact h
    · rw [h.1] at hmb; cases hmb
  have hPb : Parsed f.desc.regs img br := by
    rcases hcase br brmem with h | h
    · exact h
    · rw [h.1] at hbb; cases hbb
  obtain ⟨hfree, _, hfpt⟩ := hP.me fpt free hmb
  -- the BIOS slot as the first parse saw it
  obtain ⟨rs1, r0', tl, _, hregs0, hr0v, hprs1, hfill1⟩ := parseFlash_inv p0 img f pol hp
  -- the ME node came out of the region loop: its slot is valid and below NumberOfRegions
  have hmer_rs1 : mer ∈ rs1 := by
    rcases fillGaps_new_raw _ _ _ _ _ _ hfill1 mer mermem with h | h
    · exact (isort_perm _ rs1).mem_iff.mp h
    · rw [hmb] at h; cases h
  obtain ⟨k1, hk1, _, hnrok⟩ := parseRegions_nr img _ _ _ _ _ _ hprs1 mer hmer_rs1
  have ek1 : k1 = 1 := by rw [mref] at hk1; injection hk1 with e; exact e.symm
  subst ek1
  obtain ⟨im, frm, hrefm, hgetm, hvm, _, _, _, _⟩ := hP.slot
  have em : im = 1 ∧ frm = r1 := by
    rw [mref] at hrefm; injection hrefm with e; subst e
    rw [hregs] at hgetm; simp at hgetm; exact ⟨rfl, hgetm.symm⟩
  rw [em.2] at hvm
  have e0 : r0' = r0 := by rw [hregs] at hregs0; injection hregs0 with a _; exact a.symm
  subst e0
  obtain ⟨ib, frb, hrefb, hgetb, _, hendb, _, _, _⟩ := hPb.slot
  have eb : ib = 0 ∧ frb = r0' := by
    rw [bref] at hrefb; injection hrefb with e; subst e
    rw [hregs] at hgetb; simp at hgetb; exact ⟨rfl, hgetb.symm⟩
  obtain ⟨_, rfl⟩ := eb
  have hc := hP.content _ (frOf_idx f.desc.regs mer 1 mref _ (by rw [hregs]; rfl))
  rw [payload_me _ fpt free hmb] at hc
  simp only [FRegion.baseOff, FRegion.endOff, blockSize] at hc hendb
  have hsub : nb * 4096 - r1.base * 4096 = (nb - r1.base) * 4096 := (Nat.sub_mul _ _ _).symm
  refine ⟨mer, fpt, free, frb, r1, rest, nb,
    { mermem := mermem, hmb := hmb, hregs := hregs, hnb := hnb, hb1 := hb1, hnb1 := hnb1, hnb2 := hnb2, hadj := hadj,
      hmlen := hmlen, her := her, hfpt := hfpt, hfree := by rw [← freeOfOpt_eq]; exact hfree, u0 := hu0, u1 := hu1,
      r0valid := hr0v, r1valid := hvm, inb := hendb, nrok := hnrok,
      wt := wt, tregs := htregs, tnr := by rw [htdesc, hdesc']; rfl, Blen := houtlen, tpay := tpay, tcase := tcase,
      mebuf := ?_, resave := by rw [htdesc, hasm', ← htake, List.take_append_drop],
      Bdrop := hdrop, merbuf := hc, imglen := himg4096 }, ?_, ?_, ?_⟩
  · intro mer2 mer2mem fpt2 free2 hmb2
    have hP2 : Parsed t.desc.regs g'.buf mer2 := by
      rcases tcase mer2 mer2mem with h | h
      · exact h
      · rw [h.1] at hmb2; cases hmb2
    have mref2 := wt.meRef mer2 mer2mem (by simp [hmb2, Body.isME])
    have hc2 := hP2.content _ (frOf_idx t.desc.regs mer2 1 mref2 _ (by rw [htregs]; rfl))
    rw [payload_me _ fpt2 free2 hmb2] at hc2
    simp only [FRegion.baseOff, FRegion.endOff, blockSize] at hc2
    -- the ME slot of the re-parsed table is valid, so the region was not shrunk to nothing
    obtain ⟨i2, fr2, href2, hget2, hv2, _, _, _, _⟩ := hP2.slot
    have e2 : i2 = 1 ∧ fr2 = { r1 with limit := nb - 1 } := by
      rw [mref2] at href2; injection href2 with e; subst e
      rw [htregs] at hget2; simp at hget2; exact ⟨rfl, hget2.symm⟩
    obtain ⟨_, rfl⟩ := e2
    simp only [FRegion.valid, Bool.and_eq_true, decide_eq_true_eq, bne_iff_ne, ne_eq] at hv2
    have hnbpos : nb - 1 + 1 = nb := by omega
    rw [hnbpos] at hc2
    have h4096 : 4096 ≤ r1.base * 4096 := by omega
    have hbuf2 : mer2.buf = mer.buf.take ((nb - r1.base) * 4096) := by
      rw [hc2, hc, ← hsub]
      have e1 : slice g'.buf (r1.base * 4096) (nb * 4096 - r1.base * 4096) =
          slice img (r1.base * 4096) (nb * 4096 - r1.base * 4096) := by
        have a : g'.buf = g'.buf.take descLen ++ g'.buf.drop descLen := (List.take_append_drop _ _).symm
        have b : img = img.take descLen ++ img.drop descLen := (List.take_append_drop _ _).symm
        rw [a, b, slice_append_right _ _ _ _ (by simp [descLen]; omega), slice_append_right _ _ _ _ (by simp [descLen]; omega)]
        simp only [List.length_take, hdrop]
        congr 1
        simp only [descLen] at himg4096 ⊢
        omega
      rw [e1]
      simp only [slice]
      rw [List.take_take]
      congr 1
      have : nb * 4096 ≤ (r1.limit + 1) * 4096 := Nat.mul_le_mul_right _ hnb2
      omega
    obtain ⟨hfree2, _, hfpt2⟩ := hP2.me fpt2 free2 hmb2
    exact ⟨hbuf2, hfpt2, by rw [← freeOfOpt_eq]; exact hfree2, by omega⟩
  · intro mer' hmem' hme'
    rw [hf'] at hmem'
    have hraw := others_raw f w pre post mer br hsplit (by simp [hmb, Body.isME]) (by simp [hbb, Body.isBIOS])
    simp only [List.mem_append, List.mem_cons] at hmem'
    rcases hmem' with h | rfl | rfl | h
    · rw [(hraw mer' (Or.inl h)).2] at hme'; simp [Body.isME] at hme'
    · simp only [List.length_take, hmlen]
      have : (nb - r1.base) * 4096 ≤ (r1.limit + 1 - r1.base) * 4096 := Nat.mul_le_mul_right _ (by omega)
      omega
    · simp [biosAfter, Body.isME] at hme'
    · rw [(hraw mer' (Or.inr h)).2] at hme'; simp [Body.isME] at hme'
  · intro m hm hme
    have hraw := others_raw f w pre post mer br hsplit (by simp [hmb, Body.isME]) (by simp [hbb, Body.isBIOS])
    rw [hsplit] at hm
    simp only [List.mem_append, List.mem_cons] at hm
    rcases hm with h | rfl | rfl | h
    · rw [(hraw m (Or.inl h)).2] at hme; simp [Body.isME] at hme
    · rfl
    · rw [hbb] at hme; simp [Body.isME] at hme
    · rw [(hraw m (Or.inr h)).2] at hme; simp [Body.isME] at hme
  · exact ⟨{ mer with buf := mer.buf.take ((nb - r1.base) * 4096) }, by rw [hf']; simp, by simp [hmb, Body.isME]⟩

/-! ### the second `tighten_me` -/

/-- it refuses when the space after the new boundary is not erased (same as the property theorem
    `c12_refuses_non_erased`, needed here already) -/
theorem c12_refuses_non_erased' (pol : Nat) (f : Flash) (i j : Nat) (mer br : Region)
    (fpt : Option (List Entry)) (free blen : Nat) (elems : List Elem) (mfr bfr : FRegion)
    (hi : lastIdx (fun r => r.body.isME) f.regions = some i)
    (hj : lastIdx (fun r => r.body.isBIOS) f.regions = some j)
    (hmer : f.regions[i]? = some mer) (hbr : f.regions[j]? = some br)
    (hmb : mer.body = .me fpt free) (hbb : br.body = .bios blen elems)
    (hmfr : frOf f.desc.regs mer = .ok mfr) (hbfr : frOf f.desc.regs br = .ok bfr)
    (hadj : mfr.endOff = bfr.baseOff)
    (hbo : bufOffset mfr.baseOff free ≤ mer.buf.length)
    (hdirty : isErased (mer.buf.drop (bufOffset mfr.baseOff free)) pol = false) :
    tighten pol f = .error .notErased := by
  obtain ⟨mref, mbody, mbuf⟩ := mer
  obtain ⟨bref, bbody, bbuf⟩ := br
  simp only at hmb hbb
  subst hmb hbb
  have : ¬ bufOffset mfr.baseOff free > mbuf.length := by simpa using hbo
  unfold tighten
  simp only [hi, hj, hmer, hbr, hmfr, hbfr, hadj, ne_eq, not_true_eq_false, if_false]
  simp only [this, if_false, hdirty, Bool.not_false, if_true]

theorem tableFits_spec (buf : Bytes) (n : Nat) :
    tableFits buf n = true ↔ ∀ i, indexOf fptSig buf 0 = some i → tableEnd buf i ≤ n := by
  unfold tableFits
  cases h : indexOf fptSig buf 0 with
  | none => simp
  | some i => simp

theorem newBoundary_zero (b : Nat) : newBoundary b 0 = b := by unfold newBoundary; omega

theorem newBoundary_pos (b free : Nat) (h : b < newBoundary b free) : 0 < free := by
  rcases Nat.eq_zero_or_pos free with h0 | h0
  · subst h0; rw [newBoundary_zero] at h; omega
  · exact h0

theorem newBoundary_gt (b free : Nat) (h : 0 < free) : b < newBoundary b free := by
  unfold newBoundary; omega

set_option maxRecDepth 10000 in
/-- the ME and BIOS nodes of the re-parsed tree, when the ME region was not shrunk to nothing -/
theorem reparsed_nodes (f t : Flash) (img B : Bytes) (pol : Nat) (mer : Region) (fpt : Option (List Entry)) (free : Nat)
    (r0 r1 : FRegion) (rest : List FRegion) (nb : Nat) (R : Reparsed f t img B pol mer fpt free r0 r1 rest nb)
    (q0 q : Nat) (hr : parseFlash q0 B = .ok (t, q)) (hgt : r1.base < nb) :
    ∃ i j y z fpt2 free2 blen2 elems2,
      lastIdx (fun r => r.body.isME) t.regions = some i ∧ lastIdx (fun r => r.body.isBIOS) t.regions = some j ∧
      t.regions[i]? = some y ∧ t.regions[j]? = some z ∧ y.body = .me fpt2 free2 ∧ z.body = .bios blen2 elems2 ∧
      frOf t.desc.regs y = .ok { r1 with limit := nb - 1 } ∧ frOf t.desc.regs z = .ok { r0 with base := nb } ∧
      y.buf = mer.buf.take ((nb - r1.base) * 4096) ∧ fpt2 = parseFPT y.buf ∧ free2 = freeOfOpt fpt2 ∧
      free2 < 2 ^ 33 := by
  obtain ⟨rs2, r0', tl, _, hregs0, _, hprs2, hfill2⟩ := parseFlash_inv q0 B t q hr
  have u0 := R.u0; have u1 := R.u1
  have v0 := R.r0valid; have v1 := R.r1valid
  simp only [FRegion.valid, Bool.and_eq_true, decide_eq_true_eq, bne_iff_ne, ne_eq] at v0 v1
  have hnb2 := R.hnb2; have hadj := R.hadj; have hb1 := R.hb1
  have hinb := R.inb
  obtain ⟨y, hy, hyref, hyme, _⟩ := parseRegions_complete B _ t.desc.regs t.desc.regs 0 q0 rs2 q (by simp) hprs2
    1 { r1 with limit := nb - 1 } (by omega) (by rw [R.tregs]; rfl)
    (by simp only [FRegion.valid, Bool.and_eq_true, decide_eq_true_eq, bne_iff_ne, ne_eq]; omega)
    (by simp only [FRegion.endOff, blockSize]; rw [R.Blen]
        have : (nb - 1 + 1) * 4096 ≤ (r0.limit + 1) * 4096 := Nat.mul_le_mul_right _ (by omega)
        omega)
    (by rw [R.tnr]; exact R.nrok)
  obtain ⟨z, hz, hzref, _, hzbios⟩ := parseRegions_complete B _ t.desc.regs t.desc.regs 0 q0 rs2 q (by simp) hprs2
    0 { r0 with base := nb } (by omega) (by rw [R.tregs]; rfl)
    (by simp only [FRegion.valid, Bool.and_eq_true, decide_eq_true_eq, bne_iff_ne, ne_eq]; omega)
    (by simp only [FRegion.endOff, blockSize]; rw [R.Blen]; exact hinb)
    (by omega)
  have hymem : y ∈ t.regions := fillGaps_mem _ _ _ _ _ _ hfill2 y ((isort_perm _ rs2).mem_iff.mpr hy)
  have hzmem : z ∈ t.regions := fillGaps_mem _ _ _ _ _ _ hfill2 z ((isort_perm _ rs2).mem_iff.mpr hz)
  obtain ⟨i, y', hi, hyi, hy'me⟩ := lastIdx_of_mem (fun r => r.body.isME) t.regions y hymem (hyme rfl)
  obtain ⟨j, z', hj, hzj, hz'bios⟩ := lastIdx_of_mem (fun r => r.body.isBIOS) t.regions z hzmem (hzbios rfl)
  have hy'mem := List.mem_of_getElem? hyi
  have hz'mem := List.mem_of_getElem? hzj
  have hy'ref := R.wt.meRef y' hy'mem hy'me
  have hz'ref := R.wt.biosRef z' hz'mem hz'bios
  cases hyb : y'.body with
  | bios _ _ => rw [hyb] at hy'me; simp [Body.isME] at hy'me
  | raw => rw [hyb] at hy'me; simp [Body.isME] at hy'me
  | me fpt2 free2 =>
    cases hzb : z'.body with
    | me _ _ => rw [hzb] at hz'bios; simp [Body.isBIOS] at hz'bios
    | raw => rw [hzb] at hz'bios; simp [Body.isBIOS] at hz'bios
    | bios blen2 elems2 =>
      obtain ⟨hbuf2, hfpt2, hfree2, _⟩ := R.mebuf y' hy'mem fpt2 free2 hyb
      exact ⟨i, j, y', z', fpt2, free2, blen2, elems2, hi, hj, hyi, hzj, hyb, hzb,
        frOf_idx _ _ 1 hy'ref _ (by rw [R.tregs]; rfl), frOf_idx _ _ 0 hz'ref _ (by rw [R.tregs]; rfl),
        hbuf2, hfpt2, hfree2, (R.wt.me y' hy'mem fpt2 free2 hyb).2⟩

set_option maxRecDepth 10000 in
/-- **The second `tighten_me` succeeds exactly when the first one kept the ME node and its table**:
    parse, `tighten_me`, save, parse the saved image again — then `tighten_me` succeeds on the
    re-parsed tree iff `SecondOk f f'`; when it refuses, it is "no ME region found" (region shrunk to
    nothing) or "not erased" (table cut). -/
theorem second_tighten_iff (p0 : Nat) (img : Bytes) (f f' g' t : Flash) (pol pa pa' q0 q : Nat)
    (hsz : img.length % 4096 = 0) (hlt : img.length ≤ 2 ^ 28)
    (hp : parseFlash p0 img = .ok (f, pol)) (sane : f.desc.Sane)
    (ht : tighten pol f = .ok f') (hs : asmFlash pa f' = .ok (g', pa'))
    (hr : parseFlash q0 g'.buf = .ok (t, q)) :
    ((∃ t', tighten q t = .ok t') ↔ SecondOk f f') ∧
    (¬ SecondOk f f' → tighten q t = .error .noME ∨ tighten q t = .error .notErased) := by
  obtain ⟨mer, fpt, free, r0, r1, rest, nb, R, hlen', huniq, mer', hmer', hme'⟩ :=
    reparse_struct p0 img f f' g' t pol pa pa' q0 q hsz hlt hp sane ht hs hr
  have hnewlen : (nb - r1.base) * 4096 ≤ mer.buf.length := by
    rw [R.hmlen]; exact Nat.mul_le_mul_right _ (by have := R.hnb2; omega)
  -- `SecondOk` in terms of the one ME node
  have hok_iff : SecondOk f f' ↔ (0 < free ∧ ∀ i, indexOf fptSig mer.buf 0 = some i →
      tableEnd mer.buf i ≤ (nb - r1.base) * 4096) := by
    constructor
    · intro hok
      obtain ⟨h1, h2⟩ := hok mer R.mermem mer' hmer' (by simp [R.hmb, Body.isME]) hme'
      rw [hlen' mer' hmer' hme', tableFits_spec] at h2
      rw [R.hmb] at h1
      exact ⟨h1, h2⟩
    · rintro ⟨h1, h2⟩ m hm m' hm' hme hme2
      have em := huniq m hm hme
      subst em
      rw [hlen' m' hm' hme2, R.hmb, tableFits_spec]
      exact ⟨h1, h2⟩
  -- what the second `tighten_me` does when the ME node is there
  have hwhen : r1.base < nb →
      ((∀ i, indexOf fptSig mer.buf 0 = some i → tableEnd mer.buf i ≤ (nb - r1.base) * 4096) →
        ∃ t', tighten q t = .ok t') ∧
      (¬ (∀ i, indexOf fptSig mer.buf 0 = some i → tableEnd mer.buf i ≤ (nb - r1.base) * 4096) →
        tighten q t = .error .notErased) := by
    intro hgt
    obtain ⟨i, j, y, z, fpt2, free2, blen2, elems2, hi, hj, hyi, hzj, hyb, hzb, hyfr, hzfr, hbuf2, hfpt2, hfree2, hf33⟩ :=
      reparsed_nodes f t img g'.buf pol mer fpt free r0 r1 rest nb R q0 q hr hgt
    have hb1 := R.hb1
    have u1 := R.u1
    have hylen : y.buf.length = (nb - r1.base) * 4096 := by
      rw [hbuf2, List.length_take]; omega
    have hnw : r1.base * 4096 + free2 + blockSize < 2 ^ 64 := by simp only [blockSize]; omega
    have hbo := bufOffset_eq (r1.base * 4096) free2 hnw
    have hadjt : ({ r1 with limit := nb - 1 } : FRegion).endOff = ({ r0 with base := nb } : FRegion).baseOff := by
      simp only [FRegion.endOff, FRegion.baseOff, blockSize]; omega
    constructor
    · intro hfits
      -- the same table, hence the same FreeSpaceOffset
      have hfe : free2 = free := by
        have hfr := R.hfree
        cases hf : fpt with
        | none =>
          rw [hf] at hfr; simp only [freeOfOpt] at hfr
          have := newBoundary_pos r1.base free (by rw [← R.hnb]; exact hgt)
          omega
        | some es =>
          have hp1 : parseFPT mer.buf = some es := by rw [← R.hfpt]; exact hf
          have : parseFPT y.buf = some es := by
            rw [hbuf2]
            exact parseFPT_take _ _ _ hp1 (fun i hi => by
              have := hfits i hi; simp only [tableEnd] at this; exact this)
          rw [hfree2, hfpt2, this, hfr, hf]
      have hX : (r1.base * 4096 + free2 + 4095) / 4096 = nb := by rw [hfe, R.hnb]; rfl
      rw [hX, ← Nat.sub_mul] at hbo
      refine ⟨_, tighten_of q t i j y z fpt2 free2 blen2 elems2 _ _ hi hj hyi hzj hyb hzb hyfr hzfr hadjt ?_ ?_⟩
      · simp only [FRegion.baseOff, blockSize, hbo, hylen]; omega
      · simp only [FRegion.baseOff, blockSize, hbo]
        rw [← hylen, List.drop_length]; rfl
    · intro hnot
      -- some table end lies beyond the cut: the re-parsed node has no table
      have hex : ∃ i0, indexOf fptSig mer.buf 0 = some i0 ∧ (nb - r1.base) * 4096 < tableEnd mer.buf i0 := by
        cases hidx : indexOf fptSig mer.buf 0 with
        | none => exact absurd (fun i hi => by rw [hidx] at hi; cases hi) hnot
        | some i0 =>
          refine ⟨i0, rfl, ?_⟩
          rcases Nat.lt_or_ge ((nb - r1.base) * 4096) (tableEnd mer.buf i0) with h | h
          · exact h
          · exact absurd (fun i hi => by rw [hidx] at hi; injection hi with hi; subst hi; exact h) hnot
      obtain ⟨i0, hi0, hcut⟩ := hex
      have hnone : fpt2 = none := by rw [hfpt2, hbuf2]; exact parseFPT_cut mer.buf i0 _ hi0 hcut hnewlen
      have hf0 : free2 = 0 := by rw [hfree2, hnone]; rfl
      have hX : (r1.base * 4096 + free2 + 4095) / 4096 = r1.base := by rw [hf0]; omega
      rw [hX, Nat.sub_self] at hbo
      have h2 := sig_before_tail mer.buf i0 _ pol hi0 R.her
      exact c12_refuses_non_erased' q t i j y z fpt2 free2 blen2 elems2 _ _ hi hj hyi hzj hyb hzb hyfr hzfr hadjt
        (by simp only [FRegion.baseOff, blockSize, hbo]; omega)
        (by simp only [FRegion.baseOff, blockSize, hbo, List.drop_zero, hbuf2]
            exact head_not_erased mer.buf i0 _ q hi0 h2)
  constructor
  · rw [hok_iff]
    constructor
    · rintro ⟨t', ht2⟩
      -- success ⇒ an ME node exists in the re-parsed tree ⇒ the region was not shrunk to nothing
      obtain ⟨_, _, mer2, _, fpt2, free2, _, _, _, _, _, _, hsplit2, _, hmb2, _⟩ := tighten_shape q t t' R.wt ht2
      obtain ⟨_, _, _, hgt⟩ := R.mebuf mer2 (by rw [hsplit2]; simp) fpt2 free2 hmb2
      refine ⟨newBoundary_pos r1.base free (by rw [← R.hnb]; exact hgt), ?_⟩
      apply Classical.byContradiction
      intro hnot
      rw [(hwhen hgt).2 hnot] at ht2
      cases ht2
    · rintro ⟨hpos, hfits⟩
      exact (hwhen (by rw [R.hnb]; exact newBoundary_gt _ _ hpos)).1 hfits
  · intro hnok
    rw [hok_iff] at hnok
    rcases Nat.eq_zero_or_pos free with h0 | hpos
    · -- shrunk to nothing: no ME node in the re-parsed tree
      left
      have hnone : lastIdx (fun r => r.body.isME) t.regions = none := by
        apply lastIdx_none_of
        intro r hr'
        cases hb : r.body with
        | me fpt2 free2 =>
          exfalso
          obtain ⟨_, _, _, hgt⟩ := R.mebuf r hr' fpt2 free2 hb
          have := R.hnb; rw [h0, newBoundary_zero] at this; omega
        | bios _ _ => rfl
        | raw => rfl
      unfold tighten
      simp only [hnone]
    · right
      have hgt : r1.base < nb := by rw [R.hnb]; exact newBoundary_gt _ _ hpos
      exact (hwhen hgt).2 (fun hall => hnok ⟨hpos, hall⟩)

/-! ### the whole second run -/

/-- the second run in one process: `utk SAVED tighten_me save OUT` — parse, `tighten_me`, and (only if
    that succeeded: ExecuteCLI stops at the first error) Assemble with the polarity state the parse left -/
def secondRun (q0 : Nat) (B : Bytes) : Except Err (Flash × Nat) :=
  match parseFlash q0 B with
  | .error e => .error e
  | .ok (t, q) =>
    match tighten q t with
    | .error e => .error e
    | .ok t' => asmFlash q t'

theorem secondOk_fits (f f' : Flash) (h : SecondOk f f') :
    ∀ mer ∈ f.regions, ∀ mer' ∈ f'.regions, mer.body.isME = true → mer'.body.isME = true →
      ∀ i, indexOf fptSig mer.buf 0 = some i → tableEnd mer.buf i ≤ mer'.buf.length := by
  intro mer hm mer' hm' a b
  exact (tableFits_spec _ _).mp (h mer hm mer' hm' a b).2

/-- saving before and after a `tighten_me` that changes no descriptor field: both succeed or both fail -/
theorem asm_ok_iff_of_desc_eq (q : Nat) (t t' : Flash) (wt : WF t) (ht2 : tighten q t = .ok t')
    (hdesc : t'.desc = t.desc) :
    (∃ s p, asmFlash q t' = .ok (s, p)) ↔ (∃ s p, asmFlash q t = .ok (s, p)) := by
  have wt' := wf_tighten q t t' wt ht2
  rw [asmFlash_wf q t wt, asmFlash_wf q t' wt', polFold_tighten q q t t' wt ht2]
  have hv : biosSlotValid t' = biosSlotValid t := by simp only [biosSlotValid, hdesc]
  rw [hv]
  cases polFold q t.regions with
  | error e => simp
  | ok p =>
    simp only []
    cases biosSlotValid t with
    | true => simp
    | false => simp

set_option maxRecDepth 10000 in
/-- **The second run.**  parse, `tighten_me`, save; then run `tighten_me` + save on the saved image in
    a new process.  (1) It succeeds iff the saved image can be loaded and saved at all and `SecondOk`
    (the ME node and its partition table survived the first `tighten_me`).  (2) If it succeeds it writes
    the first saved image again, byte for byte.  (If it does not, nothing is written: `secondRun`
    returns no image; the refused `tighten_me` is `second_tighten_iff`'s "no ME region" / "not erased".) -/
theorem second_run (p0 : Nat) (img : Bytes) (f f' g' : Flash) (pol pa pa' q0 : Nat)
    (hsz : img.length % 4096 = 0) (hlt : img.length ≤ 2 ^ 28)
    (hp : parseFlash p0 img = .ok (f, pol)) (sane : f.desc.Sane)
    (ht : tighten pol f = .ok f') (hs : asmFlash pa f' = .ok (g', pa')) :
    ((∃ s p, secondRun q0 g'.buf = .ok (s, p)) ↔
      ((∃ t q s p, parseFlash q0 g'.buf = .ok (t, q) ∧ asmFlash q t = .ok (s, p)) ∧ SecondOk f f')) ∧
    (∀ s p, secondRun q0 g'.buf = .ok (s, p) → s.buf = g'.buf) := by
  -- the descriptor is already tight after the re-parse, whenever the second tighten_me succeeds
  have hdesc : ∀ t q t', parseFlash q0 g'.buf = .ok (t, q) → tighten q t = .ok t' → SecondOk f f' →
      WF t ∧ t'.desc = t.desc := by
    intro t q t' hr ht2 hok
    obtain ⟨mer, fpt, free, r0, r1, rest, nb, R, hlen', huniq, mer', hmer', hme'⟩ :=
      reparse_struct p0 img f f' g' t pol pa pa' q0 q hsz hlt hp sane ht hs hr
    refine ⟨R.wt, tighten_tight_desc q t t' R.wt ht2 ?_⟩
    intro r0t r1t restt mer2 fpt2 free2 hregs2 hmem2 hmb2
    rw [R.tregs] at hregs2
    simp only [List.cons.injEq] at hregs2
    obtain ⟨_, e1, _⟩ := hregs2
    subst e1
    obtain ⟨hbuf2, hfpt2, hfree2, hgt⟩ := R.mebuf mer2 hmem2 fpt2 free2 hmb2
    obtain ⟨hpos, hfits⟩ := hok mer R.mermem mer' hmer' (by simp [R.hmb, Body.isME]) hme'
    rw [hlen' mer' hmer' hme', tableFits_spec] at hfits
    have hfe : free2 = free := by
      have hfr := R.hfree
      cases hf : fpt with
      | none =>
        rw [hf] at hfr; simp only [freeOfOpt] at hfr
        have := newBoundary_pos r1.base free (by rw [← R.hnb]; exact hgt)
        omega
      | some es =>
        have hp1 : parseFPT mer.buf = some es := by rw [← R.hfpt]; exact hf
        have : parseFPT mer2.buf = some es := by
          rw [hbuf2]
          exact parseFPT_take _ _ _ hp1 (fun i hi => by
            have := hfits i hi; simp only [tableEnd] at this; exact this)
        rw [hfree2, hfpt2, this, hfr, hf]
    simp only []
    rw [hfe, ← R.hnb]
    have := R.hb1
    omega
  constructor
  · constructor
    · rintro ⟨s, p, hrun⟩
      unfold secondRun at hrun
      split at hrun
      · cases hrun
      · rename_i t q hr
        split at hrun
        · cases hrun
        · rename_i t' ht2
          have hok := (second_tighten_iff p0 img f f' g' t pol pa pa' q0 q hsz hlt hp sane ht hs hr).1.mp ⟨t', ht2⟩
          obtain ⟨wt, hd⟩ := hdesc t q t' hr ht2 hok
          obtain ⟨s0, p0', hs0⟩ := (asm_ok_iff_of_desc_eq q t t' wt ht2 hd).mp ⟨s, p, hrun⟩
          exact ⟨⟨t, q, s0, p0', hr, hs0⟩, hok⟩
    · rintro ⟨⟨t, q, s0, p0', hr, hs0⟩, hok⟩
      obtain ⟨t', ht2⟩ := (second_tighten_iff p0 img f f' g' t pol pa pa' q0 q hsz hlt hp sane ht hs hr).1.mpr hok
      obtain ⟨wt, hd⟩ := hdesc t q t' hr ht2 hok
      obtain ⟨s, p, hs2⟩ := (asm_ok_iff_of_desc_eq q t t' wt ht2 hd).mpr ⟨s0, p0', hs0⟩
      refine ⟨s, p, ?_⟩
      unfold secondRun
      simp only [hr, ht2, hs2]
  · intro s p hrun
    unfold secondRun at hrun
    split at hrun
    · cases hrun
    · rename_i t q hr
      split at hrun
      · cases hrun
      · rename_i t' ht2
        have hok := (second_tighten_iff p0 img f f' g' t pol pa pa' q0 q hsz hlt hp sane ht hs hr).1.mp ⟨t', ht2⟩
        exact reparse_idempotent p0 img f f' g' t t' s pol pa pa' q0 q q p hsz hlt hp sane ht hs
          (secondOk_fits f f' hok) hr ht2 hrun

end Fiano.TightenMe
