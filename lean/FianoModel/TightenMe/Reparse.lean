/-
  C12: idempotence across save + re-parse.  Parsing the descriptor that Assemble wrote gives back
  the rewritten table (`parseDesc_asmDesc`, sections must not overlap); cutting the ME buffer
  behind its partition table does not change the table that NewMEFPT reads (`parseFPT_take`);
  hence the re-parsed tree is already tight and a second tighten_me changes no saved byte.
-/
import FianoModel.TightenMe.ParseLemmas

namespace Fiano.TightenMe

/-! ### descriptor: parse ∘ assemble -/

/-- a slice that does not meet the spliced window is unchanged -/
theorem slice_splice_disjoint (b : Bytes) (off : Nat) (d : Bytes) (o n : Nat)
    (h : off + d.length ≤ b.length) (hd : o + n ≤ off ∨ off + d.length ≤ o) :
    slice (splice b off d) o n = slice b o n := by
  apply List.ext_getElem?
  intro k
  simp only [slice, List.getElem?_take, List.getElem?_drop]
  split
  · rw [splice_getElem? b off d (o + k) h]
    rcases hd with hd | hd
    · simp only [show o + k < off by omega, if_true]
    · simp only [show ¬ o + k < off by omega, show ¬ o + k < off + d.length by omega, if_false]
  · rfl

theorem decodeRegs_encodeRegs (rs : List FRegion) (h : ∀ fr ∈ rs, fr.base < 65536 ∧ fr.limit < 65536) (tl : Bytes) :
    decodeRegs rs.length (encodeRegs rs ++ tl) = rs := by
  induction rs with
  | nil => rfl
  | cons r rs ih =>
    have hr := h r List.mem_cons_self
    simp only [List.length_cons, decodeRegs, encodeRegs, List.flatMap_cons, List.append_assoc]
    have e1 : slice (leN 2 r.base ++ (leN 2 r.limit ++ (List.flatMap (fun r => leN 2 r.base ++ leN 2 r.limit) rs ++ tl))) 0 2
        = leN 2 r.base := by
      have := slice_mid' [] (leN 2 r.base) 0 2 rfl (leN_length 2 _)
      simp only [slice, List.drop_zero] at this ⊢
      rw [List.take_append_of_le_length (by simp)]
      simpa using this
    have e2 : slice (leN 2 r.base ++ (leN 2 r.limit ++ (List.flatMap (fun r => leN 2 r.base ++ leN 2 r.limit) rs ++ tl))) 2 2
        = leN 2 r.limit := by
      simp only [slice]
      rw [List.drop_append_of_le_length (by simp), List.drop_of_length_le (by simp), List.nil_append,
        List.take_append_of_le_length (by simp)]
      exact List.take_of_length_le (by simp)
    rw [e1, e2, fromLE_leN_of_lt 2 _ (by simpa using hr.1), fromLE_leN_of_lt 2 _ (by simpa using hr.2)]
    congr 1
    have : List.drop 4 (leN 2 r.base ++ (leN 2 r.limit ++ (List.flatMap (fun r => leN 2 r.base ++ leN 2 r.limit) rs ++ tl)))
        = encodeRegs rs ++ tl := by
      rw [← List.append_assoc, List.drop_append_of_le_length (by simp), List.drop_of_length_le (by simp)]
      simp [encodeRegs]
    rw [this]
    exact ih (fun fr hfr => h fr (List.mem_cons_of_mem _ hfr))

/-- the signature, the descriptor map, the region section and the master section do not overlap -/
structure Desc.Sane (d : Desc) : Prop where
  regionMap : d.regionStart + regionSectionSize ≤ d.mapStart - 4 ∨ d.mapStart + mapSize ≤ d.regionStart
  regionMaster : d.masterStart + masterSize ≤ d.regionStart ∨ d.regionStart + regionSectionSize ≤ d.masterStart

theorem parseDesc_inv (b : Bytes) (d : Desc) (h : parseDesc b = .ok d) :
    b.length = 4096 ∧ d.buf = b ∧ findSignature b = some d.mapStart ∧ d.dmap = slice b d.mapStart 16 ∧
    d.regionStart = fromLE (slice d.dmap 2 1) * 16 ∧ d.regionStart + 64 < 4096 ∧
    d.masterStart = fromLE (slice d.dmap 4 1) * 16 ∧ d.master = slice b d.masterStart 12 ∧
    d.eraseSize < 65536 := by
  unfold parseDesc at h
  split at h
  · cases h
  · rename_i hlen
    split at h
    · cases h
    · rename_i ms hms
      simp only at h
      split at h
      · cases h
      · rename_i hreg
        injection h with h
        subst h
        simp only [descLen, regionSectionSize, mapSize, masterSize] at hlen hreg
        refine ⟨by omega, rfl, hms, rfl, rfl, ?_, rfl, rfl, ?_⟩
        · simp only [mapSize]; omega
        · exact fromLE_slice_lt _ 2 2

theorem findSignature_cases (b : Bytes) (ms : Nat) (h : findSignature b = some ms) :
    20 ≤ b.length ∧ ((ms = 20 ∧ slice b 16 4 = flashSig) ∨ (ms = 4 ∧ slice b 16 4 ≠ flashSig ∧ slice b 0 4 = flashSig)) := by
  unfold findSignature at h
  split at h
  · cases h
  · split at h
    · rename_i h1 h2; injection h with h; exact ⟨by omega, Or.inl ⟨h.symm, h2⟩⟩
    · split at h
      · rename_i h1 h2 h3; injection h with h; exact ⟨by omega, Or.inr ⟨h.symm, h2, h3⟩⟩
      · cases h

theorem findSignature_congr (b b' : Bytes) (hl : b'.length = b.length)
    (h16 : slice b' 16 4 = slice b 16 4) (h0 : slice b' 0 4 = slice b 0 4) :
    findSignature b' = findSignature b := by
  unfold findSignature
  rw [hl, h16, h0]

/-- **parse ∘ assemble on the descriptor**: with non-overlapping sections, the descriptor written
    for a rewritten table parses back to exactly that table (and the same map, erase size, master). -/
theorem parseDesc_asmDesc (b0 : Bytes) (d : Desc) (h : parseDesc b0 = .ok d) (sane : d.Sane)
    (regs' : List FRegion) (hlen : regs'.length = nRegions)
    (hu : ∀ fr ∈ regs', fr.base < 65536 ∧ fr.limit < 65536) :
    parseDesc (asmDesc { d with regs := regs' }) =
      .ok { d with regs := regs', buf := asmDesc { d with regs := regs' } } ∧
    asmDesc { d with regs := regs', buf := asmDesc { d with regs := regs' } } = asmDesc { d with regs := regs' } := by
  obtain ⟨hb, hbuf, hsig, hdmap, hrs, hrs', hms, hmaster, hes⟩ := parseDesc_inv b0 d h
  have hsig' := findSignature_some b0 d.mapStart hsig
  have hm4 := fromLE_slice_lt d.dmap 4 1
  have s1 := sane.regionMap
  have s2 := sane.regionMaster
  simp only [regionSectionSize, mapSize, masterSize, nRegions] at *
  generalize hsec : (leN 2 d.eraseSize ++ encodeRegs regs' : Bytes) = sec
  have hsecdef : ∀ x : Desc, x.eraseSize = d.eraseSize → x.regs = regs' → encodeRegionTail x = sec := by
    intro x h1 h2; rw [← hsec]; unfold encodeRegionTail; rw [h1, h2]
  have hsl : sec.length = 62 := by rw [← hsec]; simp [encodeRegs_length, hlen]
  -- the assembled descriptor is the parsed buffer with the region section replaced from its third byte on
  have hB : asmDesc { d with regs := regs' } = splice b0 (d.regionStart + 2) sec := by
    unfold asmDesc
    rw [hsecdef { d with regs := regs' } rfl rfl]
    simp only [hbuf]
    rw [hdmap, splice_slice_self b0 d.mapStart 16 (by omega)]
    have : d.master = slice (splice b0 (d.regionStart + 2) sec) d.masterStart 12 := by
      rw [slice_splice_disjoint _ _ _ _ _ (by omega) (by omega), hmaster]
    rw [this, splice_slice_self _ d.masterStart 12 (by rw [splice_length _ _ _ (by omega)]; omega)]
  generalize hBe : asmDesc { d with regs := regs' } = B at *
  have hBl : B.length = 4096 := by rw [hB, splice_length _ _ _ (by omega)]; exact hb
  have hfs : findSignature B = some d.mapStart := by
    obtain ⟨h20, hc⟩ := findSignature_cases b0 d.mapStart hsig
    rcases hc with ⟨e, h16⟩ | ⟨e, h16, h0⟩
    · have : slice B 16 4 = flashSig := by
        rw [hB, slice_splice_disjoint _ _ _ _ _ (by omega) (by omega)]; exact h16
      unfold findSignature
      simp only [hBl, show ¬ (4096 < 20) by omega, if_false, this, if_true, e]
    · have a16 : slice B 16 4 = slice b0 16 4 := by
        rw [hB]; exact slice_splice_disjoint _ _ _ _ _ (by omega) (by omega)
      have a0 : slice B 0 4 = slice b0 0 4 := by
        rw [hB]; exact slice_splice_disjoint _ _ _ _ _ (by omega) (by omega)
      rw [findSignature_congr b0 B (by omega) a16 a0]; exact hsig
  have hdm : slice B d.mapStart 16 = d.dmap := by
    rw [hB, slice_splice_disjoint _ _ _ _ _ (by omega) (by omega), hdmap]
  have hse : slice B (d.regionStart + 2) 62 = sec := by
    rw [hB, ← hsl]; exact slice_splice_same _ _ _ (by omega)
  have hma : slice B d.masterStart 12 = d.master := by
    rw [hB, slice_splice_disjoint _ _ _ _ _ (by omega) (by omega), hmaster]
  -- what `parseDesc` reads from the 64-byte section window
  have hwin2 : slice (slice B d.regionStart 64) 2 2 = slice sec 0 2 := by
    rw [← hse]
    simp only [slice]
    rw [List.drop_take, List.drop_drop, List.take_take, List.drop_zero, List.take_take]
  have hwin4 : (slice B d.regionStart 64).drop 4 = sec.drop 2 := by
    rw [← hse]
    simp only [slice]
    rw [List.drop_take, List.drop_drop, List.drop_take, List.drop_drop]
  have hes2 : fromLE (slice (slice B d.regionStart 64) 2 2) = d.eraseSize := by
    rw [hwin2, ← hsec]
    have : slice (leN 2 d.eraseSize ++ encodeRegs regs' : Bytes) 0 2 = leN 2 d.eraseSize :=
      slice_mid' [] (leN 2 d.eraseSize) 0 2 rfl (leN_length 2 _)
    rw [this, fromLE_leN_of_lt 2 _ (by simpa using hes)]
  have hrg : decodeRegs 15 ((slice B d.regionStart 64).drop 4) = regs' := by
    rw [hwin4, ← hsec]
    have : List.drop 2 (leN 2 d.eraseSize ++ encodeRegs regs' : Bytes) = encodeRegs regs' ++ [] := by
      rw [List.drop_append_of_le_length (by simp), List.drop_of_length_le (by simp)]; simp
    rw [this, ← hlen]
    exact decodeRegs_encodeRegs regs' hu []
  constructor
  · unfold parseDesc
    simp only [descLen, mapSize, regionSectionSize, masterSize, nRegions, hBl, ne_eq, not_true_eq_false, if_false, hfs,
      hdm, ← hrs, ← hms, hma, hes2, hrg]
    have : ¬ (d.regionStart ≥ 4096 ∨ d.regionStart + 64 ≥ 4096) := by omega
    simp only [this, if_false]
  · unfold asmDesc
    simp only [hsecdef { d with regs := regs', buf := B } rfl rfl]
    rw [← hdm, splice_slice_self B d.mapStart 16 (by omega)]
    rw [← hse, splice_slice_self B (d.regionStart + 2) 62 (by omega)]
    rw [← hma, splice_slice_self B d.masterStart 12 (by omega)]

/-! ### the partition table of a truncated ME buffer -/

theorem isPrefixOf_take (pat : Bytes) (b : Bytes) (n : Nat) (hn : pat.length ≤ n) :
    pat.isPrefixOf (b.take n) = pat.isPrefixOf b := by
  induction pat generalizing b n with
  | nil => simp
  | cons p ps ih =>
    cases b with
    | nil => simp
    | cons x xs =>
      cases n with
      | zero => simp at hn
      | succ n =>
        simp only [List.take_succ_cons, List.isPrefixOf_cons_cons]
        rw [ih xs n (by simpa using hn)]

theorem indexOf_ge (pat : Bytes) (b : Bytes) (k j : Nat) (h : indexOf pat b k = some j) : k ≤ j := by
  induction b generalizing k with
  | nil => simp [indexOf] at h
  | cons x xs ih =>
    simp only [indexOf] at h
    split at h
    · injection h with h; omega
    · have := ih (k + 1) h; omega

theorem indexOf_take (pat : Bytes) (hp0 : 0 < pat.length) (b : Bytes) (k j n : Nat)
    (h : indexOf pat b k = some j) (hn : (j - k) + pat.length ≤ n) :
    indexOf pat (b.take n) k = some j := by
  induction b generalizing k n with
  | nil => simp [indexOf] at h
  | cons x xs ih =>
    simp only [indexOf] at h
    cases n with
    | zero => omega
    | succ n =>
      have hpre := isPrefixOf_take pat (x :: xs) (n + 1) (by omega)
      simp only [List.take_succ_cons] at hpre
      simp only [List.take_succ_cons, indexOf, hpre]
      split at h
      · rename_i hp
        simp only [hp, if_true]; exact h
      · rename_i hp
        simp only [hp]
        have := indexOf_ge _ _ _ _ h
        exact ih (k + 1) n h (by omega)

theorem parseEntries_take (cnt : Nat) (b : Bytes) (m : Nat) (h : fptEntryLen * cnt ≤ m) :
    parseEntries cnt (b.take m) = parseEntries cnt b := by
  induction cnt generalizing b m with
  | zero => rfl
  | succ cnt ih =>
    simp only [fptEntryLen] at h
    simp only [parseEntries, fptEntryLen]
    have s1 : slice (b.take m) 8 4 = slice b 8 4 := by
      simp only [slice]; rw [List.drop_take, List.take_take]; congr 1; omega
    have s2 : slice (b.take m) 12 4 = slice b 12 4 := by
      simp only [slice]; rw [List.drop_take, List.take_take]; congr 1; omega
    rw [s1, s2, List.drop_take, ih (b.drop 32) (m - 32) (by simp only [fptEntryLen]; omega)]

/-- cutting an ME buffer behind its partition table does not change what NewMEFPT reads -/
theorem parseFPT_take (buf : Bytes) (es : List Entry) (n : Nat) (h : parseFPT buf = some es)
    (hfit : ∀ i, indexOf fptSig buf 0 = some i →
      i + 4 + fptHeaderMin + fptEntryLen * fromLE (slice buf (i + 4) 4) ≤ n) :
    parseFPT (buf.take n) = some es := by
  unfold parseFPT at h ⊢
  split at h
  · cases h
  · rename_i i hi
    have hf := hfit i hi
    simp only [fptHeaderMin, fptEntryLen] at hf
    have hi' := indexOf_take fptSig (by decide) buf 0 i n hi (by simp only [fptSig, List.length_cons, List.length_nil]; omega)
    rw [hi']
    simp only at h ⊢
    have hs : slice (buf.take n) (i + 4) 4 = slice buf (i + 4) 4 := by
      simp only [slice]; rw [List.drop_take, List.take_take]; congr 1; omega
    rw [hs]
    split at h
    · cases h
    · rename_i h1
      split at h
      · cases h
      · rename_i h2
        simp only [fptHeaderMin, fptEntryLen] at h1 h2 ⊢
        have l : (buf.take n).length = min n buf.length := List.length_take
        have c1 : ¬ (buf.take n).length < i + 4 + 28 := by rw [l]; omega
        have c2 : ¬ (buf.take n).length < i + 4 + 28 + 32 * fromLE (slice buf (i + 4) 4) := by rw [l]; omega
        simp only [c1, c2, if_false]
        rw [← h, List.drop_take]
        congr 1
        exact parseEntries_take _ _ _ (by simp only [fptEntryLen]; omega)


/-! ### putting it together -/

theorem asmFlash_ok_buf (p : Nat) (f g : Flash) (p' : Nat) (w : WF f) (hs : asmFlash p f = .ok (g, p')) :
    g.buf = asmDesc f.desc ++ f.regions.flatMap payload := by
  rw [asmFlash_wf p f w] at hs
  cases hpf : polFold p f.regions with
  | error e => rw [hpf] at hs; cases hs
  | ok p2 =>
    rw [hpf] at hs
    simp only at hs
    cases hv : biosSlotValid f with
    | false => rw [hv] at hs; simp at hs
    | true =>
      rw [hv] at hs
      simp only [if_true, Except.ok.injEq, Prod.mk.injEq] at hs
      rw [← hs.1]

theorem slice_append_right (A C : Bytes) (o n : Nat) (h : A.length ≤ o) :
    slice (A ++ C) o n = slice C (o - A.length) n := by
  simp only [slice]
  rw [List.drop_append, List.drop_of_length_le h, List.nil_append]

/-- offset of the end of the partition table that starts with the signature at `i` -/
def tableEnd (buf : Bytes) (i : Nat) : Nat :=
  i + 4 + fptHeaderMin + fptEntryLen * fromLE (slice buf (i + 4) 4)

set_option maxRecDepth 10000 in
/-- **Idempotent across save + re-parse.** -/
theorem reparse_idempotent (p0 : Nat) (img : Bytes) (f f' g' t t' s' : Flash) (pol pa pa' q0 q pb pb' : Nat)
    (hsz : img.length % 4096 = 0) (hlt : img.length ≤ 2 ^ 28)
    (hp : parseFlash p0 img = .ok (f, pol)) (sane : f.desc.Sane)
    (ht : tighten pol f = .ok f') (hs : asmFlash pa f' = .ok (g', pa'))
    (hfit : ∀ mer ∈ f.regions, ∀ mer' ∈ f'.regions, mer.body.isME = true → mer'.body.isME = true →
      ∀ i, indexOf fptSig mer.buf 0 = some i → tableEnd mer.buf i ≤ mer'.buf.length)
    (hr : parseFlash q0 g'.buf = .ok (t, q)) (ht2 : tighten q t = .ok t')
    (hs2 : asmFlash pb t' = .ok (s', pb')) :
    s'.buf = g'.buf := by
  obtain ⟨w, hsize, _, hpay, hd, hcase⟩ := parse_WF p0 img f pol hsz hlt hp
  have w' := wf_tighten pol f f' w ht
  obtain ⟨pre, post, mer, br, fpt, free, blen, elems, r0, r1, rest, nb, hsplit, hregs, hmb, mref, hbb, bref,
    hadj, hb1, hnb, hnb1, hnb2, hmlen, her, hf'⟩ := tighten_shape pol f f' w ht
  -- the saved image
  have hout := asmFlash_ok_buf pa f' g' pa' w' hs
  rw [payload_tighten pol f f' w ht, hpay] at hout
  have hBl := asmDesc_length f'.desc w'.geom
  have himg4096 : descLen ≤ img.length := by
    have := chain_le _ _ _ _ w.chain; rw [hsize] at this; exact this
  have houtlen : g'.buf.length = img.length := by
    rw [hout, List.length_append, hBl, List.length_drop]; omega
  -- the re-parsed tree
  obtain ⟨wt, tsize, _, tpay, td, tcase⟩ := parse_WF q0 g'.buf t q (by rw [houtlen]; exact hsz) (by rw [houtlen]; exact hlt) hr
  have htake : g'.buf.take descLen = asmDesc f'.desc := by rw [hout]; exact List.take_left' hBl
  have hdrop : g'.buf.drop descLen = img.drop descLen := by rw [hout]; exact List.drop_left' hBl
  have hdesc' : f'.desc = { f.desc with regs := { r0 with base := nb } :: { r1 with limit := nb - 1 } :: rest } := by
    rw [hf']
  have hu0 := w.u16 r0 (by rw [hregs]; simp)
  have hu1 := w.u16 r1 (by rw [hregs]; simp)
  have hrestlen : rest.length = 13 := by
    have := w.geom.regsLen; rw [hregs] at this; simp [nRegions] at this; omega
  obtain ⟨hpd, hasm⟩ := parseDesc_asmDesc (img.take descLen) f.desc hd sane
    ({ r0 with base := nb } :: { r1 with limit := nb - 1 } :: rest) (by simp [nRegions, hrestlen]) (by
      intro fr hfr
      simp only [List.mem_cons] at hfr
      rcases hfr with rfl | rfl | hfr
      · exact ⟨by simp only; omega, hu0.2⟩
      · exact ⟨hu1.1, by simp only; omega⟩
      · exact w.u16 fr (by rw [hregs]; simp [hfr]))
  have hasm' : asmDesc { f'.desc with buf := asmDesc f'.desc } = asmDesc f'.desc := by
    rw [hdesc']; exact hasm
  rw [← hdesc'] at hpd
  rw [htake, hpd] at td
  have htdesc : t.desc = { f'.desc with buf := asmDesc f'.desc } := by
    have := Except.ok.inj td; rw [← this, hdesc']
  have htregs : t.desc.regs = { r0 with base := nb } :: { r1 with limit := nb - 1 } :: rest := by
    rw [htdesc, hdesc']
  -- the second tighten_me
  have wt' := wf_tighten q t t' wt ht2
  obtain ⟨pre2, post2, mer2, br2, fpt2, free2, blen2, elems2, r0t, r1t, rest2, nb2, hsplit2, hregs2, hmb2, mref2, hbb2, bref2,
    hadj2, hb12, hnb2', hnb12, hnb22, hmlen2, her2, ht'⟩ := tighten_shape q t t' wt ht2
  rw [htregs] at hregs2
  simp only [List.cons.injEq] at hregs2
  obtain ⟨e0, e1, erest⟩ := hregs2
  subst e0 e1 erest
  simp only at hnb2' hnb12 hnb22 hmlen2 hb12 hadj2
  -- the ME node of the re-parsed tree holds the first `newLen` bytes of the original ME buffer
  have mer2mem : mer2 ∈ t.regions := by rw [hsplit2]; simp
  have mermem : mer ∈ f.regions := by rw [hsplit]; simp
  have hP2 : Parsed t.desc.regs g'.buf mer2 := by
    rcases tcase mer2 mer2mem with h | h
    · exact h
    · rw [h.1] at hmb2; cases hmb2
  have hP : Parsed f.desc.regs img mer := by
    rcases hcase mer mermem with h | h
    · exact h
    · rw [h.1] at hmb; cases hmb
  have hc2 := hP2.content _ (frOf_idx t.desc.regs mer2 1 mref2 _ (by rw [htregs]; rfl))
  have hc := hP.content _ (frOf_idx f.desc.regs mer 1 mref _ (by rw [hregs]; rfl))
  rw [payload_me _ fpt2 free2 hmb2] at hc2
  rw [payload_me _ fpt free hmb] at hc
  simp only [FRegion.baseOff, FRegion.endOff, blockSize] at hc hc2
  have hnbpos : nb - 1 + 1 = nb := by omega
  rw [hnbpos] at hc2
  have h4096 : 4096 ≤ r1.base * 4096 := by omega
  have hbuf2 : mer2.buf = mer.buf.take (nb * 4096 - r1.base * 4096) := by
    rw [hc2, hc]
    have e1 : slice g'.buf (r1.base * 4096) (nb * 4096 - r1.base * 4096) =
        slice img (r1.base * 4096) (nb * 4096 - r1.base * 4096) := by
      have a : g'.buf = g'.buf.take descLen ++ g'.buf.drop descLen := (List.take_append_drop _ _).symm
      have b : img = img.take descLen ++ img.drop descLen := (List.take_append_drop _ _).symm
      rw [a, b, slice_append_right _ _ _ _ (by simp [descLen]; omega), slice_append_right _ _ _ _ (by simp [descLen]; omega)]
      simp only [List.length_take, hdrop]
      congr 1
      simp only [descLen] at himg4096 ⊢
      omega
    rw [e1]
    simp only [slice]
    rw [List.take_take]
    congr 1
    have : nb * 4096 ≤ (r1.limit + 1) * 4096 := Nat.mul_le_mul_right _ hnb2
    omega
  -- hence the same FreeSpaceOffset
  have hsub : nb * 4096 - r1.base * 4096 = (nb - r1.base) * 4096 := (Nat.sub_mul _ _ _).symm
  obtain ⟨hfree2, _, hfpt2⟩ := hP2.me fpt2 free2 hmb2
  obtain ⟨hfree, _, hfpt⟩ := hP.me fpt free hmb
  have hfreeeq : free2 = free := by
    cases fpt with
    | none =>
      simp only at hfree
      subst hfree
      have : nb = r1.base := by rw [hnb]; unfold newBoundary; omega
      have hb0 : mer2.buf = [] := by rw [hbuf2, this]; simp
      have : fpt2 = none := by rw [hfpt2, hb0]; rfl
      rw [hfree2, this]
    | some es =>
      simp only at hfree
      have hmer' : ({ mer with buf := mer.buf.take ((nb - r1.base) * 4096) } : Region) ∈ f'.regions := by
        rw [hf']; simp
      have hfit' := hfit mer mermem _ hmer' (by simp [hmb, Body.isME]) (by simp [hmb, Body.isME])
      have : parseFPT mer2.buf = some es := by
        rw [hbuf2, hsub]
        apply parseFPT_take _ _ _ hfpt.symm
        intro i hi
        have := hfit' i hi
        simp only [tableEnd, List.length_take] at this
        omega
      have : fpt2 = some es := by rw [hfpt2, this]
      rw [hfree2, this, hfree]
  have hnbeq : nb2 = nb := by rw [hnb2', hfreeeq, hnb]
  have hdesct : t'.desc = t.desc := by
    rw [ht', hnbeq]
    have : ({ t.desc with regs := { ({ r0 with base := nb } : FRegion) with base := nb } ::
        { ({ r1 with limit := nb - 1 } : FRegion) with limit := nb - 1 } :: rest } : Desc) =
        { t.desc with regs := t.desc.regs } := by rw [htregs]
    exact this
  -- the second save
  have hs2out := asmFlash_ok_buf pb t' s' pb' wt' hs2
  rw [payload_tighten q t t' wt ht2, tpay, hdesct, htdesc, hasm', ← htake, List.take_append_drop] at hs2out
  exact hs2out

end Fiano.TightenMe
