/-
  C12 helper lemmas about the descriptor: which bytes of `asmDesc` depend on the two rewritten
  table fields.
-/
import FianoModel.TightenMe.Lemmas

namespace Fiano.TightenMe

theorem splice_getElem?_mid (b : Bytes) (off : Nat) (d : Bytes) (k : Nat)
    (hk : k < d.length) (h : off + d.length ≤ b.length) :
    (splice b off d)[off + k]? = d[k]? := by
  have h1 : (b.take off).length = off := by simp; omega
  simp only [splice, List.append_assoc]
  rw [List.getElem?_append_right (by omega), h1, List.getElem?_append_left (by omega)]
  congr 1; omega

/-- all bytes of a splice, by position -/
theorem splice_getElem? (b : Bytes) (off : Nat) (d : Bytes) (p : Nat) (h : off + d.length ≤ b.length) :
    (splice b off d)[p]? = if p < off then b[p]? else if p < off + d.length then d[p - off]? else b[p]? := by
  split
  · exact splice_getElem?_lt b off d p (by assumption) h
  · split
    · have := splice_getElem?_mid b off d (p - off) (by omega) h
      rwa [show off + (p - off) = p by omega] at this
    · exact splice_getElem?_ge b off d p (by omega) h

theorem encodeRegs_length (rs : List FRegion) : (encodeRegs rs).length = 4 * rs.length := by
  induction rs with
  | nil => rfl
  | cons r rs ih => simp only [encodeRegs, List.flatMap_cons] at *; simp [ih]; omega

theorem encodeRegionTail_length (d : Desc) : (encodeRegionTail d).length = 2 + 4 * d.regs.length := by
  simp [encodeRegionTail, encodeRegs_length]

/-- rewriting Base of slot 0 and Limit of slot 1 changes exactly bytes 0,1 and 6,7 of the table -/
theorem encodeRegs_set01 (r0 r1 : FRegion) (rest : List FRegion) (B L : Nat) (p : Nat)
    (hp : ¬ p < 2) (hp' : ¬ (6 ≤ p ∧ p < 8)) :
    (encodeRegs ({ r0 with base := B } :: { r1 with limit := L } :: rest))[p]? =
    (encodeRegs (r0 :: r1 :: rest))[p]? := by
  simp only [encodeRegs, List.flatMap_cons, List.append_assoc, List.getElem?_append, leN_length]
  repeat' split
  all_goals first | rfl | omega | (congr 1; omega)

theorem encodeRegs_set01_base (r0 r1 : FRegion) (rest : List FRegion) (B L : Nat) (k : Nat) (hk : k < 2) :
    (encodeRegs ({ r0 with base := B } :: { r1 with limit := L } :: rest))[k]? = (leN 2 B)[k]? := by
  simp only [encodeRegs, List.flatMap_cons, List.append_assoc, List.getElem?_append, leN_length]
  simp [hk]

theorem encodeRegs_set01_limit (r0 r1 : FRegion) (rest : List FRegion) (B L : Nat) (k : Nat) (hk : k < 2) :
    (encodeRegs ({ r0 with base := B } :: { r1 with limit := L } :: rest))[6 + k]? = (leN 2 L)[k]? := by
  simp only [encodeRegs, List.flatMap_cons, List.append_assoc, List.getElem?_append, leN_length]
  repeat' split
  all_goals first | rfl | omega | (congr 1; omega)

theorem setRegs01 (r0 r1 : FRegion) (rest : List FRegion) (B L : Nat) :
    setRegBase (setRegLimit (r0 :: r1 :: rest) 1 L) 0 B = { r0 with base := B } :: { r1 with limit := L } :: rest := by
  simp [setRegBase, setRegLimit]

theorem regs_two (rs : List FRegion) (h : rs.length = nRegions) : ∃ r0 r1 rest, rs = r0 :: r1 :: rest := by
  match rs, h with
  | r0 :: r1 :: rest, _ => exact ⟨r0, r1, rest, rfl⟩

/-- geometry of a descriptor as `parseDesc` produces it -/
structure Desc.Geom (d : Desc) : Prop where
  bufLen : d.buf.length = descLen
  dmapLen : d.dmap.length = mapSize
  masterLen : d.master.length = masterSize
  regsLen : d.regs.length = nRegions
  mapIn : d.mapStart + mapSize ≤ descLen
  regionIn : d.regionStart + regionSectionSize ≤ descLen
  masterIn : d.masterStart + masterSize ≤ descLen

theorem encodeRegionTail_get (d : Desc) (q : Nat) (hq : 2 ≤ q) :
    (encodeRegionTail d)[q]? = (encodeRegs d.regs)[q - 2]? := by
  simp only [encodeRegionTail, List.getElem?_append, leN_length]
  repeat' split
  all_goals first | rfl | omega | (congr 1; omega)

theorem encodeRegionTail_get_lt (d : Desc) (rs : List FRegion) (q : Nat) (hq : q < 2) :
    (encodeRegionTail { d with regs := rs })[q]? = (encodeRegionTail d)[q]? := by
  simp only [encodeRegionTail, List.getElem?_append, leN_length]
  repeat' split
  all_goals first | rfl | omega | (congr 1; omega)

theorem asmDesc_length (d : Desc) (g : d.Geom) : (asmDesc d).length = descLen := by
  have hs : (encodeRegionTail d).length = 62 := by
    rw [encodeRegionTail_length, g.regsLen]; rfl
  have g1 := g.bufLen; have g2 := g.dmapLen; have g3 := g.masterLen
  have g4 := g.mapIn; have g5 := g.regionIn; have g6 := g.masterIn
  simp only [descLen, mapSize, masterSize, regionSectionSize] at *
  have hb1 : (splice d.buf d.mapStart d.dmap).length = 4096 := by rw [splice_length] <;> omega
  have hb2 : (splice (splice d.buf d.mapStart d.dmap) (d.regionStart + 2) (encodeRegionTail d)).length = 4096 := by
    rw [splice_length] <;> omega
  unfold asmDesc
  rw [splice_length] <;> omega

/-- The descriptor written after `tighten_me` differs from the one written before only in the
    BIOS Base (section bytes 4,5) and the ME Limit (section bytes 10,11). -/
theorem asmDesc_diff (d : Desc) (g : d.Geom) (B L : Nat) (p : Nat)
    (hp : p ≠ d.regionStart + 4 ∧ p ≠ d.regionStart + 5 ∧ p ≠ d.regionStart + 10 ∧ p ≠ d.regionStart + 11) :
    (asmDesc { d with regs := setRegBase (setRegLimit d.regs 1 L) 0 B })[p]? = (asmDesc d)[p]? := by
  obtain ⟨r0, r1, rest, hr⟩ := regs_two d.regs g.regsLen
  have g1 := g.bufLen; have g2 := g.dmapLen; have g3 := g.masterLen
  have g4 := g.mapIn; have g5 := g.regionIn; have g6 := g.masterIn
  have hlen : rest.length = 13 := by have := g.regsLen; rw [hr] at this; simp [nRegions] at this; omega
  simp only [descLen, mapSize, masterSize, regionSectionSize] at *
  have hs : (encodeRegionTail d).length = 62 := by
    rw [encodeRegionTail_length, hr]; simp [hlen]
  have hs' : (encodeRegionTail { d with regs := { r0 with base := B } :: { r1 with limit := L } :: rest }).length = 62 := by
    rw [encodeRegionTail_length]; simp [hlen]
  have hb1 : (splice d.buf d.mapStart d.dmap).length = 4096 := by rw [splice_length] <;> omega
  have hb2 : (splice (splice d.buf d.mapStart d.dmap) (d.regionStart + 2) (encodeRegionTail d)).length = 4096 := by
    rw [splice_length] <;> omega
  have hb2' : (splice (splice d.buf d.mapStart d.dmap) (d.regionStart + 2)
      (encodeRegionTail { d with regs := { r0 with base := B } :: { r1 with limit := L } :: rest })).length = 4096 := by
    rw [splice_length] <;> omega
  -- the written bytes agree away from section bytes 4,5,10,11 (= tail bytes 2,3,8,9)
  have hsec : ∀ q, q ≠ 2 → q ≠ 3 → q ≠ 8 → q ≠ 9 →
      (encodeRegionTail { d with regs := { r0 with base := B } :: { r1 with limit := L } :: rest })[q]? =
      (encodeRegionTail d)[q]? := by
    intro q h4 h5 h10 h11
    by_cases hq : q < 2
    · exact encodeRegionTail_get_lt d _ q hq
    · rw [encodeRegionTail_get _ q (by omega), encodeRegionTail_get _ q (by omega), hr]
      exact encodeRegs_set01 r0 r1 rest B L (q - 2) (by omega) (by omega)
  generalize hsec'e : encodeRegionTail { d with regs := { r0 with base := B } :: { r1 with limit := L } :: rest } = sec' at *
  generalize hsece : encodeRegionTail d = sec at *
  generalize hb1e : splice d.buf d.mapStart d.dmap = b1 at *
  have key : (splice b1 (d.regionStart + 2) sec')[p]? = (splice b1 (d.regionStart + 2) sec)[p]? := by
    rw [splice_getElem? b1 _ sec' _ (by omega), splice_getElem? b1 _ sec _ (by omega), hs, hs']
    split
    · rfl
    · split
      · exact hsec _ (by omega) (by omega) (by omega) (by omega)
      · rfl
  unfold asmDesc
  simp only [hr, setRegs01, hsec'e, hsece, hb1e]
  generalize hb2e : splice b1 (d.regionStart + 2) sec = b2 at *
  generalize hb2e' : splice b1 (d.regionStart + 2) sec' = b2' at *
  rw [splice_getElem? b2' _ _ _ (by omega), splice_getElem? b2 _ _ _ (by omega), key]


/-- … and, when the master section does not lie on top of the region section, those two fields
    hold the new values (little endian). -/
theorem asmDesc_fields (d : Desc) (g : d.Geom) (B L : Nat)
    (hdisj : d.masterStart + masterSize ≤ d.regionStart ∨ d.regionStart + regionSectionSize ≤ d.masterStart)
    (k : Nat) (hk : k < 2) :
    (asmDesc { d with regs := setRegBase (setRegLimit d.regs 1 L) 0 B })[d.regionStart + 4 + k]? = (leN 2 B)[k]? ∧
    (asmDesc { d with regs := setRegBase (setRegLimit d.regs 1 L) 0 B })[d.regionStart + 10 + k]? = (leN 2 L)[k]? := by
  obtain ⟨r0, r1, rest, hr⟩ := regs_two d.regs g.regsLen
  have g1 := g.bufLen; have g2 := g.dmapLen; have g3 := g.masterLen
  have g4 := g.mapIn; have g5 := g.regionIn; have g6 := g.masterIn
  have hlen : rest.length = 13 := by have := g.regsLen; rw [hr] at this; simp [nRegions] at this; omega
  simp only [descLen, mapSize, masterSize, regionSectionSize] at *
  have hs' : (encodeRegionTail { d with regs := { r0 with base := B } :: { r1 with limit := L } :: rest }).length = 62 := by
    rw [encodeRegionTail_length]; simp [hlen]
  have hb1 : (splice d.buf d.mapStart d.dmap).length = 4096 := by rw [splice_length] <;> omega
  have hb2' : (splice (splice d.buf d.mapStart d.dmap) (d.regionStart + 2)
      (encodeRegionTail { d with regs := { r0 with base := B } :: { r1 with limit := L } :: rest })).length = 4096 := by
    rw [splice_length] <;> omega
  have hsec1 : (encodeRegionTail { d with regs := { r0 with base := B } :: { r1 with limit := L } :: rest })[2 + k]? =
      (leN 2 B)[k]? := by
    rw [encodeRegionTail_get _ _ (by omega)]
    have := encodeRegs_set01_base r0 r1 rest B L k hk
    simpa using this
  have hsec2 : (encodeRegionTail { d with regs := { r0 with base := B } :: { r1 with limit := L } :: rest })[8 + k]? =
      (leN 2 L)[k]? := by
    rw [encodeRegionTail_get _ _ (by omega)]
    have := encodeRegs_set01_limit r0 r1 rest B L k hk
    rw [show 8 + k - 2 = 6 + k by omega]; exact this
  generalize hsec'e : encodeRegionTail { d with regs := { r0 with base := B } :: { r1 with limit := L } :: rest } = sec' at *
  generalize hb1e : splice d.buf d.mapStart d.dmap = b1 at *
  have key : ∀ q, q < 62 → (splice b1 (d.regionStart + 2) sec')[d.regionStart + 2 + q]? = sec'[q]? := by
    intro q hq
    rw [splice_getElem? b1 _ sec' _ (by omega), hs']
    simp only [show ¬ d.regionStart + 2 + q < d.regionStart + 2 by omega, if_false,
      show d.regionStart + 2 + q < d.regionStart + 2 + 62 by omega, if_true]
    congr 1; omega
  unfold asmDesc
  simp only [hr, setRegs01, hsec'e, hb1e]
  generalize hb2e' : splice b1 (d.regionStart + 2) sec' = b2' at *
  constructor
  · rw [splice_getElem? b2' _ _ _ (by omega), g3]
    have := key (2 + k) (by omega)
    rw [show d.regionStart + 2 + (2 + k) = d.regionStart + 4 + k by omega] at this
    split
    · rw [this, hsec1]
    · split
      · omega
      · rw [this, hsec1]
  · rw [splice_getElem? b2' _ _ _ (by omega), g3]
    have := key (8 + k) (by omega)
    rw [show d.regionStart + 2 + (8 + k) = d.regionStart + 10 + k by omega] at this
    split
    · rw [this, hsec2]
    · split
      · omega
      · rw [this, hsec2]

end Fiano.TightenMe
