/-
  C12 helper lemmas about Assemble: what `asmFlash` returns on a well-formed tree.
-/
import FianoModel.TightenMe.WF

namespace Fiano.TightenMe

theorem take_append3 {α} (A B C : List α) (n : Nat) (h : n = A.length + B.length) :
    (A ++ B ++ C).take n = A ++ B := by
  subst h
  rw [← List.length_append, List.take_left']
  rfl

theorem drop_append3 {α} (A B C : List α) (n k : Nat) (h : n = A.length + B.length + k) :
    (A ++ B ++ C).drop n = C.drop k := by
  subst h
  rw [← List.length_append, List.drop_append]
  simp

/-- the copy loop of the BIOSRegion case writes the elements one after the other -/
theorem copyElems_ok (fBuf : Bytes) (off : Nat) (es : List Elem)
    (h : off + (es.flatMap (·.buf)).length ≤ fBuf.length) :
    copyElems fBuf off es =
      .ok (fBuf.take off ++ es.flatMap (·.buf) ++ fBuf.drop (off + (es.flatMap (·.buf)).length)) := by
  induction es generalizing fBuf off with
  | nil => simp [copyElems]
  | cons e es ih =>
    simp only [List.flatMap_cons, List.length_append] at h
    have hfit : ¬ off + e.buf.length > fBuf.length := by omega
    simp only [copyElems, hfit, if_false]
    have hl : (splice fBuf off e.buf).length = fBuf.length := splice_length _ _ _ (by omega)
    rw [ih (splice fBuf off e.buf) (off + e.buf.length) (by rw [hl]; omega)]
    congr 1
    have h1 : (fBuf.take off).length = off := by simp; omega
    simp only [splice, List.flatMap_cons, List.length_append]
    rw [take_append3 _ _ _ _ (by rw [h1]), drop_append3 _ _ _ _ (es.flatMap (·.buf)).length (by rw [h1]),
      List.drop_drop]
    simp only [List.append_assoc]
    rw [Nat.add_assoc]

/-- the erase-polarity bookkeeping of the BIOSRegion case and its volumes -/
def biosPol (pol : Nat) (els : List Elem) : Except Err Nat :=
  match asmVolumes pol els with
  | .error e => .error e
  | .ok p1 =>
    match firstFVPol els with
    | none => .error .asm
    | some ep =>
      match setPolarity p1 ep with
      | .error _ => .error .asm
      | .ok p2 => .ok p2

theorem asmBios_eq (pol len : Nat) (els : List Elem) (hlen : len = (els.flatMap (·.buf)).length) :
    asmBios pol len els =
      match biosPol pol els with
      | .ok p => .ok (els.flatMap (·.buf), p)
      | .error e => .error e := by
  unfold asmBios biosPol
  cases h1 : asmVolumes pol els with
  | error e => rfl
  | ok p1 =>
    simp only []
    cases h2 : firstFVPol els with
    | none => rfl
    | some ep =>
      simp only []
      cases h3 : setPolarity p1 ep with
      | error e => rfl
      | ok p2 =>
        simp only []
        rw [copyElems_ok _ 0 els (by simp [hlen])]
        simp [hlen]

/-- the polarity threaded through all regions by Assemble -/
def polFold : Nat → List Region → Except Err Nat
  | pol, [] => .ok pol
  | pol, r :: rs =>
    match r.body with
    | .bios _ els =>
      match biosPol pol els with
      | .error e => .error e
      | .ok p => polFold p rs
    | _ => polFold pol rs

/-- a region after Assemble: the BIOS region's buffer is rebuilt from its elements -/
def asmd (r : Region) : Region :=
  match r.body with
  | .bios _ _ => { r with buf := payload r }
  | _ => r

@[simp] theorem asmd_ref (r : Region) : (asmd r).ref = r.ref := by unfold asmd; split <;> rfl
@[simp] theorem asmd_body (r : Region) : (asmd r).body = r.body := by unfold asmd; split <;> rfl
@[simp] theorem asmd_payload (r : Region) : payload (asmd r) = payload r := by
  unfold asmd; split
  · rename_i h; simp [payload, h]
  · rfl
theorem asmd_buf (r : Region) : (asmd r).buf = payload r := by
  unfold asmd; split
  · rfl
  · rename_i h
    unfold payload
    split
    · rename_i h2; exact absurd h2 (h _ _)
    · rfl

theorem asmRegions_eq (pol : Nat) (rs : List Region)
    (hb : ∀ r ∈ rs, ∀ len els, r.body = .bios len els → len = (els.flatMap (·.buf)).length) :
    asmRegions pol rs =
      match polFold pol rs with
      | .ok p => .ok (rs.map asmd, p)
      | .error e => .error e := by
  induction rs generalizing pol with
  | nil => rfl
  | cons r rs ih =>
    have ih' := fun p => ih p (fun x hx => hb x (List.mem_cons_of_mem _ hx))
    cases hbody : r.body with
    | bios len els =>
      simp only [asmRegions, polFold, hbody]
      rw [asmBios_eq pol len els (hb r List.mem_cons_self len els hbody)]
      cases hbp : biosPol pol els with
      | error e => rfl
      | ok p =>
        simp only []
        rw [ih' p]
        cases polFold p rs with
        | error e => rfl
        | ok p' => simp [asmd, hbody, payload]
    | me fpt free =>
      simp only [asmRegions, polFold, hbody]
      rw [ih' pol]
      cases polFold pol rs with
      | error e => rfl
      | ok p' => simp [asmd, hbody]
    | raw =>
      simp only [asmRegions, polFold, hbody]
      rw [ih' pol]
      cases polFold pol rs with
      | error e => rfl
      | ok p' => simp [asmd, hbody]

theorem frOf_asmd (regs : List FRegion) (r : Region) : frOf regs (asmd r) = frOf regs r := by
  simp [frOf]

theorem chain_asmd (regs : List FRegion) (l : List Region) (off size : Nat) (h : Chain regs off l size) :
    Chain regs off (l.map asmd) size := by
  induction l generalizing off with
  | nil => exact h
  | cons x xs ih =>
    obtain ⟨fr, h1, h2, h3, h4, h5⟩ := h
    exact ⟨fr, by rw [frOf_asmd]; exact h1, h2, h3, by rw [asmd_payload]; exact h4, ih _ h5⟩

/-- the tiling check passes on a chain and concatenates the buffers -/
theorem tileConcat_chain (regs : List FRegion) (l : List Region) (off size : Nat) (h : Chain regs off l size) :
    tileConcat regs size off l = .ok (l.flatMap (·.buf)) := by
  induction l generalizing off with
  | nil => simp only [Chain] at h; simp [tileConcat, h]
  | cons x xs ih =>
    obtain ⟨fr, h1, h2, h3, h4, h5⟩ := h
    simp only [tileConcat, h1]
    have a : ¬ fr.baseOff < off := by omega
    have b : ¬ fr.baseOff > off := by omega
    simp only [a, b, if_false, ih _ h5, List.flatMap_cons]

/-- conversely, a passing tiling check means the regions tile (used to read Go's check as the
    property "regions still tile") -/
theorem tileConcat_ok_tiles (regs : List FRegion) (l : List Region) (off size : Nat) (b : Bytes)
    (h : tileConcat regs size off l = .ok b) :
    b = l.flatMap (·.buf) ∧
    (match l with | [] => off = size | r :: _ => ∃ fr, frOf regs r = .ok fr ∧ fr.baseOff = off) := by
  induction l generalizing off b with
  | nil =>
    simp only [tileConcat] at h
    split at h
    · cases h
    · injection h with h; subst h; exact ⟨rfl, by omega⟩
  | cons x xs ih =>
    simp only [tileConcat] at h
    split at h
    · cases h
    · rename_i fr hfr
      split at h
      · cases h
      · split at h
        · cases h
        · split at h
          · cases h
          · rename_i rest hrest
            injection h with h; subst h
            exact ⟨by simp [(ih _ _ hrest).1], fr, hfr, by omega⟩

theorem repoint_wf (nr : Nat) (r : Region)
    (hme : r.body.isME = true → r.ref = .idx 1) (hbios : r.body.isBIOS = true → r.ref = .idx 0) :
    repoint nr r = r := by
  unfold repoint
  split
  · rename_i h; have := hbios (by simp [Body.isBIOS, h]); cases r; simp_all
  · rename_i h; have := hme (by simp [Body.isME, h]); split <;> (cases r; simp_all)
  · rfl

/-- the BIOS slot of the table is valid (checked first by the FlashImage case) -/
def biosSlotValid (f : Flash) : Bool :=
  match f.desc.regs with
  | r0 :: _ => r0.valid
  | [] => false

/-- **What Assemble returns on a well-formed tree**: the regenerated descriptor followed by the
    payloads of the regions in list order. -/
theorem asmFlash_wf (pol : Nat) (f : Flash) (w : WF f) :
    asmFlash pol f =
      match polFold pol f.regions with
      | .error e => .error e
      | .ok p =>
        if biosSlotValid f then
          .ok ({ f with desc := { f.desc with buf := asmDesc f.desc }, regions := f.regions.map asmd,
                        buf := asmDesc f.desc ++ f.regions.flatMap payload }, p)
        else .error .asm := by
  unfold asmFlash
  simp only []
  rw [asmRegions_eq pol f.regions w.bios]
  cases hp : polFold pol f.regions with
  | error e => rfl
  | ok p =>
    simp only []
    obtain ⟨r0, r1, rest, hr⟩ := regs_two f.desc.regs w.geom.regsLen
    simp only [hr, biosSlotValid]
    cases hv : r0.valid with
    | false => simp
    | true =>
      simp only [Bool.not_true, Bool.false_eq_true, if_false, if_true]
      have hrep : (f.regions.map asmd).map (repoint f.desc.numberOfRegions) = f.regions.map asmd := by
        rw [List.map_map]
        apply List.map_congr_left
        intro r hr
        simp only [Function.comp]
        exact repoint_wf _ _ (by simpa using w.meRef r hr) (by simpa using w.biosRef r hr)
      rw [hrep]
      have hc : Chain (r0 :: r1 :: rest) descLen (f.regions.map asmd) f.size := by
        rw [← hr]; exact chain_asmd _ _ _ _ w.chain
      rw [chain_checkRefs _ _ _ _ hc]
      simp only []
      rw [isort_sorted _ _ (chain_sorted _ _ _ _ hc), tileConcat_chain _ _ _ _ hc]
      simp only []
      congr 3
      rw [List.flatMap_map]
      have : (fun r => (asmd r).buf) = payload := funext asmd_buf
      simp only [this]

end Fiano.TightenMe
