/-
  C12, tree level: `tighten_me` commutes with every modelled visitor other than `save`
  (`step_tighten_comm`), lifted from `rw_tighten_comm` (TreeFrame.lean) to `Uefi.step`.

  What `Uefi.step` reads besides the editor: the number and kind (`Hit.isFv`) of the matches of
  `Find` — unchanged by `tighten_me` because paddings are never matched and predicates do not look
  at the reported offset of a volume (`find_shape_tightened`).
-/
import FianoModel.TightenMe.TreeFrame

namespace Fiano.TightenMe.T
open Fiano

/-! ### `Find` after `tighten_me` -/

/-- what the visitors use of `Find.Matches`: how many, and which are volumes -/
def shape (l : List Uefi.Hit) : List Bool := l.map Uefi.Hit.isFv

theorem findFv_shift (p : Uefi.Pred) (hp : Pred.OffInv p) (i : Uefi.FvInfo) (buf : Bytes) (files : List Uefi.File)
    (o : Nat) :
    shape (Uefi.findFv p (.mk { i with fvOffset := o } buf files)) = shape (Uefi.findFv p (.mk i buf files)) := by
  rw [Uefi.findFv, Uefi.findFv, hp i buf files o]
  unfold shape
  cases p.fv (.mk i buf files) <;> simp [Uefi.Hit.isFv]

theorem findBiosElems_shift (p : Uefi.Pred) (hp : Pred.OffInv p) (s : Nat) (es : List Uefi.BiosElem) :
    shape (Uefi.findBiosElems p (es.map (shiftElem s))) = shape (Uefi.findBiosElems p es) := by
  induction es with
  | nil => rfl
  | cons e es ih =>
    cases e with
    | pad b o =>
      show shape (Uefi.findBiosElems p (.pad b (u64 (o + s)) :: es.map (shiftElem s))) = _
      rw [Uefi.findBiosElems, Uefi.findBiosElems]; exact ih
    | fv v =>
      obtain ⟨i, buf, files⟩ := v
      show shape (Uefi.findBiosElems p (.fv (.mk { i with fvOffset := u64 (i.fvOffset + s) } buf files) ::
        es.map (shiftElem s))) = _
      rw [Uefi.findBiosElems, Uefi.findBiosElems]
      unfold shape at *
      rw [List.map_append, List.map_append, ih]
      congr 1
      exact findFv_shift p hp i buf files _

theorem findBiosElems_grow (p : Uefi.Pred) (hp : Pred.OffInv p) (tail : Bytes) (shift ub : Nat)
    (bfr : Uefi.FlashRegion) (b : Uefi.BiosRegion) :
    shape (Uefi.findBiosElems p (growBios tail shift ub bfr b).elems) = shape (Uefi.findBiosElems p b.elems) := by
  show shape (Uefi.findBiosElems p (leadPadT tail ++ b.elems.map (shiftElem shift))) = _
  unfold leadPadT
  by_cases ht : tail = []
  · simp only [ht, if_true, List.nil_append]
    exact findBiosElems_shift p hp shift b.elems
  · simp only [ht, if_false, List.singleton_append]
    rw [Uefi.findBiosElems]
    exact findBiosElems_shift p hp shift b.elems

theorem findRegions_cons_nonbios (p : Uefi.Pred) (r : Uefi.Region) (rs : List Uefi.Region) (hr : isBIOS r = false) :
    Uefi.findRegions p (r :: rs) = Uefi.findRegions p rs := by
  cases r with
  | bios b => simp [isBIOS] at hr
  | me x y => rw [Uefi.findRegions]; intro b hb; cases hb
  | raw x y z => rw [Uefi.findRegions]; intro b hb; cases hb

theorem findRegions_set_nonbios (p : Uefi.Pred) (rs : List Uefi.Region) (k : Nat) (x y : Uefi.Region)
    (hk : rs[k]? = some y) (hy : isBIOS y = false) (hx : isBIOS x = false) :
    Uefi.findRegions p (rs.set k x) = Uefi.findRegions p rs := by
  induction rs generalizing k with
  | nil => simp at hk
  | cons r rs ih =>
    cases k with
    | zero =>
      simp only [List.getElem?_cons_zero, Option.some.injEq] at hk
      subst hk
      simp only [List.set_cons_zero]
      rw [findRegions_cons_nonbios p x rs hx, findRegions_cons_nonbios p r rs hy]
    | succ k =>
      simp only [List.getElem?_cons_succ] at hk
      simp only [List.set_cons_succ]
      cases r with
      | bios b => rw [Uefi.findRegions, Uefi.findRegions, ih k hk]
      | me a c => rw [findRegions_cons_nonbios p _ _ rfl, findRegions_cons_nonbios p _ _ rfl, ih k hk]
      | raw a c d => rw [findRegions_cons_nonbios p _ _ rfl, findRegions_cons_nonbios p _ _ rfl, ih k hk]

theorem findRegions_set_bios (p : Uefi.Pred) (rs : List Uefi.Region) (k : Nat) (b b' : Uefi.BiosRegion)
    (hk : rs[k]? = some (.bios b))
    (hb : shape (Uefi.findBiosElems p b'.elems) = shape (Uefi.findBiosElems p b.elems)) :
    shape (Uefi.findRegions p (rs.set k (.bios b'))) = shape (Uefi.findRegions p rs) := by
  induction rs generalizing k with
  | nil => simp at hk
  | cons r rs ih =>
    cases k with
    | zero =>
      simp only [List.getElem?_cons_zero, Option.some.injEq] at hk
      subst hk
      simp only [List.set_cons_zero]
      rw [Uefi.findRegions, Uefi.findRegions]
      unfold shape at *
      rw [List.map_append, List.map_append, hb]
    | succ k =>
      simp only [List.getElem?_cons_succ] at hk
      simp only [List.set_cons_succ]
      cases r with
      | bios b0 =>
        rw [Uefi.findRegions, Uefi.findRegions]
        unfold shape at *
        rw [List.map_append, List.map_append, ih k hk]
      | me a c => rw [findRegions_cons_nonbios p _ _ rfl, findRegions_cons_nonbios p _ _ rfl]; exact ih k hk
      | raw a c d => rw [findRegions_cons_nonbios p _ _ rfl, findRegions_cons_nonbios p _ _ rfl]; exact ih k hk

/-- `Find` sees the same matches (number and kind) after `tighten_me` -/
theorem find_shape_tightened (p : Uefi.Pred) (hp : Pred.OffInv p) (free pol : Nat) (f f2 : Uefi.Flash)
    (ht : tightenFlash free pol f = .ok f2) :
    shape (Uefi.find p (.flash f2)) = shape (Uefi.find p (.flash f)) := by
  obtain ⟨i, j, mbuf, mfr, b, bfr, hi, hj, hme, hbios, hfr, hadj, hin, her, hres⟩ := tightenFlash_inv free pol f f2 ht
  have hne : i ≠ j := by
    intro e; subst e; rw [hme] at hbios; cases hbios
  rw [hres]
  simp only [Uefi.find, tightened]
  rw [findRegions_set_bios p _ j b _ (by rw [List.getElem?_set_ne hne]; exact hbios)
    (findBiosElems_grow p hp _ _ _ _ b), findRegions_set_nonbios p f.regions i _ _ hme rfl rfl]

theorem shape_cases {l l' : List Uefi.Hit} (h : shape l' = shape l) :
    (l = [] ∧ l' = []) ∨ (∃ a a', l = [a] ∧ l' = [a'] ∧ a'.isFv = a.isFv) ∨
    (∃ a b c a' b' c', l = a :: b :: c ∧ l' = a' :: b' :: c') := by
  unfold shape at h
  match l, l', h with
  | [], [], _ => exact Or.inl ⟨rfl, rfl⟩
  | [a], [a'], h => simp at h; exact Or.inr (Or.inl ⟨a, a', rfl, rfl, h⟩)
  | a :: b :: c, a' :: b' :: c', _ => exact Or.inr (Or.inr ⟨a, b, c, a', b', c', rfl, rfl⟩)
  | [], _ :: _, h => simp at h
  | _ :: _, [], h => simp at h
  | [_], _ :: _ :: _, h => simp at h
  | _ :: _ :: _, [_], h => simp at h

/-! ### the editors of the command line are blind to reported offsets -/

theorem insertFvEditor_offInv (p : Uefi.Pred) (hp : Pred.OffInv p) (w : Uefi.Where) (nf : Uefi.File) :
    Editor.OffInv (Uefi.insertFvEditor p w nf) := by
  intro i buf files o
  simp only [Uefi.insertFvEditor, hp i buf files o, Uefi.Fv.files]

theorem insertFileEditor_offInv (p : Uefi.Pred) (w : Uefi.Where) (nf : Uefi.File) :
    Editor.OffInv (Uefi.insertFileEditor p w nf) := by
  intro i buf files o
  simp only [Uefi.insertFileEditor, Uefi.Fv.files]

theorem removeEditor_offInv (p : Uefi.Pred) (pad : Bool) (pol : UInt8) :
    Editor.OffInv (Uefi.removeEditor p pad pol) := by
  intro i buf files o; rfl

theorem pe32Editor_offInv (p : Uefi.Pred) (body : Bytes) : Editor.OffInv (Uefi.pe32Editor p body) := by
  intro i buf files o; rfl

/-! ### trees -/

theorem tightenTree_flash (free pol : Nat) (t t2 : Uefi.Tree) (h : tightenTree free pol t = .ok t2) :
    ∃ f f2, t = .flash f ∧ t2 = .flash f2 ∧ tightenFlash free pol f = .ok f2 := by
  cases t with
  | bios b => simp [tightenTree] at h
  | flash f =>
    simp only [tightenTree] at h
    split at h
    · cases h
    · rename_i f2 hf
      cases h
      exact ⟨f, f2, rfl, rfl, hf⟩

/-- the editor and `tighten_me` commute on trees -/
theorem rwTree_tighten_comm (E : Uefi.Editor) (hE : Editor.OffInv E) (free pol : Nat) (t t1 t2 : Uefi.Tree)
    (hrw : Uefi.rwTree E t = .ok t1) (ht : tightenTree free pol t = .ok t2) :
    ∃ t3, tightenTree free pol t1 = .ok t3 ∧ Uefi.rwTree E t2 = .ok t3 := by
  obtain ⟨f, f2, rfl, rfl, hf⟩ := tightenTree_flash free pol t t2 ht
  rw [Uefi.rwTree] at hrw
  split at hrw
  · cases hrw
  · rename_i rs1 hrs
    cases hrw
    obtain ⟨f3, h3, hrw3, he⟩ := rw_tighten_comm E hE free pol f f2 rs1 hrs hf
    refine ⟨.flash f3, by simp only [tightenTree, h3], ?_⟩
    rw [Uefi.rwTree, hrw3]
    simp only []
    rw [← he]

/-- `find` on the tree after `tighten_me` -/
theorem find_shape_tree (p : Uefi.Pred) (hp : Pred.OffInv p) (free pol : Nat) (t t2 : Uefi.Tree)
    (ht : tightenTree free pol t = .ok t2) : shape (Uefi.find p t2) = shape (Uefi.find p t) := by
  obtain ⟨f, f2, rfl, rfl, hf⟩ := tightenTree_flash free pol t t2 ht
  exact find_shape_tightened p hp free pol f f2 hf

/-! ### the operations -/

theorem insertOp_comm (p : Uefi.Pred) (hp : Pred.OffInv p) (w : Uefi.Where) (nf : Uefi.File) (free pol : Nat)
    (t t1 t2 : Uefi.Tree) (hop : Uefi.insertOp p w nf t = .ok t1) (ht : tightenTree free pol t = .ok t2) :
    ∃ t3, tightenTree free pol t1 = .ok t3 ∧ Uefi.insertOp p w nf t2 = .ok t3 := by
  have hs := find_shape_tree p hp free pol t t2 ht
  unfold Uefi.insertOp at hop ⊢
  rcases shape_cases hs with ⟨h0, h0'⟩ | ⟨a, a', h1, h1', hk⟩ | ⟨a, b, c, a', b', c', h2, h2'⟩
  · rw [h0] at hop; cases hop
  · rw [h1] at hop; rw [h1']
    simp only [] at hop ⊢
    rw [hk]
    cases hfv : a.isFv with
    | true =>
      rw [hfv] at hop
      simp only [if_true] at hop ⊢
      exact rwTree_tighten_comm _ (insertFvEditor_offInv p hp w nf) free pol t t1 t2 hop ht
    | false =>
      rw [hfv] at hop
      simp only [Bool.false_eq_true, if_false] at hop ⊢
      exact rwTree_tighten_comm _ (insertFileEditor_offInv p w nf) free pol t t1 t2 hop ht
  · rw [h2] at hop; cases hop

theorem insertNilOp_comm (p : Uefi.Pred) (hp : Pred.OffInv p) (w : Uefi.Where) (free pol : Nat)
    (t t2 : Uefi.Tree) (ht : tightenTree free pol t = .ok t2) :
    Uefi.insertNilOp p w t2 = Uefi.insertNilOp p w t := by
  have hs := find_shape_tree p hp free pol t t2 ht
  unfold Uefi.insertNilOp
  rcases shape_cases hs with ⟨h0, h0'⟩ | ⟨a, a', h1, h1', hk⟩ | ⟨a, b, c, a', b', c', h2, h2'⟩
  · rw [h0, h0']
  · rw [h1, h1']; simp only [hk]
  · rw [h2, h2']

theorem replacePe32Op_comm (p : Uefi.Pred) (hp : Pred.OffInv p) (body : Bytes) (free pol : Nat)
    (t t1 t2 : Uefi.Tree) (hop : Uefi.replacePe32Op p body t = .ok t1) (ht : tightenTree free pol t = .ok t2) :
    ∃ t3, tightenTree free pol t1 = .ok t3 ∧ Uefi.replacePe32Op p body t2 = .ok t3 := by
  have hs := find_shape_tree p hp free pol t t2 ht
  unfold Uefi.replacePe32Op at hop ⊢
  split at hop
  · cases hop
  · rename_i hmz
    simp only [hmz, if_false]
    rcases shape_cases hs with ⟨h0, h0'⟩ | ⟨a, a', h1, h1', hk⟩ | ⟨a, b, c, a', b', c', h2, h2'⟩
    · rw [h0] at hop; cases hop
    · rw [h1] at hop; rw [h1']
      simp only [] at hop ⊢
      exact rwTree_tighten_comm _ (pe32Editor_offInv p body) free pol t t1 t2 hop ht
    · rw [h2] at hop; cases hop

theorem roStep_comm (r : Uefi.ReadOnly) (hr : ∀ p, r = .dump p → Pred.OffInv p) (free pol : Nat)
    (t t2 : Uefi.Tree) (ht : tightenTree free pol t = .ok t2) : Uefi.roStep r t2 = Uefi.roStep r t := by
  cases r with
  | dump p =>
    have hs := find_shape_tree p (hr p rfl) free pol t t2 ht
    simp only [Uefi.roStep]
    rcases shape_cases hs with ⟨h0, h0'⟩ | ⟨a, a', h1, h1', hk⟩ | ⟨a, b, c, a', b', c', h2, h2'⟩
    · rw [h0, h0']
    · rw [h1, h1']
    · rw [h2, h2']
  | _ => rfl

/-- the predicates an operation selects with do not look at reported volume offsets (true of every
    command line: `selFvPred`, `selFilePred`, `typePred` match names, GUIDs and types) -/
def OpOffInv : Uefi.Op → Prop
  | .insert p _ _ => Pred.OffInv p
  | .remove _ _ => True
  | .replacePe32 p _ => Pred.OffInv p
  | .save => True
  | .ro (.dump p) => Pred.OffInv p
  | .ro _ => True

def isSaveOp : Uefi.Op → Bool
  | .save => true
  | _ => false

theorem stepT_tighten_inv (h : Uefi.Hooks) (s s2 : TRun) (ht : stepT h .tighten s = .ok s2) :
    ∃ t2, tightenTree s.free s.run.st.pol.toNat s.run.tree = .ok t2 ∧
      s2 = { s with run := { s.run with tree := t2 } } := by
  simp only [stepT] at ht
  split at ht
  · cases ht
  · rename_i t2 h2
    cases ht
    exact ⟨t2, h2, rfl⟩

theorem stepT_op (h : Uefi.Hooks) (op : Uefi.Op) (hns : isSaveOp op = false) (s : TRun) :
    stepT h (.op op) s = match Uefi.step h op s.run with
      | .error e => .error e
      | .ok r => .ok { s with run := r } := by
  cases op with
  | save => simp [isSaveOp] at hns
  | _ => rfl

/-- **`tighten_me` commutes with every modelled visitor other than `save`.**  If from the same state
    the visitor `op` succeeds and `tighten_me` succeeds, then `tighten_me` succeeds after `op`, `op`
    succeeds after `tighten_me`, and the two orders end in the same state (tree, process state,
    written files, FreeSpaceOffset). -/
theorem step_tighten_comm (h : Uefi.Hooks) (op : Uefi.Op) (hns : isSaveOp op = false) (hinv : OpOffInv op)
    (s s1 s2 : TRun) (hop : stepT h (.op op) s = .ok s1) (ht : stepT h .tighten s = .ok s2) :
    ∃ s3, stepT h .tighten s1 = .ok s3 ∧ stepT h (.op op) s2 = .ok s3 := by
  obtain ⟨t2, ht2, rfl⟩ := stepT_tighten_inv h s s2 ht
  rw [stepT_op h op hns] at hop ⊢
  obtain ⟨run, free⟩ := s
  obtain ⟨tree, st, outs, nilFile⟩ := run
  simp only [] at ht2 hop ⊢
  unfold Uefi.step at hop ⊢
  simp only [] at hop ⊢
  cases nilFile with
  | true =>
    -- a nil file is in the tree: the visitor does not touch the tree at all
    simp only [if_true] at hop ⊢
    cases hn : Uefi.stepNil op { tree := tree, st := st, outs := outs, nilFile := true } with
    | error e => rw [hn] at hop; cases hop
    | ok r =>
      rw [hn] at hop; cases hop
      have hr : r = { tree := tree, st := st, outs := outs, nilFile := true } := by
        unfold Uefi.stepNil at hn
        split at hn
        · split at hn <;> cases hn
        · cases hn; rfl
        · cases hn; rfl
        · cases hn
      subst hr
      have hn2 : Uefi.stepNil op { tree := t2, st := st, outs := outs, nilFile := true } =
          .ok { tree := t2, st := st, outs := outs, nilFile := true } := by
        unfold Uefi.stepNil at hn ⊢
        split at hn
        · split at hn <;> cases hn
        · rfl
        · rfl
        · cases hn
      refine ⟨{ run := { tree := t2, st := st, outs := outs, nilFile := true }, free := free }, ?_, ?_⟩
      · simp only [stepT, ht2]
      · rw [hn2]
  | false =>
    simp only [Bool.false_eq_true, if_false] at hop ⊢
    cases op with
    | save => simp [isSaveOp] at hns
    | insert p w nfo =>
      cases nfo with
      | none =>
        simp only [] at hop ⊢
        rw [insertNilOp_comm p hinv w free st.pol.toNat tree t2 ht2]
        cases hn : Uefi.insertNilOp p w tree with
        | error e => rw [hn] at hop; cases hop
        | ok u =>
          rw [hn] at hop; cases hop
          exact ⟨_, by simp only [stepT, ht2], rfl⟩
      | some nf =>
        simp only [] at hop ⊢
        cases hn : Uefi.insertOp p w nf tree with
        | error e => rw [hn] at hop; cases hop
        | ok t1 =>
          rw [hn] at hop; cases hop
          obtain ⟨t3, h3, h3'⟩ := insertOp_comm p hinv w nf free st.pol.toNat tree t1 t2 hn ht2
          exact ⟨{ run := { tree := t3, st := st, outs := outs, nilFile := false }, free := free },
            by simp only [stepT, h3], by rw [h3']⟩
    | remove p pad =>
      simp only [] at hop ⊢
      unfold Uefi.removeOp at hop ⊢
      cases hn : Uefi.rwTree (Uefi.removeEditor p pad st.pol) tree with
      | error e => rw [hn] at hop; cases hop
      | ok t1 =>
        rw [hn] at hop; cases hop
        obtain ⟨t3, h3, h3'⟩ := rwTree_tighten_comm _ (removeEditor_offInv p pad st.pol) free st.pol.toNat tree t1 t2 hn ht2
        exact ⟨{ run := { tree := t3, st := st, outs := outs, nilFile := false }, free := free },
          by simp only [stepT, h3], by rw [h3']⟩
    | replacePe32 p body =>
      simp only [] at hop ⊢
      cases hn : Uefi.replacePe32Op p body tree with
      | error e => rw [hn] at hop; cases hop
      | ok t1 =>
        rw [hn] at hop; cases hop
        obtain ⟨t3, h3, h3'⟩ := replacePe32Op_comm p hinv body free st.pol.toNat tree t1 t2 hn ht2
        exact ⟨{ run := { tree := t3, st := st, outs := outs, nilFile := false }, free := free },
          by simp only [stepT, h3], by rw [h3']⟩
    | ro r =>
      simp only [] at hop ⊢
      have hr : ∀ p, r = .dump p → Pred.OffInv p := by
        intro p hp; subst hp; exact hinv
      rw [roStep_comm r hr free st.pol.toNat tree t2 ht2]
      cases hn : Uefi.roStep r tree with
      | error e => rw [hn] at hop; cases hop
      | ok u =>
        rw [hn] at hop; cases hop
        exact ⟨_, by simp only [stepT, ht2], rfl⟩

end Fiano.TightenMe.T
