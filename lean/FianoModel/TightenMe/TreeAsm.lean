/-
  C12, tree level: Assemble after `tighten_me`, for volumes WITH files.

  `Assemble` never reads the reported offset of a volume (`asmFv_off`), so assembling the BIOS node
  that `tighten_me` has grown gives the assembled old node with the freed blocks in front
  (`asmBios_grow`), and the region list assembles node by node as before (`asmRegions_tightened`).
-/
import FianoModel.TightenMe.TreeAbs
import FianoModel.Uefi.ExtractAsm

namespace Fiano.TightenMe.T
open Fiano

def emap {α β} (g : α → β) : Except Uefi.Err α → Except Uefi.Err β
  | .ok a => .ok (g a)
  | .error e => .error e

def withOff (o : Nat) (r : Uefi.FvInfo × Bytes × Uefi.St) : Uefi.FvInfo × Bytes × Uefi.St :=
  ({ r.1 with fvOffset := o }, r.2)

theorem finishFv_off (i : Uefi.FvInfo) (o : Nat) (fbuf : Bytes) (st : Uefi.St) :
    Uefi.finishFv { i with fvOffset := o } fbuf st = emap (withOff o) (Uefi.finishFv i fbuf st) := by
  cases i
  unfold Uefi.finishFv
  simp only []
  repeat' split
  all_goals first | rfl | simp_all [emap, withOff]

theorem relayoutFv_off (i : Uefi.FvInfo) (o : Nat) (buf : Bytes) (fs : List Uefi.File) (st : Uefi.St) :
    Uefi.relayoutFv { i with fvOffset := o } buf fs st = emap (withOff o) (Uefi.relayoutFv i buf fs st) := by
  unfold Uefi.relayoutFv
  simp only []
  repeat' split
  all_goals first | rfl | exact finishFv_off _ _ _ _ | simp_all [emap, withOff]

def setOffFv (o : Nat) : Uefi.Fv → Uefi.Fv
  | .mk i b f => .mk { i with fvOffset := o } b f

/-- **Assemble does not read the reported offset of a volume** and carries it through -/
theorem asmFv_off (h : Uefi.Hooks) (i : Uefi.FvInfo) (o : Nat) (buf : Bytes) (files : List Uefi.File) (st : Uefi.St) :
    Uefi.asmFv h (.mk { i with fvOffset := o } buf files) st =
      emap (fun r => (setOffFv o r.1, r.2)) (Uefi.asmFv h (.mk i buf files) st) := by
  rw [Uefi.asmFv_eq, Uefi.asmFv_eq]
  simp only []
  cases Uefi.setPolarity (Uefi.polOfAttrs i.attrs) st with
  | error e => rfl
  | ok st1 =>
    simp only []
    cases Uefi.asmFiles h files st1 with
    | error e => rfl
    | ok p =>
      obtain ⟨fs', st2⟩ := p
      simp only []
      cases fs' with
      | nil => rfl
      | cons a t =>
        simp only [Uefi.asmFvTail, relayoutFv_off]
        cases Uefi.relayoutFv i buf (a :: t) st2 with
        | error e => rfl
        | ok r => obtain ⟨i', b', s'⟩ := r; rfl

/-- … so the offset of an assembled volume is the offset it had -/
theorem asmFv_keeps_off (h : Uefi.Hooks) (i i' : Uefi.FvInfo) (buf buf' : Bytes) (files files' : List Uefi.File)
    (st st' : Uefi.St) (hr : Uefi.asmFv h (.mk i buf files) st = .ok (.mk i' buf' files', st')) :
    i'.fvOffset = i.fvOffset := by
  have := asmFv_off h i i.fvOffset buf files st
  rw [show ({ i with fvOffset := i.fvOffset } : Uefi.FvInfo) = i from rfl, hr] at this
  simp only [emap, setOffFv, Except.ok.injEq, Prod.mk.injEq, Uefi.Fv.mk.injEq] at this
  have h1 := this.1.1
  rw [h1]

theorem asmBiosElems_shift (h : Uefi.Hooks) (s : Nat) (es : List Uefi.BiosElem) (st : Uefi.St) :
    Uefi.asmBiosElems h (es.map (shiftElem s)) st =
      emap (fun r => (r.1.map (shiftElem s), r.2)) (Uefi.asmBiosElems h es st) := by
  induction es generalizing st with
  | nil => rfl
  | cons e es ih =>
    cases e with
    | pad b o =>
      show Uefi.asmBiosElems h (.pad b (u64 (o + s)) :: es.map (shiftElem s)) st = _
      rw [Uefi.asmBiosElems, Uefi.asmBiosElems, ih]
      cases Uefi.asmBiosElems h es st with
      | error e => rfl
      | ok r => rfl
    | fv v =>
      obtain ⟨i, buf, files⟩ := v
      show Uefi.asmBiosElems h (.fv (.mk { i with fvOffset := u64 (i.fvOffset + s) } buf files) :: es.map (shiftElem s)) st = _
      rw [Uefi.asmBiosElems, Uefi.asmBiosElems, asmFv_off]
      cases hv : Uefi.asmFv h (.mk i buf files) st with
      | error e => rfl
      | ok r =>
        obtain ⟨v', st1⟩ := r
        obtain ⟨i', b', f'⟩ := v'
        have hoff := asmFv_keeps_off h i i' buf b' files f' st st1 hv
        simp only [emap, setOffFv, ih]
        cases Uefi.asmBiosElems h es st1 with
        | error e => rfl
        | ok r2 =>
          simp only [List.map_cons, shiftElem, hoff]

/-! ### the BIOS node -/

def shiftFv (s : Nat) : Uefi.Fv → Uefi.Fv
  | .mk i b f => .mk { i with fvOffset := u64 (i.fvOffset + s) } b f

theorem firstFv_shift (s : Nat) (es : List Uefi.BiosElem) :
    Uefi.firstFv (es.map (shiftElem s)) = (Uefi.firstFv es).map (shiftFv s) := by
  induction es with
  | nil => rfl
  | cons e es ih =>
    cases e with
    | pad b o =>
      show Uefi.firstFv (.pad b (u64 (o + s)) :: es.map (shiftElem s)) = _
      rw [Uefi.firstFv, Uefi.firstFv]; exact ih
    | fv v => obtain ⟨i, b, f⟩ := v; rfl

theorem firstFv_leadPad (tail : Bytes) (es : List Uefi.BiosElem) :
    Uefi.firstFv (leadPadT tail ++ es) = Uefi.firstFv es := by
  unfold leadPadT
  by_cases ht : tail = []
  · simp only [ht, if_true, List.nil_append]
  · simp only [ht, if_false, List.singleton_append]; rw [Uefi.firstFv]

theorem shiftFv_attrs (s : Nat) (v : Uefi.Fv) : (shiftFv s v).info.attrs = v.info.attrs := by
  obtain ⟨i, b, f⟩ := v; rfl

theorem shiftElem_buf (s : Nat) (e : Uefi.BiosElem) : (shiftElem s e).buf = e.buf := by
  cases e with
  | pad b o => rfl
  | fv v => obtain ⟨i, b, f⟩ := v; rfl

theorem bufs_leadPad (tail : Bytes) (es : List Uefi.BiosElem) (s : Nat) :
    ((leadPadT tail ++ es.map (shiftElem s)).map Uefi.BiosElem.buf).flatten =
      tail ++ (es.map Uefi.BiosElem.buf).flatten := by
  have h1 : (es.map (shiftElem s)).map Uefi.BiosElem.buf = es.map Uefi.BiosElem.buf := by
    rw [List.map_map]; apply List.map_congr_left; intro e _; exact shiftElem_buf s e
  unfold leadPadT
  by_cases ht : tail = []
  · simp only [ht, if_true, List.nil_append, h1]
  · simp only [ht, if_false, List.singleton_append, List.map_cons, List.flatten_cons, h1, Uefi.BiosElem.buf]

theorem asmBiosElems_leadPad (h : Uefi.Hooks) (tail : Bytes) (es : List Uefi.BiosElem) (st : Uefi.St) :
    Uefi.asmBiosElems h (leadPadT tail ++ es) st =
      emap (fun r => (leadPadT tail ++ r.1, r.2)) (Uefi.asmBiosElems h es st) := by
  unfold leadPadT
  by_cases ht : tail = []
  · simp only [ht, if_true, List.nil_append]
    cases Uefi.asmBiosElems h es st with
    | error e => rfl
    | ok r => rfl
  · simp only [ht, if_false, List.singleton_append]
    rw [Uefi.asmBiosElems]
    cases Uefi.asmBiosElems h es st with
    | error e => rfl
    | ok r => rfl

/-- the grown BIOS node after Assemble: the freed blocks in front of the assembled old node -/
def grownAsm (tail : Bytes) (shift ub : Nat) (bfr : Uefi.FlashRegion) (b1 : Uefi.BiosRegion) : Uefi.BiosRegion :=
  { growBios tail shift ub bfr b1 with buf := tail ++ b1.buf }

theorem u64_small (n : Nat) (h : n < 2 ^ 64) : u64 n = n := by unfold u64; exact Nat.mod_eq_of_lt h

/-- **Assemble on the BIOS node that `tighten_me` has grown** -/
theorem asmBios_grow (h : Uefi.Hooks) (tail : Bytes) (shift ub : Nat) (bfr : Uefi.FlashRegion) (b : Uefi.BiosRegion)
    (st : Uefi.St) (hs : tail.length = shift) (hnw : b.length + shift < 2 ^ 64) :
    Uefi.asmBios h (growBios tail shift ub bfr b) st =
      emap (fun r => (grownAsm tail shift ub bfr r.1, r.2)) (Uefi.asmBios h b st) := by
  have hlen : (growBios tail shift ub bfr b).length = b.length + shift := u64_small _ hnw
  unfold Uefi.asmBios
  rw [show (growBios tail shift ub bfr b).elems = leadPadT tail ++ b.elems.map (shiftElem shift) from rfl,
    asmBiosElems_leadPad, asmBiosElems_shift]
  cases Uefi.asmBiosElems h b.elems st with
  | error e => rfl
  | ok r =>
    obtain ⟨es, st1⟩ := r
    simp only [emap]
    rw [firstFv_leadPad, firstFv_shift]
    cases Uefi.firstFv es with
    | none => rfl
    | some v =>
      simp only [Option.map_some, shiftFv_attrs]
      cases Uefi.setPolarity (Uefi.polOfAttrs v.info.attrs) st1 with
      | error e => rfl
      | ok st2 =>
        simp only [bufs_leadPad, hlen, List.length_append, hs]
        by_cases hc : ((es.map Uefi.BiosElem.buf).flatten).length > b.length
        · have hc' : shift + ((es.map Uefi.BiosElem.buf).flatten).length > b.length + shift := by omega
          simp only [hc, hc', if_true]
        · have hc' : ¬ shift + ((es.map Uefi.BiosElem.buf).flatten).length > b.length + shift := by omega
          simp only [hc, hc', if_false, grownAsm, growBios]
          have hcount : b.length + shift - (shift + ((es.map Uefi.BiosElem.buf).flatten).length) =
              b.length - ((es.map Uefi.BiosElem.buf).flatten).length := by omega
          rw [hcount, List.append_assoc, u64_small _ hnw]

/-! ### the region list -/

theorem asmRegions_cons_nonbios (h : Uefi.Hooks) (r : Uefi.Region) (rs : List Uefi.Region) (st : Uefi.St)
    (hr : isBIOS r = false) :
    Uefi.asmRegions h (r :: rs) st = emap (fun p => (r :: p.1, p.2)) (Uefi.asmRegions h rs st) := by
  cases r with
  | bios b => simp [isBIOS] at hr
  | me x y =>
    rw [Uefi.asmRegions]
    · cases Uefi.asmRegions h rs st with
      | error e => rfl
      | ok p => rfl
    · intro b hb; cases hb
  | raw x y z =>
    rw [Uefi.asmRegions]
    · cases Uefi.asmRegions h rs st with
      | error e => rfl
      | ok p => rfl
    · intro b hb; cases hb

theorem asmRegions_cons_bios (h : Uefi.Hooks) (b : Uefi.BiosRegion) (rs : List Uefi.Region) (st : Uefi.St) :
    Uefi.asmRegions h (.bios b :: rs) st =
      match Uefi.asmBios h b st with
      | .error e => .error e
      | .ok (b', st') => emap (fun p => (.bios b' :: p.1, p.2)) (Uefi.asmRegions h rs st') := by
  rw [Uefi.asmRegions]
  cases Uefi.asmBios h b st with
  | error e => rfl
  | ok r =>
    obtain ⟨b', st'⟩ := r
    simp only []
    cases Uefi.asmRegions h rs st' with
    | error e => rfl
    | ok p => rfl

theorem asmRegions_set_nonbios (h : Uefi.Hooks) (rs : List Uefi.Region) (k : Nat) (x y : Uefi.Region) (st : Uefi.St)
    (hk : rs[k]? = some y) (hy : isBIOS y = false) (hx : isBIOS x = false) :
    Uefi.asmRegions h (rs.set k x) st = emap (fun p => (p.1.set k x, p.2)) (Uefi.asmRegions h rs st) := by
  induction rs generalizing k st with
  | nil => simp at hk
  | cons r rs ih =>
    cases k with
    | zero =>
      simp only [List.getElem?_cons_zero, Option.some.injEq] at hk
      subst hk
      simp only [List.set_cons_zero]
      rw [asmRegions_cons_nonbios h x rs st hx, asmRegions_cons_nonbios h r rs st hy]
      cases Uefi.asmRegions h rs st with
      | error e => rfl
      | ok p => rfl
    | succ k =>
      simp only [List.getElem?_cons_succ] at hk
      simp only [List.set_cons_succ]
      cases r with
      | bios b0 =>
        rw [asmRegions_cons_bios, asmRegions_cons_bios]
        cases Uefi.asmBios h b0 st with
        | error e => rfl
        | ok q =>
          obtain ⟨b', st'⟩ := q
          simp only []
          rw [ih k st' hk]
          cases Uefi.asmRegions h rs st' with
          | error e => rfl
          | ok p => rfl
      | me a c =>
        rw [asmRegions_cons_nonbios h _ _ st rfl, asmRegions_cons_nonbios h _ _ st rfl, ih k st hk]
        cases Uefi.asmRegions h rs st with
        | error e => rfl
        | ok p => rfl
      | raw a c d =>
        rw [asmRegions_cons_nonbios h _ _ st rfl, asmRegions_cons_nonbios h _ _ st rfl, ih k st hk]
        cases Uefi.asmRegions h rs st with
        | error e => rfl
        | ok p => rfl

/-- the assembled list with the grown BIOS node at `k` -/
def setGrown (tail : Bytes) (shift ub : Nat) (bfr : Uefi.FlashRegion) (k : Nat) (rs1 : List Uefi.Region) : List Uefi.Region :=
  match rs1[k]? with
  | some (.bios b1) => rs1.set k (.bios (grownAsm tail shift ub bfr b1))
  | _ => rs1

theorem setGrown_cons_succ (tail : Bytes) (shift ub : Nat) (bfr : Uefi.FlashRegion) (k : Nat) (r : Uefi.Region)
    (rs1 : List Uefi.Region) :
    setGrown tail shift ub bfr (k + 1) (r :: rs1) = r :: setGrown tail shift ub bfr k rs1 := by
  unfold setGrown
  simp only [List.getElem?_cons_succ]
  cases rs1[k]? with
  | none => rfl
  | some x => cases x <;> rfl

theorem asmRegions_set_grow (h : Uefi.Hooks) (tail : Bytes) (shift ub : Nat) (bfr : Uefi.FlashRegion)
    (rs : List Uefi.Region) (k : Nat) (b : Uefi.BiosRegion) (st : Uefi.St)
    (hk : rs[k]? = some (.bios b)) (hs : tail.length = shift) (hnw : b.length + shift < 2 ^ 64) :
    Uefi.asmRegions h (rs.set k (.bios (growBios tail shift ub bfr b))) st =
      emap (fun p => (setGrown tail shift ub bfr k p.1, p.2)) (Uefi.asmRegions h rs st) := by
  induction rs generalizing k st with
  | nil => simp at hk
  | cons r rs ih =>
    cases k with
    | zero =>
      simp only [List.getElem?_cons_zero, Option.some.injEq] at hk
      subst hk
      simp only [List.set_cons_zero]
      rw [asmRegions_cons_bios, asmRegions_cons_bios, asmBios_grow h tail shift ub bfr b st hs hnw]
      cases Uefi.asmBios h b st with
      | error e => rfl
      | ok q =>
        obtain ⟨b', st'⟩ := q
        simp only [emap]
        cases Uefi.asmRegions h rs st' with
        | error e => rfl
        | ok p => rfl
    | succ k =>
      simp only [List.getElem?_cons_succ] at hk
      simp only [List.set_cons_succ]
      cases r with
      | bios b0 =>
        rw [asmRegions_cons_bios, asmRegions_cons_bios]
        cases Uefi.asmBios h b0 st with
        | error e => rfl
        | ok q =>
          obtain ⟨b', st'⟩ := q
          simp only []
          rw [ih k st' hk]
          cases Uefi.asmRegions h rs st' with
          | error e => rfl
          | ok p => simp only [emap, setGrown_cons_succ]
      | me a c =>
        rw [asmRegions_cons_nonbios h _ _ st rfl, asmRegions_cons_nonbios h _ _ st rfl, ih k st hk]
        cases Uefi.asmRegions h rs st with
        | error e => rfl
        | ok p => simp only [emap, setGrown_cons_succ]
      | raw a c d =>
        rw [asmRegions_cons_nonbios h _ _ st rfl, asmRegions_cons_nonbios h _ _ st rfl, ih k st hk]
        cases Uefi.asmRegions h rs st with
        | error e => rfl
        | ok p => simp only [emap, setGrown_cons_succ]

/-- what Assemble keeps of every node: its kind, its FlashRegion, its type -/
def skel (r : Uefi.Region) : Bool × Bool × Option Uefi.FlashRegion × Int := (isME r, isBIOS r, r.fr, r.rtype)

theorem asmBios_fr (h : Uefi.Hooks) (b b' : Uefi.BiosRegion) (st st' : Uefi.St) (hr : Uefi.asmBios h b st = .ok (b', st')) :
    b'.fr = b.fr ∧ b'.length = b.length := by
  unfold Uefi.asmBios at hr
  split at hr
  · cases hr
  · split at hr
    · cases hr
    · split at hr
      · cases hr
      · simp only [] at hr
        split at hr
        · cases hr
        · cases hr; exact ⟨rfl, rfl⟩

theorem asmRegions_skel (h : Uefi.Hooks) (rs rs1 : List Uefi.Region) (st st1 : Uefi.St)
    (hr : Uefi.asmRegions h rs st = .ok (rs1, st1)) :
    rs1.map skel = rs.map skel ∧ ∀ (k : Nat) (r : Uefi.Region), rs[k]? = some r → isBIOS r = false → rs1[k]? = some r := by
  induction rs generalizing rs1 st with
  | nil => simp only [Uefi.asmRegions] at hr; cases hr; exact ⟨rfl, fun k r hk => by simp at hk⟩
  | cons r rs ih =>
    cases hrb : isBIOS r with
    | false =>
      rw [asmRegions_cons_nonbios h r rs st hrb] at hr
      cases hrs : Uefi.asmRegions h rs st with
      | error e => rw [hrs] at hr; cases hr
      | ok p =>
        obtain ⟨rs2, st2⟩ := p
        rw [hrs] at hr; simp only [emap] at hr; cases hr
        obtain ⟨a, c⟩ := ih rs2 st hrs
        refine ⟨by simp [a], ?_⟩
        intro k x hk hx
        cases k with
        | zero => simpa using hk
        | succ k => simpa using c k x (by simpa using hk) hx
    | true =>
      cases r with
      | bios b0 =>
        rw [asmRegions_cons_bios] at hr
        cases hb : Uefi.asmBios h b0 st with
        | error e => rw [hb] at hr; cases hr
        | ok q =>
          obtain ⟨b', st'⟩ := q
          rw [hb] at hr
          simp only [] at hr
          cases hrs : Uefi.asmRegions h rs st' with
          | error e => rw [hrs] at hr; cases hr
          | ok p =>
            obtain ⟨rs2, st2⟩ := p
            rw [hrs] at hr; simp only [emap] at hr; cases hr
            obtain ⟨a, c⟩ := ih rs2 st' hrs
            obtain ⟨f1, _⟩ := asmBios_fr h b0 b' st st' hb
            refine ⟨by simp [a, skel, isME, isBIOS, Uefi.Region.fr, Uefi.Region.rtype, f1], ?_⟩
            intro k x hk hx
            cases k with
            | zero =>
              simp only [List.getElem?_cons_zero, Option.some.injEq] at hk
              subst hk; simp [isBIOS] at hx
            | succ k => simpa using c k x (by simpa using hk) hx
      | me a c => simp [isBIOS] at hrb
      | raw a c d => simp [isBIOS] at hrb

/-! ### well-formed shared trees -/

/-- a shared tree whose flash-level abstraction is well-formed and whose nodes carry the table slots
    their pointers alias: what parsing builds, what the edit operations and `tighten_me` keep -/
structure TWF (fpt : Option (List Entry)) (free : Nat) (f : Uefi.Flash) : Prop where
  wf : WF (absFlash fpt free f)
  al : Aliased f

theorem frOf_abs (fpt : Option (List Entry)) (free : Nat) (f : Uefi.Flash) (al : Aliased f) (r : Uefi.Region)
    (hr : r ∈ f.regions) :
    ∃ fr, r.fr = some fr ∧ frOf (absDesc f.ifd).regs (absRegion fpt free r) = .ok (absFR fr) := by
  cases r with
  | bios b =>
    obtain ⟨fr, h1, h2⟩ := al.bios b hr
    exact ⟨fr, h1, by simp only [absDesc, frOf, absRegion, List.getElem?_map, h2, Option.map_some]⟩
  | me buf fr =>
    have h2 := al.me buf fr hr
    exact ⟨fr, rfl, by simp only [absDesc, frOf, absRegion, List.getElem?_map, h2, Option.map_some]⟩
  | raw buf fr t =>
    refine ⟨fr, rfl, ?_⟩
    by_cases ht : t = -1
    · simp only [frOf, absRegion, ht, if_true]
    · obtain ⟨_, h2⟩ := al.raw buf fr t hr ht
      simp only [absDesc, frOf, absRegion, ht, if_false, List.getElem?_map, h2, Option.map_some]

theorem baseKey_abs (fpt : Option (List Entry)) (free : Nat) (f : Uefi.Flash) (al : Aliased f) (r : Uefi.Region)
    (hr : r ∈ f.regions) : baseKey (absDesc f.ifd).regs (absRegion fpt free r) = baseOf r := by
  obtain ⟨fr, h1, h2⟩ := frOf_abs fpt free f al r hr
  simp only [baseKey, h2, baseOf, h1, Option.map_some, Option.getD_some, absFR]

/-! ### the descriptor -/

theorem encodeRegions_abs (regs : List Uefi.FlashRegion) : Uefi.encodeRegions regs = encodeRegs (regs.map absFR) := by
  induction regs with
  | nil => rfl
  | cons r rs ih =>
    simp only [Uefi.encodeRegions, ih, encodeRegs, List.map_cons, List.flatMap_cons, absFR, List.append_assoc]

/-- the FlashDescriptor case of Assemble writes what the flash-level `asmDesc` writes -/
theorem asmDescriptor_abs (d : Uefi.Descriptor) (g : (absDesc d).Geom) :
    Uefi.asmDescriptor d = .ok { d with buf := asmDesc (absDesc d) } := by
  have g1 := g.bufLen; have g2 := g.dmapLen; have g3 := g.masterLen; have g4 := g.regsLen
  have g5 := g.mapIn; have g6 := g.regionIn; have g7 := g.masterIn
  simp only [absDesc, descLen, mapSize, masterSize, regionSectionSize, nRegions, List.length_map] at g1 g2 g3 g4 g5 g6 g7
  have hreg : (leN 2 d.region.eraseSize ++ Uefi.encodeRegions d.region.regions).length = 62 := by
    rw [encodeRegions_abs, List.length_append, leN_length, encodeRegs_length, List.length_map, g4]
  unfold Uefi.asmDescriptor
  have c : ¬ (d.mapStart + 16 > d.buf.length ∨ d.regionStart + 64 > d.buf.length ∨ d.masterStart + 12 > d.buf.length) := by
    omega
  simp only [c, if_false]
  rw [List.take_of_length_le (by rw [List.length_map, g2]; exact Nat.le_refl _),
    List.take_of_length_le (by rw [hreg]; exact Nat.le_refl _),
    List.take_of_length_le (by rw [g3]; exact Nat.le_refl _)]
  simp only [asmDesc, absDesc, encodeRegionTail, encodeRegions_abs]

/-! ### re-pointing, sorting, tiling -/

theorem setFr_self (r : Uefi.Region) (fr : Uefi.FlashRegion) (h : r.fr = some fr) : r.setFr fr = r := by
  cases r with
  | bios b =>
    simp only [Uefi.Region.fr] at h
    simp only [Uefi.Region.setFr, ← h]
  | me buf f =>
    simp only [Uefi.Region.fr, Option.some.injEq] at h
    simp only [Uefi.Region.setFr, h]
  | raw buf f t =>
    simp only [Uefi.Region.fr, Option.some.injEq] at h
    simp only [Uefi.Region.setFr, h]

theorem aliased_slot (f : Uefi.Flash) (al : Aliased f) (r : Uefi.Region) (hr : r ∈ f.regions) :
    ∃ fr, r.fr = some fr ∧ (r.rtype = -1 ∨ f.ifd.region.regions[r.rtype.toNat]? = some fr) := by
  cases r with
  | bios b =>
    obtain ⟨fr, h1, h2⟩ := al.bios b hr
    exact ⟨fr, h1, Or.inr h2⟩
  | me buf fr => exact ⟨fr, rfl, Or.inr (al.me buf fr hr)⟩
  | raw buf fr t =>
    by_cases ht : t = -1
    · exact ⟨fr, rfl, Or.inl ht⟩
    · exact ⟨fr, rfl, Or.inr (al.raw buf fr t hr ht).2⟩

/-- Assemble's "point FlashRegion to struct read from IFD" changes nothing on an aliased tree -/
theorem repoint_id (f : Uefi.Flash) (al : Aliased f) (nr : Nat) (r r1 : Uefi.Region) (hr : r ∈ f.regions)
    (hs : skel r1 = skel r) : Uefi.repoint f.ifd.region.regions nr r1 = r1 := by
  obtain ⟨fr, h1, h2⟩ := aliased_slot f al r hr
  simp only [skel, Prod.mk.injEq] at hs
  obtain ⟨_, _, hfr, hty⟩ := hs
  rw [← hfr] at h1
  rw [← hty] at h2
  unfold Uefi.repoint
  simp only []
  split
  · rfl
  · split
    · rfl
    · split
      · rfl
      · rename_i hne _ _
        rcases h2 with h2 | h2
        · exact absurd h2 hne
        · rw [h2]; exact setFr_self r1 fr h1

theorem baseOf_skel (r r1 : Uefi.Region) (hs : skel r1 = skel r) : baseOf r1 = baseOf r := by
  simp only [skel, Prod.mk.injEq] at hs
  simp only [baseOf, hs.2.2.1]

/-- in list order the FlashRegions the nodes carry tile `[off, size)` -/
def FrChain : Nat → List (Option Uefi.FlashRegion) → Nat → Prop
  | off, [], size => off = size
  | off, some fr :: rest, size => fr.baseOffset = off ∧ FrChain fr.endOffset rest size
  | _, none :: _, _ => False

theorem frChain_of_chain (fpt : Option (List Entry)) (free : Nat) (regs : List FRegion) (rs : List Uefi.Region)
    (hfr : ∀ r ∈ rs, ∃ fr, r.fr = some fr ∧ frOf regs (absRegion fpt free r) = .ok (absFR fr)) (off size : Nat)
    (hc : Chain regs off (rs.map (absRegion fpt free)) size) : FrChain off (rs.map Uefi.Region.fr) size := by
  induction rs generalizing off with
  | nil => exact hc
  | cons r rs ih =>
    obtain ⟨fr, h1, h2⟩ := hfr r List.mem_cons_self
    simp only [List.map_cons, Chain] at hc
    obtain ⟨fr', e1, e2, _, _, e5⟩ := hc
    rw [h2] at e1; injection e1 with e1; subst e1
    simp only [List.map_cons, h1, FrChain]
    exact ⟨e2, ih (fun x hx => hfr x (List.mem_cons_of_mem _ hx)) _ e5⟩

theorem tileRegions_chain (rs : List Uefi.Region) (off size : Nat) (acc : Bytes)
    (hc : FrChain off (rs.map Uefi.Region.fr) size) :
    Uefi.tileRegions rs off acc = .ok (acc ++ (rs.map Uefi.Region.buf).flatten, size) := by
  induction rs generalizing off acc with
  | nil => simp only [List.map_nil, FrChain] at hc; simp [Uefi.tileRegions, hc]
  | cons r rs ih =>
    simp only [List.map_cons] at hc
    cases hfr : r.fr with
    | none => rw [hfr] at hc; exact absurd hc (by simp [FrChain])
    | some fr =>
      rw [hfr] at hc
      simp only [FrChain] at hc
      obtain ⟨hb, hrest⟩ := hc
      rw [Uefi.tileRegions, hfr]
      simp only []
      have c1 : ¬ fr.baseOffset < off := by omega
      have c2 : ¬ fr.baseOffset > off := by omega
      simp only [c1, c2, if_false]
      rw [ih _ _ hrest]
      simp only [List.map_cons, List.flatten_cons, List.append_assoc]

theorem valid_abs (fr : Uefi.FlashRegion) : (absFR fr).valid = fr.valid := by
  simp only [FRegion.valid, Uefi.FlashRegion.valid, absFR]
  rfl

/-- **What Assemble returns on a well-formed shared tree**: the regenerated descriptor followed by
    the buffers of the assembled regions, in list order. -/
theorem asmFlashT_twf (h : Uefi.Hooks) (fpt : Option (List Entry)) (free : Nat) (f : Uefi.Flash) (st : Uefi.St)
    (w : TWF fpt free f) :
    asmFlashT h f st =
      match Uefi.asmRegions h f.regions st with
      | .error e => .error e
      | .ok (rs1, st1) =>
        if biosSlotValid (absFlash fpt free f) then
          .ok ({ f with buf := asmDesc (absDesc f.ifd) ++ (rs1.map Uefi.Region.buf).flatten,
                        ifd := { f.ifd with buf := asmDesc (absDesc f.ifd) }, regions := rs1 }, st1)
        else .error .err := by
  unfold asmFlashT
  rw [asmDescriptor_abs f.ifd w.wf.geom]
  simp only []
  cases hrs : Uefi.asmRegions h f.regions st with
  | error e => rfl
  | ok p =>
    obtain ⟨rs1, st1⟩ := p
    simp only []
    obtain ⟨hskel, _⟩ := asmRegions_skel h f.regions rs1 st st1 hrs
    obtain ⟨r0, r1, rest, hr⟩ := regs_two (absFlash fpt free f).desc.regs w.wf.geom.regsLen
    -- the table head
    have htbl : ∃ t0 tl, f.ifd.region.regions = t0 :: tl ∧ absFR t0 = r0 := by
      simp only [absFlash, absDesc] at hr
      cases hreg : f.ifd.region.regions with
      | nil => rw [hreg] at hr; simp at hr
      | cons t0 tl => rw [hreg] at hr; simp only [List.map_cons, List.cons.injEq] at hr; exact ⟨t0, tl, rfl, hr.1⟩
    obtain ⟨t0, tl, htl, ht0⟩ := htbl
    rw [htl]
    simp only []
    have hv : biosSlotValid (absFlash fpt free f) = t0.valid := by
      simp only [biosSlotValid, hr, ← ht0, valid_abs]
    rw [hv]
    cases hval : t0.valid with
    | false => simp
    | true =>
      simp only [if_false, if_true, not_true_eq_false]
      -- every assembled node has the skeleton of a node of `f`
      have hmem : ∀ r1 ∈ rs1, ∃ r ∈ f.regions, skel r1 = skel r := by
        intro x hx
        obtain ⟨k, hk⟩ := List.getElem?_of_mem hx
        have : (rs1.map skel)[k]? = some (skel x) := by simp [hk]
        rw [hskel] at this
        simp only [List.getElem?_map, Option.map_eq_some_iff] at this
        obtain ⟨r, h1, h2⟩ := this
        exact ⟨r, List.mem_of_getElem? h1, h2.symm⟩
      have hrep : rs1.map (Uefi.repoint (t0 :: tl) f.ifd.map.numberOfRegions) = rs1 := by
        conv => rhs; rw [← List.map_id rs1]
        apply List.map_congr_left
        intro x hx
        obtain ⟨r, hr', hs⟩ := hmem x hx
        rw [← htl]
        exact repoint_id f w.al _ r x hr' hs
      rw [hrep]
      -- sorted already
      have hkeys : rs1.map baseOf = f.regions.map baseOf := by
        have : ∀ (l1 l2 : List Uefi.Region), l1.map skel = l2.map skel → l1.map baseOf = l2.map baseOf := by
          intro l1
          induction l1 with
          | nil => intro l2 h; cases l2 with
            | nil => rfl
            | cons _ _ => simp at h
          | cons x xs ih =>
            intro l2 h
            cases l2 with
            | nil => simp at h
            | cons y ys =>
              simp only [List.map_cons, List.cons.injEq] at h ⊢
              exact ⟨baseOf_skel y x h.1, ih ys h.2⟩
        exact this _ _ hskel
      have hsorted0 : f.regions.Pairwise (fun a b => baseOf a ≤ baseOf b) := by
        have := chain_sorted _ _ _ _ w.wf.chain
        simp only [absFlash] at this
        rw [List.pairwise_map] at this
        exact this.imp_of_mem (fun {a b} ha hb hab => by
          rw [baseKey_abs fpt free f w.al a ha, baseKey_abs fpt free f w.al b hb] at hab; exact hab)
      have hsorted : rs1.Pairwise (fun a b => baseOf a ≤ baseOf b) := by
        have h1 : (f.regions.map baseOf).Pairwise (· ≤ ·) := by rw [List.pairwise_map]; exact hsorted0
        rw [← hkeys, List.pairwise_map] at h1
        exact h1
      rw [isort_sorted baseOf rs1 hsorted]
      -- the extents tile
      have hfrs : rs1.map Uefi.Region.fr = f.regions.map Uefi.Region.fr := by
        have : ∀ (l1 l2 : List Uefi.Region), l1.map skel = l2.map skel → l1.map Uefi.Region.fr = l2.map Uefi.Region.fr := by
          intro l1
          induction l1 with
          | nil => intro l2 h; cases l2 with
            | nil => rfl
            | cons _ _ => simp at h
          | cons x xs ih =>
            intro l2 h
            cases l2 with
            | nil => simp at h
            | cons y ys =>
              simp only [List.map_cons, List.cons.injEq] at h ⊢
              refine ⟨?_, ih ys h.2⟩
              have := h.1
              simp only [skel, Prod.mk.injEq] at this
              exact this.2.2.1
        exact this _ _ hskel
      have hchain : FrChain 4096 (rs1.map Uefi.Region.fr) f.flashSize := by
        rw [hfrs]
        exact frChain_of_chain fpt free _ f.regions (fun r hr' => frOf_abs fpt free f w.al r hr') _ _ w.wf.chain
      rw [tileRegions_chain rs1 4096 f.flashSize _ hchain]
      simp only [ne_eq, not_true_eq_false, if_false]

/-! ### `tighten_me` keeps the shared tree well-formed -/

theorem chain_mem_payload (regs : List FRegion) (l : List Region) (off size : Nat) (h : Chain regs off l size)
    (r : Region) (hr : r ∈ l) (fr : FRegion) (hfr : frOf regs r = .ok fr) :
    (payload r).length = fr.endOff - fr.baseOff ∧ fr.baseOff ≤ fr.endOff := by
  induction l generalizing off with
  | nil => cases hr
  | cons x xs ih =>
    obtain ⟨fx, h1, _, h3, h4, h5⟩ := h
    rcases List.mem_cons.mp hr with rfl | hr
    · rw [hfr] at h1; injection h1 with h1; subst h1
      exact ⟨h4, h3⟩
    · exact ih _ h5 hr

theorem mem_set1 {α} (l : List α) (k : Nat) (x y : α) (h : y ∈ l.set k x) : y = x ∨ y ∈ l := by
  rcases List.mem_or_eq_of_mem_set h with h | h
  · exact Or.inr h
  · exact Or.inl h

theorem mem_set2 {α} (l : List α) (i j : Nat) (x y z : α) (h : z ∈ (l.set i x).set j y) : z = y ∨ z = x ∨ z ∈ l := by
  rcases mem_set1 _ _ _ _ h with h | h
  · exact Or.inl h
  · rcases mem_set1 _ _ _ _ h with h | h
    · exact Or.inr (Or.inl h)
    · exact Or.inr (Or.inr h)

theorem setAt_get_other (tbl : List Uefi.FlashRegion) (lim ub k : Nat) (hk : 2 ≤ k) :
    (setBaseAt (setLimitAt tbl 1 lim) 0 ub)[k]? = tbl[k]? := by
  unfold setBaseAt setLimitAt
  cases h1 : tbl[1]? with
  | none =>
    simp only []
    cases h0 : tbl[0]? with
    | none => rfl
    | some a => simp only []; rw [List.getElem?_set_ne (by omega)]
  | some a =>
    simp only []
    cases h0 : (tbl.set 1 { a with limit := lim })[0]? with
    | none => simp only []; rw [List.getElem?_set_ne (by omega)]
    | some c => simp only []; rw [List.getElem?_set_ne (by omega), List.getElem?_set_ne (by omega)]

theorem setAt_get_one (tbl : List Uefi.FlashRegion) (lim ub : Nat) (a : Uefi.FlashRegion) (h1 : tbl[1]? = some a) :
    (setBaseAt (setLimitAt tbl 1 lim) 0 ub)[1]? = some { a with limit := lim } := by
  have hlen : 1 < tbl.length := (List.getElem?_eq_some_iff.mp h1).1
  unfold setBaseAt setLimitAt
  simp only [h1]
  cases h0 : (tbl.set 1 { a with limit := lim })[0]? with
  | none => simp only []; rw [List.getElem?_set_self hlen]
  | some c => simp only []; rw [List.getElem?_set_ne (by omega), List.getElem?_set_self hlen]

theorem setAt_get_zero (tbl : List Uefi.FlashRegion) (lim ub : Nat) (a : Uefi.FlashRegion) (h0 : tbl[0]? = some a) :
    (setBaseAt (setLimitAt tbl 1 lim) 0 ub)[0]? = some { a with base := ub } := by
  have hlen : 0 < tbl.length := (List.getElem?_eq_some_iff.mp h0).1
  unfold setBaseAt setLimitAt
  cases h1 : tbl[1]? with
  | none => simp only [h0]; rw [List.getElem?_set_self hlen]
  | some c =>
    simp only []
    rw [List.getElem?_set_ne (by omega), h0]
    simp only []
    rw [List.getElem?_set_self (by rw [List.length_set]; exact hlen)]

/-- the numbers of `process` on a well-formed tree: the BIOS node comes right behind the ME node, the
    offset shift is the size of the cut-off tail, and nothing wraps -/
theorem tighten_numbers (fpt : Option (List Entry)) (free pol : Nat) (f f' : Uefi.Flash) (w : TWF fpt free f)
    (i j : Nat) (mbuf : Bytes) (mfr : Uefi.FlashRegion) (b : Uefi.BiosRegion) (bfr : Uefi.FlashRegion)
    (t : Tightens free pol f f' i j mbuf mfr b bfr) :
    j = i + 1 ∧
    (mbuf.drop (bufOffset mfr.baseOffset free)).length = u64 (bfr.baseOffset + 2 ^ 64 - updateOffset mfr.baseOffset free) ∧
    b.length + u64 (bfr.baseOffset + 2 ^ 64 - updateOffset mfr.baseOffset free) < 2 ^ 64 := by
  obtain ⟨hi, hj, hme, hbios, hfr, hadj, hin, her, hres⟩ := t
  have wf := w.wf
  have hmem_me := List.mem_of_getElem? hme
  have hmem_b := List.mem_of_getElem? hbios
  have a1 := w.al.me mbuf mfr hmem_me
  obtain ⟨bfr', hb', a0⟩ := w.al.bios b hmem_b
  rw [hfr] at hb'; cases hb'
  -- the abstract nodes
  have hami : (absFlash fpt free f).regions[i]? = some (absRegion fpt free (.me mbuf mfr)) := by
    simp only [absFlash, List.getElem?_map, hme, Option.map_some]
  have hamj : (absFlash fpt free f).regions[j]? = some (absRegion fpt free (.bios b)) := by
    simp only [absFlash, List.getElem?_map, hbios, Option.map_some]
  have hfm : frOf (absFlash fpt free f).desc.regs (absRegion fpt free (.me mbuf mfr)) = .ok (absFR mfr) := by
    simp only [absFlash, absDesc, frOf, absRegion, List.getElem?_map, a1, Option.map_some]
  have hfb : frOf (absFlash fpt free f).desc.regs (absRegion fpt free (.bios b)) = .ok (absFR bfr) := by
    simp only [absFlash, absDesc, frOf, absRegion, List.getElem?_map, a0, Option.map_some]
  have hne : i ≠ j := by
    intro e; subst e; rw [hme] at hbios; cases hbios
  have hpos : ∀ (k : Nat) (x : Region), k ≠ i → (absFlash fpt free f).regions[k]? = some x →
      ∀ fx, frOf (absFlash fpt free f).desc.regs x = .ok fx → fx.baseOff < fx.endOff := by
    intro k x hk hx fx hfx
    apply wf.pos x (List.mem_of_getElem? hx) _ fx hfx
    cases hxm : x.body.isME with
    | false => rfl
    | true => exact absurd (wf.oneME k i x _ hx hami hxm rfl) hk
  have hj' := adjacent_of_chain _ _ _ _ i j _ _ _ _ wf.chain hami hamj hfm hfb hpos hne
    (by rw [endOff_abs, baseOff_abs]; exact hadj)
  -- sizes
  obtain ⟨hplm, hlem⟩ := chain_mem_payload _ _ _ _ wf.chain _ (List.mem_of_getElem? hami) _ hfm
  obtain ⟨hplb, hleb⟩ := chain_mem_payload _ _ _ _ wf.chain _ (List.mem_of_getElem? hamj) _ hfb
  have hrm := chain_mem_range _ _ _ _ wf.chain _ (List.mem_of_getElem? hamj) _ hfb
  have hbl := wf.bios _ (List.mem_of_getElem? hamj) b.length (b.elems.map absElem) rfl
  have hf33 := (wf.me _ (List.mem_of_getElem? hami) fpt free rfl).2
  have hum := wf.u16 (absFR mfr) (by
    simp only [absFlash, absDesc]; exact List.mem_map.mpr ⟨mfr, List.mem_of_getElem? a1, rfl⟩)
  have hub := wf.u16 (absFR bfr) (by
    simp only [absFlash, absDesc]; exact List.mem_map.mpr ⟨bfr, List.mem_of_getElem? a0, rfl⟩)
  simp only [payload, absRegion, absFR, FRegion.baseOff, FRegion.endOff, blockSize] at hplm hlem hplb hleb hum hub
  simp only [Uefi.FlashRegion.baseOffset, Uefi.FlashRegion.endOffset] at hadj hin ⊢
  have hnw : mfr.base * 4096 + free + blockSize < 2 ^ 64 := by simp only [blockSize]; omega
  have huo := updateOffset_eq (mfr.base * 4096) free hnw
  have hbo := bufOffset_eq (mfr.base * 4096) free hnw
  rw [hbo] at hin
  rw [hbo, huo, List.length_drop]
  have hsh : u64 (bfr.base * 4096 + 2 ^ 64 - (mfr.base * 4096 + free + 4095) / 4096 * 4096) =
      bfr.base * 4096 - (mfr.base * 4096 + free + 4095) / 4096 * 4096 := by
    unfold u64
    have : bfr.base * 4096 + 2 ^ 64 - (mfr.base * 4096 + free + 4095) / 4096 * 4096 =
        (bfr.base * 4096 - (mfr.base * 4096 + free + 4095) / 4096 * 4096) + 2 ^ 64 := by omega
    rw [this, Nat.add_mod_right, Nat.mod_eq_of_lt (by omega)]
  rw [hsh]
  refine ⟨hj', by omega, ?_⟩
  rw [hbl, hplb]
  omega

/-- **`tighten_me` keeps a shared tree well-formed**, pointer aliasing included -/
theorem twf_tighten (fpt : Option (List Entry)) (free pol : Nat) (f f' : Uefi.Flash) (w : TWF fpt free f)
    (h : tightenFlash free pol f = .ok f') : TWF fpt free f' := by
  have hsim := tighten_sim fpt free pol f f' w.al h
  refine ⟨wf_tighten pol _ _ w.wf hsim, ?_⟩
  obtain ⟨i, j, mbuf, mfr, b, bfr, hi, hj, hme, hbios, hfr, hadj, hin, her, hres⟩ := tightenFlash_inv free pol f f' h
  have wf := w.wf
  have a1 := w.al.me mbuf mfr (List.mem_of_getElem? hme)
  obtain ⟨bfr', hb', a0⟩ := w.al.bios b (List.mem_of_getElem? hbios)
  rw [hfr] at hb'; cases hb'
  have hami : (absFlash fpt free f).regions[i]? = some (absRegion fpt free (.me mbuf mfr)) := by
    simp only [absFlash, List.getElem?_map, hme, Option.map_some]
  have hamj : (absFlash fpt free f).regions[j]? = some (absRegion fpt free (.bios b)) := by
    simp only [absFlash, List.getElem?_map, hbios, Option.map_some]
  have hilt := (List.getElem?_eq_some_iff.mp hme).1
  have hjlt := (List.getElem?_eq_some_iff.mp hbios).1
  have hne : i ≠ j := by
    intro e; subst e; rw [hme] at hbios; cases hbios
  -- a node of `f` at another position is neither an ME nor a BIOS node
  have hother : ∀ (k : Nat) (r : Uefi.Region), f.regions[k]? = some r → k ≠ i → k ≠ j → isME r = false ∧ isBIOS r = false := by
    intro k r hk n1 n2
    have hak : (absFlash fpt free f).regions[k]? = some (absRegion fpt free r) := by
      simp only [absFlash, List.getElem?_map, hk, Option.map_some]
    constructor
    · cases hm : isME r with
      | false => rfl
      | true => exact absurd (wf.oneME k i _ _ hak hami (by rw [absRegion_isME]; exact hm) rfl) n1
    · cases hm : isBIOS r with
      | false => rfl
      | true => exact absurd (wf.oneBIOS k j _ _ hak hamj (by rw [absRegion_isBIOS]; exact hm) rfl) n2
  generalize bufOffset mfr.baseOffset free = bo at hres
  generalize u16 (u64 (updateBase mfr.baseOffset free + 2 ^ 64 - 1)) = lim at hres
  generalize u16 (updateBase mfr.baseOffset free) = ub at hres
  generalize u64 (bfr.baseOffset + 2 ^ 64 - updateOffset mfr.baseOffset free) = shift at hres
  subst hres
  -- the nodes of the result, by position
  have hget : ∀ (k : Nat) (z : Uefi.Region), (tightened f i j mbuf mfr b bfr bo lim ub shift).regions[k]? = some z →
      (k = j ∧ z = .bios (growBios (mbuf.drop bo) shift ub bfr b)) ∨
      (k = i ∧ z = .me (mbuf.take bo) { mfr with limit := lim }) ∨
      (k ≠ i ∧ k ≠ j ∧ f.regions[k]? = some z) := by
    intro k z hk
    rw [tightened_regions] at hk
    by_cases hkj : k = j
    · subst hkj
      rw [List.getElem?_set_self (by rw [List.length_set]; exact hjlt)] at hk
      exact Or.inl ⟨rfl, (Option.some.inj hk).symm⟩
    · rw [List.getElem?_set_ne (Ne.symm hkj)] at hk
      by_cases hki : k = i
      · subst hki
        rw [List.getElem?_set_self hilt] at hk
        exact Or.inr (Or.inl ⟨rfl, (Option.some.inj hk).symm⟩)
      · rw [List.getElem?_set_ne (Ne.symm hki)] at hk
        exact Or.inr (Or.inr ⟨hki, hkj, hk⟩)
  constructor
  · intro buf fr hmem
    obtain ⟨k, hk⟩ := List.getElem?_of_mem hmem
    show (setBaseAt (setLimitAt f.ifd.region.regions 1 lim) 0 ub)[1]? = some fr
    rcases hget k _ hk with ⟨_, e⟩ | ⟨_, e⟩ | ⟨n1, n2, hk'⟩
    · cases e
    · injection e with e1 e2
      rw [e2]; exact setAt_get_one _ _ _ _ a1
    · have := (hother k _ hk' n1 n2).1
      simp [isME] at this
  · intro b2 hmem
    obtain ⟨k, hk⟩ := List.getElem?_of_mem hmem
    show ∃ fr, b2.fr = some fr ∧ (setBaseAt (setLimitAt f.ifd.region.regions 1 lim) 0 ub)[0]? = some fr
    rcases hget k _ hk with ⟨_, e⟩ | ⟨_, e⟩ | ⟨n1, n2, hk'⟩
    · injection e with e
      subst e
      exact ⟨{ bfr with base := ub }, rfl, setAt_get_zero _ _ _ _ a0⟩
    · cases e
    · have := (hother k _ hk' n1 n2).2
      simp [isBIOS] at this
  · intro buf fr t hmem ht
    obtain ⟨k, hk⟩ := List.getElem?_of_mem hmem
    show 0 ≤ t ∧ (setBaseAt (setLimitAt f.ifd.region.regions 1 lim) 0 ub)[t.toNat]? = some fr
    rcases hget k _ hk with ⟨_, e⟩ | ⟨_, e⟩ | ⟨n1, n2, hk'⟩
    · cases e
    · cases e
    · have hmem0 := List.mem_of_getElem? hk'
      obtain ⟨h0, h1⟩ := w.al.raw buf fr t hmem0 ht
      refine ⟨h0, ?_⟩
      -- a raw node's slot is not one of the two rewritten ones
      have h2 : 2 ≤ t.toNat := by
        have := wf.rawRef (absRegion fpt free (.raw buf fr t))
          (by simp only [absFlash]; exact List.mem_map.mpr ⟨_, hmem0, rfl⟩) rfl t.toNat
          (by simp only [absRegion, ht, if_false])
        exact this
      rw [setAt_get_other _ _ _ _ h2]; exact h1

/-! ### the frame at the level of the written image -/

theorem flatten_set_two (l : List Uefi.Region) (i : Nat) (x y x' y' : Uefi.Region)
    (hx : l[i]? = some x) (hy : l[i + 1]? = some y) (hb : x'.buf ++ y'.buf = x.buf ++ y.buf) :
    (((l.set i x').set (i + 1) y').map Uefi.Region.buf).flatten = (l.map Uefi.Region.buf).flatten := by
  obtain ⟨hsplit, hlen⟩ := split_at_two l i x y hx hy
  generalize l.take i = pre at hsplit hlen
  generalize l.drop (i + 2) = post at hsplit
  have := set_two pre post x y x' y'
  rw [hlen, ← hsplit] at this
  rw [this, hsplit]
  simp only [List.map_append, List.map_cons, List.flatten_append, List.flatten_cons]
  rw [← List.append_assoc x'.buf, hb, List.append_assoc]

/-- the frame for a tree `process` built with the numbers `bo`, `lim`, `ub`, `shift` (kept as
    variables: nothing here looks inside them) -/
theorem save_frame_core (h : Uefi.Hooks) (fpt : Option (List Entry)) (free : Nat) (f f' g : Uefi.Flash)
    (st st1 : Uefi.St) (w : TWF fpt free f) (w' : TWF fpt free f')
    (i : Nat) (mbuf : Bytes) (mfr : Uefi.FlashRegion) (b : Uefi.BiosRegion) (bfr : Uefi.FlashRegion)
    (bo lim ub shift : Nat)
    (hme : f.regions[i]? = some (.me mbuf mfr)) (hbios : f.regions[i + 1]? = some (.bios b))
    (hres : f' = tightened f i (i + 1) mbuf mfr b bfr bo lim ub shift)
    (hshift : (mbuf.drop bo).length = shift) (hnw : b.length + shift < 2 ^ 64)
    (hv' : biosSlotValid (absFlash fpt free f) = true → biosSlotValid (absFlash fpt free f') = true)
    (hs : asmFlashT h f st = .ok (g, st1)) :
    ∃ g', asmFlashT h f' st = .ok (g', st1) ∧ g'.buf.length = g.buf.length ∧
      g'.buf.drop 4096 = g.buf.drop 4096 ∧
      ∀ p, p ≠ f.ifd.regionStart + 4 → p ≠ f.ifd.regionStart + 5 → p ≠ f.ifd.regionStart + 10 →
        p ≠ f.ifd.regionStart + 11 → g'.buf[p]? = g.buf[p]? := by
  rw [asmFlashT_twf h fpt free f st w] at hs
  rw [asmFlashT_twf h fpt free f' st w']
  cases hrs : Uefi.asmRegions h f.regions st with
  | error e => rw [hrs] at hs; cases hs
  | ok p =>
    obtain ⟨rs1, st1'⟩ := p
    rw [hrs] at hs
    simp only [] at hs
    cases hv : biosSlotValid (absFlash fpt free f) with
    | false => rw [hv] at hs; simp at hs
    | true =>
      rw [hv] at hs
      simp only [if_true, Except.ok.injEq, Prod.mk.injEq] at hs
      obtain ⟨hg, hst⟩ := hs
      subst hst
      -- the assembled nodes at `i` and `i + 1`
      obtain ⟨hskel, hkeep⟩ := asmRegions_skel h f.regions rs1 st st1' hrs
      have hme1 := hkeep i _ hme rfl
      have hb1 : ∃ b1, rs1[i + 1]? = some (.bios b1) := by
        have : (rs1.map skel)[i + 1]? = some (skel (.bios b)) := by
          rw [hskel]; simp [hbios]
        simp only [List.getElem?_map, Option.map_eq_some_iff] at this
        obtain ⟨r, h1, h2⟩ := this
        cases r with
        | bios b1 => exact ⟨b1, h1⟩
        | me _ _ => simp [skel, isBIOS] at h2
        | raw _ _ _ => simp [skel, isBIOS] at h2
      obtain ⟨b1, hb1⟩ := hb1
      have hregs' : Uefi.asmRegions h f'.regions st =
          .ok ((rs1.set i (.me (mbuf.take bo) { mfr with limit := lim })).set (i + 1)
            (.bios (grownAsm (mbuf.drop bo) shift ub bfr b1)), st1') := by
        rw [hres, tightened_regions,
          asmRegions_set_grow h _ _ _ _ _ (i + 1) b st (by rw [List.getElem?_set_ne (by omega)]; exact hbios) hshift hnw,
          asmRegions_set_nonbios h f.regions i _ _ st hme rfl rfl, hrs]
        simp only [emap, setGrown]
        rw [List.getElem?_set_ne (by omega), hb1]
      rw [hregs']
      simp only [hv' hv, if_true]
      refine ⟨_, rfl, ?_⟩
      -- the bytes
      have hflat : (((rs1.set i (.me (mbuf.take bo) { mfr with limit := lim })).set (i + 1)
          (.bios (grownAsm (mbuf.drop bo) shift ub bfr b1))).map Uefi.Region.buf).flatten =
          (rs1.map Uefi.Region.buf).flatten := by
        apply flatten_set_two rs1 i _ _ _ _ hme1 hb1
        show mbuf.take bo ++ (mbuf.drop bo ++ b1.buf) = mbuf ++ b1.buf
        rw [← List.append_assoc, List.take_append_drop]
      have hdesc' : absDesc f'.ifd =
          { absDesc f.ifd with regs := setRegBase (setRegLimit (absDesc f.ifd).regs 1 lim) 0 ub } := by
        rw [hres]
        simp only [tightened, absDesc, map_setBaseAt, map_setLimitAt]
      have hl := asmDesc_length _ w.wf.geom
      have hl' := asmDesc_length _ w'.wf.geom
      simp only [absFlash] at hl hl'
      rw [← hg]
      simp only [hflat, List.length_append, hl, hl']
      refine ⟨trivial, ?_, ?_⟩
      · simp only [descLen] at hl hl'
        rw [List.drop_left' hl', List.drop_left' hl]
      · intro p h4 h5 h10 h11
        by_cases hp : p < descLen
        · rw [List.getElem?_append_left (by omega), List.getElem?_append_left (by omega), hdesc']
          exact asmDesc_diff (absDesc f.ifd) w.wf.geom ub lim p ⟨h4, h5, h10, h11⟩
        · rw [List.getElem?_append_right (by omega), List.getElem?_append_right (by omega), hl, hl']

/-- **Frame, tree level, volumes with files.**  On a well-formed shared tree: if the tree can be
    saved, it can be saved after `tighten_me`, with the same process state; the written image has the
    same length, is byte-identical from offset 4096 on — every volume is re-laid exactly as without
    `tighten_me` — and differs inside the descriptor at most in the four bytes of BIOS Base / ME Limit. -/
theorem tree_save_frame (h : Uefi.Hooks) (fpt : Option (List Entry)) (free pol : Nat) (f f' g : Uefi.Flash)
    (st st1 : Uefi.St) (w : TWF fpt free f) (ht : tightenFlash free pol f = .ok f')
    (hs : asmFlashT h f st = .ok (g, st1)) :
    ∃ g', asmFlashT h f' st = .ok (g', st1) ∧ g'.buf.length = g.buf.length ∧
      g'.buf.drop 4096 = g.buf.drop 4096 ∧
      ∀ p, p ≠ f.ifd.regionStart + 4 → p ≠ f.ifd.regionStart + 5 → p ≠ f.ifd.regionStart + 10 →
        p ≠ f.ifd.regionStart + 11 → g'.buf[p]? = g.buf[p]? := by
  have w' := twf_tighten fpt free pol f f' w ht
  have hsim := tighten_sim fpt free pol f f' w.al ht
  obtain ⟨i, j, mbuf, mfr, b, bfr, t⟩ := tightenFlash_inv free pol f f' ht
  obtain ⟨hj1, hshift, hnw⟩ := tighten_numbers fpt free pol f f' w i j mbuf mfr b bfr t
  obtain ⟨hi, hj, hme, hbios, hfr, hadj, hin, her, hres⟩ := t
  subst hj1
  exact save_frame_core h fpt free f f' g st st1 w w' i mbuf mfr b bfr _ _ _ _ hme hbios hres hshift hnw
    (fun hv => biosSlotValid_tighten pol _ _ w.wf hsim hv) hs

/-! ### the edit operations keep the shared tree well-formed -/

theorem rwBiosElems_abs (E : Uefi.Editor) (es es' : List Uefi.BiosElem) (h : Uefi.rwBiosElems E es = .ok es') :
    es'.map absElem = es.map absElem := by
  induction es generalizing es' with
  | nil => simp only [Uefi.rwBiosElems] at h; cases h; rfl
  | cons e es ih =>
    cases e with
    | pad b o =>
      rw [Uefi.rwBiosElems] at h
      split at h
      · cases h
      · rename_i es1 h1
        cases h
        simp only [List.map_cons, ih es1 h1]
    | fv v =>
      obtain ⟨i, buf, files⟩ := v
      rw [Uefi.rwBiosElems] at h
      split at h
      · cases h
      · rename_i v' hv
        split at h
        · cases h
        · rename_i es1 h1
          cases h
          obtain ⟨files', rfl⟩ := rwFv_info E i buf files v' hv
          simp only [List.map_cons, ih es1 h1]
          rfl

theorem rwRegions_abs (E : Uefi.Editor) (fpt : Option (List Entry)) (free : Nat) (rs rs1 : List Uefi.Region)
    (h : Uefi.rwRegions E rs = .ok rs1) : rs1.map (absRegion fpt free) = rs.map (absRegion fpt free) := by
  induction rs generalizing rs1 with
  | nil => simp only [Uefi.rwRegions] at h; cases h; rfl
  | cons r rs ih =>
    cases hrb : isBIOS r with
    | false =>
      rw [rwRegions_cons_nonbios E r rs hrb] at h
      cases hrs : Uefi.rwRegions E rs with
      | error e => rw [hrs] at h; cases h
      | ok rs2 => rw [hrs] at h; cases h; simp only [List.map_cons, ih rs2 hrs]
    | true =>
      cases r with
      | bios b0 =>
        rw [rwRegions_cons_bios] at h
        cases hb : Uefi.rwBios E b0 with
        | error e => rw [hb] at h; cases h
        | ok b' =>
          rw [hb] at h
          simp only [] at h
          cases hrs : Uefi.rwRegions E rs with
          | error e => rw [hrs] at h; cases h
          | ok rs2 =>
            rw [hrs] at h; cases h
            simp only [List.map_cons, ih rs2 hrs, List.cons.injEq, and_true]
            unfold Uefi.rwBios at hb
            split at hb
            · cases hb
            · rename_i es1 he
              cases hb
              simp only [absRegion, rwBiosElems_abs E _ _ he]
      | me a c => simp [isBIOS] at hrb
      | raw a c d => simp [isBIOS] at hrb

/-- **an edit keeps the shared tree well-formed**: its flash-level abstraction does not change at all -/
theorem twf_rw (E : Uefi.Editor) (fpt : Option (List Entry)) (free : Nat) (f : Uefi.Flash) (rs1 : List Uefi.Region)
    (w : TWF fpt free f) (h : Uefi.rwRegions E f.regions = .ok rs1) : TWF fpt free { f with regions := rs1 } := by
  have habs : absFlash fpt free { f with regions := rs1 } = absFlash fpt free f := by
    simp only [absFlash, rwRegions_abs E fpt free _ _ h]
  refine ⟨by rw [habs]; exact w.wf, ?_⟩
  -- every node of the result sits where a node of `f` sat: identical, or the rewritten BIOS node
  have hback : ∀ z ∈ rs1, z ∈ f.regions ∨ ∃ b b', z = .bios b' ∧ .bios b ∈ f.regions ∧ b'.fr = b.fr := by
    intro z hz
    obtain ⟨k, hk⟩ := List.getElem?_of_mem hz
    obtain ⟨g1, g2, g3⟩ := rwRegions_get E _ _ h k
    cases hf : f.regions[k]? with
    | none => rw [g3 hf] at hk; cases hk
    | some r =>
      cases hrb : isBIOS r with
      | false =>
        rw [g1 r hf hrb] at hk; cases hk
        exact Or.inl (List.mem_of_getElem? hf)
      | true =>
        cases r with
        | bios b =>
          obtain ⟨b', h1, h2⟩ := g2 b hf
          rw [h1] at hk; cases hk
          exact Or.inr ⟨b, b', rfl, List.mem_of_getElem? hf, (rwBios_fields E b b' h2).1⟩
        | me _ _ => simp [isBIOS] at hrb
        | raw _ _ _ => simp [isBIOS] at hrb
  constructor
  · intro buf fr hm
    rcases hback _ hm with h0 | ⟨b, b', e, _, _⟩
    · exact w.al.me buf fr h0
    · cases e
  · intro b2 hm
    rcases hback _ hm with h0 | ⟨b, b', e, hb, hfr⟩
    · exact w.al.bios b2 h0
    · injection e with e; subst e
      obtain ⟨fr, h1, h2⟩ := w.al.bios b hb
      exact ⟨fr, by rw [hfr]; exact h1, h2⟩
  · intro buf fr t hm ht
    rcases hback _ hm with h0 | ⟨b, b', e, _, _⟩
    · exact w.al.raw buf fr t h0 ht
    · cases e

end Fiano.TightenMe.T
