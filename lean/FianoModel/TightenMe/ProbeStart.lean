/-
  C12 (wp-c12c, task 2): how the BIOS region re-parses once `tighten_me` has put freed (erased)
  blocks in front of it — the F-C12-probe-start family, characterised.

  `FindFirmwareVolumeOffset` probes `data[32:]`, `data[40:]`, … for `_FVH` and reports the probe
  position minus 40 (a hit at 32 gives −8 = "no volume", quirk Q).  Offsets 0, 8, 16, 24 of the region
  are therefore never probed, and a hit at 32 ends the scan with "none".  After `tighten_me` the region
  is `E ++ X` (E = the freed blocks, erased, a positive multiple of 4096 bytes; X = the old region):
  the probes now reach X's offsets 0 … 32 as well.

  `probeClean X` (decidable, five 4-byte comparisons): none of X's offsets 0, 8, 16, 24, 32 (those the
  loop's length guard admits) shows `_FVH`.

   * `findFv_clean` / `findFv_dirty`: the first volume of `E ++ X` is found at `|E| +` (where it was
     found in X) if `probeClean X`; otherwise it is "found" INSIDE the freed blocks, at
     `|E| − 40 + o` for the first dirty probe `o ≤ 32`.
   * `parseBiosElems_prefix_clean`: if X parses to `es` and `probeClean X`, then `E ++ X` parses to
     `leadMerge E (es shifted by |E|)`: the freed blocks join (or become) the leading padding, every
     volume is the same volume `|E|` further on; same polarity state.
   * `parseBiosElems_prefix_dirty`: if not, whatever `E ++ X` parses to (if it parses at all) starts
     with a padding SHORTER than E followed by a volume that begins inside the freed blocks — never
     the expected elements.
   * `reparse_expected_iff`: so, given that X parses, `E ++ X` parses to the expected elements
     IFF `probeClean X`.
  Core Lean only.
-/
import FianoModel.Uefi.Parse

namespace Fiano.TightenMe.Probe
open Fiano Fiano.Uefi

/-! ### the probe loop -/

/-- all bytes of the run are the same byte (erased flash: 0xFF, or 0x00 with the other polarity) -/
def Uniform (E : Bytes) : Prop := ∃ c, ∀ x ∈ E, x = c

theorem uniform_drop (E : Bytes) (k : Nat) (h : Uniform E) : Uniform (E.drop k) := by
  obtain ⟨c, hc⟩ := h
  exact ⟨c, fun x hx => hc x (List.mem_of_mem_drop hx)⟩

theorem isFvSig_uniform (E X : Bytes) (hu : Uniform E) (hl : 2 ≤ E.length) : isFvSig (E ++ X) = false := by
  obtain ⟨c, hc⟩ := hu
  match E, hl, hc with
  | a :: b :: E2, _, hc =>
    have ha : a = c := hc a (by simp)
    have hb : b = c := hc b (by simp)
    cases h : isFvSig (a :: b :: E2 ++ X) with
    | false => rfl
    | true =>
      exfalso
      unfold isFvSig at h
      split at h
      · rename_i heq
        simp only [List.cons_append, List.cons.injEq] at heq
        obtain ⟨h1, h2, _⟩ := heq
        rw [ha] at h1; rw [hb, h1] at h2
        exact absurd h2 (by decide)
      · cases h

theorem scanSig_nil (fuel off : Nat) : scanSig fuel off [] = none := by
  cases fuel <;> simp [scanSig]

theorem scanSig_ge' : ∀ (fuel off : Nat) (b : Bytes) (o : Nat), scanSig fuel off b = some o → off ≤ o ∧ o < off + 8 * fuel
  | 0, _, _, _, h => by simp [scanSig] at h
  | fuel + 1, off, b, o, h => by
    rw [scanSig] at h
    split at h
    · split at h
      · cases h; omega
      · have := scanSig_ge' fuel (off + 8) _ o h; omega
    · cases h

/-- the probes over an erased run see nothing -/
theorem scanSig_uniform : ∀ (n fuel off : Nat) (E X : Bytes), E.length = 8 * n → Uniform E →
    scanSig (n + fuel) off (E ++ X) = scanSig fuel (off + 8 * n) X
  | 0, fuel, off, E, X, hl, _ => by
    have : E = [] := List.eq_nil_of_length_eq_zero (by omega)
    subst this
    simp
  | n + 1, fuel, off, E, X, hl, hu => by
    have e : n + 1 + fuel = (n + fuel) + 1 := by omega
    rw [e, scanSig]
    have h4 : 4 < (E ++ X).length := by simp only [List.length_append]; omega
    rw [if_pos h4, isFvSig_uniform E X hu (by omega)]
    simp only [Bool.false_eq_true, if_false]
    have hd : (E ++ X).drop 8 = E.drop 8 ++ X := List.drop_append_of_le_length (by omega)
    rw [hd, scanSig_uniform n fuel (off + 8) (E.drop 8) X (by simp only [List.length_drop]; omega) (uniform_drop E 8 hu)]
    congr 1
    omega

/-- with a budget of `len/8 + 1` probes the loop never runs out of fuel -/
theorem scanSig_enough : ∀ (f1 f2 off : Nat) (b : Bytes), b.length / 8 + 1 ≤ f1 → b.length / 8 + 1 ≤ f2 →
    scanSig f1 off b = scanSig f2 off b
  | 0, _, _, _, h1, _ => by omega
  | _ + 1, 0, _, _, _, h2 => by omega
  | f1 + 1, f2 + 1, off, b, h1, h2 => by
    rw [scanSig, scanSig]
    split
    · split
      · rfl
      · by_cases h8 : b.length < 8
        · have : b.drop 8 = [] := List.drop_eq_nil_of_le (by omega)
          rw [this, scanSig_nil, scanSig_nil]
        · exact scanSig_enough f1 f2 (off + 8) (b.drop 8) (by simp only [List.length_drop]; omega)
            (by simp only [List.length_drop]; omega)
    · rfl

theorem scanSig_shift : ∀ (fuel off s : Nat) (b : Bytes), scanSig fuel (off + s) b = (scanSig fuel off b).map (· + s)
  | 0, _, _, _ => rfl
  | fuel + 1, off, s, b => by
    rw [scanSig, scanSig]
    split
    · split
      · rfl
      · have e : off + s + 8 = off + 8 + s := by omega
        rw [e]
        exact scanSig_shift fuel (off + 8) s (b.drop 8)
    · rfl

/-- the first `a` probes, then the rest -/
theorem scanSig_split : ∀ (a f off : Nat) (b : Bytes),
    scanSig (a + f) off b =
      match scanSig a off b with
      | some o => some o
      | none => scanSig f (off + 8 * a) (b.drop (8 * a))
  | 0, f, off, b => by simp [scanSig]
  | a + 1, f, off, b => by
    have e : a + 1 + f = (a + f) + 1 := by omega
    rw [e, scanSig, scanSig]
    by_cases h4 : 4 < b.length
    · rw [if_pos h4, if_pos h4]
      by_cases hs : isFvSig b = true
      · rw [if_pos hs, if_pos hs]
      · rw [if_neg hs, if_neg hs, scanSig_split a f (off + 8) (b.drop 8), List.drop_drop]
        have e1 : off + 8 + 8 * a = off + 8 * (a + 1) := by omega
        have e2 : 8 + 8 * a = 8 * (a + 1) := by omega
        rw [e1, e2]
    · rw [if_neg h4, if_neg h4]
      have : b.drop (8 * (a + 1)) = [] := List.drop_eq_nil_of_le (by omega)
      simp only [this, scanSig_nil]

/-! ### FindFirmwareVolumeOffset on `E ++ X` -/

/-- the freed blocks: erased, a multiple of 8 bytes, at least 48 bytes (in fact a multiple of 4096) -/
structure Freed (E : Bytes) : Prop where
  uni : Uniform E
  len8 : E.length % 8 = 0
  len40 : 48 ≤ E.length

/-- **the decidable predicate**: none of the offsets 0, 8, 16, 24, 32 of `X` (as far as the loop's
    guard `offset + 4 < len` admits them) shows `_FVH`: the probe loop, started at 0, finds nothing
    within five probes -/
def probeClean (X : Bytes) : Bool := (scanSig 5 0 X).isNone

theorem findFv_freed (E X : Bytes) (hE : Freed E) :
    findFvOffset (E ++ X) = (scanSig (X.length / 8 + 1) 0 X).map (· + (E.length - 40)) := by
  obtain ⟨n, hn⟩ : ∃ n, E.length = 8 * n := ⟨E.length / 8, by have := hE.len8; omega⟩
  have h40 := hE.len40
  unfold findFvOffset
  have hl : ¬ (E ++ X).length < 32 := by simp only [List.length_append]; omega
  rw [if_neg hl]
  have hd : (E ++ X).drop 32 = E.drop 32 ++ X := List.drop_append_of_le_length (by omega)
  have hf : (E ++ X).length / 8 + 1 = (n - 4) + (X.length / 8 + 5) := by
    simp only [List.length_append, hn]; omega
  rw [hd, hf, scanSig_uniform (n - 4) _ 32 (E.drop 32) X (by simp only [List.length_drop]; omega) (uniform_drop E 32 hE.uni)]
  rw [scanSig_enough (X.length / 8 + 5) (X.length / 8 + 1) _ X (by omega) (by omega)]
  have e : 32 + 8 * (n - 4) = 0 + E.length := by omega
  rw [e, scanSig_shift]
  cases hs : scanSig (X.length / 8 + 1) 0 X with
  | none => rfl
  | some o =>
    simp only [Option.map_some]
    have : ¬ o + E.length < 40 := by omega
    rw [if_neg this]
    congr 1
    omega

/-- `probeClean`: the volume scan of `E ++ X` finds what the scan of `X` finds, `|E|` further on -/
theorem findFv_clean (E X : Bytes) (hE : Freed E) (hc : probeClean X = true) :
    findFvOffset (E ++ X) = (findFvOffset X).map (· + E.length) := by
  have hc' : scanSig 5 0 X = none := by
    simp only [probeClean, Option.isNone_iff_eq_none] at hc; exact hc
  have h40 := hE.len40
  rw [findFv_freed E X hE]
  -- every hit lies at 40 or later
  have h5 : scanSig (X.length / 8 + 1) 0 X = scanSig (X.length / 8 + 1) 40 (X.drop 40) := by
    rw [scanSig_enough (X.length / 8 + 1) (5 + (X.length / 8 + 1)) 0 X (by omega) (by omega), scanSig_split, hc']
  have h4 : scanSig 4 0 X = none ∧ scanSig 1 32 (X.drop 32) = none := by
    have := scanSig_split 4 1 0 X
    rw [show 4 + 1 = 5 from rfl, hc'] at this
    cases h : scanSig 4 0 X with
    | some o => rw [h] at this; cases this
    | none => rw [h] at this; exact ⟨rfl, this.symm⟩
  unfold findFvOffset
  by_cases hl : X.length < 32
  · rw [if_pos hl, h5]
    have : X.drop 40 = [] := List.drop_eq_nil_of_le (by omega)
    rw [this, scanSig_nil]
    rfl
  · rw [if_neg hl]
    have h32 : scanSig (X.length / 8 + 1) 32 (X.drop 32) = scanSig (X.length / 8 + 1) 40 (X.drop 40) := by
      rw [scanSig_enough (X.length / 8 + 1) (1 + (X.length / 8 + 1)) 32 (X.drop 32)
        (by simp only [List.length_drop]; omega) (by simp only [List.length_drop]; omega), scanSig_split, h4.2, List.drop_drop]
    rw [h32, h5]
    cases hs : scanSig (X.length / 8 + 1) 40 (X.drop 40) with
    | none => rfl
    | some o =>
      have := (scanSig_ge' _ _ _ _ hs).1
      have h : ¬ o < 40 := by omega
      simp only [Option.map_some, h, if_false]
      congr 1
      omega

/-- not `probeClean`: the scan of `E ++ X` stops at the first dirty probe `o ∈ {0, 8, 16, 24, 32}` of
    `X` and reports a volume that starts INSIDE the freed blocks, `40 − o` bytes before their end -/
theorem findFv_dirty (E X : Bytes) (hE : Freed E) (hc : probeClean X = false) :
    ∃ o, scanSig 5 0 X = some o ∧ o ≤ 32 ∧ findFvOffset (E ++ X) = some (E.length - 40 + o) := by
  cases hs : scanSig 5 0 X with
  | none => simp [probeClean, hs] at hc
  | some o =>
    have hb := scanSig_ge' _ _ _ _ hs
    refine ⟨o, rfl, ?_, ?_⟩
    · -- hits are at multiples of 8 below 40; all we need is ≤ 32, shown by splitting off the fifth probe
      have := scanSig_split 4 1 0 X
      rw [show 4 + 1 = 5 from rfl, hs] at this
      cases h4 : scanSig 4 0 X with
      | some o4 =>
        rw [h4] at this
        have := scanSig_ge' _ _ _ _ h4
        simp only [Option.some.injEq] at *
        omega
      | none =>
        rw [h4] at this
        simp only [] at this
        -- a single probe at 32 answers 32
        have h1 := this.symm
        rw [scanSig] at h1
        split at h1
        · split at h1
          · cases h1; omega
          · simp [scanSig] at h1
        · cases h1
    · rw [findFv_freed E X hE,
        scanSig_enough (X.length / 8 + 1) (5 + (X.length / 8 + 1)) 0 X (by omega) (by omega), scanSig_split, hs]
      simp only [Option.map_some]
      congr 1
      omega

/-- when the old region holds a volume at all (which Assemble needs: a BIOS region without a first
    volume is never saved), its probe at 32 was clean — a hit there would have ended the scan with
    "no volume" — so `probeClean` is about the never-probed offsets 0, 8, 16, 24 only -/
theorem probeClean_of_volume (X : Bytes) (off : Nat) (h : findFvOffset X = some off) :
    probeClean X = (scanSig 4 0 X).isNone := by
  have h32 : scanSig 1 32 (X.drop 32) = none := by
    unfold findFvOffset at h
    split at h
    · cases h
    · cases hs : scanSig (X.length / 8 + 1) 32 (X.drop 32) with
      | none => rw [hs] at h; cases h
      | some o =>
        rw [hs] at h
        simp only [] at h
        split at h
        · cases h
        · rename_i h40
          have hsp := scanSig_split 1 (X.length / 8) 32 (X.drop 32)
          rw [Nat.add_comm 1 (X.length / 8), hs] at hsp
          cases h1 : scanSig 1 32 (X.drop 32) with
          | none => rfl
          | some o1 =>
            rw [h1] at hsp
            have := scanSig_ge' _ _ _ _ h1
            simp only [Option.some.injEq] at hsp
            omega
  have hsp := scanSig_split 4 1 0 X
  rw [show 4 + 1 = 5 from rfl] at hsp
  unfold probeClean
  rw [hsp]
  cases h4 : scanSig 4 0 X with
  | some o => rfl
  | none => simp only [h32, Nat.zero_add, Nat.reduceMul]

/-! ### NewFirmwareVolume does not look at the offset it is given -/

/-- the same volume reported at offset `o` -/
def fvAt (o : Nat) : Fv → Fv
  | .mk i b fs => .mk { i with fvOffset := o } b fs

theorem fvAt_length (o : Nat) (v : Fv) : (fvAt o v).info.length = v.info.length := by cases v; rfl

theorem parseFv_off (h : Hooks) (fuel : Nat) (data : Bytes) (o o' : Nat) (rz : Bool) (st : St) :
    parseFv h fuel data o' rz st =
      match parseFv h fuel data o rz st with
      | .error e => .error e
      | .ok (v, st') => .ok (fvAt o' v, st') := by
  cases fuel with
  | zero => simp only [parseFv]
  | succ f =>
    simp only [parseFv]
    by_cases h1 : data.length < 64
    · simp only [h1, if_true]
    · simp only [h1, if_false]
      cases hb : readBlocks (data.drop 56) with
      | error e => simp only []
      | ok blocks =>
        have hi : fvInfoOf data blocks o' rz = { fvInfoOf data blocks o rz with fvOffset := o' } := rfl
        simp only []
        rw [hi]
        generalize fvInfoOf data blocks o rz = I
        simp only []
        clear hi
        split
        · rfl
        · cases hp : setPolarity (polOfAttrs I.attrs) st with
          | error e => simp only []
          | ok st1 =>
            simp only []
            split
            · rfl
            · split
              · cases I; rfl
              · generalize parseFiles h f _ _ _ _ st1 = R
                cases R with
                | error e => rfl
                | ok p => obtain ⟨fs, free, st'⟩ := p; cases I; rfl

theorem fvAt_off (o : Nat) (v : Fv) : (fvAt o v).info.fvOffset = o := by cases v; rfl

theorem parseFv_fvOffset (h : Hooks) (fuel : Nat) (data : Bytes) (o : Nat) (rz : Bool) (st st' : St) (v : Fv)
    (hp : parseFv h fuel data o rz st = .ok (v, st')) : v.info.fvOffset = o := by
  have := parseFv_off h fuel data o o rz st
  rw [hp] at this
  simp only [Except.ok.injEq, Prod.mk.injEq, and_true] at this
  rw [this]
  exact fvAt_off o v

/-! ### the element loop of NewBIOSRegion -/

/-- an element reported `s` bytes further on -/
def shiftE (s : Nat) : BiosElem → BiosElem
  | .pad b o => .pad b (o + s)
  | .fv v => .fv (fvAt (v.info.fvOffset + s) v)

/-- the element loop started at another absolute offset: the same elements, reported there -/
theorem parseBiosElems_abs (h : Hooks) : ∀ (fuel : Nat) (buf : Bytes) (a s : Nat) (st : St),
    parseBiosElems h fuel buf (a + s) st =
      match parseBiosElems h fuel buf a st with
      | .error e => .error e
      | .ok (es, st') => .ok (es.map (shiftE s), st')
  | 0, _, _, _, _ => by simp only [parseBiosElems]
  | f + 1, buf, a, s, st => by
    rw [parseBiosElems, parseBiosElems]
    cases hf : findFvOffset buf with
    | none =>
      simp only []
      by_cases hl : buf.length ≠ 0
      · rw [if_pos hl, if_pos hl]; rfl
      · rw [if_neg hl, if_neg hl]; rfl
    | some off =>
      simp only []
      rw [parseFv_off h f (buf.drop off) (a + off) (a + s + off) false st]
      cases hv : parseFv h f (buf.drop off) (a + off) false st with
      | error e => simp only []
      | ok p =>
        obtain ⟨v, st1⟩ := p
        simp only [fvAt_length]
        by_cases hz : v.info.length = 0
        · simp only [hz, if_true]
        · simp only [hz, if_false]
          have e : a + s + off + v.info.length = (a + off + v.info.length) + s := by omega
          rw [e, parseBiosElems_abs h f (buf.drop (off + v.info.length)) (a + off + v.info.length) s st1]
          cases hr : parseBiosElems h f (buf.drop (off + v.info.length)) (a + off + v.info.length) st1 with
          | error e => simp only []
          | ok q =>
            obtain ⟨es, st2⟩ := q
            simp only [List.map_append, List.map_cons, shiftE, parseFv_fvOffset h f _ _ _ _ _ _ hv]
            have e2 : a + s + off = a + off + s := by omega
            rw [e2]
            by_cases ho : off > 0
            · simp only [ho, if_true, List.map_cons, List.map_nil, shiftE]
            · simp only [ho, if_false, List.map_nil]

theorem drop_len_add (E X : Bytes) (k : Nat) : (E ++ X).drop (E.length + k) = X.drop k := by
  rw [List.drop_append, List.drop_of_length_le (by omega), Nat.add_sub_cancel_left, List.nil_append]

theorem take_len_add (E X : Bytes) (k : Nat) : (E ++ X).take (E.length + k) = E ++ X.take k := by
  rw [List.take_append, List.take_of_length_le (by omega), Nat.add_sub_cancel_left]

/-- the freed blocks join the leading padding, or become it -/
def leadMerge (E : Bytes) : List BiosElem → List BiosElem
  | .pad b _ :: r => .pad (E ++ b) 0 :: r
  | r => .pad E 0 :: r

/-- **clean probes: the enlarged region parses to the expected elements** -/
theorem parseBiosElems_prefix_clean (h : Hooks) (fuel : Nat) (E X : Bytes) (st st' : St) (es : List BiosElem)
    (hE : Freed E) (hc : probeClean X = true) (hp : parseBiosElems h fuel X 0 st = .ok (es, st')) :
    parseBiosElems h fuel (E ++ X) 0 st = .ok (leadMerge E (es.map (shiftE E.length)), st') := by
  have h48 := hE.len40
  cases fuel with
  | zero => simp only [parseBiosElems] at hp; cases hp
  | succ f =>
    rw [parseBiosElems] at hp ⊢
    rw [findFv_clean E X hE hc]
    cases hf : findFvOffset X with
    | none =>
      rw [hf] at hp
      simp only [Except.ok.injEq, Prod.mk.injEq] at hp
      obtain ⟨h1, h2⟩ := hp
      subst h2
      have hl : (E ++ X).length ≠ 0 := by simp only [List.length_append]; omega
      simp only [Option.map_none, hl, ne_eq, not_false_eq_true, if_true]
      by_cases hx : X.length ≠ 0
      · simp only [hx, ne_eq, not_false_eq_true, if_true] at h1
        subst h1
        simp only [List.map_cons, List.map_nil, shiftE, leadMerge]
      · simp only [hx, if_false] at h1
        subst h1
        have : X = [] := List.eq_nil_of_length_eq_zero (by omega)
        subst this
        simp only [List.map_nil, leadMerge, List.append_nil]
    | some off =>
      rw [hf] at hp
      simp only [Option.map_some] at hp ⊢
      have hd : (E ++ X).drop (off + E.length) = X.drop off := by
        rw [Nat.add_comm]; exact drop_len_add E X off
      have ht : (E ++ X).take (off + E.length) = E ++ X.take off := by
        rw [Nat.add_comm]; exact take_len_add E X off
      rw [hd, ht, parseFv_off h f (X.drop off) (0 + off) (0 + (off + E.length)) false st]
      cases hv : parseFv h f (X.drop off) (0 + off) false st with
      | error e => rw [hv] at hp; cases hp
      | ok p =>
        obtain ⟨v, st1⟩ := p
        rw [hv] at hp
        simp only [fvAt_length] at hp ⊢
        by_cases hz : v.info.length = 0
        · simp only [hz, if_true] at hp; cases hp
        · simp only [hz, if_false] at hp ⊢
          have hd2 : (E ++ X).drop (off + E.length + v.info.length) = X.drop (off + v.info.length) := by
            have e : off + E.length + v.info.length = E.length + (off + v.info.length) := by omega
            rw [e]; exact drop_len_add E X _
          have e3 : 0 + (off + E.length) + v.info.length = (0 + off + v.info.length) + E.length := by omega
          rw [hd2, e3, parseBiosElems_abs h f (X.drop (off + v.info.length)) (0 + off + v.info.length) E.length st1]
          cases hr : parseBiosElems h f (X.drop (off + v.info.length)) (0 + off + v.info.length) st1 with
          | error e => rw [hr] at hp; cases hp
          | ok q =>
            obtain ⟨es1, st2⟩ := q
            rw [hr] at hp
            simp only [Except.ok.injEq, Prod.mk.injEq] at hp
            obtain ⟨h1, h2⟩ := hp
            subst h1; subst h2
            have hpos : off + E.length > 0 := by omega
            have hvo := parseFv_fvOffset h f _ _ _ _ _ _ hv
            simp only [hpos, if_true, List.map_append, List.map_cons, shiftE, hvo]
            have e4 : 0 + (off + E.length) = 0 + off + E.length := by omega
            rw [e4]
            by_cases ho : off > 0
            · simp only [ho, if_true, List.map_cons, List.map_nil, shiftE, List.cons_append, List.nil_append, leadMerge]
            · have : off = 0 := by omega
              subst this
              simp only [Nat.lt_irrefl, gt_iff_lt, if_false, List.map_nil, List.nil_append, leadMerge,
                List.take_zero, List.append_nil, List.cons_append]

/-- **a dirty probe: whatever the enlarged region parses to starts with a padding shorter than the
    freed blocks, followed by a volume that begins inside them** -/
theorem parseBiosElems_prefix_dirty (h : Hooks) (fuel : Nat) (E X : Bytes) (st st2 : St) (es2 : List BiosElem)
    (hE : Freed E) (hc : probeClean X = false) (hp : parseBiosElems h fuel (E ++ X) 0 st = .ok (es2, st2)) :
    ∃ p v r, es2 = .pad p 0 :: .fv v :: r ∧ p.length < E.length ∧ E.length ≤ p.length + 40 ∧
      v.info.fvOffset = p.length := by
  have h48 := hE.len40
  obtain ⟨o, _, ho, hf⟩ := findFv_dirty E X hE hc
  cases fuel with
  | zero => simp only [parseBiosElems] at hp; cases hp
  | succ f =>
    rw [parseBiosElems, hf] at hp
    simp only [] at hp
    cases hv : parseFv h f ((E ++ X).drop (E.length - 40 + o)) (0 + (E.length - 40 + o)) false st with
    | error e => rw [hv] at hp; cases hp
    | ok q =>
      obtain ⟨v, st1⟩ := q
      rw [hv] at hp
      simp only [] at hp
      by_cases hz : v.info.length = 0
      · simp only [hz, if_true] at hp; cases hp
      · simp only [hz, if_false] at hp
        cases hr : parseBiosElems h f ((E ++ X).drop (E.length - 40 + o + v.info.length))
            (0 + (E.length - 40 + o) + v.info.length) st1 with
        | error e => rw [hr] at hp; cases hp
        | ok q2 =>
          obtain ⟨es1, st3⟩ := q2
          rw [hr] at hp
          have hpos : E.length - 40 + o > 0 := by omega
          simp only [hpos, if_true, Except.ok.injEq, Prod.mk.injEq, List.cons_append, List.nil_append] at hp
          have hlen : ((E ++ X).take (E.length - 40 + o)).length = E.length - 40 + o := by
            rw [List.length_take, List.length_append]; omega
          refine ⟨_, v, es1, hp.1.symm, by rw [hlen]; omega, by rw [hlen]; omega, ?_⟩
          rw [hlen, parseFv_fvOffset h f _ _ _ _ _ _ hv]
          omega

/-- **necessary and sufficient**: given that the old region `X` parses, the enlarged region
    `E ++ X` parses to the expected elements — freed blocks in (or as) the leading padding, every
    volume unchanged and `|E|` further on, same polarity state — iff `probeClean X`. -/
theorem reparse_expected_iff (h : Hooks) (fuel : Nat) (E X : Bytes) (st st' : St) (es : List BiosElem)
    (hE : Freed E) (hp : parseBiosElems h fuel X 0 st = .ok (es, st')) :
    parseBiosElems h fuel (E ++ X) 0 st = .ok (leadMerge E (es.map (shiftE E.length)), st') ↔
      probeClean X = true := by
  constructor
  · intro h2
    cases hc : probeClean X with
    | true => rfl
    | false =>
      exfalso
      obtain ⟨p, v, r, he, hlt, _, _⟩ := parseBiosElems_prefix_dirty h fuel E X st st' _ hE hc h2
      -- the expected list starts with a padding at least as long as E
      have : ∀ l : List BiosElem, ∃ b r', leadMerge E l = .pad (E ++ b) 0 :: r' := by
        intro l
        match l with
        | [] => exact ⟨[], [], by simp [leadMerge]⟩
        | .pad b o :: r' => exact ⟨b, r', rfl⟩
        | .fv w :: r' => exact ⟨[], .fv w :: r', by simp [leadMerge]⟩
      obtain ⟨b, r', hb⟩ := this (es.map (shiftE E.length))
      rw [hb] at he
      simp only [List.cons.injEq, BiosElem.pad.injEq] at he
      have := congrArg List.length he.1.1
      simp only [List.length_append] at this
      omega
  · intro hc
    exact parseBiosElems_prefix_clean h fuel E X st st' es hE hc hp

end Fiano.TightenMe.Probe
