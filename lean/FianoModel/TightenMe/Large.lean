/-
  C12, images larger than 2^28 bytes (65536 blocks of 4 KiB).

  Base and Limit of a flash region are 16-bit block numbers (`FlashRegion{Base, Limit uint16}`,
  region.go; the descriptor format gives them 16 bits as well), so `EndOffset()` of any region —
  table slot or gap — is at most 65536 · 4096 = 2^28.  The last check of Assemble's FlashImage
  case, `offset != f.FlashSize`, compares the end of the last region with the image size: for
  a larger image it can never pass.  `uefi.Parse` accepts such an image (the Limit of the last gap
  region wraps), `tighten_me` works on the tree, but nothing is ever written, with or without
  `tighten_me`: `asmFlash_fails_large`, `tighten_keeps_u16`.
-/
import FianoModel.TightenMe.ParseLemmas

namespace Fiano.TightenMe

/-- every Limit in the tree is a 16-bit value (it is a `uint16` in Go) -/
structure U16 (f : Flash) : Prop where
  tbl : ∀ fr ∈ f.desc.regs, fr.limit < 65536
  own : ∀ r ∈ f.regions, ∀ fr, r.ref = .own fr → fr.limit < 65536

/-- where the tiling check can end -/
theorem tileConcat_end (regs : List FRegion) (size : Nat) (l : List Region) (off : Nat) (b : Bytes)
    (h : tileConcat regs size off l = .ok b) :
    off = size ∨ ∃ r ∈ l, ∃ fr, frOf regs r = .ok fr ∧ fr.endOff = size := by
  induction l generalizing off b with
  | nil =>
    simp only [tileConcat] at h
    split at h
    · cases h
    · left; omega
  | cons x xs ih =>
    simp only [tileConcat] at h
    split at h
    · cases h
    · rename_i fr hfr
      split at h
      · cases h
      · split at h
        · cases h
        · split at h
          · cases h
          · rename_i rest hrest
            rcases ih _ _ hrest with he | ⟨r, hr, fr', hfr', he⟩
            · exact Or.inr ⟨x, List.mem_cons_self, fr, hfr, he⟩
            · exact Or.inr ⟨r, List.mem_cons_of_mem _ hr, fr', hfr', he⟩

theorem mem_insertBy {α} (key : α → Nat) (x y : α) (l : List α) (h : y ∈ insertBy key x l) : y = x ∨ y ∈ l := by
  induction l with
  | nil => simp only [insertBy, List.mem_singleton] at h; exact Or.inl h
  | cons z zs ih =>
    simp only [insertBy] at h
    split at h
    · rcases List.mem_cons.mp h with rfl | h
      · exact Or.inr List.mem_cons_self
      · rcases ih h with h | h
        · exact Or.inl h
        · exact Or.inr (List.mem_cons_of_mem _ h)
    · rcases List.mem_cons.mp h with rfl | h
      · exact Or.inl rfl
      · exact Or.inr h

theorem mem_isort {α} (key : α → Nat) (y : α) (l : List α) (h : y ∈ isort key l) : y ∈ l := by
  induction l with
  | nil => cases h
  | cons x xs ih =>
    simp only [isort] at h
    rcases mem_insertBy key x y _ h with rfl | h
    · exact List.mem_cons_self
    · exact List.mem_cons_of_mem _ (ih h)

/-- Assemble keeps or re-points the FlashRegion references, it never invents a private one -/
theorem asmRegions_refs (pol : Nat) (rs rs' : List Region) (pol' : Nat) (h : asmRegions pol rs = .ok (rs', pol')) :
    ∀ r' ∈ rs', ∃ r ∈ rs, r'.ref = r.ref ∧ r'.body = r.body := by
  induction rs generalizing pol rs' pol' with
  | nil => simp only [asmRegions] at h; cases h; intro r' hr'; cases hr'
  | cons r rs ih =>
    simp only [asmRegions] at h
    split at h
    · split at h
      · cases h
      · split at h
        · cases h
        · rename_i rs1 p1 hrs
          cases h
          intro r' hr'
          rcases List.mem_cons.mp hr' with rfl | hr'
          · exact ⟨r, List.mem_cons_self, rfl, rfl⟩
          · obtain ⟨r0, h0, h1⟩ := ih _ _ _ hrs r' hr'
            exact ⟨r0, List.mem_cons_of_mem _ h0, h1⟩
    · split at h
      · cases h
      · rename_i rs1 p1 hrs
        cases h
        intro r' hr'
        rcases List.mem_cons.mp hr' with rfl | hr'
        · exact ⟨r', List.mem_cons_self, rfl, rfl⟩
        · obtain ⟨r0, h0, h1⟩ := ih _ _ _ hrs r' hr'
          exact ⟨r0, List.mem_cons_of_mem _ h0, h1⟩

/-- the FlashRegion a re-pointed node resolves to has a 16-bit Limit -/
theorem frOf_repoint_u16 (f : Flash) (u : U16 f) (nr : Nat) (r0 r' : Region) (h0 : r0 ∈ f.regions)
    (href : r'.ref = r0.ref) (fr : FRegion) (hfr : frOf f.desc.regs (repoint nr r') = .ok fr) :
    fr.limit < 65536 := by
  -- whatever `repoint` does, the reference is a table slot or the node's own private FlashRegion
  have key : ∀ x : Region, (x.ref = r'.ref ∨ ∃ k, x.ref = .idx k) → frOf f.desc.regs x = .ok fr → fr.limit < 65536 := by
    intro x hx hfx
    unfold frOf at hfx
    split at hfx
    · rename_i fr0 hown
      cases hfx
      rcases hx with hx | ⟨k, hk⟩
      · exact u.own r0 h0 fr (by rw [← href, ← hx]; exact hown)
      · rw [hk] at hown; cases hown
    · rename_i k hk
      split at hfx
      · rename_i fr0 hget
        cases hfx
        exact u.tbl fr (List.mem_of_getElem? hget)
      · cases hfx
  unfold repoint at hfr
  split at hfr
  · exact key _ (Or.inr ⟨0, rfl⟩) hfr
  · split at hfr
    · exact key _ (Or.inl rfl) hfr
    · exact key _ (Or.inr ⟨1, rfl⟩) hfr
  · exact key _ (Or.inl rfl) hfr

/-- **An image larger than 2^28 bytes can never be saved**: the tiling check of Assemble ends at the
    end of a region, which a 16-bit Limit puts at 2^28 at most. -/
theorem asmFlash_fails_large (pol : Nat) (f : Flash) (u : U16 f) (hbig : f.size > 2 ^ 28) :
    ∃ e, asmFlash pol f = .error e := by
  cases h : asmFlash pol f with
  | error e => exact ⟨e, rfl⟩
  | ok res =>
    exfalso
    unfold asmFlash at h
    simp only [] at h
    split at h
    · cases h
    · rename_i rs pol' hrs
      split at h
      · cases h
      · split at h
        · cases h
        · split at h
          · cases h
          · split at h
            · cases h
            · rename_i body hbody
              rcases tileConcat_end _ _ _ _ _ hbody with he | ⟨r, hr, fr, hfr, he⟩
              · simp only [descLen] at he; omega
              · have hr1 := mem_isort _ _ _ hr
                obtain ⟨r', hr', rfl⟩ := List.mem_map.mp hr1
                obtain ⟨r0, h0, href, _⟩ := asmRegions_refs _ _ _ _ hrs r' hr'
                have := frOf_repoint_u16 f u _ r0 r' h0 href fr hfr
                simp only [FRegion.endOff, blockSize] at he
                omega

/-! ### parsing and `tighten_me` keep the Limits 16-bit -/

theorem parseRegions_refs (img : Bytes) (nr : Nat) :
    ∀ (frs : List FRegion) (i pol : Nat) (rs : List Region) (pol' : Nat),
      parseRegions img nr i frs pol = .ok (rs, pol') → ∀ r ∈ rs, ∃ k, r.ref = .idx k := by
  intro frs
  induction frs with
  | nil =>
    intro i pol rs pol' h
    simp only [parseRegions] at h
    injection h with h; injection h with h1 _; subst h1
    intro r hr; cases hr
  | cons fr frs ih =>
    intro i pol rs pol' h
    unfold parseRegions at h
    split at h
    · injection h with h; injection h with h1 _; subst h1
      intro r hr; cases hr
    · split at h
      · exact ih _ _ _ _ h
      · split at h
        · exact ih _ _ _ _ h
        · split at h
          · exact ih _ _ _ _ h
          · simp only at h
            split at h
            · split at h
              · cases h
              · split at h
                · cases h
                · rename_i rs1 pol2 hrs1
                  injection h with h; injection h with h1 _; subst h1
                  intro r hr
                  rcases List.mem_cons.mp hr with rfl | hr
                  · exact ⟨i, rfl⟩
                  · exact ih _ _ _ _ hrs1 r hr
            · split at h
              · cases h
              · rename_i rs1 pol2 hrs1
                injection h with h; injection h with h1 _; subst h1
                intro r hr
                rcases List.mem_cons.mp hr with rfl | hr
                · exact ⟨i, rfl⟩
                · exact ih _ _ _ _ hrs1 r hr

theorem gapRegion_u16 (img : Bytes) (off next : Nat) (fr : FRegion) (h : (gapRegion img off next).ref = .own fr) :
    fr.limit < 65536 := by
  simp only [gapRegion, Ref.own.injEq] at h
  subst h
  simp only [u16]
  omega

theorem fillGaps_own (regs : List FRegion) (img : Bytes) (size : Nat) :
    ∀ (l : List Region) (off : Nat) (out : List Region),
      (∀ r ∈ l, ∃ k, r.ref = .idx k) → fillGaps regs img size off l = .ok out →
      ∀ r ∈ out, ∀ fr, r.ref = .own fr → fr.limit < 65536 := by
  intro l
  induction l with
  | nil =>
    intro off out _ h
    simp only [fillGaps] at h
    split at h
    · injection h with h; subst h
      intro r hr fr hfr
      simp only [List.mem_singleton] at hr; subst hr
      exact gapRegion_u16 _ _ _ fr hfr
    · injection h with h; subst h
      intro r hr; cases hr
  | cons x xs ih =>
    intro off out hl h
    simp only [fillGaps] at h
    split at h
    · cases h
    · rename_i fx hfx
      split at h
      · cases h
      · split at h
        · cases h
        · rename_i rest hrest
          injection h with h; subst h
          have hrec := ih _ _ (fun r hr => hl r (List.mem_cons_of_mem _ hr)) hrest
          intro r hr fr hfr
          simp only [List.mem_append, List.mem_cons] at hr
          rcases hr with hr | rfl | hr
          · split at hr
            · simp only [List.mem_singleton] at hr; subst hr
              exact gapRegion_u16 _ _ _ fr hfr
            · cases hr
          · obtain ⟨k, hk⟩ := hl r List.mem_cons_self
            rw [hk] at hfr; cases hfr
          · exact hrec r hr fr hfr

/-- every parsed tree has 16-bit Limits, whatever the size of the image -/
theorem parse_u16 (pol : Nat) (img : Bytes) (f : Flash) (pol' : Nat) (h : parseFlash pol img = .ok (f, pol')) :
    U16 f ∧ f.size = img.length := by
  unfold parseFlash at h
  split at h
  · cases h
  · split at h
    · cases h
    · split at h
      · cases h
      · rename_i d hd
        split at h
        · cases h
        · split at h
          · cases h
          · split at h
            · cases h
            · rename_i rs pol1 hrs
              split at h
              · cases h
              · rename_i rs' hfill
                injection h with h; injection h with h1 _; subst h1
                obtain ⟨_, hu16⟩ := parseDesc_geom _ _ hd
                refine ⟨⟨fun fr hfr => (hu16 fr hfr).2, ?_⟩, rfl⟩
                have hidx := parseRegions_refs img d.numberOfRegions d.regs 0 pol rs pol1 hrs
                exact fillGaps_own d.regs img img.length _ _ _
                  (fun r hr => hidx r ((isort_perm _ rs).mem_iff.mp hr)) hfill

theorem mem_set_cases {α} (l : List α) (k : Nat) (x y : α) (h : y ∈ l.set k x) : y = x ∨ y ∈ l := by
  rcases List.mem_or_eq_of_mem_set h with h | h
  · exact Or.inr h
  · exact Or.inl h

theorem setRegLimit_u16 (regs : List FRegion) (k v : Nat) (hv : v < 65536) (h : ∀ fr ∈ regs, fr.limit < 65536) :
    ∀ fr ∈ setRegLimit regs k v, fr.limit < 65536 := by
  intro fr hfr
  unfold setRegLimit at hfr
  split at hfr
  · rcases mem_set_cases _ _ _ _ hfr with rfl | h'
    · exact hv
    · exact h fr h'
  · exact h fr hfr

theorem setRegBase_u16 (regs : List FRegion) (k v : Nat) (h : ∀ fr ∈ regs, fr.limit < 65536) :
    ∀ fr ∈ setRegBase regs k v, fr.limit < 65536 := by
  intro fr hfr
  unfold setRegBase at hfr
  split at hfr
  · rename_i fr0 hget
    rcases mem_set_cases _ _ _ _ hfr with rfl | h'
    · exact h fr0 (List.mem_of_getElem? hget)
    · exact h fr h'
  · exact h fr hfr

theorem u16_lt (n : Nat) : u16 n < 65536 := by unfold u16; omega

theorem writeLimit_u16 (f : Flash) (i : Nat) (r : Region) (v : Nat) (hv : v < 65536) (u : U16 f)
    (hr : ∀ fr, r.ref = .own fr → fr.limit < 65536) : U16 (writeLimit f i r v) := by
  unfold writeLimit
  split
  · exact ⟨setRegLimit_u16 _ _ _ hv u.tbl, u.own⟩
  · rename_i fr hown
    refine ⟨u.tbl, ?_⟩
    intro x hx fx hfx
    rcases mem_set_cases _ _ _ _ hx with rfl | h'
    · simp only [Ref.own.injEq] at hfx; subst hfx; exact hv
    · exact u.own x h' fx hfx

theorem writeBase_u16 (f : Flash) (i : Nat) (r : Region) (v : Nat) (u : U16 f)
    (hr : ∀ fr, r.ref = .own fr → fr.limit < 65536) : U16 (writeBase f i r v) := by
  unfold writeBase
  split
  · exact ⟨setRegBase_u16 _ _ _ u.tbl, u.own⟩
  · rename_i fr hown
    refine ⟨u.tbl, ?_⟩
    intro x hx fx hfx
    rcases mem_set_cases _ _ _ _ hx with rfl | h'
    · simp only [Ref.own.injEq] at hfx; subst hfx; exact hr fr hown
    · exact u.own x h' fx hfx

theorem set_u16 (f : Flash) (k : Nat) (x : Region) (u : U16 f) (hx : ∀ fr, x.ref = .own fr → fr.limit < 65536) :
    U16 { f with regions := f.regions.set k x } := by
  refine ⟨u.tbl, ?_⟩
  intro r hr fr hfr
  rcases mem_set_cases _ _ _ _ hr with rfl | h'
  · exact hx fr hfr
  · exact u.own r h' fr hfr

/-- `tighten_me` writes `uint16` values: the Limits stay 16-bit, the size is not touched -/
theorem tighten_keeps_u16 (pol : Nat) (f f' : Flash) (u : U16 f) (h : tighten pol f = .ok f') :
    U16 f' ∧ f'.size = f.size := by
  obtain ⟨i, j, mer, br, fpt, free, blen, elems, mfr, bfr, _, _, hmer, hbr, _, _, _, _, _, _, _, hf'⟩ :=
    tighten_ok_inv pol f f' h
  have hm := u.own mer (List.mem_of_getElem? hmer)
  have hb := u.own br (List.mem_of_getElem? hbr)
  subst hf'
  have s1 := set_u16 f i { mer with buf := mer.buf.take (bufOffset mfr.baseOff free) } u (fun fr hfr => hm fr hfr)
  have s2 := writeLimit_u16 _ i { mer with buf := mer.buf.take (bufOffset mfr.baseOff free) }
    (u16 (u64 (updateBase mfr.baseOff free + 2 ^ 64 - 1))) (u16_lt _) s1 (fun fr hfr => hm fr hfr)
  have s3 := set_u16 _ j
    { br with body := (Body.bios (u64 (blen + u64 (bfr.baseOff + 2 ^ 64 - updateOffset mfr.baseOff free)))
        ((if bufOffset mfr.baseOff free < mer.buf.length then
            [(⟨false, 0, mer.buf.drop (bufOffset mfr.baseOff free), 0, false⟩ : Elem)] else []) ++
          shiftElems (u64 (bfr.baseOff + 2 ^ 64 - updateOffset mfr.baseOff free)) elems)) }
    s2 (fun fr hfr => hb fr hfr)
  have s4 := writeBase_u16 _ j
    { br with body := (Body.bios (u64 (blen + u64 (bfr.baseOff + 2 ^ 64 - updateOffset mfr.baseOff free)))
        ((if bufOffset mfr.baseOff free < mer.buf.length then
            [(⟨false, 0, mer.buf.drop (bufOffset mfr.baseOff free), 0, false⟩ : Elem)] else []) ++
          shiftElems (u64 (bfr.baseOff + 2 ^ 64 - updateOffset mfr.baseOff free)) elems)) }
    (u16 (updateBase mfr.baseOff free)) s3 (fun fr hfr => hb fr hfr)
  refine ⟨s4, ?_⟩
  unfold tightened
  simp only [writeBase, writeLimit]
  repeat' split
  all_goals rfl

end Fiano.TightenMe
