/-
  C12 (wp-c12c, task 2 at the level of the whole image): the decidable predicate on the INPUT image.

  `biosProbeClean img d` = `Probe.probeClean` of the image's BIOS extent (slot 0 of the parsed
  descriptor `d`).  For parse → `tighten_me` → save → re-parse (same initial polarity state, a fresh
  process both times) with at least one block freed:

    the BIOS node of the re-parsed tree has the EXPECTED elements — the freed blocks joined to (or
    as) the leading padding, every volume of the first parse unchanged and further on by the freed
    size —  IFF  `biosProbeClean img f.desc`.

  (`reparse_bios_expected_iff`; the BIOS region of the saved image is `E ++ X` with `E` the erased
  tail cut off the ME buffer and `X` the old BIOS extent, both read off the input image.)
  Whether the saved image parses AT ALL is then a question about `E ++ X` alone:
  `Probe.parseBiosElems_prefix_clean` says it does when the probes are clean.
-/
import FianoModel.TightenMe.SecondRun
import FianoModel.TightenMe.ProbeStart

namespace Fiano.TightenMe
open Probe

/-- what is cut off the ME buffer is `Freed`: erased, whole blocks -/
theorem freed_of_erased (E : Bytes) (pol : Nat) (her : isErased E pol = true)
    (h4 : E.length % 4096 = 0) (hne : 0 < E.length) : Freed E := by
  refine ⟨⟨UInt8.ofNat pol, ?_⟩, by omega, by omega⟩
  intro x hx
  simp only [isErased, List.all_eq_true, beq_iff_eq] at her
  have := her x hx
  rw [← this]
  simp

/-- **the predicate on the input image**: the BIOS extent (slot 0 of the descriptor's table) shows
    no `_FVH` at its offsets 0, 8, 16, 24, 32 -/
def biosProbeClean (img : Bytes) (d : Desc) : Bool :=
  match d.regs with
  | r0 :: _ => probeClean (slice img r0.baseOff (r0.endOff - r0.baseOff))
  | [] => true

/-- slot 0 of the region loop of NewFlashImage: the BIOS node is `NewBIOSRegion` of the extent -/
theorem parseRegions_slot0 (img : Bytes) (nr : Nat) (r0 : FRegion) (tl : List FRegion) (pol : Nat)
    (rs : List Region) (pol' : Nat) (hv : r0.valid = true) (hin : r0.endOff ≤ img.length)
    (h : parseRegions img nr 0 (r0 :: tl) pol = .ok (rs, pol')) :
    ∃ els pol1 rs1,
      parseBios (Uefi.defaultFuel img) pol (slice img r0.baseOff (r0.endOff - r0.baseOff)) = .ok (els, pol1) ∧
      rs = ⟨.idx 0, .bios (slice img r0.baseOff (r0.endOff - r0.baseOff)).length els,
            slice img r0.baseOff (r0.endOff - r0.baseOff)⟩ :: rs1 := by
  have hpos := valid_pos r0 hv
  rw [parseRegions] at h
  have c1 : ¬ (nr ≠ 0 ∧ 0 ≥ nr) := by omega
  have c2 : ¬ r0.baseOff ≥ img.length := by omega
  have c3 : ¬ r0.endOff > img.length := by omega
  simp only [c1, if_false, hv, Bool.not_true, Bool.false_eq_true, c2, c3, if_true] at h
  cases hb : parseBios (Uefi.defaultFuel img) pol (slice img r0.baseOff (r0.endOff - r0.baseOff)) with
  | error e => rw [hb] at h; cases h
  | ok p =>
    obtain ⟨els, pol1⟩ := p
    rw [hb] at h
    simp only [] at h
    cases hrec : parseRegions img nr (0 + 1) tl pol1 with
    | error e => rw [hrec] at h; cases h
    | ok q =>
      obtain ⟨rs1, pol2⟩ := q
      rw [hrec] at h
      simp only [Except.ok.injEq, Prod.mk.injEq] at h
      exact ⟨els, pol1, rs1, rfl, h.1.symm⟩

theorem slice_drop (b : Bytes) (o l k : Nat) : (slice b o l).drop k = slice b (o + k) (l - k) := by
  simp only [slice]
  rw [List.drop_take, List.drop_drop]

/-- the enlarged region parsed to the flattened expected elements only if the probes are clean -/
theorem flash_bios_expected_clean (fuel pol : Nat) (E X : Bytes) (es : List Uefi.BiosElem) (p' : Nat) (hE : Freed E)
    (h2 : parseBios fuel pol (E ++ X) = .ok ((leadMerge E (es.map (shiftE E.length))).map toElem, p')) :
    probeClean X = true := by
  cases hc : probeClean X with
  | true => rfl
  | false =>
    exfalso
    unfold parseBios at h2
    cases hq : Uefi.parseBiosElems Uefi.Hooks.none fuel (E ++ X) 0 { pol := UInt8.ofNat pol } with
    | error e => rw [hq] at h2; cases h2
    | ok q =>
      obtain ⟨es2, st2⟩ := q
      rw [hq] at h2
      obtain ⟨p, v, r, he, hlt, _, _⟩ := parseBiosElems_prefix_dirty _ fuel E X _ st2 es2 hE hc hq
      subst he
      simp only [Except.ok.injEq, Prod.mk.injEq, List.map_cons] at h2
      have hlead : ∀ l : List Uefi.BiosElem, ∃ b r', leadMerge E l = .pad (E ++ b) 0 :: r' := by
        intro l
        match l with
        | [] => exact ⟨[], [], by simp [leadMerge]⟩
        | .pad b o :: r' => exact ⟨b, r', rfl⟩
        | .fv w :: r' => exact ⟨[], .fv w :: r', by simp [leadMerge]⟩
      obtain ⟨b, r', hb⟩ := hlead (es.map (shiftE E.length))
      rw [hb] at h2
      simp only [List.map_cons, toElem, List.cons.injEq, Elem.mk.injEq] at h2
      have := congrArg List.length h2.1.1.2.2.1
      simp only [List.length_append] at this
      omega

set_option maxRecDepth 10000 in
/-- **Image level.**  parse, `tighten_me`, save, re-parse with the same initial polarity state.  With
    `X` the BIOS extent of the input image, `E` the image bytes between the new and the old boundary
    (the erased tail cut off the ME buffer) and `es0` the elements the first parse found in `X`: if at
    least one block was freed, the re-parsed tree has a BIOS node with the expected elements
    `leadMerge E (es0 shifted by |E|)` IFF `biosProbeClean img f.desc`. -/
theorem reparse_bios_expected_iff (p0 : Nat) (img : Bytes) (f f' g' t : Flash) (pol pa pa' q : Nat)
    (hsz : img.length % 4096 = 0) (hlt : img.length ≤ 2 ^ 28)
    (hp : parseFlash p0 img = .ok (f, pol)) (sane : f.desc.Sane)
    (ht : tighten pol f = .ok f') (hs : asmFlash pa f' = .ok (g', pa'))
    (hr : parseFlash p0 g'.buf = .ok (t, q)) :
    ∃ r0 r1 rest nb es0 st0,
      f.desc.regs = r0 :: r1 :: rest ∧
      t.desc.regs = { r0 with base := nb } :: { r1 with limit := nb - 1 } :: rest ∧ nb ≤ r0.base ∧
      Uefi.parseBiosElems Uefi.Hooks.none (Uefi.defaultFuel img) (slice img r0.baseOff (r0.endOff - r0.baseOff)) 0
        { pol := UInt8.ofNat p0 } = .ok (es0, st0) ∧
      (nb < r0.base →
        Freed (slice img (nb * 4096) (r0.baseOff - nb * 4096)) ∧
        (slice img (nb * 4096) (r0.baseOff - nb * 4096)).length = (r0.base - nb) * 4096 ∧
        ((∃ br ∈ t.regions, br.body =
            .bios ((slice img (nb * 4096) (r0.baseOff - nb * 4096)).length +
                   (slice img r0.baseOff (r0.endOff - r0.baseOff)).length)
              ((leadMerge (slice img (nb * 4096) (r0.baseOff - nb * 4096))
                (es0.map (shiftE (slice img (nb * 4096) (r0.baseOff - nb * 4096)).length))).map toElem)) ↔
          biosProbeClean img f.desc = true)) := by
  obtain ⟨mer, fpt, free, r0, r1, rest, nb, R, _, _, _⟩ :=
    reparse_struct p0 img f f' g' t pol pa pa' p0 q hsz hlt hp sane ht hs hr
  have hnb0 : nb ≤ r0.base := by have := R.hnb2; have := R.hadj; omega
  have hb1 := R.hb1
  have hnb1 := R.hnb1
  have hinb := R.inb
  have hv0 : r0.baseOff < r0.endOff := valid_pos r0 R.r0valid
  simp only [FRegion.baseOff, FRegion.endOff, blockSize] at hv0
  -- the first parse, slot 0
  obtain ⟨rs1, r0a, tla, _, hregs0, _, hprs1, _⟩ := parseFlash_inv p0 img f pol hp
  rw [R.hregs] at hprs1
  obtain ⟨els0, pol1, _, hb0, _⟩ := parseRegions_slot0 img _ r0 (r1 :: rest) p0 rs1 pol R.r0valid
    (by simp only [FRegion.endOff, blockSize]; exact hinb) hprs1
  have hes0 : ∃ es0 st0, Uefi.parseBiosElems Uefi.Hooks.none (Uefi.defaultFuel img)
      (slice img r0.baseOff (r0.endOff - r0.baseOff)) 0 { pol := UInt8.ofNat p0 } = .ok (es0, st0) := by
    unfold parseBios at hb0
    cases hq : Uefi.parseBiosElems Uefi.Hooks.none (Uefi.defaultFuel img)
        (slice img r0.baseOff (r0.endOff - r0.baseOff)) 0 { pol := UInt8.ofNat p0 } with
    | error e => rw [hq] at hb0; cases hb0
    | ok p => exact ⟨p.1, p.2, rfl⟩
  obtain ⟨es0, st0, hes0⟩ := hes0
  refine ⟨r0, r1, rest, nb, es0, st0, R.hregs, R.tregs, hnb0, hes0, ?_⟩
  intro hfreed
  -- abbreviations
  generalize hE : slice img (nb * 4096) (r0.baseOff - nb * 4096) = E
  generalize hX : slice img r0.baseOff (r0.endOff - r0.baseOff) = X at hes0 ⊢
  have hElen : E.length = (r0.base - nb) * 4096 := by
    rw [← hE, slice_length _ _ _ (by simp only [FRegion.baseOff, blockSize]; omega)]
    simp only [FRegion.baseOff, blockSize]
    rw [Nat.sub_mul]
  -- E is the erased tail of the ME buffer
  have hEer : isErased E pol = true := by
    have := R.her
    rw [R.merbuf, slice_drop] at this
    have e1 : r1.base * 4096 + (nb - r1.base) * 4096 = nb * 4096 := by rw [Nat.sub_mul]; omega
    have e2 : (r1.limit + 1) * 4096 - r1.base * 4096 - (nb - r1.base) * 4096 = r0.baseOff - nb * 4096 := by
      simp only [FRegion.baseOff, blockSize]; rw [Nat.sub_mul, ← R.hadj]; omega
    rw [e1, e2, hE] at this
    exact this
  have hEf : Freed E := freed_of_erased E pol hEer (by rw [hElen]; exact Nat.mul_mod_left _ _)
    (by rw [hElen]; omega)
  refine ⟨hEf, hElen, ?_⟩
  -- the second parse, slot 0
  obtain ⟨rs2, r0b, tlb, _, hregsb, hr0bv, hprs2, hfill2⟩ := parseFlash_inv p0 g'.buf t q hr
  rw [R.tregs] at hregsb hprs2
  have er0b : r0b = { r0 with base := nb } := by injection hregsb with a _; exact a.symm
  subst er0b
  obtain ⟨els2, pol2, rs2', hb2, hrs2⟩ := parseRegions_slot0 g'.buf _ { r0 with base := nb } _ p0 rs2 q hr0bv
    (by simp only [FRegion.endOff, blockSize]; rw [R.Blen]; exact hinb) hprs2
  -- its buffer is E ++ X, its fuel the same
  have hbuf : slice g'.buf (FRegion.baseOff { r0 with base := nb })
      (FRegion.endOff { r0 with base := nb } - FRegion.baseOff { r0 with base := nb }) = E ++ X := by
    simp only [FRegion.baseOff, FRegion.endOff, blockSize]
    have a : g'.buf = g'.buf.take descLen ++ g'.buf.drop descLen := (List.take_append_drop _ _).symm
    have b : img = img.take descLen ++ img.drop descLen := (List.take_append_drop _ _).symm
    have hl := R.imglen
    have e1 : slice g'.buf (nb * 4096) ((r0.limit + 1) * 4096 - nb * 4096) =
        slice img (nb * 4096) ((r0.limit + 1) * 4096 - nb * 4096) := by
      rw [a, b, slice_append_right _ _ _ _ (by simp [descLen]; omega),
        slice_append_right _ _ _ _ (by simp [descLen]; omega)]
      simp only [List.length_take, R.Bdrop]
      congr 1
      have := R.Blen
      simp only [descLen] at hl ⊢
      omega
    rw [e1, ← hE, ← hX]
    simp only [FRegion.baseOff, FRegion.endOff, blockSize]
    have e2 : (r0.limit + 1) * 4096 - nb * 4096 =
        (r0.base * 4096 - nb * 4096) + ((r0.limit + 1) * 4096 - r0.base * 4096) := by omega
    rw [e2, slice_add]
    congr 2
    omega
  have hfuel : Uefi.defaultFuel g'.buf = Uefi.defaultFuel img := by
    simp only [Uefi.defaultFuel, R.Blen]
  rw [hbuf] at hb2 hrs2
  rw [hfuel] at hb2
  have hbn : (⟨.idx 0, .bios (E ++ X).length els2, E ++ X⟩ : Region) ∈ t.regions := by
    apply fillGaps_mem _ _ _ _ _ _ hfill2
    apply (isort_perm _ rs2).mem_iff.mpr
    rw [hrs2]
    exact List.mem_cons_self
  have hclean : biosProbeClean img f.desc = probeClean X := by
    simp only [biosProbeClean, R.hregs, hX]
  rw [hclean]
  constructor
  · rintro ⟨br, hbr, hbody⟩
    -- the BIOS node is unique
    obtain ⟨ia, hia⟩ := List.getElem?_of_mem hbr
    obtain ⟨ib, hib⟩ := List.getElem?_of_mem hbn
    have := R.wt.oneBIOS ia ib _ _ hia hib (by simp [hbody, Body.isBIOS]) (by simp [Body.isBIOS])
    subst this
    rw [hia] at hib
    injection hib with hib
    rw [hib] at hbody
    simp only [Body.bios.injEq] at hbody
    rw [hbody.2] at hb2
    exact flash_bios_expected_clean _ p0 E X es0 pol2 hEf hb2
  · intro hc
    have h3 := parseBiosElems_prefix_clean Uefi.Hooks.none _ E X _ st0 es0 hEf hc hes0
    unfold parseBios at hb2
    rw [h3] at hb2
    simp only [Except.ok.injEq, Prod.mk.injEq] at hb2
    refine ⟨_, hbn, ?_⟩
    rw [← hb2.1, List.length_append]

end Fiano.TightenMe
