/-
  C12: well-formed flash trees (what `parseFlash` builds and `tighten` preserves) and the
  tiling predicate `Chain`.
-/
import FianoModel.TightenMe.DescLemmas

namespace Fiano.TightenMe

/-- what Assemble contributes to the image for a region: the concatenated elements of a BIOS
    region, the buffer of any other region -/
def payload (r : Region) : Bytes :=
  match r.body with
  | .bios _ els => els.flatMap (·.buf)
  | _ => r.buf

/-- In list order the regions tile `[off, size)` exactly according to their FlashRegions, and
    every payload has the size of its extent. -/
def Chain (regs : List FRegion) : Nat → List Region → Nat → Prop
  | off, [], size => off = size
  | off, r :: rs, size => ∃ fr, frOf regs r = .ok fr ∧ fr.baseOff = off ∧ fr.baseOff ≤ fr.endOff ∧
      (payload r).length = fr.endOff - fr.baseOff ∧ Chain regs fr.endOff rs size

structure WF (f : Flash) : Prop where
  geom : f.desc.Geom
  u16 : ∀ fr ∈ f.desc.regs, fr.base < 65536 ∧ fr.limit < 65536
  /-- the regions tile `[4096, size)` in list order -/
  chain : Chain f.desc.regs descLen f.regions f.size
  /-- the ME node points to table slot 1, the BIOS node to slot 0, raw nodes to other slots or to
      a private FlashRegion (gap) -/
  meRef : ∀ r ∈ f.regions, r.body.isME = true → r.ref = .idx 1
  biosRef : ∀ r ∈ f.regions, r.body.isBIOS = true → r.ref = .idx 0
  rawRef : ∀ r ∈ f.regions, r.body = .raw → ∀ k, r.ref = .idx k → 2 ≤ k
  oneME : ∀ (a b : Nat) (x y : Region), f.regions[a]? = some x → f.regions[b]? = some y →
      x.body.isME = true → y.body.isME = true → a = b
  oneBIOS : ∀ (a b : Nat) (x y : Region), f.regions[a]? = some x → f.regions[b]? = some y →
      x.body.isBIOS = true → y.body.isBIOS = true → a = b
  /-- every region other than the ME region has a non-empty extent -/
  pos : ∀ r ∈ f.regions, r.body.isME = false → ∀ fr, frOf f.desc.regs r = .ok fr → fr.baseOff < fr.endOff
  /-- BIOS region: `Length` is the total size of the elements -/
  bios : ∀ r ∈ f.regions, ∀ len els, r.body = .bios len els → len = (els.flatMap (·.buf)).length
  /-- ME region: `FreeSpaceOffset` is what NewMERegion computes from the parsed table (0 without one) -/
  me : ∀ r ∈ f.regions, ∀ fpt free, r.body = .me fpt free →
      free = (match fpt with | some es => freeOf es | none => 0) ∧ free < 2 ^ 33

/-! ### Chain lemmas -/

theorem chain_append (regs : List FRegion) (l1 l2 : List Region) (off size : Nat) :
    Chain regs off (l1 ++ l2) size ↔ ∃ m, Chain regs off l1 m ∧ Chain regs m l2 size := by
  induction l1 generalizing off with
  | nil => simp [Chain]
  | cons r rs ih =>
    simp only [List.cons_append, Chain]
    constructor
    · rintro ⟨fr, h1, h2, h3, h4, h5⟩
      obtain ⟨m, hm1, hm2⟩ := (ih fr.endOff).mp h5
      exact ⟨m, ⟨fr, h1, h2, h3, h4, hm1⟩, hm2⟩
    · rintro ⟨m, ⟨fr, h1, h2, h3, h4, h5⟩, hm2⟩
      exact ⟨fr, h1, h2, h3, h4, (ih fr.endOff).mpr ⟨m, h5, hm2⟩⟩

theorem chain_le (regs : List FRegion) (l : List Region) (off size : Nat) (h : Chain regs off l size) :
    off ≤ size := by
  induction l generalizing off with
  | nil => simp [Chain] at h; omega
  | cons r rs ih =>
    obtain ⟨fr, _, h2, h3, _, h5⟩ := h
    have := ih _ h5
    omega

/-- every region of a chain lies inside `[off, size)` -/
theorem chain_mem_range (regs : List FRegion) (l : List Region) (off size : Nat) (h : Chain regs off l size)
    (r : Region) (hr : r ∈ l) (fr : FRegion) (hfr : frOf regs r = .ok fr) :
    off ≤ fr.baseOff ∧ fr.endOff ≤ size := by
  induction l generalizing off with
  | nil => cases hr
  | cons x xs ih =>
    obtain ⟨fx, h1, h2, h3, _, h5⟩ := h
    rcases List.mem_cons.mp hr with rfl | hr
    · rw [hfr] at h1; injection h1 with h1; subst h1
      exact ⟨by omega, chain_le _ _ _ _ h5⟩
    · have := ih _ h5 hr
      omega

/-- a chain only depends on the FlashRegions its members point to -/
theorem chain_congr (regs regs' : List FRegion) (l : List Region) (off size : Nat)
    (hc : ∀ r ∈ l, frOf regs' r = frOf regs r) :
    Chain regs' off l size ↔ Chain regs off l size := by
  induction l generalizing off with
  | nil => simp [Chain]
  | cons x xs ih =>
    simp only [Chain]
    rw [hc x List.mem_cons_self]
    constructor
    · rintro ⟨fr, h1, h2, h3, h4, h5⟩
      exact ⟨fr, h1, h2, h3, h4, (ih _ (fun r hr => hc r (List.mem_cons_of_mem _ hr))).mp h5⟩
    · rintro ⟨fr, h1, h2, h3, h4, h5⟩
      exact ⟨fr, h1, h2, h3, h4, (ih _ (fun r hr => hc r (List.mem_cons_of_mem _ hr))).mpr h5⟩

/-- the image bytes a chain stands for have exactly the chain's length -/
theorem chain_payload_length (regs : List FRegion) (l : List Region) (off size : Nat)
    (h : Chain regs off l size) : (l.flatMap payload).length = size - off := by
  induction l generalizing off with
  | nil => simp [Chain] at h; simp; omega
  | cons x xs ih =>
    obtain ⟨fr, _, h2, h3, h4, h5⟩ := h
    have := ih _ h5
    have := chain_le _ _ _ _ h5
    simp only [List.flatMap_cons, List.length_append, *]
    omega

theorem chain_mem_resolves (regs : List FRegion) (l : List Region) (off size : Nat) (h : Chain regs off l size)
    (r : Region) (hr : r ∈ l) : ∃ fr, frOf regs r = .ok fr := by
  induction l generalizing off with
  | nil => cases hr
  | cons x xs ih =>
    obtain ⟨fx, h1, _, _, _, h5⟩ := h
    rcases List.mem_cons.mp hr with rfl | hr
    · exact ⟨fx, h1⟩
    · exact ih _ h5 hr

/-- sort keys never decrease along a chain -/
theorem chain_sorted (regs : List FRegion) (l : List Region) (off size : Nat) (h : Chain regs off l size) :
    l.Pairwise (fun a b => baseKey regs a ≤ baseKey regs b) := by
  induction l generalizing off with
  | nil => exact List.Pairwise.nil
  | cons x xs ih =>
    obtain ⟨fr, h1, h2, h3, _, h5⟩ := h
    refine List.Pairwise.cons ?_ (ih _ h5)
    intro y hy
    have hy' := chain_mem_resolves _ _ _ _ h5 y hy
    obtain ⟨fy, hfy⟩ := hy'
    have := chain_mem_range _ _ _ _ h5 y hy fy hfy
    simp only [baseKey, h1, hfy]
    simp only [FRegion.baseOff, FRegion.endOff, blockSize] at *
    omega

theorem chain_checkRefs (regs : List FRegion) (l : List Region) (off size : Nat) (h : Chain regs off l size) :
    checkRefs regs l = .ok () := by
  induction l generalizing off with
  | nil => rfl
  | cons x xs ih =>
    obtain ⟨fr, h1, _, _, _, h5⟩ := h
    simp only [checkRefs, h1]
    exact ih _ h5

end Fiano.TightenMe
