/-
  Model of the code anchored by property C12 (tighten_me):

    pkg/uefi/flash.go               FindSignature, ParseFlashDescriptor, NewFlashImage, fillRegionGaps
    pkg/uefi/flashdescriptormap.go  16 uint8 fields (re-serialisation = identity on the 16 bytes)
    pkg/uefi/flashregionsection.go  `_ uint16` (reserved, kept by the repaired Assemble), FlashBlockEraseSize, 15 x {Base, Limit}
    pkg/uefi/flashmastersection.go  3 x {uint16, uint8, uint8} (re-serialisation = identity on the 12 bytes)
    pkg/uefi/region.go              Valid, BaseOffset, EndOffset, region constructors by index
    pkg/uefi/meregion.go            FindMEDescriptor, NewMEFPT, NewMERegion (FreeSpaceOffset)
    pkg/uefi/biosregion.go          NewBIOSRegion (padding / volume elements), FirstFV
    pkg/uefi/firmwarevolume.go      FindFirmwareVolumeOffset, NewFirmwareVolume -- the SHARED parse model
                                    (FianoModel/Uefi/Parse.lean `parseBiosElems`, used by name); here a
                                    volume is kept as the blob `data[:Length]` plus "has files"
    pkg/visitors/tightenme.go       TightenME.Run / process          (AS REPAIRED, see fixes/C12-*.diff:
                                    partition-beyond-region, empty-leading-padding)
    pkg/visitors/assemble.go        cases FlashDescriptor, BIOSRegion, FlashImage

  Flash-level model: tighten_me never looks inside a firmware volume, so a volume is the byte blob
  `data[:Length]`.  The BIOS region is parsed by the shared UEFI parse model (volumes, files,
  sections — so every repair of that parser reaches this model without a hand copy); the tree is
  then flattened to `Elem`s.  Assemble is modelled here for volumes WITHOUT files only (it returns
  them untouched); a volume with files makes `asmFlash` answer `Err.unmodelled`, never a guess —
  the tree-level model FianoModel/TightenMe/Tree.lean covers those.  Hand-written; tied to the Go
  code by Gen.TightenMe / Gen.TightenMeVis (T1, see Tie.lean) and by the correspondence harness
  harness/props/c12 driving Driver/C12.lean (T2).  Core Lean only.
-/
import FianoModel.Base.Bytes
import FianoModel.Uefi.Parse

namespace Fiano.TightenMe

/-! ### constants -/

def blockSize : Nat := 4096                     -- uefi.RegionBlockSize
def descLen : Nat := 4096                       -- uefi.FlashDescriptorLength
def flashSig : Bytes := [0x5a, 0xa5, 0xf0, 0x0f]
def fptSig : Bytes := [0x24, 0x46, 0x50, 0x54]  -- "$FPT"
def fvSig : Bytes := [0x5f, 0x46, 0x56, 0x48]   -- "_FVH"
def poisoned : Nat := 0xF0                      -- uefi.poisonedPolarity
def mapSize : Nat := 16                         -- FlashDescriptorMapSize
def regionSectionSize : Nat := 64               -- FlashRegionSectionSize
def masterSize : Nat := 12                      -- FlashMasterSectionSize
def nRegions : Nat := 15
def fptHeaderMin : Nat := 28                    -- MEPartitionDescriptorMinLength
def fptEntryLen : Nat := 32                     -- MEPartitionTableEntryLength
def fvMinSize : Nat := 64                       -- FirmwareVolumeMinSize
def fvFixedHeader : Nat := 56
def fvExtHeaderMin : Nat := 20
def fileHeaderMin : Nat := 24
def ffs2 : Bytes := [0x78, 0xe5, 0x8c, 0x8c, 0x3d, 0x8a, 0x1c, 0x4f, 0x99, 0x35, 0x89, 0x61, 0x85, 0xc3, 0x2d, 0xd3]
def ffs3 : Bytes := [0x7a, 0xc0, 0x73, 0x54, 0xcb, 0x3d, 0xca, 0x4d, 0xbd, 0x6f, 0x1e, 0x96, 0x89, 0xe7, 0x34, 0x9a]

def u16 (n : Nat) : Nat := n % 65536
def u64 (n : Nat) : Nat := n % 2 ^ 64

inductive Err where
  | notFlash      -- uefi.Parse falls back to a bare BIOS region: tighten_me then answers "no IFD found"
  | parse         -- any error return of NewFlashImage and below
  | noME | noBIOS
  | notContiguous
  | beyond        -- (repair of §8 #22) the partitions end beyond the ME region buffer
  | notErased
  | asm           -- any error return of Assemble
  | badRef        -- a region refers to a table slot that does not exist (unreachable; no default is invented)
  | unmodelled    -- Assemble of a volume that has files: outside this flash-level model
  | panic         -- Go would panic (slice bounds) -- only reachable on trees that parsing never builds
  deriving Repr, DecidableEq, Inhabited

/-! ### flash regions (region.go) -/

structure FRegion where
  base  : Nat   -- uint16
  limit : Nat   -- uint16
  deriving Repr, DecidableEq, Inhabited

def FRegion.valid (r : FRegion) : Bool :=
  decide (r.limit > 0) && decide (r.limit ≥ r.base) && r.limit != 0xFFFF && r.base != 0xFFFF

/-- `uint32(r.Base) * RegionBlockSize` (no wrap: base < 2^16) -/
def FRegion.baseOff (r : FRegion) : Nat := r.base * blockSize
/-- `(uint32(r.Limit) + 1) * RegionBlockSize` (no wrap) -/
def FRegion.endOff (r : FRegion) : Nat := (r.limit + 1) * blockSize

/-! ### descriptor (flash.go ParseFlashDescriptor, assemble.go case FlashDescriptor) -/

structure Desc where
  buf         : Bytes
  mapStart    : Nat
  dmap        : Bytes          -- the 16 bytes of the FlashDescriptorMap struct
  regionStart : Nat
  masterStart : Nat
  eraseSize   : Nat            -- FlashBlockEraseSize
  regs        : List FRegion   -- FlashRegions [15]
  master      : Bytes          -- the 12 bytes of the FlashMasterSection struct
  deriving Repr, DecidableEq, Inhabited

def findSignature (b : Bytes) : Option Nat :=
  if b.length < 20 then none
  else if slice b 16 4 = flashSig then some 20
  else if slice b 0 4 = flashSig then some 4
  else none

def decodeRegs : Nat → Bytes → List FRegion
  | 0, _ => []
  | n+1, b => ⟨fromLE (slice b 0 2), fromLE (slice b 2 2)⟩ :: decodeRegs n (b.drop 4)

def encodeRegs (rs : List FRegion) : Bytes := rs.flatMap (fun r => leN 2 r.base ++ leN 2 r.limit)

/-- `binary.Write(region, LittleEndian, f.Region)` without its first two bytes (`region.Bytes()[2:]`):
    the blank `_ uint16` would be written as zero, the repaired Assemble (fix d9ba762, DESIGN §8 #19)
    keeps the two reserved bytes of the buffer instead. -/
def encodeRegionTail (d : Desc) : Bytes := leN 2 d.eraseSize ++ encodeRegs d.regs

def Desc.numberOfRegions (d : Desc) : Nat := fromLE (slice d.dmap 3 1)

def parseDesc (b : Bytes) : Except Err Desc :=
  if b.length ≠ descLen then .error .parse else
  match findSignature b with
  | none => .error .parse
  | some ms =>
    let dmap := slice b ms mapSize
    let regionStart := fromLE (slice dmap 2 1) * 16
    let regionEnd := regionStart + regionSectionSize
    if regionStart ≥ descLen ∨ regionEnd ≥ descLen then .error .parse else
    let sec := slice b regionStart regionSectionSize
    let masterStart := fromLE (slice dmap 4 1) * 16
    .ok { buf := b, mapStart := ms, dmap := dmap, regionStart := regionStart, masterStart := masterStart,
          eraseSize := fromLE (slice sec 2 2), regs := decodeRegs nRegions (sec.drop 4),
          master := slice b masterStart masterSize }

/-- the three `copy`s of the FlashDescriptor case, in Go's order; the region section is written from
    its third byte on: `copy(fBuf[RegionStart+2:RegionStart+64], region.Bytes()[2:])` -/
def asmDesc (d : Desc) : Bytes :=
  splice (splice (splice d.buf d.mapStart d.dmap) (d.regionStart + 2) (encodeRegionTail d)) d.masterStart d.master

/-! ### ME region (meregion.go) -/

structure Entry where
  offset : Nat   -- uint32
  length : Nat   -- uint32
  deriving Repr, DecidableEq, Inhabited

def Entry.offsetValid (e : Entry) : Bool := e.offset != 0 && e.offset != 0xFFFFFFFF

/-- `bytes.Index(buf, pat)` (+ acc) for a non-empty pattern -/
def indexOf (pat : Bytes) : Bytes → Nat → Option Nat
  | [], _ => none
  | x :: xs, i => if pat.isPrefixOf (x :: xs) then some i else indexOf pat xs (i + 1)

def parseEntries : Nat → Bytes → List Entry
  | 0, _ => []
  | n+1, b => ⟨fromLE (slice b 8 4), fromLE (slice b 12 4)⟩ :: parseEntries n (b.drop fptEntryLen)

/-- `NewMEFPT`: `none` = any of its error returns (NewMERegion then only logs) -/
def parseFPT (buf : Bytes) : Option (List Entry) :=
  match indexOf fptSig buf 0 with
  | none => none
  | some i =>
    let o := i + 4
    if buf.length < o + fptHeaderMin then none else
    let cnt := fromLE (slice buf o 4)
    let ms := o + fptHeaderMin
    if buf.length < ms + fptEntryLen * cnt then none else
    some (parseEntries cnt (buf.drop ms))

/-- the `FreeSpaceOffset` loop of NewMERegion (uint64, cannot wrap: each term < 2^33) -/
def freeOf (es : List Entry) : Nat :=
  es.foldl (fun acc e => if e.offsetValid ∧ e.offset + e.length > acc then e.offset + e.length else acc) 0

/-! ### BIOS region (biosregion.go, firmwarevolume.go) -/

structure Elem where
  isFV : Bool
  off  : Nat      -- BIOSPadding.Offset / FirmwareVolume.FVOffset
  buf  : Bytes
  pol  : Nat      -- volume: its erase polarity (0xFF / 0x00); padding: 0
  files : Bool := false   -- volume: it has parsed files (Assemble would re-lay it: not modelled here)
  deriving Repr, DecidableEq, Inhabited

/-- `uefi.SetErasePolarity` (SuppressErasePolarityError = false); `ep` is 0xFF or 0 here -/
def setPolarity (pol ep : Nat) : Except Err Nat :=
  if pol ≠ poisoned then (if pol ≠ ep then .error .parse else .ok pol) else .ok ep

/-- what this model keeps of an element of the shared tree -/
def toElem : Uefi.BiosElem → Elem
  | .pad b o => ⟨false, o, b, 0, false⟩
  | .fv v => ⟨true, v.info.fvOffset, v.buf, (Uefi.polOfAttrs v.info.attrs).toNat, !v.files.isEmpty⟩

/-- `NewBIOSRegion` = the shared parse model's element loop (FindFirmwareVolumeOffset,
    NewFirmwareVolume with its files and sections), flattened; `fuel` is the shared model's
    recursion budget (`Uefi.defaultFuel` of the whole image) -/
def parseBios (fuel pol : Nat) (buf : Bytes) : Except Err (List Elem × Nat) :=
  match Uefi.parseBiosElems Uefi.Hooks.none fuel buf 0 { pol := UInt8.ofNat pol } with
  | .error _ => .error .parse
  | .ok (es, st) => .ok (es.map toElem, st.pol.toNat)

/-! ### the tree -/

inductive Ref where
  | idx (k : Nat)        -- pointer to `f.IFD.Region.FlashRegions[k]`
  | own (fr : FRegion)   -- a gap region's private FlashRegion
  deriving Repr, DecidableEq, Inhabited

inductive Body where
  | bios (length : Nat) (elems : List Elem)
  | me (fpt : Option (List Entry)) (free : Nat)
  | raw
  deriving Repr, DecidableEq, Inhabited

structure Region where
  ref  : Ref
  body : Body
  buf  : Bytes
  deriving Repr, DecidableEq, Inhabited

structure Flash where
  desc    : Desc
  regions : List Region
  size    : Nat      -- FlashSize
  buf     : Bytes
  deriving Repr, DecidableEq, Inhabited

def Body.isME : Body → Bool | .me _ _ => true | _ => false
def Body.isBIOS : Body → Bool | .bios _ _ => true | _ => false

/-- the FlashRegion a region points to -/
def frOf (regs : List FRegion) (r : Region) : Except Err FRegion :=
  match r.ref with
  | .own fr => .ok fr
  | .idx k => match regs[k]? with
    | some fr => .ok fr
    | none => .error .badRef

/-! ### NewFlashImage -/

/-- the region loop of NewFlashImage from table index `i` on -/
def parseRegions (img : Bytes) (nr : Nat) : Nat → List FRegion → Nat → Except Err (List Region × Nat)
  | _, [], pol => .ok ([], pol)
  | i, fr :: frs, pol =>
    if nr ≠ 0 ∧ i ≥ nr then .ok ([], pol) else
    if ! fr.valid then parseRegions img nr (i + 1) frs pol else
    if fr.baseOff ≥ img.length then parseRegions img nr (i + 1) frs pol else
    if fr.endOff > img.length then parseRegions img nr (i + 1) frs pol else
    let buf := slice img fr.baseOff (fr.endOff - fr.baseOff)
    if i = 0 then
      match parseBios (Uefi.defaultFuel img) pol buf with
      | .error e => .error e
      | .ok (els, pol') =>
        match parseRegions img nr (i + 1) frs pol' with
        | .error e => .error e
        | .ok (rs, pol'') => .ok (⟨.idx i, .bios buf.length els, buf⟩ :: rs, pol'')
    else
      let body : Body := if i = 1 then
          (match parseFPT buf with
           | none => .me none 0
           | some es => .me (some es) (freeOf es))
        else .raw
      match parseRegions img nr (i + 1) frs pol with
      | .error e => .error e
      | .ok (rs, pol'') => .ok (⟨.idx i, body, buf⟩ :: rs, pol'')

/-- stable insertion sort (Go: `sort.Slice`, which is an insertion sort up to 12 elements) -/
def insertBy {α} (key : α → Nat) (x : α) : List α → List α
  | [] => [x]
  | y :: ys => if key y < key x then y :: insertBy key x ys else x :: y :: ys

def isort {α} (key : α → Nat) : List α → List α
  | [] => []
  | x :: xs => insertBy key x (isort key xs)

def gapRegion (img : Bytes) (off next : Nat) : Region :=
  ⟨.own ⟨u16 (off / blockSize), u16 (u16 (next / blockSize) + 65535)⟩, .raw, slice img off (next - off)⟩

/-- `fillRegionGaps` -/
def fillGaps (regs : List FRegion) (img : Bytes) (size : Nat) : Nat → List Region → Except Err (List Region)
  | off, [] => if off ≠ size then .ok [gapRegion img off size] else .ok []
  | off, r :: rs =>
    match frOf regs r with
    | .error e => .error e
    | .ok fr =>
      if fr.baseOff < off then .error .parse else
      match fillGaps regs img size fr.endOff rs with
      | .error e => .error e
      | .ok rest => .ok ((if fr.baseOff > off then [gapRegion img off fr.baseOff] else []) ++ r :: rest)

/-- sort key of a region: the Base of its FlashRegion (a dangling reference is reported before
    sorting, see `checkRefs`) -/
def baseKey (regs : List FRegion) (r : Region) : Nat :=
  match frOf regs r with
  | .ok fr => fr.base
  | .error _ => 0

def checkRefs (regs : List FRegion) : List Region → Except Err Unit
  | [] => .ok ()
  | r :: rs => match frOf regs r with
    | .error e => .error e
    | .ok _ => checkRefs regs rs

/-- `uefi.Parse` for an image that carries a flash signature, starting from global polarity `pol` -/
def parseFlash (pol : Nat) (img : Bytes) : Except Err (Flash × Nat) :=
  match findSignature img with
  | none => .error .notFlash
  | some _ =>
    if img.length < descLen then .error .parse else
    match parseDesc (img.take descLen) with
    | .error e => .error e
    | .ok d =>
      match d.regs with
      | [] => .error .badRef
      | r0 :: _ =>
        if ! r0.valid then .error .parse else
        match parseRegions img d.numberOfRegions 0 d.regs pol with
        | .error e => .error e
        | .ok (rs, pol') =>
          match fillGaps d.regs img img.length descLen (isort (baseKey d.regs) rs) with
          | .error e => .error e
          | .ok rs' => .ok ({ desc := d, regions := rs', size := img.length, buf := img }, pol')

/-! ### TightenME (tightenme.go) -/

/-- index of the last element satisfying `p` (the visitor keeps the last node of each kind) -/
def lastIdx {α} (p : α → Bool) : List α → Option Nat
  | [] => none
  | x :: xs => match lastIdx p xs with
    | some k => some (k + 1)
    | none => if p x then some 0 else none

def isErased (b : Bytes) (pol : Nat) : Bool := b.all (fun x => x.toNat == pol)

def setRegBase (regs : List FRegion) (k v : Nat) : List FRegion :=
  match regs[k]? with
  | some fr => regs.set k { fr with base := v }
  | none => regs
def setRegLimit (regs : List FRegion) (k v : Nat) : List FRegion :=
  match regs[k]? with
  | some fr => regs.set k { fr with limit := v }
  | none => regs

/-- write through a region's FlashRegion pointer -/
def writeLimit (f : Flash) (i : Nat) (r : Region) (v : Nat) : Flash :=
  match r.ref with
  | .idx k => { f with desc := { f.desc with regs := setRegLimit f.desc.regs k v } }
  | .own fr => { f with regions := f.regions.set i { r with ref := .own { fr with limit := v } } }
def writeBase (f : Flash) (i : Nat) (r : Region) (v : Nat) : Flash :=
  match r.ref with
  | .idx k => { f with desc := { f.desc with regs := setRegBase f.desc.regs k v } }
  | .own fr => { f with regions := f.regions.set i { r with ref := .own { fr with base := v } } }

/-- the numbers `process` computes from the ME FlashRegion and FreeSpaceOffset (uint64) -/
def updateBase (meBaseOff free : Nat) : Nat := u64 (u64 (u64 (meBaseOff + free) + blockSize - 1) / blockSize)
def updateOffset (meBaseOff free : Nat) : Nat := u64 (updateBase meBaseOff free * blockSize)
def bufOffset (meBaseOff free : Nat) : Nat := u64 (updateOffset meBaseOff free + 2 ^ 64 - meBaseOff)

def shiftElems (s : Nat) (es : List Elem) : List Elem := es.map (fun e => { e with off := u64 (e.off + s) })

/-- `TightenME.Run` on a flash image tree (`fd ≠ nil`), with global erase polarity `pol`.
    Every error return precedes the first mutation; the repaired bounds check is `beyond`. -/
def tighten (pol : Nat) (f : Flash) : Except Err Flash :=
  match lastIdx (fun r => r.body.isME) f.regions with
  | none => .error .noME
  | some i =>
  match lastIdx (fun r => r.body.isBIOS) f.regions with
  | none => .error .noBIOS
  | some j =>
  match f.regions[i]?, f.regions[j]? with
  | some mer, some br =>
    match mer.body, br.body with
    | .me _ free, .bios blen elems =>
      match frOf f.desc.regs mer, frOf f.desc.regs br with
      | .ok mfr, .ok bfr =>
        if mfr.endOff ≠ bfr.baseOff then .error .notContiguous else
        let ub := updateBase mfr.baseOff free
        let uo := updateOffset mfr.baseOff free
        let bo := bufOffset mfr.baseOff free
        if bo > mer.buf.length then .error .beyond else        -- repaired: was a slice panic
        if ! isErased (mer.buf.drop bo) pol then .error .notErased else
        -- v.mer.FRegion.Limit = uint16(updateBase - 1); v.mer.SetBuf(buf[:bufOffset])
        let mer' : Region := { mer with buf := mer.buf.take bo }
        let f1 := writeLimit { f with regions := f.regions.set i mer' } i mer' (u16 (u64 (ub + 2 ^ 64 - 1)))
        -- offsetShift := uint64(br.BaseOffset()) - updateOffset   (BaseOffset read before Base is written)
        let shift := u64 (bfr.baseOff + 2 ^ 64 - uo)
        -- the new leading BIOSPadding; repaired (fixes/C12-empty-leading-padding.diff): none when
        -- nothing was freed — an empty padding would record offset 0 like the element behind it
        let pads : List Elem := if bo < mer.buf.length then [⟨false, 0, mer.buf.drop bo, 0, false⟩] else []
        -- the ME write may have replaced the BIOS node's own FlashRegion only if i = j (impossible)
        let br' : Region := { br with body := .bios (u64 (blen + shift)) (pads ++ shiftElems shift elems) }
        let f2 := writeBase { f1 with regions := f1.regions.set j br' } j br' (u16 ub)
        .ok f2
      | .error e, _ => .error e
      | _, .error e => .error e
    | _, _ => .error .badRef
  | _, _ => .error .badRef

/-! ### Assemble (assemble.go) -/

def firstFVPol : List Elem → Option Nat
  | [] => none
  | e :: es => if e.isFV then some e.pol else firstFVPol es

/-- the element copy loop of the BIOSRegion case; `panic` when an element does not fit -/
def copyElems (fBuf : Bytes) : Nat → List Elem → Except Err Bytes
  | _, [] => .ok fBuf
  | off, e :: es =>
    if off + e.buf.length > fBuf.length then .error .panic
    else copyElems (splice fBuf off e.buf) (off + e.buf.length) es

/-- every volume's `SetErasePolarity(f.GetErasePolarity())` in Assemble.Visit (a volume without
    files is a leaf: its buffer is kept; one with files is outside this model) -/
def asmVolumes : Nat → List Elem → Except Err Nat
  | pol, [] => .ok pol
  | pol, e :: es =>
    if e.isFV then
      if e.files then .error .unmodelled else
      match setPolarity pol e.pol with
      | .error _ => .error .asm
      | .ok pol' => asmVolumes pol' es
    else asmVolumes pol es

/-- case *uefi.BIOSRegion (after its children) -/
def asmBios (pol : Nat) (length : Nat) (elems : List Elem) : Except Err (Bytes × Nat) :=
  match asmVolumes pol elems with
  | .error e => .error e
  | .ok pol1 =>
    match firstFVPol elems with
    | none => .error .asm
    | some ep =>
      match setPolarity pol1 ep with
      | .error _ => .error .asm
      | .ok pol2 =>
        match copyElems (List.replicate length (UInt8.ofNat pol2)) 0 elems with
        | .error e => .error e
        | .ok b => .ok (b, pol2)

/-- children of the FlashImage after the descriptor: every region in list order -/
def asmRegions : Nat → List Region → Except Err (List Region × Nat)
  | pol, [] => .ok ([], pol)
  | pol, r :: rs =>
    match r.body with
    | .bios length elems =>
      match asmBios pol length elems with
      | .error e => .error e
      | .ok (b, pol') =>
        match asmRegions pol' rs with
        | .error e => .error e
        | .ok (rs', pol'') => .ok ({ r with buf := b } :: rs', pol'')
    | _ =>
      match asmRegions pol rs with
      | .error e => .error e
      | .ok (rs', pol'') => .ok (r :: rs', pol'')

/-- "Point FlashRegion to struct read from IFD": BIOS → slot 0, ME → slot 1 (`nr ≠ 0 ∧ type > nr`
    cannot hold for them when nr ≥ 1), raw regions keep a slot that exists (their type is the slot
    index), gap regions (type Unknown) and slots beyond `nr` are skipped. -/
def repoint (nr : Nat) (r : Region) : Region :=
  match r.body with
  | .bios _ _ => { r with ref := .idx 0 }
  | .me _ _ => if nr ≠ 0 ∧ 1 > nr then r else { r with ref := .idx 1 }
  | .raw => r

/-- the tiling check and concatenation of the FlashImage case -/
def tileConcat (regs : List FRegion) (size : Nat) : Nat → List Region → Except Err Bytes
  | off, [] => if off ≠ size then .error .asm else .ok []
  | off, r :: rs =>
    match frOf regs r with
    | .error e => .error e
    | .ok fr =>
      if fr.baseOff < off then .error .asm else
      if fr.baseOff > off then .error .asm else
      match tileConcat regs size fr.endOff rs with
      | .error e => .error e
      | .ok rest => .ok (r.buf ++ rest)

/-- `Assemble.Run` on a flash image: the updated tree, the image bytes (`f.Buf()`), the polarity -/
def asmFlash (pol : Nat) (f : Flash) : Except Err (Flash × Nat) :=
  let dbuf := asmDesc f.desc
  match asmRegions pol f.regions with
  | .error e => .error e
  | .ok (rs, pol') =>
    match f.desc.regs with
    | [] => .error .badRef
    | r0 :: _ =>
      if ! r0.valid then .error .asm else
      let rs1 := rs.map (repoint f.desc.numberOfRegions)
      match checkRefs f.desc.regs rs1 with
      | .error e => .error e
      | .ok () =>
        let rs2 := isort (baseKey f.desc.regs) rs1
        match tileConcat f.desc.regs f.size descLen rs2 with
        | .error e => .error e
        | .ok body =>
          .ok ({ f with desc := { f.desc with buf := dbuf }, regions := rs2, buf := dbuf ++ body }, pol')

end Fiano.TightenMe
