/-
  C12 (wp-c12c, task 3): the order of regions with EQUAL Base in Assemble's `sort.Slice`.

  Go sorts the (at most 15 + gaps ≤ 12 in practice) regions with its insertion sort, which is
  stable: a region that came first stays first among equal keys.  The shared model's
  `Uefi.sortRegions = foldr Uefi.insertRegion []` inserts the EARLIER element BEHIND the later equal
  ones (`if key r < key x then r :: x :: xs else x :: insertRegion r xs`), i.e. it reverses every run
  of equal keys.  The only reachable tree with two equal keys is the one `tighten_me` leaves when it
  shrinks the ME region to nothing: `[ME (Base b, Limit b-1, empty), BIOS (Base b, …)]`.  Go keeps the
  order and saves; the shared model swaps them, the tiling check then sees the (empty) ME extent
  starting below the end of the BIOS region and reports an overlap.

  Here:
   * `insertRegionS` / `sortRegionsS` — what `Uefi.insertRegion` / `Uefi.sortRegions` would have to
     become (one character: `<` → `≤`); `sortRegionsS_eq_isort`: it IS the stable insertion sort
     `isort baseOf` that `Tree.asmFlashT` uses, on every list;
   * `asmFlashS` — `Uefi.asmFlash` with that sort; `asmFlashS_eq_asmFlashT`: equal to `asmFlashT`
     on EVERY tree and state (no hypothesis);
   * `exEmpty` — the well-formed (`TWF`) tree `tighten_me` makes of `exTree` when the ME region has
     no partition table: its ME extent is empty, `asmFlashT` saves it, `Uefi.asmFlash` does not
     (`exEmpty_disagree`): the hypothesis "no region is empty" of
     `asmFlashT_agrees_with_shared_model` cannot be dropped.
-/
import FianoModel.TightenMe.TreeMore
import FianoModel.TightenMe.TreeExample

namespace Fiano.TightenMe.T
open Fiano

/-! ### the stable variant of the shared sort -/

/-- `Uefi.insertRegion` with `≤`: the inserted (earlier) region goes IN FRONT of equal keys -/
def insertRegionS (r : Uefi.Region) : List Uefi.Region → List Uefi.Region
  | [] => [r]
  | x :: xs =>
    if (r.fr.map (·.base)).getD 0 ≤ (x.fr.map (·.base)).getD 0 then r :: x :: xs
    else x :: insertRegionS r xs

def sortRegionsS (rs : List Uefi.Region) : List Uefi.Region := rs.foldr insertRegionS []

theorem insertRegionS_eq (r : Uefi.Region) (l : List Uefi.Region) : insertRegionS r l = insertBy baseOf r l := by
  induction l with
  | nil => rfl
  | cons x xs ih =>
    simp only [insertRegionS, insertBy, baseOf]
    by_cases hc : (r.fr.map (·.base)).getD 0 ≤ (x.fr.map (·.base)).getD 0
    · have hn : ¬ (x.fr.map (·.base)).getD 0 < (r.fr.map (·.base)).getD 0 := by omega
      simp only [hc, if_true, hn, if_false]
    · have hn : (x.fr.map (·.base)).getD 0 < (r.fr.map (·.base)).getD 0 := by omega
      simp only [hc, if_false, hn, if_true]
      rw [ih]

/-- **the `≤` variant is the stable insertion sort Go runs**, on every list -/
theorem sortRegionsS_eq_isort (l : List Uefi.Region) : sortRegionsS l = isort baseOf l := by
  induction l with
  | nil => rfl
  | cons x xs ih =>
    have e : sortRegionsS (x :: xs) = insertRegionS x (sortRegionsS xs) := rfl
    rw [e, ih, insertRegionS_eq]
    rfl

/-- `Uefi.asmFlash` (copied verbatim from Uefi/Assemble.lean) with `sortRegionsS` in place of
    `Uefi.sortRegions`: what the shared FlashImage case becomes under the proposed diff -/
def asmFlashS (h : Uefi.Hooks) (f : Uefi.Flash) (st : Uefi.St) : Except Uefi.Err (Uefi.Flash × Uefi.St) :=
  match Uefi.asmDescriptor f.ifd with
  | .error e => .error e
  | .ok ifd =>
    match Uefi.asmRegions h f.regions st with
    | .error e => .error e
    | .ok (rs, st) =>
      match ifd.region.regions with
      | [] => .error .panic
      | bios :: _ =>
        if ¬ bios.valid then .error .err else
        let rs := sortRegionsS (rs.map (Uefi.repoint ifd.region.regions ifd.map.numberOfRegions))
        match Uefi.tileRegions rs 4096 ifd.buf with
        | .error e => .error e
        | .ok (buf, offset) =>
          if offset ≠ f.flashSize then .error .err
          else .ok ({ f with buf := buf, ifd := ifd, regions := rs }, st)

/-- **with the stable sort the shared Assemble IS `asmFlashT`** — every tree, every state, empty
    regions included -/
theorem asmFlashS_eq_asmFlashT (h : Uefi.Hooks) (f : Uefi.Flash) (st : Uefi.St) :
    asmFlashS h f st = asmFlashT h f st := by
  unfold asmFlashS asmFlashT
  simp only [sortRegionsS_eq_isort]
  rfl

/-- the two sorts agree whenever the keys are pairwise different… -/
theorem sortRegions_eq_sortRegionsS_of_strict (l : List Uefi.Region)
    (h : l.Pairwise (fun a b => baseOf a < baseOf b)) : Uefi.sortRegions l = sortRegionsS l := by
  rw [sortRegions_sorted l h, sortRegionsS_eq_isort, isort_sorted baseOf l (h.imp (fun h => Nat.le_of_lt h))]

/-- …and differ on two equal keys: the shared sort swaps them, Go does not -/
theorem sortRegions_swaps_equal_keys (a b : Uefi.Region) (h : baseOf a = baseOf b) :
    Uefi.sortRegions [a, b] = [b, a] ∧ sortRegionsS [a, b] = [a, b] := by
  simp only [baseOf] at h
  constructor
  · simp only [Uefi.sortRegions, List.foldr_cons, List.foldr_nil, Uefi.insertRegion, h, Nat.lt_irrefl, if_false]
  · simp only [sortRegionsS, List.foldr_cons, List.foldr_nil, insertRegionS, h, Nat.le_refl, if_true]

/-! ### the witness: `tighten_me` shrinks the ME region of `exTree` to nothing -/

/-- `exTree` seen without a partition table (its ME buffer is erased from the first byte, so
    `parseFPT` finds none and NewMERegion leaves FreeSpaceOffset 0) -/
def exFlash0 : Flash :=
  { exFlash with regions := [⟨.idx 1, .me none 0, ffs 12288⟩,
                             ⟨.idx 0, .bios 4096 [⟨true, 0, ffs 4096, 0xFF, false⟩], ffs 4096⟩] }

theorem exFlash0_wf : WF exFlash0 := by
  have w := exFlash_wf
  refine
    { geom := w.geom, u16 := w.u16, chain := ?_, meRef := ?_, biosRef := ?_, rawRef := ?_, oneME := ?_, oneBIOS := ?_,
      pos := ?_, bios := ?_, me := ?_ }
  · simp [exFlash0, exFlash, Chain, frOf, payload, FRegion.baseOff, FRegion.endOff, blockSize, descLen]
  · intro r hr hme
    simp only [exFlash0, List.mem_cons, List.not_mem_nil, or_false] at hr
    rcases hr with rfl | rfl
    · rfl
    · simp [Body.isME] at hme
  · intro r hr hb
    simp only [exFlash0, List.mem_cons, List.not_mem_nil, or_false] at hr
    rcases hr with rfl | rfl
    · simp [Body.isBIOS] at hb
    · rfl
  · intro r hr hb
    simp only [exFlash0, List.mem_cons, List.not_mem_nil, or_false] at hr
    rcases hr with rfl | rfl <;> simp at hb
  · intro a b x y hx hy px py
    match a, b with
    | 0, 0 => rfl
    | 0, 1 => simp [exFlash0] at hy; subst hy; simp [Body.isME] at py
    | 1, 0 => simp [exFlash0] at hx; subst hx; simp [Body.isME] at px
    | 1, 1 => rfl
    | a + 2, _ => simp [exFlash0] at hx
    | _, b + 2 => simp [exFlash0] at hy
  · intro a b x y hx hy px py
    match a, b with
    | 0, 0 => rfl
    | 0, 1 => simp [exFlash0] at hx; subst hx; simp [Body.isBIOS] at px
    | 1, 0 => simp [exFlash0] at hy; subst hy; simp [Body.isBIOS] at py
    | 1, 1 => rfl
    | a + 2, _ => simp [exFlash0] at hx
    | _, b + 2 => simp [exFlash0] at hy
  · intro r hr hnm fr hfr
    simp only [exFlash0, List.mem_cons, List.not_mem_nil, or_false] at hr
    rcases hr with rfl | rfl
    · simp [Body.isME] at hnm
    · simp [frOf, exFlash0, exFlash] at hfr; subst hfr; simp [FRegion.baseOff, FRegion.endOff, blockSize]
  · intro r hr len els hb
    simp only [exFlash0, List.mem_cons, List.not_mem_nil, or_false] at hr
    rcases hr with rfl | rfl
    · simp at hb
    · simp at hb; obtain ⟨rfl, rfl⟩ := hb; simp
  · intro r hr fpt free hb
    simp only [exFlash0, List.mem_cons, List.not_mem_nil, or_false] at hr
    rcases hr with rfl | rfl
    · simp at hb; obtain ⟨rfl, rfl⟩ := hb
      exact ⟨rfl, by decide⟩
    · simp at hb

set_option maxRecDepth 100000 in
theorem exTree_abs0 : absFlash none 0 exTree = exFlash0 := by
  unfold absFlash exTree exFlash0 exFlash
  simp only [absDesc, absRegion, absElem, toElem, absFR, exInfo, exUnused, List.map_cons, List.map_nil,
    List.map_replicate, Uefi.Fv.info, Uefi.Fv.buf, Uefi.Fv.files]
  have h1 : List.replicate 16 (Uefi.byte 0) = [0,0,0,0,0,0,0,0,0,0,0,0,0,0,0,0] := by decide
  have h2 : Uefi.encodePerms [(0, 0, 0), (0, 0, 0), (0, 0, 0)] = [0,0,0,0,0,0,0,0,0,0,0,0] := by decide
  have h3 : (Uefi.polOfAttrs 2048).toNat = 255 := by decide
  simp only [h1, h2, h3]

theorem exTree_twf0 : TWF none 0 exTree :=
  ⟨by rw [exTree_abs0]; exact exFlash0_wf, exTree_twf.al⟩

/-- what `tighten_me` makes of `exTree` when FreeSpaceOffset is 0: ME `Base 1, Limit 0` with an empty
    buffer, BIOS `Base 1, Limit 4` with the three freed blocks as leading padding -/
def exEmpty : Uefi.Flash :=
  match tightenFlash 0 0xFF exTree with
  | .ok f' => f'
  | .error _ => exTree

def okB {ε α} : Except ε α → Bool
  | .ok _ => true
  | .error _ => false

theorem exTree_tightens0 : okB (tightenFlash 0 0xFF exTree) = true := by decide +kernel

theorem exEmpty_eq : tightenFlash 0 0xFF exTree = .ok exEmpty := by
  have hk := exTree_tightens0
  unfold exEmpty
  cases h : tightenFlash 0 0xFF exTree with
  | ok f' => rfl
  | error e => rw [h] at hk; cases hk

theorem exEmpty_twf : TWF none 0 exEmpty := twf_tighten none 0 0xFF exTree exEmpty exTree_twf0 exEmpty_eq

/-- the ME node of `exEmpty` has an empty extent and is followed by the BIOS node with the same Base -/
theorem exEmpty_has_empty_region :
    (exEmpty.regions.map (fun r => (isME r, baseOf r, (r.fr.map (fun fr => (fr.baseOffset, fr.endOffset))),
      r.buf.length))) = [(true, 1, some (4096, 4096), 0), (false, 1, some (4096, 20480), 4096)] := by
  decide +kernel

/-- **the hypothesis of `asmFlashT_agrees_with_shared_model` cannot be dropped**: on the well-formed
    tree `exEmpty` (empty ME extent) Go's Assemble — `asmFlashT`, confirmed by T2 on corpus/C12/11 and
    the generated `ok:shrunk-to-nothing` cases — saves a 20480-byte image, the shared `Uefi.asmFlash`
    reports an error, and the shared model with the stable sort (`asmFlashS`) saves like Go. -/
theorem exEmpty_disagree :
    okB (asmFlashT Uefi.Hooks.none exEmpty { pol := 0xFF }) = true ∧
    okB (Uefi.asmFlash Uefi.Hooks.none exEmpty { pol := 0xFF }) = false ∧
    okB (asmFlashS Uefi.Hooks.none exEmpty { pol := 0xFF }) = true := by
  refine ⟨by decide +kernel, by decide +kernel, ?_⟩
  rw [asmFlashS_eq_asmFlashT]
  decide +kernel

end Fiano.TightenMe.T
