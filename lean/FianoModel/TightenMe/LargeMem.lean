/-
  C12 (wp-c12c, task 4): the IN-MEMORY statements for images larger than 2^28 bytes, with the
  wrapped Limit of the last gap region made explicit.

  `uefi.Parse` accepts an image of more than 65536 blocks: every table slot ends at or below 2^28
  (16-bit Limit), so `fillRegionGaps` appends ONE last gap region `[m, size)` whose private
  FlashRegion is `{Base: uint16(m/4096), Limit: uint16(uint16(size/4096) - 1)}` — both wrapped, its
  `EndOffset()` is NOT `size`, and `WF` (whose `Chain` demands that the FlashRegions tile the image)
  fails for the tree.  But that region is the only thing wrong:

   * `parse_large`: the parsed tree of such an image is `ext core gap size` — a tree `core` of size
     `m ≤ 2^28` that IS well-formed (`WF core`: what parsing the first `m` bytes describes), plus
     the last gap region, whose FlashRegion is given explicitly (`gapRegion img m size`) and whose
     buffer is `img.drop m`;
   * `tighten_ext`: `tighten_me` does not look at a trailing raw region or at the size:
     `tighten pol (ext core x n) = .ok F` iff `tighten pol core = .ok core'` and `F = ext core' x n`.

  Hence every in-memory theorem of Props/C12 (`c12_boundary`, `c12_partitions_inside`,
  `c12_freed_is_erased_bios_padding`, `c12_descriptor_diff`, `c12_refuses_*`, `c12_idempotent`, …)
  holds for `core`/`core'`, and the tree Go holds is `core'` with the untouched gap region appended.
  (Nothing of this is ever written: `c12_large_image_never_saved`.)
-/
import FianoModel.TightenMe.Large

namespace Fiano.TightenMe

/-- a tree with one more region at the end and another FlashSize -/
def ext (f : Flash) (x : Region) (n : Nat) : Flash :=
  { f with regions := f.regions ++ [x], size := n }

/-! ### `tighten_me` ignores a trailing raw region and the size -/

theorem lastIdx_snoc_false {α} (p : α → Bool) (l : List α) (x : α) (hx : p x = false) :
    lastIdx p (l ++ [x]) = lastIdx p l := by
  induction l with
  | nil => simp [lastIdx, hx]
  | cons y ys ih => simp only [List.cons_append, lastIdx, ih]

theorem lastIdx_lt {α} (p : α → Bool) (l : List α) (i : Nat) (h : lastIdx p l = some i) : i < l.length := by
  induction l generalizing i with
  | nil => simp [lastIdx] at h
  | cons y ys ih =>
    simp only [lastIdx] at h
    split at h
    · rename_i k hk
      injection h with h; subst h
      have := ih k hk
      simp only [List.length_cons]; omega
    · split at h
      · injection h with h; subst h; simp
      · cases h

theorem set_snoc {α} (l : List α) (x a : α) (i : Nat) (h : i < l.length) : (l ++ [x]).set i a = l.set i a ++ [x] :=
  List.set_append_left i a h

theorem tightened_ext (f : Flash) (x : Region) (n i j : Nat) (mer br : Region) (free blen : Nat) (elems : List Elem)
    (mfr bfr : FRegion) (hi : i < f.regions.length) (hj : j < f.regions.length) :
    tightened (ext f x n) i j mer br free blen elems mfr bfr =
      ext (tightened f i j mer br free blen elems mfr bfr) x n := by
  unfold tightened ext writeLimit writeBase
  cases hm : mer.ref with
  | idx k =>
    cases hb : br.ref with
    | idx k2 => simp (disch := first | assumption | (simp only [List.length_set]; assumption)) only [hm, hb, set_snoc]
    | own fr2 => simp (disch := first | assumption | (simp only [List.length_set]; assumption)) only [hm, hb, set_snoc]
  | own fr1 =>
    cases hb : br.ref with
    | idx k2 => simp (disch := first | assumption | (simp only [List.length_set]; assumption)) only [hm, hb, set_snoc]
    | own fr2 => simp (disch := first | assumption | (simp only [List.length_set]; assumption)) only [hm, hb, set_snoc]

/-- **`tighten_me` on a tree with a trailing raw region (the wrapped gap) and any FlashSize is
    `tighten_me` on the tree without it** -/
theorem tighten_ext (pol : Nat) (f : Flash) (x : Region) (n : Nat) (hx : x.body = .raw) (F : Flash) :
    tighten pol (ext f x n) = .ok F ↔ ∃ f', tighten pol f = .ok f' ∧ F = ext f' x n := by
  have hxm : (fun r : Region => r.body.isME) x = false := by simp [hx, Body.isME]
  have hxb : (fun r : Region => r.body.isBIOS) x = false := by simp [hx, Body.isBIOS]
  constructor
  · intro h
    obtain ⟨i, j, mer, br, fpt, free, blen, elems, mfr, bfr, hi, hj, hmer, hbr, hmb, hbb, hmfr, hbfr, hadj, hbo, her, hF⟩ :=
      tighten_ok_inv pol _ F h
    simp only [ext] at hi hj hmer hbr hmfr hbfr
    rw [lastIdx_snoc_false (fun r : Region => r.body.isME) f.regions x hxm] at hi
    rw [lastIdx_snoc_false (fun r : Region => r.body.isBIOS) f.regions x hxb] at hj
    have hil := lastIdx_lt _ _ _ hi
    have hjl := lastIdx_lt _ _ _ hj
    rw [List.getElem?_append_left hil] at hmer
    rw [List.getElem?_append_left hjl] at hbr
    refine ⟨_, tighten_of pol f i j mer br fpt free blen elems mfr bfr hi hj hmer hbr hmb hbb hmfr hbfr hadj hbo her, ?_⟩
    rw [hF]
    exact tightened_ext f x n i j mer br free blen elems mfr bfr hil hjl
  · rintro ⟨f', h, rfl⟩
    obtain ⟨i, j, mer, br, fpt, free, blen, elems, mfr, bfr, hi, hj, hmer, hbr, hmb, hbb, hmfr, hbfr, hadj, hbo, her, hF⟩ :=
      tighten_ok_inv pol f f' h
    have hil := lastIdx_lt _ _ _ hi
    have hjl := lastIdx_lt _ _ _ hj
    rw [hF, ← tightened_ext f x n i j mer br free blen elems mfr bfr hil hjl]
    exact tighten_of pol (ext f x n) i j mer br fpt free blen elems mfr bfr
      (by simp only [ext]; rw [lastIdx_snoc_false (fun r : Region => r.body.isME) f.regions x hxm]; exact hi)
      (by simp only [ext]; rw [lastIdx_snoc_false (fun r : Region => r.body.isBIOS) f.regions x hxb]; exact hj)
      (by simp only [ext]; rw [List.getElem?_append_left hil]; exact hmer)
      (by simp only [ext]; rw [List.getElem?_append_left hjl]; exact hbr)
      hmb hbb hmfr hbfr hadj hbo her

/-! ### what `fillRegionGaps` builds for an image above 2^28 bytes -/

theorem gap_facts' (regs : List FRegion) (img : Bytes) (off next : Nat)
    (h1 : off % 4096 = 0) (h2 : next % 4096 = 0) (h3 : off < next) (h4 : next ≤ img.length) (h5 : next ≤ 2 ^ 28) :
    ∃ fr, frOf regs (gapRegion img off next) = .ok fr ∧ fr.baseOff = off ∧ fr.endOff = next ∧
      (payload (gapRegion img off next)).length = next - off ∧ (gapRegion img off next).body = .raw := by
  refine ⟨_, rfl, ?_, ?_, ?_, rfl⟩
  · simp only [FRegion.baseOff, u16, blockSize]
    rw [Nat.mod_eq_of_lt (by omega)]; omega
  · simp only [FRegion.endOff, u16, blockSize]
    omega
  · simp only [payload, gapRegion]
    exact slice_length _ _ _ (by omega)

theorem gap_isGap' (regs : List FRegion) (img : Bytes) (off next : Nat)
    (h1 : off % 4096 = 0) (h2 : next % 4096 = 0) (h3 : off < next) (h4 : next ≤ img.length) (h5 : next ≤ 2 ^ 28) :
    IsGap regs img (gapRegion img off next) := by
  obtain ⟨fr, hf, hb, he, _, hraw⟩ := gap_facts' regs img off next h1 h2 h3 h4 h5
  refine ⟨hraw, ⟨_, rfl⟩, ?_⟩
  intro fr' hfr'
  have e : fr' = fr := (Except.ok.inj (hfr'.symm.trans hf))
  subst e
  refine ⟨by omega, ?_⟩
  rw [hb, he]; rfl

/-- the regions of a large image: a chain that tiles `[off, m)` for some `m ≤ 2^28`, then ONE gap
    region from `m` to the end of the image -/
theorem fillGaps_spec_large (regs : List FRegion) (img : Bytes) (hbig : 2 ^ 28 < img.length)
    (hu : ∀ fr ∈ regs, fr.limit < 65536) :
    ∀ (l : List Region) (off : Nat) (out : List Region),
      (∀ r ∈ l, Parsed regs img r) → l.Pairwise Excl → off % 4096 = 0 → off ≤ 2 ^ 28 →
      fillGaps regs img img.length off l = .ok out →
      ∃ g m, out = g ++ [gapRegion img m img.length] ∧ m % 4096 = 0 ∧ off ≤ m ∧ m ≤ 2 ^ 28 ∧
        Chain regs off g m ∧ (∀ r ∈ g, r ∈ l ∨ IsGap regs img r) ∧ g.Pairwise Excl := by
  intro l
  induction l with
  | nil =>
    intro off out _ _ hoff hle h
    simp only [fillGaps] at h
    split at h
    · injection h with h; subst h
      exact ⟨[], off, rfl, hoff, Nat.le_refl _, hle, by simp [Chain], fun r hr => (by cases hr), List.Pairwise.nil⟩
    · rename_i heq
      exfalso; omega
  | cons r rs ih =>
    intro off out hp hex hoff hle h
    obtain ⟨fr, hfr, hv, hend, hpay⟩ := parsed_frOf regs img r (hp r List.mem_cons_self)
    have hpos := valid_pos fr hv
    have hfl : fr.limit < 65536 := by
      obtain ⟨i, fr', h1, h2, _⟩ := (hp r List.mem_cons_self).slot
      have := frOf_idx_inv regs r i fr' fr h1 h2 hfr
      subst this
      exact hu fr (List.mem_of_getElem? h2)
    have hfe : fr.endOff ≤ 2 ^ 28 := by simp only [FRegion.endOff, blockSize]; omega
    simp only [fillGaps, hfr] at h
    split at h
    · cases h
    · rename_i hge
      split at h
      · cases h
      · rename_i rest hrest
        injection h with h; subst h
        have hbm : fr.baseOff % 4096 = 0 := by simp only [FRegion.baseOff, blockSize]; omega
        have hem : fr.endOff % 4096 = 0 := by simp only [FRegion.endOff, blockSize]; omega
        rw [List.pairwise_cons] at hex
        obtain ⟨g, m, hout, hm4, hlem, hm28, c1, c2, c3⟩ :=
          ih fr.endOff rest (fun x hx => hp x (List.mem_cons_of_mem _ hx)) hex.2 hem hfe hrest
        subst hout
        have hrex : ∀ y ∈ g, Excl r y := by
          intro y hy
          rcases c2 y hy with hy | hy
          · exact hex.1 y hy
          · exact excl_raw_right _ _ hy.1
        have hchain_r : Chain regs fr.baseOff (r :: g) m :=
          ⟨fr, hfr, rfl, by omega, hpay, c1⟩
        split
        · rename_i hgt
          obtain ⟨gf, hgf, hgb, hge', hgp, hgraw⟩ := gap_facts' regs img off fr.baseOff hoff hbm hgt (by omega) (by omega)
          refine ⟨gapRegion img off fr.baseOff :: r :: g, m, by simp, hm4, by omega, hm28, ?_, ?_, ?_⟩
          · exact ⟨gf, hgf, hgb, by omega, by rw [hgp, hge', hgb], by rw [hge']; exact hchain_r⟩
          · intro x hx
            simp only [List.mem_cons] at hx
            rcases hx with rfl | rfl | hx
            · exact Or.inr (gap_isGap' regs img off fr.baseOff hoff hbm hgt (by omega) (by omega))
            · exact Or.inl List.mem_cons_self
            · rcases c2 x hx with h | h
              · exact Or.inl (List.mem_cons_of_mem _ h)
              · exact Or.inr h
          · exact List.Pairwise.cons (fun y _ => excl_raw_left _ _ hgraw) (List.Pairwise.cons hrex c3)
        · rename_i hngt
          have : fr.baseOff = off := by omega
          refine ⟨r :: g, m, by simp, hm4, by omega, hm28, ?_, ?_, ?_⟩
          · rw [← this]; exact hchain_r
          · intro x hx
            simp only [List.mem_cons] at hx
            rcases hx with rfl | hx
            · exact Or.inl List.mem_cons_self
            · rcases c2 x hx with h | h
              · exact Or.inl (List.mem_cons_of_mem _ h)
              · exact Or.inr h
          · exact List.Pairwise.cons hrex c3

/-- **The parsed tree of an image above 2^28 bytes** is a well-formed tree `core` of some size
    `m ≤ 2^28` (a whole number of blocks) plus one last gap region `gapRegion img m size`, whose
    private FlashRegion has the wrapped fields `Base = uint16(m/4096)`,
    `Limit = uint16(uint16(size/4096) − 1)` (so its `EndOffset()` is at most 2^28 < size) and whose
    buffer is the rest of the image.  The payloads of `core` are the image bytes `[4096, m)`. -/
theorem parse_large (pol : Nat) (img : Bytes) (f : Flash) (pol' : Nat)
    (hbig : 2 ^ 28 < img.length) (h63 : img.length < 2 ^ 63)
    (h : parseFlash pol img = .ok (f, pol')) :
    ∃ core m, f = ext core (gapRegion img m img.length) img.length ∧ core.size = m ∧ WF core ∧
      m % 4096 = 0 ∧ descLen ≤ m ∧ m ≤ 2 ^ 28 ∧
      core.regions.flatMap payload = slice img descLen (m - descLen) ∧
      (gapRegion img m img.length).ref =
        .own ⟨u16 (m / blockSize), u16 (u16 (img.length / blockSize) + 65535)⟩ ∧
      (gapRegion img m img.length).body = .raw ∧
      (gapRegion img m img.length).buf = img.drop m ∧
      (∀ fr, frOf core.desc.regs (gapRegion img m img.length) = .ok fr → fr.endOff < img.length) := by
  unfold parseFlash at h
  split at h
  · cases h
  · split at h
    · cases h
    · rename_i hlen
      split at h
      · cases h
      · rename_i d hd
        split at h
        · cases h
        · rename_i r0 rtl hregs
          split at h
          · cases h
          · split at h
            · cases h
            · rename_i rs pol1 hrs
              split at h
              · cases h
              · rename_i rs' hfill
                injection h with h; injection h with h1 _; subst h1
                obtain ⟨hgeom, hu16⟩ := parseDesc_geom _ _ hd
                obtain ⟨hparsed, hpw⟩ := parseRegions_spec img (by omega) d.numberOfRegions d.regs d.regs 0 pol rs pol1
                  (fun k => by simp) hrs
                have hperm := isort_perm (baseKey d.regs) rs
                have hparsed' : ∀ r ∈ isort (baseKey d.regs) rs, Parsed d.regs img r :=
                  fun r hr => (hparsed r (hperm.mem_iff.mp hr)).1
                have hexcl : rs.Pairwise Excl := by
                  refine hpw.imp_of_mem ?_
                  intro a b ha hb hlt'
                  obtain ⟨ia, fa, ra, _, _, _, _, ba, ma⟩ := (hparsed a ha).1.slot
                  obtain ⟨ib, fb, rb, _, _, _, _, bb, mb⟩ := (hparsed b hb).1.slot
                  simp only [slotOf, ra, rb] at hlt'
                  constructor
                  · rintro ⟨x, y⟩; have := ma.mp x; have := mb.mp y; omega
                  · rintro ⟨x, y⟩; have := ba.mp x; have := bb.mp y; omega
                have hexcl' : (isort (baseKey d.regs) rs).Pairwise Excl :=
                  (hperm.pairwise_iff (fun {a b} (h : Excl a b) => h.symm)).mpr hexcl
                obtain ⟨g, m, hout, hm4, hlem, hm28, hchain, hmem, hex⟩ :=
                  fillGaps_spec_large d.regs img hbig (fun fr hfr => (hu16 fr hfr).2) _ descLen rs' hparsed' hexcl'
                    (by simp [descLen]) (by simp [descLen]) hfill
                subst hout
                have hcase : ∀ r ∈ g, Parsed d.regs img r ∨ IsGap d.regs img r := by
                  intro r hr
                  rcases hmem r hr with h | h
                  · exact Or.inl (hparsed' r h)
                  · exact Or.inr h
                refine ⟨{ desc := d, regions := g, size := m, buf := img }, m, rfl, rfl, ?_, hm4, hlem, hm28, ?_, rfl, rfl, ?_, ?_⟩
                · refine
                    { geom := hgeom, u16 := hu16, chain := hchain, meRef := ?_, biosRef := ?_, rawRef := ?_,
                      oneME := ?_, oneBIOS := ?_, pos := ?_, bios := ?_, me := ?_ }
                  · intro r hr hme
                    rcases hcase r hr with hp | hg
                    · obtain ⟨i, fr, href, _, _, _, _, _, m⟩ := hp.slot
                      rw [href, m.mp hme]
                    · simp [hg.1, Body.isME] at hme
                  · intro r hr hb
                    rcases hcase r hr with hp | hg
                    · obtain ⟨i, fr, href, _, _, _, _, b, _⟩ := hp.slot
                      rw [href, b.mp hb]
                    · simp [hg.1, Body.isBIOS] at hb
                  · intro r hr hraw k hk
                    rcases hcase r hr with hp | hg
                    · obtain ⟨i, fr, href, _, _, _, _, b, m⟩ := hp.slot
                      rw [href] at hk; injection hk with hk; subst hk
                      have n0 : ¬ i = 0 := fun e => by have := b.mpr e; simp [hraw, Body.isBIOS] at this
                      have n1 : ¬ i = 1 := fun e => by have := m.mpr e; simp [hraw, Body.isME] at this
                      omega
                    · obtain ⟨fr, hfr⟩ := hg.2.1
                      rw [hfr] at hk; cases hk
                  · exact excl_unique g hex (fun r => r.body.isME) (fun a b e => e.1)
                  · exact excl_unique g hex (fun r => r.body.isBIOS) (fun a b e => e.2)
                  · intro r hr _ fr hfr
                    rcases hcase r hr with hp | hg
                    · obtain ⟨fr', hfr', hv, _, _⟩ := parsed_frOf _ _ _ hp
                      have e : fr = fr' := Except.ok.inj (hfr.symm.trans hfr')
                      rw [e]; exact valid_pos _ hv
                    · exact (hg.2.2 fr hfr).1
                  · intro r hr len els hb
                    rcases hcase r hr with hp | hg
                    · exact hp.bios len els hb
                    · rw [hg.1] at hb; cases hb
                  · intro r hr fpt free hb
                    rcases hcase r hr with hp | hg
                    · exact ⟨(hp.me fpt free hb).1, (hp.me fpt free hb).2.1⟩
                    · rw [hg.1] at hb; cases hb
                · exact chain_content d.regs img g descLen m hchain (by
                    intro r hr fr hfr
                    rcases hcase r hr with hp | hg
                    · exact hp.content fr hfr
                    · exact (hg.2.2 fr hfr).2)
                · simp only [gapRegion, slice]
                  exact List.take_of_length_le (by simp)
                · intro fr hfr
                  have := gapRegion_u16 img m img.length fr (by
                    simp only [frOf, gapRegion] at hfr
                    injection hfr with hfr
                    simp only [gapRegion, hfr])
                  simp only [FRegion.endOff, blockSize]
                  omega

end Fiano.TightenMe
