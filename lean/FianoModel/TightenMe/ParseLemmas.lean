/-
  C12: parsing a flash image yields a well-formed tree (`parse_WF`), for images whose size is a
  multiple of the 4 KiB block size and at most 2^28 bytes (at exactly 2^28 the uint16 Limit of the last
  gap region is `uint16(65536) - 1 = 0xFFFF`, which still gives the right end; beyond that it wraps to a
  small number and the tree can never be saved — `asmFlash_fails_large` in Large.lean; an image whose
  size is not a multiple of 4 KiB parses but can never be saved either).
-/
import FianoModel.TightenMe.Preserve
import FianoModel.Uefi.FaithfulCor

namespace Fiano.TightenMe

/-! ### descriptor -/

theorem decodeRegs_length (n : Nat) (b : Bytes) : (decodeRegs n b).length = n := by
  induction n generalizing b with
  | zero => rfl
  | succ n ih => simp [decodeRegs, ih]

theorem fromLE_slice_lt (b : Bytes) (o k : Nat) : fromLE (slice b o k) < 256 ^ k := by
  have h1 := fromLE_lt (slice b o k)
  have h2 : (slice b o k).length ≤ k := by simp [slice]; omega
  exact Nat.lt_of_lt_of_le h1 (Nat.pow_le_pow_right (by omega) h2)

theorem decodeRegs_u16 (n : Nat) (b : Bytes) : ∀ fr ∈ decodeRegs n b, fr.base < 65536 ∧ fr.limit < 65536 := by
  induction n generalizing b with
  | zero => intro fr h; cases h
  | succ n ih =>
    intro fr h
    simp only [decodeRegs, List.mem_cons] at h
    rcases h with rfl | h
    · exact ⟨fromLE_slice_lt b 0 2, fromLE_slice_lt b 2 2⟩
    · exact ih _ fr h

theorem findSignature_some (b : Bytes) (ms : Nat) (h : findSignature b = some ms) : ms = 20 ∨ ms = 4 := by
  unfold findSignature at h
  split at h
  · cases h
  · split at h
    · injection h with h; omega
    · split at h
      · injection h with h; omega
      · cases h

theorem parseDesc_geom (b : Bytes) (d : Desc) (h : parseDesc b = .ok d) :
    d.Geom ∧ (∀ fr ∈ d.regs, fr.base < 65536 ∧ fr.limit < 65536) := by
  unfold parseDesc at h
  split at h
  · cases h
  · rename_i hlen
    split at h
    · cases h
    · rename_i ms hms
      simp only at h
      split at h
      · cases h
      · rename_i hreg
        injection h with h
        subst h
        have hms' := findSignature_some b ms hms
        have hb : b.length = 4096 := by simpa [descLen] using hlen
        have hm := fromLE_slice_lt (slice b ms mapSize) 4 1
        simp only [descLen, regionSectionSize, mapSize, masterSize, nRegions] at *
        refine ⟨⟨hb, ?_, ?_, decodeRegs_length _ _, ?_, ?_, ?_⟩, decodeRegs_u16 _ _⟩
        · exact slice_length b ms 16 (by omega)
        · exact slice_length b _ 12 (by omega)
        · simp only [descLen, mapSize]; omega
        · simp only [descLen, regionSectionSize]; omega
        · simp only [descLen, masterSize]; omega

/-! ### BIOS elements cover the region buffer -/

theorem none_bounded : Uefi.Hooks.none.BoundedCodecs := by
  intro g c x y h; cases h

theorem toElem_buf (e : Uefi.BiosElem) : (toElem e).buf = e.buf := by
  cases e <;> rfl

/-- the elements the shared parser finds cover the region buffer (its theorem `elems_concat`, C04) -/
theorem parseBios_flat (fuel pol : Nat) (buf : Bytes) (els : List Elem) (pol' : Nat)
    (hlen : buf.length < 9223372036854775808)
    (h : parseBios fuel pol buf = .ok (els, pol')) : els.flatMap (·.buf) = buf := by
  unfold parseBios at h
  split at h
  · cases h
  · rename_i es st hp
    injection h with h; injection h with h1 _; subst h1
    have he := Uefi.bios_elems Uefi.Hooks.none none_bounded fuel buf 0 _ es st hlen hp
    have hc := Uefi.elems_concat Uefi.Hooks.none es buf 0 he
    rw [← hc, List.flatMap_def, List.map_map]
    congr 2
    funext e
    exact toElem_buf e

/-! ### FreeSpaceOffset is below 2^33 -/

theorem parseEntries_lt (n : Nat) (b : Bytes) : ∀ e ∈ parseEntries n b, e.offset < 2 ^ 32 ∧ e.length < 2 ^ 32 := by
  induction n generalizing b with
  | zero => intro e h; cases h
  | succ n ih =>
    intro e h
    simp only [parseEntries, List.mem_cons] at h
    rcases h with rfl | h
    · exact ⟨fromLE_slice_lt b 8 4, fromLE_slice_lt b 12 4⟩
    · exact ih _ e h

theorem freeOf_lt (es : List Entry) (h : ∀ e ∈ es, e.offset < 2 ^ 32 ∧ e.length < 2 ^ 32) : freeOf es < 2 ^ 33 := by
  rcases freeOf_attained es with h0 | ⟨e, he, _, h1⟩
  · rw [h0]; decide
  · have := h e he
    omega

theorem parseFPT_lt (buf : Bytes) (es : List Entry) (h : parseFPT buf = some es) : freeOf es < 2 ^ 33 := by
  unfold parseFPT at h
  split at h
  · cases h
  · simp only at h
    split at h
    · cases h
    · split at h
      · cases h
      · injection h with h; subst h
        exact freeOf_lt _ (parseEntries_lt _ _)

def slotOf (r : Region) : Nat := match r.ref with | .idx k => k | .own _ => 0

/-- a node built by the region loop of NewFlashImage -/
structure Parsed (regs : List FRegion) (img : Bytes) (r : Region) : Prop where
  slot : ∃ i fr, r.ref = .idx i ∧ regs[i]? = some fr ∧ fr.valid = true ∧ fr.endOff ≤ img.length ∧
    (payload r).length = fr.endOff - fr.baseOff ∧
    (r.body.isBIOS = true ↔ i = 0) ∧ (r.body.isME = true ↔ i = 1)
  bios : ∀ len els, r.body = .bios len els → len = (els.flatMap (·.buf)).length
  me : ∀ fpt free, r.body = .me fpt free →
    free = (match fpt with | some es => freeOf es | none => 0) ∧ free < 2 ^ 33 ∧ fpt = parseFPT r.buf
  /-- the payload is the image's bytes at the region's extent -/
  content : ∀ fr, frOf regs r = .ok fr → payload r = slice img fr.baseOff (fr.endOff - fr.baseOff)

theorem valid_pos (fr : FRegion) (h : fr.valid = true) : fr.baseOff < fr.endOff := by
  simp only [FRegion.valid, Bool.and_eq_true, decide_eq_true_eq] at h
  simp only [FRegion.baseOff, FRegion.endOff, blockSize]
  omega


theorem frOf_idx_inv (regs : List FRegion) (r : Region) (i : Nat) (fr fr' : FRegion) (href : r.ref = .idx i)
    (hfr : regs[i]? = some fr) (h : frOf regs r = .ok fr') : fr' = fr := by
  rw [frOf_idx regs r i href fr hfr] at h
  exact (Except.ok.inj h).symm

theorem parseRegions_spec (img : Bytes) (himg : img.length < 9223372036854775808) (nr : Nat) (regs : List FRegion) :
    ∀ (frs : List FRegion) (i pol : Nat) (rs : List Region) (pol' : Nat),
      (∀ k, frs[k]? = regs[i + k]?) → parseRegions img nr i frs pol = .ok (rs, pol') →
      (∀ r ∈ rs, Parsed regs img r ∧ i ≤ slotOf r) ∧ rs.Pairwise (fun a b => slotOf a < slotOf b) := by
  intro frs
  induction frs with
  | nil =>
    intro i pol rs pol' _ h
    simp only [parseRegions] at h
    injection h with h; injection h with h1 _; subst h1
    exact ⟨fun r hr => (by cases hr), List.Pairwise.nil⟩
  | cons fr frs ih =>
    intro i pol rs pol' hfrs h
    have hnext : ∀ k, frs[k]? = regs[i + 1 + k]? := by
      intro k
      have := hfrs (k + 1)
      simp only [List.getElem?_cons_succ] at this
      rw [this]; congr 1; omega
    have hfr : regs[i]? = some fr := by
      have := hfrs 0
      simpa using this.symm
    -- the recursive call, whatever the branch
    have hrec : ∀ pol1 rs1 pol2, parseRegions img nr (i + 1) frs pol1 = .ok (rs1, pol2) →
        (∀ r ∈ rs1, Parsed regs img r ∧ i ≤ slotOf r) ∧ rs1.Pairwise (fun a b => slotOf a < slotOf b) ∧
        (∀ r ∈ rs1, i + 1 ≤ slotOf r) := by
      intro pol1 rs1 pol2 h1
      obtain ⟨a, b⟩ := ih (i + 1) pol1 rs1 pol2 hnext h1
      exact ⟨fun r hr => ⟨(a r hr).1, by have := (a r hr).2; omega⟩, b, fun r hr => (a r hr).2⟩
    unfold parseRegions at h
    split at h
    · injection h with h; injection h with h1 _; subst h1
      exact ⟨fun r hr => (by cases hr), List.Pairwise.nil⟩
    · split at h
      · obtain ⟨a, b, _⟩ := hrec _ _ _ h; exact ⟨a, b⟩
      · rename_i hvalid
        split at h
        · obtain ⟨a, b, _⟩ := hrec _ _ _ h; exact ⟨a, b⟩
        · split at h
          · obtain ⟨a, b, _⟩ := hrec _ _ _ h; exact ⟨a, b⟩
          · rename_i hb he
            have hv : fr.valid = true := by simpa using hvalid
            have hpos := valid_pos fr hv
            have hlen : (slice img fr.baseOff (fr.endOff - fr.baseOff)).length = fr.endOff - fr.baseOff :=
              slice_length _ _ _ (by omega)
            simp only at h
            split at h
            · -- BIOS
              rename_i hi0
              split at h
              · cases h
              · rename_i els pol1 hbios
                split at h
                · cases h
                · rename_i rs1 pol2 hrs1
                  injection h with h; injection h with h1 _; subst h1
                  obtain ⟨a, b, c⟩ := hrec _ _ _ hrs1
                  have hflat := parseBios_flat _ _ _ _ _ (by rw [hlen]; omega) hbios
                  refine ⟨?_, List.Pairwise.cons (fun y hy => (by have := c y hy; show i < slotOf y; omega)) b⟩
                  intro r hr
                  rcases List.mem_cons.mp hr with rfl | hr
                  · refine ⟨⟨⟨i, fr, rfl, hfr, hv, by omega, ?_, ?_, ?_⟩, ?_, ?_, ?_⟩, by simp [slotOf]⟩
                    · simp only [payload, hflat, hlen]
                    · simp [Body.isBIOS, hi0]
                    · simp [Body.isME, hi0]
                    · intro len els' hb'
                      simp only [Body.bios.injEq] at hb'
                      obtain ⟨rfl, rfl⟩ := hb'
                      rw [hflat]
                    · intro fpt free hb'; cases hb'
                    · intro fr' hfr'
                      rw [frOf_idx_inv regs _ i fr fr' rfl hfr hfr']
                      simp only [payload, hflat]
                  · exact a r hr
            · rename_i hi0
              split at h
              · cases h
              · rename_i rs1 pol2 hrs1
                injection h with h; injection h with h1 _; subst h1
                obtain ⟨a, b, c⟩ := hrec _ _ _ hrs1
                refine ⟨?_, List.Pairwise.cons (fun y hy => (by have := c y hy; show i < slotOf y; omega)) b⟩
                intro r hr
                rcases List.mem_cons.mp hr with rfl | hr
                · refine ⟨?_, by simp [slotOf]⟩
                  by_cases hi1 : i = 1
                  · simp only [hi1, if_true]
                    cases hf : parseFPT (slice img fr.baseOff (fr.endOff - fr.baseOff)) with
                    | none =>
                      refine ⟨⟨1, fr, rfl, by rw [← hi1]; exact hfr, hv, by omega, ?_, ?_, ?_⟩, ?_, ?_, ?_⟩
                      · simp only [payload, hlen]
                      · simp [Body.isBIOS]
                      · simp [Body.isME]
                      · intro len els hb'; cases hb'
                      · intro fpt free hb'
                        simp only [Body.me.injEq] at hb'
                        obtain ⟨rfl, rfl⟩ := hb'
                        exact ⟨rfl, by decide, hf.symm⟩
                      · intro fr' hfr'
                        rw [frOf_idx_inv regs _ 1 fr fr' rfl (by rw [← hi1]; exact hfr) hfr']
                        simp only [payload]
                    | some es =>
                      refine ⟨⟨1, fr, rfl, by rw [← hi1]; exact hfr, hv, by omega, ?_, ?_, ?_⟩, ?_, ?_, ?_⟩
                      · simp only [payload, hlen]
                      · simp [Body.isBIOS]
                      · simp [Body.isME]
                      · intro len els hb'; cases hb'
                      · intro fpt free hb'
                        simp only [Body.me.injEq] at hb'
                        obtain ⟨rfl, rfl⟩ := hb'
                        exact ⟨rfl, parseFPT_lt _ _ hf, hf.symm⟩
                      · intro fr' hfr'
                        rw [frOf_idx_inv regs _ 1 fr fr' rfl (by rw [← hi1]; exact hfr) hfr']
                        simp only [payload]
                  · simp only [hi1, if_false]
                    refine ⟨⟨i, fr, rfl, hfr, hv, by omega, ?_, ?_, ?_⟩, ?_, ?_, ?_⟩
                    · simp only [payload, hlen]
                    · simp [Body.isBIOS]; omega
                    · simp [Body.isME]; omega
                    · intro len els hb'; cases hb'
                    · intro fpt free hb'; cases hb'
                    · intro fr' hfr'
                      rw [frOf_idx_inv regs _ i fr fr' rfl hfr hfr']
                      simp only [payload]
                · exact a r hr

theorem insertBy_perm {α} (key : α → Nat) (x : α) (l : List α) : (insertBy key x l).Perm (x :: l) := by
  induction l with
  | nil => exact List.Perm.refl _
  | cons y ys ih =>
    simp only [insertBy]
    split
    · exact (List.Perm.cons y ih).trans (List.Perm.swap x y ys)
    · exact List.Perm.refl _

theorem isort_perm {α} (key : α → Nat) (l : List α) : (isort key l).Perm l := by
  induction l with
  | nil => exact List.Perm.refl _
  | cons x xs ih => exact (insertBy_perm key x _).trans (List.Perm.cons x ih)

/-- the exclusiveness relation carried through sorting and gap filling -/
def Excl (a b : Region) : Prop :=
  ¬ (a.body.isME = true ∧ b.body.isME = true) ∧ ¬ (a.body.isBIOS = true ∧ b.body.isBIOS = true)

theorem Excl.symm {a b : Region} (h : Excl a b) : Excl b a :=
  ⟨fun ⟨x, y⟩ => h.1 ⟨y, x⟩, fun ⟨x, y⟩ => h.2 ⟨y, x⟩⟩

theorem excl_raw_left (a b : Region) (h : a.body = .raw) : Excl a b := by
  simp [Excl, h, Body.isME, Body.isBIOS]
theorem excl_raw_right (a b : Region) (h : b.body = .raw) : Excl a b := by
  simp [Excl, h, Body.isME, Body.isBIOS]

theorem gap_facts (regs : List FRegion) (img : Bytes) (off next : Nat)
    (h1 : off % 4096 = 0) (h2 : next % 4096 = 0) (h3 : off < next) (h4 : next ≤ img.length) (h5 : img.length ≤ 2 ^ 28) :
    ∃ fr, frOf regs (gapRegion img off next) = .ok fr ∧ fr.baseOff = off ∧ fr.endOff = next ∧
      (payload (gapRegion img off next)).length = next - off ∧ (gapRegion img off next).body = .raw := by
  refine ⟨_, rfl, ?_, ?_, ?_, rfl⟩
  · simp only [FRegion.baseOff, u16, blockSize]
    rw [Nat.mod_eq_of_lt (by omega)]; omega
  · simp only [FRegion.endOff, u16, blockSize]
    -- `uint16(next/4096) - 1`: also right for next = 2^28, where uint16(65536) = 0 and 0 - 1 = 0xFFFF
    omega
  · simp only [payload, gapRegion]
    exact slice_length _ _ _ (by omega)


/-! ### fillRegionGaps builds the chain -/

theorem parsed_frOf (regs : List FRegion) (img : Bytes) (r : Region) (h : Parsed regs img r) :
    ∃ fr, frOf regs r = .ok fr ∧ fr.valid = true ∧ fr.endOff ≤ img.length ∧
      (payload r).length = fr.endOff - fr.baseOff := by
  obtain ⟨i, fr, h1, h2, h3, h4, h5, _, _⟩ := h.slot
  exact ⟨fr, frOf_idx regs r i h1 fr h2, h3, h4, h5⟩

def IsGap (regs : List FRegion) (img : Bytes) (r : Region) : Prop :=
  r.body = .raw ∧ (∃ fr, r.ref = .own fr) ∧ ∀ fr, frOf regs r = .ok fr →
    fr.baseOff < fr.endOff ∧ payload r = slice img fr.baseOff (fr.endOff - fr.baseOff)

theorem gap_isGap (regs : List FRegion) (img : Bytes) (off next : Nat)
    (h1 : off % 4096 = 0) (h2 : next % 4096 = 0) (h3 : off < next) (h4 : next ≤ img.length) (h5 : img.length ≤ 2 ^ 28) :
    IsGap regs img (gapRegion img off next) := by
  obtain ⟨fr, hf, hb, he, _, hraw⟩ := gap_facts regs img off next h1 h2 h3 h4 h5
  refine ⟨hraw, ⟨_, rfl⟩, ?_⟩
  intro fr' hfr'
  have e : fr' = fr := (Except.ok.inj (hfr'.symm.trans hf))
  subst e
  refine ⟨by omega, ?_⟩
  rw [hb, he]; rfl

theorem fillGaps_spec (regs : List FRegion) (img : Bytes) (hsz : img.length % 4096 = 0) (hlt : img.length ≤ 2 ^ 28) :
    ∀ (l : List Region) (off : Nat) (out : List Region),
      (∀ r ∈ l, Parsed regs img r) → l.Pairwise Excl → off % 4096 = 0 → off ≤ img.length →
      fillGaps regs img img.length off l = .ok out →
      Chain regs off out img.length ∧ (∀ r ∈ out, r ∈ l ∨ IsGap regs img r) ∧ out.Pairwise Excl := by
  intro l
  induction l with
  | nil =>
    intro off out _ _ hoff hle h
    simp only [fillGaps] at h
    split at h
    · rename_i hne
      injection h with h; subst h
      obtain ⟨fr, hf, hb, he, hp, hraw⟩ := gap_facts regs img off img.length hoff hsz (by omega) (Nat.le_refl _) hlt
      refine ⟨⟨fr, hf, hb, by omega, by rw [hp, he, hb], by simp [Chain, he]⟩, ?_, ?_⟩
      · intro r hr
        simp only [List.mem_singleton] at hr; subst hr
        exact Or.inr (gap_isGap regs img off img.length hoff hsz (by omega) (Nat.le_refl _) hlt)
      · exact List.pairwise_singleton _ _
    · rename_i heq
      injection h with h; subst h
      exact ⟨by simp only [Chain]; omega, fun r hr => (by cases hr), List.Pairwise.nil⟩
  | cons r rs ih =>
    intro off out hp hex hoff hle h
    obtain ⟨fr, hfr, hv, hend, hpay⟩ := parsed_frOf regs img r (hp r List.mem_cons_self)
    have hpos := valid_pos fr hv
    simp only [fillGaps, hfr] at h
    split at h
    · cases h
    · rename_i hge
      split at h
      · cases h
      · rename_i rest hrest
        injection h with h; subst h
        have hbm : fr.baseOff % 4096 = 0 := by simp only [FRegion.baseOff, blockSize]; omega
        have hem : fr.endOff % 4096 = 0 := by simp only [FRegion.endOff, blockSize]; omega
        rw [List.pairwise_cons] at hex
        obtain ⟨c1, c2, c3⟩ := ih fr.endOff rest (fun x hx => hp x (List.mem_cons_of_mem _ hx)) hex.2 hem hend hrest
        have hrex : ∀ y ∈ rest, Excl r y := by
          intro y hy
          rcases c2 y hy with hy | hy
          · exact hex.1 y hy
          · exact excl_raw_right _ _ hy.1
        have hchain_r : Chain regs fr.baseOff (r :: rest) img.length :=
          ⟨fr, hfr, rfl, by omega, hpay, c1⟩
        split
        · rename_i hgt
          obtain ⟨gf, hgf, hgb, hge', hgp, hgraw⟩ := gap_facts regs img off fr.baseOff hoff hbm hgt (by omega) hlt
          refine ⟨?_, ?_, ?_⟩
          · exact ⟨gf, hgf, hgb, by omega, by rw [hgp, hge', hgb], by rw [hge']; exact hchain_r⟩
          · intro x hx
            simp only [List.singleton_append, List.mem_cons] at hx
            rcases hx with rfl | rfl | hx
            · exact Or.inr (gap_isGap regs img off fr.baseOff hoff hbm hgt (by omega) hlt)
            · exact Or.inl List.mem_cons_self
            · rcases c2 x hx with h | h
              · exact Or.inl (List.mem_cons_of_mem _ h)
              · exact Or.inr h
          · simp only [List.singleton_append]
            exact List.Pairwise.cons (fun y _ => excl_raw_left _ _ hgraw) (List.Pairwise.cons hrex c3)
        · rename_i hngt
          have : fr.baseOff = off := by omega
          refine ⟨?_, ?_, ?_⟩
          · simp only [List.nil_append]; rw [← this]; exact hchain_r
          · intro x hx
            simp only [List.nil_append, List.mem_cons] at hx
            rcases hx with rfl | hx
            · exact Or.inl List.mem_cons_self
            · rcases c2 x hx with h | h
              · exact Or.inl (List.mem_cons_of_mem _ h)
              · exact Or.inr h
          · simp only [List.nil_append]
            exact List.Pairwise.cons hrex c3

/-- pairwise exclusiveness gives uniqueness by position -/
theorem excl_unique (l : List Region) (h : l.Pairwise Excl) (p : Region → Bool)
    (hp : ∀ a b, Excl a b → ¬ (p a = true ∧ p b = true)) :
    ∀ (a b : Nat) (x y : Region), l[a]? = some x → l[b]? = some y → p x = true → p y = true → a = b := by
  induction l with
  | nil => intro a b x y hx; simp at hx
  | cons z zs ih =>
    rw [List.pairwise_cons] at h
    intro a b x y hx hy px py
    match a, b with
    | 0, 0 => rfl
    | 0, b + 1 =>
      simp only [List.getElem?_cons_zero, Option.some.injEq] at hx; subst hx
      simp only [List.getElem?_cons_succ] at hy
      exact absurd ⟨px, py⟩ (hp _ _ (h.1 y (List.mem_of_getElem? hy)))
    | a + 1, 0 =>
      simp only [List.getElem?_cons_zero, Option.some.injEq] at hy; subst hy
      simp only [List.getElem?_cons_succ] at hx
      exact absurd ⟨py, px⟩ (hp _ _ (h.1 x (List.mem_of_getElem? hx)))
    | a + 1, b + 1 =>
      simp only [List.getElem?_cons_succ] at hx hy
      have := ih h.2 a b x y hx hy px py
      omega

/-- a chain whose payloads are the image's bytes at their extents concatenates to the image -/
theorem chain_content (regs : List FRegion) (img : Bytes) (l : List Region) (off size : Nat)
    (h : Chain regs off l size)
    (hc : ∀ r ∈ l, ∀ fr, frOf regs r = .ok fr → payload r = slice img fr.baseOff (fr.endOff - fr.baseOff)) :
    l.flatMap payload = slice img off (size - off) := by
  induction l generalizing off with
  | nil => simp only [Chain] at h; subst h; simp [slice]
  | cons x xs ih =>
    obtain ⟨fr, h1, h2, h3, _, h5⟩ := h
    have hle := chain_le _ _ _ _ h5
    have := ih _ h5 (fun r hr => hc r (List.mem_cons_of_mem _ hr))
    simp only [List.flatMap_cons, this, hc x List.mem_cons_self fr h1]
    rw [h2] at h3 ⊢
    have e : size - off = (fr.endOff - off) + (size - fr.endOff) := by omega
    rw [e, slice_add]
    have e2 : off + (fr.endOff - off) = fr.endOff := by omega
    rw [e2]

/-! ### the theorem -/

/-- **Parsing yields a well-formed tree.** -/
theorem parse_WF (pol : Nat) (img : Bytes) (f : Flash) (pol' : Nat)
    (hsz : img.length % 4096 = 0) (hlt : img.length ≤ 2 ^ 28)
    (h : parseFlash pol img = .ok (f, pol')) :
    WF f ∧ f.size = img.length ∧ f.buf = img ∧ f.regions.flatMap payload = img.drop descLen ∧
    parseDesc (img.take descLen) = .ok f.desc ∧
    (∀ r ∈ f.regions, Parsed f.desc.regs img r ∨ IsGap f.desc.regs img r) := by
  unfold parseFlash at h
  split at h
  · cases h
  · split at h
    · cases h
    · rename_i hlen
      split at h
      · cases h
      · rename_i d hd
        split at h
        · cases h
        · rename_i r0 rtl hregs
          split at h
          · cases h
          · split at h
            · cases h
            · rename_i rs pol1 hrs
              split at h
              · cases h
              · rename_i rs' hfill
                injection h with h; injection h with h1 _; subst h1
                obtain ⟨hgeom, hu16⟩ := parseDesc_geom _ _ hd
                obtain ⟨hparsed, hpw⟩ := parseRegions_spec img (by omega) d.numberOfRegions d.regs d.regs 0 pol rs pol1
                  (fun k => by simp) hrs
                have hperm := isort_perm (baseKey d.regs) rs
                have hparsed' : ∀ r ∈ isort (baseKey d.regs) rs, Parsed d.regs img r :=
                  fun r hr => (hparsed r (hperm.mem_iff.mp hr)).1
                have hexcl : rs.Pairwise Excl := by
                  refine hpw.imp_of_mem ?_
                  intro a b ha hb hlt'
                  obtain ⟨ia, fa, ra, _, _, _, _, ba, ma⟩ := (hparsed a ha).1.slot
                  obtain ⟨ib, fb, rb, _, _, _, _, bb, mb⟩ := (hparsed b hb).1.slot
                  simp only [slotOf, ra, rb] at hlt'
                  constructor
                  · rintro ⟨x, y⟩; have := ma.mp x; have := mb.mp y; omega
                  · rintro ⟨x, y⟩; have := ba.mp x; have := bb.mp y; omega
                have hexcl' : (isort (baseKey d.regs) rs).Pairwise Excl :=
                  (hperm.pairwise_iff (fun {a b} (h : Excl a b) => h.symm)).mpr hexcl
                have hdl : descLen ≤ img.length := by omega
                obtain ⟨hchain, hmem, hex⟩ := fillGaps_spec d.regs img hsz hlt _ descLen rs' hparsed' hexcl'
                  (by simp [descLen]) hdl hfill
                have hcase : ∀ r ∈ rs', Parsed d.regs img r ∨ IsGap d.regs img r := by
                  intro r hr
                  rcases hmem r hr with h | h
                  · exact Or.inl (hparsed' r h)
                  · exact Or.inr h
                refine ⟨?_, rfl, rfl, ?_, hd, hcase⟩
                rotate_left
                · have := chain_content d.regs img rs' descLen img.length hchain (by
                    intro r hr fr hfr
                    rcases hcase r hr with hp | hg
                    · exact hp.content fr hfr
                    · exact (hg.2.2 fr hfr).2)
                  simp only [this, slice]
                  exact List.take_of_length_le (by simp)
                refine
                  { geom := hgeom, u16 := hu16, chain := hchain, meRef := ?_, biosRef := ?_, rawRef := ?_,
                    oneME := ?_, oneBIOS := ?_, pos := ?_, bios := ?_, me := ?_ }
                · intro r hr hme
                  rcases hcase r hr with hp | hg
                  · obtain ⟨i, fr, href, _, _, _, _, _, m⟩ := hp.slot
                    rw [href, m.mp hme]
                  · simp [hg.1, Body.isME] at hme
                · intro r hr hb
                  rcases hcase r hr with hp | hg
                  · obtain ⟨i, fr, href, _, _, _, _, b, _⟩ := hp.slot
                    rw [href, b.mp hb]
                  · simp [hg.1, Body.isBIOS] at hb
                · intro r hr hraw k hk
                  rcases hcase r hr with hp | hg
                  · obtain ⟨i, fr, href, _, _, _, _, b, m⟩ := hp.slot
                    rw [href] at hk; injection hk with hk; subst hk
                    have n0 : ¬ i = 0 := fun e => by have := b.mpr e; simp [hraw, Body.isBIOS] at this
                    have n1 : ¬ i = 1 := fun e => by have := m.mpr e; simp [hraw, Body.isME] at this
                    omega
                  · obtain ⟨fr, hfr⟩ := hg.2.1
                    rw [hfr] at hk; cases hk
                · exact excl_unique rs' hex (fun r => r.body.isME) (fun a b e => e.1)
                · exact excl_unique rs' hex (fun r => r.body.isBIOS) (fun a b e => e.2)
                · intro r hr _ fr hfr
                  rcases hcase r hr with hp | hg
                  · obtain ⟨fr', hfr', hv, _, _⟩ := parsed_frOf _ _ _ hp
                    have e : fr = fr' := Except.ok.inj (hfr.symm.trans hfr')
                    rw [e]; exact valid_pos _ hv
                  · exact (hg.2.2 fr hfr).1
                · intro r hr len els hb
                  rcases hcase r hr with hp | hg
                  · exact hp.bios len els hb
                  · rw [hg.1] at hb; cases hb
                · intro r hr fpt free hb
                  rcases hcase r hr with hp | hg
                  · exact ⟨(hp.me fpt free hb).1, (hp.me fpt free hb).2.1⟩
                  · rw [hg.1] at hb; cases hb

end Fiano.TightenMe
